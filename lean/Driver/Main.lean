import PlushModel
/-!
  Line protocol driver (DESIGN.md §4.2): one case per line in, one canonical observation per
  line out. Core-only so that it links as a `lean_exe`.
-/
open Plush

def tokObs (t : Token) : String :=
  s!"{reprStr t.type |>.replace "Plush.TT." ""}:{toHexField t.lit}:{t.line}"

def stripTrailingEOF (ts : List String) : List String :=
  let rec go : List String → List String
    | a :: c :: rest => if a.startsWith "EOF:" && a == c then go (c :: rest) else a :: c :: rest
    | l => l
  (go ts.reverse).reverse

def obsLex (src : Bytes) : String :=
  let input := src.toArray
  let l := LX.new input
  if lexCrashed (input.size + 2) l then "PANIC"
  else
    let toks := lexN (input.size + 2) l
    "OK " ++ " ".intercalate (stripTrailingEOF (toks.map tokObs))

def handle (line : String) : String :=
  match line.splitOn " " with
  | ["lex", h] =>
    match fromHex h with
    | some src => obsLex src
    | none => "BADLINE"
  | ["parse", h] =>
    match fromHex h with
    | some src => obsParse src
    | none => "BADLINE"
  | ["render", env, src, feeder] => obsRender env src feeder
  | ["ctx", ops] => obsCtx ops
  | _ => "BADLINE"

partial def loop (hin hout : IO.FS.Stream) : IO Unit := do
  let line ← hin.getLine
  if line.isEmpty then return ()
  let line := (line.trimAsciiEnd).toString
  hout.putStrLn (handle line)
  loop hin hout

def main : IO Unit := do
  let hin ← IO.getStdin
  let hout ← IO.getStdout
  loop hin hout
  hout.flush
