import PlushModel.Bytes
import PlushModel.Token
import PlushModel.Lexer
import PlushModel.Ast
import PlushModel.Printer
import PlushModel.Parser
import PlushModel.Dump
import PlushModel.Render
