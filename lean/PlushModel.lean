import PlushModel.Bytes
