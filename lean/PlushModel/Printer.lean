import PlushModel.Ast
/-! The `String()` methods of /repo/ast/*.go (after the nil-tolerance fix). -/
namespace Plush

mutual
def pExpr : Expr → Bytes
  | .html t _ => t.lit
  | .str t _ => [34] ++ t.lit ++ [34]
  | .int t _ => t.lit
  | .float t => t.lit
  | .bool t _ => t.lit
  | .ident i => i.str
  | .pre _ op r => [40] ++ op ++ (match r with | some e => pExpr e | none => b "<pe.Right == nil>") ++ [41]
  | .inf _ op l r =>
      [40] ++ (match l with | some e => pExpr e | none => []) ++ [32] ++ op ++ [32]
        ++ (match r with | some e => pExpr e | none => b " !!MISSING '%>'!!") ++ [41]
  | .asg _ n v => n.str ++ b " = " ++ (match v with | some e => pExpr e | none => b "?")
  | .arr _ es => [91] ++ (match es with | some l => joinWith (b ", ") (strsSome l) | none => []) ++ [93]
  | .hash _ ps => [123] ++ joinWith (b ", ") (pairStrs ps) ++ [125]
  | .idx _ l i v c =>
      [40] ++ optStr l ++ [91] ++ optStr i
        ++ (match c with | some e => [93, 46] ++ pExpr e ++ [41] | none => [93, 41])
        ++ (match v with | some e => [61] ++ pExpr e | none => [])
  | .call _ _ _ f args blk =>
      pExpr f ++ [40] ++ (match args with | some l => joinWith (b ", ") (strsSome l) | none => []) ++ [41]
        ++ (match blk with | some bl => b " {\n" ++ pBlock bl ++ [125] | none => [])
  | .fn t ps bl =>
      t.lit ++ [40] ++ joinWith (b ", ") ((ps.getD []).map Ident.str) ++ b ") " ++ pBlock bl
  | .if_ _ c bl elifs els =>
      b "if (" ++ optStr c ++ b ") { " ++ pBlock bl ++ b " }" ++ elifStrs elifs
        ++ (match els with | some e => b " } else { " ++ pBlock e ++ b " }" | none => [])
  | .for_ _ k v it bl =>
      b "for (" ++ k ++ b ", " ++ v ++ b ") in " ++ optStr it ++ b " { "
        ++ (match bl with | some x => pBlock x | none => []) ++ b " }"
  | .brk t => t.lit
  | .cont t => t.lit
def optStr : Option Expr → Bytes
  | some e => pExpr e
  | none => []
def strsSome : List (Option Expr) → List Bytes
  | [] => []
  | some e :: r => pExpr e :: strsSome r
  | none :: r => strsSome r
def pairStrs : List (Option Expr × Option Expr) → List Bytes
  | [] => []
  | (k, v) :: r => (optStr k ++ b ": " ++ optStr v) :: pairStrs r
def elifStrs : List (Token × Option Expr × Block) → Bytes
  | [] => []
  | (_, c, bl) :: r => b " } else if (" ++ optStr c ++ b ") { " ++ pBlock bl ++ b " }" ++ elifStrs r
def pStmt : Stmt → Bytes
  | .ret true _ v => [60, 37, 61, 32] ++ optStr v ++ [59, 32, 37, 62]   -- "<%= " … "; %>" (byte literals: `b "…"` does not reduce in proofs)
  | .ret false _ v => b "return " ++ optStr v ++ b ";"
  | .let_ t n v => t.lit ++ [32] ++ (match n with | some i => i.str | none => []) ++ b " = " ++ optStr v ++ [59]
  | .es _ e => optStr e
def stmtsStr : List Stmt → Bytes
  | [] => []
  | s :: r => [9] ++ pStmt s ++ [10] ++ stmtsStr r
def pBlock : Block → Bytes
  | .mk _ ss => stmtsStr ss
end

/-- `strings.TrimSpace(s) != ""` on the ASCII fragment (token literals that reach `String()` are ASCII
    identifiers/numbers or quoted, so Unicode spaces cannot make up a whole statement). -/
def nonBlank (s : Bytes) : Bool := s.any fun c => !(c == 32 || c == 9 || c == 10 || c == 13 || c == 11 || c == 12)

end Plush
