import PlushModel.Lexer
import PlushModel.Printer
import PlushModel.Gen.Precedences
import PlushModel.Gen.ParseFns
/-!
  Model of /repo/parser/parser.go (Pratt parser with two-token look-ahead), mirrored function
  by function. The token stream is pre-lexed (`lexAll`): `NextToken` is a pure function of the
  lexer state, which the parser never touches. Recursion is on a fuel argument.
-/
namespace Plush

inductive PFail
  | outOfFuel
  | crash (site : String)
  | hang (site : String)
  deriving Repr, DecidableEq

structure PErr where
  line : Option Nat
  kind : String
  deriving Repr, DecidableEq

structure PS where
  toks : Array Token
  eof : Token            -- what NextToken returns for ever once the input is exhausted
  pos : Nat := 0
  errs : Array PErr := #[]
  inFor : Bool := false

abbrev PM := StateT PS (Except PFail)

namespace P

def tokAt (s : PS) (i : Nat) : Token := s.toks.getD i s.eof
def cur : PM Token := do let s ← get; pure (tokAt s s.pos)
def peek : PM Token := do let s ← get; pure (tokAt s (s.pos + 1))
def nextTok : PM Unit := modify fun s => { s with pos := s.pos + 1 }
def curIs (t : TT) : PM Bool := do pure ((← cur).type == t)
def peekIs (t : TT) : PM Bool := do pure ((← peek).type == t)
def addErr (line : Option Nat) (kind : String) : PM Unit :=
  modify fun s => { s with errs := s.errs.push { line := line, kind := kind } }
def errHere (kind : String) : PM Unit := do addErr (some (← cur).line) kind

def expectPeek (t : TT) : PM Bool := do
  if (← peekIs t) then nextTok; pure true
  else errHere "expected-next-token"; pure false

/-- Go map lookup on a table built by successive registrations: the last entry wins. -/
def lookupLast {β} (t : TT) : List (TT × β) → Option β
  | [] => none
  | (k, v) :: r => match lookupLast t r with
    | some x => some x
    | none => if k == t then some v else none

def precOf (t : TT) : Nat := (lookupLast t Gen.precedences).getD Gen.LOWEST
def peekPrecedence : PM Nat := do pure (precOf (← peek).type)
def curPrecedence : PM Nat := do pure (precOf (← cur).type)

def skipSemicolon : PM Unit := do if (← peekIs .SEMICOLON) then nextTok

/-- `ast.Comparable` is implemented by exactly these node types. -/
def isComparable : Expr → Bool
  | .ident _ | .call .. | .idx .. | .inf .. | .pre .. | .str .. | .int .. | .float .. | .bool .. => true
  | _ => false

/-- `confrimIfCondition` (recursion on the tree; appends messages in the Go order). -/
def confirmIfCondition (line : Nat) : Option Expr → Array PErr → Bool × Array PErr
  | none, errs => (false, errs.push { line := some line, kind := "invalid-if-condition" })
  | some e, errs =>
    if !isComparable e then (false, errs.push { line := some line, kind := "invalid-if-condition" })
    else match e with
      | .inf _ _ l r =>
        let (okL, errs) := confirmIfCondition line l errs
        if !okL then (false, errs)
        else
          let (okR, errs) := confirmIfCondition line r errs
          (okR, errs)
      | .pre _ _ r => confirmIfCondition line r errs
      | _ => (true, errs)

/-- `strconv.Atoi` on a digit string: fails exactly when the value exceeds MaxInt64. -/
def atoi (lit : Bytes) : Option Int :=
  if lit.isEmpty || !lit.all (fun c => 48 ≤ c && c ≤ 57) then none
  else
    let n := lit.foldl (fun acc c => acc * 10 + (c.toNat - 48)) 0
    if n ≤ 9223372036854775807 then some (Int.ofNat n) else none

/-- `strconv.ParseFloat(lit, 64)` succeeds on digits[.digits] unless the value rounds to +Inf. -/
def floatLitOk (lit : Bytes) : Bool :=
  match splitOn1 46 lit with
  | [ip] => !ip.isEmpty && ip.all (fun c => 48 ≤ c && c ≤ 57) &&
      ip.foldl (fun acc c => acc * 10 + (c.toNat - 48)) 0 < 2^1024 - 2^970
  | [ip, fp] =>
      (!ip.isEmpty || !fp.isEmpty) && ip.all (fun c => 48 ≤ c && c ≤ 57) && fp.all (fun c => 48 ≤ c && c ≤ 57) &&
      -- value = (ip.fp); compare ip*10^k + fp against (2^1024 - 2^970) * 10^k
      (let k := fp.length
       let num := (ip ++ fp).foldl (fun acc c => acc * 10 + (c.toNat - 48)) 0
       num < (2^1024 - 2^970) * 10^k)
  | _ => false

/-- the synthetic identifier `&ast.Identifier{Value: v}` (zero token) -/
def baseIdent (v : Bytes) : Ident := { tok := { type := .ILLEGAL, lit := [], line := 0 }, base := some v, segs := [] }

/-- `assignCallee` -/
def assignCallee (exp : Option Expr) (calleeValue : Bytes) : PM (Option Expr) := do
  match exp with
  | some (.idx t (some (.ident i)) ix v c) =>
      pure (some (.idx t (some (.ident { i with base := some calleeValue })) ix v c))
  | some (.idx ..) => errHere "invalid-nested-index-access"; pure none
  | some (.call t (some (.ident i)) ch f args blk) =>
      -- a[i].b.f(): b is already the callee of f; hang a[i] at the root of that chain
      -- (the Function identifier shares that chain in Go, so it sees the new root too)
      let f' := match f with
        | .ident fi => Expr.ident { fi with base := some calleeValue }
        | other => other
      pure (some (.call t (some (.ident { i with base := some calleeValue })) ch f' args blk))
  | some (.call t _ ch f args blk) => pure (some (.call t (some (.ident (baseIdent calleeValue))) ch f args blk))
  | some (.ident i) => pure (some (.ident { i with base := some calleeValue }))
  | _ => errHere "invalid-nested-index-access"; pure none

mutual

def parseStatement : Nat → PM (Option Stmt)
  | 0 => throw .outOfFuel
  | fuel+1 => do
    match (← cur).type with
    | .LET => pure (some (← parseLetStatement fuel))
    | .S_START => nextTok; parseStatement fuel
    | .RETURN => pure (some (← parseReturnStatement fuel false))
    | .E_START => pure (some (← parseReturnStatement fuel true))
    | .RBRACE => pure none
    | .EOF => pure none
    | _ => pure (some (← parseExpressionStatement fuel))

def parseReturnStatement : Nat → Bool → PM Stmt
  | 0, _ => throw .outOfFuel
  | fuel+1, isOut => do
    let t ← cur
    nextTok
    let v ← parseExpression fuel Gen.LOWEST
    skipSemicolon
    pure (.ret isOut t v)

def parseLetStatement : Nat → PM Stmt
  | 0 => throw .outOfFuel
  | fuel+1 => do
    let t ← cur
    if !(← expectPeek .IDENT) then return .let_ t none none
    let c ← cur
    let name : Ident := { tok := c, segs := [c.lit] }
    if !(← expectPeek .ASSIGN) then return .let_ t (some name) none
    nextTok
    let v ← parseExpression fuel Gen.LOWEST
    skipSemicolon
    pure (.let_ t (some name) v)

def parseExpressionStatement : Nat → PM Stmt
  | 0 => throw .outOfFuel
  | fuel+1 => do
    let t ← cur
    let e ← parseExpression fuel Gen.LOWEST
    skipSemicolon
    pure (.es t e)

def parseExpression : Nat → Nat → PM (Option Expr)
  | 0, _ => throw .outOfFuel
  | fuel+1, prec => do
    let c ← cur
    if c.type == .LET then return none
    match lookupLast c.type Gen.prefixFns with
    | none => errHere "no-prefix-parse-fn"; pure none
    | some f =>
      let left ← runPrefix fuel f
      infixLoop fuel prec left

def infixLoop : Nat → Nat → Option Expr → PM (Option Expr)
  | 0, _, _ => throw .outOfFuel
  | fuel+1, prec, left => do
    if !(← peekIs .SEMICOLON) && prec < (← peekPrecedence) then
      match lookupLast (← peek).type Gen.infixFns with
      | none => pure left
      | some f =>
        nextTok
        let left ← runInfix fuel f left
        infixLoop fuel prec left
    else pure left

def runPrefix : Nat → Gen.PrefixFn → PM (Option Expr)
  | 0, _ => throw .outOfFuel
  | fuel+1, f => do
    let c ← cur
    match f with
    | .parseIdentifier =>
      let id : Ident := { tok := c, segs := splitOn1 46 c.lit }
      if (← peekIs .ASSIGN) then
        -- parseAssignExpression
        let _ ← expectPeek .ASSIGN
        nextTok
        let v ← parseExpression fuel Gen.LOWEST
        skipSemicolon
        pure (some (.asg c id v))
      else pure (some (.ident id))
    | .parseForLoopControlFlow =>
      if !(← get).inFor then errHere "not-in-a-loop"; pure none
      else if c.type == .BREAK then pure (some (.brk c)) else pure (some (.cont c))
    | .parseIntegerLiteral =>
      match atoi c.lit with
      | some v => pure (some (.int c v))
      | none => errHere "could-not-parse-integer"; pure none
    | .parseFloatLiteral =>
      if floatLitOk c.lit then pure (some (.float c)) else errHere "could-not-parse-float"; pure none
    | .parseStringLiteral => pure (some (.str c c.lit))
    | .parseCommentLiteral =>
      commentLoop fuel
    | .parseHTMLLiteral => pure (some (.html c c.lit))
    | .parsePrefixExpression =>
      nextTok
      let r ← parseExpression fuel Gen.PREFIX
      pure (some (.pre c c.lit r))
    | .parseBoolean => pure (some (.bool c (c.type == .TRUE)))
    | .parseGroupedExpression =>
      nextTok
      let e ← parseExpression fuel Gen.LOWEST
      if !(← expectPeek .RPAREN) then pure none else pure e
    | .parseIfExpression => parseIfExpression fuel
    | .parseForExpression =>
      -- `defer` restores the enclosing loop state on every exit
      let outer := (← get).inFor
      let r ← parseForExpression fuel
      modify fun s => { s with inFor := outer }
      pure r
    | .parseFunctionLiteral =>
      if !(← expectPeek .LPAREN) then return none
      let ps ← parseFunctionParameters fuel
      let outer := (← get).inFor
      modify fun s => { s with inFor := false }
      if !(← expectPeek .LBRACE) then
        modify fun s => { s with inFor := outer }
        return none
      let bl ← parseBlockStatement fuel
      modify fun s => { s with inFor := outer }
      pure (some (.fn c ps bl))
    | .parseArrayLiteral =>
      let es ← parseExpressionList fuel .RBRACKET
      pure (some (.arr c es))
    | .parseHashLiteral => hashLoop fuel c []
    | .returnNil => pure none

def commentLoop : Nat → PM (Option Expr)
  | 0 => throw .outOfFuel
  | fuel+1 => do
    let c ← cur
    if c.type != .E_END && c.type != .EOF then nextTok; commentLoop fuel
    else pure (some (.str c []))

def runInfix : Nat → Gen.InfixFn → Option Expr → PM (Option Expr)
  | 0, _, _ => throw .outOfFuel
  | fuel+1, f, left => do
    let c ← cur
    match f with
    | .parseInfixExpression =>
      let prec ← curPrecedence
      nextTok
      let r ← parseExpression fuel prec
      pure (some (.inf c c.lit left r))
    | .parseCallExpression =>
      match left with
      | none => errHere "nothing-to-call"; pure none
      | some function =>
        let ss := splitOn1 46 (pExpr function)
        let (callee, fn) : Option Expr × Expr :=
          if ss.length > 1 then
            (some (.ident { tok := identTok (ss.dropLast.getLast?.getD []), segs := ss.dropLast }),
             .ident { tok := identTok (ss.getLast?.getD []), segs := ss })
          else (none, function)
        let args ← parseExpressionList fuel .RPAREN
        let blk ← if (← peekIs .LBRACE) then do nextTok; pure (some (← parseBlockStatement fuel)) else pure none
        if (← peekIs .DOT) then
          let calleeValue := pExpr fn
          nextTok; nextTok
          let pe ← parseExpression fuel Gen.LOWEST
          match (← assignCallee pe calleeValue) with
          | none => pure none
          | some ch => pure (some (.call c callee (some ch) fn args blk))
        else pure (some (.call c callee none fn args blk))
    | .parseIndexExpression =>
      match left with
      | none => errHere "nothing-to-index"; pure none
      | some l =>
        nextTok
        let ix ← parseExpression fuel Gen.LOWEST
        if !(← expectPeek .RBRACKET) then return none
        let callee ← if (← peekIs .DOT) then do
            nextTok; nextTok
            let pe ← parseExpression fuel Gen.LOWEST
            match (← assignCallee pe (pExpr l)) with
            | none => return none
            | some x => pure (some x)
          else pure none
        let value ← if (← peekIs .ASSIGN) then do
            nextTok; nextTok
            parseExpression fuel Gen.LOWEST
          else pure none
        pure (some (.idx c (some l) ix value callee))

def parseExpressionList : Nat → TT → PM (Option (List (Option Expr)))
  | 0, _ => throw .outOfFuel
  | fuel+1, end_ => do
    if (← peekIs end_) then nextTok; return some []
    nextTok
    let e ← parseExpression fuel Gen.LOWEST
    let l ← exprListLoop fuel [e]
    if !(← expectPeek end_) then pure none else pure (some l)

def exprListLoop : Nat → List (Option Expr) → PM (List (Option Expr))
  | 0, _ => throw .outOfFuel
  | fuel+1, acc => do
    if (← peekIs .COMMA) then
      nextTok; nextTok
      let e ← parseExpression fuel Gen.LOWEST
      exprListLoop fuel (acc ++ [e])
    else pure acc

def hashLoop : Nat → Token → List (Option Expr × Option Expr) → PM (Option Expr)
  | 0, _, _ => throw .outOfFuel
  | fuel+1, t, acc => do
    if !(← peekIs .RBRACE) then
      nextTok
      let k ← parseExpression fuel Gen.LOWEST
      if !(← expectPeek .COLON) then return none
      nextTok
      let v ← parseExpression fuel Gen.LOWEST
      -- Go stores the pairs in a map keyed by the key node: all nil keys are one entry (last value wins)
      let acc := (if k.isNone then acc.map (fun kv => if kv.1.isNone then (kv.1, v) else kv) else acc) ++ [(k, v)]
      if !(← peekIs .RBRACE) then
        if !(← expectPeek .COMMA) then return none
      hashLoop fuel t acc
    else
      if !(← expectPeek .RBRACE) then pure none else pure (some (.hash t acc))

def parseFunctionParameters : Nat → PM (Option (List Ident))
  | 0 => throw .outOfFuel
  | fuel+1 => do
    if (← peekIs .RPAREN) then nextTok; return some []
    nextTok
    let c ← cur
    let l ← paramLoop fuel [{ tok := c, segs := [c.lit] }]
    if !(← expectPeek .RPAREN) then pure none else pure (some l)

def paramLoop : Nat → List Ident → PM (List Ident)
  | 0, _ => throw .outOfFuel
  | fuel+1, acc => do
    if (← peekIs .COMMA) then
      nextTok; nextTok
      let c ← cur
      paramLoop fuel (acc ++ [{ tok := c, segs := [c.lit] }])
    else pure acc

def parseBlockStatement : Nat → PM Block
  | 0 => throw .outOfFuel
  | fuel+1 => do
    let t ← cur
    nextTok
    let ss ← blockLoop fuel []
    pure (.mk t ss)

def blockLoop : Nat → List Stmt → PM (List Stmt)
  | 0, _ => throw .outOfFuel
  | fuel+1, acc => do
    let c ← cur
    if c.type != .RBRACE && c.type != .EOF then
      if c.type == .S_START || c.type == .E_END then nextTok; blockLoop fuel acc
      else
        let st ← parseStatement fuel
        let acc := match st with | some s => acc ++ [s] | none => acc
        nextTok
        blockLoop fuel acc
    else pure acc

def parseIfExpression : Nat → PM (Option Expr)
  | 0 => throw .outOfFuel
  | fuel+1 => do
    let t ← cur
    if !(← expectPeek .LPAREN) then return none
    nextTok
    let cond ← parseExpression fuel Gen.LOWEST
    let line := (← cur).line
    let s ← get
    let (ok, errs) := confirmIfCondition line cond s.errs
    set { s with errs := errs }
    if !ok then return none
    if !(← expectPeek .RPAREN) then return none
    if !(← expectPeek .LBRACE) then return none
    let bl ← parseBlockStatement fuel
    elseLoop fuel t cond bl [] none

def elseLoop : Nat → Token → Option Expr → Block → List (Token × Option Expr × Block) → Option Block → PM (Option Expr)
  | 0, _, _, _, _, _ => throw .outOfFuel
  | fuel+1, t, cond, bl, elifs, els => do
    if (← peekIs .ELSE) then
      nextTok
      if (← peekIs .IF) then
        nextTok
        -- parseElseIfExpression
        let et ← cur
        if !(← expectPeek .LPAREN) then return none
        nextTok
        let ec ← parseExpression fuel Gen.LOWEST
        if !(← expectPeek .RPAREN) then return none
        if !(← expectPeek .LBRACE) then return none
        let eb ← parseBlockStatement fuel
        elseLoop fuel t cond bl (elifs ++ [(et, ec, eb)]) els
      else
        if !(← expectPeek .LBRACE) then return none
        let eb ← parseBlockStatement fuel
        elseLoop fuel t cond bl elifs (some eb)
    else pure (some (.if_ t cond bl elifs els))

def parseForExpression : Nat → PM (Option Expr)
  | 0 => throw .outOfFuel
  | fuel+1 => do
    let t ← cur
    if !(← expectPeek .LPAREN) then return none
    let ln := (← cur).line
    modify fun s => { s with inFor := true }
    match (← forNamesLoop fuel ln []) with
    | none => pure none
    | some names =>
      let (key, val) : Bytes × Bytes := match names with
        | [v] => (b "_", v)
        | [k, v] => (k, v)
        | _ => (b "_", b "@value")
      nextTok
      if !(← curIs .IN) then return none
      nextTok
      let iter ← parseExpression fuel Gen.LOWEST
      match iter with
      | some (.call ct cal ch f args (some blk)) =>
        pure (some (.for_ t key val (some (.call ct cal ch f args none)) (some blk)))
      | _ =>
        if !(← expectPeek .LBRACE) then return none
        let bl ← parseBlockStatement fuel
        pure (some (.for_ t key val iter (some bl)))

def forNamesLoop : Nat → Nat → List Bytes → PM (Option (List Bytes))
  | 0, _, _ => throw .outOfFuel
  | fuel+1, ln, acc => do
    let c ← cur
    if c.type != .RPAREN then
      let acc := if c.type == .IDENT then acc ++ [c.lit] else acc
      let p ← peek
      if p.type == .LBRACE || p.type == .EOF then
        addErr (some ln) "expected-rparen"
        pure none
      else nextTok; forNamesLoop fuel ln acc
    else pure (some acc)

end

def programLoop : Nat → Nat → List Stmt → PM (List Stmt)
  | 0, _, _ => throw .outOfFuel
  | n+1, fuel, acc => do
    if !(← curIs .EOF) then
      let st ← parseStatement fuel
      let acc := match st with
        | some (.es t (some (.html ht hv))) => acc ++ [.es t (some (.html ht hv))]
        | some s => if nonBlank (pStmt s) then acc ++ [s] else acc
        | none => acc
      nextTok
      programLoop n fuel acc
    else pure acc

end P

/-- depth budget; `PlushProofs/Lib/ParserTotalProof.lean` proves it is never exhausted -/
def parseFuel (ntoks : Nat) : Nat := 64 * ntoks + 32

/-- `parser.Parse`: the program, or the accumulated errors. -/
def parseToks (toks : Array Token) : Except PFail (Program × Array PErr) :=
  let eof := toks.back?.getD { type := .EOF, lit := [], line := 1 }
  let s0 : PS := { toks := toks, eof := eof }
  match (P.programLoop (toks.size + 4) (parseFuel toks.size) []).run s0 with
  | .ok (ss, s) => .ok ({ stmts := ss }, s.errs)
  | .error f => .error f

def parseBytes (src : Bytes) : Except PFail (Program × Array PErr) :=
  parseToks (lexAll src.toArray)

end Plush
