import PlushModel.Eval
/-!
  `plush.Render(input, ctx)` on the model, plus the environment descriptors of the line protocol
  (DESIGN.md Appendix C; the Go side is /verif/harness/corr_env.go).
-/
namespace Plush

def evalFuel (src : Bytes) : Nat := 40 * src.length + 400

/-- `Render(input, NewContextWith(data))` -/
def renderTop (src : Bytes) (data : List (Bytes × Val)) (heap : Array HeapObj) (feeder : List (Bytes × Bytes)) : R Bytes × ES :=
  let (store, root) := ({} : Store).newRoot data
  let s0 : ES := { store := store, heap := heap, cur := root, feeder := feeder }
  renderIn (evalFuel src) src root s0

-- ---------- descriptor parser ----------

structure DP where
  rest : List Char
  heap : Array HeapObj

abbrev DM := StateT DP Option

def dpeek : DM (Option Char) := do pure (← get).rest.head?
def dnext : DM Char := do
  let s ← get
  match s.rest with
  | [] => failure
  | c :: r => set { s with rest := r }; pure c
def dexpect (c : Char) : DM Unit := do if (← dnext) != c then failure
def dtakeWhile (p : Char → Bool) : DM (List Char) := do
  let s ← get
  let tk := s.rest.takeWhile p
  set { s with rest := s.rest.dropWhile p }
  pure tk
def isHexC (c : Char) : Bool := ('0' ≤ c && c ≤ '9') || ('a' ≤ c && c ≤ 'f')
def dhex : DM Bytes := do
  match fromHexChars (← dtakeWhile isHexC) with
  | some x => pure x
  | none => failure
def dint : DM Int := do
  let neg ← (do if (← dpeek) == some '-' then let _ ← dnext; pure true else pure false)
  let ds ← dtakeWhile Char.isDigit
  if ds.isEmpty then failure
  let n := ds.foldl (fun acc c => acc * 10 + (c.toNat - 48)) 0
  pure (if neg then -(Int.ofNat n) else Int.ofNat n)
def dalloc (o : HeapObj) : DM Nat := do
  let s ← get
  set { s with heap := s.heap.push o }
  pure s.heap.size

partial def dval : DM Val := do
  match (← dnext) with
  | 'n' => pure .nil
  | 't' => pure (.bool true)
  | 'f' => pure (.bool false)
  | 'i' => do pure (.int (← dint))
  | 'd' => do
      let n ← dint
      dexpect '/'
      let e ← dint
      pure (.float (Dyadic.mk' n e.toNat))
  | 's' => do pure (.str (← dhex))
  | 'h' => do pure (.html (← dhex))
  | 'F' => do
      let nm ← dtakeWhile fun c => c.isAlphanum
      pure (.gofn (String.ofList nm))
  | 'L' => do
      let k ← dnext
      let ety : Ty := if k == 's' then .string else if k == 'i' then .int else .any
      dexpect '['
      let items ← dlist
      let a ← dalloc (.slice items.toArray)
      pure (.list ety a)
  | 'M' => do
      dexpect '['
      let es ← dentries
      let a ← dalloc (.map es)
      pure (.map .string .any a)
  | 'S' => do
      -- S<type name, hex>{<field, hex>:<value>,…}   a struct value of the harness family
      let ty ← dhex
      dexpect '{'
      let fs ← dfields
      pure (.struct (String.ofList (ty.map fun c => Char.ofNat c.toNat)) fs)
  | 'P' => do
      -- P<pointer type name, hex>&<value>   a non-nil pointer;   Q<pointer type name, hex>  a typed nil pointer
      let ty ← dhex
      dexpect '&'
      let v ← dval
      pure (.ptr (String.ofList (ty.map fun c => Char.ofNat c.toNat)) (some v))
  | 'Q' => do
      let ty ← dhex
      pure (.ptr (String.ofList (ty.map fun c => Char.ofNat c.toNat)) none)
  | _ => failure
where
  dfields : DM (List (Bytes × Val)) := do
    if (← dpeek) == some '}' then let _ ← dnext; pure []
    else dfieldsRest []
  dfieldsRest (acc : List (Bytes × Val)) : DM (List (Bytes × Val)) := do
    let k ← dhex
    dexpect ':'
    let v ← dval
    let acc := acc ++ [(k, v)]
    match (← dnext) with
    | '}' => pure acc
    | ',' => dfieldsRest acc
    | _ => failure
  dlist : DM (List Val) := do
    if (← dpeek) == some ']' then let _ ← dnext; pure []
    else
      let v ← dval
      dlistRest [v]
  dlistRest (acc : List Val) : DM (List Val) := do
    match (← dnext) with
    | ']' => pure acc
    | ',' => do let v ← dval; dlistRest (acc ++ [v])
    | _ => failure
  dentries : DM (List (Val × Val)) := do
    if (← dpeek) == some ']' then let _ ← dnext; pure []
    else dentriesRest []
  dentriesRest (acc : List (Val × Val)) : DM (List (Val × Val)) := do
    let k ← dhex
    dexpect ':'
    let v ← dval
    let acc := acc ++ [(.str k, v)]
    match (← dnext) with
    | ']' => pure acc
    | ',' => dentriesRest acc
    | _ => failure

partial def denv (acc : List (Bytes × Val)) : DM (List (Bytes × Val)) := do
  let k ← dhex
  dexpect '='
  let v ← dval
  let acc := acc ++ [(k, v)]
  match (← dpeek) with
  | none => pure acc
  | some ';' => do let _ ← dnext; denv acc
  | _ => failure

def parseEnv (s : String) : Option (List (Bytes × Val) × Array HeapObj) :=
  -- heap address 0 is reserved (placeholder used by the binder)
  if s == "-" then some ([], #[.slice #[]])
  else match (denv []).run { rest := s.toList, heap := #[.slice #[]] } with
    | some (env, st) => if st.rest.isEmpty then some (env, st.heap) else none
    | none => none

def parseFeeder (s : String) : Option (List (Bytes × Bytes)) :=
  if s == "-" then some []
  else (s.splitOn ",").mapM fun ent =>
    match ent.splitOn ":" with
    | [k, v] => do pure ((← fromHex k), (← fromHex v))
    | _ => none

def obsRender (envS srcS feederS : String) : String :=
  match parseEnv envS, fromHex srcS, parseFeeder feederS with
  | some (env, heap), some src, some feeder =>
    let env := if feeder.isEmpty then env else env ++ [(b "partialFeeder", Val.gofn "feeder")]
    match (renderTop src env heap feeder).1 with
    | .ok out => "OK " ++ toHexField out
    | .err e =>
      let line := match e.line with | some n => toString n | none => "-"
      let causes := if e.causes.isEmpty then "-" else ",".intercalate e.causes
      s!"ERR line={line} unk={if e.asUnk then 1 else 0} causes={causes}"
    | .fatal .outOfFuel => "OUTOFFUEL"
    | .fatal (.crash site) => "PANIC " ++ site
    | .fatal (.unsupported why) => "UNSUPPORTED " ++ why
  | _, _, _ => "BADLINE"

end Plush

namespace Plush

/-- the `ctx` protocol op: a history of New / Set / Value / Has on a tree of contexts (C10) -/
def ctxValOf (s : String) : Val :=
  if s == "n" then .nil
  else if s.startsWith "i" then .int ((s.drop 1).toString.toInt?.getD 0)
  else .str (b s)

def ctxObsVal (key : String) : Val → String
  | .nil => "n"
  | .int i => "i" ++ toString i
  | .gofn n => if n == key then "fn:" ++ key else "fn:?"
  | _ => "?"

def obsCtx (opsS : String) : String :=
  let ops := (opsS.splitOn ";").filter (· != "")
  let step (acc : Store × List Nat × List String) (op : String) : Store × List Nat × List String :=
    let (st, ctxs, obs) := acc
    let arg := (op.drop 1).toString
    match op.front with
    | 'R' =>
      let data := if arg == "" then [] else (arg.splitOn ",").map fun kv =>
        match kv.splitOn "=" with
        | [k, v] => (b k, ctxValOf v)
        | _ => (b kv, Val.nil)
      -- Go map: a later duplicate key overwrites; descriptors never repeat keys
      let (st', c) := st.newRoot data
      (st', ctxs ++ [c], obs)
    | 'N' =>
      match arg.toNat? >>= fun p => ctxs[p]? with
      | some p => let (st', c) := st.newChild p; (st', ctxs ++ [c], obs)
      | none => (st, ctxs, obs)
    | 'S' =>
      match arg.splitOn "," with
      | [c, k, v] => match c.toNat? >>= fun i => ctxs[i]? with
        | some ci => (st.set ci (b k) (ctxValOf v), ctxs, obs)
        | none => (st, ctxs, obs)
      | _ => (st, ctxs, obs)
    | 'V' =>
      match arg.splitOn "," with
      | [c, k] => match c.toNat? >>= fun i => ctxs[i]? with
        | some ci => (st, ctxs, obs ++ [ctxObsVal k (st.value ci (b k))])
        | none => (st, ctxs, obs ++ ["-"])
      | _ => (st, ctxs, obs)
    | 'H' =>
      match arg.splitOn "," with
      | [c, k] => match c.toNat? >>= fun i => ctxs[i]? with
        | some ci => (st, ctxs, obs ++ [if st.has ci (b k) then "t" else "f"])
        | none => (st, ctxs, obs ++ ["-"])
      | _ => (st, ctxs, obs)
    | _ => (st, ctxs, obs)
  let (_, _, obs) := ops.foldl step (({} : Store), [], [])
  "OK " ++ ",".intercalate obs

end Plush
