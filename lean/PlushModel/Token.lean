import PlushModel.Bytes
namespace Plush

/-- Token types; constructor names are the Go constant names of token/const.go so that
    generated tables can refer to them directly. -/
inductive TT
  | ILLEGAL | EOF | IDENT | INT | FLOAT | STRING | B_STRING | HTML | DOT
  | ASSIGN | PLUS | MINUS | BANG | ASTERISK | SLASH | PERCENT
  | LT | LTEQ | GT | GTEQ | EQ | NOT_EQ | AND | OR | MATCHES
  | S_START | C_START | E_START | E_END
  | COMMA | SEMICOLON | COLON | LPAREN | RPAREN | LBRACE | RBRACE | LBRACKET | RBRACKET
  | FUNCTION | LET | TRUE | FALSE | IF | ELSE | RETURN | FOR | IN | CONTINUE | BREAK
  deriving DecidableEq, Repr, Inhabited

def TT.all : List TT :=
  [.ILLEGAL, .EOF, .IDENT, .INT, .FLOAT, .STRING, .B_STRING, .HTML, .DOT,
   .ASSIGN, .PLUS, .MINUS, .BANG, .ASTERISK, .SLASH, .PERCENT,
   .LT, .LTEQ, .GT, .GTEQ, .EQ, .NOT_EQ, .AND, .OR, .MATCHES,
   .S_START, .C_START, .E_START, .E_END,
   .COMMA, .SEMICOLON, .COLON, .LPAREN, .RPAREN, .LBRACE, .RBRACE, .LBRACKET, .RBRACKET,
   .FUNCTION, .LET, .TRUE, .FALSE, .IF, .ELSE, .RETURN, .FOR, .IN, .CONTINUE, .BREAK]

/-- The Go string value of the token type (what `%s` prints in parser messages). -/
def TT.name : TT → String
  | .ILLEGAL => "ILLEGAL" | .EOF => "EOF" | .IDENT => "IDENT" | .INT => "INT" | .FLOAT => "FLOAT"
  | .STRING => "STRING" | .B_STRING => "B_STRING" | .HTML => "HTML" | .DOT => "DOT"
  | .ASSIGN => "=" | .PLUS => "+" | .MINUS => "-" | .BANG => "!" | .ASTERISK => "*" | .SLASH => "/"
  | .PERCENT => "%" | .LT => "<" | .LTEQ => "<=" | .GT => ">" | .GTEQ => ">=" | .EQ => "=="
  | .NOT_EQ => "!=" | .AND => "&&" | .OR => "||" | .MATCHES => "~="
  | .S_START => "<%" | .C_START => "<%#" | .E_START => "<%=" | .E_END => "%>"
  | .COMMA => "," | .SEMICOLON => ";" | .COLON => ":" | .LPAREN => "(" | .RPAREN => ")"
  | .LBRACE => "{" | .RBRACE => "}" | .LBRACKET => "[" | .RBRACKET => "]"
  | .FUNCTION => "FUNCTION" | .LET => "LET" | .TRUE => "TRUE" | .FALSE => "FALSE" | .IF => "IF"
  | .ELSE => "ELSE" | .RETURN => "RETURN" | .FOR => "FOR" | .IN => "IN" | .CONTINUE => "CONTINUE"
  | .BREAK => "BREAK"

structure Token where
  type : TT
  lit : Bytes
  line : Nat
  deriving DecidableEq, Repr, Inhabited

end Plush
