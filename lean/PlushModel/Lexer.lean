import PlushModel.Token
import PlushModel.Gen.CharClasses
import PlushModel.Gen.Keywords
/-!
  Model of /repo/lexer/lexer.go — a byte-at-a-time scanner, mirrored statement by statement.
  Loops take a fuel argument (the remaining input length bounds every loop; `lexAll_fuel_ok`
  in PlushProofs shows the budget is never the reason a loop stops).
  `crashed` records a Go slice expression that would be out of range (a panic in Go).
-/
namespace Plush

structure LX where
  input : Array UInt8
  pos : Nat := 0        -- position
  rp : Nat := 0         -- readPosition
  ch : UInt8 := 0
  inside : Bool := false
  line : Nat := 1       -- curLine
  crashed : Bool := false
  deriving Repr

namespace LX

def readChar (l : LX) : LX :=
  let ch := l.input.getD l.rp 0
  { l with ch := ch, line := if ch == 10 then l.line + 1 else l.line, pos := l.rp, rp := l.rp + 1 }

def peekChar (l : LX) : UInt8 := l.input.getD l.rp 0

def prevChar (l : LX) : UInt8 := if l.rp < 2 then 0 else l.input.getD (l.rp - 2) 0

def peekCharAt (l : LX) (n : Nat) : UInt8 := l.input.getD (l.pos + n) 0

/-- Go's `l.input[a:b]`; out of range is a panic. -/
def slice (l : LX) (a b : Nat) : Bytes × LX :=
  if a ≤ b ∧ b ≤ l.input.size then ((l.input.extract a b).toList, l)
  else ([], { l with crashed := true })

def new (input : Array UInt8) : LX := ({ input := input } : LX).readChar

def skipWsLoop : Nat → LX → LX
  | 0, l => l
  | fuel+1, l => if Gen.isWhitespace l.ch then skipWsLoop fuel l.readChar else l

def skipWhitespace (l : LX) : LX := skipWsLoop (l.input.size + 2) l

def readWhile (p : UInt8 → Bool) : Nat → LX → LX
  | 0, l => l
  | fuel+1, l => if p l.ch then readWhile p fuel l.readChar else l

def readIdentifier (l : LX) : Bytes × LX :=
  let position := l.pos
  let l := readWhile (fun c => Gen.isLetter c || Gen.isDigit c) (l.input.size + 2) l
  l.slice position l.pos

def readNumber (l : LX) : Bytes × LX :=
  let position := l.pos
  let l := readWhile (fun c => Gen.isDigit c || Gen.isDot c) (l.input.size + 2) l
  l.slice position l.pos

/-- `for l.ch == '\\' && l.peekChar() == '"' { l.readChar(); l.readChar() }` -/
def skipQuoteEscapes : Nat → LX → LX
  | 0, l => l
  | fuel+1, l => if l.ch == 92 && l.peekChar == 34 then skipQuoteEscapes fuel l.readChar.readChar else l

def readStringLoop : Nat → LX → LX
  | 0, l => l
  | fuel+1, l =>
    if l.ch != 0 then
      let l := l.readChar
      let l := skipQuoteEscapes (l.input.size + 2) l
      if l.ch == 34 then l else readStringLoop fuel l
    else l

def readString (l : LX) : Bytes × LX :=
  let position := l.pos + 1
  let l := readStringLoop (l.input.size + 2) l
  let (s, l) := l.slice position l.pos
  (replaceAll [92, 34] [34] s, l)

def readBStringLoop : Nat → LX → LX
  | 0, l => l
  | fuel+1, l =>
    if l.ch != 0 then
      let l := l.readChar
      if l.ch == 96 then l else readBStringLoop fuel l
    else l

def readBString (l : LX) : Bytes × LX :=
  let position := l.pos + 1
  let l := readBStringLoop (l.input.size + 2) l
  l.slice position l.pos

/-- `readHTML` after the fix: a backslash is an escape only directly in front of `<%`. -/
def readHTMLLoop (position : Nat) : Nat → LX → (Option Bytes) × LX
  | 0, l => (none, l)
  | fuel+1, l =>
    if l.ch != 0 then
      if l.ch == 92 && l.peekChar == 60 && l.peekCharAt 2 == 37 then
        if l.prevChar == 92 then
          let l := l.readChar
          let (s, l) := l.slice position (l.pos - 1)
          (some (replaceAll [92, 60, 37] [60, 37] s), l)
        else
          let l := l.readChar.readChar
          -- ch is now '%' (never '<'), so the tag test below fails; Go falls through to readChar
          if l.ch == 60 && l.peekChar == 37 then (none, { l with inside := true })
          else readHTMLLoop position fuel l.readChar
      else if l.ch == 60 && l.peekChar == 37 then (none, { l with inside := true })
      else readHTMLLoop position fuel l.readChar
    else (none, l)

def readHTML (l : LX) : Bytes × LX :=
  let position := l.pos
  match readHTMLLoop position (l.input.size + 2) l with
  | (some s, l) => (s, l)
  | (none, l) =>
    let (s, l) := l.slice position l.pos
    (replaceAll [92, 60, 37] [60, 37] s, l)

def lookupIdent (lit : Bytes) : TT :=
  match Gen.keywords.find? (fun kv => b kv.1 == lit) with
  | some kv => kv.2
  | none => .IDENT

def newToken (l : LX) (t : TT) : Token := { type := t, lit := [l.ch], line := l.line }

def skipLineComment : Nat → LX → LX
  | 0, l => l
  | fuel+1, l =>
    if l.ch != 0 then
      let l := l.readChar
      if l.ch == 10 || l.ch == 13 then l else skipLineComment fuel l
    else l

def numberToken (lit : Bytes) (line : Nat) : Token :=
  let n := (splitOn1 46 lit).length
  if n > 2 then { type := .ILLEGAL, lit := lit, line := line }
  else if n == 2 then { type := .FLOAT, lit := lit, line := line }
  else { type := .INT, lit := lit, line := line }

/-- what the bottom of `nextInsideToken` does: `l.readChar(); tok.LineNumber = l.curLine` -/
def finish (tok : Token) (l : LX) : Token × LX :=
  let l := l.readChar
  ({ tok with line := l.line }, l)

def two (l : LX) (t : TT) (lit : String) : Token × LX :=
  let l := l.readChar
  finish { type := t, lit := b lit, line := l.line } l

def nextInsideToken : Nat → LX → Token × LX
  | 0, l => ({ type := .EOF, lit := [], line := l.line }, l)
  | fuel+1, l =>
    let l := l.skipWhitespace
    let c := l.ch
    -- a token belongs to the line it starts on (the look-ahead may consume a newline)
    let line := l.line
    if c == 35 then  -- '#': line comment, then the next token (returned as is)
      nextInsideToken fuel (skipLineComment (l.input.size + 2) l)
    else
    let r : Token × LX :=
    if c == 61 then       -- '='
      if l.peekChar == 61 then two l .EQ "==" else finish (l.newToken .ASSIGN) l
    else if c == 46 then  -- '.'
      if Gen.isDigit l.peekChar then
        let (lit, l) := l.readNumber
        (numberToken lit l.line, l)
      else finish (l.newToken .DOT) l
    else if c == 43 then finish (l.newToken .PLUS) l
    else if c == 38 then  -- '&'
      if l.peekChar == 38 then two l .AND "&&" else finish (l.newToken .ILLEGAL) l
    else if c == 124 then -- '|'
      if l.peekChar == 124 then two l .OR "||" else finish (l.newToken .ILLEGAL) l
    else if c == 45 then finish (l.newToken .MINUS) l
    else if c == 33 then  -- '!'
      if l.peekChar == 61 then two l .NOT_EQ "!=" else finish (l.newToken .BANG) l
    else if c == 47 then finish (l.newToken .SLASH) l
    else if c == 42 then finish (l.newToken .ASTERISK) l
    else if c == 37 then  -- '%'
      if l.peekChar == 62 then two { l with inside := false } .E_END "%>"
      else finish (l.newToken .ILLEGAL) l
    else if c == 60 then  -- '<'
      if l.peekChar == 37 then
        let l := { l with inside := true }.readChar
        if l.peekChar == 35 then two l .C_START "<%#"
        else if l.peekChar == 61 then two l .E_START "<%="
        else finish { type := .S_START, lit := b "<%", line := l.line } l
      else if l.peekChar == 61 then two l .LTEQ "<="
      else finish (l.newToken .LT) l
    else if c == 126 then -- '~'
      if l.peekChar == 61 then two l .MATCHES "~=" else finish (l.newToken .MATCHES) l
    else if c == 62 then  -- '>'
      if l.peekChar == 61 then two l .GTEQ ">=" else finish (l.newToken .GT) l
    else if c == 59 then finish (l.newToken .SEMICOLON) l
    else if c == 58 then finish (l.newToken .COLON) l
    else if c == 44 then finish (l.newToken .COMMA) l
    else if c == 123 then finish (l.newToken .LBRACE) l
    else if c == 125 then finish (l.newToken .RBRACE) l
    else if c == 40 then finish (l.newToken .LPAREN) l
    else if c == 41 then finish (l.newToken .RPAREN) l
    else if c == 34 then  -- '"'
      let (s, l) := l.readString
      finish { type := .STRING, lit := s, line := 0 } l
    else if c == 96 then  -- '`'
      let (s, l) := l.readBString
      finish { type := .B_STRING, lit := s, line := 0 } l
    else if c == 91 then finish (l.newToken .LBRACKET) l
    else if c == 93 then finish (l.newToken .RBRACKET) l
    else if c == 0 then finish { type := .EOF, lit := [], line := 0 } l
    else if Gen.isLetter c then
      let (lit, l) := l.readIdentifier
      ({ type := lookupIdent lit, lit := lit, line := l.line }, l)
    else if Gen.isDigit c then
      let (lit, l) := l.readNumber
      (numberToken lit l.line, l)
    else finish (l.newToken .ILLEGAL) l
    ({ r.1 with line := line }, r.2)

def nextToken (l : LX) : Token × LX :=
  if l.inside then nextInsideToken (l.input.size + 2) l
  else if l.ch == 0 then ({ type := .EOF, lit := [], line := l.line }, l)
  else if l.ch == 60 && l.peekChar == 37 then
    nextInsideToken (l.input.size + 2) { l with inside := true }
  else
    let (s, l) := l.readHTML
    ({ type := .HTML, lit := s, line := l.line }, l)

end LX

/-- The first `n` tokens. -/
def lexN : Nat → LX → List Token
  | 0, _ => []
  | n+1, l => let (t, l') := l.nextToken; t :: lexN n l'

def lexCrashed : Nat → LX → Bool
  | 0, l => l.crashed
  | n+1, l => l.crashed || lexCrashed n l.nextToken.2

/-- Every `NextToken` call consumes at least one byte or is in the final EOF state, so after
    `size + 2` calls the stream is constant; the parser model reads from this array and sees
    the last element for every later position. -/
def lexAll (input : Array UInt8) : Array Token := (lexN (input.size + 2) (LX.new input)).toArray

end Plush
