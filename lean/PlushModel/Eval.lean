import PlushModel.Parser
import PlushModel.Helpers
import PlushModel.Gen.Operators
import PlushModel.Gen.Truthy
/-!
  Model of /repo/compiler.go (the tree-walking evaluator), helper_context.go, partial_helper.go,
  helpers/content, on the value universe of Value.lean. Mirrors the code as it is after the
  `fix:` commits. Recursion is on fuel. A Go `error` is a value (`R.err`) that keeps the state
  changes made before it; panics are `Fatal.crash`, constructs outside the modelled fragment
  are `Fatal.unsupported` (the correspondence check skips and counts those).
-/
namespace Plush

structure Err where
  kind : String
  direct : Bool := false        -- the error value is exactly *ErrUnknownIdentifier (type assertion succeeds)
  asUnk : Bool := false         -- errors.As finds an *ErrUnknownIdentifier in the chain
  causes : List String := []    -- sentinel errors reachable through errors.Is (%w chains)
  line : Option Nat := none     -- set by `compile` ("line N: %w")
  deriving Repr, DecidableEq

inductive Fatal
  | outOfFuel
  | crash (site : String)
  | unsupported (why : String)
  deriving Repr, DecidableEq

inductive R (α : Type)
  | ok (a : α)
  | err (e : Err)
  | fatal (f : Fatal)

structure ES where
  store : Store := {}
  heap : Array HeapObj := #[]
  cur : Nat := 0                         -- c.ctx
  curStmt : Option Nat := none           -- line of c.curStmt
  ticks : Nat := 0                       -- state of the `tick` helper
  trace : Array String := #[]            -- helper invocations, in order
  feeder : List (Bytes × Bytes) := []    -- partialFeeder: name ↦ template text

def EM (α : Type) := ES → R α × ES

instance : Monad EM where
  pure a := fun s => (.ok a, s)
  bind m f := fun s =>
    match m s with
    | (.ok a, s') => f a s'
    | (.err e, s') => (.err e, s')
    | (.fatal x, s') => (.fatal x, s')

namespace EM
def throwErr {α} (e : Err) : EM α := fun s => (.err e, s)
def fail {α} (kind : String) : EM α := throwErr { kind := kind }
def fatal {α} (f : Fatal) : EM α := fun s => (.fatal f, s)
def unsupported {α} (why : String) : EM α := fatal (.unsupported why)
def getS : EM ES := fun s => (.ok s, s)
def modifyS (f : ES → ES) : EM Unit := fun s => (.ok (), f s)
/-- run `m`; a Go error becomes a value (state changes are kept, as in Go) -/
def attempt {α} (m : EM α) : EM (Except Err α) := fun s =>
  match m s with
  | (.ok a, s') => (.ok (.ok a), s')
  | (.err e, s') => (.ok (.error e), s')
  | (.fatal x, s') => (.fatal x, s')
end EM
open EM

/-- `errors.New`/`fmt.Errorf` without %w around an inner error: the chain is cut -/
def Err.wrapW (e : Err) (kind : String) : Err := { e with kind := kind, direct := false }

def unknownIdent : Err := { kind := "unknown-identifier", direct := true, asUnk := true }

-- context operations on the evaluator state
def ctxHas (k : Bytes) : EM Bool := do let s ← getS; pure (s.store.has s.cur k)
def ctxValue (k : Bytes) : EM Val := do let s ← getS; pure (s.store.value s.cur k)
def ctxSet (k : Bytes) (v : Val) : EM Unit := modifyS fun s => { s with store := s.store.set s.cur k v }
def ctxSetIn (c : Nat) (k : Bytes) (v : Val) : EM Unit := modifyS fun s => { s with store := s.store.set c k v }
def ctxNewChild (outer : Nat) : EM Nat := fun s =>
  let (st, c) := s.store.newChild outer
  (.ok c, { s with store := st })
def setCur (c : Nat) : EM Unit := modifyS fun s => { s with cur := c }
def getCur : EM Nat := do pure (← getS).cur

/-- `for k, v := range octx.data { c.ctx.Set(k, v) }` (keys are distinct: order irrelevant) -/
def copyFrame (src dst : Nat) : EM Unit := modifyS fun s =>
  match s.store.frames[src]? with
  | none => s
  | some f => { s with store := f.data.foldl (fun st kv => st.set dst kv.1 kv.2) s.store }

def allocSlice (items : Array Val) : EM Nat := fun s => (.ok s.heap.size, { s with heap := s.heap.push (.slice items) })
def allocMap (entries : List (Val × Val)) : EM Nat := fun s => (.ok s.heap.size, { s with heap := s.heap.push (.map entries) })
def heapSlice (addr : Nat) : EM (Array Val) := do
  match (← getS).heap[addr]? with
  | some (.slice items) => pure items
  | _ => unsupported "heap address is not a slice (cannot arise from the evaluator or the descriptors)"
def heapMap (addr : Nat) : EM (List (Val × Val)) := do
  match (← getS).heap[addr]? with
  | some (.map es) => pure es
  | _ => unsupported "heap address is not a map (cannot arise from the evaluator or the descriptors)"
def heapSet (addr : Nat) (o : HeapObj) : EM Unit := modifyS fun s => { s with heap := s.heap.set! addr o }

def heapView (s : ES) : HeapView := fun a => match s.heap[a]? with | some (.slice items) => some items | _ => none

def traceEv (e : String) : EM Unit := modifyS fun s => { s with trace := s.trace.push e }

/-- what `isTruthy`'s nil test / type switch sees of a value (no nil pointers in this fragment) -/
def Val.tview : Val → Gen.TView
  | .nil => .nil
  | .bool v => .bool v
  | .str s => .string s.isEmpty
  | .html s => .html s.isEmpty
  | .ptr _ none => .nilPtr
  | _ => .other

/-- `isTruthy` (compiler.go): the generated arms applied to the value's view -/
def isTruthy (v : Val) : Bool := Gen.isTruthyView v.tview

/-- Go `==` on two interface values when at least one is nil -/
def bothNil (l r : Val) : Bool := l.isNil && r.isNil

/-- equality of map keys / scalar values (Go `==` on comparable dynamic values of the same type) -/
def valKeyEq : Val → Val → Bool
  | .str a, .str c => a == c
  | .int a, .int c => a == c
  | .bool a, .bool c => a == c
  | .html a, .html c => a == c
  | .float a, .float c => a == c
  | _, _ => false

def mapLookup (k : Val) : List (Val × Val) → Option Val
  | [] => none
  | (k', v) :: r => if valKeyEq k' k then some v else mapLookup k r

def mapSet (k v : Val) : List (Val × Val) → List (Val × Val)
  | [] => [(k, v)]
  | (k', v') :: r => if valKeyEq k' k then (k', v) :: r else (k', v') :: mapSet k v r

def mapDelete (k : Val) : List (Val × Val) → List (Val × Val)
  | [] => []
  | (k', v') :: r => if valKeyEq k' k then r else (k', v') :: mapDelete k r

/-- dynamic type of a value as a `Ty` (for assignability checks) -/
def Val.ty : Val → Option Ty
  | .bool _ => some .bool | .int _ => some .int | .float _ => some .float64 | .str _ => some .string
  | .html _ => some .html | .list e _ => some (.slice e) | .map k v _ => some (.map k v)
  | .hctx .. => some (.named "plush.HelperContext")
  | .ilist _ => some (.slice .any)
  | .gofn n => some (.named ("func:" ++ n))
  | .opaque t _ => some (.named t)
  | .struct t _ => some (.named t)
  | .ptr t _ => some (.named t)
  | .iter .. => some (.named "*iterators.ranger")
  | .giter _ => some (.named "*iterators.groupBy")
  | .userfn .. => some (.named "*plush.userFunction")
  | .closure .. => some (.named "func(hctx.Map)")
  | .rv _ => some (.named "reflect.Value")
  | .ret _ => some (.named "plush.returnObject")
  | .cont _ => some (.named "plush.continueObject")
  | .brk _ => some (.named "plush.breakObject")
  | .nil => none

/-- `actualT.AssignableTo(expectedT)` on the modelled types -/
def assignableTo (actual expected : Ty) : Bool :=
  match expected with
  | .any => true
  | .named "hctx.HelperContext" => actual == .named "plush.HelperContext"
  | .named "Iterator" => actual == .named "*iterators.ranger" || actual == .named "*iterators.groupBy"
  | e => actual == e

/-- zero value of a parameter type (`reflect.New(t).Elem()`) as received by a helper -/
def zeroOf : Ty → Val
  | .int => .int 0 | .float64 => .float ⟨0, 0⟩ | .string => .str [] | .bool => .bool false | .html => .html []
  | _ => .nil

inductive ResShape | none | val | valErr | errOnly
  deriving DecidableEq, Repr

structure Sig where
  params : List Ty
  variadic : Bool := false      -- the last parameter is `...T`, given here as `slice T`
  res : ResShape := .val
  deriving Repr

def optsTy : Ty := .map .string .any

/-- signatures of the closed helper family: plush built-ins (modelled ones) and the harness' recording helpers -/
def helperSig : String → Option Sig
  | "len" => some { params := [.any], res := .valErr }
  | "range" => some { params := [.int, .int] }
  | "between" => some { params := [.int, .int] }
  | "until" => some { params := [.int] }
  | "groupBy" => some { params := [.int, .any], res := .valErr }
  | "raw" => some { params := [.string] }
  | "htmlEscape" => some { params := [.string, .named "hctx.HelperContext"], res := .valErr }
  | "jsEscape" => some { params := [.string] }
  | "truncate" => some { params := [.string, optsTy] }
  | "contentFor" => some { params := [.string, .named "hctx.HelperContext"], res := .none }
  | "contentOf" => some { params := [.string, optsTy, .named "hctx.HelperContext"], res := .valErr }
  | "partial" => some { params := [.string, optsTy, .named "plush.HelperContext"], res := .valErr }
  -- harness helpers (/verif/harness/corr_env.go)
  | "echo" => some { params := [.slice .any], variadic := true }
  | "fail" => some { params := [], res := .valErr }
  | "failif" => some { params := [.bool], res := .valErr }
  | "tick" => some { params := [] }
  | "ident" => some { params := [.any] }
  | "add" => some { params := [.int, .int] }
  | "cat" => some { params := [.string, .string] }
  | "vstr" => some { params := [.string, .slice .string], variadic := true }
  | "opts" => some { params := [.string, optsTy] }
  | "blk" => some { params := [.named "plush.HelperContext"], res := .valErr }
  | "blkw" => some { params := [.string, .any, .named "hctx.HelperContext"], res := .valErr }
  | "hasblk" => some { params := [.named "plush.HelperContext"] }
  | "html" => some { params := [.string] }
  | _ => none

/-- canonical rendering of a received argument (the harness' `echo` does the same) -/
def echoVal : Val → Bytes
  | .nil => b "nil"
  | .bool v => if v then b "b:true" else b "b:false"
  | .int i => b "i:" ++ intToBytes i
  | .float d => b "f:" ++ (sprintFloat d).getD (b "?")
  | .str s => b "s:" ++ s
  | .html s => b "h:" ++ s
  | .list .. => b "slice"
  | .map .. => b "map"
  | .ilist _ => b "slice"
  | v => b v.tyName

def hashKeyLit : Expr → Bytes
  | .html t _ | .str t _ | .int t _ | .float t | .bool t _ | .pre t .. | .inf t .. | .asg t .. | .arr t _
  | .hash t _ | .idx t .. | .call t .. | .fn t .. | .if_ t .. | .for_ t .. | .brk t | .cont t => t.lit
  | .ident i => i.tok.lit

/-- parse a float literal (digits[.digits]) into an exact dyadic, when it is one -/
def floatOfLit (lit : Bytes) : Option Dyadic :=
  let parts := splitOn1 46 lit
  let (ip, fp) : Bytes × Bytes := match parts with | [a] => (a, []) | [a, c] => (a, c) | _ => ([], [])
  let digits := ip ++ fp
  if digits.isEmpty || !digits.all (fun c => 48 ≤ c && c ≤ 57) then none
  else
    let n := digits.foldl (fun acc c => acc * 10 + (c.toNat - 48)) 0
    let k := fp.length
    -- n / 10^k = n / (2^k 5^k): dyadic iff 5^k divides n
    if n % 5 ^ k == 0 then
      let d := Dyadic.mk' (Int.ofNat (n / 5 ^ k)) k
      if d.exact then some d else none
    else none

mutual
def flattenRet : Val → List Val
  | .ret vs => flattenRets vs
  | v => [v]
def flattenRets : List Val → List Val
  | [] => []
  | v :: r => flattenRet v ++ flattenRets r
end

/-- unwrap what a user function's body evaluated to: the value of the first `return` reached, or —
    when the body also produced output — the sequence of that output followed by the value -/
def unwrapReturn (v : Val) : Val :=
  match v with
  | .ret _ =>
    match flattenRet v with
    | [x] => x
    | xs => .ilist xs
  | v => v

/-- render a value through the sink to bytes (what `BlockWith`/`compile` append) -/
def renderVal (v : Val) : EM Bytes := do
  let s ← getS
  match writeVal (heapView s) 64 v with
  | some cs => pure (flattenChunks cs)
  | none => unsupported "write: value outside the modelled fragment"

def applyOpOut (o : OpOut) (kindTag : String) : EM Val :=
  match o with
  | .int i => pure (.int i)
  | .float d => if d.exact then pure (.float d) else unsupported "float result not exactly representable"
  | .floatDiv l r => match Dyadic.div? l r with
      | some d => if d.exact then pure (.float d) else unsupported "inexact float division"
      | none => unsupported "inexact float division"
  | .str s => pure (.str s)
  | .bool v => pure (.bool v)
  | .divZero => fail "division-by-zero"
  | .regex => unsupported "regexp"
  | .unknownOp => fail ("unknown-operator-" ++ kindTag)

/-- the operator application of `evalInfixExpression` once both operands are values (not && / ||) -/
def applyInfix (op : Bytes) (lres rres : Val) : EM Val :=
  if lres.isNil || rres.isNil then applyOpOut (Gen.nilsOperator op (bothNil lres rres)) "nil"
  else match lres with
  | .str ls =>
    -- only `+` (and the pattern of `~=`) takes the printed form of a non-string right operand
    let rIsString := match rres with | .str _ | .html _ => true | _ => false
    if !rIsString && op != [43] && op != [126, 61] then fail "unable-to-operate"    -- "+", "~="
    else
      match sprint rres with
      | some rr => applyOpOut (Gen.stringsOperator op ls rr) "string"
      | none => unsupported "Sprint of a composite value"
  | .int li =>
    match rres with
    | .int ri => applyOpOut (Gen.intsOperator op li ri) "int"
    | _ => fail "unable-to-operate"
  | .float lf =>
    match rres with
    | .float rf => applyOpOut (Gen.floatsOperator op lf rf) "float"
    | _ => fail "unable-to-operate"
  | .bool _ => applyOpOut (Gen.boolsOperator op (isTruthy lres) (isTruthy rres)) "bool"
  | .list ety addr =>
    if op == [43] then
      match ety, rres.ty with
      | .any, _ => do
          let items ← heapSlice addr
          let a ← allocSlice (items.push rres)
          pure (.rv (.list ety a))
      | e, some t =>
          if e == t then do
            let items ← heapSlice addr
            let a ← allocSlice (items.push rres)
            pure (.rv (.list ety a))
          else fail "cannot-append"
      | _, none => fail "cannot-append"
    else fail "unknown-operator-array"
  | .ilist _ => unsupported "operator on an evaluator-built slice"
  | _ => fail "unable-to-operate"

/-- `evalUpdateIndex` -/
def updateIndex (left index value : Val) : EM Val :=
  match left with
  | .map kty vty addr =>
      match index.ty with
      | none => fail "nil-map-key"
      | some t =>
        if !assignableTo t kty then fail "map-key-type"
        else if !value.isNil && !(match value.ty with | some vt => assignableTo vt vty | none => false) then
          fail "map-value-type"
        else do
          let es ← heapMap addr
          heapSet addr (.map (if value.isNil then mapDelete index es else mapSet index value es))
          pure .nil
  | .list ety addr =>
      match index with
      | .int ix => do
          let items ← heapSlice addr
          if ix < 0 || (items.size : Int) - 1 < ix then fail "index-out-of-bounds"
          else
            let value' := if value.isNil then zeroOf ety else value
            if ety != .any && value'.ty != some ety then fail "cannot-assign-element"
            else do
              heapSet addr (.slice (items.set! ix.toNat value'))
              pure .nil
      | _ => fail "non-int-index"
  | .ilist _ => unsupported "index assignment on an evaluator-built slice"
  | _ => fail "could-not-index"

/-- `evalAccessIndex` (`hasCallee`: an index-then-member access, outside the modelled fragment) -/
def accessIndex (left index : Val) (hasCallee : Bool) : EM Val :=
  match left with
  | .map kty _ addr =>
      match index.ty with
      | none => fail "nil-map-key"
      | some t =>
        if kty != .any && t != kty then fail "map-key-type"
        else do
          let es ← heapMap addr
          match mapLookup index es with
          | none => pure .nil
          | some x =>
            if hasCallee then unsupported "index-then-member" else pure x
  | .list _ addr =>
      match index with
      | .int ix => do
          let items ← heapSlice addr
          if ix < 0 || (items.size : Int) - 1 < ix then fail "index-out-of-bounds"
          else
            if hasCallee then unsupported "index-then-member" else pure (items.getD ix.toNat .nil)
      | _ => fail "non-int-index"
  | .ilist vs =>
      match index with
      | .int ix =>
          if ix < 0 || (vs.length : Int) - 1 < ix then fail "index-out-of-bounds"
          else if hasCallee then unsupported "index-then-member" else pure (vs.getD ix.toNat .nil)
      | _ => fail "non-int-index"
  | _ => fail "could-not-index"

/-- run `m` with `c` as the evaluator's current context; the previous context is current again afterwards,
    on success and on error (Go: `octx := c.ctx; defer func() { c.ctx = octx }(); c.ctx = …`) -/
def withCtx {α} (c : Nat) (m : EM α) : EM α := do
  let octx ← getCur
  setCur c
  let r ← attempt m
  setCur octx
  match r with
  | .ok v => pure v
  | .error e => throwErr e

def lookupKeyB (k : Bytes) : List (Bytes × Bytes) → Option Bytes
  | [] => none
  | (k', v) :: r => if k' == k then some v else lookupKeyB k r

/-- `filepath.Ext` -/
def fileExt (name : Bytes) : Bytes :=
  let rec go : Bytes → Bytes → Bytes
    | [], _ => []
    | c :: rest, acc =>
      if c == 47 then [] else if c == 46 then (46 :: acc) else go rest (c :: acc)
  go name.reverse []

/-- a forgiven unknown-identifier failure counts as nil, and the statement it happened in is no longer blamed
    (`c.curStmt = cur` at the five tolerance sites of compiler.go) -/
def forgive (cur : Option Nat) : EM Val := do
  modifyS fun st => { st with curStmt := cur }
  pure Val.nil

/-- exported in Go's sense: the name begins with an upper-case ASCII letter (the harness family uses ASCII names) -/
def isExportedName (name : Bytes) : Bool :=
  match name with
  | c :: _ => 65 ≤ c && c ≤ 90
  | [] => false

/-- one step of member selection in `evalIdentifier` (the `node.Callee != nil` branch), on the value `c` of
    the callee — a pure function: nil has nil members; a pointer is dereferenced once; anything but a struct has
    no members; a field that holds a nil pointer is nil, a non-nil pointer field is dereferenced; an unexported
    field is an error. (The family has no methods and no embedded structs; in Go a pointer field that is an
    `HTMLer` only as a pointer is kept as a pointer since fix c29fa86 — a value outside this family.) -/
def memberStep (c : Val) (name : Bytes) : R Val :=
  match c with
  | .nil => .ok .nil
  | .opaque _ _ => .fatal (.unsupported "member access on an opaque value")
  | _ =>
    let rv : Option Val := match c with
      | .ptr _ t => t
      | v => some v
    match rv with
    | some (.struct _ fields) =>
      match lookupKey name fields with
      | none => .err { kind := "no-field-or-method" }
      | some (.ptr _ none) => .ok .nil
      | some (.ptr _ (some t)) => if isExportedName name then .ok t else .err { kind := "unexported-field" }
      | some f => if isExportedName name then .ok f else .err { kind := "unexported-field" }
    | _ => .err { kind := "no-field-or-method" }

/-- … as an evaluator action: it never touches the state -/
def memberOf (c : Val) (name : Bytes) : EM Val := fun s => (memberStep c name, s)

/-- `calleeRootName`: the name the parser put at the root of a callee chain (`assignCallee`), else `dflt` -/
def calleeRoot : Expr → Bytes → Bytes
  | .ident i, _ => i.base.getD (i.segs.head?.getD [])
  | .idx _ (some l) _ _ _, d => calleeRoot l d
  | .call _ (some c) _ _ _ _, d => calleeRoot c d
  | .call _ none _ f _ _, d => calleeRoot f d
  | _, d => d

/-- `rv.MapIndex(index)` is invalid: the key is not in the map (then `a[k].b` is nil and `b` is not evaluated) -/
def mapKeyMissing (left index : Val) : EM Bool :=
  match left with
  | .map _ _ addr => do
      let es ← heapMap addr
      pure (mapLookup index es).isNone
  | _ => pure false

def opStr (opb : Bytes) : String := String.ofList (opb.map fun c => Char.ofNat c.toNat)

mutual

/-- `evalExpression` -/
def evalExpr : Nat → Option Expr → EM Val
  | 0, _ => fatal .outOfFuel
  | _+1, none => pure .nil
  | fuel+1, some e =>
    match e with
    | .html _ v => pure (.html v)
    | .str _ v => pure (.str v)
    | .int _ v => pure (.int v)
    | .float t => match floatOfLit t.lit with
        | some d => pure (.float d)
        | none => unsupported "float literal is not an exact small dyadic"
    | .bool _ v => pure (.bool v)
    | .inf _ op l r => evalInfix fuel op l r
    | .hash _ ps => do
        let es ← evalHashPairs fuel ps []
        let a ← allocMap es
        pure (.map .string .any a)
    | .idx _ l i v c => evalIndex fuel l i v c
    | .call _ callee chain f args blk => evalCall fuel callee chain f args blk
    | .ident i => evalIdent fuel i
    | .arr _ es => do
        let vs ← evalExprs fuel (es.getD [])
        let a ← allocSlice vs.toArray
        pure (.list .any a)
    | .for_ _ k v it bl => evalFor fuel k v it bl
    | .if_ _ c bl elifs els => evalIf fuel c bl elifs els
    | .pre _ op r => do
        let cur := (← getS).curStmt
        let res ← attempt (evalExpr fuel r)
        let v ← match res with
          | .ok v => pure v
          | .error e => if e.direct then forgive cur else throwErr e
        if op == b "!" then pure (.bool (!isTruthy v)) else fail "unknown-prefix-operator"
    | .fn _ ps bl => pure (.userfn (ps.getD []) bl)
    | .asg _ name value => do
        let v ← evalExpr fuel value
        let n := name.value
        if !(← ctxHas n) then throwErr unknownIdent
        ctxSet n v
        pure .nil
    | .cont _ => pure (.cont [])
    | .brk _ => pure (.brk [])

def evalExprs : Nat → List (Option Expr) → EM (List Val)
  | 0, _ => fatal .outOfFuel
  | _+1, [] => pure []
  | fuel+1, e :: r => do
    let v ← evalExpr fuel e
    let vs ← evalExprs fuel r
    pure (v :: vs)

/-- `evalHashLiteral`: values in source order (`Order`), keys are the key nodes' token literals -/
def evalHashPairs : Nat → List (Option Expr × Option Expr) → List (Val × Val) → EM (List (Val × Val))
  | 0, _, _ => fatal .outOfFuel
  | _+1, [], acc => pure acc
  | fuel+1, (k, v) :: r, acc => do
    match k with
    | none => fail "invalid-hash-key"
    | some ke =>
      let val ← evalExpr fuel v
      evalHashPairs fuel r (mapSet (.str (hashKeyLit ke)) val acc)

/-- `evalIdentifier` -/
def evalIdent : Nat → Ident → EM Val
  | 0, _ => fatal .outOfFuel
  | fuel+1, i =>
    match i.base, i.segs with
    | none, [name] => do
        if (← ctxHas name) then ctxValue name
        else if name == b "nil" then pure .nil
        else throwErr unknownIdent
    | some bs, [] => do
        -- the synthetic base identifier alone (callee of a chained call)
        if (← ctxHas bs) then ctxValue bs
        else if bs == b "nil" then pure .nil
        else throwErr unknownIdent
    | _, [] => fatal (.crash "identifier without segments")
    | base, segs => do
        -- node.Callee != nil: evaluate the callee chain, then select the member
        let calleeSegs := segs.dropLast
        let c ← evalIdent fuel { i with segs := calleeSegs, base := base }
        memberOf c (segs.getLast?.getD [])

/-- `evalInfixExpression` -/
def evalInfix : Nat → Bytes → Option Expr → Option Expr → EM Val
  | 0, _, _, _ => fatal .outOfFuel
  | fuel+1, opb, l, r => do
    let op := opb
    let tolerant := Gen.tolerantOps.contains op
    let cur := (← getS).curStmt
    let lres ← do
      match (← attempt (evalExpr fuel l)) with
      | .ok v => pure v
      | .error e => if tolerant && e.direct then forgive cur else throwErr e
    if op == [38, 38] && !isTruthy lres then return .bool false      -- "&&"
    if op == [124, 124] && isTruthy lres then return .bool true      -- "||"
    let rres ← do
      match (← attempt (evalExpr fuel r)) with
      | .ok v => pure v
      | .error e => if tolerant && e.direct then forgive cur else throwErr e
    if op == [38, 38] || op == [124, 124] then return .bool (isTruthy rres)
    applyInfix op lres rres

/-- `evalIfExpression` + `evalElseAndElseIfExpressions` -/
def evalIf : Nat → Option Expr → Block → List (Token × Option Expr × Block) → Option Block → EM Val
  | 0, _, _, _, _ => fatal .outOfFuel
  | fuel+1, c, bl, elifs, els => do
    let cur := (← getS).curStmt
    let con ← do
      match (← attempt (evalExpr fuel c)) with
      | .ok v => pure v
      | .error e => if e.direct then forgive cur else throwErr e
    if isTruthy con then evalBlock fuel bl
    else evalElifs fuel elifs els

def evalElifs : Nat → List (Token × Option Expr × Block) → Option Block → EM Val
  | 0, _, _ => fatal .outOfFuel
  | fuel+1, [], els =>
    match els with
    | some eb => evalBlock fuel eb
    | none => pure .nil
  | fuel+1, (_, c, bl) :: rest, els => do
    let cur := (← getS).curStmt
    let con ← do
      match (← attempt (evalExpr fuel c)) with
      | .ok v => pure v
      | .error e => if e.direct then forgive cur else throwErr e
    if isTruthy con then evalBlock fuel bl else evalElifs fuel rest els

/-- `evalBlockStatement` -/
def evalBlock : Nat → Block → EM Val
  | 0, _ => fatal .outOfFuel
  | fuel+1, .mk _ ss => evalStmts fuel ss []

def evalStmts : Nat → List Stmt → List Val → EM Val
  | 0, _, _ => fatal .outOfFuel
  | _+1, [], res => pure (.ilist res)
  | fuel+1, s :: rest, res => do
    let i ← evalStmt fuel s
    match i with
    | .cont vs => pure (.cont (res ++ vs))
    | .brk vs => pure (.brk (res ++ vs))
    | .ret vs => pure (.ret (res ++ [.ret vs]))
    | .nil => evalStmts fuel rest res
    | v => evalStmts fuel rest (res ++ [v])

/-- `evalStatement` (inside blocks) -/
def evalStmt : Nat → Stmt → EM Val
  | 0, _ => fatal .outOfFuel
  | fuel+1, s => do
    -- once a statement has completed, its enclosing statement is current again (the `defer` of evalStatement)
    let outer := (← getS).curStmt
    modifyS fun st => { st with curStmt := some s.tok.line }
    let r ← evalStmtBody fuel s
    modifyS fun st => { st with curStmt := outer }
    pure r

def evalStmtBody : Nat → Stmt → EM Val
  | 0, _ => fatal .outOfFuel
  | fuel+1, s => do
    match s with
    | .es _ e => do
        let v ← evalExpr fuel e
        -- only control-flow objects and literal template text survive an expression statement
        match v, e with
        | .cont _, _ | .brk _, _ | .ret _, _ => pure v
        | _, some (.html ..) => pure v
        | _, _ => pure .nil
    | .ret isOut _ e => do
        let v ← evalExpr fuel e
        if isOut then pure v else pure (.ret [v])
    | .let_ _ name e => do
        let v ← evalExpr fuel e
        match name with
        | some n => ctxSet n.value v; pure .nil
        | none => fatal (.crash "evalLetStatement: nil Name")

/-- `evalForExpression` -/
def evalFor : Nat → Bytes → Bytes → Option Expr → Option Block → EM Val
  | 0, _, _, _, _ => fatal .outOfFuel
  | fuel+1, key, val, it, bl => do
    let octx ← getCur
    let c ← ctxNewChild octx
    copyFrame octx c
    withCtx c (forBody fuel key val it bl)

/-- the part of `evalForExpression` that runs in the loop's own scope -/
def forBody : Nat → Bytes → Bytes → Option Expr → Option Block → EM Val
  | 0, _, _, _, _ => fatal .outOfFuel
  | fuel+1, key, val, it, bl => do
    let iter ← evalExpr fuel it
    match bl with
    | none => fatal (.crash "evalForExpression: nil Block")
    | some block =>
      match iter with
      | .nil => pure Val.nil
      | .list _ addr | .rv (.list _ addr) => do
          -- (a reflect.Value is not iterable in Go; `.rv` falls to the error case below)
          match iter with
          | .rv _ => fail "could-not-iterate"
          | _ =>
            let items ← heapSlice addr
            forItems fuel key val block (items.toList.zipIdx.map fun (v, i) => (Val.int i, v)) []
      | .ilist vs => forItems fuel key val block (vs.zipIdx.map fun (v, i) => (Val.int i, v)) []
      | .map _ _ addr => do
          let es ← heapMap addr
          forItems fuel key val block es []
      | .iter pos end_ done => forRanger fuel key val block { pos := pos, end_ := end_, done := done } 0 []
      | .giter groups => forItems fuel key val block (groups.zipIdx.map fun (v, i) => (Val.int i, v)) []
      | .ptr _ (some (.struct ..)) | .ptr _ none => fail "could-not-iterate"
      | .ptr _ (some _) => unsupported "for over a pointer to a slice, map or scalar (Go dereferences it)"
      | _ => fail "could-not-iterate"

/-- the per-element loop body shared by the three iteration forms -/
def forItems : Nat → Bytes → Bytes → Block → List (Val × Val) → List Val → EM Val
  | 0, _, _, _, _, _ => fatal .outOfFuel
  | _+1, _, _, _, [], ret => pure (.ilist ret)
  | fuel+1, key, val, block, (k, v) :: rest, ret => do
    ctxSet key k
    ctxSet val v
    let res ← evalBlock fuel block
    match res with
    | .cont vs => forItems fuel key val block rest (ret ++ [.ilist vs])
    | .brk vs => pure (.ilist (ret ++ [.ilist vs]))
    | other => forItems fuel key val block rest (ret ++ [other])

def forRanger : Nat → Bytes → Bytes → Block → Gen.Ranger → Nat → List Val → EM Val
  | 0, _, _, _, _, _, _ => fatal .outOfFuel
  | fuel+1, key, val, block, rg, i, ret => do
    match Gen.Helpers.next rg with
    | (_, none) => pure (.ilist ret)
    | (rg', some x) =>
      ctxSet key (.int i)
      ctxSet val (.int x)
      let res ← evalBlock fuel block
      match res with
      | .cont vs => forRanger fuel key val block rg' (i + 1) (ret ++ [.ilist vs])
      | .brk vs => pure (.ilist (ret ++ [.ilist vs]))
      | other => forRanger fuel key val block rg' (i + 1) (ret ++ [other])

/-- `evalIndexExpression` / `evalAccessIndex` / `evalUpdateIndex` -/
def evalIndex : Nat → Option Expr → Option Expr → Option Expr → Option Expr → EM Val
  | 0, _, _, _, _ => fatal .outOfFuel
  | fuel+1, l, i, v, callee => do
    let index ← evalExpr fuel i
    let left ← evalExpr fuel l
    match v with
    | some ve => do
        let value ← evalExpr fuel (some ve)
        updateIndex left index value
    | none =>
      match callee with
      | none => accessIndex left index false
      | some ce => do
          -- `evalIndexCallee`: the element is bound, in a fresh child scope holding a copy of the caller's
          -- variables, under the name at the root of the callee chain; the callee is evaluated there
          let elem ← accessIndex left index false
          if (← mapKeyMissing left index) then pure .nil
          else
            let octx ← getCur
            let c ← ctxNewChild octx
            copyFrame octx c
            ctxSetIn c (calleeRoot ce (match l with | some le => pExpr le | none => [])) elem
            withCtx c (evalExpr fuel (some ce))

/-- `evalUserFunction`: arguments are evaluated in the caller's scope, then bound in a fresh child scope -/
def evalUserFn : Nat → List Ident → Block → List (Option Expr) → EM Val
  | 0, _, _, _ => fatal .outOfFuel
  | fuel+1, params, body, args => do
    if args.length < params.length then fail "too-few-arguments"
    else
      let vals ← evalExprs fuel (args.take params.length)
      let octx ← getCur
      let c ← ctxNewChild octx
      let r ← withCtx c (fnBody fuel params vals body)
      pure (unwrapReturn r)

/-- parameter binding and body of a user function, in the call's own scope -/
def fnBody : Nat → List Ident → List Val → Block → EM Val
  | 0, _, _, _ => fatal .outOfFuel
  | fuel+1, params, vals, body => do
    (params.zip vals).forM fun (p, v) => ctxSet p.value v
    evalBlock fuel body

/-- `evalCallExpression` -/
def evalCall : Nat → Option Expr → Option Expr → Expr → Option (List (Option Expr)) → Option Block → EM Val
  | 0, _, _, _, _, _ => fatal .outOfFuel
  | fuel+1, callee, chain, fnE, args, blk => do
    match callee with
    | some _ => unsupported "method call"
    | none =>
      let f ← evalExpr fuel (some fnE)
      match f with
      | .userfn ps body => evalUserFn fuel ps body (args.getD [])
      | .nil => fail "invalid-function"
      | .gofn name =>
        match helperSig name with
        | none => unsupported ("helper " ++ name)
        | some sig =>
          let argEs := args.getD []
          let received ← bindArgs fuel name sig argEs blk
          let res ← callHelper fuel name received
          match chain with
          | some _ => unsupported "chained call"
          | none => pure res
      | .closure .. => unsupported "calling a stored contentFor closure directly"
      | _ => fail "invalid-function"

/-- argument binding of `evalCallExpression` for Go functions (fixed and variadic paths) -/
def bindArgs : Nat → String → Sig → List (Option Expr) → Option Block → EM (List Val)
  | 0, _, _, _, _ => fatal .outOfFuel
  | fuel+1, _name, sig, argEs, blk => do
    let n := sig.params.length
    if !sig.variadic then
      if argEs.length > n then fail "too-many-arguments"
      else
        let got ← bindFixed fuel blk (argEs.zip (sig.params.take argEs.length)) []
        let cur ← getCur
        let supply (t : Ty) : Val :=
          if t == .named "plush.HelperContext" || t == .named "hctx.HelperContext" then .hctx cur blk
          else if t == optsTy then .map .string .any 0   -- placeholder; replaced by a fresh empty map below
          else zeroOf t
        let missing := n - got.length
        if missing == 0 then pure got
        else if missing ≤ 2 then do
          let extra := (sig.params.drop got.length).map supply
          -- allocate fresh empty maps for auto-supplied option maps
          let extra ← extra.mapM fun v => match v with
            | .map .string .any 0 => do let a ← allocMap []; pure (Val.map .string .any a)
            | v => pure v
          pure (got ++ extra)
        else fail "too-few-arguments"
    else
      if argEs.length < n - 1 then fail "too-few-arguments"
      else
        let fixedTs := sig.params.take (n - 1)
        let got ← bindFixed fuel blk ((argEs.take (n - 1)).zip fixedTs) []
        let elemT := match sig.params.getLast? with | some (.slice t) => t | _ => Ty.any
        let tail ← bindVariadic fuel elemT (argEs.drop (n - 1)) []
        pure (got ++ tail)

def bindFixed : Nat → Option Block → List (Option Expr × Ty) → List Val → EM (List Val)
  | 0, _, _, _ => fatal .outOfFuel
  | _+1, _, [], acc => pure acc
  | fuel+1, blk, (a, t) :: rest, acc => do
    let v ← evalExpr fuel a
    let cur ← getCur
    -- a nil argument becomes the parameter type's zero value (assignable by construction); where the
    -- helper context goes it becomes the real context
    let _ := cur
    let ar := if v.isNil then zeroOf t else v
    let okA := v.isNil || (match ar.ty with | some at_ => assignableTo at_ t | none => false)
    if !okA then fail "invalid-argument"
    else bindFixed fuel blk rest (acc ++ [ar])

def bindVariadic : Nat → Ty → List (Option Expr) → List Val → EM (List Val)
  | 0, _, _, _ => fatal .outOfFuel
  | _+1, _, [], acc => pure acc
  | fuel+1, t, a :: rest, acc => do
    let v ← evalExpr fuel a
    let ar := if v.isNil then zeroOf t else v
    let okA := v.isNil || (match ar.ty with | some at_ => assignableTo at_ t | none => false)
    if !okA then fail "invalid-argument"
    else bindVariadic fuel t rest (acc ++ [ar])

/-- `HelperContext.BlockWith(ctx)`: evaluate the call's block in `ctx`, render it through the sink -/
def blockWith : Nat → Option Block → Nat → EM Bytes
  | 0, _, _ => fatal .outOfFuel
  | fuel+1, blk, ctx => do
    match blk with
    | none => fail "no-block-defined"
    | some bl =>
      let v ← withCtx ctx (evalBlock fuel bl)
      renderVal v

/-- the helper bodies; errors returned by a helper are wrapped by the call site (`could not call … %w`) -/
def callHelper : Nat → String → List Val → EM Val
  | 0, _, _ => fatal .outOfFuel
  | fuel+1, name, args => do
    traceEv name
    let wrap (e : Err) : Err := { e with kind := "helper-failed", direct := false }
    match name, args with
    | "len", [v] =>
        match v with
        | .nil => pure (.int 0)
        | .str s => pure (.int s.length)
        | .html s => pure (.int s.length)
        | .list _ a => do pure (.int (← heapSlice a).size)
        | .ilist vs => pure (.int vs.length)
        | .map _ _ a => do pure (.int (← heapMap a).length)
        | .int _ | .float _ | .bool _ | .gofn _ | .userfn .. | .iter .. | .giter _ | .hctx .. | .closure .. =>
            throwErr (wrap { kind := "no-length" })
        | _ => unsupported "len of a value outside the modelled kinds"
    | "range", [.int a, .int c] => let r := Gen.Helpers.Range a c; pure (.iter r.pos r.end_ r.done)
    | "between", [.int a, .int c] => let r := Gen.Helpers.Between a c; pure (.iter r.pos r.end_ r.done)
    | "until", [.int a] => let r := Gen.Helpers.Until a; pure (.iter r.pos r.end_ r.done)
    | "raw", [.str s] => pure (.html s)
    | "html", [.str s] => pure (.html s)
    | "jsEscape", [.str s] =>
        match jsEscape s with
        | some r => pure (.str r)
        | none => unsupported "jsEscape of non-ASCII input"
    | "htmlEscape", [.str s, .hctx c blk] => do
        let s' ← match blk with
          | some _ => do
              match (← attempt (blockWith fuel blk c)) with
              | .ok x => pure x
              | .error e => throwErr (wrap e)
          | none => pure s
        pure (.str (htmlEscape s'))
    | "truncate", [.str s, .map _ _ a] => do
        let es ← heapMap a
        -- an option that is missing, nil or of the wrong type falls back to its default
        let size : Int := match mapLookup (.str (b "size")) es with
          | some (.int n) => n
          | _ => 50
        let trail : Bytes := match mapLookup (.str (b "trail")) es with
          | some (.str t) => t
          | _ => b "..."
        pure (.str (truncate s size trail))
    | "groupBy", [.int n, v] =>
        if n ≤ 0 then throwErr (wrap { kind := "groupBy-size" })
        else match v with
          | .list ety a => do
              let items ← heapSlice a
              let groups := groupBy n.toNat items.toList
              let gs ← groups.mapM fun g => do let ga ← allocSlice g.toArray; pure (Val.list ety ga)
              pure (.giter gs)
          | _ => throwErr (wrap { kind := "groupBy-kind" })
    | "htmlEscape", [.str s, .nil] => pure (.str (htmlEscape s))
    | "contentFor", [.str _, .nil] => pure .nil
    | "contentOf", [.str _, _, .nil] => throwErr (wrap { kind := "no-helper-context" })
    | "contentFor", [.str nm, .hctx c blk] => do
        ctxSetIn c (b "contentFor:" ++ nm) (.closure blk c)
        pure .nil
    | "contentOf", [.str nm, .map _ _ da, .hctx c blk] => do
        let data ← heapMap da
        let s ← getS
        match s.store.value c (b "contentFor:" ++ nm) with
        | .closure cblk cctx => do
            let child ← ctxNewChild cctx
            data.forM fun (k, v) => match k with | .str ks => ctxSetIn child ks v | _ => pure ()
            match (← attempt (blockWith fuel cblk child)) with
            | .ok body => pure (.html body)
            | .error e => throwErr (wrap e)
        | _ =>
          match blk with
          | none => throwErr (wrap { kind := "missing-contentOf-block" })
          | some _ => do
            let child ← ctxNewChild c
            data.forM fun (k, v) => match k with | .str ks => ctxSetIn child ks v | _ => pure ()
            match (← attempt (blockWith fuel blk child)) with
            | .ok body => pure (.html body)
            | .error e => throwErr (wrap e)
    | "partial", [.str nm, .map _ _ da, .hctx c _] => do
        let data ← heapMap da
        match (← attempt (partialHelper fuel nm data c)) with
        | .ok v => pure v
        | .error e => throwErr (wrap e)
    -- harness helpers
    | "echo", vs => pure (.str (joinWith (b ",") (vs.map echoVal)))
    | "fail", [] => throwErr { kind := "helper-failed", causes := ["E1"] }
    | "failif", [.bool c] => if c then throwErr { kind := "helper-failed", causes := ["E1"] } else pure (.str (b "ok"))
    | "tick", [] => do
        modifyS fun s => { s with ticks := s.ticks + 1 }
        pure (.int (← getS).ticks)
    | "ident", [v] => pure v
    | "add", [.int a, .int c] => pure (.int (wrap64 (a + c)))
    | "cat", [.str a, .str c] => pure (.str (a ++ c))
    | "vstr", (.str a) :: rest => pure (.str (a ++ b ":" ++ joinWith (b ",") (rest.map echoVal)))
    | "opts", [.str a, .map _ _ m] => do
        let es ← heapMap m
        pure (.str (a ++ b ":" ++ joinWith (b ",") (es.map fun (k, v) => echoVal k ++ b "=" ++ echoVal v)))
    | "blk", [.hctx c blk] => do
        match (← attempt (blockWith fuel blk c)) with
        | .ok body => pure (.html (b "[" ++ body ++ b "]"))
        | .error e => throwErr (wrap e)
    | "blkw", [.str k, v, .hctx c blk] => do
        let child ← ctxNewChild c
        ctxSetIn child k v
        match (← attempt (blockWith fuel blk child)) with
        | .ok body => pure (.html (b "{" ++ body ++ b "}"))
        | .error e => throwErr (wrap e)
    | "hasblk", [.hctx _ blk] => pure (.bool blk.isSome)
    | _, _ => unsupported ("helper call shape " ++ name)

/-- `PartialHelper` -/
def partialHelper : Nat → Bytes → List (Val × Val) → Nat → EM Val
  | 0, _, _, _ => fatal .outOfFuel
  | fuel+1, name, data, c => do
    let child ← ctxNewChild c
    data.forM fun (k, v) => match k with | .str ks => ctxSetIn child ks v | _ => pure ()
    let s ← getS
    match s.store.value child (b "partialFeeder") with
    | .gofn "feeder" =>
      match lookupKeyB name s.feeder with
      | none => throwErr { kind := "feeder-failed", causes := ["EFEED"] }
      | some src =>
        let part ← renderIn fuel src child
        let part ← match s.store.value child (b "contentType") with
          | .str ct =>
            let ext := fileExt name
            if containsB ct (b "javascript") && ext != b ".js" && ext != [] then
              match jsEscape part with
              | some x => pure x
              | none => unsupported "jsEscape of non-ASCII input"
            else pure part
          | _ => pure part
        match mapLookup (.str (b "layout")) data with
        | some (.str layout) => do
            let a ← allocMap [(.str (b "yield"), .html part)]
            let _ := a
            partialHelper fuel layout [(.str (b "yield"), .html part)] child
        | _ => pure (.html part)
    | _ => throwErr { kind := "no-partial-feeder" }

/-- `Render(input, ctx)`: parse + a fresh compiler on `ctx` -/
def renderIn : Nat → Bytes → Nat → EM Bytes
  | 0, _, _ => fatal .outOfFuel
  | fuel+1, src, ctx => do
    match parseBytes src with
    | .error .outOfFuel => fatal .outOfFuel
    | .error (.crash s) => fatal (.crash s)
    | .error (.hang s) => fatal (.crash ("hang " ++ s))
    | .ok (prog, errs) =>
      if !errs.isEmpty then
        throwErr { kind := "parse", line := (errs[0]?.bind (·.line)) }
      else do
        let octx ← getCur
        let ocur := (← getS).curStmt
        setCur ctx
        modifyS fun s => { s with curStmt := none }
        let r ← attempt (compileStmts fuel prog.stmts [])
        setCur octx
        modifyS fun s => { s with curStmt := ocur }
        match r with
        | .ok out => pure out
        | .error e => throwErr e

/-- `compiler.compile` -/
def compileStmts : Nat → List Stmt → Bytes → EM Bytes
  | 0, _, _ => fatal .outOfFuel
  | _+1, [], out => pure out
  | fuel+1, s :: rest, out => do
    modifyS fun st => { st with curStmt := none }
    let r ← attempt (do
      match s with
      | .ret isOut _ e => do
          let v ← evalExpr fuel e
          if isOut then pure v else pure (Val.ret [v])
      | .es _ (some (.html _ v)) => pure (Val.html v)
      | .es _ e => do let _ ← evalExpr fuel e; pure Val.nil
      | .let_ _ name e => do
          let v ← evalExpr fuel e
          match name with
          | some n => ctxSet n.value v; pure Val.nil
          | none => fatal (.crash "evalLetStatement: nil Name"))
    match r with
    | .error e =>
        let line := match (← getS).curStmt with | some l => l | none => s.tok.line
        throwErr { e with line := some line, direct := false }
    | .ok v => do
        let bs ← renderVal v
        compileStmts fuel rest (out ++ bs)

end


end Plush
