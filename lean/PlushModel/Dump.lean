import PlushModel.Parser
/-! Canonical S-expression of a program — same format as /verif/harness/astdump.go. -/
namespace Plush

def hx (bs : Bytes) : String := toHexField bs

def dumpIdent (i : Ident) : String :=
  let parts := (match i.base with | some x => [s!" b:{hx x}"] | none => []) ++ i.segs.map (fun s => s!" s:{hx s}")
  s!"(id {i.tok.line} {hx i.tok.lit}{String.join parts})"

mutual
def dumpExpr : Expr → String
  | .html t v => s!"(html {t.line} {hx v})"
  | .str t v => s!"(str {t.line} {hx v} {hx t.lit})"
  | .int t v => s!"(int {t.line} {v})"
  | .float t => s!"(float {t.line} {hx t.lit})"
  | .bool t v => s!"(bool {t.line} {if v then "t" else "f"})"
  | .ident i => dumpIdent i
  | .pre t op r => s!"(pre {t.line} {hx op} {dumpOpt r})"
  | .inf t op l r => s!"(inf {t.line} {hx op} {dumpOpt l} {dumpOpt r})"
  | .asg t n v => s!"(asg {t.line} {dumpIdent n} {dumpOpt v})"
  | .arr t es => s!"(arr {t.line} {dumpOptList es})"
  | .hash t ps => s!"(hash {t.line}{dumpPairs ps})"
  | .idx t l i v c => s!"(idx {t.line} {dumpOpt l} {dumpOpt i} {dumpOpt v} {dumpOpt c})"
  | .call t cal ch f args blk =>
      s!"(call {t.line} {dumpOpt cal} {dumpOpt ch} {dumpExpr f} {dumpOptList args} {dumpOptBlock blk})"
  | .fn t ps bl =>
      let pstr := match ps with
        | none => "nil"
        | some l => "(" ++ " ".intercalate (l.map fun (p : Ident) => s!"{p.tok.line}:{hx p.value}") ++ ")"
      s!"(fn {t.line} {hx t.lit} {pstr} {dumpBlock bl})"
  | .if_ t c bl elifs els => s!"(if {t.line} {dumpOpt c} {dumpBlock bl} ({dumpElifs elifs}) {dumpOptBlock els})"
  | .for_ t k v it bl => s!"(for {t.line} {hx k} {hx v} {dumpOpt it} {dumpOptBlock bl})"
  | .brk t => s!"(brk {t.line})"
  | .cont t => s!"(cont {t.line})"
def dumpOpt : Option Expr → String
  | none => "-"
  | some e => dumpExpr e
def dumpList : List (Option Expr) → List String
  | [] => []
  | e :: r => dumpOpt e :: dumpList r
def dumpOptList : Option (List (Option Expr)) → String
  | none => "nil"
  | some l => "(" ++ " ".intercalate (dumpList l) ++ ")"
def dumpPairs : List (Option Expr × Option Expr) → String
  | [] => ""
  | (k, v) :: r => s!" ({dumpOpt k} {dumpOpt v})" ++ dumpPairs r
def dumpElifs : List (Token × Option Expr × Block) → String
  | [] => ""
  | [(t, c, bl)] => s!"(elif {t.line} {dumpOpt c} {dumpBlock bl})"
  | (t, c, bl) :: r => s!"(elif {t.line} {dumpOpt c} {dumpBlock bl}) " ++ dumpElifs r
def dumpStmt : Stmt → String
  | .ret isOut t v => s!"({if isOut then "out" else "ret"} {t.line} {dumpOpt v})"
  | .let_ t n v => s!"(let {t.line} {match n with | some i => dumpIdent i | none => "-"} {dumpOpt v})"
  | .es t e => s!"(es {t.line} {dumpOpt e})"
def dumpStmts : List Stmt → String
  | [] => ""
  | s :: r => " " ++ dumpStmt s ++ dumpStmts r
def dumpBlock : Block → String
  | .mk t ss => s!"(blk {t.line}{dumpStmts ss})"
def dumpOptBlock : Option Block → String
  | none => "-"
  | some bl => dumpBlock bl
end

def dumpProgram (p : Program) : String := s!"(prog{dumpStmts p.stmts})"

def obsParse (src : Bytes) : String :=
  let input := src.toArray
  if lexCrashed (input.size + 2) (LX.new input) then "PANIC"
  else match parseBytes src with
    | .error .outOfFuel => "OUTOFFUEL"
    | .error (.crash _) => "PANIC"
    | .error (.hang _) => "HANG"
    | .ok (prog, errs) =>
      if errs.isEmpty then "OK " ++ dumpProgram prog
      else
        let ls := errs.toList.map fun e => match e.line with | some n => toString n | none => "-"
        s!"ERR n={errs.size} lines={",".intercalate ls}"

end Plush
