import PlushModel.Value
namespace Plush

/-- result of one row of an operator table of compiler.go -/
inductive OpOut
  | int (i : Int) | float (d : Dyadic) | floatDiv (l r : Dyadic) | str (s : Bytes) | bool (v : Bool)
  | divZero | regex | unknownOp
  deriving Repr, DecidableEq

/-- bytewise `<` on Go strings -/
def bytesLt : Bytes → Bytes → Bool
  | [], [] => false
  | [], _ :: _ => true
  | _ :: _, [] => false
  | a :: as, c :: cs => if a < c then true else if a > c then false else bytesLt as cs

/-- Go's truncated integer division with wrap-around (`MinInt64 / -1 = MinInt64`) -/
def goDiv (l r : Int) : Int := wrap64 (Int.tdiv l r)

end Plush
