import PlushModel.Ast
/-!
  The value universe of the evaluator model (DESIGN.md §3.4): what a `interface{}` can hold in
  the modelled fragment of plush. Slices and maps are references into a heap (Go aliasing).
  `float64` values are exact dyadic rationals `num / 2^exp` (generator-restricted; IEEE rounding,
  NaN and ±Inf are outside the model — operations that would need them answer `unsupported`).
-/
namespace Plush

inductive Ty
  | int | float64 | string | bool | any | html
  | slice (e : Ty) | map (k v : Ty) | ptr (e : Ty)
  | named (name : String)            -- struct / func / other named type of the harness family
  deriving DecidableEq, Repr, Inhabited

structure Dyadic where
  num : Int
  exp : Nat        -- value = num / 2^exp, normalised: exp = 0 or num odd
  deriving DecidableEq, Repr, Inhabited

namespace Dyadic
def normalize : Nat → Int → Nat → Dyadic
  | 0, n, e => ⟨n, e⟩
  | fuel+1, n, e => if e > 0 && n % 2 == 0 then normalize fuel (n / 2) (e - 1) else ⟨n, e⟩
def mk' (n : Int) (e : Nat) : Dyadic := normalize e n e
def ofInt (n : Int) : Dyadic := ⟨n, 0⟩
def add (a b : Dyadic) : Dyadic :=
  let e := max a.exp b.exp
  mk' (a.num * 2 ^ (e - a.exp) + b.num * 2 ^ (e - b.exp)) e
def neg (a : Dyadic) : Dyadic := ⟨-a.num, a.exp⟩
def sub (a b : Dyadic) : Dyadic := add a (neg b)
def mul (a b : Dyadic) : Dyadic := mk' (a.num * b.num) (a.exp + b.exp)
def lt (a b : Dyadic) : Bool :=
  let e := max a.exp b.exp
  a.num * 2 ^ (e - a.exp) < b.num * 2 ^ (e - b.exp)
def isZero (a : Dyadic) : Bool := a.num == 0
/-- exact quotient when it is again a (small) dyadic -/
def div? (a b : Dyadic) : Option Dyadic :=
  if b.num == 0 then none
  else
    -- a/b = (a.num * 2^b.exp) / (b.num * 2^a.exp); need denominator's odd part to divide numerator
    let n := a.num * 2 ^ b.exp
    let d := b.num * 2 ^ a.exp
    -- scale by 2^k to look for an exact dyadic result with up to 60 fractional bits
    let k := 60
    let q := (n * 2 ^ k) / d
    if q * d == n * 2 ^ k then some (mk' q k) else none
/-- fits a float64 exactly (53-bit mantissa, modest exponent) -/
def exact (a : Dyadic) : Bool := a.num.natAbs < 2 ^ 53 && a.exp ≤ 40
end Dyadic

mutual
inductive Val
  | nil
  | bool (b : Bool)
  | int (i : Int)                         -- Go `int`, normalised to the int64 range
  | float (d : Dyadic)
  | str (s : Bytes)
  | html (s : Bytes)                      -- template.HTML
  | list (ety : Ty) (addr : Nat)          -- slice header (reference)
  | map (kty vty : Ty) (addr : Nat)       -- map (reference)
  | rv (v : Val)                          -- a reflect.Value (what `slice + x` yields)
  | gofn (name : String)                  -- a Go function of the closed helper family
  | userfn (params : List Ident) (body : Block)
  | iter (pos end_ : Int) (done : Bool)   -- *ranger
  | ret (vs : List Val) | cont (vs : List Val) | brk (vs : List Val)
  | ilist (vs : List Val)                 -- an immutable []interface{} built by the evaluator (block / loop results)
  | closure (block : Option Block) (ctx : Nat)   -- the func stored by contentFor (captures the helper context)
  | hctx (ctx : Nat) (block : Option Block)      -- a plush.HelperContext
  | giter (groups : List Val)                    -- *groupBy iterator
  | opaque (ty : String) (repr : Bytes)   -- any other Go value: type name and `fmt.Sprint`
  | struct (ty : String) (fields : List (Bytes × Val))   -- a Go struct value of the harness family (no methods, no embedding)
  | ptr (pty : String) (target : Option Val)             -- a Go pointer: `none` = typed nil pointer, `some v` = &v
end

instance : Inhabited Val := ⟨.nil⟩

inductive HeapObj
  | slice (items : Array Val)
  | map (entries : List (Val × Val))      -- insertion order kept; Go's iteration order is a parameter
  deriving Inhabited

/-- wrap-around of Go's 64-bit `int` -/
def wrap64 (i : Int) : Int :=
  let m := (i + 9223372036854775808) % 18446744073709551616
  m - 9223372036854775808

def Val.isNil : Val → Bool | .nil => true | _ => false

def Val.isExit : Val → Bool
  | .ret _ | .cont _ | .brk _ => true
  | _ => false

/-- `%T` (only used to classify; messages are not compared) -/
def Val.tyName : Val → String
  | .nil => "<nil>" | .bool _ => "bool" | .int _ => "int" | .float _ => "float64" | .str _ => "string"
  | .html _ => "template.HTML" | .list .. => "slice" | .map .. => "map" | .rv _ => "reflect.Value"
  | .gofn _ => "func" | .userfn .. => "*plush.userFunction" | .iter .. => "*iterators.ranger"
  | .ret _ => "plush.returnObject" | .cont _ => "plush.continueObject" | .brk _ => "plush.breakObject"
  | .ilist _ => "[]interface {}" | .closure .. => "func" | .hctx .. => "plush.HelperContext"
  | .giter _ => "*iterators.groupBy" | .opaque t _ => t
  | .struct t _ => t | .ptr t _ => t

end Plush
