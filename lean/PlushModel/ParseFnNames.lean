namespace Plush.Gen
/-- names of the parser's prefix functions (methods of `*parser` in /repo/parser/parser.go);
    `returnNil` is the function literal registered for E_END -/
inductive PrefixFn
  | parseIdentifier | parseForLoopControlFlow | parseIntegerLiteral | parseFloatLiteral
  | parseStringLiteral | parsePrefixExpression | parseBoolean | parseGroupedExpression
  | parseIfExpression | parseForExpression | parseFunctionLiteral | parseArrayLiteral
  | parseHashLiteral | parseHTMLLiteral | parseCommentLiteral | returnNil
  deriving DecidableEq, Repr

inductive InfixFn
  | parseInfixExpression | parseCallExpression | parseIndexExpression
  deriving DecidableEq, Repr
end Plush.Gen
