import PlushModel.Write
import PlushModel.Ctx
import PlushModel.Gen.Iterators
/-!
  Pure built-in helpers of /repo/helpers (text, escapes, encoders, iterators, meta) on the value
  universe, and Go's UTF-8 decoding for `[]rune(s)`.
-/
namespace Plush

/-- `[]rune(s)`: decode UTF-8; every invalid byte becomes U+FFFD (0xFFFD), as Go does. -/
def decodeRunes : Nat → Bytes → List Nat
  | 0, _ => []
  | _, [] => []
  | fuel+1, c :: rest =>
    let bad := 0xFFFD :: decodeRunes fuel rest
    let cont (x : UInt8) : Bool := x &&& 0xC0 == 0x80
    if c < 0x80 then c.toNat :: decodeRunes fuel rest
    else if c < 0xC2 then bad
    else if c < 0xE0 then
      match rest with
      | c1 :: r => if cont c1 then ((c.toNat &&& 0x1F) <<< 6 ||| (c1.toNat &&& 0x3F)) :: decodeRunes fuel r else bad
      | _ => bad
    else if c < 0xF0 then
      match rest with
      | c1 :: c2 :: r =>
        let lo : UInt8 := if c == 0xE0 then 0xA0 else 0x80
        let hi : UInt8 := if c == 0xED then 0x9F else 0xBF
        if lo ≤ c1 && c1 ≤ hi && cont c2 then
          ((c.toNat &&& 0x0F) <<< 12 ||| (c1.toNat &&& 0x3F) <<< 6 ||| (c2.toNat &&& 0x3F)) :: decodeRunes fuel r
        else bad
      | _ => bad
    else if c < 0xF5 then
      match rest with
      | c1 :: c2 :: c3 :: r =>
        let lo : UInt8 := if c == 0xF0 then 0x90 else 0x80
        let hi : UInt8 := if c == 0xF4 then 0x8F else 0xBF
        if lo ≤ c1 && c1 ≤ hi && cont c2 && cont c3 then
          ((c.toNat &&& 0x07) <<< 18 ||| (c1.toNat &&& 0x3F) <<< 12 ||| (c2.toNat &&& 0x3F) <<< 6 ||| (c3.toNat &&& 0x3F))
            :: decodeRunes fuel r
        else bad
      | _ => bad
    else bad

def runes (s : Bytes) : List Nat := decodeRunes s.length s

/-- `string(rune)` -/
def encodeRune (r : Nat) : Bytes :=
  let r := if r > 0x10FFFF || (0xD800 ≤ r && r ≤ 0xDFFF) then 0xFFFD else r
  if r < 0x80 then [r.toUInt8]
  else if r < 0x800 then [(0xC0 ||| (r >>> 6)).toUInt8, (0x80 ||| (r &&& 0x3F)).toUInt8]
  else if r < 0x10000 then
    [(0xE0 ||| (r >>> 12)).toUInt8, (0x80 ||| ((r >>> 6) &&& 0x3F)).toUInt8, (0x80 ||| (r &&& 0x3F)).toUInt8]
  else
    [(0xF0 ||| (r >>> 18)).toUInt8, (0x80 ||| ((r >>> 12) &&& 0x3F)).toUInt8,
     (0x80 ||| ((r >>> 6) &&& 0x3F)).toUInt8, (0x80 ||| (r &&& 0x3F)).toUInt8]

def encodeRunes (rs : List Nat) : Bytes := rs.flatMap encodeRune

/-- `text.Truncate` on well-typed options (size : int, trail : string). -/
def truncate (s : Bytes) (size : Int) (trail : Bytes) : Bytes :=
  let rs := runes s
  if (rs.length : Int) ≤ size then s
  else
    let rt := runes trail
    if (rt.length : Int) ≥ size then trail
    else encodeRunes (rs.take (size - rt.length).toNat) ++ trail

/-- `template.JSEscapeString` on ASCII and on bytes ≥ 0x80 that form valid printable runes is
    modelled for the ASCII fragment; non-ASCII input answers `none` (unicode.IsPrint is not modelled). -/
def jsEscapeByte (c : UInt8) : Option Bytes :=
  if c ≥ 0x80 then none
  else if c == 92 then some [92, 92]                        -- \\
  else if c == 39 then some [92, 39]                        -- \'
  else if c == 34 then some [92, 34]                        -- \"
  else if c == 60 then some [92, 117, 48, 48, 51, 67]       -- \u003C
  else if c == 62 then some [92, 117, 48, 48, 51, 69]       -- \u003E
  else if c == 38 then some [92, 117, 48, 48, 50, 54]       -- \u0026
  else if c == 61 then some [92, 117, 48, 48, 51, 68]       -- \u003D
  else if c < 32 then
    some [92, 117, 48, 48, hexDigitUpper (c >>> 4), hexDigitUpper (c &&& 15)]
  else some [c]
where hexDigitUpper (n : UInt8) : UInt8 := if n < 10 then 48 + n else 55 + n

def jsEscape : Bytes → Option Bytes
  | [] => some []
  | c :: r => do
    let a ← jsEscapeByte c
    let rest ← jsEscape r
    pure (a ++ rest)

/-- `GroupBy`: group size = ceil(len/n), consecutive sub-slices; the whole slice when len = n. -/
def groupByLoop {α} (groupSize : Nat) : Nat → List α → List (List α)
  | 0, _ => []
  | _, [] => []
  | fuel+1, xs => xs.take groupSize :: groupByLoop groupSize fuel (xs.drop groupSize)

/-- `groupSize := u.Len() / size; if u.Len()%size != 0 { groupSize++ }` -/
def groupSize (len size : Nat) : Nat := len / size + (if len % size != 0 then 1 else 0)

def groupBy {α} (size : Nat) (xs : List α) : List (List α) :=
  if xs.length == size then [xs]
  else if groupSize xs.length size == 0 then [] else groupByLoop (groupSize xs.length size) xs.length xs

end Plush
