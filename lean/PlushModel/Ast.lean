import PlushModel.Token
/-!
  Mirror of /repo/ast/*.go. `Option` wherever the Go field can hold nil.
  An identifier chain (`Callee` links down to the root, `OriginalCallee` = root) is a path:
  `segs` root first; `base` is the synthetic identifier that `assignCallee` installs as the
  root's Callee (its Value is the printed left operand of `a[i].b` / `f().b`).
-/
namespace Plush

structure Ident where
  tok : Token
  base : Option Bytes := none
  segs : List Bytes
  deriving DecidableEq, Repr, Inhabited

def zeroTok : Token := { type := .ILLEGAL, lit := [], line := 0 }
/-- a Go `token.Token{}` (Type "") — the dump prints its identifiers with the `b:` marker -/
def identTok (lit : Bytes) : Token := { type := .IDENT, lit := lit, line := 0 }

/-- `Identifier.Value` of the outermost node -/
def Ident.value (i : Ident) : Bytes :=
  match i.segs.getLast? with
  | some v => v
  | none => i.base.getD []

/-- `Identifier.String()` -/
def Ident.str (i : Ident) : Bytes :=
  joinWith [46] ((match i.base with | some x => [x] | none => []) ++ i.segs)

mutual
inductive Expr
  | html (tok : Token) (v : Bytes)
  | str (tok : Token) (v : Bytes)
  | int (tok : Token) (v : Int)
  | float (tok : Token)
  | bool (tok : Token) (v : Bool)
  | ident (i : Ident)
  | pre (tok : Token) (op : Bytes) (right : Option Expr)
  | inf (tok : Token) (op : Bytes) (left right : Option Expr)
  | asg (tok : Token) (name : Ident) (value : Option Expr)
  | arr (tok : Token) (elems : Option (List (Option Expr)))
  | hash (tok : Token) (pairs : List (Option Expr × Option Expr))
  | idx (tok : Token) (left index value callee : Option Expr)
  | call (tok : Token) (callee chain : Option Expr) (fn : Expr) (args : Option (List (Option Expr)))
         (block : Option Block)
  | fn (tok : Token) (params : Option (List Ident)) (block : Block)
  | if_ (tok : Token) (cond : Option Expr) (block : Block) (elifs : List (Token × Option Expr × Block))
        (els : Option Block)
  | for_ (tok : Token) (key val : Bytes) (iter : Option Expr) (block : Option Block)
  | brk (tok : Token)
  | cont (tok : Token)
inductive Stmt
  | ret (isOut : Bool) (tok : Token) (v : Option Expr)
  | let_ (tok : Token) (name : Option Ident) (value : Option Expr)
  | es (tok : Token) (e : Option Expr)
inductive Block
  | mk (tok : Token) (stmts : List Stmt)
end

instance : Inhabited Expr := ⟨.brk zeroTok⟩
instance : Inhabited Block := ⟨.mk zeroTok []⟩

structure Program where
  stmts : List Stmt

def Block.stmts : Block → List Stmt | .mk _ s => s
def Block.tok : Block → Token | .mk t _ => t

def Stmt.tok : Stmt → Token
  | .ret _ t _ => t | .let_ t _ _ => t | .es t _ => t

end Plush
