import PlushModel.Value
/-!
  Model of `compiler.write` (compiler.go:73-108), the single output sink, and of the escapers and
  printers it delegates to (`text/template.HTMLEscape`, `fmt.Sprint` on the modelled fragment).
-/
namespace Plush

/-- `template.HTMLEscapeString` (text/template `HTMLEscape`): five replacements and NUL ↦ U+FFFD. -/
def htmlEscapeByte (c : UInt8) : Bytes :=
  if c == 0 then [0xEF, 0xBF, 0xBD]
  else if c == 34 then [38, 35, 51, 52, 59]      -- &#34;
  else if c == 39 then [38, 35, 51, 57, 59]      -- &#39;
  else if c == 38 then [38, 97, 109, 112, 59]    -- &amp;
  else if c == 60 then [38, 108, 116, 59]        -- &lt;
  else if c == 62 then [38, 103, 116, 59]        -- &gt;
  else [c]

def htmlEscape (s : Bytes) : Bytes := s.flatMap htmlEscapeByte

/-- decimal digits of a natural number, left-padded to `w` -/
def padDigits (n w : Nat) : Bytes :=
  let d := natToBytes n
  List.replicate (w - d.length) 48 ++ d

def stripTrailingZeros (l : Bytes) : Bytes := (l.reverse.dropWhile (· == 48)).reverse

/-- `fmt.Sprint(float64)` (`%v` = shortest `g`) on exact dyadics whose exact expansion has at most
    15 significant digits and needs no exponent; `none` = outside the modelled fragment. -/
def sprintFloat (d : Dyadic) : Option Bytes :=
  if !d.exact then none else
  let neg := d.num < 0
  let mag := d.num.natAbs
  let scaled := mag * 5 ^ d.exp                -- mag / 2^exp = scaled / 10^exp
  let ip := scaled / 10 ^ d.exp
  let fp := scaled % 10 ^ d.exp
  let fdigits := stripTrailingZeros (padDigits fp d.exp)
  let idigits := natToBytes ip
  let sig := (if ip == 0 then 0 else idigits.length) + fdigits.length
  if sig > 15 || ip ≥ 10 ^ 21 then none
  else if ip == 0 && fp != 0 && (fdigits.takeWhile (· == 48)).length ≥ 4 then none   -- would print with an exponent
  else some ((if neg then [45] else []) ++ idigits ++ (if fdigits.isEmpty then [] else [46] ++ fdigits))

/-- `fmt.Sprint(v)` for the scalar fragment. -/
def sprint : Val → Option Bytes
  | .nil => some (b "<nil>")
  | .bool true => some (b "true")
  | .bool false => some (b "false")
  | .int i => some (intToBytes i)
  | .float d => sprintFloat d
  | .str s => some s
  | .html s => some s
  | .opaque _ r => some r
  | _ => none

inductive Chunk
  | lit (t : Bytes)       -- literal template text (an HTMLLiteral node)
  | esc (s : Bytes)       -- flatten = htmlEscape s
  | trusted (t : Bytes)   -- template.HTML / HTMLer / raw(): verbatim
  | num (t : Bytes)       -- Sprint of a number
  deriving DecidableEq, Repr

def Chunk.flatten : Chunk → Bytes
  | .lit t => t | .esc s => htmlEscape s | .trusted t => t | .num t => t

def flattenChunks (cs : List Chunk) : Bytes := cs.flatMap Chunk.flatten

/-- what `write` needs to know about a slice on the heap -/
abbrev HeapView := Nat → Option (Array Val)

mutual
/-- `compiler.write`: `none` = the value leaves the modelled fragment (a Stringer, time, …). -/
def writeVal (heap : HeapView) : Nat → Val → Option (List Chunk)
  | 0, _ => none
  | _+1, .nil => some []
  | _+1, .str s => some [.esc s]
  | _+1, .bool v => some [.esc (if v then b "true" else b "false")]
  | _+1, .html s => some [.trusted s]
  | _+1, .int i => some [.num (intToBytes i)]
  | _+1, .float d => (sprintFloat d).map fun t => [.num t]
  | f+1, .rv v => writeVal heap f v
  | f+1, .list ety addr =>
    if ety == .string || ety == .any then
      match heap addr with
      | some items => writeVals heap f items.toList
      | none => none
    else some []                    -- other slice types fall through the type switch: nothing is written
  | f+1, .ilist vs => writeVals heap f vs
  | f+1, .ret vs => writeVals heap f vs
  | _+1, .cont _ => some []
  | _+1, .brk _ => some []
  | _+1, .map .. => some []
  | _+1, .gofn _ => some []
  | _+1, .iter .. => some []
  | _+1, .closure .. => some []
  | _+1, .hctx .. => some []
  | _+1, .giter _ => some []
  | _+1, .userfn .. => none        -- *userFunction is a fmt.Stringer: its source text would be written
  | _+1, .opaque _ _ => none
  | _+1, .struct .. => some []     -- a struct that is neither Stringer nor HTMLer falls through the type switch
  | _+1, .ptr .. => some []        -- a typed nil pointer prints nothing (guard); a pointer to such a struct falls through
def writeVals (heap : HeapView) : Nat → List Val → Option (List Chunk)
  | 0, _ => none
  | _+1, [] => some []
  | f+1, v :: r => do
    let a ← writeVal heap f v
    let c ← writeVals heap f r
    pure (a ++ c)
end

end Plush
