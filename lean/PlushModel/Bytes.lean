/-
  Go strings are arbitrary byte sequences; the model uses `List UInt8`.
  Core-only (no Mathlib) so that the driver links as a `lean_exe`.
-/
namespace Plush

abbrev Bytes := List UInt8

/-- ASCII/UTF-8 literal to bytes (for readable definitions and witnesses). -/
def b (s : String) : Bytes := s.toUTF8.data.toList

def hexDigit (n : UInt8) : Char :=
  if n < 10 then Char.ofNat (48 + n.toNat) else Char.ofNat (87 + n.toNat)

def toHex (bs : Bytes) : String :=
  String.ofList (bs.flatMap fun (c : UInt8) => [hexDigit (c >>> 4), hexDigit (c &&& 15)])

def hexVal (c : Char) : Option UInt8 :=
  if '0' ≤ c ∧ c ≤ '9' then some (c.toNat - 48).toUInt8
  else if 'a' ≤ c ∧ c ≤ 'f' then some (c.toNat - 87).toUInt8
  else if 'A' ≤ c ∧ c ≤ 'F' then some (c.toNat - 55).toUInt8
  else none

def fromHexChars : List Char → Option Bytes
  | [] => some []
  | [_] => none
  | a :: c :: rest => do
      let x ← hexVal a
      let y ← hexVal c
      let r ← fromHexChars rest
      pure ((x <<< 4 ||| y) :: r)

/-- "-" denotes the empty string so that every field of a protocol line is non-empty. -/
def fromHex (s : String) : Option Bytes :=
  if s == "-" then some [] else fromHexChars s.toList

def toHexField (bs : Bytes) : String := if bs.isEmpty then "-" else toHex bs

/-- `strings.Split(s, sep)` for a one-byte separator. -/
def splitOn1 (sep : UInt8) : Bytes → List Bytes
  | [] => [[]]
  | c :: rest =>
    if c == sep then [] :: splitOn1 sep rest
    else match splitOn1 sep rest with
      | [] => [[c]]
      | h :: t => (c :: h) :: t

def joinWith (sep : Bytes) : List Bytes → Bytes
  | [] => []
  | [x] => x
  | x :: rest => x ++ sep ++ joinWith sep rest

/-- `strings.Contains`/prefix helpers. -/
def isPrefixOfB : Bytes → Bytes → Bool
  | [], _ => true
  | _ :: _, [] => false
  | a :: as, c :: cs => a == c && isPrefixOfB as cs

def containsB (hay needle : Bytes) : Bool :=
  match hay with
  | [] => needle.isEmpty
  | _ :: t => isPrefixOfB needle hay || containsB t needle

/-- `strings.Replace(s, old, new, -1)` for non-empty `old`. -/
def replaceAll (old new : Bytes) : Bytes → Bytes
  | [] => []
  | c :: rest =>
    if old ≠ [] ∧ isPrefixOfB old (c :: rest) then
      new ++ replaceAll old new ((c :: rest).drop old.length)
    else c :: replaceAll old new rest
termination_by s => s.length
decreasing_by
  all_goals simp_wf
  · rename_i h
    have : old.length ≥ 1 := by
      cases old with
      | nil => exact absurd rfl h.1
      | cons _ _ => simp
    omega

def isSpaceB (c : UInt8) : Bool :=
  c == 32 || c == 9 || c == 10 || c == 13 || c == 11 || c == 12 || c == 0x85 || c == 0xA0

def natToBytes (n : Nat) : Bytes := (toString n).toUTF8.toList
def intToBytes (n : Int) : Bytes := (toString n).toUTF8.toList

end Plush
