import PlushModel.Value
import PlushModel.Gen.HelperKeys
/-!
  Model of /repo/context.go: `Context{data, outer}` values live in a store; a context is an index.
  `New`, `Set`, `Value`, `Has`, `NewContextWith`, `NewContextWithOuter` with default-helper injection.
-/
namespace Plush

structure Frame where
  data : List (Bytes × Val) := []     -- Go map[string]interface{}: at most one entry per key (kept by `setKey`)
  outer : Option Nat := none
  deriving Inhabited

structure Store where
  frames : Array Frame := #[]
  deriving Inhabited

def lookupKey (k : Bytes) : List (Bytes × Val) → Option Val
  | [] => none
  | (k', v) :: r => if k' == k then some v else lookupKey k r

def setKey (k : Bytes) (v : Val) : List (Bytes × Val) → List (Bytes × Val)
  | [] => [(k, v)]
  | (k', v') :: r => if k' == k then (k, v) :: r else (k', v') :: setKey k v r

namespace Store

/-- `Context.Value(key)` for a string key: own map, then outer, then the wrapped
    `context.Background()` (always nil). Fuel = the context id + 1 (outer ids are smaller). -/
def valueF (s : Store) : Nat → Nat → Bytes → Val
  | 0, _, _ => .nil
  | fuel+1, c, k =>
    match s.frames[c]? with
    | none => .nil
    | some f =>
      match lookupKey k f.data with
      | some v => v
      | none =>
        match f.outer with
        | some o => valueF s fuel o k
        | none => .nil

def value (s : Store) (c : Nat) (k : Bytes) : Val := s.valueF (c + 1) c k

/-- `Context.Has(key)` -/
def has (s : Store) (c : Nat) (k : Bytes) : Bool := !(s.value c k).isNil

/-- `Context.Set(key, value)` -/
def set (s : Store) (c : Nat) (k : Bytes) (v : Val) : Store :=
  match s.frames[c]? with
  | none => s
  | some f => { s with frames := s.frames.set! c { f with data := setKey k v f.data } }

def builtin (name : String) : Val := .gofn name

/-- the loop `for k, v := range Helpers.All() { if !c.Has(k) [&& !c.outer.Has(k)] { c.Set(k, v) } }`
    (keys are distinct, so the order of Go's map iteration is irrelevant) -/
def injectHelpers (s : Store) (c : Nat) (checkOuter : Option Nat) : List String → Store
  | [] => s
  | h :: rest =>
    let k := b h
    let absent := !s.has c k && (match checkOuter with | some o => !s.has o k | none => true)
    injectHelpers (if absent then s.set c k (builtin h) else s) c checkOuter rest

/-- `NewContextWith(data)` -/
def newRoot (s : Store) (data : List (Bytes × Val)) : Store × Nat :=
  let c := s.frames.size
  let s := { s with frames := s.frames.push { data := data, outer := none } }
  (injectHelpers s c none Gen.helperKeys, c)

/-- `c.New()` = `NewContextWithOuter(map[string]interface{}{}, c)` -/
def newChild (s : Store) (outer : Nat) : Store × Nat :=
  let c := s.frames.size
  let s := { s with frames := s.frames.push { data := [], outer := some outer } }
  (injectHelpers s c (some outer) Gen.helperKeys, c)

end Store
end Plush
