import PlushProofs.Lib.OutTagRender
import PlushProofs.Lib.EvalPaths
import PlushProofs.Lib.PrattRoundTrip
/-!
  `<%=name%>` : an output tag holding ONE identifier bound in the data — rendered END TO END: a string value comes out
  HTML-escaped, a `template.HTML` value verbatim (C01 through the whole pipeline, for every value).
-/
namespace Plush
namespace LX

/-- the class loop runs through a region of class bytes and stops on the first byte outside the class -/
theorem readWhile_exact (p : UInt8 → Bool) (e : Nat) :
    ∀ (fuel : Nat) (l : LX), l.WF → l.pos ≤ e → e - l.pos < fuel →
      (∀ i, l.pos ≤ i → i < e → p (l.input.getD i 0) = true) → p (l.input.getD e 0) = false →
      (readWhile p fuel l).pos = e := by
  intro fuel
  induction fuel with
  | zero => intro l _ _ h; omega
  | succ n ih =>
    intro l w hle hf hin hout
    unfold readWhile
    by_cases he : l.pos = e
    · have : p l.ch = false := by rw [w.ch, he]; exact hout
      simp [this, he]
    · have : p l.ch = true := by rw [w.ch]; exact hin l.pos (Nat.le_refl _) (by omega)
      simp only [this, if_true]
      have hp1 : l.readChar.pos = l.pos + 1 := readChar_pos' w
      exact ih l.readChar (readChar_wf w) (by rw [hp1]; omega) (by rw [hp1]; omega)
        (fun i h1 h2 => hin i (by rw [hp1] at h1; omega) h2) hout

/-- a lower-case name -/
def LowerName (name : Bytes) : Prop := name ≠ [] ∧ ∀ x ∈ name, 97 ≤ x ∧ x ≤ (122 : UInt8)

theorem lower_class (x : UInt8) (h : 97 ≤ x ∧ x ≤ 122) : (Gen.isLetter x || Gen.isDigit x) = true := by
  simp [Gen.isLetter, h.1, h.2]

set_option maxRecDepth 8000 in
/-- in code mode, on the first letter of a lower-case name that is followed by `%`: the IDENT token of that name -/
theorem nextToken_ident (l : LX) (w : l.WF) (hin : l.inside = true) (name : Bytes) (hn : LowerName name)
    (hkw : lookupIdent name = .IDENT) (hs : Spells l.input l.pos name) (hend : l.input.getD (l.pos + name.length) 0 = 37) :
    l.nextToken.1 = { type := .IDENT, lit := name, line := l.line }
      ∧ l.nextToken.2.pos = l.pos + name.length ∧ l.nextToken.2.inside = true ∧ l.nextToken.2.WF
      ∧ l.nextToken.2.input = l.input := by
  have hlen : 0 < name.length := List.length_pos_iff.mpr hn.1
  have hc : 97 ≤ l.ch ∧ l.ch ≤ 122 := by
    have := hs 0 hlen; rw [Nat.add_zero] at this
    rw [w.ch, this]; exact hn.2 _ (List.getElem_mem _)
  have hne : ∀ k : UInt8, (k < 97 ∨ 122 < k) → (l.ch == k) = false := by
    intro k hk
    apply Bool.eq_false_iff.mpr; intro h
    simp only [beq_iff_eq] at h
    rw [h] at hc
    rcases hk with hk | hk
    · exact absurd (UInt8.le_trans hc.1 (UInt8.le_refl _)) (UInt8.not_le.mpr hk)
    · exact absurd hc.2 (UInt8.not_le.mpr hk)
  have e35 : (l.ch == 35) = false := hne 35 (by decide)
  have e61 : (l.ch == 61) = false := hne 61 (by decide)
  have e46 : (l.ch == 46) = false := hne 46 (by decide)
  have e43 : (l.ch == 43) = false := hne 43 (by decide)
  have e38 : (l.ch == 38) = false := hne 38 (by decide)
  have e124 : (l.ch == 124) = false := hne 124 (by decide)
  have e45 : (l.ch == 45) = false := hne 45 (by decide)
  have e33 : (l.ch == 33) = false := hne 33 (by decide)
  have e47 : (l.ch == 47) = false := hne 47 (by decide)
  have e42 : (l.ch == 42) = false := hne 42 (by decide)
  have e37 : (l.ch == 37) = false := hne 37 (by decide)
  have e60 : (l.ch == 60) = false := hne 60 (by decide)
  have e126 : (l.ch == 126) = false := hne 126 (by decide)
  have e62 : (l.ch == 62) = false := hne 62 (by decide)
  have e59 : (l.ch == 59) = false := hne 59 (by decide)
  have e58 : (l.ch == 58) = false := hne 58 (by decide)
  have e44 : (l.ch == 44) = false := hne 44 (by decide)
  have e123 : (l.ch == 123) = false := hne 123 (by decide)
  have e125 : (l.ch == 125) = false := hne 125 (by decide)
  have e40 : (l.ch == 40) = false := hne 40 (by decide)
  have e41 : (l.ch == 41) = false := hne 41 (by decide)
  have e34 : (l.ch == 34) = false := hne 34 (by decide)
  have e96 : (l.ch == 96) = false := hne 96 (by decide)
  have e91 : (l.ch == 91) = false := hne 91 (by decide)
  have e93 : (l.ch == 93) = false := hne 93 (by decide)
  have e0 : (l.ch == 0) = false := hne 0 (by decide)
  have hlet : Gen.isLetter l.ch = true := by simp [Gen.isLetter, hc.1, hc.2]
  have hws : l.skipWhitespace = l := skipWhitespace_id l (by
    simp [Gen.isWhitespace, hne 32 (by decide), hne 9 (by decide), hne 10 (by decide), hne 13 (by decide)])
  have hes : l.pos + name.length < l.input.size := getD_ne_zero_lt (by rw [hend]; decide)
  have hpos := readWhile_exact (fun c => Gen.isLetter c || Gen.isDigit c) (l.pos + name.length) (l.input.size + 2) l w
    (by omega) (by omega)
    (fun i h1 h2 => by
      obtain ⟨j, rfl⟩ : ∃ j, i = l.pos + j := ⟨i - l.pos, by omega⟩
      have hj : j < name.length := by omega
      rw [hs j hj]; exact lower_class _ (hn.2 _ (List.getElem_mem _)))
    (by rw [hend]; decide)
  have sp := readWhile_spec (fun c => Gen.isLetter c || Gen.isDigit c) identClass_zero (l.input.size + 2) l w (by omega) (by omega)
  have hri : l.readIdentifier = (name, readWhile (fun c => Gen.isLetter c || Gen.isDigit c) (l.input.size + 2) l) := by
    unfold readIdentifier
    simp only [slice, hpos, sp.1.input]
    have : l.pos ≤ l.pos + name.length ∧ l.pos + name.length ≤ l.input.size := ⟨by omega, by omega⟩
    simp only [this, and_self, if_true]
    rw [spells_extract l.input name l.pos hs (by omega)]
  unfold nextToken
  simp only [hin, if_true]
  rw [show l.input.size + 2 = (l.input.size + 1) + 1 from rfl]
  unfold nextInsideToken
  simp only [hws]
  simp only [e35, e61, e46, e43, e38, e124, e45, e33, e47, e42, e37, e60, e126, e62, e59, e58, e44, e123, e125, e40, e41, e34, e96, e91, e93, e0, hlet, hri, hkw, Bool.false_eq_true, if_false, if_true]
  exact ⟨trivial, hpos, by rw [sp.2.2.2.1]; exact hin, sp.1.wf, sp.1.input⟩

end LX
end Plush

namespace Plush
namespace LX

def identTagSrc (name : Bytes) : Bytes := [60, 37, 61] ++ (name ++ [37, 62])

theorem identTag_facts (name : Bytes) :
    (identTagSrc name).toArray.size = 5 + name.length ∧
    (identTagSrc name).toArray.getD 0 0 = 60 ∧ (identTagSrc name).toArray.getD 1 0 = 37 ∧
    (identTagSrc name).toArray.getD 2 0 = 61 ∧ Spells (identTagSrc name).toArray 3 name ∧
    (identTagSrc name).toArray.getD (3 + name.length) 0 = 37 ∧ (identTagSrc name).toArray.getD (4 + name.length) 0 = 62 := by
  refine ⟨by simp [identTagSrc]; omega, by simp [identTagSrc], by simp [identTagSrc], by simp [identTagSrc], ?_, ?_, ?_⟩
  · intro j hj
    rw [getD_toArray]
    simp only [identTagSrc, List.getD_eq_getElem?_getD]
    rw [List.getElem?_append_right (by simp)]
    simp only [List.length_cons, List.length_nil, Nat.add_sub_cancel_left, Nat.zero_add]
    rw [List.getElem?_append_left hj, List.getElem?_eq_getElem hj]
    rfl
  · rw [getD_toArray]
    simp only [identTagSrc, List.getD_eq_getElem?_getD]
    rw [List.getElem?_append_right (by simp)]
    rw [List.getElem?_append_right (by simp)]
    have : 3 + name.length - [60, 37, (61:UInt8)].length - name.length = 0 := by simp
    rw [this]; rfl
  · rw [getD_toArray]
    simp only [identTagSrc, List.getD_eq_getElem?_getD]
    rw [List.getElem?_append_right (by simp; omega)]
    rw [List.getElem?_append_right (by simp; omega)]
    have : 4 + name.length - [60, 37, (61:UInt8)].length - name.length = 1 := by simp; omega
    rw [this]; rfl

end LX

open LX

/-- the token stream of `<%=name%>`: E_START, IDENT name, E_END, then EOF for ever -/
theorem tokens_identTag (name : Bytes) (hn : LowerName name) (hkw : lookupIdent name = .IDENT) :
    ∃ l0 l1 l2 l3,
      tokenAt 0 (LX.new (identTagSrc name).toArray) = { type := .E_START, lit := b "<%=", line := l0 } ∧
      tokenAt 1 (LX.new (identTagSrc name).toArray) = { type := .IDENT, lit := name, line := l1 } ∧
      tokenAt 2 (LX.new (identTagSrc name).toArray) = { type := .E_END, lit := b "%>", line := l2 } ∧
      ∀ k, tokenAt (k + 3) (LX.new (identTagSrc name).toArray) = { type := .EOF, lit := [], line := l3 } := by
  obtain ⟨hsz, h0, h1, h2, hsp, h3, h4⟩ := identTag_facts name
  generalize (identTagSrc name).toArray = a at *
  have w0 := new_wf a
  have s1 := nextToken_estart (LX.new a) w0 rfl h0 h1 h2
  have p1 : (LX.new a).nextToken.2.pos = 3 := s1.2.1
  have i1 : (LX.new a).nextToken.2.input = a := s1.2.2.2.2
  have s2 := nextToken_ident _ s1.2.2.2.1 s1.2.2.1 name hn hkw (by rw [p1, i1]; exact hsp) (by rw [p1, i1]; exact h3)
  have i2 : (LX.new a).nextToken.2.nextToken.2.input = a := by rw [s2.2.2.2.2, i1]
  have p2 : (LX.new a).nextToken.2.nextToken.2.pos = 3 + name.length := by rw [s2.2.1, p1]
  have c2 : (LX.new a).nextToken.2.nextToken.2.ch = 37 := by rw [s2.2.2.2.1.ch, p2, i2]; exact h3
  have s3 := nextToken_eend _ s2.2.2.2.1 s2.2.2.1 c2
    (by rw [p2, i2]; rwa [show 4 + name.length = 3 + name.length + 1 by omega] at h4)
  have p3 : (LX.new a).nextToken.2.nextToken.2.nextToken.2.pos = 5 + name.length := by rw [s3.2.1, p2]; omega
  have d3 : (LX.new a).nextToken.2.nextToken.2.nextToken.2.Done := Or.inr (by rw [s3.2.2.2.2, i2, p3, hsz]; exact Nat.le_refl _)
  refine ⟨(LX.new a).line, (LX.new a).nextToken.2.line, (LX.new a).nextToken.2.nextToken.2.line,
    (LX.new a).nextToken.2.nextToken.2.nextToken.2.line, ?_, ?_, ?_, ?_⟩
  · simp only [tokenAt, stateAfter]; exact s1.1
  · simp only [tokenAt, stateAfter]; exact s2.1
  · simp only [tokenAt, stateAfter]; exact s3.1
  · intro k
    have := (done_forever k _ s3.2.2.2.1 d3).2.2
    simp only [tokenAt, stateAfter] at this ⊢
    exact this

end Plush

namespace Plush
open LX

namespace P

theorem lower_no_dot (name : Bytes) (hn : LowerName name) : (46 : UInt8) ∉ name := by
  intro h; have := (hn.2 46 h).1; exact absurd this (by decide)

/-- the parser's view of `<%=name%>`: ONE output statement holding the identifier -/
theorem parse_identTag (name : Bytes) (hn : LowerName name) (hkw : lookupIdent name = .IDENT) :
    ∃ t0 t1 : Token,
      parseBytes (identTagSrc name) = .ok ({ stmts := [.ret true t0 (some (.ident { tok := t1, segs := [name] }))] }, #[]) := by
  obtain ⟨l0, l1, l2, l3, h0, h1, h2, hk⟩ := tokens_identTag name hn hkw
  refine ⟨{ type := .E_START, lit := b "<%=", line := l0 }, { type := .IDENT, lit := name, line := l1 }, ?_⟩
  unfold parseBytes parseToks
  simp only
  generalize (identTagSrc name).toArray = a at *
  generalize hs0 : ({ toks := lexAll a, eof := (lexAll a).back?.getD { type := .EOF, lit := [], line := 1 } } : PS) = s0
  have htok : ∀ i, tokAt s0 i = tokenAt i (LX.new a) := by
    intro i; rw [← hs0]; exact lexAll_is_stream a i
  have hpos : s0.pos = 0 := by rw [← hs0]
  have herr : s0.errs = #[] := by rw [← hs0]
  have key : OK (programLoop ((lexAll a).size + 4) (parseFuel (lexAll a).size) []) s0
      (fun r s' => r = [.ret true { type := .E_START, lit := b "<%=", line := l0 }
          (some (.ident { tok := { type := .IDENT, lit := name, line := l1 }, segs := [name] }))] ∧ s'.errs = #[]) := by
    obtain ⟨K, hK⟩ : ∃ K, parseFuel (lexAll a).size = K + 5 := ⟨64 * (lexAll a).size + 27, by simp [parseFuel]⟩
    rw [hK]
    have h0' : tokAt s0 0 = { type := .E_START, lit := b "<%=", line := l0 } := by rw [htok, h0]
    have h1' : tokAt s0 1 = { type := .IDENT, lit := name, line := l1 } := by rw [htok, h1]
    have h2' : tokAt s0 2 = { type := .E_END, lit := b "%>", line := l2 } := by rw [htok, h2]
    have h3' : tokAt s0 3 = { type := .EOF, lit := [], line := l3 } := by rw [htok]; exact hk 0
    have hfn : lookupLast TT.IDENT Gen.prefixFns = some .parseIdentifier := by decide
    have hfn2 : lookupLast TT.E_END Gen.prefixFns = some .returnNil := by decide
    have hpe : precOf TT.E_END = Gen.LOWEST := by decide
    have hpe2 : precOf TT.EOF = Gen.LOWEST := by decide
    have e1 : (TT.E_START == TT.EOF) = false := by decide
    have e2 : (TT.IDENT == TT.LET) = false := by decide
    have e3 : (TT.E_END == TT.SEMICOLON) = false := by decide
    have e4 : decide (Gen.LOWEST < Gen.LOWEST) = false := by decide
    have e5 : (TT.EOF == TT.EOF) = true := by decide
    have e6 : (TT.E_END == TT.EOF) = false := by decide
    have e7 : (TT.E_END == TT.LET) = false := by decide
    have e8 : (TT.EOF == TT.SEMICOLON) = false := by decide
    have e9 : (TT.E_END == TT.ASSIGN) = false := by decide
    have hsplit : splitOn1 46 name = [name] := splitOn1_no_sep name (lower_no_dot name hn)
    have hta : ∀ p e f i, tokAt { toks := s0.toks, eof := s0.eof, pos := p, errs := e, inFor := f } i = tokAt s0 i :=
      fun _ _ _ _ => rfl
    have hnb : ∀ t v, nonBlank (pStmt (.ret true t v)) = true := by intro t v; simp [pStmt, nonBlank]
    have hnb2 : ∀ t, nonBlank (pStmt (.es t none)) = false := by intro t; simp [pStmt, optStr, nonBlank]
    unfold programLoop
    simp only [OK_bind, OK_curIs, hpos, h0', OK_ite]
    simp only [hta, hnb, hnb2, hsplit, Nat.reduceAdd, parseStatement_eq, parseReturnStatement_eq, parseExpressionStatement_eq,
      parseExpression_eq, runPrefix_eq, infixLoop_eq,
      OK_bind, OK_cur, OK_curIs, OK_pure, hpos, h0', h1', h2', h3', hfn, hfn2, OK_ite, OK_peekIs, OK_peekPrecedence,
      Nat.zero_add, hpe, hpe2,
      OK_skipSemicolon, OK_nextTok, e1, e2, e3, e4, e5, e6, e7, e8, e9, Bool.not_false, Bool.not_true, Bool.and_false, Bool.false_eq_true,
      if_false, if_true, List.nil_append]
    unfold programLoop
    simp only [hta, hnb, hnb2, hsplit, Nat.reduceAdd, parseStatement_eq, parseReturnStatement_eq, parseExpressionStatement_eq,
      parseExpression_eq, runPrefix_eq, infixLoop_eq,
      OK_bind, OK_cur, OK_curIs, OK_pure, hpos, h0', h1', h2', h3', hfn, hfn2, OK_ite, OK_peekIs, OK_peekPrecedence,
      Nat.zero_add, hpe, hpe2,
      OK_skipSemicolon, OK_nextTok, e1, e2, e3, e4, e5, e6, e7, e8, e9, Bool.not_false, Bool.not_true, Bool.and_false, Bool.false_eq_true,
      if_false, if_true, List.nil_append]
    unfold programLoop
    simp only [hta, h3', e5, OK_bind, OK_curIs, OK_ite, OK_pure, Bool.not_true, Bool.false_eq_true, if_false]
    exact ⟨trivial, herr⟩
  obtain ⟨r, s', hrun, hr, he⟩ := key
  simp only [StateT.run]
  rw [hrun, hr]
  simp only [he]

end P

open EM

/-- END TO END, DATA TO OUTPUT: when `name` is bound (in the context the render runs in) to the Go string `v`, the
    template `<%=name%>` renders to `htmlEscape v` — whatever `v` contains — and leaves the evaluator state as it was. -/
theorem render_identTag_str (name v : Bytes) (hn : LowerName name) (hkw : lookupIdent name = .IDENT)
    (fuel ctx : Nat) (s : ES) (hhas : s.store.has ctx name = true) (hval : s.store.value ctx name = .str v) :
    renderIn (fuel + 5) (identTagSrc name) ctx s = (.ok (htmlEscape v), s) := by
  obtain ⟨t0, t1, hparse⟩ := P.parse_identTag name hn hkw
  have hev : ∀ s', s'.store = s.store → s'.cur = ctx →
      evalIdent (fuel + 1 + 1) { tok := t1, segs := [name], base := none } s' = (.ok (.str v), s') := by
    intro s' h1 h2
    rw [evalIdent_root]; simp [rootValue, h1, h2, hhas, hval]
  simp [renderIn, hparse, compileStmts, evalExpr, hev, bind, getCur, getS, setCur, modifyS, attempt, pure, renderVal, writeVal,
    flattenChunks, Chunk.flatten]

/-- … and a `template.HTML` value comes out verbatim: the ONLY route by which raw markup reaches the page -/
theorem render_identTag_html (name v : Bytes) (hn : LowerName name) (hkw : lookupIdent name = .IDENT)
    (fuel ctx : Nat) (s : ES) (hhas : s.store.has ctx name = true) (hval : s.store.value ctx name = .html v) :
    renderIn (fuel + 5) (identTagSrc name) ctx s = (.ok v, s) := by
  obtain ⟨t0, t1, hparse⟩ := P.parse_identTag name hn hkw
  have hev : ∀ s', s'.store = s.store → s'.cur = ctx →
      evalIdent (fuel + 1 + 1) { tok := t1, segs := [name], base := none } s' = (.ok (.html v), s') := by
    intro s' h1 h2
    rw [evalIdent_root]; simp [rootValue, h1, h2, hhas, hval]
  simp [renderIn, hparse, compileStmts, evalExpr, hev, bind, getCur, getS, setCur, modifyS, attempt, pure, renderVal, writeVal,
    flattenChunks, Chunk.flatten]

end Plush
