import PlushProofs.Lib.ParserTotalProof
namespace Plush
namespace P

/-- atoms: tokens whose prefix function consumes exactly that token and yields a leaf -/
def atomOf (c : Token) : Option Expr :=
  match c.type with
  | .IDENT => some (.ident { tok := c, segs := splitOn1 46 c.lit })
  | .INT => (atoi c.lit).map (Expr.int c)
  | .STRING => some (.str c c.lit)
  | .B_STRING => some (.str c c.lit)
  | .TRUE => some (.bool c true)
  | .FALSE => some (.bool c false)
  | _ => none

/-- source-level expression trees: atoms, binary and prefix operators, index expressions and calls of a plain
    function name, with the parenthesis tokens that are printed when the context demands them; the argument list
    of a call is spelled with `aone` (the last argument) and `acons` (an argument, a comma, more arguments) -/
inductive PE
  | atom (c : Token) (x : Expr)
  | bin (o lp rp : Token) (l r : PE)
  | pre (o : Token) (r : PE)
  | idx (lb rb : Token) (l i : PE)
  | call0 (fn lp rp : Token)
  | call (fn lp rp : Token) (args : PE)
  | arr0 (lb rb : Token)
  | arr (lb rb : Token) (elems : PE)
  | aone (e : PE)
  | acons (e : PE) (comma : Token) (rest : PE)

/-- what an index can be applied to without parentheses: an atom, another index (`a[i][j]`) or a call (`f(x)[i]`) -/
def PE.isPost : PE → Bool
  | .atom _ _ => true
  | .idx _ _ _ _ => true
  | .call0 _ _ _ => true
  | .call _ _ _ _ => true
  | .arr0 _ _ => true
  | .arr _ _ _ => true
  | _ => false

/-- the function of a call, as the parser builds it from the name token -/
def fnExpr (fn : Token) : Expr := .ident { tok := fn, segs := splitOn1 46 fn.lit }

mutual
def PE.toExpr : PE → Expr
  | .atom _ x => x
  | .bin o _ _ l r => .inf o o.lit (some l.toExpr) (some r.toExpr)
  | .pre o r => .pre o o.lit (some r.toExpr)
  | .idx lb _ l i => .idx lb (some l.toExpr) (some i.toExpr) none none
  | .call0 fn lp _ => .call lp none none (fnExpr fn) (some []) none
  | .call fn lp _ a => .call lp none none (fnExpr fn) (some a.toArgs) none
  | .arr0 lb _ => .arr lb (some [])
  | .arr lb _ a => .arr lb (some a.toArgs)
  | .aone _ => .brk default
  | .acons _ _ _ => .brk default
def PE.toArgs : PE → List (Option Expr)
  | .aone e => [some e.toExpr]
  | .acons e _ r => some e.toExpr :: r.toArgs
  | _ => []
end

mutual
/-- well-formed EXPRESSION: atoms are atoms, operators are registered operators, parentheses are parentheses, the
    function of a call is a plain (undotted) name; an argument list is not an expression -/
def PE.WF : PE → Prop
  | .atom c x => atomOf c = some x
  | .bin o lp rp l r =>
      lookupLast o.type Gen.infixFns = some .parseInfixExpression ∧ Gen.LOWEST < precOf o.type ∧
      lp.type = .LPAREN ∧ rp.type = .RPAREN ∧ l.WF ∧ r.WF
  | .pre o r => lookupLast o.type Gen.prefixFns = some .parsePrefixExpression ∧ r.WF
  | .idx lb rb l i => lb.type = .LBRACKET ∧ rb.type = .RBRACKET ∧ l.isPost = true ∧ l.WF ∧ i.WF
  | .call0 fn lp rp => fn.type = .IDENT ∧ (46 : UInt8) ∉ fn.lit ∧ lp.type = .LPAREN ∧ rp.type = .RPAREN
  | .call fn lp rp a => fn.type = .IDENT ∧ (46 : UInt8) ∉ fn.lit ∧ lp.type = .LPAREN ∧ rp.type = .RPAREN ∧ a.WFA
  | .arr0 lb rb => lb.type = .LBRACKET ∧ rb.type = .RBRACKET
  | .arr lb rb a => lb.type = .LBRACKET ∧ rb.type = .RBRACKET ∧ a.WFA
  | .aone _ => False
  | .acons _ _ _ => False
/-- well-formed non-empty ARGUMENT LIST -/
def PE.WFA : PE → Prop
  | .aone e => e.WF
  | .acons e c r => e.WF ∧ c.type = .COMMA ∧ r.WFA
  | _ => False
end

/-- printing with the minimal parentheses for a context of binding power `p`:
    left operands at the operator's own level (left associative), right operands one level tighter -/
def pr (p : Nat) : PE → List Token
  | .atom c _ => [c]
  | .bin o lp rp l r =>
    let body := pr (precOf o.type) l ++ [o] ++ pr (precOf o.type + 1) r
    if precOf o.type < p then [lp] ++ body ++ [rp] else body
  | .pre o r => o :: pr (Gen.PREFIX + 1) r
  | .idx lb rb l i => pr Gen.INDEX l ++ [lb] ++ pr (Gen.LOWEST + 1) i ++ [rb]
  | .call0 fn lp rp => [fn, lp, rp]
  | .call fn lp rp a => [fn, lp] ++ pr 0 a ++ [rp]
  | .arr0 lb rb => [lb, rb]
  | .arr lb rb a => [lb] ++ pr 0 a ++ [rb]
  | .aone e => pr (Gen.LOWEST + 1) e
  | .acons e c r => pr (Gen.LOWEST + 1) e ++ [c] ++ pr 0 r

theorem pr_ne_nil (p : Nat) (e : PE) : pr p e ≠ [] := by
  induction e generalizing p with
  | atom => simp [pr]
  | bin o lp rp l r => simp only [pr]; split <;> simp
  | pre o r => simp [pr]
  | idx lb rb l i => simp [pr]
  | call0 => simp [pr]
  | call => simp [pr]
  | arr0 => simp [pr]
  | arr => simp [pr]
  | aone e ih => simp only [pr]; exact ih _
  | acons e c r => simp [pr]

/-- the token array holds `ts` from index `i` on -/
def At (s : PS) (i : Nat) (ts : List Token) : Prop := ∀ k (h : k < ts.length), tokAt s (i + k) = ts[k]

theorem atom_step (f q : Nat) (s : PS) (x : Expr) (Q : Option Expr → PS → Prop)
    (ha : atomOf (tokAt s s.pos) = some x) (hassign : (tokAt s (s.pos + 1)).type ≠ .ASSIGN)
    (h : OK (infixLoop (f+1) q (some x)) s Q) : OK (parseExpression (f+2) q) s Q := by
  have hna : ((tokAt s (s.pos + 1)).type == TT.ASSIGN) = false := by simpa using hassign
  rw [parseExpression_eq]
  unfold atomOf at ha
  split at ha
  all_goals (rename_i ht; try cases ha)
  · have : lookupLast TT.IDENT Gen.prefixFns = some .parseIdentifier := by decide
    simp only [OK_bind, OK_cur, ht, OK_ite, this, runPrefix_eq, OK_peekIs, hna, OK_pure]
    simpa using h
  · have : lookupLast TT.INT Gen.prefixFns = some .parseIntegerLiteral := by decide
    cases hat : atoi (tokAt s s.pos).lit with
    | none => rw [hat] at ha; cases ha
    | some v =>
      rw [hat] at ha; simp only [Option.map_some, Option.some.injEq] at ha; subst ha
      simp only [OK_bind, OK_cur, ht, OK_ite, this, runPrefix_eq, hat, OK_pure]
      simpa using h
  · have : lookupLast TT.STRING Gen.prefixFns = some .parseStringLiteral := by decide
    simp only [OK_bind, OK_cur, ht, OK_ite, this, runPrefix_eq, OK_pure]
    simpa using h
  · have : lookupLast TT.B_STRING Gen.prefixFns = some .parseStringLiteral := by decide
    simp only [OK_bind, OK_cur, ht, OK_ite, this, runPrefix_eq, OK_pure]
    simpa using h
  · have : lookupLast TT.TRUE Gen.prefixFns = some .parseBoolean := by decide
    simp only [OK_bind, OK_cur, ht, OK_ite, this, runPrefix_eq, OK_pure]
    simpa using h
  · have : lookupLast TT.FALSE Gen.prefixFns = some .parseBoolean := by decide
    have hb : (TT.FALSE == TT.TRUE) = false := by decide
    simp only [OK_bind, OK_cur, ht, OK_ite, this, runPrefix_eq, OK_pure, hb]
    simpa using h

/-- the operator loop stops in front of a token that does not bind tighter than the context -/
theorem loop_stops (f q : Nat) (left : Option Expr) (s : PS) (Q : Option Expr → PS → Prop)
    (hp : precOf (tokAt s (s.pos + 1)).type ≤ q) (h : Q left s) : OK (infixLoop (f+1) q left) s Q := by
  rw [infixLoop_eq]
  simp only [OK_bind, OK_peekIs, OK_peekPrecedence, OK_ite, OK_pure]
  have : ¬ (q < precOf (tokAt s (s.pos + 1)).type) := by omega
  simp [this, h]

/-- one turn of the operator loop: a tighter-binding binary operator takes `left` as its left operand and
    parses its right operand at its own binding power -/
theorem infix_step (f q : Nat) (l : Expr) (s : PS) (Q : Option Expr → PS → Prop)
    (hfn : lookupLast (tokAt s (s.pos + 1)).type Gen.infixFns = some .parseInfixExpression)
    (hq : q < precOf (tokAt s (s.pos + 1)).type)
    (h : OK (parseExpression f (precOf (tokAt s (s.pos + 1)).type)) { s with pos := s.pos + 1 + 1 }
          (fun r s' => OK (infixLoop (f+1) q (some (.inf (tokAt s (s.pos + 1)) (tokAt s (s.pos + 1)).lit (some l) r))) s' Q)) :
    OK (infixLoop (f+2) q (some l)) s Q := by
  rw [infixLoop_eq]
  have hsemi : ((tokAt s (s.pos + 1)).type == TT.SEMICOLON) = false := by
    cases hs : ((tokAt s (s.pos + 1)).type == TT.SEMICOLON) with
    | false => rfl
    | true =>
      simp only [beq_iff_eq] at hs
      rw [hs] at hfn; revert hfn; decide
  simp only [OK_bind, OK_peekIs, OK_peekPrecedence, OK_ite, OK_pure, OK_peek, hsemi, hfn, OK_nextTok, runInfix_eq, OK_cur,
    OK_curPrecedence]
  simp only [Bool.not_false, Bool.true_and, decide_eq_true_eq, hq, if_true]
  exact h

theorem paren_step (f q : Nat) (s : PS) (Q : Option Expr → PS → Prop)
    (hlp : (tokAt s s.pos).type = .LPAREN)
    (h : OK (parseExpression f Gen.LOWEST) { s with pos := s.pos + 1 } (fun r s' =>
          ((tokAt s' (s'.pos + 1)).type == TT.RPAREN) = true ∧
          OK (infixLoop (f+1) q r) { s' with pos := s'.pos + 1 } Q)) :
    OK (parseExpression (f+2) q) s Q := by
  rw [parseExpression_eq]
  have : lookupLast TT.LPAREN Gen.prefixFns = some .parseGroupedExpression := by decide
  have hl : (TT.LPAREN == TT.LET) = false := by decide
  simp only [OK_bind, OK_cur, hlp, hl, OK_ite, this, runPrefix_eq, OK_nextTok, OK_expectPeek, OK_pure]
  simp only [Bool.false_eq_true, if_false]
  refine OK_conseq h ?_
  intro r s' ⟨h1, h2⟩
  simp only [h1, if_true, Bool.not_true, Bool.false_eq_true, if_false]
  exact h2

/-- a prefix operator parses its operand at PREFIX binding power and hands the node to the operator loop -/
theorem prefix_step (f q : Nat) (s : PS) (Q : Option Expr → PS → Prop)
    (hfn : lookupLast (tokAt s s.pos).type Gen.prefixFns = some .parsePrefixExpression)
    (h : OK (parseExpression f Gen.PREFIX) { s with pos := s.pos + 1 } (fun r s' =>
          OK (infixLoop (f+1) q (some (.pre (tokAt s s.pos) (tokAt s s.pos).lit r))) s' Q)) :
    OK (parseExpression (f+2) q) s Q := by
  rw [parseExpression_eq]
  have hl : ((tokAt s s.pos).type == TT.LET) = false := by
    cases hs : ((tokAt s s.pos).type == TT.LET) with
    | false => rfl
    | true => simp only [beq_iff_eq] at hs; rw [hs] at hfn; revert hfn; decide
  simp only [OK_bind, OK_cur, hl, OK_ite, hfn, runPrefix_eq, OK_nextTok, OK_pure, Bool.false_eq_true, if_false]
  exact h

/-- `[` in prefix position: an array literal — the element list up to `]`, then the operator loop -/
theorem arr_step (f q : Nat) (s : PS) (Q : Option Expr → PS → Prop)
    (hlb : (tokAt s s.pos).type = .LBRACKET)
    (h : OK (parseExpressionList f .RBRACKET) s (fun es s' =>
          OK (infixLoop (f+1) q (some (.arr (tokAt s s.pos) es))) s' Q)) :
    OK (parseExpression (f+2) q) s Q := by
  rw [parseExpression_eq]
  have hl : ((tokAt s s.pos).type == TT.LET) = false := by rw [hlb]; decide
  have hfn : lookupLast (tokAt s s.pos).type Gen.prefixFns = some .parseArrayLiteral := by rw [hlb]; decide
  simp only [OK_bind, OK_cur, hl, OK_ite, hfn, runPrefix_eq, OK_pure, Bool.false_eq_true, if_false]
  exact h

/-- one turn of the operator loop at `[`: the index is parsed at LOWEST binding power, `]` is expected, and — when
    neither `.` nor `=` follows — the index node is handed back to the operator loop -/
theorem index_step (f q : Nat) (l : Expr) (s : PS) (Q : Option Expr → PS → Prop)
    (hlb : (tokAt s (s.pos + 1)).type = .LBRACKET) (hq : q < Gen.INDEX)
    (h : OK (parseExpression f Gen.LOWEST) { s with pos := s.pos + 1 + 1 } (fun r s' =>
          ((tokAt s' (s'.pos + 1)).type == TT.RBRACKET) = true ∧
          ((tokAt s' (s'.pos + 1 + 1)).type == TT.DOT) = false ∧
          ((tokAt s' (s'.pos + 1 + 1)).type == TT.ASSIGN) = false ∧
          OK (infixLoop (f+1) q (some (.idx (tokAt s (s.pos + 1)) (some l) r none none))) { s' with pos := s'.pos + 1 } Q)) :
    OK (infixLoop (f+2) q (some l)) s Q := by
  rw [infixLoop_eq]
  have hsemi : ((tokAt s (s.pos + 1)).type == TT.SEMICOLON) = false := by rw [hlb]; decide
  have hfn : lookupLast (tokAt s (s.pos + 1)).type Gen.infixFns = some .parseIndexExpression := by rw [hlb]; decide
  have hprec : precOf (tokAt s (s.pos + 1)).type = Gen.INDEX := by rw [hlb]; decide
  simp only [OK_bind, OK_peekIs, OK_peekPrecedence, OK_ite, OK_pure, OK_peek, hsemi, hfn, OK_nextTok, runInfix_eq, OK_cur,
    hprec]
  simp only [Bool.not_false, Bool.true_and, decide_eq_true_eq, hq, if_true]
  refine OK_conseq h ?_
  intro r s' ⟨h1, h2, h3, h4⟩
  have h2' : ((tokAt { s' with pos := s'.pos + 1 } (s'.pos + 1 + 1)).type == TT.DOT) = false := h2
  have h3' : ((tokAt { s' with pos := s'.pos + 1 } (s'.pos + 1 + 1)).type == TT.ASSIGN) = false := h3
  simp only [OK_expectPeek, h1, if_true, Bool.not_true, Bool.false_eq_true, if_false, OK_bind, OK_peekIs, OK_ite, OK_pure, h2', h3']
  exact h4

theorem splitOn1_no_sep : ∀ (l : Bytes), (46 : UInt8) ∉ l → splitOn1 46 l = [l] := by
  intro l
  induction l with
  | nil => intro _; rfl
  | cons c r ih =>
    intro h
    have hc : c ≠ 46 := fun e => h (by rw [e]; exact List.mem_cons_self)
    have hr : (46 : UInt8) ∉ r := fun e => h (List.mem_cons_of_mem _ e)
    have hc' : (c == 46) = false := by simpa using hc
    simp only [splitOn1, hc', Bool.false_eq_true, if_false, ih hr]

theorem pExpr_fnExpr (fn : Token) (h : (46 : UInt8) ∉ fn.lit) : pExpr (fnExpr fn) = fn.lit := by
  simp [fnExpr, pExpr, Ident.str, splitOn1_no_sep fn.lit h, joinWith]

/-- one turn of the operator loop at `(` after a plain function name: the argument list is parsed up to `)`, and —
    when neither `{` nor `.` follows — the call node is handed back to the operator loop -/
theorem call_step (f q : Nat) (fn : Token) (s : PS) (Q : Option Expr → PS → Prop)
    (hfn : (46 : UInt8) ∉ fn.lit) (hlp : (tokAt s (s.pos + 1)).type = .LPAREN) (hq : q < Gen.CALL)
    (h : OK (parseExpressionList f .RPAREN) { s with pos := s.pos + 1 } (fun args s' =>
          ((tokAt s' (s'.pos + 1)).type == TT.LBRACE) = false ∧
          ((tokAt s' (s'.pos + 1)).type == TT.DOT) = false ∧
          OK (infixLoop (f+1) q (some (.call (tokAt s (s.pos + 1)) none none (fnExpr fn) args none))) s' Q)) :
    OK (infixLoop (f+2) q (some (fnExpr fn))) s Q := by
  rw [infixLoop_eq]
  have hsemi : ((tokAt s (s.pos + 1)).type == TT.SEMICOLON) = false := by rw [hlp]; decide
  have hfun : lookupLast (tokAt s (s.pos + 1)).type Gen.infixFns = some .parseCallExpression := by rw [hlp]; decide
  have hprec : precOf (tokAt s (s.pos + 1)).type = Gen.CALL := by rw [hlp]; decide
  have hss : ¬ ((splitOn1 46 (pExpr (fnExpr fn))).length > 1) := by
    rw [pExpr_fnExpr fn hfn, splitOn1_no_sep fn.lit hfn]; simp
  simp only [OK_bind, OK_peekIs, OK_peekPrecedence, OK_ite, OK_pure, OK_peek, hsemi, hfun, OK_nextTok, runInfix_eq, OK_cur,
    hprec]
  simp only [Bool.not_false, Bool.true_and, decide_eq_true_eq, hq, if_true, hss, if_false]
  refine OK_conseq h ?_
  intro args s' ⟨h1, h2, h3⟩
  simp only [OK_bind, OK_peekIs, OK_ite, OK_pure, h1, h2, Bool.false_eq_true, if_false]
  exact h3

/-- `f()` -/
theorem exprList_empty (f : Nat) (end_ : TT) (s : PS) (Q : Option (List (Option Expr)) → PS → Prop)
    (hr : (tokAt s (s.pos + 1)).type = end_) (h : Q (some []) { s with pos := s.pos + 1 }) :
    OK (parseExpressionList (f+1) end_) s Q := by
  rw [parseExpressionList_eq]
  have : ((tokAt s (s.pos + 1)).type == end_) = true := by rw [hr]; simp
  simp only [OK_bind, OK_peekIs, OK_ite, this, if_true, OK_nextTok, OK_pure]
  exact h

/-- `f(a, …)`: the first argument, then the comma loop, then `)` -/
theorem exprList_nonempty (f : Nat) (end_ : TT) (s : PS) (Q : Option (List (Option Expr)) → PS → Prop)
    (hr : (tokAt s (s.pos + 1)).type ≠ end_)
    (h : OK (parseExpression f Gen.LOWEST >>= fun e => exprListLoop f [e]) { s with pos := s.pos + 1 } (fun l s' =>
          ((tokAt s' (s'.pos + 1)).type == end_) = true ∧ Q (some l) { s' with pos := s'.pos + 1 })) :
    OK (parseExpressionList (f+1) end_) s Q := by
  rw [parseExpressionList_eq]
  have : ((tokAt s (s.pos + 1)).type == end_) = false := by simpa using hr
  simp only [OK_bind, OK_peekIs, OK_ite, this, Bool.false_eq_true, if_false, OK_nextTok]
  simp only [OK_bind] at h
  refine OK_conseq h ?_
  intro e s1 h1
  refine OK_conseq h1 ?_
  intro l s2 ⟨h2, h3⟩
  simp only [OK_expectPeek, h2, if_true, Bool.not_true, Bool.false_eq_true, if_false, OK_pure]
  exact h3

/-- the comma loop stops in front of anything but a comma -/
theorem exprLoop_stops (f : Nat) (acc : List (Option Expr)) (s : PS) (Q : List (Option Expr) → PS → Prop)
    (hc : (tokAt s (s.pos + 1)).type ≠ .COMMA) (h : Q acc s) : OK (exprListLoop (f+1) acc) s Q := by
  rw [exprListLoop_eq]
  have : ((tokAt s (s.pos + 1)).type == TT.COMMA) = false := by simpa using hc
  simp only [OK_bind, OK_peekIs, OK_ite, this, Bool.false_eq_true, if_false, OK_pure]
  exact h

/-- … and goes on after a comma -/
theorem exprLoop_comma (f : Nat) (acc : List (Option Expr)) (s : PS) (Q : List (Option Expr) → PS → Prop)
    (hc : (tokAt s (s.pos + 1)).type = .COMMA)
    (h : OK (parseExpression f Gen.LOWEST >>= fun e => exprListLoop f (acc ++ [e])) { s with pos := s.pos + 1 + 1 } Q) :
    OK (exprListLoop (f+1) acc) s Q := by
  rw [exprListLoop_eq]
  have : ((tokAt s (s.pos + 1)).type == TT.COMMA) = true := by rw [hc]; rfl
  simp only [OK_bind, OK_peekIs, OK_ite, this, if_true, OK_nextTok]
  simpa only [OK_bind] using h

/-- the state `s` with the cursor at index `i` -/
def _root_.Plush.PS.at (s : PS) (i : Nat) : PS := { s with pos := i }

@[simp] theorem tokAt_at (s : PS) (i j : Nat) : tokAt (s.at i) j = tokAt s j := rfl
@[simp] theorem at_pos (s : PS) (i : Nat) : (s.at i).pos = i := rfl
@[simp] theorem at_at (s : PS) (i j : Nat) : (s.at i).at j = s.at j := rfl
@[simp] theorem at_toks (s : PS) (i : Nat) : (s.at i).toks = s.toks := rfl
theorem at_self (s : PS) : s.at s.pos = s := rfl
theorem rem_at (s : PS) (i : Nat) : rem (s.at i) = s.toks.size - i := rfl

def edge (p : Nat) : PE → Token → Prop
  | .atom _ _, nt => nt.type ≠ .ASSIGN
  | .bin o _ _ _ _, nt => if precOf o.type < p then True else (precOf nt.type ≤ precOf o.type ∧ nt.type ≠ .ASSIGN ∧ nt.type ≠ .DOT ∧ nt.type ≠ .LBRACE)
  | .pre _ r, nt => precOf nt.type ≤ Gen.PREFIX ∧ edge (Gen.PREFIX + 1) r nt
  | .idx _ _ _ _, nt => nt.type ≠ .ASSIGN ∧ nt.type ≠ .DOT
  | .call0 _ _ _, nt => nt.type ≠ .DOT ∧ nt.type ≠ .LBRACE
  | .call _ _ _ _, nt => nt.type ≠ .DOT ∧ nt.type ≠ .LBRACE
  | .arr0 _ _, _ => True
  | .arr _ _ _, _ => True
  | .aone _, _ => True
  | .acons _ _ _, _ => True

theorem infix_ne_lbrace {t : TT} (h : lookupLast t Gen.infixFns = some .parseInfixExpression) : t ≠ .LBRACE := by
  intro h0; subst h0; revert h; decide

/-- every registered binary operator binds less tightly than a prefix operator -/
theorem infix_prec_le {t : TT} (h : lookupLast t Gen.infixFns = some .parseInfixExpression) : precOf t ≤ Gen.PREFIX := by
  revert h; cases t <;> decide

theorem infix_ne_dot {t : TT} (h : lookupLast t Gen.infixFns = some .parseInfixExpression) : t ≠ .DOT := by
  intro h0; subst h0; revert h; decide

theorem infix_ne_assign {t : TT} (h : lookupLast t Gen.infixFns = some .parseInfixExpression) : t ≠ .ASSIGN := by
  intro h0; subst h0; revert h; decide

/-- what the token that follows a sub-expression must satisfy, derived from: it does not bind tighter than `b`
    (`b` ≤ PREFIX) and is none of `=`, `.`, `{` -/
theorem edge_of_le (e : PE) : ∀ (p b : Nat) (nt : Token), e.WF → b ≤ Gen.PREFIX → precOf nt.type ≤ b → nt.type ≠ .ASSIGN →
    nt.type ≠ .DOT → nt.type ≠ .LBRACE →
    (∀ o lp rp l r, e = .bin o lp rp l r → ¬ precOf o.type < p → b ≤ precOf o.type) → edge p e nt := by
  induction e with
  | atom c x => intro p b nt _ _ _ hna _ _ _; exact hna
  | bin o lp rp l r _ _ =>
    intro p b nt _ _ hle hna hnd hnb hb
    simp only [edge]; split
    · trivial
    · rename_i hp; exact ⟨Nat.le_trans hle (hb o lp rp l r rfl hp), hna, hnd, hnb⟩
  | pre o r ih =>
    intro p b nt hwf hbP hle hna hnd hnb _
    refine ⟨Nat.le_trans hle hbP, ih (Gen.PREFIX + 1) b nt hwf.2 hbP hle hna hnd hnb ?_⟩
    intro o2 lp2 rp2 l2 r2 he hnp
    subst he
    have := infix_prec_le hwf.2.1
    omega
  | idx lb rb l i _ _ => intro p b nt _ _ _ hna hnd _ _; exact ⟨hna, hnd⟩
  | call0 fn lp rp => intro p b nt _ _ _ _ hnd hnb _; exact ⟨hnd, hnb⟩
  | call fn lp rp a _ => intro p b nt _ _ _ _ hnd hnb _; exact ⟨hnd, hnb⟩
  | arr0 => intros; trivial
  | arr => intros; trivial
  | aone e _ => intros; trivial
  | acons e c r _ _ => intros; trivial

/-- after an operand an index may be applied to, any token other than `=`, `.` and `{` may follow -/
theorem edge_post (e : PE) (p : Nat) (nt : Token) (h : e.isPost = true) (hna : nt.type ≠ .ASSIGN) (hnd : nt.type ≠ .DOT)
    (hnb : nt.type ≠ .LBRACE) : edge p e nt := by
  cases e with
  | atom c x => exact hna
  | idx lb rb l i => exact ⟨hna, hnd⟩
  | call0 => exact ⟨hnd, hnb⟩
  | call => exact ⟨hnd, hnb⟩
  | arr0 => trivial
  | arr => trivial
  | bin => cases h
  | pre => cases h
  | aone => cases h
  | acons => cases h

theorem atomOf_ne_eof {c : Token} {x : Expr} (h : atomOf c = some x) : c.type ≠ .EOF := by
  intro h0; unfold atomOf at h; rw [h0] at h; cases h

theorem ident_ne_eof : TT.IDENT ≠ TT.EOF := by decide

theorem pr_types' (e : PE) : ∀ p, (e.WF ∨ e.WFA) → ∀ t ∈ pr p e, t.type ≠ .EOF := by
  induction e with
  | atom c x =>
    intro p h t ht
    rcases h with h | h
    · simp only [pr, List.mem_singleton] at ht; subst ht; exact atomOf_ne_eof h
    · simp [PE.WFA] at h
  | bin o lp rp l r ihl ihr =>
    intro p h t ht
    have h := h.resolve_right (by simp [PE.WFA])
    obtain ⟨hfn, _, hlp, hrp, hl, hr⟩ := h
    have hbody : ∀ t ∈ pr (precOf o.type) l ++ [o] ++ pr (precOf o.type + 1) r, t.type ≠ .EOF := by
      intro t ht
      simp only [List.mem_append, List.mem_singleton] at ht
      rcases ht with (h1 | h1) | h1
      · exact ihl _ (Or.inl hl) t h1
      · subst h1; exact infix_ne_eof hfn
      · exact ihr _ (Or.inl hr) t h1
    simp only [pr] at ht
    split at ht
    · simp only [List.mem_append, List.mem_cons, List.not_mem_nil, or_false] at ht
      rcases ht with (h1 | h1) | h1
      · subst h1; rw [hlp]; decide
      · exact hbody t (by simp only [List.mem_append, List.mem_singleton]; simpa [or_assoc] using h1)
      · subst h1; rw [hrp]; decide
    · exact hbody t ht
  | pre o r ih =>
    intro p h t ht
    have h := h.resolve_right (by simp [PE.WFA])
    simp only [pr, List.mem_cons] at ht
    rcases ht with h1 | h1
    · subst h1; exact prefix_ne_eof h.1
    · exact ih _ (Or.inl h.2) t h1
  | idx lb rb l i ihl ihi =>
    intro p h t ht
    have h := h.resolve_right (by simp [PE.WFA])
    obtain ⟨hlb, hrb, _, hl, hi⟩ := h
    simp only [pr, List.mem_append, List.mem_singleton] at ht
    rcases ht with ((h1 | h1) | h1) | h1
    · exact ihl _ (Or.inl hl) t h1
    · subst h1; rw [hlb]; decide
    · exact ihi _ (Or.inl hi) t h1
    · subst h1; rw [hrb]; decide
  | call0 fn lp rp =>
    intro p h t ht
    have h := h.resolve_right (by simp [PE.WFA])
    obtain ⟨hfn, _, hlp, hrp⟩ := h
    simp only [pr, List.mem_cons, List.not_mem_nil, or_false] at ht
    rcases ht with h1 | h1 | h1
    · subst h1; rw [hfn]; decide
    · subst h1; rw [hlp]; decide
    · subst h1; rw [hrp]; decide
  | call fn lp rp a iha =>
    intro p h t ht
    have h := h.resolve_right (by simp [PE.WFA])
    obtain ⟨hfn, _, hlp, hrp, ha⟩ := h
    simp only [pr, List.mem_append, List.mem_cons, List.not_mem_nil, or_false] at ht
    rcases ht with ((h1 | h1) | h1) | h1
    · subst h1; rw [hfn]; decide
    · subst h1; rw [hlp]; decide
    · exact iha _ (Or.inr ha) t h1
    · subst h1; rw [hrp]; decide
  | arr0 lb rb =>
    intro p h t ht
    have h := h.resolve_right (by simp [PE.WFA])
    simp only [pr, List.mem_cons, List.not_mem_nil, or_false] at ht
    rcases ht with h1 | h1
    · subst h1; rw [h.1]; decide
    · subst h1; rw [h.2]; decide
  | arr lb rb a iha =>
    intro p h t ht
    have h := h.resolve_right (by simp [PE.WFA])
    simp only [pr, List.mem_append, List.mem_cons, List.not_mem_nil, or_false] at ht
    rcases ht with (h1 | h1) | h1
    · subst h1; rw [h.1]; decide
    · exact iha _ (Or.inr h.2.2) t h1
    · subst h1; rw [h.2.1]; decide
  | aone e ih =>
    intro p h t ht
    rcases h with h | h
    · simp [PE.WF] at h
    · simp only [pr] at ht; exact ih _ (Or.inl h) t ht
  | acons e c r ihe ihr =>
    intro p h t ht
    rcases h with h | h
    · simp [PE.WF] at h
    · obtain ⟨he, hc, hr⟩ := h
      simp only [pr, List.mem_append, List.mem_singleton] at ht
      rcases ht with (h1 | h1) | h1
      · exact ihe _ (Or.inl he) t h1
      · subst h1; rw [hc]; decide
      · exact ihr _ (Or.inr hr) t h1

theorem pr_types (e : PE) (p : Nat) (h : e.WF) : ∀ t ∈ pr p e, t.type ≠ .EOF := pr_types' e p (Or.inl h)

theorem At_in_range {s : PS} (e : EofOK s) {i : Nat} {ts : List Token} (h : At s i ts)
    (hne : ∀ t ∈ ts, t.type ≠ .EOF) (hnil : ts ≠ []) : i + ts.length ≤ s.toks.size := by
  cases hl : ts.length with
  | zero => exact absurd (List.length_eq_zero_iff.mp hl) hnil
  | succ n =>
    have := h n (by omega)
    have h2 := lt_size_of_ne_eof e (i := i + n) (by rw [this]; exact hne _ (List.getElem_mem _))
    omega

theorem At_append_left {s : PS} {i : Nat} {a c : List Token} (h : At s i (a ++ c)) : At s i a := by
  intro k hk
  have := h k (by simp; omega)
  rw [this, List.getElem_append_left hk]

theorem At_append_right {s : PS} {i : Nat} {a c : List Token} (h : At s i (a ++ c)) : At s (i + a.length) c := by
  intro k hk
  have := h (a.length + k) (by simp; omega)
  rw [Nat.add_assoc, this, List.getElem_append_right (by omega)]
  simp

theorem pr_len_pos (p : Nat) (e : PE) : 0 < (pr p e).length := List.length_pos_iff.mpr (pr_ne_nil p e)

/-- the continuation a parsed operand hands over to: the operator loop, cursor on the operand's last token -/
def Kont (s : PS) (n q : Nat) (x : Expr) (Q : Option Expr → PS → Prop) : Prop :=
  ∀ f1, 12 + C * rem (s.at (s.pos + n - 1)) ≤ f1 → OK (infixLoop f1 q (some x)) (s.at (s.pos + n - 1)) Q

/-- the round-trip statement for an expression … -/
def MainStmt (e : PE) : Prop := ∀ (q p : Nat) (s : PS) (f : Nat) (Q : Option Expr → PS → Prop),
    e.WF → q < p → q ≤ Gen.PREFIX → EofOK s → At s s.pos (pr p e) → edge p e (tokAt s (s.pos + (pr p e).length)) →
    14 + C * rem s ≤ f → Kont s (pr p e).length q e.toExpr Q → OK (parseExpression f q) s Q

/-- … and for a non-empty argument list: with the cursor on its first token, "parse an expression, then run the
    comma loop" collects exactly the arguments and stops on the last token in front of the closing parenthesis -/
def ArgsStmt (a : PE) : Prop := ∀ (s : PS) (f : Nat) (acc : List (Option Expr)) (Q : List (Option Expr) → PS → Prop),
    a.WFA → EofOK s → At s s.pos (pr 0 a) →
    ((tokAt s (s.pos + (pr 0 a).length)).type ≠ .COMMA ∧ precOf (tokAt s (s.pos + (pr 0 a).length)).type = Gen.LOWEST ∧
      (tokAt s (s.pos + (pr 0 a).length)).type ≠ .ASSIGN ∧ (tokAt s (s.pos + (pr 0 a).length)).type ≠ .DOT ∧
      (tokAt s (s.pos + (pr 0 a).length)).type ≠ .LBRACE) →
    16 + C * rem s ≤ f → Q (acc ++ a.toArgs) (s.at (s.pos + (pr 0 a).length - 1)) →
    OK (parseExpression f Gen.LOWEST >>= fun e => exprListLoop f (acc ++ [e])) s Q

theorem atomOf_ident (fn : Token) (h : fn.type = .IDENT) : atomOf fn = some (fnExpr fn) := by
  simp [atomOf, h, fnExpr]

theorem atomOf_ne_rparen {c : Token} {x : Expr} (h : atomOf c = some x) : c.type ≠ .RPAREN := by
  intro h0; unfold atomOf at h; rw [h0] at h; cases h

theorem prefix_ne_rparen {t : TT} (h : lookupLast t Gen.prefixFns = some .parsePrefixExpression) : t ≠ .RPAREN := by
  intro h0; subst h0; revert h; decide

theorem atomOf_ne_rbracket {c : Token} {x : Expr} (h : atomOf c = some x) : c.type ≠ .RBRACKET := by
  intro h0; unfold atomOf at h; rw [h0] at h; cases h

theorem prefix_ne_rbracket {t : TT} (h : lookupLast t Gen.prefixFns = some .parsePrefixExpression) : t ≠ .RBRACKET := by
  intro h0; subst h0; revert h; decide

/-- an expression (and an argument list) never starts with `)` -/
theorem pr_head (e : PE) : ∀ p, (e.WF ∨ e.WFA) → ∃ t rest, pr p e = t :: rest ∧ t.type ≠ .RPAREN ∧ t.type ≠ .RBRACKET := by
  induction e with
  | atom c x =>
    intro p h
    have h := h.resolve_right (by simp [PE.WFA])
    exact ⟨c, [], rfl, atomOf_ne_rparen h, atomOf_ne_rbracket h⟩
  | bin o lp rp l r ihl _ =>
    intro p h
    have h := h.resolve_right (by simp [PE.WFA])
    obtain ⟨_, _, hlp, _, hl, _⟩ := h
    obtain ⟨t, rest, ht, hne⟩ := ihl (precOf o.type) (Or.inl hl)
    simp only [pr]
    split
    · exact ⟨lp, _, rfl, by rw [hlp]; decide, by rw [hlp]; decide⟩
    · exact ⟨t, rest ++ [o] ++ pr (precOf o.type + 1) r, by rw [ht]; simp, hne⟩
  | pre o r _ =>
    intro p h
    have h := h.resolve_right (by simp [PE.WFA])
    exact ⟨o, _, rfl, prefix_ne_rparen h.1, prefix_ne_rbracket h.1⟩
  | idx lb rb l i ihl _ =>
    intro p h
    have h := h.resolve_right (by simp [PE.WFA])
    obtain ⟨t, rest, ht, hne⟩ := ihl Gen.INDEX (Or.inl h.2.2.2.1)
    exact ⟨t, rest ++ [lb] ++ pr (Gen.LOWEST + 1) i ++ [rb], by simp only [pr]; rw [ht]; simp, hne⟩
  | call0 fn lp rp =>
    intro p h
    have h := h.resolve_right (by simp [PE.WFA])
    exact ⟨fn, _, rfl, by rw [h.1]; decide, by rw [h.1]; decide⟩
  | call fn lp rp a _ =>
    intro p h
    have h := h.resolve_right (by simp [PE.WFA])
    exact ⟨fn, _, rfl, by rw [h.1]; decide, by rw [h.1]; decide⟩
  | arr0 lb rb =>
    intro p h
    have h := h.resolve_right (by simp [PE.WFA])
    exact ⟨lb, _, rfl, by rw [h.1]; decide, by rw [h.1]; decide⟩
  | arr lb rb a _ =>
    intro p h
    have h := h.resolve_right (by simp [PE.WFA])
    exact ⟨lb, _, rfl, by rw [h.1]; decide, by rw [h.1]; decide⟩
  | aone e ih =>
    intro p h
    have h := h.resolve_left (by simp [PE.WF])
    simpa only [pr] using ih (Gen.LOWEST + 1) (Or.inl h)
  | acons e c r ihe _ =>
    intro p h
    have h := h.resolve_left (by simp [PE.WF])
    obtain ⟨t, rest, ht, hne⟩ := ihe (Gen.LOWEST + 1) (Or.inl h.1)
    exact ⟨t, rest ++ [c] ++ pr 0 r, by simp only [pr]; rw [ht]; simp, hne⟩

theorem main_both (e : PE) : MainStmt e ∧ ArgsStmt e := by
  induction e with
  | atom c x =>
    refine ⟨?_, fun s f acc Q h => by simp [PE.WFA] at h⟩
    intro q p s f Q hwf hqp hqP eo hat hedge hf K
    obtain ⟨f', rfl⟩ : ∃ f', f = f' + 2 := ⟨f - 2, by simp only [C] at hf; omega⟩
    have h0 := hat 0 (by simp [pr])
    simp only [pr, List.getElem_cons_zero, Nat.add_zero] at h0
    simp only [pr, List.length_singleton, edge] at hedge
    apply atom_step
    · rw [h0]; exact hwf
    · exact hedge
    · have := K (f' + 1) (by simp only [pr, List.length_singleton, Nat.add_sub_cancel, at_self]; simp only [C] at hf ⊢; omega)
      simpa [pr, at_self, PE.toExpr] using this
  | bin o lp rp l r ihl ihr =>
    refine ⟨?_, fun s f acc Q h => by simp [PE.WFA] at h⟩
    have ihl := ihl.1
    have ihr := ihr.1
    intro q0 p s0 f0 Q0 hwf
    obtain ⟨hfn, hlow, hlp, hrp, hwl, hwr⟩ := hwf
    -- the unparenthesised body  l o r
    have body : ∀ (q : Nat) (s : PS) (f : Nat) (Q : Option Expr → PS → Prop), q < precOf o.type → q ≤ Gen.PREFIX → EofOK s →
        At s s.pos (pr (precOf o.type) l ++ [o] ++ pr (precOf o.type + 1) r) →
        (precOf (tokAt s (s.pos + (pr (precOf o.type) l ++ [o] ++ pr (precOf o.type + 1) r).length)).type ≤ precOf o.type ∧
          (tokAt s (s.pos + (pr (precOf o.type) l ++ [o] ++ pr (precOf o.type + 1) r).length)).type ≠ .ASSIGN ∧
          (tokAt s (s.pos + (pr (precOf o.type) l ++ [o] ++ pr (precOf o.type + 1) r).length)).type ≠ .DOT ∧
          (tokAt s (s.pos + (pr (precOf o.type) l ++ [o] ++ pr (precOf o.type + 1) r).length)).type ≠ .LBRACE) →
        14 + C * rem s ≤ f →
        Kont s (pr (precOf o.type) l ++ [o] ++ pr (precOf o.type + 1) r).length q (PE.bin o lp rp l r).toExpr Q →
        OK (parseExpression f q) s Q := by
      intro q s f Q hq hqP eo hat hnt hf K
      have Ll := pr_len_pos (precOf o.type) l
      have Lr := pr_len_pos (precOf o.type + 1) r
      have hrange := At_in_range eo hat (by
          intro t ht
          simp only [List.mem_append, List.mem_singleton] at ht
          rcases ht with (h1 | h1) | h1
          · exact pr_types l _ hwl t h1
          · subst h1; exact infix_ne_eof hfn
          · exact pr_types r _ hwr t h1) (by simp)
      simp only [List.length_append, List.length_singleton] at hrange hnt K
      have hatl : At s s.pos (pr (precOf o.type) l) := At_append_left (At_append_left hat)
      have hato : tokAt s (s.pos + (pr (precOf o.type) l).length) = o := by
        have := At_append_right (At_append_left hat) 0 (by simp)
        simpa using this
      have hatr : At s (s.pos + (pr (precOf o.type) l).length + 1) (pr (precOf o.type + 1) r) := by
        have := At_append_right hat
        simpa [Nat.add_assoc] using this
      apply ihl q (precOf o.type) s f Q hwl hq hqP eo hatl ?_ hf
      · -- continuation after l: the loop sees `o`
        intro f1 hf1
        rw [rem_at] at hf1
        obtain ⟨g, rfl⟩ : ∃ g, f1 = g + 2 := ⟨f1 - 2, by simp only [C] at hf1; omega⟩
        have hpk : tokAt (s.at (s.pos + (pr (precOf o.type) l).length - 1)) ((s.at (s.pos + (pr (precOf o.type) l).length - 1)).pos + 1) = o := by
          simp only [tokAt_at, at_pos]
          rw [show s.pos + (pr (precOf o.type) l).length - 1 + 1 = s.pos + (pr (precOf o.type) l).length by omega]
          exact hato
        apply infix_step
        · rw [hpk]; exact hfn
        · rw [hpk]; exact hq
        · rw [hpk]
          show OK (parseExpression g (precOf o.type)) (s.at (s.pos + (pr (precOf o.type) l).length - 1 + 1 + 1)) _
          rw [show s.pos + (pr (precOf o.type) l).length - 1 + 1 + 1 = s.pos + (pr (precOf o.type) l).length + 1 by omega]
          apply ihr (precOf o.type) (precOf o.type + 1) (s.at (s.pos + (pr (precOf o.type) l).length + 1)) g _ hwr (by omega) (infix_prec_le hfn) (show EofOK (s.at _) from eo)
          · exact hatr
          · -- edge for r
            simp only [at_pos, tokAt_at]
            rw [show s.pos + (pr (precOf o.type) l).length + 1 + (pr (precOf o.type + 1) r).length
                  = s.pos + ((pr (precOf o.type) l).length + 1 + (pr (precOf o.type + 1) r).length) by omega]
            exact edge_of_le r _ (precOf o.type) _ hwr (infix_prec_le hfn) hnt.1 hnt.2.1 hnt.2.2.1 hnt.2.2.2 (fun o2 _ _ _ _ _ hnp => by omega)
          · rw [rem_at]; simp only [C] at hf1 ⊢; omega
          · -- continuation after r: the loop stops, the node is built, the outer loop goes on
            intro f2 hf2
            simp only [at_pos, at_at] at hf2 ⊢
            rw [rem_at] at hf2
            obtain ⟨h2, rfl⟩ : ∃ h2, f2 = h2 + 1 := ⟨f2 - 1, by simp only [C] at hf2; omega⟩
            apply loop_stops
            · simp only [tokAt_at, at_pos]
              rw [show s.pos + (pr (precOf o.type) l).length + 1 + (pr (precOf o.type + 1) r).length - 1 + 1
                    = s.pos + ((pr (precOf o.type) l).length + 1 + (pr (precOf o.type + 1) r).length) by omega]
              exact hnt.1
            · have := K (g + 1) (by rw [rem_at]; simp only [C] at hf1 ⊢; omega)
              rw [show s.pos + ((pr (precOf o.type) l).length + 1 + (pr (precOf o.type + 1) r).length) - 1
                    = s.pos + (pr (precOf o.type) l).length + 1 + (pr (precOf o.type + 1) r).length - 1 by omega] at this
              exact this
      · -- edge for l: the next token is `o`
        rw [hato]
        exact edge_of_le l _ (precOf o.type) _ hwl (infix_prec_le hfn) (Nat.le_refl _) (infix_ne_assign hfn) (infix_ne_dot hfn) (infix_ne_lbrace hfn) (fun o1 _ _ _ _ _ hnp => by omega)
    intro hqp hqP eo hat hedge hf K
    by_cases hp : precOf o.type < p
    · -- parenthesised:  lp  l o r  rp
      simp only [pr, if_pos hp] at hat K hedge
      have hrange := At_in_range eo hat (by
          intro t ht
          have := pr_types (PE.bin o lp rp l r) p ⟨hfn, hlow, hlp, hrp, hwl, hwr⟩ t (by simpa only [pr, if_pos hp] using ht)
          exact this) (by simp)
      simp only [List.length_append, List.length_singleton, List.length_cons, List.length_nil] at hrange K
      obtain ⟨f', rfl⟩ : ∃ f', f0 = f' + 2 := ⟨f0 - 2, by simp only [C] at hf; omega⟩
      have hat0 : tokAt s0 s0.pos = lp := by simpa using hat 0 (by simp)
      have hbody : At s0 (s0.pos + 1) (pr (precOf o.type) l ++ [o] ++ pr (precOf o.type + 1) r) := by
        have := At_append_right (At_append_left hat)
        simpa using this
      have hrpt : tokAt s0 (s0.pos + 1 + (pr (precOf o.type) l ++ [o] ++ pr (precOf o.type + 1) r).length) = rp := by
        have := At_append_right hat 0 (by simp)
        simp only [List.length_append, List.length_singleton, List.length_cons, List.length_nil, List.getElem_cons_zero,
          Nat.add_zero] at this ⊢
        rw [← this]; congr 1; omega
      apply paren_step
      · rw [hat0]; exact hlp
      · show OK (parseExpression f' Gen.LOWEST) (s0.at (s0.pos + 1)) _
        apply body Gen.LOWEST (s0.at (s0.pos + 1)) f' _ hlow (by decide) (show EofOK (s0.at _) from eo) hbody
        · simp only [at_pos, tokAt_at]
          rw [hrpt, hrp]
          have hlo : precOf TT.RPAREN = Gen.LOWEST := by decide
          exact ⟨by rw [hlo]; omega, by decide, by decide, by decide⟩
        · rw [rem_at]; simp only [rem, C] at hf ⊢; omega
        · intro f1 hf1
          simp only [at_pos, at_at] at hf1 ⊢
          rw [rem_at] at hf1
          simp only [List.length_append, List.length_singleton] at hf1 hrpt ⊢
          obtain ⟨h1, rfl⟩ : ∃ h1, f1 = h1 + 1 := ⟨f1 - 1, by simp only [C] at hf1; omega⟩
          have Ll := pr_len_pos (precOf o.type) l
          have hpk : s0.pos + 1 + ((pr (precOf o.type) l).length + 1 + (pr (precOf o.type + 1) r).length) - 1 + 1
              = s0.pos + 1 + ((pr (precOf o.type) l).length + 1 + (pr (precOf o.type + 1) r).length) := by omega
          apply loop_stops
          · simp only [tokAt_at, at_pos]
            rw [hpk, hrpt, hrp]; decide
          · refine ⟨?_, ?_⟩
            · simp only [tokAt_at, at_pos]
              rw [hpk, hrpt, hrp]; rfl
            · show OK (infixLoop (f' + 1) q0 _) (s0.at _) Q0
              have := K (f' + 1) (by rw [rem_at]; simp only [rem, C] at hf ⊢; omega)
              simp only [at_pos]
              rw [hpk]
              rw [show s0.pos + (1 + ((pr (precOf o.type) l).length + 1 + (pr (precOf o.type + 1) r).length) + 1) - 1
                    = s0.pos + 1 + ((pr (precOf o.type) l).length + 1 + (pr (precOf o.type + 1) r).length) by omega] at this
              exact this
    · -- bare
      simp only [pr, if_neg hp] at hat K hedge
      simp only [edge, if_neg hp] at hedge
      exact body q0 s0 f0 Q0 (by omega) hqP eo hat hedge hf K
  | pre o r ih =>
    refine ⟨?_, fun s f acc Q h => by simp [PE.WFA] at h⟩
    have ih := ih.1
    intro q p s f Q hwf hqp hqP eo hat hedge hf K
    obtain ⟨hfn, hwr⟩ := hwf
    simp only [pr] at hat K
    simp only [pr, edge] at hedge
    have Lr := pr_len_pos (Gen.PREFIX + 1) r
    have hrange := At_in_range eo hat (by
        intro t ht
        simp only [List.mem_cons] at ht
        rcases ht with h1 | h1
        · subst h1; exact prefix_ne_eof hfn
        · exact pr_types r _ hwr t h1) (by simp)
    simp only [List.length_cons] at hrange K hedge
    obtain ⟨f', rfl⟩ : ∃ f', f = f' + 2 := ⟨f - 2, by simp only [C] at hf; omega⟩
    have hat0 : tokAt s s.pos = o := by
      have := hat 0 (by simp)
      simpa only [Nat.add_zero, List.getElem_cons_zero] using this
    have hatr : At s (s.pos + 1) (pr (Gen.PREFIX + 1) r) := by
      have := At_append_right (a := [o]) (c := pr (Gen.PREFIX + 1) r) (by simpa using hat)
      simpa using this
    apply prefix_step
    · rw [hat0]; exact hfn
    · rw [hat0]
      show OK (parseExpression f' Gen.PREFIX) (s.at (s.pos + 1)) _
      apply ih Gen.PREFIX (Gen.PREFIX + 1) (s.at (s.pos + 1)) f' _ hwr (by omega) (Nat.le_refl _) (show EofOK (s.at _) from eo) hatr
      · simp only [at_pos, tokAt_at]
        rw [show s.pos + 1 + (pr (Gen.PREFIX + 1) r).length = s.pos + ((pr (Gen.PREFIX + 1) r).length + 1) by omega]
        exact hedge.2
      · rw [rem_at]; simp only [rem, C] at hf ⊢; omega
      · intro f2 hf2
        simp only [at_pos, at_at] at hf2 ⊢
        rw [rem_at] at hf2
        obtain ⟨h2, rfl⟩ : ∃ h2, f2 = h2 + 1 := ⟨f2 - 1, by simp only [C] at hf2; omega⟩
        apply loop_stops
        · simp only [tokAt_at, at_pos]
          rw [show s.pos + 1 + (pr (Gen.PREFIX + 1) r).length - 1 + 1 = s.pos + ((pr (Gen.PREFIX + 1) r).length + 1) by omega]
          exact hedge.1
        · have := K (f' + 1) (by rw [rem_at]; simp only [rem, C] at hf ⊢; omega)
          rw [show s.pos + ((pr (Gen.PREFIX + 1) r).length + 1) - 1 = s.pos + 1 + (pr (Gen.PREFIX + 1) r).length - 1 by omega] at this
          exact this

  | idx lb rb l i ihl ihi =>
    refine ⟨?_, fun s f acc Q h => by simp [PE.WFA] at h⟩
    have ihl := ihl.1
    have ihi := ihi.1
    intro q p s f Q hwf hqp hqP eo hat hedge hf K
    obtain ⟨hlb, hrb, hpost, hwl, hwi⟩ := hwf
    simp only [pr] at hat K
    simp only [pr, edge] at hedge
    have Ll := pr_len_pos Gen.INDEX l
    have Li := pr_len_pos (Gen.LOWEST + 1) i
    have hrange := At_in_range eo hat (by
        intro t ht
        exact pr_types (PE.idx lb rb l i) p ⟨hlb, hrb, hpost, hwl, hwi⟩ t (by simpa only [pr] using ht)) (by simp)
    simp only [List.length_append, List.length_singleton, List.length_cons, List.length_nil] at hrange K hedge
    have hatl : At s s.pos (pr Gen.INDEX l) := At_append_left (At_append_left (At_append_left hat))
    have hatlb : tokAt s (s.pos + (pr Gen.INDEX l).length) = lb := by
      have := At_append_right (At_append_left (At_append_left hat)) 0 (by simp)
      simpa using this
    have hati : At s (s.pos + (pr Gen.INDEX l).length + 1) (pr (Gen.LOWEST + 1) i) := by
      have := At_append_right (At_append_left hat)
      simpa [Nat.add_assoc] using this
    have hatrb : tokAt s (s.pos + (pr Gen.INDEX l).length + 1 + (pr (Gen.LOWEST + 1) i).length) = rb := by
      have := At_append_right hat 0 (by simp)
      simp only [List.length_append, List.length_singleton, List.length_cons, List.length_nil, List.getElem_cons_zero,
        Nat.add_zero] at this
      rw [← this]; congr 1; omega
    have hQI : q < Gen.INDEX := by have : Gen.PREFIX < Gen.INDEX := by decide
                                   omega
    apply ihl q Gen.INDEX s f Q hwl hQI hqP eo hatl ?_ hf
    · -- continuation after l: the loop sees `[`
      intro f1 hf1
      rw [rem_at] at hf1
      obtain ⟨g, rfl⟩ : ∃ g, f1 = g + 2 := ⟨f1 - 2, by simp only [C] at hf1; omega⟩
      have hpk : tokAt (s.at (s.pos + (pr Gen.INDEX l).length - 1)) ((s.at (s.pos + (pr Gen.INDEX l).length - 1)).pos + 1) = lb := by
        simp only [tokAt_at, at_pos]
        rw [show s.pos + (pr Gen.INDEX l).length - 1 + 1 = s.pos + (pr Gen.INDEX l).length by omega]
        exact hatlb
      apply index_step
      · rw [hpk]; exact hlb
      · exact hQI
      · rw [hpk]
        show OK (parseExpression g Gen.LOWEST) (s.at (s.pos + (pr Gen.INDEX l).length - 1 + 1 + 1)) _
        rw [show s.pos + (pr Gen.INDEX l).length - 1 + 1 + 1 = s.pos + (pr Gen.INDEX l).length + 1 by omega]
        apply ihi Gen.LOWEST (Gen.LOWEST + 1) (s.at (s.pos + (pr Gen.INDEX l).length + 1)) g _ hwi (by omega) (by decide)
          (show EofOK (s.at _) from eo)
        · exact hati
        · -- edge for i: the next token is `]`
          simp only [at_pos, tokAt_at]
          rw [hatrb]
          exact edge_of_le i _ Gen.LOWEST _ hwi (by decide) (by rw [hrb]; decide) (by rw [hrb]; decide) (by rw [hrb]; decide)
            (by rw [hrb]; decide) (fun o2 _ _ _ _ _ hnp => by omega)
        · rw [rem_at]; simp only [C] at hf1 ⊢; omega
        · -- continuation after i: the loop stops at `]`, the node is built, the outer loop goes on
          intro f2 hf2
          simp only [at_pos, at_at] at hf2 ⊢
          rw [rem_at] at hf2
          obtain ⟨h2, rfl⟩ : ∃ h2, f2 = h2 + 1 := ⟨f2 - 1, by simp only [C] at hf2; omega⟩
          have hpk2 : s.pos + (pr Gen.INDEX l).length + 1 + (pr (Gen.LOWEST + 1) i).length - 1 + 1
              = s.pos + (pr Gen.INDEX l).length + 1 + (pr (Gen.LOWEST + 1) i).length := by omega
          apply loop_stops
          · simp only [tokAt_at, at_pos]
            rw [hpk2, hatrb, hrb]; decide
          · refine ⟨?_, ?_, ?_, ?_⟩
            · simp only [tokAt_at, at_pos]
              rw [hpk2, hatrb, hrb]; rfl
            · simp only [tokAt_at, at_pos]
              rw [hpk2]
              rw [show s.pos + (pr Gen.INDEX l).length + 1 + (pr (Gen.LOWEST + 1) i).length + 1
                    = s.pos + ((pr Gen.INDEX l).length + 1 + (pr (Gen.LOWEST + 1) i).length + 1) by omega]
              simpa using hedge.2
            · simp only [tokAt_at, at_pos]
              rw [hpk2]
              rw [show s.pos + (pr Gen.INDEX l).length + 1 + (pr (Gen.LOWEST + 1) i).length + 1
                    = s.pos + ((pr Gen.INDEX l).length + 1 + (pr (Gen.LOWEST + 1) i).length + 1) by omega]
              simpa using hedge.1
            · show OK (infixLoop (g + 1) q _) (s.at _) Q
              have := K (g + 1) (by rw [rem_at]; simp only [C] at hf1 ⊢; omega)
              simp only [at_pos]
              rw [hpk2]
              rw [show s.pos + ((pr Gen.INDEX l).length + 1 + (pr (Gen.LOWEST + 1) i).length + 1) - 1
                    = s.pos + (pr Gen.INDEX l).length + 1 + (pr (Gen.LOWEST + 1) i).length by omega] at this
              exact this
    · -- edge for l: the next token is `[`
      rw [hatlb]
      exact edge_post l _ _ hpost (by rw [hlb]; decide) (by rw [hlb]; decide) (by rw [hlb]; decide)

  | call0 fn lp rp =>
    refine ⟨?_, fun s f acc Q h => by simp [PE.WFA] at h⟩
    intro q p s f Q hwf hqp hqP eo hat hedge hf K
    obtain ⟨hfn, hnd, hlp, hrp⟩ := hwf
    simp only [pr] at hat K
    simp only [pr, edge] at hedge
    have hrange := At_in_range eo hat (by
        intro t ht
        exact pr_types (PE.call0 fn lp rp) p ⟨hfn, hnd, hlp, hrp⟩ t (by simpa only [pr] using ht)) (by simp)
    simp only [List.length_cons, List.length_nil] at hrange K hedge
    have h0 : tokAt s s.pos = fn := by simpa using hat 0 (by simp)
    have h1 : tokAt s (s.pos + 1) = lp := by simpa using hat 1 (by simp)
    have h2 : tokAt s (s.pos + 1 + 1) = rp := by simpa [Nat.add_assoc] using hat 2 (by simp)
    obtain ⟨g, rfl⟩ : ∃ g, f = g + 4 := ⟨f - 4, by simp only [C] at hf; omega⟩
    have hQC : q < Gen.CALL := by have : Gen.PREFIX < Gen.CALL := by decide
                                  omega
    apply atom_step (f := g + 2)
    · rw [h0]; exact atomOf_ident fn hfn
    · rw [h1, hlp]; decide
    · apply call_step (f := g + 1) (fn := fn) (hfn := hnd)
      · rw [h1]; exact hlp
      · exact hQC
      · apply exprList_empty
        · show (tokAt s (s.pos + 1 + 1)).type = TT.RPAREN
          rw [h2]; exact hrp
        · refine ⟨?_, ?_, ?_⟩
          · show ((tokAt s (s.pos + 1 + 1 + 1)).type == TT.LBRACE) = false
            have := hedge.2
            rw [show s.pos + 1 + 1 + 1 = s.pos + (0 + 1 + 1 + 1) by omega]
            simpa using this
          · show ((tokAt s (s.pos + 1 + 1 + 1)).type == TT.DOT) = false
            have := hedge.1
            rw [show s.pos + 1 + 1 + 1 = s.pos + (0 + 1 + 1 + 1) by omega]
            simpa using this
          · have := K (g + 2) (by rw [rem_at]; simp only [rem, C] at hf ⊢; omega)
            rw [h1]
            simpa [PE.toExpr, PS.at, Nat.add_assoc] using this
  | call fn lp rp a iha =>
    refine ⟨?_, fun s f acc Q h => by simp [PE.WFA] at h⟩
    have iha := iha.2
    intro q p s f Q hwf hqp hqP eo hat hedge hf K
    obtain ⟨hfn, hnd, hlp, hrp, hwa⟩ := hwf
    simp only [pr] at hat K
    simp only [pr, edge] at hedge
    have La := List.length_pos_iff.mpr (pr_ne_nil 0 a)
    have hrange := At_in_range eo hat (by
        intro t ht
        exact pr_types (PE.call fn lp rp a) p ⟨hfn, hnd, hlp, hrp, hwa⟩ t (by simpa only [pr] using ht)) (by simp)
    simp only [List.length_append, List.length_cons, List.length_nil] at hrange K hedge
    have h0 : tokAt s s.pos = fn := by
      have := hat 0 (by simp)
      simpa using this
    have h1 : tokAt s (s.pos + 1) = lp := by
      have := hat 1 (by simp)
      simpa using this
    have hata : At s (s.pos + 1 + 1) (pr 0 a) := by
      have := At_append_right (At_append_left hat)
      simpa [Nat.add_assoc] using this
    have hrpt : tokAt s (s.pos + 1 + 1 + (pr 0 a).length) = rp := by
      have := At_append_right hat 0 (by simp)
      simp only [List.length_append, List.length_cons, List.length_nil, List.getElem_cons_zero, Nat.add_zero] at this
      rw [← this]; congr 1; omega
    obtain ⟨g, rfl⟩ : ∃ g, f = g + 4 := ⟨f - 4, by simp only [C] at hf; omega⟩
    have hQC : q < Gen.CALL := by have : Gen.PREFIX < Gen.CALL := by decide
                                  omega
    obtain ⟨t0, rest0, ht0, hne0⟩ := pr_head a 0 (Or.inr hwa)
    have hfirst : tokAt s (s.pos + 1 + 1) = t0 := by
      have := hata 0 (by rw [ht0]; simp)
      simpa [ht0] using this
    apply atom_step (f := g + 2)
    · rw [h0]; exact atomOf_ident fn hfn
    · rw [h1, hlp]; decide
    · apply call_step (f := g + 1) (fn := fn) (hfn := hnd)
      · rw [h1]; exact hlp
      · exact hQC
      · apply exprList_nonempty
        · show (tokAt s (s.pos + 1 + 1)).type ≠ TT.RPAREN
          rw [hfirst]; exact hne0.1
        · show OK (parseExpression g Gen.LOWEST >>= fun e => exprListLoop g ([] ++ [e])) (s.at (s.pos + 1 + 1)) _
          apply iha (s.at (s.pos + 1 + 1)) g [] _ hwa (show EofOK (s.at _) from eo) hata
          · simp only [at_pos, tokAt_at]
            rw [hrpt, hrp]
            exact ⟨by decide, by decide, by decide, by decide, by decide⟩
          · rw [rem_at]; simp only [rem, C] at hf ⊢; omega
          · simp only [at_pos, at_at, tokAt_at, List.nil_append]
            have hpk : s.pos + 1 + 1 + (pr 0 a).length - 1 + 1 = s.pos + 1 + 1 + (pr 0 a).length := by omega
            refine ⟨?_, ?_, ?_, ?_⟩
            · rw [hpk, hrpt, hrp]; rfl
            · rw [hpk]
              have h' : ((tokAt s (s.pos + (0 + 1 + 1 + (pr 0 a).length + 1))).type == TT.LBRACE) = false := by
                simpa using hedge.2
              rw [show s.pos + 1 + 1 + (pr 0 a).length + 1 = s.pos + (0 + 1 + 1 + (pr 0 a).length + 1) by omega]
              exact h'
            · rw [hpk]
              have h' : ((tokAt s (s.pos + (0 + 1 + 1 + (pr 0 a).length + 1))).type == TT.DOT) = false := by
                simpa using hedge.1
              rw [show s.pos + 1 + 1 + (pr 0 a).length + 1 = s.pos + (0 + 1 + 1 + (pr 0 a).length + 1) by omega]
              exact h'
            · have := K (g + 2) (by rw [rem_at]; simp only [rem, C] at hf ⊢; omega)
              rw [h1]
              rw [show s.pos + (0 + 1 + 1 + (pr 0 a).length + 1) - 1 = s.pos + 1 + 1 + (pr 0 a).length by omega] at this
              rw [hpk]
              exact this
  | arr0 lb rb =>
    refine ⟨?_, fun s f acc Q h => by simp [PE.WFA] at h⟩
    intro q p s f Q hwf hqp hqP eo hat hedge hf K
    obtain ⟨hlb, hrb⟩ := hwf
    simp only [pr] at hat K
    have hrange := At_in_range eo hat (by
        intro t ht
        exact pr_types (PE.arr0 lb rb) p ⟨hlb, hrb⟩ t (by simpa only [pr] using ht)) (by simp)
    simp only [List.length_cons, List.length_nil] at hrange K
    have h0 : tokAt s s.pos = lb := by simpa using hat 0 (by simp)
    have h1 : tokAt s (s.pos + 1) = rb := by simpa using hat 1 (by simp)
    obtain ⟨g, rfl⟩ : ∃ g, f = g + 3 := ⟨f - 3, by simp only [C] at hf; omega⟩
    apply arr_step (f := g + 1)
    · rw [h0]; exact hlb
    · apply exprList_empty
      · rw [h1]; exact hrb
      · have := K (g + 2) (by rw [rem_at]; simp only [rem, C] at hf ⊢; omega)
        rw [h0]
        simpa [PE.toExpr, PS.at, Nat.add_assoc] using this
  | arr lb rb a iha =>
    refine ⟨?_, fun s f acc Q h => by simp [PE.WFA] at h⟩
    have iha := iha.2
    intro q p s f Q hwf hqp hqP eo hat hedge hf K
    obtain ⟨hlb, hrb, hwa⟩ := hwf
    simp only [pr] at hat K
    have La := List.length_pos_iff.mpr (pr_ne_nil 0 a)
    have hrange := At_in_range eo hat (by
        intro t ht
        exact pr_types (PE.arr lb rb a) p ⟨hlb, hrb, hwa⟩ t (by simpa only [pr] using ht)) (by simp)
    simp only [List.length_append, List.length_cons, List.length_nil] at hrange K
    have h0 : tokAt s s.pos = lb := by
      have := hat 0 (by simp)
      simpa using this
    have hata : At s (s.pos + 1) (pr 0 a) := by
      have := At_append_right (At_append_left hat)
      simpa using this
    have hrbt : tokAt s (s.pos + 1 + (pr 0 a).length) = rb := by
      have := At_append_right hat 0 (by simp)
      simp only [List.length_append, List.length_cons, List.length_nil, List.getElem_cons_zero, Nat.add_zero] at this
      rw [← this]; congr 1; omega
    obtain ⟨g, rfl⟩ : ∃ g, f = g + 3 := ⟨f - 3, by simp only [C] at hf; omega⟩
    obtain ⟨t0, rest0, ht0, hne0⟩ := pr_head a 0 (Or.inr hwa)
    have hfirst : tokAt s (s.pos + 1) = t0 := by
      have := hata 0 (by rw [ht0]; simp)
      simpa [ht0] using this
    apply arr_step (f := g + 1)
    · rw [h0]; exact hlb
    · apply exprList_nonempty
      · rw [hfirst]; exact hne0.2
      · show OK (parseExpression g Gen.LOWEST >>= fun e => exprListLoop g ([] ++ [e])) (s.at (s.pos + 1)) _
        apply iha (s.at (s.pos + 1)) g [] _ hwa (show EofOK (s.at _) from eo) hata
        · simp only [at_pos, tokAt_at]
          rw [hrbt, hrb]
          exact ⟨by decide, by decide, by decide, by decide, by decide⟩
        · rw [rem_at]; simp only [rem, C] at hf ⊢; omega
        · simp only [at_pos, at_at, tokAt_at, List.nil_append]
          have hpk : s.pos + 1 + (pr 0 a).length - 1 + 1 = s.pos + 1 + (pr 0 a).length := by omega
          refine ⟨?_, ?_⟩
          · rw [hpk, hrbt, hrb]; rfl
          · have := K (g + 2) (by rw [rem_at]; simp only [rem, C] at hf ⊢; omega)
            rw [h0]
            rw [show s.pos + (0 + 1 + (pr 0 a).length + 1) - 1 = s.pos + 1 + (pr 0 a).length by omega] at this
            rw [hpk]
            exact this
  | aone e ih =>
    refine ⟨fun q p s f Q h => by simp [PE.WF] at h, ?_⟩
    have ih := ih.1
    intro s f acc Q hwa eo hat hnt hf hQ
    simp only [PE.WFA] at hwa
    simp only [pr] at hat hnt hQ
    simp only [PE.toArgs] at hQ
    have Le := pr_len_pos (Gen.LOWEST + 1) e
    obtain ⟨f', rfl⟩ : ∃ f', f = f' + 1 := ⟨f - 1, by simp only [C] at hf; omega⟩
    simp only [OK_bind]
    apply ih Gen.LOWEST (Gen.LOWEST + 1) s (f' + 1) _ hwa (by omega) (by decide) eo hat
    · exact edge_of_le e _ Gen.LOWEST _ hwa (by decide) (by rw [hnt.2.1]; exact Nat.le_refl _) hnt.2.2.1 hnt.2.2.2.1 hnt.2.2.2.2
        (fun o _ _ _ _ _ hnp => by omega)
    · simp only [C] at hf ⊢; omega
    · intro f1 hf1
      rw [rem_at] at hf1
      obtain ⟨h1, rfl⟩ : ∃ h1, f1 = h1 + 1 := ⟨f1 - 1, by simp only [C] at hf1; omega⟩
      have hpk : s.pos + (pr (Gen.LOWEST + 1) e).length - 1 + 1 = s.pos + (pr (Gen.LOWEST + 1) e).length := by omega
      apply loop_stops
      · simp only [tokAt_at, at_pos]
        rw [hpk, hnt.2.1]; exact Nat.le_refl _
      · apply exprLoop_stops
        · simp only [tokAt_at, at_pos]
          rw [hpk]; exact hnt.1
        · exact hQ
  | acons e c r ihe ihr =>
    refine ⟨fun q p s f Q h => by simp [PE.WF] at h, ?_⟩
    have ihe := ihe.1
    have ihr := ihr.2
    intro s f acc Q hwa eo hat hnt hf hQ
    simp only [PE.WFA] at hwa
    obtain ⟨hwe, hc, hwr⟩ := hwa
    simp only [pr] at hat hnt hQ
    simp only [PE.toArgs] at hQ
    have Le := pr_len_pos (Gen.LOWEST + 1) e
    have Lr := List.length_pos_iff.mpr (pr_ne_nil 0 r)
    have hrange := At_in_range eo hat (by
        intro t ht
        exact pr_types' (PE.acons e c r) 0 (Or.inr ⟨hwe, hc, hwr⟩) t (by simpa only [pr] using ht)) (by simp)
    simp only [List.length_append, List.length_cons, List.length_nil] at hrange hnt hQ
    have hate : At s s.pos (pr (Gen.LOWEST + 1) e) := At_append_left (At_append_left hat)
    have hatc : tokAt s (s.pos + (pr (Gen.LOWEST + 1) e).length) = c := by
      have := At_append_right (At_append_left hat) 0 (by simp)
      simpa using this
    have hatr : At s (s.pos + (pr (Gen.LOWEST + 1) e).length + 1) (pr 0 r) := by
      have := At_append_right hat
      simpa [Nat.add_assoc] using this
    obtain ⟨f', rfl⟩ : ∃ f', f = f' + 2 := ⟨f - 2, by simp only [C] at hf; omega⟩
    simp only [OK_bind]
    apply ihe Gen.LOWEST (Gen.LOWEST + 1) s (f' + 2) _ hwe (by omega) (by decide) eo hate
    · rw [hatc]
      exact edge_of_le e _ Gen.LOWEST _ hwe (by decide) (by rw [hc]; decide) (by rw [hc]; decide) (by rw [hc]; decide)
        (by rw [hc]; decide) (fun o _ _ _ _ _ hnp => by omega)
    · simp only [C] at hf ⊢; omega
    · intro f1 hf1
      rw [rem_at] at hf1
      obtain ⟨h1, rfl⟩ : ∃ h1, f1 = h1 + 1 := ⟨f1 - 1, by simp only [C] at hf1; omega⟩
      have hpk : s.pos + (pr (Gen.LOWEST + 1) e).length - 1 + 1 = s.pos + (pr (Gen.LOWEST + 1) e).length := by omega
      apply loop_stops
      · simp only [tokAt_at, at_pos]
        rw [hpk, hatc, hc]; decide
      · apply exprLoop_comma
        · simp only [tokAt_at, at_pos]
          rw [hpk, hatc]; exact hc
        · show OK (parseExpression (f' + 1) Gen.LOWEST >>= fun x => exprListLoop (f' + 1) (acc ++ [some e.toExpr] ++ [x]))
            (s.at (s.pos + (pr (Gen.LOWEST + 1) e).length - 1 + 1 + 1)) Q
          rw [show s.pos + (pr (Gen.LOWEST + 1) e).length - 1 + 1 + 1 = s.pos + (pr (Gen.LOWEST + 1) e).length + 1 by omega]
          apply ihr (s.at (s.pos + (pr (Gen.LOWEST + 1) e).length + 1)) (f' + 1) (acc ++ [some e.toExpr]) Q hwr
            (show EofOK (s.at _) from eo) hatr
          · simp only [at_pos, tokAt_at]
            rw [show s.pos + (pr (Gen.LOWEST + 1) e).length + 1 + (pr 0 r).length
                  = s.pos + ((pr (Gen.LOWEST + 1) e).length + 1 + (pr 0 r).length) by omega]
            exact hnt
          · rw [rem_at]; simp only [rem, C] at hf ⊢; omega
          · simp only [at_pos, at_at]
            rw [show s.pos + (pr (Gen.LOWEST + 1) e).length + 1 + (pr 0 r).length - 1
                  = s.pos + ((pr (Gen.LOWEST + 1) e).length + 1 + (pr 0 r).length) - 1 by omega]
            simpa [List.append_assoc] using hQ

/-- THEOREM C (Pratt round trip on the parser model). Any expression tree over atoms and binary operators,
    printed with the minimal parentheses that precedence and LEFT associativity require and followed by any
    token that does not bind tighter, is parsed back to exactly that tree: the cursor ends on the
    expression's last token and nothing else in the parser state changes. -/
theorem parse_print (e : PE) (s : PS) (f : Nat) (hwf : e.WF) (eo : EofOK s)
    (hat : At s s.pos (pr (Gen.LOWEST + 1) e))
    (hnext : precOf (tokAt s (s.pos + (pr (Gen.LOWEST + 1) e).length)).type = Gen.LOWEST)
    (hna : (tokAt s (s.pos + (pr (Gen.LOWEST + 1) e).length)).type ≠ .ASSIGN)
    (hnd : (tokAt s (s.pos + (pr (Gen.LOWEST + 1) e).length)).type ≠ .DOT)
    (hnb : (tokAt s (s.pos + (pr (Gen.LOWEST + 1) e).length)).type ≠ .LBRACE)
    (hf : 14 + C * rem s ≤ f) :
    parseExpression f Gen.LOWEST s = .ok (some e.toExpr, s.at (s.pos + (pr (Gen.LOWEST + 1) e).length - 1)) := by
  have := (main_both e).1 Gen.LOWEST (Gen.LOWEST + 1) s f
    (fun r s' => r = some e.toExpr ∧ s' = s.at (s.pos + (pr (Gen.LOWEST + 1) e).length - 1)) hwf (by omega) (by decide) eo hat
    (edge_of_le e _ Gen.LOWEST _ hwf (by decide) (by rw [hnext]; exact Nat.le_refl _) hna hnd hnb (fun o _ _ _ _ _ hnp => by omega)) hf
    (by
      intro f1 hf1
      rw [rem_at] at hf1
      obtain ⟨h1, rfl⟩ : ∃ h1, f1 = h1 + 1 := ⟨f1 - 1, by simp only [C] at hf1; omega⟩
      apply loop_stops
      · have L := pr_len_pos (Gen.LOWEST + 1) e
        simp only [tokAt_at, at_pos]
        rw [show s.pos + (pr (Gen.LOWEST + 1) e).length - 1 + 1 = s.pos + (pr (Gen.LOWEST + 1) e).length by omega, hnext]
        exact Nat.le_refl _
      · exact ⟨rfl, rfl⟩)
  obtain ⟨a, s', hrun, ha, hs⟩ := this
  rw [hrun, ha, hs]

end P
end Plush
