import PlushProofs.Lib.StringLit
/-!
  The token stream of the template  `<%="` ++ escQ c ++ `"%>`  for EVERY content `c` (no NUL, no backslash):
  E_START, STRING c, E_END, then EOF for ever.
-/
namespace Plush
namespace LX

/-- the template text: an output tag holding one double-quoted string that spells `c` -/
def outTagSrc (c : Bytes) : Bytes := [60, 37, 61, 34] ++ ((escQ c ++ [34]) ++ [37, 62])

theorem outTagSrc_length (c : Bytes) : (outTagSrc c).length = 7 + (escQ c).length := by
  simp [outTagSrc]; omega

theorem getD_toArray (s : Bytes) (i : Nat) : s.toArray.getD i 0 = s.getD i 0 := by
  simp [Array.getD_eq_getD_getElem?, List.getD_eq_getElem?_getD]

theorem outTag_head (c : Bytes) : (outTagSrc c).toArray.getD 0 0 = 60 ∧ (outTagSrc c).toArray.getD 1 0 = 37
    ∧ (outTagSrc c).toArray.getD 2 0 = 61 ∧ (outTagSrc c).toArray.getD 3 0 = 34 := by
  simp [outTagSrc]

theorem outTag_spells (c : Bytes) : Spells (outTagSrc c).toArray 4 (escQ c ++ [34]) := by
  intro j hj
  rw [getD_toArray]
  simp only [outTagSrc, List.getD_eq_getElem?_getD]
  rw [List.getElem?_append_right (by simp)]
  simp only [List.length_cons, List.length_nil, Nat.add_sub_cancel_left, Nat.zero_add]
  rw [List.getElem?_append_left hj, List.getElem?_eq_getElem hj]
  rfl

theorem outTag_tail (c : Bytes) : (outTagSrc c).toArray.getD (5 + (escQ c).length) 0 = 37
    ∧ (outTagSrc c).toArray.getD (6 + (escQ c).length) 0 = 62 := by
  constructor
  · rw [getD_toArray]
    simp only [outTagSrc, List.getD_eq_getElem?_getD]
    rw [List.getElem?_append_right (by simp; omega)]
    rw [List.getElem?_append_right (by simp; omega)]
    have : 5 + (escQ c).length - [60, 37, 61, (34:UInt8)].length - (escQ c ++ [34]).length = 0 := by simp; omega
    rw [this]; rfl
  · rw [getD_toArray]
    simp only [outTagSrc, List.getD_eq_getElem?_getD]
    rw [List.getElem?_append_right (by simp; omega)]
    rw [List.getElem?_append_right (by simp; omega)]
    have : 6 + (escQ c).length - [60, 37, 61, (34:UInt8)].length - (escQ c ++ [34]).length = 1 := by simp; omega
    rw [this]; rfl

set_option maxRecDepth 8000 in
theorem nextInside_estart (fuel : Nat) (l : LX) (w : l.WF) (h0 : l.ch = 60)
    (h1 : l.input.getD (l.pos + 1) 0 = 37) (h2 : l.input.getD (l.pos + 2) 0 = 61) :
    nextInsideToken (fuel + 1) l = ({ type := .E_START, lit := b "<%=", line := l.line },
      ({ l with inside := true } : LX).readChar.readChar.readChar) := by
  have hpk : l.peekChar = 37 := by rw [peekChar_eq w, h1]
  have hws : l.skipWhitespace = l := skipWhitespace_id _ (by rw [h0]; decide)
  have wi := wf_setInside w true
  have hpk1 : ({ l with inside := true } : LX).readChar.peekChar = 61 := by
    rw [peekChar_eq (readChar_wf wi), readChar_pos' wi]; exact h2
  simp only [h0] at hpk1
  unfold nextInsideToken
  simp only [hws]
  simp (config := { decide := true }) only [h0, hpk, hpk1, two, finish, if_true, if_false]

/-- in text mode on `<%=`: the token is E_START, three bytes are consumed, the scanner is in code mode -/
theorem nextToken_estart (l : LX) (w : l.WF) (hin : l.inside = false) (h0 : l.ch = 60)
    (h1 : l.input.getD (l.pos + 1) 0 = 37) (h2 : l.input.getD (l.pos + 2) 0 = 61) :
    l.nextToken.1 = { type := .E_START, lit := b "<%=", line := l.line }
      ∧ l.nextToken.2.pos = l.pos + 3 ∧ l.nextToken.2.inside = true ∧ l.nextToken.2.WF
      ∧ l.nextToken.2.input = l.input := by
  have hpk : l.peekChar = 37 := by rw [peekChar_eq w, h1]
  have wi := wf_setInside w true
  have w1 := readChar_wf wi
  have w2 := readChar_wf w1
  have w3 := readChar_wf w2
  have hc0 : (l.ch == 0) = false := by rw [h0]; decide
  have htag : (l.ch == 60 && l.peekChar == 37) = true := by rw [h0, hpk]; decide
  unfold nextToken
  simp only [hin, hc0, htag, Bool.false_eq_true, if_false, if_true]
  rw [show l.input.size + 2 = (l.input.size + 1) + 1 from rfl]
  rw [nextInside_estart _ _ wi h0 h1 h2]
  refine ⟨rfl, ?_, rfl, w3, rfl⟩
  show ({ l with inside := true } : LX).readChar.readChar.readChar.pos = l.pos + 3
  rw [readChar_pos' w2, readChar_pos' w1, readChar_pos' wi]

set_option maxRecDepth 8000 in
/-- in code mode on `%>`: the token is E_END, two bytes are consumed, the scanner is back in text mode -/
theorem nextToken_eend (l : LX) (w : l.WF) (hin : l.inside = true) (h0 : l.ch = 37)
    (h1 : l.input.getD (l.pos + 1) 0 = 62) :
    l.nextToken.1 = { type := .E_END, lit := b "%>", line := l.line }
      ∧ l.nextToken.2.pos = l.pos + 2 ∧ l.nextToken.2.inside = false ∧ l.nextToken.2.WF
      ∧ l.nextToken.2.input = l.input := by
  have hpk : l.peekChar = 62 := by rw [peekChar_eq w, h1]
  have hws : l.skipWhitespace = l := skipWhitespace_id _ (by rw [h0]; decide)
  have wi := wf_setInside w false
  have w1 := readChar_wf wi
  have w2 := readChar_wf w1
  unfold nextToken
  simp only [hin, if_true]
  rw [show l.input.size + 2 = (l.input.size + 1) + 1 from rfl]
  unfold nextInsideToken
  simp only [hws]
  simp (config := { decide := true }) only [h0, hpk, two, finish, if_true, if_false]
  simp only [h0] at wi w1 w2
  refine ⟨trivial, ?_, rfl, w2, rfl⟩
  rw [readChar_pos' w1, readChar_pos' wi]

end LX

open LX

/-- **the token stream of `<%="…"%>`**: E_START, the STRING whose literal is the content, E_END, then EOF for ever -/
theorem tokens_outTag (c : Bytes) (hno : ∀ x ∈ c, x ≠ 0 ∧ x ≠ 92) :
    ∃ l0 l1 l2 l3, 
      tokenAt 0 (LX.new (outTagSrc c).toArray) = { type := .E_START, lit := b "<%=", line := l0 } ∧
      tokenAt 1 (LX.new (outTagSrc c).toArray) = { type := .STRING, lit := c, line := l1 } ∧
      tokenAt 2 (LX.new (outTagSrc c).toArray) = { type := .E_END, lit := b "%>", line := l2 } ∧
      ∀ k, tokenAt (k + 3) (LX.new (outTagSrc c).toArray) = { type := .EOF, lit := [], line := l3 } := by
  generalize ha : (outTagSrc c).toArray = a
  have hsz : a.size = 7 + (escQ c).length := by rw [← ha]; simpa using outTagSrc_length c
  have hh := outTag_head c; rw [ha] at hh
  have hsp := outTag_spells c; rw [ha] at hsp
  have ht := outTag_tail c; rw [ha] at ht
  have w0 := new_wf a
  have s1 := nextToken_estart (LX.new a) w0 rfl hh.1 hh.2.1 hh.2.2.1
  have p1 : (LX.new a).nextToken.2.pos = 3 := s1.2.1
  have i1 : (LX.new a).nextToken.2.input = a := s1.2.2.2.2
  have c1 : (LX.new a).nextToken.2.ch = 34 := by rw [s1.2.2.2.1.ch, p1, i1]; exact hh.2.2.2
  have s2 := nextToken_string _ s1.2.2.2.1 s1.2.2.1 c1 c hno (by rw [p1, i1]; exact hsp)
  have a2 := (nextToken_spec _ s1.2.2.2.1).1
  have i2 : (LX.new a).nextToken.2.nextToken.2.input = a := by rw [a2.input, i1]
  have p2 : (LX.new a).nextToken.2.nextToken.2.pos = 5 + (escQ c).length := by rw [s2.2.1, p1]
  have c2 : (LX.new a).nextToken.2.nextToken.2.ch = 37 := by rw [s2.2.2.2.ch, p2, i2]; exact ht.1
  have s3 := nextToken_eend _ s2.2.2.2 s2.2.2.1 c2 (by rw [p2, i2]; have := ht.2; rwa [show 6 + (escQ c).length = 5 + (escQ c).length + 1 by omega] at this)
  have p3 : (LX.new a).nextToken.2.nextToken.2.nextToken.2.pos = 7 + (escQ c).length := by rw [s3.2.1, p2]; omega
  have d3 : (LX.new a).nextToken.2.nextToken.2.nextToken.2.Done := Or.inr (by rw [s3.2.2.2.2, i2, p3, hsz]; exact Nat.le_refl _)
  refine ⟨(LX.new a).line, (LX.new a).nextToken.2.line, (LX.new a).nextToken.2.nextToken.2.line,
    (LX.new a).nextToken.2.nextToken.2.nextToken.2.line, ?_, ?_, ?_, ?_⟩
  · simp only [tokenAt, stateAfter]; exact s1.1
  · simp only [tokenAt, stateAfter]; exact s2.1
  · simp only [tokenAt, stateAfter]; exact s3.1
  · intro k
    have := (done_forever k _ s3.2.2.2.1 d3).2.2
    simp only [tokenAt, stateAfter] at this ⊢
    exact this

end Plush
