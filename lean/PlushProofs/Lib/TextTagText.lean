import PlushProofs.Lib.OutTagRender
import PlushProofs.Lib.PlainRender
/-!
  `pre ++ <%="…"%> ++ post` : literal text, an output tag, literal text — rendered in source order.
-/
namespace Plush
namespace LX

/-- a region of literal text: no NUL, no tag opener, no escaped opener, from the cursor up to `e` -/
def TextRegion (a : Array UInt8) (p e : Nat) : Prop :=
  ∀ i, p ≤ i → i < e → a.getD i 0 ≠ 0 ∧ ¬ (a.getD i 0 = 60 ∧ a.getD (i + 1) 0 = 37)
    ∧ ¬ (a.getD i 0 = 92 ∧ a.getD (i + 1) 0 = 60 ∧ a.getD (i + 2) 0 = 37)

/-- the text loop runs through a text region and stops ON the tag opener that follows it, switching to code mode -/
theorem readHTMLLoop_to_tag (position e : Nat) :
    ∀ (fuel : Nat) (l : LX), l.WF → l.pos ≤ e → e - l.pos < fuel → TextRegion l.input l.pos e →
      l.input.getD e 0 = 60 → l.input.getD (e + 1) 0 = 37 →
      (readHTMLLoop position fuel l).1 = none ∧ (readHTMLLoop position fuel l).2.pos = e
        ∧ (readHTMLLoop position fuel l).2.WF ∧ (readHTMLLoop position fuel l).2.input = l.input
        ∧ (readHTMLLoop position fuel l).2.inside = true := by
  intro fuel
  induction fuel with
  | zero => intro l _ _ h; omega
  | succ n ih =>
    intro l w hle hf hr h60 h37
    unfold readHTMLLoop
    by_cases he : l.pos = e
    · have hch : l.ch = 60 := by rw [w.ch, he, h60]
      have hpk : l.peekChar = 37 := by rw [peekChar_eq w, he, h37]
      have hc0 : (l.ch != 0) = true := by rw [hch]; decide
      have hesc : (l.ch == 92 && l.peekChar == 60 && l.peekCharAt 2 == 37) = false := by rw [hch]; rfl
      have htag : (l.ch == 60 && l.peekChar == 37) = true := by rw [hch, hpk]; decide
      simp only [hc0, hesc, htag, if_true, if_false, Bool.false_eq_true]
      exact ⟨trivial, he, wf_setInside w true, trivial, trivial⟩
    · have hlt : l.pos < e := by omega
      have hi := hr l.pos (Nat.le_refl _) hlt
      have hc : l.ch ≠ 0 := by rw [w.ch]; exact hi.1
      have w1 := readChar_wf w
      have hp1 : l.readChar.pos = l.pos + 1 := readChar_pos' w
      simp only [bne_iff_ne, ne_eq, hc, not_false_eq_true, if_true]
      have hesc : (l.ch == 92 && l.peekChar == 60 && l.peekCharAt 2 == 37) = false := by
        apply Bool.eq_false_iff.mpr
        intro h
        simp only [Bool.and_eq_true, beq_iff_eq] at h
        apply hi.2.2
        exact ⟨by rw [← w.ch]; exact h.1.1, by rw [← peekChar_eq w]; exact h.1.2, by rw [peekCharAt_eq] at h; exact h.2⟩
      have htag : (l.ch == 60 && l.peekChar == 37) = false := by
        apply Bool.eq_false_iff.mpr
        intro h
        simp only [Bool.and_eq_true, beq_iff_eq] at h
        apply hi.2.1
        exact ⟨by rw [← w.ch]; exact h.1, by rw [← peekChar_eq w]; exact h.2⟩
      simp only [hesc, htag, Bool.false_eq_true, if_false]
      have := ih l.readChar w1 (by rw [hp1]; omega) (by rw [hp1]; omega)
        (fun i h1 h2 => hr i (by rw [hp1] at h1; omega) h2) h60 h37
      exact this

/-- the text loop runs through a trailing text region to the end of the input -/
theorem readHTMLLoop_to_end (position : Nat) :
    ∀ (fuel : Nat) (l : LX), l.WF → l.pos ≤ l.input.size → l.input.size - l.pos < fuel →
      TextRegion l.input l.pos l.input.size →
      (readHTMLLoop position fuel l).1 = none ∧ (readHTMLLoop position fuel l).2.pos = l.input.size
        ∧ (readHTMLLoop position fuel l).2.WF ∧ (readHTMLLoop position fuel l).2.input = l.input
        ∧ (readHTMLLoop position fuel l).2.inside = l.inside := by
  intro fuel
  induction fuel with
  | zero => intro l _ _ h; omega
  | succ n ih =>
    intro l w hle hf hr
    unfold readHTMLLoop
    by_cases he : l.pos = l.input.size
    · have hch : l.ch = 0 := w.ch_zero (by omega)
      simp [hch]
      exact ⟨he, w⟩
    · have hlt : l.pos < l.input.size := by omega
      have hi := hr l.pos (Nat.le_refl _) hlt
      have hc : l.ch ≠ 0 := by rw [w.ch]; exact hi.1
      have w1 := readChar_wf w
      have hp1 : l.readChar.pos = l.pos + 1 := readChar_pos' w
      simp only [bne_iff_ne, ne_eq, hc, not_false_eq_true, if_true]
      have hesc : (l.ch == 92 && l.peekChar == 60 && l.peekCharAt 2 == 37) = false := by
        apply Bool.eq_false_iff.mpr
        intro h
        simp only [Bool.and_eq_true, beq_iff_eq] at h
        apply hi.2.2
        exact ⟨by rw [← w.ch]; exact h.1.1, by rw [← peekChar_eq w]; exact h.1.2, by rw [peekCharAt_eq] at h; exact h.2⟩
      have htag : (l.ch == 60 && l.peekChar == 37) = false := by
        apply Bool.eq_false_iff.mpr
        intro h
        simp only [Bool.and_eq_true, beq_iff_eq] at h
        apply hi.2.1
        exact ⟨by rw [← w.ch]; exact h.1, by rw [← peekChar_eq w]; exact h.2⟩
      simp only [hesc, htag, Bool.false_eq_true, if_false]
      have := ih l.readChar w1 (by rw [hp1]; simp; omega) (by rw [hp1]; simp; omega)
        (fun i h1 h2 => hr i (by rw [hp1] at h1; omega) (by simpa using h2))
      exact ⟨this.1, by simpa using this.2.1, this.2.2.1, by simpa using this.2.2.2.1, by simpa using this.2.2.2.2⟩


/-- in text mode, in front of a text region that is followed by a tag opener: ONE HTML token holding the region -/
theorem nextToken_text_to_tag (l : LX) (w : l.WF) (hin : l.inside = false) (e : Nat) (hlt : l.pos < e)
    (hr : TextRegion l.input l.pos e) (h60 : l.input.getD e 0 = 60) (h37 : l.input.getD (e + 1) 0 = 37)
    (hrep : replaceAll [92, 60, 37] [60, 37] (l.input.extract l.pos e).toList = (l.input.extract l.pos e).toList) :
    ∃ ln, l.nextToken.1 = { type := .HTML, lit := (l.input.extract l.pos e).toList, line := ln }
      ∧ l.nextToken.2.pos = e ∧ l.nextToken.2.inside = true ∧ l.nextToken.2.WF ∧ l.nextToken.2.input = l.input := by
  have hi := hr l.pos (Nat.le_refl _) hlt
  have hc' : (l.ch == 0) = false := by rw [w.ch]; simpa using hi.1
  have htag : (l.ch == 60 && l.peekChar == 37) = false := by
    apply Bool.eq_false_iff.mpr
    intro h
    simp only [Bool.and_eq_true, beq_iff_eq] at h
    exact hi.2.1 ⟨by rw [← w.ch]; exact h.1, by rw [← peekChar_eq w]; exact h.2⟩
  have hes : e < l.input.size := getD_ne_zero_lt (by rw [h60]; decide)
  have hl := readHTMLLoop_to_tag l.pos e (l.input.size + 2) l w (by omega) (by omega) hr h60 h37
  refine ⟨(readHTMLLoop l.pos (l.input.size + 2) l).2.line, ?_⟩
  unfold nextToken
  simp only [hin, Bool.false_eq_true, if_false, hc', htag]
  unfold readHTML
  dsimp only
  generalize readHTMLLoop l.pos (l.input.size + 2) l = res at hl ⊢
  obtain ⟨o, l'⟩ := res
  simp only at hl
  obtain ⟨rfl, h1, h2, h3, h4⟩ := hl
  have hsl : l'.slice l.pos l'.pos = ((l.input.extract l.pos e).toList, l') := by
    have : l.pos ≤ e ∧ e ≤ l.input.size := ⟨by omega, by omega⟩
    simp only [slice, h1, h3, this, and_self, if_true]
  simp only [hsl, hrep]
  exact ⟨trivial, h1, h4, h2, h3⟩

/-- in text mode, in front of a trailing text region: ONE HTML token holding it; the scan is then over -/
theorem nextToken_text_to_end (l : LX) (w : l.WF) (hin : l.inside = false) (hlt : l.pos < l.input.size)
    (hr : TextRegion l.input l.pos l.input.size)
    (hrep : replaceAll [92, 60, 37] [60, 37] (l.input.extract l.pos l.input.size).toList
      = (l.input.extract l.pos l.input.size).toList) :
    ∃ ln, l.nextToken.1 = { type := .HTML, lit := (l.input.extract l.pos l.input.size).toList, line := ln }
      ∧ l.nextToken.2.WF ∧ l.nextToken.2.Done := by
  have hi := hr l.pos (Nat.le_refl _) hlt
  have hc' : (l.ch == 0) = false := by rw [w.ch]; simpa using hi.1
  have htag : (l.ch == 60 && l.peekChar == 37) = false := by
    apply Bool.eq_false_iff.mpr
    intro h
    simp only [Bool.and_eq_true, beq_iff_eq] at h
    exact hi.2.1 ⟨by rw [← w.ch]; exact h.1, by rw [← peekChar_eq w]; exact h.2⟩
  have hl := readHTMLLoop_to_end l.pos (l.input.size + 2) l w (by omega) (by omega) hr
  refine ⟨(readHTMLLoop l.pos (l.input.size + 2) l).2.line, ?_⟩
  unfold nextToken
  simp only [hin, Bool.false_eq_true, if_false, hc', htag]
  unfold readHTML
  dsimp only
  generalize readHTMLLoop l.pos (l.input.size + 2) l = res at hl ⊢
  obtain ⟨o, l'⟩ := res
  simp only at hl
  obtain ⟨rfl, h1, h2, h3, h4⟩ := hl
  have hsl : l'.slice l.pos l'.pos = ((l.input.extract l.pos l.input.size).toList, l') := by
    have : l.pos ≤ l.input.size ∧ l.input.size ≤ l.input.size := ⟨by omega, Nat.le_refl _⟩
    simp only [slice, h1, h3, this, and_self, if_true]
  simp only [hsl, hrep]
  exact ⟨trivial, h2, Or.inr (by rw [h3, h1]; exact Nat.le_refl _)⟩

/-- `<%=` met in code mode (the text scanner has already switched modes on the opener) -/
theorem nextToken_estart_inside (l : LX) (w : l.WF) (hin : l.inside = true) (h0 : l.ch = 60)
    (h1 : l.input.getD (l.pos + 1) 0 = 37) (h2 : l.input.getD (l.pos + 2) 0 = 61) :
    l.nextToken.1 = { type := .E_START, lit := b "<%=", line := l.line }
      ∧ l.nextToken.2.pos = l.pos + 3 ∧ l.nextToken.2.inside = true ∧ l.nextToken.2.WF
      ∧ l.nextToken.2.input = l.input := by
  have wi := wf_setInside w true
  have w1 := readChar_wf wi
  have w2 := readChar_wf w1
  have w3 := readChar_wf w2
  unfold nextToken
  simp only [hin, if_true]
  rw [show l.input.size + 2 = (l.input.size + 1) + 1 from rfl]
  rw [nextInside_estart _ _ w h0 h1 h2]
  refine ⟨rfl, ?_, rfl, w3, rfl⟩
  show ({ l with inside := true } : LX).readChar.readChar.readChar.pos = l.pos + 3
  rw [readChar_pos' w2, readChar_pos' w1, readChar_pos' wi]


/-- literal text as a byte list: no NUL, no tag opener -/
structure PlainL (t : Bytes) : Prop where
  nonul : ∀ i, i < t.length → t.getD i 0 ≠ 0
  notag : ∀ i, ¬ (t.getD i 0 = 60 ∧ t.getD (i + 1) 0 = 37)

theorem getD_append_left' (x y : Bytes) (i : Nat) (h : i < x.length) : (x ++ y).getD i 0 = x.getD i 0 := by
  simp [List.getD_eq_getElem?_getD, List.getElem?_append_left h]

theorem getD_append_right' (x y : Bytes) (j : Nat) : (x ++ y).getD (x.length + j) 0 = y.getD j 0 := by
  simp [List.getD_eq_getElem?_getD, List.getElem?_append_right]

theorem getD_ge (x : Bytes) (i : Nat) (h : x.length ≤ i) : x.getD i 0 = 0 := by
  simp [List.getD_eq_getElem?_getD, List.getElem?_eq_none h]

/-- the template: text, an output tag holding a string literal, text -/
def ttSrc (pre c post : Bytes) : Bytes := pre ++ (outTagSrc c ++ post)

theorem tt_pre (pre c post : Bytes) (i : Nat) (h : i < pre.length) :
    (ttSrc pre c post).toArray.getD i 0 = pre.getD i 0 := by
  rw [getD_toArray]; exact getD_append_left' _ _ i h

theorem tt_mid (pre c post : Bytes) (j : Nat) (h : j < (outTagSrc c).length) :
    (ttSrc pre c post).toArray.getD (pre.length + j) 0 = (outTagSrc c).toArray.getD j 0 := by
  rw [getD_toArray, getD_toArray, ttSrc, getD_append_right', getD_append_left' _ _ j h]

theorem tt_post (pre c post : Bytes) (k : Nat) :
    (ttSrc pre c post).toArray.getD (pre.length + (outTagSrc c).length + k) 0 = post.getD k 0 := by
  rw [getD_toArray, ttSrc, Nat.add_assoc, getD_append_right', getD_append_right']

theorem tt_size (pre c post : Bytes) :
    (ttSrc pre c post).toArray.size = pre.length + (outTagSrc c).length + post.length := by
  simp [ttSrc]; omega

theorem tt_region_pre (pre c post : Bytes) (hp : PlainL pre) (hlast : pre.getD (pre.length - 1) 0 ≠ 92) :
    TextRegion (ttSrc pre c post).toArray 0 pre.length := by
  intro i _ hi
  have hM : 0 < (outTagSrc c).length := by rw [outTagSrc_length]; omega
  have hP : (ttSrc pre c post).toArray.getD pre.length 0 = 60 := by
    have := tt_mid pre c post 0 hM; rw [Nat.add_zero] at this; rw [this]; exact (outTag_head c).1
  have g : ∀ j, j < pre.length → (ttSrc pre c post).toArray.getD j 0 = pre.getD j 0 := fun j hj => tt_pre pre c post j hj
  refine ⟨by rw [g i hi]; exact hp.nonul i hi, ?_, ?_⟩
  · intro h
    by_cases h1 : i + 1 < pre.length
    · exact hp.notag i ⟨by rw [← g i hi]; exact h.1, by rw [← g _ h1]; exact h.2⟩
    · have : i + 1 = pre.length := by omega
      rw [this, hP] at h; exact absurd h.2 (by decide)
  · intro h
    by_cases h2 : i + 2 < pre.length
    · exact hp.notag (i + 1) ⟨by rw [← g _ (by omega)]; exact h.2.1, by rw [← g _ h2]; exact h.2.2⟩
    · by_cases h1 : i + 1 < pre.length
      · have : i + 2 = pre.length := by omega
        rw [this, hP] at h; exact absurd h.2.2 (by decide)
      · have : i = pre.length - 1 := by omega
        rw [g i hi, this] at h; exact hlast h.1

theorem tt_region_post (pre c post : Bytes) (hq : PlainL post) :
    TextRegion (ttSrc pre c post).toArray (pre.length + (outTagSrc c).length) (ttSrc pre c post).toArray.size := by
  intro i h1 h2
  obtain ⟨k, rfl⟩ : ∃ k, i = pre.length + (outTagSrc c).length + k := ⟨i - (pre.length + (outTagSrc c).length), by omega⟩
  rw [tt_size] at h2
  have e1 : pre.length + (outTagSrc c).length + k + 1 = pre.length + (outTagSrc c).length + (k + 1) := by omega
  have e2 : pre.length + (outTagSrc c).length + k + 2 = pre.length + (outTagSrc c).length + (k + 2) := by omega
  rw [e1, e2, tt_post, tt_post, tt_post]
  refine ⟨hq.nonul k (by omega), hq.notag k, fun h => hq.notag (k + 1) ⟨h.2.1, h.2.2⟩⟩

theorem plainL_replace (t : Bytes) (h : PlainL t) : replaceAll [92, 60, 37] [60, 37] t = t :=
  replaceAll_plain t h.notag

theorem spells_of_getD (a : Array UInt8) (k : Nat) (body : Bytes) (h : ∀ j, j < body.length → a.getD (k + j) 0 = body.getD j 0) :
    Spells a k body := by
  intro j hj
  rw [h j hj]; simp [List.getD_eq_getElem?_getD, List.getElem?_eq_getElem hj]

end LX
end Plush

namespace Plush
open LX

/-- **the token stream of `pre <%="…"%> post`**: HTML `pre`, E_START, STRING `c`, E_END, HTML `post`, then EOF for ever -/
theorem tokens_tt (pre c post : Bytes) (hp : PlainL pre) (hpne : pre ≠ []) (hlast : pre.getD (pre.length - 1) 0 ≠ 92)
    (hq : PlainL post) (hqne : post ≠ []) (hno : ∀ x ∈ c, x ≠ 0 ∧ x ≠ 92) :
    ∃ l0 l1 l2 l3 l4 l5,
      tokenAt 0 (LX.new (ttSrc pre c post).toArray) = { type := .HTML, lit := pre, line := l0 } ∧
      tokenAt 1 (LX.new (ttSrc pre c post).toArray) = { type := .E_START, lit := b "<%=", line := l1 } ∧
      tokenAt 2 (LX.new (ttSrc pre c post).toArray) = { type := .STRING, lit := c, line := l2 } ∧
      tokenAt 3 (LX.new (ttSrc pre c post).toArray) = { type := .E_END, lit := b "%>", line := l3 } ∧
      tokenAt 4 (LX.new (ttSrc pre c post).toArray) = { type := .HTML, lit := post, line := l4 } ∧
      ∀ k, tokenAt (k + 5) (LX.new (ttSrc pre c post).toArray) = { type := .EOF, lit := [], line := l5 } := by
  have hPpos : 0 < pre.length := List.length_pos_iff.mpr hpne
  have hQpos : 0 < post.length := List.length_pos_iff.mpr hqne
  have hM := outTagSrc_length c
  have mid : ∀ j, j < (outTagSrc c).length → (ttSrc pre c post).toArray.getD (pre.length + j) 0 = (outTagSrc c).toArray.getD j 0 :=
    fun j hj => tt_mid pre c post j hj
  have hsz := tt_size pre c post
  have rpre := tt_region_pre pre c post hp hlast
  have rpost := tt_region_post pre c post hq
  have hh := outTag_head c
  have ht := outTag_tail c
  have hsp := outTag_spells c
  have expre : ((ttSrc pre c post).toArray.extract 0 pre.length).toList = pre := by
    have := spells_extract (ttSrc pre c post).toArray pre 0
      (spells_of_getD _ 0 pre (fun j hj => by rw [Nat.zero_add]; exact tt_pre pre c post j hj)) (by rw [hsz]; omega)
    simpa using this
  have expost : ((ttSrc pre c post).toArray.extract (pre.length + (outTagSrc c).length) (ttSrc pre c post).toArray.size).toList = post := by
    have := spells_extract (ttSrc pre c post).toArray post (pre.length + (outTagSrc c).length)
      (spells_of_getD _ _ post (fun j _ => tt_post pre c post j)) (by rw [hsz]; omega)
    rw [hsz]; exact this
  generalize (ttSrc pre c post).toArray = a at *
  have w0 := new_wf a
  suffices hsuf : ∃ l0 l1 l2 l3 l4 l5,
      (LX.new a).nextToken.1 = { type := .HTML, lit := pre, line := l0 } ∧
      (LX.new a).nextToken.2.nextToken.1 = { type := .E_START, lit := b "<%=", line := l1 } ∧
      (LX.new a).nextToken.2.nextToken.2.nextToken.1 = { type := .STRING, lit := c, line := l2 } ∧
      (LX.new a).nextToken.2.nextToken.2.nextToken.2.nextToken.1 = { type := .E_END, lit := b "%>", line := l3 } ∧
      (LX.new a).nextToken.2.nextToken.2.nextToken.2.nextToken.2.nextToken.1 = { type := .HTML, lit := post, line := l4 } ∧
      ∀ k, tokenAt k (LX.new a).nextToken.2.nextToken.2.nextToken.2.nextToken.2.nextToken.2 = { type := .EOF, lit := [], line := l5 } by
    obtain ⟨l0, l1, l2, l3, l4, l5, g0, g1, g2, g3, g4, g5⟩ := hsuf
    refine ⟨l0, l1, l2, l3, l4, l5, ?_, ?_, ?_, ?_, ?_, ?_⟩
    · simp only [tokenAt, stateAfter]; exact g0
    · simp only [tokenAt, stateAfter]; exact g1
    · simp only [tokenAt, stateAfter]; exact g2
    · simp only [tokenAt, stateAfter]; exact g3
    · simp only [tokenAt, stateAfter]; exact g4
    · intro k
      have := g5 k
      simp only [tokenAt] at this ⊢
      rw [show k + 5 = 5 + k by omega, stateAfter_add]
      simp only [stateAfter]
      exact this
  -- token 0: the text in front
  obtain ⟨n0, t0, p1, in1, w1, i1⟩ := nextToken_text_to_tag (LX.new a) w0 rfl pre.length hPpos rpre
    (by have := mid 0 (by omega); rw [Nat.add_zero] at this; show a.getD pre.length 0 = 60; rw [this]; exact hh.1)
    (by show a.getD (pre.length + 1) 0 = 37; rw [mid 1 (by omega)]; exact hh.2.1)
    (by show replaceAll [92, 60, 37] [60, 37] (a.extract 0 pre.length).toList = (a.extract 0 pre.length).toList
        rw [expre]; exact plainL_replace pre hp)
  have i1' : (LX.new a).nextToken.2.input = a := i1
  have t0' : (LX.new a).nextToken.1 = { type := .HTML, lit := pre, line := n0 } := by
    rw [t0]; show ({ type := .HTML, lit := (a.extract 0 pre.length).toList, line := n0 } : Token) = _; rw [expre]
  generalize (LX.new a).nextToken.2 = s1 at *
  -- token 1: <%=
  have c1 : s1.ch = 60 := by
    rw [w1.ch, p1, i1']; have := mid 0 (by omega); rw [Nat.add_zero] at this; rw [this]; exact hh.1
  have t1 := nextToken_estart_inside s1 w1 in1 c1
    (by rw [p1, i1', mid 1 (by omega)]; exact hh.2.1) (by rw [p1, i1', mid 2 (by omega)]; exact hh.2.2.1)
  obtain ⟨t1, p2, in2, w2, i2⟩ := t1
  rw [i1'] at i2
  rw [p1] at p2
  generalize s1.nextToken.2 = s2 at *
  -- token 2: the string
  have c2 : s2.ch = 34 := by rw [w2.ch, p2, i2, mid 3 (by omega)]; exact hh.2.2.2
  have sp2 : Spells s2.input (s2.pos + 1) (escQ c ++ [34]) := by
    rw [i2, p2]
    intro j hj
    have hj' : j < (escQ c).length + 1 := by simpa using hj
    have := hsp j hj
    rw [← this, ← mid (4 + j) (by omega)]
    congr 1; omega
  obtain ⟨t2, p3, in3, w3⟩ := nextToken_string s2 w2 in2 c2 c hno sp2
  have i3 : s2.nextToken.2.input = a := by rw [(nextToken_spec s2 w2).1.input, i2]
  rw [p2] at p3
  generalize s2.nextToken.2 = s3 at *
  -- token 3: %>
  have c3 : s3.ch = 37 := by
    rw [w3.ch, p3, i3]
    have := mid (5 + (escQ c).length) (by omega)
    rw [show pre.length + 3 + 2 + (escQ c).length = pre.length + (5 + (escQ c).length) by omega, this]; exact ht.1
  obtain ⟨t3, p4, in4, w4, i4⟩ := nextToken_eend s3 w3 in3 c3
    (by rw [p3, i3]
        have := mid (6 + (escQ c).length) (by omega)
        rw [show pre.length + 3 + 2 + (escQ c).length + 1 = pre.length + (6 + (escQ c).length) by omega, this]; exact ht.2)
  rw [i3] at i4
  rw [p3] at p4
  generalize s3.nextToken.2 = s4 at *
  -- token 4: the text behind
  have p4' : s4.pos = pre.length + (outTagSrc c).length := by rw [p4, hM]; omega
  obtain ⟨n4, t4, w5, d5⟩ := nextToken_text_to_end s4 w4 in4 (by rw [p4', i4, hsz]; omega)
    (by rw [i4, p4']; exact rpost)
    (by rw [i4, p4', expost]; exact plainL_replace post hq)
  rw [i4, p4', expost] at t4
  refine ⟨n0, _, _, _, n4, s4.nextToken.2.line, t0', t1, t2, t3, t4, ?_⟩
  intro k
  have := (done_forever k _ w5 d5).2.2
  simp only [tokenAt] at this ⊢
  exact this

end Plush

namespace Plush
open LX

theorem lexN_length' (n : Nat) (l : LX) : (lexN n l).length = n := by
  induction n generalizing l with
  | zero => rfl
  | succ k ih => simp [lexN, ih]

namespace P

/-- the parser's view of `pre <%="…"%> post`: three statements — the text, the output statement, the text — in source order -/
theorem parse_tt (pre c post : Bytes) (hp : PlainL pre) (hpne : pre ≠ []) (hlast : pre.getD (pre.length - 1) 0 ≠ 92)
    (hq : PlainL post) (hqne : post ≠ []) (hno : ∀ x ∈ c, x ≠ 0 ∧ x ≠ 92) :
    ∃ h0 t1 t2 h4 : Token, 
      parseBytes (ttSrc pre c post) = .ok ({ stmts := [.es h0 (some (.html h0 pre)), .ret true t1 (some (.str t2 c)),
        .es h4 (some (.html h4 post))] }, #[]) := by
  obtain ⟨l0, l1, l2, l3, l4, l5, g0, g1, g2, g3, g4, gk⟩ := tokens_tt pre c post hp hpne hlast hq hqne hno
  refine ⟨{ type := .HTML, lit := pre, line := l0 }, { type := .E_START, lit := b "<%=", line := l1 },
    { type := .STRING, lit := c, line := l2 }, { type := .HTML, lit := post, line := l4 }, ?_⟩
  unfold parseBytes parseToks
  simp only
  generalize (ttSrc pre c post).toArray = a at *
  generalize hs0 : ({ toks := lexAll a, eof := (lexAll a).back?.getD { type := .EOF, lit := [], line := 1 } } : PS) = s0
  have htok : ∀ i, tokAt s0 i = tokenAt i (LX.new a) := by
    intro i; rw [← hs0]; exact lexAll_is_stream a i
  have hpos : s0.pos = 0 := by rw [← hs0]
  have herr : s0.errs = #[] := by rw [← hs0]
  have key : OK (programLoop ((lexAll a).size + 4) (parseFuel (lexAll a).size) []) s0
      (fun r s' => r = [.es { type := .HTML, lit := pre, line := l0 } (some (.html { type := .HTML, lit := pre, line := l0 } pre)),
          .ret true { type := .E_START, lit := b "<%=", line := l1 } (some (.str { type := .STRING, lit := c, line := l2 } c)),
          .es { type := .HTML, lit := post, line := l4 } (some (.html { type := .HTML, lit := post, line := l4 } post))]
          ∧ s'.errs = #[]) := by
    obtain ⟨K, hK⟩ : ∃ K, parseFuel (lexAll a).size = K + 5 := ⟨64 * (lexAll a).size + 27, by simp [parseFuel]⟩
    obtain ⟨N, hN⟩ : ∃ N, (lexAll a).size + 4 = N + 5 := ⟨a.size + 1, by simp [lexAll, lexN_length']⟩
    rw [hK, hN]
    have h0' : tokAt s0 0 = { type := .HTML, lit := pre, line := l0 } := by rw [htok, g0]
    have h1' : tokAt s0 1 = { type := .E_START, lit := b "<%=", line := l1 } := by rw [htok, g1]
    have h2' : tokAt s0 2 = { type := .STRING, lit := c, line := l2 } := by rw [htok, g2]
    have h3' : tokAt s0 3 = { type := .E_END, lit := b "%>", line := l3 } := by rw [htok, g3]
    have h4' : tokAt s0 4 = { type := .HTML, lit := post, line := l4 } := by rw [htok, g4]
    have h5' : tokAt s0 5 = { type := .EOF, lit := [], line := l5 } := by rw [htok]; exact gk 0
    have hfnH : lookupLast TT.HTML Gen.prefixFns = some .parseHTMLLiteral := by decide
    have hfnS : lookupLast TT.STRING Gen.prefixFns = some .parseStringLiteral := by decide
    have hfnE : lookupLast TT.E_END Gen.prefixFns = some .returnNil := by decide
    have hp1 : precOf TT.E_START = Gen.LOWEST := by decide
    have hp2 : precOf TT.E_END = Gen.LOWEST := by decide
    have hp3 : precOf TT.HTML = Gen.LOWEST := by decide
    have hp4 : precOf TT.EOF = Gen.LOWEST := by decide
    have e1 : (TT.HTML == TT.EOF) = false := by decide
    have e2 : (TT.HTML == TT.LET) = false := by decide
    have e3 : (TT.E_START == TT.SEMICOLON) = false := by decide
    have e4 : decide (Gen.LOWEST < Gen.LOWEST) = false := by decide
    have e5 : (TT.EOF == TT.EOF) = true := by decide
    have e6 : (TT.E_START == TT.EOF) = false := by decide
    have e7 : (TT.STRING == TT.LET) = false := by decide
    have e8 : (TT.E_END == TT.SEMICOLON) = false := by decide
    have e9 : (TT.E_END == TT.EOF) = false := by decide
    have e10 : (TT.E_END == TT.LET) = false := by decide
    have e11 : (TT.HTML == TT.SEMICOLON) = false := by decide
    have e12 : (TT.EOF == TT.SEMICOLON) = false := by decide
    have hta : ∀ p e f i, tokAt { toks := s0.toks, eof := s0.eof, pos := p, errs := e, inFor := f } i = tokAt s0 i :=
      fun _ _ _ _ => rfl
    have hnb : ∀ t v, nonBlank (pStmt (.ret true t v)) = true := by intro t v; simp [pStmt, nonBlank]
    have hnb2 : ∀ t, nonBlank (pStmt (.es t none)) = false := by intro t; simp [pStmt, optStr, nonBlank]
    unfold programLoop
    simp only [OK_bind, OK_curIs, hpos, h0', OK_ite]
    simp only [hta, hnb, hnb2, Nat.reduceAdd, parseStatement_eq, parseReturnStatement_eq, parseExpressionStatement_eq,
      parseExpression_eq, runPrefix_eq, infixLoop_eq,
      OK_bind, OK_cur, OK_curIs, OK_pure, hpos, h0', h1', h2', h3', h4', h5', hfnH, hfnS, hfnE, OK_ite, OK_peekIs, OK_peekPrecedence,
      Nat.zero_add, hp1, hp2, hp3, hp4,
      OK_skipSemicolon, OK_nextTok, e1, e2, e3, e4, e5, e6, e7, e8, e9, e10, e11, e12, Bool.not_false, Bool.and_false, Bool.false_eq_true,
      if_false, if_true, List.nil_append]
    unfold programLoop
    simp only [hta, hnb, hnb2, Nat.reduceAdd, parseStatement_eq, parseReturnStatement_eq, parseExpressionStatement_eq,
      parseExpression_eq, runPrefix_eq, infixLoop_eq,
      OK_bind, OK_cur, OK_curIs, OK_pure, hpos, h0', h1', h2', h3', h4', h5', hfnH, hfnS, hfnE, OK_ite, OK_peekIs, OK_peekPrecedence,
      Nat.zero_add, hp1, hp2, hp3, hp4,
      OK_skipSemicolon, OK_nextTok, e1, e2, e3, e4, e5, e6, e7, e8, e9, e10, e11, e12, Bool.not_false, Bool.not_true, Bool.and_false, Bool.false_eq_true,
      if_false, if_true, List.nil_append, List.cons_append, List.append_assoc]
    unfold programLoop
    simp only [hta, hnb, hnb2, Nat.reduceAdd, parseStatement_eq, parseReturnStatement_eq, parseExpressionStatement_eq,
      parseExpression_eq, runPrefix_eq, infixLoop_eq,
      OK_bind, OK_cur, OK_curIs, OK_pure, hpos, h0', h1', h2', h3', h4', h5', hfnH, hfnS, hfnE, OK_ite, OK_peekIs, OK_peekPrecedence,
      Nat.zero_add, hp1, hp2, hp3, hp4,
      OK_skipSemicolon, OK_nextTok, e1, e2, e3, e4, e5, e6, e7, e8, e9, e10, e11, e12, Bool.not_false, Bool.not_true, Bool.and_false, Bool.false_eq_true,
      if_false, if_true, List.nil_append, List.cons_append, List.append_assoc]
    unfold programLoop
    simp only [hta, hnb, hnb2, Nat.reduceAdd, parseStatement_eq, parseReturnStatement_eq, parseExpressionStatement_eq,
      parseExpression_eq, runPrefix_eq, infixLoop_eq,
      OK_bind, OK_cur, OK_curIs, OK_pure, hpos, h0', h1', h2', h3', h4', h5', hfnH, hfnS, hfnE, OK_ite, OK_peekIs, OK_peekPrecedence,
      Nat.zero_add, hp1, hp2, hp3, hp4,
      OK_skipSemicolon, OK_nextTok, e1, e2, e3, e4, e5, e6, e7, e8, e9, e10, e11, e12, Bool.not_false, Bool.not_true, Bool.and_false, Bool.false_eq_true,
      if_false, if_true, List.nil_append, List.cons_append, List.append_assoc]
    unfold programLoop
    simp only [hta, hnb, hnb2, Nat.reduceAdd, parseStatement_eq, parseReturnStatement_eq, parseExpressionStatement_eq,
      parseExpression_eq, runPrefix_eq, infixLoop_eq,
      OK_bind, OK_cur, OK_curIs, OK_pure, hpos, h0', h1', h2', h3', h4', h5', hfnH, hfnS, hfnE, OK_ite, OK_peekIs, OK_peekPrecedence,
      Nat.zero_add, hp1, hp2, hp3, hp4,
      OK_skipSemicolon, OK_nextTok, e1, e2, e3, e4, e5, e6, e7, e8, e9, e10, e11, e12, Bool.not_false, Bool.not_true, Bool.and_false, Bool.false_eq_true,
      if_false, if_true, List.nil_append, List.cons_append, List.append_assoc]
    exact ⟨trivial, herr⟩
  obtain ⟨r, s', hrun, hr, he⟩ := key
  simp only [StateT.run]
  rw [hrun, hr]
  simp only [he]

end P

open EM

/-- END TO END: `pre <%="…"%> post` renders to `pre ++ htmlEscape c ++ post` — the literal text byte for byte, the value of
    the output tag between them, in source order — in any context, leaving the evaluator state as it was. -/
theorem render_tt (pre c post : Bytes) (hp : PlainL pre) (hpne : pre ≠ []) (hlast : pre.getD (pre.length - 1) 0 ≠ 92)
    (hq : PlainL post) (hqne : post ≠ []) (hno : ∀ x ∈ c, x ≠ 0 ∧ x ≠ 92) (fuel ctx : Nat) (s : ES) :
    renderIn (fuel + 5) (ttSrc pre c post) ctx s = (.ok (pre ++ htmlEscape c ++ post), s) := by
  obtain ⟨h0, t1, t2, h4, hparse⟩ := P.parse_tt pre c post hp hpne hlast hq hqne hno
  simp [renderIn, hparse, compileStmts, evalExpr, bind, getCur, getS, setCur, modifyS, attempt, pure, renderVal, writeVal,
    flattenChunks, Chunk.flatten]

theorem renderTop_tt (pre c post : Bytes) (hp : PlainL pre) (hpne : pre ≠ []) (hlast : pre.getD (pre.length - 1) 0 ≠ 92)
    (hq : PlainL post) (hqne : post ≠ []) (hno : ∀ x ∈ c, x ≠ 0 ∧ x ≠ 92) (data : List (Bytes × Val))
    (heap : Array HeapObj) (feeder : List (Bytes × Bytes)) :
    (renderTop (ttSrc pre c post) data heap feeder).1 = .ok (pre ++ htmlEscape c ++ post) := by
  unfold renderTop
  simp only
  obtain ⟨k, hk⟩ : ∃ k, evalFuel (ttSrc pre c post) = k + 5 := ⟨40 * (ttSrc pre c post).length + 395, by simp [evalFuel]⟩
  rw [hk, render_tt pre c post hp hpne hlast hq hqne hno]

end Plush
