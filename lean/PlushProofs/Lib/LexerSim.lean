import PlushProofs.Lib.LexerTotal
/-!
  Suffix determinism of the scanner inside a tag: what `NextToken` does depends only on the bytes from the
  cursor on — not on what precedes them, not on the absolute position, not on the line.
-/
namespace Plush
namespace LX

/-- two scanner states (possibly over different inputs) that see the same bytes from the cursor on -/
structure Sim (l l' : LX) : Prop where
  wf : l.WF
  wf' : l'.WF
  view : ∀ k, l.input.getD (l.pos + k) 0 = l'.input.getD (l'.pos + k) 0
  inside : l.inside = l'.inside
  /-- the same number of bytes left (Go's `skipWhitespace` and `readChar` test `readPosition >= len(input)`) -/
  rem : l.input.size - l.pos = l'.input.size - l'.pos

theorem Sim.ch {l l' : LX} (h : Sim l l') : l.ch = l'.ch := by
  rw [h.wf.ch, h.wf'.ch]; simpa using h.view 0

theorem Sim.peek {l l' : LX} (h : Sim l l') : l.peekChar = l'.peekChar := by
  rw [peekChar_eq h.wf, peekChar_eq h.wf']; exact h.view 1

theorem Sim.readChar {l l' : LX} (h : Sim l l') : Sim l.readChar l'.readChar := by
  refine ⟨readChar_wf h.wf, readChar_wf h.wf', ?_, by simpa using h.inside, ?_⟩
  · intro k
    simp only [readChar_input, readChar_pos, h.wf.rp, h.wf'.rp]
    have := h.view (1 + k)
    simpa [Nat.add_assoc] using this
  · simp only [readChar_input, readChar_pos, h.wf.rp, h.wf'.rp]
    have := h.rem
    omega

theorem Sim.setInside {l l' : LX} (h : Sim l l') (v : Bool) :
    Sim { l with inside := v } { l' with inside := v } :=
  ⟨wf_setInside h.wf v, wf_setInside h.wf' v, h.view, rfl, h.rem⟩

/-- the same advance on both sides -/
def SameAdv (l l' r r' : LX) : Prop := r.pos - l.pos = r'.pos - l'.pos ∧ l.pos ≤ r.pos ∧ l'.pos ≤ r'.pos

theorem readWhile_sim (p : UInt8 → Bool) (hp : p 0 = false) :
    ∀ (f f' : Nat) (l l' : LX), Sim l l' → l.pos ≤ l.input.size → l'.pos ≤ l'.input.size →
      l.input.size - l.pos < f → l'.input.size - l'.pos < f' →
      Sim (readWhile p f l) (readWhile p f' l') ∧ SameAdv l l' (readWhile p f l) (readWhile p f' l') := by
  intro f
  induction f with
  | zero => intro f' l l' _ _ _ h; omega
  | succ n ih =>
    intro f' l l' hs hle hle' hf hf'
    cases f' with
    | zero => omega
    | succ n' =>
      unfold readWhile
      rw [← hs.ch]
      by_cases hc : p l.ch = true
      · simp only [hc, if_true]
        have hne : l.ch ≠ 0 := by intro h0; rw [h0, hp] at hc; exact Bool.noConfusion hc
        have hne' : l'.ch ≠ 0 := by rw [← hs.ch]; exact hne
        have hlt := hs.wf.lt_of_ne hne
        have hlt' := hs.wf'.lt_of_ne hne'
        have p1 := readChar_pos' hs.wf
        have p1' := readChar_pos' hs.wf'
        have := ih n' l.readChar l'.readChar hs.readChar (by rw [p1, readChar_input]; omega) (by rw [p1', readChar_input]; omega)
          (by rw [p1, readChar_input]; omega) (by rw [p1', readChar_input]; omega)
        refine ⟨this.1, ?_⟩
        have := this.2
        unfold SameAdv at *
        rw [p1, p1'] at this
        omega
      · have hc' := Bool.eq_false_iff.mpr hc
        simp only [hc', Bool.false_eq_true, if_false]
        exact ⟨hs, by unfold SameAdv; omega⟩

theorem extract_eq (a a' : Array UInt8) (i i' n : Nat) (hv : ∀ k, a.getD (i + k) 0 = a'.getD (i' + k) 0)
    (h : i + n ≤ a.size) (h' : i' + n ≤ a'.size) :
    (a.extract i (i + n)).toList = (a'.extract i' (i' + n)).toList := by
  apply List.ext_getElem
  · simp; omega
  · intro k h1 h2
    have hk : k < n := by simp at h1; omega
    simp only [Array.getElem_toList, Array.getElem_extract]
    have := hv k
    simp only [Array.getD, show i + k < a.size by omega, show i' + k < a'.size by omega, dite_true] at this
    exact this

/-- a successful slice on both sides yields the same bytes -/
theorem slice_sim {l l' : LX} (a a' e e' : Nat) (hv : ∀ k, l.input.getD (a + k) 0 = l'.input.getD (a' + k) 0)
    (hlen : e - a = e' - a') (h1 : a ≤ e) (h1' : a' ≤ e') (h2 : e ≤ l.input.size) (h2' : e' ≤ l'.input.size) :
    (l.slice a e).1 = (l'.slice a' e').1 := by
  simp only [slice, h1, h2, h1', h2', and_self, if_true]
  have := extract_eq l.input l'.input a a' (e - a) hv (by omega) (by omega)
  rw [show a + (e - a) = e by omega, show a' + (e - a) = e' by omega] at this
  exact this

theorem skipWhitespace_sim {l l' : LX} (hs : Sim l l') :
    Sim l.skipWhitespace l'.skipWhitespace ∧ SameAdv l l' l.skipWhitespace l'.skipWhitespace := by
  have hr := hs.rem
  by_cases h : l.input.size ≤ l.pos
  · have h' : l'.input.size ≤ l'.pos := by omega
    rw [(skipWhitespace_spec l hs.wf).2.2.2.2 h, (skipWhitespace_spec l' hs.wf').2.2.2.2 h']
    exact ⟨hs, by unfold SameAdv; omega⟩
  · unfold skipWhitespace
    rw [skipWsLoop_eq, skipWsLoop_eq]
    exact readWhile_sim Gen.isWhitespace isWhitespace_zero _ _ l l' hs (by omega) (by omega) (by omega) (by omega)

theorem SameAdv.trans {a a' c c' d d' : LX} (h1 : SameAdv a a' c c') (h2 : SameAdv c c' d d') : SameAdv a a' d d' := by
  unfold SameAdv at *; omega

theorem readIdentifier_sim {l l' : LX} (hs : Sim l l') (hlt : l.pos < l.input.size) :
    l.readIdentifier.1 = l'.readIdentifier.1 ∧ Sim l.readIdentifier.2 l'.readIdentifier.2 ∧
      SameAdv l l' l.readIdentifier.2 l'.readIdentifier.2 := by
  have hlt' : l'.pos < l'.input.size := by have := hs.rem; omega
  have sp := readWhile_spec (fun c => Gen.isLetter c || Gen.isDigit c) identClass_zero (l.input.size + 2) l hs.wf (by omega) (by omega)
  have sp' := readWhile_spec (fun c => Gen.isLetter c || Gen.isDigit c) identClass_zero (l'.input.size + 2) l' hs.wf' (by omega) (by omega)
  have sm := readWhile_sim (fun c => Gen.isLetter c || Gen.isDigit c) identClass_zero (l.input.size + 2) (l'.input.size + 2) l l' hs
    (by omega) (by omega) (by omega) (by omega)
  unfold readIdentifier
  simp only
  have e1 := slice_ok (readWhile (fun c => Gen.isLetter c || Gen.isDigit c) (l.input.size + 2) l) l.pos _ sp.1.pos (by rw [sp.1.input]; exact sp.2.1)
  have e1' := slice_ok (readWhile (fun c => Gen.isLetter c || Gen.isDigit c) (l'.input.size + 2) l') l'.pos _ sp'.1.pos (by rw [sp'.1.input]; exact sp'.2.1)
  refine ⟨?_, by rw [e1, e1']; exact sm.1, by rw [e1, e1']; exact sm.2⟩
  apply slice_sim
  · intro k; rw [sp.1.input, sp'.1.input]; exact hs.view k
  · exact sm.2.1
  · exact sp.1.pos
  · exact sp'.1.pos
  · rw [sp.1.input]; exact sp.2.1
  · rw [sp'.1.input]; exact sp'.2.1

theorem readNumber_sim {l l' : LX} (hs : Sim l l') (hlt : l.pos < l.input.size) :
    l.readNumber.1 = l'.readNumber.1 ∧ Sim l.readNumber.2 l'.readNumber.2 ∧
      SameAdv l l' l.readNumber.2 l'.readNumber.2 := by
  have hlt' : l'.pos < l'.input.size := by have := hs.rem; omega
  have sp := readWhile_spec (fun c => Gen.isDigit c || Gen.isDot c) numClass_zero (l.input.size + 2) l hs.wf (by omega) (by omega)
  have sp' := readWhile_spec (fun c => Gen.isDigit c || Gen.isDot c) numClass_zero (l'.input.size + 2) l' hs.wf' (by omega) (by omega)
  have sm := readWhile_sim (fun c => Gen.isDigit c || Gen.isDot c) numClass_zero (l.input.size + 2) (l'.input.size + 2) l l' hs
    (by omega) (by omega) (by omega) (by omega)
  unfold readNumber
  simp only
  have e1 := slice_ok (readWhile (fun c => Gen.isDigit c || Gen.isDot c) (l.input.size + 2) l) l.pos _ sp.1.pos (by rw [sp.1.input]; exact sp.2.1)
  have e1' := slice_ok (readWhile (fun c => Gen.isDigit c || Gen.isDot c) (l'.input.size + 2) l') l'.pos _ sp'.1.pos (by rw [sp'.1.input]; exact sp'.2.1)
  refine ⟨?_, by rw [e1, e1']; exact sm.1, by rw [e1, e1']; exact sm.2⟩
  apply slice_sim
  · intro k; rw [sp.1.input, sp'.1.input]; exact hs.view k
  · exact sm.2.1
  · exact sp.1.pos
  · exact sp'.1.pos
  · rw [sp.1.input]; exact sp.2.1
  · rw [sp'.1.input]; exact sp'.2.1

theorem SameAdv.refl (l l' : LX) : SameAdv l l' l l' := by unfold SameAdv; omega
theorem sameAdv_readChar {l l' : LX} (hs : Sim l l') : SameAdv l l' l.readChar l'.readChar := by
  unfold SameAdv; rw [readChar_pos' hs.wf, readChar_pos' hs.wf']; omega

theorem skipQuoteEscapes_sim :
    ∀ (f f' : Nat) (l l' : LX), Sim l l' → l.pos ≤ l.input.size → l'.pos ≤ l'.input.size →
      l.input.size - l.pos < f → l'.input.size - l'.pos < f' →
      Sim (skipQuoteEscapes f l) (skipQuoteEscapes f' l') ∧ SameAdv l l' (skipQuoteEscapes f l) (skipQuoteEscapes f' l') := by
  intro f
  induction f with
  | zero => intro f' l l' _ _ _ h; omega
  | succ n ih =>
    intro f' l l' hs hle hle' hf hf'
    cases f' with
    | zero => omega
    | succ n' =>
      unfold skipQuoteEscapes
      rw [← hs.ch, ← hs.peek]
      by_cases hc : (l.ch == 92 && l.peekChar == 34) = true
      · simp only [hc, if_true]
        have hpk : l.peekChar = 34 := by simp at hc; exact hc.2
        have hlt : l.pos + 1 < l.input.size := by
          apply Nat.lt_of_not_ge; intro hge
          rw [peekChar_eq hs.wf, getD_zero_of_ge _ _ hge] at hpk; exact absurd hpk (by decide)
        have hr := hs.rem
        have s2 := hs.readChar.readChar
        have a1 := sameAdv_readChar hs
        have a2 := sameAdv_readChar hs.readChar
        have p2 : l.readChar.readChar.pos = l.pos + 2 := by rw [readChar_pos' (readChar_wf hs.wf), readChar_pos' hs.wf]
        have p2' : l'.readChar.readChar.pos = l'.pos + 2 := by rw [readChar_pos' (readChar_wf hs.wf'), readChar_pos' hs.wf']
        have := ih n' _ _ s2 (by rw [p2]; simp; omega) (by rw [p2']; simp; omega) (by rw [p2]; simp; omega) (by rw [p2']; simp; omega)
        exact ⟨this.1, (a1.trans a2).trans this.2⟩
      · have hc' := Bool.eq_false_iff.mpr hc
        simp only [hc', Bool.false_eq_true, if_false]
        exact ⟨hs, SameAdv.refl _ _⟩

theorem readStringLoop_sim :
    ∀ (f f' : Nat) (l l' : LX), Sim l l' → l.pos ≤ l.input.size → l'.pos ≤ l'.input.size →
      l.input.size - l.pos < f → l'.input.size - l'.pos < f' →
      Sim (readStringLoop f l) (readStringLoop f' l') ∧ SameAdv l l' (readStringLoop f l) (readStringLoop f' l') := by
  intro f
  induction f with
  | zero => intro f' l l' _ _ _ h; omega
  | succ n ih =>
    intro f' l l' hs hle hle' hf hf'
    cases f' with
    | zero => omega
    | succ n' =>
      unfold readStringLoop
      rw [← hs.ch]
      by_cases hc : l.ch = 0
      · simp [hc]; exact ⟨hs, SameAdv.refl _ _⟩
      · have hlt := hs.wf.lt_of_ne hc
        have hr := hs.rem
        have hlt' : l'.pos < l'.input.size := by omega
        simp only [bne_iff_ne, ne_eq, hc, not_false_eq_true, if_true]
        have s1 := hs.readChar
        have p1 := readChar_pos' hs.wf
        have p1' := readChar_pos' hs.wf'
        have sq := skipQuoteEscapes_sim (l.readChar.input.size + 2) (l'.readChar.input.size + 2) _ _ s1
          (by rw [p1]; simp; omega) (by rw [p1']; simp; omega) (by omega) (by omega)
        have sp := skipQuoteEscapes_spec (l.readChar.input.size + 2) l.readChar (readChar_wf hs.wf) (by rw [p1]; simp; omega) (by omega)
        have sp' := skipQuoteEscapes_spec (l'.readChar.input.size + 2) l'.readChar (readChar_wf hs.wf') (by rw [p1']; simp; omega) (by omega)
        rw [← sq.1.ch]
        have a1 := (sameAdv_readChar hs).trans sq.2
        by_cases hq : ((skipQuoteEscapes (l.readChar.input.size + 2) l.readChar).ch == 34) = true
        · simp only [hq, if_true]
          exact ⟨sq.1, a1⟩
        · have hq' := Bool.eq_false_iff.mpr hq
          simp only [hq', Bool.false_eq_true, if_false]
          have hi : (skipQuoteEscapes (l.readChar.input.size + 2) l.readChar).input = l.input := sp.1.input
          have hi' : (skipQuoteEscapes (l'.readChar.input.size + 2) l'.readChar).input = l'.input := sp'.1.input
          have hp := sp.1.pos; have hp' := sp'.1.pos
          rw [p1] at hp; rw [p1'] at hp'
          have := ih n' _ _ sq.1 (by rw [hi]; simpa using sp.2.1) (by rw [hi']; simpa using sp'.2.1)
            (by rw [hi]; omega) (by rw [hi']; omega)
          exact ⟨this.1, a1.trans this.2⟩

theorem readString_sim {l l' : LX} (hs : Sim l l') (hq : l.ch ≠ 0) :
    l.readString.1 = l'.readString.1 ∧ Sim l.readString.2 l'.readString.2 ∧ SameAdv l l' l.readString.2 l'.readString.2 := by
  have hq' : l'.ch ≠ 0 := by rw [← hs.ch]; exact hq
  have hlt := hs.wf.lt_of_ne hq
  have hlt' := hs.wf'.lt_of_ne hq'
  have sp := readStringLoop_spec (l.input.size + 2) l hs.wf (by omega) (by omega)
  have sp' := readStringLoop_spec (l'.input.size + 2) l' hs.wf' (by omega) (by omega)
  have sm := readStringLoop_sim (l.input.size + 2) (l'.input.size + 2) l l' hs (by omega) (by omega) (by omega) (by omega)
  unfold readString
  simp only
  have e1 := slice_ok (readStringLoop (l.input.size + 2) l) (l.pos + 1) _ (sp.2.2.2.2 hq) (by rw [sp.1.input]; exact sp.2.1)
  have e1' := slice_ok (readStringLoop (l'.input.size + 2) l') (l'.pos + 1) _ (sp'.2.2.2.2 hq') (by rw [sp'.1.input]; exact sp'.2.1)
  have hsl : ((readStringLoop (l.input.size + 2) l).slice (l.pos + 1) (readStringLoop (l.input.size + 2) l).pos).1
      = ((readStringLoop (l'.input.size + 2) l').slice (l'.pos + 1) (readStringLoop (l'.input.size + 2) l').pos).1 := by
    apply slice_sim
    · intro k; rw [sp.1.input, sp'.1.input]
      have := hs.view (1 + k); simpa [Nat.add_assoc] using this
    · have := sm.2; unfold SameAdv at this; have h1 := sp.2.2.2.2 hq; have h2 := sp'.2.2.2.2 hq'; omega
    · exact sp.2.2.2.2 hq
    · exact sp'.2.2.2.2 hq'
    · rw [sp.1.input]; exact sp.2.1
    · rw [sp'.1.input]; exact sp'.2.1
  refine ⟨by rw [hsl], by rw [e1, e1']; exact sm.1, by rw [e1, e1']; exact sm.2⟩

theorem readBStringLoop_sim :
    ∀ (f f' : Nat) (l l' : LX), Sim l l' → l.pos ≤ l.input.size → l'.pos ≤ l'.input.size →
      l.input.size - l.pos < f → l'.input.size - l'.pos < f' →
      Sim (readBStringLoop f l) (readBStringLoop f' l') ∧ SameAdv l l' (readBStringLoop f l) (readBStringLoop f' l') := by
  intro f
  induction f with
  | zero => intro f' l l' _ _ _ h; omega
  | succ n ih =>
    intro f' l l' hs hle hle' hf hf'
    cases f' with
    | zero => omega
    | succ n' =>
      unfold readBStringLoop
      rw [← hs.ch]
      by_cases hc : l.ch = 0
      · simp [hc]; exact ⟨hs, SameAdv.refl _ _⟩
      · have hlt := hs.wf.lt_of_ne hc
        have hr := hs.rem
        simp only [bne_iff_ne, ne_eq, hc, not_false_eq_true, if_true]
        have s1 := hs.readChar
        have p1 := readChar_pos' hs.wf
        have p1' := readChar_pos' hs.wf'
        rw [← s1.ch]
        by_cases hq : (l.readChar.ch == 96) = true
        · simp only [hq, if_true]; exact ⟨s1, sameAdv_readChar hs⟩
        · have hq' := Bool.eq_false_iff.mpr hq
          simp only [hq', Bool.false_eq_true, if_false]
          have := ih n' _ _ s1 (by rw [p1]; simp; omega) (by rw [p1']; simp; omega) (by rw [p1]; simp; omega) (by rw [p1']; simp; omega)
          exact ⟨this.1, (sameAdv_readChar hs).trans this.2⟩

theorem readBString_sim {l l' : LX} (hs : Sim l l') (hq : l.ch ≠ 0) :
    l.readBString.1 = l'.readBString.1 ∧ Sim l.readBString.2 l'.readBString.2 ∧ SameAdv l l' l.readBString.2 l'.readBString.2 := by
  have hq' : l'.ch ≠ 0 := by rw [← hs.ch]; exact hq
  have hlt := hs.wf.lt_of_ne hq
  have hlt' := hs.wf'.lt_of_ne hq'
  have sp := readBStringLoop_spec (l.input.size + 2) l hs.wf (by omega) (by omega)
  have sp' := readBStringLoop_spec (l'.input.size + 2) l' hs.wf' (by omega) (by omega)
  have sm := readBStringLoop_sim (l.input.size + 2) (l'.input.size + 2) l l' hs (by omega) (by omega) (by omega) (by omega)
  unfold readBString
  simp only
  have e1 := slice_ok (readBStringLoop (l.input.size + 2) l) (l.pos + 1) _ (sp.2.2.2.2 hq) (by rw [sp.1.input]; exact sp.2.1)
  have e1' := slice_ok (readBStringLoop (l'.input.size + 2) l') (l'.pos + 1) _ (sp'.2.2.2.2 hq') (by rw [sp'.1.input]; exact sp'.2.1)
  refine ⟨?_, by rw [e1, e1']; exact sm.1, by rw [e1, e1']; exact sm.2⟩
  apply slice_sim
  · intro k; rw [sp.1.input, sp'.1.input]
    have := hs.view (1 + k); simpa [Nat.add_assoc] using this
  · have := sm.2; unfold SameAdv at this; have h1 := sp.2.2.2.2 hq; have h2 := sp'.2.2.2.2 hq'; omega
  · exact sp.2.2.2.2 hq
  · exact sp'.2.2.2.2 hq'
  · rw [sp.1.input]; exact sp.2.1
  · rw [sp'.1.input]; exact sp'.2.1

theorem skipLineComment_sim :
    ∀ (f f' : Nat) (l l' : LX), Sim l l' → l.pos ≤ l.input.size → l'.pos ≤ l'.input.size →
      l.input.size - l.pos < f → l'.input.size - l'.pos < f' →
      Sim (skipLineComment f l) (skipLineComment f' l') ∧ SameAdv l l' (skipLineComment f l) (skipLineComment f' l') := by
  intro f
  induction f with
  | zero => intro f' l l' _ _ _ h; omega
  | succ n ih =>
    intro f' l l' hs hle hle' hf hf'
    cases f' with
    | zero => omega
    | succ n' =>
      unfold skipLineComment
      rw [← hs.ch]
      by_cases hc : l.ch = 0
      · simp [hc]; exact ⟨hs, SameAdv.refl _ _⟩
      · have hlt := hs.wf.lt_of_ne hc
        have hr := hs.rem
        simp only [bne_iff_ne, ne_eq, hc, not_false_eq_true, if_true]
        have s1 := hs.readChar
        have p1 := readChar_pos' hs.wf
        have p1' := readChar_pos' hs.wf'
        rw [← s1.ch]
        by_cases hq : (l.readChar.ch == 10 || l.readChar.ch == 13) = true
        · simp only [hq, if_true]; exact ⟨s1, sameAdv_readChar hs⟩
        · have hq' := Bool.eq_false_iff.mpr hq
          simp only [hq', Bool.false_eq_true, if_false]
          have := ih n' _ _ s1 (by rw [p1]; simp; omega) (by rw [p1']; simp; omega) (by rw [p1]; simp; omega) (by rw [p1']; simp; omega)
          exact ⟨this.1, (sameAdv_readChar hs).trans this.2⟩

/-- two scan results that agree on the token (type and literal — not the line) and are again similar states -/
def TokSim (r r' : Token × LX) : Prop := r.1.type = r'.1.type ∧ r.1.lit = r'.1.lit ∧ Sim r.2 r'.2

theorem toksim_ite (c : Prop) [Decidable c] (a a' e e' : Token × LX)
    (h1 : c → TokSim a a') (h2 : ¬c → TokSim e e') : TokSim (if c then a else e) (if c then a' else e') := by
  by_cases h : c <;> simp [h, h1, h2]

theorem toksim_ite2 (c c' : Prop) [Decidable c] [Decidable c'] (a a' e e' : Token × LX) (hcc : c ↔ c')
    (h1 : c → TokSim a a') (h2 : ¬c → TokSim e e') : TokSim (if c then a else e) (if c' then a' else e') := by
  by_cases h : c
  · have h' := hcc.mp h; simp [h, h', h1]
  · have h' : ¬ c' := fun x => h (hcc.mpr x); simp [h, h', h2]

theorem toksim_finish {l l' : LX} (hs : Sim l l') (tok tok' : Token) (ht : tok.type = tok'.type) (hl : tok.lit = tok'.lit) :
    TokSim (finish tok l) (finish tok' l') := ⟨ht, hl, hs.readChar⟩

theorem toksim_newToken {l l' : LX} (hs : Sim l l') (t : TT) : TokSim (finish (l.newToken t) l) (finish (l'.newToken t) l') :=
  toksim_finish hs _ _ rfl (by simp [newToken, hs.ch])

theorem toksim_two {l l' : LX} (hs : Sim l l') (t : TT) (s : String) : TokSim (two l t s) (two l' t s) :=
  ⟨rfl, rfl, hs.readChar.readChar⟩

theorem numberToken_type_lit (lit : Bytes) (a c : Nat) :
    (numberToken lit a).type = (numberToken lit c).type ∧ (numberToken lit a).lit = (numberToken lit c).lit := by
  simp only [numberToken]
  by_cases h1 : (splitOn1 46 lit).length > 2
  · simp [h1]
  · by_cases h2 : ((splitOn1 46 lit).length == 2) = true <;> simp [h1, h2]

theorem toksim_string {l l' : LX} (hs : Sim l l') (h : (l.ch == 34) = true) (t : TT) (a c : Nat) :
    TokSim (finish { type := t, lit := l.readString.1, line := a } l.readString.2)
           (finish { type := t, lit := l'.readString.1, line := c } l'.readString.2) := by
  have := readString_sim hs (ne_zero_of_beq h (by decide))
  exact toksim_finish this.2.1 _ _ rfl this.1

theorem toksim_bstring {l l' : LX} (hs : Sim l l') (h : (l.ch == 96) = true) (t : TT) (a c : Nat) :
    TokSim (finish { type := t, lit := l.readBString.1, line := a } l.readBString.2)
           (finish { type := t, lit := l'.readBString.1, line := c } l'.readBString.2) := by
  have := readBString_sim hs (ne_zero_of_beq h (by decide))
  exact toksim_finish this.2.1 _ _ rfl this.1

theorem toksim_ident {l l' : LX} (hs : Sim l l') (h : Gen.isLetter l.ch = true) :
    TokSim ({ type := lookupIdent l.readIdentifier.1, lit := l.readIdentifier.1, line := l.readIdentifier.2.line }, l.readIdentifier.2)
           ({ type := lookupIdent l'.readIdentifier.1, lit := l'.readIdentifier.1, line := l'.readIdentifier.2.line }, l'.readIdentifier.2) := by
  have hne : l.ch ≠ 0 := by intro h0; rw [h0, isLetter_zero] at h; exact Bool.noConfusion h
  have := readIdentifier_sim hs (hs.wf.lt_of_ne hne)
  exact ⟨by simp [this.1], this.1, this.2.1⟩

theorem toksim_number {l l' : LX} (hs : Sim l l') (hne : l.ch ≠ 0) :
    TokSim (numberToken l.readNumber.1 l.readNumber.2.line, l.readNumber.2)
           (numberToken l'.readNumber.1 l'.readNumber.2.line, l'.readNumber.2) := by
  have := readNumber_sim hs (hs.wf.lt_of_ne hne)
  refine ⟨?_, ?_, this.2.1⟩
  · show (numberToken _ _).type = (numberToken _ _).type
    rw [this.1]; exact (numberToken_type_lit _ _ _).1
  · show (numberToken _ _).lit = (numberToken _ _).lit
    rw [this.1]; exact (numberToken_type_lit _ _ _).2

theorem isDigit_ne_zero {c : UInt8} (h : Gen.isDigit c = true) : c ≠ 0 := by
  intro h0; rw [h0, isDigit_zero] at h; exact Bool.noConfusion h

theorem toksim_reline (r r' : Token × LX) (a c : Nat) (h : TokSim r r') :
    TokSim ({ r.1 with line := a }, r.2) ({ r'.1 with line := c }, r'.2) := h

/-- SUFFIX DETERMINISM of tag-mode scanning: from two states that see the same bytes ahead (whatever lies
    behind them, at whatever offsets and line numbers), `NextToken` yields tokens of the same type and text
    and leaves two states that again see the same bytes ahead. -/
theorem nextInsideToken_sim :
    ∀ (f f' : Nat) (l l' : LX), Sim l l' → l.input.size - l.pos < f → l'.input.size - l'.pos < f' →
      TokSim (nextInsideToken f l) (nextInsideToken f' l') := by
  intro f
  induction f with
  | zero => intro f' l l' _ h; omega
  | succ n ih =>
    intro f' l l' hs hf hf'
    cases f' with
    | zero => omega
    | succ n' =>
      have sw := skipWhitespace_sim hs
      have sp := skipWhitespace_spec l hs.wf
      have sp' := skipWhitespace_spec l' hs.wf'
      unfold nextInsideToken
      simp only []
      generalize hl1 : l.skipWhitespace = l1 at sw sp ⊢
      generalize hl1' : l'.skipWhitespace = l1' at sw sp' ⊢
      have s1 := sw.1
      by_cases hc : (l1.ch == 35) = true
      · have hc1 : (l1'.ch == 35) = true := by rw [← s1.ch]; exact hc
        simp only [hc, hc1, if_true]
        have hne := ne_zero_of_beq hc (by decide)
        have hlt1 := s1.wf.lt_of_ne hne
        have hr := s1.rem
        have sl := skipLineComment_spec (l1.input.size + 2) l1 s1.wf (by omega) (by omega)
        have sl' := skipLineComment_spec (l1'.input.size + 2) l1' s1.wf' (by omega) (by omega)
        have sls := skipLineComment_sim (l1.input.size + 2) (l1'.input.size + 2) l1 l1' s1 (by omega) (by omega) (by omega) (by omega)
        have hgt := sl.2.2.2.2 hne
        have hne' : l1'.ch ≠ 0 := by rw [← s1.ch]; exact hne
        have hgt' := sl'.2.2.2.2 hne'
        have hi : l1.input = l.input := sp.1.input
        have hi' : l1'.input = l'.input := sp'.1.input
        have hp := sp.1.pos; have hp' := sp'.1.pos
        have e1 : (skipLineComment (l1.input.size + 2) l1).input.size = l.input.size := by rw [sl.1.input, hi]
        have e1' : (skipLineComment (l1'.input.size + 2) l1').input.size = l'.input.size := by rw [sl'.1.input, hi']
        have hz : l1.input.size = l.input.size := by rw [hi]
        have hz' : l1'.input.size = l'.input.size := by rw [hi']
        have hlt1' := s1.wf'.lt_of_ne hne'
        apply ih n' _ _ sls.1
        · rw [e1]; omega
        · rw [e1']; omega
      · have hc' := Bool.eq_false_iff.mpr hc
        have hc1' : (l1'.ch == 35) = false := by rw [← s1.ch]; exact hc'
        simp only [hc', hc1', Bool.false_eq_true, if_false]
        apply toksim_reline
        have ho : Sim ({ l1 with inside := true } : LX).readChar ({ l1' with inside := true } : LX).readChar := (s1.setInside true).readChar
        have ech := s1.ch
        have epk := s1.peek
        have eopk := ho.peek
        repeat' (first | (with_reducible apply toksim_ite2) | intro _)
        all_goals (with_reducible first
          | (rw [ech]; done) | (rw [epk]; done) | (rw [eopk]; done)
          | exact toksim_newToken s1 _ | exact toksim_two s1 _ _ | exact toksim_two (s1.setInside false) _ _
          | exact toksim_two ho _ _ | exact toksim_finish ho _ _ rfl rfl
          | exact toksim_string s1 ‹_› _ _ _ | exact toksim_bstring s1 ‹_› _ _ _
          | exact toksim_ident s1 ‹_›
          | exact toksim_number s1 (ne_zero_of_beq ‹(l1.ch == 46) = true› (by decide))
          | exact toksim_number s1 (isDigit_ne_zero ‹Gen.isDigit l1.ch = true›)
          | exact toksim_finish s1 _ _ rfl rfl
          | skip)

theorem Sim.refl {l : LX} (w : l.WF) : Sim l l := ⟨w, w, fun _ => rfl, rfl, rfl⟩

theorem Sim.trans {a c d : LX} (h1 : Sim a c) (h2 : Sim c d) : Sim a d :=
  ⟨h1.wf, h2.wf', fun k => (h1.view k).trans (h2.view k), h1.inside.trans h2.inside, h1.rem.trans h2.rem⟩

theorem TokSim.trans {a c d : Token × LX} (h1 : TokSim a c) (h2 : TokSim c d) : TokSim a d :=
  ⟨h1.1.trans h2.1, h1.2.1.trans h2.2.1, h1.2.2.trans h2.2.2⟩

/-- the budget of a class loop is irrelevant once it covers the bytes left -/
theorem readWhile_fuel (p : UInt8 → Bool) (hp : p 0 = false) :
    ∀ (f f' : Nat) (l : LX), l.WF → l.pos ≤ l.input.size → l.input.size - l.pos < f → l.input.size - l.pos < f' →
      readWhile p f l = readWhile p f' l := by
  intro f
  induction f with
  | zero => intro f' l _ _ h; omega
  | succ n ih =>
    intro f' l w hle hf hf'
    cases f' with
    | zero => omega
    | succ n' =>
      unfold readWhile
      by_cases hc : p l.ch = true
      · simp only [hc, if_true]
        have hne : l.ch ≠ 0 := by intro h0; rw [h0, hp] at hc; exact Bool.noConfusion hc
        have hlt := w.lt_of_ne hne
        have p1 := readChar_pos' w
        exact ih n' l.readChar (readChar_wf w) (by rw [p1]; simp; omega) (by rw [p1]; simp; omega) (by rw [p1]; simp; omega)
      · have hc' := Bool.eq_false_iff.mpr hc
        simp only [hc', Bool.false_eq_true, if_false]

/-- skipping one whitespace byte first changes nothing -/
theorem skipWhitespace_readChar (l : LX) (w : l.WF) (hws : Gen.isWhitespace l.ch = true) :
    l.skipWhitespace = l.readChar.skipWhitespace := by
  have hne : l.ch ≠ 0 := by intro h0; rw [h0, isWhitespace_zero] at hws; exact Bool.noConfusion hws
  have hlt := w.lt_of_ne hne
  have p1 := readChar_pos' w
  unfold skipWhitespace
  rw [skipWsLoop_eq, skipWsLoop_eq]
  conv => lhs; unfold readWhile
  simp only [hws, if_true, readChar_input]
  exact readWhile_fuel Gen.isWhitespace isWhitespace_zero _ _ l.readChar (readChar_wf w) (by rw [p1]; simp; omega)
    (by rw [p1]; simp; omega) (by rw [p1]; simp; omega)

theorem toksim_refl_of_prog {l : LX} {r : Token × LX} (h : Prog l r.2) : TokSim r r := ⟨rfl, rfl, Sim.refl h.1.wf⟩

/-- one whitespace byte in front of a token does not change the token -/
theorem nextInsideToken_ws_step (n n' : Nat) (l : LX) (w : l.WF) (hws : Gen.isWhitespace l.ch = true)
    (hf : l.input.size - l.pos < n + 1) (hf' : l.input.size - l.pos < n' + 1) :
    TokSim (nextInsideToken (n + 1) l) (nextInsideToken (n' + 1) l.readChar) := by
  have hsw := skipWhitespace_readChar l w hws
  have sp := skipWhitespace_spec l.readChar (readChar_wf w)
  have pr := nextInsideToken_spec (n' + 1) l.readChar (readChar_wf w) (by rw [readChar_pos' w]; simp; omega)
  have hne : l.ch ≠ 0 := by intro h0; rw [h0, isWhitespace_zero] at hws; exact Bool.noConfusion hws
  have hlt := w.lt_of_ne hne
  by_cases hc : (l.readChar.skipWhitespace.ch == 35) = true
  · -- a comment follows: both sides recurse (with different budgets) from the same state
    have e1 : nextInsideToken (n + 1) l = nextInsideToken n (skipLineComment (l.readChar.skipWhitespace.input.size + 2) l.readChar.skipWhitespace) := by
      conv => lhs; unfold nextInsideToken
      simp only [hsw, hc, if_true]
    have e2 : nextInsideToken (n' + 1) l.readChar = nextInsideToken n' (skipLineComment (l.readChar.skipWhitespace.input.size + 2) l.readChar.skipWhitespace) := by
      conv => lhs; unfold nextInsideToken
      simp only [hc, if_true]
    rw [e1, e2]
    have w1 := sp.1.wf
    have hne1 := ne_zero_of_beq hc (by decide)
    have hlt1 := w1.lt_of_ne hne1
    have hi : l.readChar.skipWhitespace.input = l.input := by rw [sp.1.input]; rfl
    have sl := skipLineComment_spec (l.readChar.skipWhitespace.input.size + 2) l.readChar.skipWhitespace w1 (by omega) (by omega)
    have hgt := sl.2.2.2.2 hne1
    have hp := sp.1.pos
    rw [readChar_pos' w] at hp
    have e3 : (skipLineComment (l.readChar.skipWhitespace.input.size + 2) l.readChar.skipWhitespace).input.size = l.input.size := by
      rw [sl.1.input, hi]
    have hz : l.readChar.skipWhitespace.input.size = l.input.size := by rw [hi]
    exact nextInsideToken_sim n n' _ _ (Sim.refl sl.1.wf) (by rw [e3]; omega) (by rw [e3]; omega)
  · have hc' := Bool.eq_false_iff.mpr hc
    have e : nextInsideToken (n + 1) l = nextInsideToken (n' + 1) l.readChar := by
      conv => lhs; unfold nextInsideToken
      conv => rhs; unfold nextInsideToken
      simp only [hsw, hc', Bool.false_eq_true, if_false]
    rw [e]
    exact toksim_refl_of_prog pr

/-- layout in front of a token inside a tag: whitespace bytes and `#` line comments -/
inductive Layout : LX → LX → Prop
  | here (l : LX) : Layout l l
  | ws (l m : LX) : Gen.isWhitespace l.ch = true → Layout l.readChar m → Layout l m
  | comment (l m : LX) : l.ch = 35 → Layout (skipLineComment (l.input.size + 2) l) m → Layout l m

/-- C18 (lexer): LAYOUT IS INSIGNIFICANT INSIDE A TAG. Whatever run of spaces, tabs, line ends and `#` comments
    stands in front of a token, the token (type and text) and what the scanner sees afterwards are the same as
    without it. -/
theorem layout_insignificant {l m : LX} (h : Layout l m) : ∀ (f f' : Nat), l.WF →
    l.input.size - l.pos < f → m.input.size - m.pos < f' → TokSim (nextInsideToken f l) (nextInsideToken f' m) := by
  induction h with
  | here l => intro f f' w hf hf'; exact nextInsideToken_sim f f' l l (Sim.refl w) hf hf'
  | ws l m hws _ ih =>
    intro f f' w hf hf'
    obtain ⟨n, rfl⟩ : ∃ n, f = n + 1 := ⟨f - 1, by omega⟩
    have h1 := nextInsideToken_ws_step n n l w hws hf hf
    have hne : l.ch ≠ 0 := by intro h0; rw [h0, isWhitespace_zero] at hws; exact Bool.noConfusion hws
    have hlt := w.lt_of_ne hne
    have h2 := ih (n + 1) f' (readChar_wf w) (by rw [readChar_pos' w]; simp; omega) hf'
    exact h1.trans h2
  | comment l m hc _ ih =>
    intro f f' w hf hf'
    obtain ⟨n, rfl⟩ : ∃ n, f = n + 1 := ⟨f - 1, by omega⟩
    have hne : l.ch ≠ 0 := by rw [hc]; decide
    have hlt := w.lt_of_ne hne
    have hnws : Gen.isWhitespace l.ch = false := by rw [hc]; decide
    have hsw : l.skipWhitespace = l := by
      unfold skipWhitespace; rw [skipWsLoop_eq]; unfold readWhile; simp [hnws]
    have hc35 : (l.ch == 35) = true := by rw [hc]; rfl
    have e1 : nextInsideToken (n + 1) l = nextInsideToken n (skipLineComment (l.input.size + 2) l) := by
      conv => lhs; unfold nextInsideToken
      simp only [hsw, hc35, if_true]
    rw [e1]
    have sl := skipLineComment_spec (l.input.size + 2) l w (by omega) (by omega)
    have hgt := sl.2.2.2.2 hne
    have e3 : (skipLineComment (l.input.size + 2) l).input.size = l.input.size := by rw [sl.1.input]
    exact ih n f' sl.1.wf (by rw [e3]; omega) hf'

end LX
end Plush
