import PlushModel
/-!
  C09, evaluator-wide: evaluating ANY expression, statement, block, loop, call, helper or partial leaves the
  current context (`c.ctx`) what it was — on success and on error.
-/
namespace Plush
open EM

def settledR {α} : R α → Prop
  | .fatal _ => False
  | _ => True

/-- `m` returns (value or error) with the context that was current when it started -/
def KeepsCur {α} (m : EM α) : Prop := ∀ s, settledR (m s).1 → (m s).2.cur = s.cur


theorem kc_pure {α} (a : α) : KeepsCur (Pure.pure a : EM α) := fun _ _ => rfl
theorem kc_throwErr {α} (e : Err) : KeepsCur (EM.throwErr e : EM α) := fun _ _ => rfl
theorem kc_fail {α} (k : String) : KeepsCur (EM.fail k : EM α) := fun _ _ => rfl
theorem kc_fatal {α} (f : Fatal) : KeepsCur (EM.fatal f : EM α) := fun _ h => by simp [EM.fatal, settledR] at h
theorem kc_unsupported {α} (w : String) : KeepsCur (EM.unsupported w : EM α) := kc_fatal _
theorem kc_getS : KeepsCur EM.getS := fun _ _ => rfl

theorem kc_bind {α β} {m : EM α} {f : α → EM β} (hm : KeepsCur m) (hf : ∀ a, KeepsCur (f a)) : KeepsCur (m >>= f) := by
  intro s hs
  show ((match m s with | (.ok a, s') => f a s' | (.err e, s') => (.err e, s') | (.fatal x, s') => (.fatal x, s')) : R β × ES).2.cur = s.cur
  have h1 := hm s
  change settledR ((match m s with | (.ok a, s') => f a s' | (.err e, s') => (.err e, s') | (.fatal x, s') => (.fatal x, s')) : R β × ES).1 at hs
  cases hms : m s with
  | mk r s' =>
    rw [hms] at h1 hs
    cases r with
    | ok a =>
      simp only at hs ⊢
      rw [hf a s' hs]; exact h1 trivial
    | err e => simp only at hs ⊢; exact h1 trivial
    | fatal x => simp [settledR] at hs

theorem kc_attempt {α} {m : EM α} (hm : KeepsCur m) : KeepsCur (EM.attempt m) := by
  intro s hs
  have h1 := hm s
  simp only [EM.attempt] at hs ⊢
  cases hms : m s with
  | mk r s' =>
    rw [hms] at h1 hs
    cases r with
    | ok a => exact h1 trivial
    | err e => exact h1 trivial
    | fatal x => simp [settledR] at hs

/-- a modification that does not touch `cur` -/
theorem kc_modifyS (f : ES → ES) (h : ∀ s, (f s).cur = s.cur) : KeepsCur (EM.modifyS f) := fun s _ => h s

/-- the scope combinator restores the context whatever its body does -/
theorem kc_withCtx {α} (c : Nat) (m : EM α) : KeepsCur (Plush.withCtx c m) := by
  intro s hs
  simp only [Plush.withCtx, Bind.bind, getCur, EM.getS, setCur, EM.modifyS, EM.attempt, Pure.pure] at hs ⊢
  cases hm : m { s with cur := c } with
  | mk res sm =>
    simp only [hm] at hs ⊢
    cases res with
    | ok a => rfl
    | err e => rfl
    | fatal f => simp [settledR] at hs

theorem kc_ctxHas (k : Bytes) : KeepsCur (Plush.ctxHas k) := kc_bind kc_getS (fun _ => kc_pure _)
theorem kc_ctxValue (k : Bytes) : KeepsCur (Plush.ctxValue k) := kc_bind kc_getS (fun _ => kc_pure _)
theorem kc_ctxSet (k : Bytes) (v : Val) : KeepsCur (Plush.ctxSet k v) := kc_modifyS _ (fun _ => rfl)
theorem kc_ctxSetIn (c : Nat) (k : Bytes) (v : Val) : KeepsCur (Plush.ctxSetIn c k v) := kc_modifyS _ (fun _ => rfl)
theorem kc_ctxNewChild (o : Nat) : KeepsCur (Plush.ctxNewChild o) := by
  intro s _
  unfold Plush.ctxNewChild
  cases s.store.newChild o
  rfl
theorem kc_getCur : KeepsCur Plush.getCur := kc_bind kc_getS (fun _ => kc_pure _)
theorem kc_copyFrame (a c : Nat) : KeepsCur (Plush.copyFrame a c) := by
  apply kc_modifyS; intro s; split <;> rfl
theorem kc_allocSlice (items : Array Val) : KeepsCur (Plush.allocSlice items) := fun _ _ => rfl
theorem kc_allocMap (es : List (Val × Val)) : KeepsCur (Plush.allocMap es) := fun _ _ => rfl
theorem kc_heapSet (a : Nat) (o : HeapObj) : KeepsCur (Plush.heapSet a o) := kc_modifyS _ (fun _ => rfl)
theorem kc_traceEv (e : String) : KeepsCur (Plush.traceEv e) := kc_modifyS _ (fun _ => rfl)


macro "kc_leaf1" : tactic =>
  `(tactic| with_reducible first
    | exact kc_ctxHas _ | exact kc_ctxValue _ | exact kc_ctxSet _ _ | exact kc_ctxSetIn _ _ _
    | exact kc_ctxNewChild _ | exact kc_getCur | exact kc_copyFrame _ _ | exact kc_allocSlice _
    | exact kc_allocMap _ | exact kc_heapSet _ _ | exact kc_traceEv _ | exact kc_getS)
macro "kc_leaf2" : tactic =>
  `(tactic| with_reducible first
    | exact kc_withCtx _ _
    | exact kc_fail _ | exact kc_throwErr _ | exact kc_unsupported _ | exact kc_fatal _ | exact kc_pure _
    | (apply kc_modifyS; intro _; rfl)
    | assumption)

/-- decomposes `KeepsCur m` along the structure of `m` -/
macro "keepscur" : tactic =>
  `(tactic| repeat (any_goals (first
    | split
    | kc_leaf1
    | kc_leaf2
    | refine kc_attempt ?_
    | refine kc_bind ?_ (fun _ => ?_)
    | dsimp only)))

theorem kc_heapSlice (a : Nat) : KeepsCur (Plush.heapSlice a) := by unfold Plush.heapSlice; keepscur
theorem kc_heapMap (a : Nat) : KeepsCur (Plush.heapMap a) := by unfold Plush.heapMap; keepscur
theorem kc_renderVal (v : Val) : KeepsCur (Plush.renderVal v) := by unfold Plush.renderVal; keepscur
theorem kc_applyOpOut (o : OpOut) (k : String) : KeepsCur (Plush.applyOpOut o k) := by unfold Plush.applyOpOut; keepscur

theorem kc_forM {α} (l : List α) (f : α → EM PUnit) (h : ∀ a, KeepsCur (f a)) : KeepsCur (l.forM f) := by
  induction l with
  | nil => exact kc_pure _
  | cons a as ih => exact kc_bind (h a) (fun _ => ih)

theorem kc_mapM_loop {α β} (f : α → EM β) (h : ∀ a, KeepsCur (f a)) : ∀ (l : List α) (acc : List β), KeepsCur (List.mapM.loop f l acc) := by
  intro l
  induction l with
  | nil => intro acc; exact kc_pure _
  | cons a as ih => intro acc; exact kc_bind (h a) (fun _ => ih _)

theorem kc_mapM {α β} (l : List α) (f : α → EM β) (h : ∀ a, KeepsCur (f a)) : KeepsCur (l.mapM f) :=
  kc_mapM_loop f h l []

theorem kc_applyInfix (op : Bytes) (l r : Val) : KeepsCur (applyInfix op l r) := by
  unfold applyInfix
  repeat (any_goals (first | split | exact kc_applyOpOut _ _ | kc_leaf1 | kc_leaf2 | refine kc_bind ?_ (fun _ => ?_) | dsimp only))
theorem kc_updateIndex (l i v : Val) : KeepsCur (updateIndex l i v) := by unfold updateIndex; keepscur
theorem kc_accessIndex (l i : Val) (h : Bool) : KeepsCur (accessIndex l i h) := by unfold accessIndex; keepscur
theorem kc_memberOf (c : Val) (name : Bytes) : KeepsCur (memberOf c name) := fun _ _ => rfl
theorem kc_mapKeyMissing (l i : Val) : KeepsCur (mapKeyMissing l i) := by unfold mapKeyMissing; keepscur

structure AllCur (n : Nat) : Prop where
  evalExpr : ∀ (a : Option Expr), KeepsCur (evalExpr n a)
  evalExprs : ∀ (a : List (Option Expr)), KeepsCur (evalExprs n a)
  evalHashPairs : ∀ (a : List (Option Expr × Option Expr)) (b : List (Val × Val)), KeepsCur (evalHashPairs n a b)
  evalIdent : ∀ (a : Ident), KeepsCur (evalIdent n a)
  evalInfix : ∀ (a : Bytes) (b : Option Expr) (c : Option Expr), KeepsCur (evalInfix n a b c)
  evalIf : ∀ (a : Option Expr) (b : Block) (c : List (Token × Option Expr × Block)) (d : Option Block), KeepsCur (evalIf n a b c d)
  evalElifs : ∀ (a : List (Token × Option Expr × Block)) (b : Option Block), KeepsCur (evalElifs n a b)
  evalBlock : ∀ (a : Block), KeepsCur (evalBlock n a)
  evalStmts : ∀ (a : List Stmt) (b : List Val), KeepsCur (evalStmts n a b)
  evalStmt : ∀ (a : Stmt), KeepsCur (evalStmt n a)
  evalStmtBody : ∀ (a : Stmt), KeepsCur (evalStmtBody n a)
  evalFor : ∀ (a : Bytes) (b : Bytes) (c : Option Expr) (d : Option Block), KeepsCur (evalFor n a b c d)
  forBody : ∀ (a : Bytes) (b : Bytes) (c : Option Expr) (d : Option Block), KeepsCur (forBody n a b c d)
  forItems : ∀ (a : Bytes) (b : Bytes) (c : Block) (d : List (Val × Val)) (e : List Val), KeepsCur (forItems n a b c d e)
  forRanger : ∀ (a : Bytes) (b : Bytes) (c : Block) (d : Gen.Ranger) (e : Nat) (f : List Val), KeepsCur (forRanger n a b c d e f)
  evalIndex : ∀ (a : Option Expr) (b : Option Expr) (c : Option Expr) (d : Option Expr), KeepsCur (evalIndex n a b c d)
  evalUserFn : ∀ (a : List Ident) (b : Block) (c : List (Option Expr)), KeepsCur (evalUserFn n a b c)
  fnBody : ∀ (a : List Ident) (b : List Val) (c : Block), KeepsCur (fnBody n a b c)
  evalCall : ∀ (a : Option Expr) (b : Option Expr) (c : Expr) (d : Option (List (Option Expr))) (e : Option Block), KeepsCur (evalCall n a b c d e)
  bindArgs : ∀ (a : String) (b : Sig) (c : List (Option Expr)) (d : Option Block), KeepsCur (bindArgs n a b c d)
  bindFixed : ∀ (a : Option Block) (b : List (Option Expr × Ty)) (c : List Val), KeepsCur (bindFixed n a b c)
  bindVariadic : ∀ (a : Ty) (b : List (Option Expr)) (c : List Val), KeepsCur (bindVariadic n a b c)
  blockWith : ∀ (a : Option Block) (b : Nat), KeepsCur (blockWith n a b)
  callHelper : ∀ (a : String) (b : List Val), KeepsCur (callHelper n a b)
  partialHelper : ∀ (a : Bytes) (b : List (Val × Val)) (c : Nat), KeepsCur (partialHelper n a b c)
  renderIn : ∀ (a : Bytes) (b : Nat), KeepsCur (renderIn n a b)
  compileStmts : ∀ (a : List Stmt) (b : Bytes), KeepsCur (compileStmts n a b)

macro "kc_ih1" ih:ident : tactic => `(tactic| first
    | (with_reducible apply ($ih).evalExpr)
    | (with_reducible apply ($ih).evalExprs)
    | (with_reducible apply ($ih).evalHashPairs)
    | (with_reducible apply ($ih).evalIdent)
    | (with_reducible apply ($ih).evalInfix)
    | (with_reducible apply ($ih).evalIf)
    | (with_reducible apply ($ih).evalElifs)
    | (with_reducible apply ($ih).evalBlock)
    | (with_reducible apply ($ih).evalStmts)
    | (with_reducible apply ($ih).evalStmt)
    | (with_reducible apply ($ih).evalStmtBody)
    | (with_reducible apply ($ih).evalFor)
    | (with_reducible apply ($ih).forBody)
    | (with_reducible apply ($ih).forItems))
macro "kc_ih2" ih:ident : tactic => `(tactic| first
    | (with_reducible apply ($ih).forRanger)
    | (with_reducible apply ($ih).evalIndex)
    | (with_reducible apply ($ih).evalUserFn)
    | (with_reducible apply ($ih).fnBody)
    | (with_reducible apply ($ih).evalCall)
    | (with_reducible apply ($ih).bindArgs)
    | (with_reducible apply ($ih).bindFixed)
    | (with_reducible apply ($ih).bindVariadic)
    | (with_reducible apply ($ih).blockWith)
    | (with_reducible apply ($ih).callHelper)
    | (with_reducible apply ($ih).partialHelper)
    | (with_reducible apply ($ih).renderIn)
    | (with_reducible apply ($ih).compileStmts))

macro "keepscur_ih" ih:ident : tactic =>
  `(tactic| repeat (any_goals (first
    | split
    | kc_leaf1
    | kc_leaf2
    | (have hfuel := Nat.succ.inj ‹_ + 1 = Nat.succ _›; subst hfuel)
    | kc_ih1 $ih
    | kc_ih2 $ih
    | exact kc_heapSlice _ | exact kc_heapMap _ | exact kc_renderVal _ | exact kc_applyOpOut _ _
    | exact kc_applyInfix _ _ _ | exact kc_updateIndex _ _ _ | exact kc_accessIndex _ _ _ | exact kc_memberOf _ _ | exact kc_mapKeyMissing _ _
    | (refine kc_forM _ _ (fun _ => ?_)) | (refine kc_mapM _ _ (fun _ => ?_))
    | refine kc_attempt ?_
    | refine kc_bind ?_ (fun _ => ?_)
    | dsimp only)))

theorem kcs_evalExpr (n : Nat) (ih : AllCur n) : ∀ a, KeepsCur (evalExpr (n+1) a) := by
  intro a; unfold evalExpr; keepscur_ih ih

theorem kcs_evalExprs (n : Nat) (ih : AllCur n) : ∀ a, KeepsCur (evalExprs (n+1) a) := by
  intro a; unfold evalExprs; keepscur_ih ih

theorem kcs_evalHashPairs (n : Nat) (ih : AllCur n) : ∀ a b, KeepsCur (evalHashPairs (n+1) a b) := by
  intro a b; unfold evalHashPairs; keepscur_ih ih

theorem kcs_evalIdent (n : Nat) (ih : AllCur n) : ∀ a, KeepsCur (evalIdent (n+1) a) := by
  intro a; unfold evalIdent; keepscur_ih ih

theorem kcs_evalInfix (n : Nat) (ih : AllCur n) : ∀ a b c, KeepsCur (evalInfix (n+1) a b c) := by
  intro a b c; unfold evalInfix; keepscur_ih ih

theorem kcs_evalIf (n : Nat) (ih : AllCur n) : ∀ a b c d, KeepsCur (evalIf (n+1) a b c d) := by
  intro a b c d; unfold evalIf; keepscur_ih ih

theorem kcs_evalElifs (n : Nat) (ih : AllCur n) : ∀ a b, KeepsCur (evalElifs (n+1) a b) := by
  intro a b; unfold evalElifs; keepscur_ih ih

theorem kcs_evalBlock (n : Nat) (ih : AllCur n) : ∀ a, KeepsCur (evalBlock (n+1) a) := by
  intro a; unfold evalBlock; keepscur_ih ih

theorem kcs_evalStmts (n : Nat) (ih : AllCur n) : ∀ a b, KeepsCur (evalStmts (n+1) a b) := by
  intro a b; unfold evalStmts; keepscur_ih ih

theorem kcs_evalStmt (n : Nat) (ih : AllCur n) : ∀ a, KeepsCur (evalStmt (n+1) a) := by
  intro a; unfold evalStmt; keepscur_ih ih

theorem kcs_evalStmtBody (n : Nat) (ih : AllCur n) : ∀ a, KeepsCur (evalStmtBody (n+1) a) := by
  intro a; unfold evalStmtBody; keepscur_ih ih

theorem kcs_evalFor (n : Nat) (ih : AllCur n) : ∀ a b c d, KeepsCur (evalFor (n+1) a b c d) := by
  intro a b c d; unfold evalFor; keepscur_ih ih

theorem kcs_forBody (n : Nat) (ih : AllCur n) : ∀ a b c d, KeepsCur (forBody (n+1) a b c d) := by
  intro a b c d; unfold forBody; keepscur_ih ih

theorem kcs_forItems (n : Nat) (ih : AllCur n) : ∀ a b c d e, KeepsCur (forItems (n+1) a b c d e) := by
  intro a b c d e; unfold forItems; keepscur_ih ih

theorem kcs_forRanger (n : Nat) (ih : AllCur n) : ∀ a b c d e f, KeepsCur (forRanger (n+1) a b c d e f) := by
  intro a b c d e f; unfold forRanger; keepscur_ih ih

theorem kcs_evalIndex (n : Nat) (ih : AllCur n) : ∀ a b c d, KeepsCur (evalIndex (n+1) a b c d) := by
  intro a b c d; unfold evalIndex; keepscur_ih ih

theorem kcs_evalUserFn (n : Nat) (ih : AllCur n) : ∀ a b c, KeepsCur (evalUserFn (n+1) a b c) := by
  intro a b c; unfold evalUserFn; keepscur_ih ih

theorem kcs_fnBody (n : Nat) (ih : AllCur n) : ∀ a b c, KeepsCur (fnBody (n+1) a b c) := by
  intro a b c; unfold fnBody; keepscur_ih ih

theorem kcs_evalCall (n : Nat) (ih : AllCur n) : ∀ a b c d e, KeepsCur (evalCall (n+1) a b c d e) := by
  intro a b c d e; unfold evalCall; keepscur_ih ih

theorem kcs_bindArgs (n : Nat) (ih : AllCur n) : ∀ a b c d, KeepsCur (bindArgs (n+1) a b c d) := by
  intro a b c d; unfold bindArgs; keepscur_ih ih

theorem kcs_bindFixed (n : Nat) (ih : AllCur n) : ∀ a b c, KeepsCur (bindFixed (n+1) a b c) := by
  intro a b c; unfold bindFixed; keepscur_ih ih

theorem kcs_bindVariadic (n : Nat) (ih : AllCur n) : ∀ a b c, KeepsCur (bindVariadic (n+1) a b c) := by
  intro a b c; unfold bindVariadic; keepscur_ih ih

theorem kcs_blockWith (n : Nat) (ih : AllCur n) : ∀ a b, KeepsCur (blockWith (n+1) a b) := by
  intro a b; unfold blockWith; keepscur_ih ih

theorem kcs_callHelper (n : Nat) (ih : AllCur n) : ∀ a b, KeepsCur (callHelper (n+1) a b) := by
  intro a b; unfold callHelper; keepscur_ih ih

theorem kcs_partialHelper (n : Nat) (ih : AllCur n) : ∀ a b c, KeepsCur (partialHelper (n+1) a b c) := by
  intro a b c; unfold partialHelper; keepscur_ih ih

theorem kcs_renderIn (n : Nat) (ih : AllCur n) : ∀ a b, KeepsCur (renderIn (n+1) a b) := by
  intro a b s hs
  have _ := ih
  unfold renderIn at hs ⊢
  cases hp : parseBytes a with
  | error f =>
    rw [hp] at hs
    cases f <;> simp [EM.fatal, settledR] at hs
  | ok pr =>
    obtain ⟨prog, errs⟩ := pr
    rw [hp] at hs
    simp only at hs ⊢
    by_cases he : (!errs.isEmpty) = true
    · simp only [he, if_true, EM.throwErr]
    · have he' := Bool.eq_false_iff.mpr he
      simp only [he', Bool.false_eq_true, if_false] at hs ⊢
      simp only [Bind.bind, Plush.getCur, EM.getS, Plush.setCur, EM.modifyS, EM.attempt, Pure.pure] at hs ⊢
      cases hm : compileStmts n prog.stmts [] { s with cur := b, curStmt := none } with
      | mk res sm =>
        try rw [hm] at hs
        cases res with
        | ok x => rfl
        | err e => rfl
        | fatal f => simp [settledR] at hs

theorem kcs_compileStmts (n : Nat) (ih : AllCur n) : ∀ a b, KeepsCur (compileStmts (n+1) a b) := by
  intro a b; unfold compileStmts; keepscur_ih ih

theorem kcz_evalExpr : ∀ a, KeepsCur (evalExpr 0 a) := by
  intro a; unfold evalExpr; keepscur

theorem kcz_evalExprs : ∀ a, KeepsCur (evalExprs 0 a) := by
  intro a; unfold evalExprs; keepscur

theorem kcz_evalHashPairs : ∀ a b, KeepsCur (evalHashPairs 0 a b) := by
  intro a b; unfold evalHashPairs; keepscur

theorem kcz_evalIdent : ∀ a, KeepsCur (evalIdent 0 a) := by
  intro a; unfold evalIdent; keepscur

theorem kcz_evalInfix : ∀ a b c, KeepsCur (evalInfix 0 a b c) := by
  intro a b c; unfold evalInfix; keepscur

theorem kcz_evalIf : ∀ a b c d, KeepsCur (evalIf 0 a b c d) := by
  intro a b c d; unfold evalIf; keepscur

theorem kcz_evalElifs : ∀ a b, KeepsCur (evalElifs 0 a b) := by
  intro a b; unfold evalElifs; keepscur

theorem kcz_evalBlock : ∀ a, KeepsCur (evalBlock 0 a) := by
  intro a; unfold evalBlock; keepscur

theorem kcz_evalStmts : ∀ a b, KeepsCur (evalStmts 0 a b) := by
  intro a b; unfold evalStmts; keepscur

theorem kcz_evalStmt : ∀ a, KeepsCur (evalStmt 0 a) := by
  intro a; unfold evalStmt; keepscur

theorem kcz_evalStmtBody : ∀ a, KeepsCur (evalStmtBody 0 a) := by
  intro a; unfold evalStmtBody; keepscur

theorem kcz_evalFor : ∀ a b c d, KeepsCur (evalFor 0 a b c d) := by
  intro a b c d; unfold evalFor; keepscur

theorem kcz_forBody : ∀ a b c d, KeepsCur (forBody 0 a b c d) := by
  intro a b c d; unfold forBody; keepscur

theorem kcz_forItems : ∀ a b c d e, KeepsCur (forItems 0 a b c d e) := by
  intro a b c d e; unfold forItems; keepscur

theorem kcz_forRanger : ∀ a b c d e f, KeepsCur (forRanger 0 a b c d e f) := by
  intro a b c d e f; unfold forRanger; keepscur

theorem kcz_evalIndex : ∀ a b c d, KeepsCur (evalIndex 0 a b c d) := by
  intro a b c d; unfold evalIndex; keepscur

theorem kcz_evalUserFn : ∀ a b c, KeepsCur (evalUserFn 0 a b c) := by
  intro a b c; unfold evalUserFn; keepscur

theorem kcz_fnBody : ∀ a b c, KeepsCur (fnBody 0 a b c) := by
  intro a b c; unfold fnBody; keepscur

theorem kcz_evalCall : ∀ a b c d e, KeepsCur (evalCall 0 a b c d e) := by
  intro a b c d e; unfold evalCall; keepscur

theorem kcz_bindArgs : ∀ a b c d, KeepsCur (bindArgs 0 a b c d) := by
  intro a b c d; unfold bindArgs; keepscur

theorem kcz_bindFixed : ∀ a b c, KeepsCur (bindFixed 0 a b c) := by
  intro a b c; unfold bindFixed; keepscur

theorem kcz_bindVariadic : ∀ a b c, KeepsCur (bindVariadic 0 a b c) := by
  intro a b c; unfold bindVariadic; keepscur

theorem kcz_blockWith : ∀ a b, KeepsCur (blockWith 0 a b) := by
  intro a b; unfold blockWith; keepscur

theorem kcz_callHelper : ∀ a b, KeepsCur (callHelper 0 a b) := by
  intro a b; unfold callHelper; keepscur

theorem kcz_partialHelper : ∀ a b c, KeepsCur (partialHelper 0 a b c) := by
  intro a b c; unfold partialHelper; keepscur

theorem kcz_renderIn : ∀ a b, KeepsCur (renderIn 0 a b) := by
  intro a b; unfold renderIn; keepscur

theorem kcz_compileStmts : ∀ a b, KeepsCur (compileStmts 0 a b) := by
  intro a b; unfold compileStmts; keepscur

/-- every function of the evaluator keeps the current context -/
theorem allCur : ∀ n, AllCur n := by
  intro n
  induction n with
  | zero => exact ⟨kcz_evalExpr, kcz_evalExprs, kcz_evalHashPairs, kcz_evalIdent, kcz_evalInfix, kcz_evalIf, kcz_evalElifs, kcz_evalBlock, kcz_evalStmts, kcz_evalStmt, kcz_evalStmtBody, kcz_evalFor, kcz_forBody, kcz_forItems, kcz_forRanger, kcz_evalIndex, kcz_evalUserFn, kcz_fnBody, kcz_evalCall, kcz_bindArgs, kcz_bindFixed, kcz_bindVariadic, kcz_blockWith, kcz_callHelper, kcz_partialHelper, kcz_renderIn, kcz_compileStmts⟩
  | succ n ih => exact ⟨kcs_evalExpr n ih, kcs_evalExprs n ih, kcs_evalHashPairs n ih, kcs_evalIdent n ih, kcs_evalInfix n ih, kcs_evalIf n ih, kcs_evalElifs n ih, kcs_evalBlock n ih, kcs_evalStmts n ih, kcs_evalStmt n ih, kcs_evalStmtBody n ih, kcs_evalFor n ih, kcs_forBody n ih, kcs_forItems n ih, kcs_forRanger n ih, kcs_evalIndex n ih, kcs_evalUserFn n ih, kcs_fnBody n ih, kcs_evalCall n ih, kcs_bindArgs n ih, kcs_bindFixed n ih, kcs_bindVariadic n ih, kcs_blockWith n ih, kcs_callHelper n ih, kcs_partialHelper n ih, kcs_renderIn n ih, kcs_compileStmts n ih⟩

end Plush
