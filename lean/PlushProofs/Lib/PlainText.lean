import PlushProofs.Lib.LexerTotal
namespace Plush
namespace LX

/-- tag-free, NUL-free text -/
structure Plain (a : Array UInt8) : Prop where
  nonul : ∀ i, i < a.size → a.getD i 0 ≠ 0
  notag : ∀ i, ¬ (a.getD i 0 = 60 ∧ a.getD (i + 1) 0 = 37)

theorem readHTMLLoop_plain (position : Nat) (a : Array UInt8) (hp : Plain a) :
    ∀ (fuel : Nat) (l : LX), l.WF → l.input = a → l.pos ≤ a.size → a.size - l.pos < fuel →
      (readHTMLLoop position fuel l).1 = none ∧ (readHTMLLoop position fuel l).2.pos = a.size
        ∧ (readHTMLLoop position fuel l).2.WF ∧ (readHTMLLoop position fuel l).2.input = a
        ∧ (readHTMLLoop position fuel l).2.inside = l.inside := by
  intro fuel
  induction fuel with
  | zero => intro l _ _ _ h; omega
  | succ n ih =>
    intro l w hin hle hf
    unfold readHTMLLoop
    by_cases hc : l.ch = 0
    · have hge : a.size ≤ l.pos := by
        apply Nat.le_of_not_lt; intro hlt
        exact hp.nonul l.pos hlt (by rw [← hin, ← w.ch]; exact hc)
      simp [hc]
      exact ⟨by omega, w, hin⟩
    · have hlt : l.pos < a.size := by rw [← hin]; exact w.lt_of_ne hc
      have w1 := readChar_wf w
      have hp1 : l.readChar.pos = l.pos + 1 := readChar_pos' w
      simp only [bne_iff_ne, ne_eq, hc, not_false_eq_true, if_true]
      have hesc : (l.ch == 92 && l.peekChar == 60 && l.peekCharAt 2 == 37) = false := by
        apply Bool.eq_false_iff.mpr
        intro h
        simp only [Bool.and_eq_true, beq_iff_eq] at h
        apply hp.notag (l.pos + 1)
        rw [← hin]
        exact ⟨by rw [← peekChar_eq w]; exact h.1.2, by rw [peekCharAt_eq] at h; exact h.2⟩
      have htag : (l.ch == 60 && l.peekChar == 37) = false := by
        apply Bool.eq_false_iff.mpr
        intro h
        simp only [Bool.and_eq_true, beq_iff_eq] at h
        apply hp.notag l.pos
        rw [← hin]
        exact ⟨by rw [← w.ch]; exact h.1, by rw [← peekChar_eq w]; exact h.2⟩
      simp only [hesc, htag, Bool.false_eq_true, if_false]
      have := ih l.readChar w1 (by simpa using hin) (by rw [hp1]; omega) (by rw [hp1]; omega)
      exact ⟨this.1, this.2.1, this.2.2.1, this.2.2.2.1, by simpa using this.2.2.2.2⟩

theorem isPrefix_esc_false (s : Bytes) (h : ∀ i, ¬ (s.getD i 0 = 60 ∧ s.getD (i + 1) 0 = 37)) :
    isPrefixOfB [92, 60, 37] s = false := by
  match s with
  | [] => rfl
  | [_] => simp [isPrefixOfB]
  | [_, _] => simp [isPrefixOfB]
  | c0 :: c1 :: c2 :: rest =>
    apply Bool.eq_false_iff.mpr
    intro hp
    simp only [isPrefixOfB, Bool.and_eq_true, beq_iff_eq, Bool.and_true] at hp
    apply h 1
    simp [← hp.2.1, ← hp.2.2]

theorem replaceAll_plain : ∀ (s : Bytes), (∀ i, ¬ (s.getD i 0 = 60 ∧ s.getD (i + 1) 0 = 37)) →
    replaceAll [92, 60, 37] [60, 37] s = s := by
  intro s
  induction s with
  | nil => intro _; rw [replaceAll]
  | cons c rest ih =>
    intro h
    rw [replaceAll]
    have hp := isPrefix_esc_false (c :: rest) h
    simp only [hp, Bool.false_eq_true, and_false, if_false]
    rw [ih]
    intro i hi
    apply h (i + 1)
    simpa using hi

theorem plain_list (a : Array UInt8) (hp : Plain a) : ∀ i, ¬ (a.toList.getD i 0 = 60 ∧ a.toList.getD (i + 1) 0 = 37) := by
  intro i h
  apply hp.notag i
  simpa [Array.getD_eq_getD_getElem?, List.getD_eq_getElem?_getD] using h

/-- the first token of a non-empty tag-free text is one HTML token holding the whole text; the scan is then over -/
theorem nextToken_plain (a : Array UInt8) (hp : Plain a) (hne : 0 < a.size) :
    ∃ l', (LX.new a).nextToken = ({ type := .HTML, lit := a.toList, line := l'.line }, l') ∧ l'.WF ∧ l'.Done ∧ l'.input = a := by
  have w := new_wf a
  have hin : (LX.new a).input = a := rfl
  have hpos : (LX.new a).pos = 0 := rfl
  have hins : (LX.new a).inside = false := rfl
  have hch : (LX.new a).ch = a.getD 0 0 := rfl
  have hpk : (LX.new a).peekChar = a.getD 1 0 := rfl
  have hc : (LX.new a).ch ≠ 0 := by rw [hch]; exact hp.nonul 0 hne
  have hc' : ((LX.new a).ch == 0) = false := by simpa using hc
  have htag : ((LX.new a).ch == 60 && (LX.new a).peekChar == 37) = false := by
    apply Bool.eq_false_iff.mpr
    intro h
    simp only [Bool.and_eq_true, beq_iff_eq] at h
    apply hp.notag 0
    exact ⟨by rw [← hch]; exact h.1, by rw [← hpk]; exact h.2⟩
  have hl := readHTMLLoop_plain 0 a hp (a.size + 2) (LX.new a) w hin (by rw [hpos]; omega) (by rw [hpos]; omega)
  refine ⟨(readHTMLLoop 0 (a.size + 2) (LX.new a)).2, ?_, hl.2.2.1, Or.inr (by rw [hl.2.2.2.1, hl.2.1]; exact Nat.le_refl _), hl.2.2.2.1⟩
  unfold nextToken
  simp only [hins, Bool.false_eq_true, if_false, hc', htag]
  unfold readHTML
  simp only [hpos, hin]
  have e1 : readHTMLLoop 0 (a.size + 2) (LX.new a) = (none, (readHTMLLoop 0 (a.size + 2) (LX.new a)).2) := by
    rw [← hl.1]
  rw [e1]
  simp only
  have hs : ((readHTMLLoop 0 (a.size + 2) (LX.new a)).2.slice 0 (readHTMLLoop 0 (a.size + 2) (LX.new a)).2.pos)
      = (a.toList, (readHTMLLoop 0 (a.size + 2) (LX.new a)).2) := by
    simp only [slice, hl.2.1, hl.2.2.2.1, Nat.zero_le, Nat.le_refl, and_self, if_true]
    congr 1
    simp
  rw [hs]
  simp only [replaceAll_plain _ (plain_list a hp)]

end LX
end Plush
