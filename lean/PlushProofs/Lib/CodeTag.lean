import PlushProofs.Lib.OutTagRender
/-!
  The silent twin of `OutTag*`: the template  `<%"` ++ escQ c ++ `"%>`  (a CODE tag holding one string literal) renders to
  nothing, for every content `c` — lexer, parser and evaluator composed.
-/
namespace Plush
namespace LX

def codeTagSrc (c : Bytes) : Bytes := [60, 37, 34] ++ ((escQ c ++ [34]) ++ [37, 62])

theorem codeTagSrc_length (c : Bytes) : (codeTagSrc c).length = 6 + (escQ c).length := by
  simp [codeTagSrc]; omega

theorem codeTag_head (c : Bytes) : (codeTagSrc c).toArray.getD 0 0 = 60 ∧ (codeTagSrc c).toArray.getD 1 0 = 37
    ∧ (codeTagSrc c).toArray.getD 2 0 = 34 := by
  simp [codeTagSrc]

theorem codeTag_spells (c : Bytes) : Spells (codeTagSrc c).toArray 3 (escQ c ++ [34]) := by
  intro j hj
  rw [getD_toArray]
  simp only [codeTagSrc, List.getD_eq_getElem?_getD]
  rw [List.getElem?_append_right (by simp)]
  simp only [List.length_cons, List.length_nil, Nat.add_sub_cancel_left, Nat.zero_add]
  rw [List.getElem?_append_left hj, List.getElem?_eq_getElem hj]
  rfl

theorem codeTag_tail (c : Bytes) : (codeTagSrc c).toArray.getD (4 + (escQ c).length) 0 = 37
    ∧ (codeTagSrc c).toArray.getD (5 + (escQ c).length) 0 = 62 := by
  constructor
  · rw [getD_toArray]
    simp only [codeTagSrc, List.getD_eq_getElem?_getD]
    rw [List.getElem?_append_right (by simp; omega)]
    rw [List.getElem?_append_right (by simp; omega)]
    have : 4 + (escQ c).length - [60, 37, (34:UInt8)].length - (escQ c ++ [34]).length = 0 := by simp; omega
    rw [this]; rfl
  · rw [getD_toArray]
    simp only [codeTagSrc, List.getD_eq_getElem?_getD]
    rw [List.getElem?_append_right (by simp; omega)]
    rw [List.getElem?_append_right (by simp; omega)]
    have : 5 + (escQ c).length - [60, 37, (34:UInt8)].length - (escQ c ++ [34]).length = 1 := by simp; omega
    rw [this]; rfl

set_option maxRecDepth 8000 in
theorem nextInside_sstart (fuel : Nat) (l : LX) (w : l.WF) (h0 : l.ch = 60)
    (h1 : l.input.getD (l.pos + 1) 0 = 37) (h2 : l.input.getD (l.pos + 2) 0 = 34) :
    nextInsideToken (fuel + 1) l = ({ type := .S_START, lit := b "<%", line := l.line },
      ({ l with inside := true } : LX).readChar.readChar) := by
  have hpk : l.peekChar = 37 := by rw [peekChar_eq w, h1]
  have hws : l.skipWhitespace = l := skipWhitespace_id _ (by rw [h0]; decide)
  have wi := wf_setInside w true
  have hpk1 : ({ l with inside := true } : LX).readChar.peekChar = 34 := by
    rw [peekChar_eq (readChar_wf wi), readChar_pos' wi]; exact h2
  simp only [h0] at hpk1
  unfold nextInsideToken
  simp only [hws]
  simp (config := { decide := true }) only [h0, hpk, hpk1, two, finish, if_true, if_false]

/-- in text mode on `<%` followed by a quote: the token is S_START, two bytes are consumed, the scanner is in code mode -/
theorem nextToken_sstart (l : LX) (w : l.WF) (hin : l.inside = false) (h0 : l.ch = 60)
    (h1 : l.input.getD (l.pos + 1) 0 = 37) (h2 : l.input.getD (l.pos + 2) 0 = 34) :
    l.nextToken.1 = { type := .S_START, lit := b "<%", line := l.line }
      ∧ l.nextToken.2.pos = l.pos + 2 ∧ l.nextToken.2.inside = true ∧ l.nextToken.2.WF
      ∧ l.nextToken.2.input = l.input := by
  have hpk : l.peekChar = 37 := by rw [peekChar_eq w, h1]
  have wi := wf_setInside w true
  have w1 := readChar_wf wi
  have w2 := readChar_wf w1
  have hc0 : (l.ch == 0) = false := by rw [h0]; decide
  have htag : (l.ch == 60 && l.peekChar == 37) = true := by rw [h0, hpk]; decide
  unfold nextToken
  simp only [hin, hc0, htag, Bool.false_eq_true, if_false, if_true]
  rw [show l.input.size + 2 = (l.input.size + 1) + 1 from rfl]
  rw [nextInside_sstart _ _ wi h0 h1 h2]
  refine ⟨rfl, ?_, rfl, w2, rfl⟩
  show ({ l with inside := true } : LX).readChar.readChar.pos = l.pos + 2
  rw [readChar_pos' w1, readChar_pos' wi]

end LX

open LX

theorem tokens_codeTag (c : Bytes) (hno : ∀ x ∈ c, x ≠ 0 ∧ x ≠ 92) :
    ∃ l0 l1 l2 l3,
      tokenAt 0 (LX.new (codeTagSrc c).toArray) = { type := .S_START, lit := b "<%", line := l0 } ∧
      tokenAt 1 (LX.new (codeTagSrc c).toArray) = { type := .STRING, lit := c, line := l1 } ∧
      tokenAt 2 (LX.new (codeTagSrc c).toArray) = { type := .E_END, lit := b "%>", line := l2 } ∧
      ∀ k, tokenAt (k + 3) (LX.new (codeTagSrc c).toArray) = { type := .EOF, lit := [], line := l3 } := by
  generalize ha : (codeTagSrc c).toArray = a
  have hsz : a.size = 6 + (escQ c).length := by rw [← ha]; simpa using codeTagSrc_length c
  have hh := codeTag_head c; rw [ha] at hh
  have hsp := codeTag_spells c; rw [ha] at hsp
  have ht := codeTag_tail c; rw [ha] at ht
  have w0 := new_wf a
  have s1 := nextToken_sstart (LX.new a) w0 rfl hh.1 hh.2.1 hh.2.2
  have p1 : (LX.new a).nextToken.2.pos = 2 := s1.2.1
  have i1 : (LX.new a).nextToken.2.input = a := s1.2.2.2.2
  have c1 : (LX.new a).nextToken.2.ch = 34 := by rw [s1.2.2.2.1.ch, p1, i1]; exact hh.2.2
  have s2 := nextToken_string _ s1.2.2.2.1 s1.2.2.1 c1 c hno (by rw [p1, i1]; exact hsp)
  have a2 := (nextToken_spec _ s1.2.2.2.1).1
  have i2 : (LX.new a).nextToken.2.nextToken.2.input = a := by rw [a2.input, i1]
  have p2 : (LX.new a).nextToken.2.nextToken.2.pos = 4 + (escQ c).length := by rw [s2.2.1, p1]
  have c2 : (LX.new a).nextToken.2.nextToken.2.ch = 37 := by rw [s2.2.2.2.ch, p2, i2]; exact ht.1
  have s3 := nextToken_eend _ s2.2.2.2 s2.2.2.1 c2
    (by rw [p2, i2]; have := ht.2; rwa [show 5 + (escQ c).length = 4 + (escQ c).length + 1 by omega] at this)
  have p3 : (LX.new a).nextToken.2.nextToken.2.nextToken.2.pos = 6 + (escQ c).length := by rw [s3.2.1, p2]; omega
  have d3 : (LX.new a).nextToken.2.nextToken.2.nextToken.2.Done := Or.inr (by rw [s3.2.2.2.2, i2, p3, hsz]; exact Nat.le_refl _)
  refine ⟨(LX.new a).line, (LX.new a).nextToken.2.line, (LX.new a).nextToken.2.nextToken.2.line,
    (LX.new a).nextToken.2.nextToken.2.nextToken.2.line, ?_, ?_, ?_, ?_⟩
  · simp only [tokenAt, stateAfter]; exact s1.1
  · simp only [tokenAt, stateAfter]; exact s2.1
  · simp only [tokenAt, stateAfter]; exact s3.1
  · intro k
    have := (done_forever k _ s3.2.2.2.1 d3).2.2
    simp only [tokenAt, stateAfter] at this ⊢
    exact this

namespace P

theorem parse_codeTag (c : Bytes) (hno : ∀ x ∈ c, x ≠ 0 ∧ x ≠ 92) :
    ∃ t1 : Token, t1.lit = c ∧
      parseBytes (codeTagSrc c) = .ok ({ stmts := [.es t1 (some (.str t1 c))] }, #[]) := by
  obtain ⟨l0, l1, l2, l3, h0, h1, h2, hk⟩ := tokens_codeTag c hno
  refine ⟨{ type := .STRING, lit := c, line := l1 }, rfl, ?_⟩
  unfold parseBytes parseToks
  simp only
  generalize (codeTagSrc c).toArray = a at *
  generalize hs0 : ({ toks := lexAll a, eof := (lexAll a).back?.getD { type := .EOF, lit := [], line := 1 } } : PS) = s0
  have htok : ∀ i, tokAt s0 i = tokenAt i (LX.new a) := by
    intro i; rw [← hs0]; exact lexAll_is_stream a i
  have hpos : s0.pos = 0 := by rw [← hs0]
  have herr : s0.errs = #[] := by rw [← hs0]
  have key : OK (programLoop ((lexAll a).size + 4) (parseFuel (lexAll a).size) []) s0
      (fun r s' => r = [.es { type := .STRING, lit := c, line := l1 }
          (some (.str { type := .STRING, lit := c, line := l1 } c))] ∧ s'.errs = #[]) := by
    obtain ⟨K, hK⟩ : ∃ K, parseFuel (lexAll a).size = K + 5 := ⟨64 * (lexAll a).size + 27, by simp [parseFuel]⟩
    rw [hK]
    have h0' : tokAt s0 0 = { type := .S_START, lit := b "<%", line := l0 } := by rw [htok, h0]
    have h1' : tokAt s0 1 = { type := .STRING, lit := c, line := l1 } := by rw [htok, h1]
    have h2' : tokAt s0 2 = { type := .E_END, lit := b "%>", line := l2 } := by rw [htok, h2]
    have h3' : tokAt s0 3 = { type := .EOF, lit := [], line := l3 } := by rw [htok]; exact hk 0
    have hfn : lookupLast TT.STRING Gen.prefixFns = some .parseStringLiteral := by decide
    have hpe : precOf TT.E_END = Gen.LOWEST := by decide
    have e1 : (TT.S_START == TT.EOF) = false := by decide
    have e2 : (TT.STRING == TT.LET) = false := by decide
    have e3 : (TT.E_END == TT.SEMICOLON) = false := by decide
    have e4 : decide (Gen.LOWEST < Gen.LOWEST) = false := by decide
    have e5 : (TT.EOF == TT.EOF) = true := by decide
    have e6 : (TT.E_END == TT.EOF) = false := by decide
    have hta : ∀ p e f i, tokAt { toks := s0.toks, eof := s0.eof, pos := p, errs := e, inFor := f } i = tokAt s0 i :=
      fun _ _ _ _ => rfl
    have hnb : ∀ t, nonBlank (pStmt (.es t (some (.str { type := .STRING, lit := c, line := l1 } c)))) = true := by
      intro t; simp [pStmt, optStr, pExpr, nonBlank]
    unfold programLoop
    simp only [OK_bind, OK_curIs, hpos, h0', OK_ite]
    simp only [hta, hnb, Nat.reduceAdd, parseStatement_eq, parseExpressionStatement_eq, parseExpression_eq, runPrefix_eq, infixLoop_eq,
      OK_bind, OK_cur, OK_pure, hpos, h0', hfn, OK_ite, OK_peekIs, OK_peekPrecedence, Nat.zero_add, h1', h2', hpe,
      OK_skipSemicolon, OK_nextTok, e1, e2, e3, e4, Bool.not_false, Bool.and_false, Bool.false_eq_true, if_false, if_true]
    have hfn2 : lookupLast TT.E_END Gen.prefixFns = some .returnNil := by decide
    have hpe2 : precOf TT.EOF = Gen.LOWEST := by decide
    have e7 : (TT.E_END == TT.LET) = false := by decide
    have e8 : (TT.EOF == TT.SEMICOLON) = false := by decide
    have hnb2 : ∀ t, nonBlank (pStmt (.es t none)) = false := by intro t; simp [pStmt, optStr, nonBlank]
    unfold programLoop
    simp only [hta, hnb2, Nat.reduceAdd, h3', e6, e7, e8, hfn2, hpe2, parseStatement_eq, parseExpressionStatement_eq,
      parseExpression_eq, runPrefix_eq, infixLoop_eq,
      OK_bind, OK_cur, OK_curIs, OK_pure, OK_ite, OK_peekIs, OK_peekPrecedence, h2',
      OK_skipSemicolon, OK_nextTok, e4, Bool.not_false, Bool.and_false, Bool.false_eq_true, if_false, if_true, List.nil_append]
    unfold programLoop
    simp only [hta, h3', e5, OK_bind, OK_curIs, OK_ite, OK_pure, Bool.not_true, Bool.false_eq_true, if_false]
    exact ⟨trivial, herr⟩
  obtain ⟨r, s', hrun, hr, he⟩ := key
  simp only [StateT.run]
  rw [hrun, hr]
  simp only [he]

end P

open EM

/-- END TO END: the code tag `<%"…"%>` renders to NOTHING, for every content, and leaves the evaluator state as it was -/
theorem render_codeTag (c : Bytes) (hno : ∀ x ∈ c, x ≠ 0 ∧ x ≠ 92) (fuel ctx : Nat) (s : ES) :
    renderIn (fuel + 3) (codeTagSrc c) ctx s = (.ok [], s) := by
  obtain ⟨t1, _, hparse⟩ := P.parse_codeTag c hno
  simp [renderIn, hparse, compileStmts, evalExpr, bind, getCur, getS, setCur, modifyS, attempt, pure, renderVal, writeVal,
    flattenChunks]

theorem renderTop_codeTag (c : Bytes) (hno : ∀ x ∈ c, x ≠ 0 ∧ x ≠ 92) (data : List (Bytes × Val))
    (heap : Array HeapObj) (feeder : List (Bytes × Bytes)) :
    (renderTop (codeTagSrc c) data heap feeder).1 = .ok [] := by
  unfold renderTop
  simp only
  obtain ⟨k, hk⟩ : ∃ k, evalFuel (codeTagSrc c) = k + 3 := ⟨40 * (codeTagSrc c).length + 397, by simp [evalFuel]⟩
  rw [hk, render_codeTag c hno]

end Plush
