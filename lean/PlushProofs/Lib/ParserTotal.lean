import PlushModel.Parser
/-!
  Theorem B (DESIGN §6 C03, parser half): the parser terminates on every token stream.
  The model's parser is written with a depth budget (`fuel`); we show that a budget linear in the number
  of tokens is always enough — `outOfFuel` is unreachable — because every cycle of the mutual recursion
  consumes at least one non-EOF token, and from EOF on every function returns without recursing.
-/
namespace Plush
namespace P

/-- `m` run from `s` returns normally, in a result/state satisfying `Q` -/
def OK {α} (m : PM α) (s : PS) (Q : α → PS → Prop) : Prop :=
  ∃ a s', m s = .ok (a, s') ∧ Q a s'

theorem OK_conseq {α} {m : PM α} {s : PS} {Q Q' : α → PS → Prop}
    (h : OK m s Q') (hq : ∀ a s', Q' a s' → Q a s') : OK m s Q := by
  obtain ⟨a, s', e, q⟩ := h; exact ⟨a, s', e, hq a s' q⟩

@[simp] theorem OK_pure {α} (a : α) (s : PS) (Q : α → PS → Prop) : OK (pure a) s Q ↔ Q a s := by
  constructor
  · rintro ⟨a', s', e, q⟩
    simp [pure, StateT.pure, Except.pure] at e
    obtain ⟨rfl, rfl⟩ := e; exact q
  · intro q; exact ⟨a, s, rfl, q⟩

@[simp] theorem OK_bind {α β} (m : PM α) (f : α → PM β) (s : PS) (Q : β → PS → Prop) :
    OK (m >>= f) s Q ↔ OK m s (fun a s' => OK (f a) s' Q) := by
  constructor
  · rintro ⟨b, s'', e, q⟩
    simp only [bind, StateT.bind, Except.bind] at e
    cases hm : m s with
    | error err => rw [hm] at e; cases e
    | ok r =>
      rw [hm] at e
      obtain ⟨a, s'⟩ := r
      exact ⟨a, s', hm, b, s'', e, q⟩
  · rintro ⟨a, s', e, b, s'', e2, q⟩
    refine ⟨b, s'', ?_, q⟩
    simp only [bind, StateT.bind, Except.bind, e, e2]

@[simp] theorem OK_get (s : PS) (Q : PS → PS → Prop) : OK (get : PM PS) s Q ↔ Q s s := by
  constructor
  · rintro ⟨a, s', e, q⟩
    simp [get, getThe, MonadStateOf.get, StateT.get, pure, Except.pure] at e
    obtain ⟨rfl, rfl⟩ := e; exact q
  · intro q; exact ⟨s, s, rfl, q⟩

@[simp] theorem OK_set (s s1 : PS) (Q : Unit → PS → Prop) : OK (set s1 : PM Unit) s Q ↔ Q () s1 := by
  constructor
  · rintro ⟨a, s', e, q⟩
    simp [set, MonadStateOf.set, StateT.set, pure, Except.pure] at e
    obtain ⟨rfl, rfl⟩ := e; exact q
  · intro q; exact ⟨(), s1, rfl, q⟩

@[simp] theorem OK_modify (f : PS → PS) (s : PS) (Q : Unit → PS → Prop) : OK (modify f : PM Unit) s Q ↔ Q () (f s) := by
  constructor
  · rintro ⟨a, s', e, q⟩
    simp [modify, modifyGet, MonadStateOf.modifyGet, StateT.modifyGet, pure, Except.pure] at e
    obtain ⟨rfl, rfl⟩ := e; exact q
  · intro q; exact ⟨(), f s, rfl, q⟩

theorem not_OK_throw {α} (e : PFail) (s : PS) (Q : α → PS → Prop) : ¬ OK (throw e : PM α) s Q := by
  rintro ⟨a, s', h, _⟩
  simp [throw, throwThe, MonadExceptOf.throw, StateT.lift] at h
  cases h

@[simp] theorem OK_map {α β} (f : α → β) (m : PM α) (s : PS) (Q : β → PS → Prop) :
    OK (f <$> m) s Q ↔ OK m s (fun a s' => Q (f a) s') := by
  have : f <$> m = m >>= fun a => pure (f a) := by rw [map_eq_pure_bind]
  rw [this, OK_bind]
  simp only [OK_pure]

@[simp] theorem OK_cur (s : PS) (Q : Token → PS → Prop) : OK cur s Q ↔ Q (tokAt s s.pos) s := by simp [cur]
@[simp] theorem OK_peek (s : PS) (Q : Token → PS → Prop) : OK peek s Q ↔ Q (tokAt s (s.pos + 1)) s := by simp [peek]
@[simp] theorem OK_nextTok (s : PS) (Q : Unit → PS → Prop) : OK nextTok s Q ↔ Q () { s with pos := s.pos + 1 } := by
  simp [nextTok]
@[simp] theorem OK_curIs (t : TT) (s : PS) (Q : Bool → PS → Prop) : OK (curIs t) s Q ↔ Q ((tokAt s s.pos).type == t) s := by
  simp [curIs]
@[simp] theorem OK_peekIs (t : TT) (s : PS) (Q : Bool → PS → Prop) :
    OK (peekIs t) s Q ↔ Q ((tokAt s (s.pos + 1)).type == t) s := by simp [peekIs]
@[simp] theorem OK_addErr (ln : Option Nat) (k : String) (s : PS) (Q : Unit → PS → Prop) :
    OK (addErr ln k) s Q ↔ Q () { s with errs := s.errs.push { line := ln, kind := k } } := by simp [addErr]
@[simp] theorem OK_errHere (k : String) (s : PS) (Q : Unit → PS → Prop) :
    OK (errHere k) s Q ↔ Q () { s with errs := s.errs.push { line := some (tokAt s s.pos).line, kind := k } } := by
  simp [errHere]
@[simp] theorem OK_peekPrecedence (s : PS) (Q : Nat → PS → Prop) :
    OK peekPrecedence s Q ↔ Q (precOf (tokAt s (s.pos + 1)).type) s := by simp [peekPrecedence]
@[simp] theorem OK_curPrecedence (s : PS) (Q : Nat → PS → Prop) :
    OK curPrecedence s Q ↔ Q (precOf (tokAt s s.pos).type) s := by simp [curPrecedence]

@[simp] theorem OK_ite {α} (c : Prop) [Decidable c] (m1 m2 : PM α) (s : PS) (Q : α → PS → Prop) :
    OK (if c then m1 else m2) s Q ↔ (if c then OK m1 s Q else OK m2 s Q) := by
  split <;> rfl

end P
end Plush

namespace Plush
namespace P

/-- the frame every parse function respects: the token source is untouched and the cursor only moves forward -/
structure Fr (s s' : PS) : Prop where
  toks : s'.toks = s.toks
  eof : s'.eof = s.eof
  pos : s.pos ≤ s'.pos

theorem Fr.refl (s : PS) : Fr s s := ⟨rfl, rfl, Nat.le_refl _⟩
theorem Fr.trans {a c d : PS} (h1 : Fr a c) (h2 : Fr c d) : Fr a d :=
  ⟨h2.toks.trans h1.toks, h2.eof.trans h1.eof, Nat.le_trans h1.pos h2.pos⟩
theorem Fr.size {s s' : PS} (h : Fr s s') : s'.toks.size = s.toks.size := by rw [h.toks]
theorem Fr.tokAt {s s' : PS} (h : Fr s s') (i : Nat) : tokAt s' i = tokAt s i := by
  simp [P.tokAt, h.toks, h.eof]

/-- tokens still in front of the cursor -/
def rem (s : PS) : Nat := s.toks.size - s.pos

/-- once the array is exhausted the lexer answers EOF for ever (Theorem A: `C03_lexer_stream_ends`) -/
def EofOK (s : PS) : Prop := s.eof.type = .EOF

theorem Fr.eofOK {s s' : PS} (h : Fr s s') (e : EofOK s) : EofOK s' := by unfold EofOK; rw [h.eof]; exact e

theorem lt_size_of_ne_eof {s : PS} (e : EofOK s) {i : Nat} (h : (tokAt s i).type ≠ .EOF) : i < s.toks.size := by
  apply Nat.lt_of_not_ge; intro hge
  apply h
  simp [P.tokAt, Array.getD, Nat.not_lt.mpr hge]; exact e

theorem lt_size_of_beq {s : PS} (e : EofOK s) {i : Nat} {t : TT} (h : ((tokAt s i).type == t) = true) (ht : t ≠ .EOF) :
    i < s.toks.size := by
  apply lt_size_of_ne_eof e
  simp only [beq_iff_eq] at h; rw [h]; exact ht

/-- budget constants: `K_f + C * rem s` is enough for `f` started in `s` -/
abbrev C : Nat := 64

structure AllOK (n : Nat) : Prop where
  stmt : ∀ s, EofOK s → 18 + C * rem s ≤ n → OK (parseStatement n) s (fun _ s' => Fr s s')
  ret : ∀ s o, EofOK s → 16 + C * rem s ≤ n → OK (parseReturnStatement n o) s (fun _ s' => Fr s s')
  let_ : ∀ s, EofOK s → 16 + C * rem s ≤ n → OK (parseLetStatement n) s (fun _ s' => Fr s s')
  exprStmt : ∀ s, EofOK s → 16 + C * rem s ≤ n → OK (parseExpressionStatement n) s (fun _ s' => Fr s s')
  expr : ∀ s p, EofOK s → 14 + C * rem s ≤ n → OK (parseExpression n p) s (fun _ s' => Fr s s')
  infixLoop : ∀ s p l, EofOK s → 12 + C * rem s ≤ n → OK (infixLoop n p l) s (fun _ s' => Fr s s')
  runPrefix : ∀ s f, EofOK s → s.pos < s.toks.size → 12 + C * rem s ≤ n → OK (runPrefix n f) s (fun _ s' => Fr s s')
  comment : ∀ s, EofOK s → 8 + C * rem s ≤ n → OK (commentLoop n) s (fun _ s' => Fr s s')
  runInfix : ∀ s f l, EofOK s → s.pos < s.toks.size → 10 + C * rem s ≤ n → OK (runInfix n f l) s (fun _ s' => Fr s s')
  exprList : ∀ s t, EofOK s → s.pos < s.toks.size → 8 + C * rem s ≤ n → OK (parseExpressionList n t) s (fun _ s' => Fr s s')
  exprListLoop : ∀ s a, EofOK s → 6 + C * rem s ≤ n → OK (exprListLoop n a) s (fun _ s' => Fr s s')
  hash : ∀ s t a, EofOK s → s.pos < s.toks.size → 8 + C * rem s ≤ n → OK (hashLoop n t a) s (fun _ s' => Fr s s')
  params : ∀ s, EofOK s → 8 + C * rem s ≤ n → OK (parseFunctionParameters n) s (fun _ s' => Fr s s')
  paramLoop : ∀ s a, EofOK s → 6 + C * rem s ≤ n → OK (paramLoop n a) s (fun _ s' => Fr s s')
  block : ∀ s, EofOK s → 22 + C * rem s ≤ n → OK (parseBlockStatement n) s (fun _ s' => Fr s s')
  blockLoop : ∀ s a, EofOK s → 20 + C * rem s ≤ n → OK (blockLoop n a) s (fun _ s' => Fr s s')
  if_ : ∀ s, EofOK s → 8 + C * rem s ≤ n → OK (parseIfExpression n) s (fun _ s' => Fr s s')
  elseLoop : ∀ s t c b e l, EofOK s → 6 + C * rem s ≤ n → OK (elseLoop n t c b e l) s (fun _ s' => Fr s s')
  for_ : ∀ s, EofOK s → 8 + C * rem s ≤ n → OK (parseForExpression n) s (fun _ s' => Fr s s')
  forNames : ∀ s ln a, EofOK s → 6 + C * rem s ≤ n → OK (forNamesLoop n ln a) s (fun _ s' => Fr s s')

/-- `Fr` for the record updates the primitives perform -/
theorem Fr.step (s : PS) : Fr s { s with pos := s.pos + 1 } := ⟨rfl, rfl, Nat.le_succ _⟩

end P
end Plush
