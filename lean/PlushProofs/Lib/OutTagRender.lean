import PlushProofs.Lib.OutTagParse
import PlushModel.Render
namespace Plush
open EM LX

/-- END TO END: the template `<%="…"%>` whose string literal spells the content `c` renders to `htmlEscape c`, in any
    context, and leaves the evaluator state as it was — lexer, parser, evaluator and sink composed. -/
theorem render_outTag (c : Bytes) (hno : ∀ x ∈ c, x ≠ 0 ∧ x ≠ 92) (fuel ctx : Nat) (s : ES) :
    renderIn (fuel + 3) (outTagSrc c) ctx s = (.ok (htmlEscape c), s) := by
  obtain ⟨t0, t1, _, hparse⟩ := P.parse_outTag c hno
  simp [renderIn, hparse, compileStmts, evalExpr, bind, getCur, getS, setCur, modifyS, attempt, pure, renderVal, writeVal,
    flattenChunks, Chunk.flatten]

theorem renderTop_outTag (c : Bytes) (hno : ∀ x ∈ c, x ≠ 0 ∧ x ≠ 92) (data : List (Bytes × Val))
    (heap : Array HeapObj) (feeder : List (Bytes × Bytes)) :
    (renderTop (outTagSrc c) data heap feeder).1 = .ok (htmlEscape c) := by
  unfold renderTop
  simp only
  obtain ⟨k, hk⟩ : ∃ k, evalFuel (outTagSrc c) = k + 3 := ⟨40 * (outTagSrc c).length + 397, by simp [evalFuel]⟩
  rw [hk, render_outTag c hno]

end Plush
