import PlushModel
import PlushProofs.Lib.ParserTotalProof
/-!
  C04, evaluator-wide: the evaluator model reaches a crash site (a Go panic) ONLY at one of three named places,
  each a dereference of a missing AST child — never in operator dispatch, indexing, calls, argument binding,
  loops, helpers, partials or the output sink. (`ParserWF` shows error-free programs have no missing child.)
-/
namespace Plush
open EM

/-- the crash sites that remain in the evaluator model: nil AST children -/
def nilChildSites : List String :=
  ["identifier without segments", "evalLetStatement: nil Name", "evalForExpression: nil Block"]

/-- `m` can only crash at a nil-child site -/
def CrashOnly {α} (m : EM α) : Prop := ∀ s site, (m s).1 = .fatal (.crash site) → site ∈ nilChildSites

theorem co_pure {α} (a : α) : CrashOnly (Pure.pure a : EM α) := by intro s site h; cases h
theorem co_throwErr {α} (e : Err) : CrashOnly (EM.throwErr e : EM α) := by intro s site h; cases h
theorem co_fail {α} (k : String) : CrashOnly (EM.fail k : EM α) := by intro s site h; cases h
theorem co_unsupported {α} (w : String) : CrashOnly (EM.unsupported w : EM α) := by
  intro s site h; simp [EM.unsupported, EM.fatal] at h
theorem co_outOfFuel {α} : CrashOnly (EM.fatal .outOfFuel : EM α) := by intro s site h; simp [EM.fatal] at h
theorem co_crash {α} (site : String) (h : site ∈ nilChildSites) : CrashOnly (EM.fatal (.crash site) : EM α) := by
  intro s site' h'
  simp only [EM.fatal, R.fatal.injEq, Fatal.crash.injEq] at h'
  rw [← h']; exact h
theorem co_getS : CrashOnly EM.getS := by intro s site h; cases h
theorem co_modifyS (f : ES → ES) : CrashOnly (EM.modifyS f) := by intro s site h; cases h

theorem co_bind {α β} {m : EM α} {f : α → EM β} (hm : CrashOnly m) (hf : ∀ a, CrashOnly (f a)) : CrashOnly (m >>= f) := by
  intro s site
  show ((match m s with | (.ok a, s') => f a s' | (.err e, s') => (.err e, s') | (.fatal x, s') => (.fatal x, s')) : R β × ES).1 = _ → _
  have h1 := hm s site
  cases hms : m s with
  | mk r s' =>
    rw [hms] at h1
    cases r with
    | ok a => exact hf a s' site
    | err e => intro h; cases h
    | fatal x => intro h; simp only [R.fatal.injEq] at h; subst h; exact h1 rfl

theorem co_attempt {α} {m : EM α} (hm : CrashOnly m) : CrashOnly (EM.attempt m) := by
  intro s site
  have h1 := hm s site
  simp only [EM.attempt]
  cases hms : m s with
  | mk r s' =>
    rw [hms] at h1
    cases r with
    | ok a => intro h; cases h
    | err e => intro h; cases h
    | fatal x => intro h; simp only [R.fatal.injEq] at h; subst h; exact h1 rfl


theorem co_ctxHas (k : Bytes) : CrashOnly (ctxHas k) := co_bind co_getS (fun _ => co_pure _)
theorem co_ctxValue (k : Bytes) : CrashOnly (ctxValue k) := co_bind co_getS (fun _ => co_pure _)
theorem co_ctxSet (k : Bytes) (v : Val) : CrashOnly (ctxSet k v) := co_modifyS _
theorem co_ctxSetIn (c : Nat) (k : Bytes) (v : Val) : CrashOnly (ctxSetIn c k v) := co_modifyS _
theorem co_ctxNewChild (o : Nat) : CrashOnly (ctxNewChild o) := by
  intro s site h; unfold ctxNewChild at h; cases hh : s.store.newChild o; rw [hh] at h; cases h
theorem co_getCur : CrashOnly getCur := co_bind co_getS (fun _ => co_pure _)
theorem co_setCur (c : Nat) : CrashOnly (setCur c) := co_modifyS _
theorem co_copyFrame (a c : Nat) : CrashOnly (copyFrame a c) := co_modifyS _
theorem co_allocSlice (items : Array Val) : CrashOnly (allocSlice items) := by intro s site h; cases h
theorem co_allocMap (es : List (Val × Val)) : CrashOnly (allocMap es) := by intro s site h; cases h
theorem co_heapSet (a : Nat) (o : HeapObj) : CrashOnly (heapSet a o) := co_modifyS _
theorem co_traceEv (e : String) : CrashOnly (traceEv e) := co_modifyS _

macro "co_leaf1" : tactic =>
  `(tactic| with_reducible first
    | exact co_ctxHas _ | exact co_ctxValue _ | exact co_ctxSet _ _ | exact co_ctxSetIn _ _ _
    | exact co_ctxNewChild _ | exact co_getCur | exact co_setCur _ | exact co_copyFrame _ _ | exact co_allocSlice _
    | exact co_allocMap _ | exact co_heapSet _ _ | exact co_traceEv _ | exact co_getS | exact co_modifyS _)
macro "co_leaf2" : tactic =>
  `(tactic| with_reducible first
    | exact co_fail _ | exact co_throwErr _ | exact co_unsupported _ | exact co_outOfFuel | exact co_pure _
    | (apply co_crash; decide)
    | assumption)

macro "crashonly" : tactic =>
  `(tactic| repeat (any_goals (first
    | split
    | co_leaf1
    | co_leaf2
    | refine co_attempt ?_
    | refine co_bind ?_ (fun _ => ?_)
    | dsimp only)))

theorem co_heapSlice (a : Nat) : CrashOnly (heapSlice a) := by unfold heapSlice; crashonly
theorem co_heapMap (a : Nat) : CrashOnly (heapMap a) := by unfold heapMap; crashonly
theorem co_renderVal (v : Val) : CrashOnly (renderVal v) := by unfold renderVal; crashonly
theorem co_applyOpOut (o : OpOut) (k : String) : CrashOnly (applyOpOut o k) := by unfold applyOpOut; crashonly
theorem co_withCtx {α} (c : Nat) (m : EM α) (h : CrashOnly m) : CrashOnly (withCtx c m) := by unfold withCtx; crashonly

theorem co_forM {α} (l : List α) (f : α → EM PUnit) (h : ∀ a, CrashOnly (f a)) : CrashOnly (l.forM f) := by
  induction l with
  | nil => exact co_pure _
  | cons a as ih => exact co_bind (h a) (fun _ => ih)
theorem co_mapM_loop {α β} (f : α → EM β) (h : ∀ a, CrashOnly (f a)) : ∀ (l : List α) (acc : List β), CrashOnly (List.mapM.loop f l acc) := by
  intro l
  induction l with
  | nil => intro acc; exact co_pure _
  | cons a as ih => intro acc; exact co_bind (h a) (fun _ => ih _)
theorem co_mapM {α β} (l : List α) (f : α → EM β) (h : ∀ a, CrashOnly (f a)) : CrashOnly (l.mapM f) := co_mapM_loop f h l []

theorem co_applyInfix (op : Bytes) (l r : Val) : CrashOnly (applyInfix op l r) := by
  unfold applyInfix
  repeat (any_goals (first | split | exact co_applyOpOut _ _ | co_leaf1 | co_leaf2 | refine co_bind ?_ (fun _ => ?_) | dsimp only))
theorem co_updateIndex (l i v : Val) : CrashOnly (updateIndex l i v) := by
  unfold updateIndex
  repeat (any_goals (first | split | exact co_heapSlice _ | exact co_heapMap _ | co_leaf1 | co_leaf2 | refine co_bind ?_ (fun _ => ?_) | dsimp only))
theorem co_accessIndex (l i : Val) (h : Bool) : CrashOnly (accessIndex l i h) := by
  unfold accessIndex
  repeat (any_goals (first | split | exact co_heapSlice _ | exact co_heapMap _ | co_leaf1 | co_leaf2 | refine co_bind ?_ (fun _ => ?_) | dsimp only))
theorem memberStep_no_crash (c : Val) (name : Bytes) (site : String) : memberStep c name ≠ .fatal (.crash site) := by
  unfold memberStep
  repeat (any_goals (first | split | (intro h; cases h; done) | dsimp only))
theorem co_memberOf (c : Val) (name : Bytes) : CrashOnly (memberOf c name) := by
  intro s site h
  exact absurd h (memberStep_no_crash c name site)
theorem co_mapKeyMissing (l i : Val) : CrashOnly (mapKeyMissing l i) := by
  unfold mapKeyMissing
  repeat (any_goals (first | split | exact co_heapMap _ | co_leaf1 | co_leaf2 | refine co_bind ?_ (fun _ => ?_) | dsimp only))

attribute [local irreducible] Store.newChild Store.injectHelpers Store.newRoot

structure AllCO (n : Nat) : Prop where
  evalExpr : ∀ (a : Option Expr), CrashOnly (evalExpr n a)
  evalExprs : ∀ (a : List (Option Expr)), CrashOnly (evalExprs n a)
  evalHashPairs : ∀ (a : List (Option Expr × Option Expr)) (b : List (Val × Val)), CrashOnly (evalHashPairs n a b)
  evalIdent : ∀ (a : Ident), CrashOnly (evalIdent n a)
  evalInfix : ∀ (a : Bytes) (b : Option Expr) (c : Option Expr), CrashOnly (evalInfix n a b c)
  evalIf : ∀ (a : Option Expr) (b : Block) (c : List (Token × Option Expr × Block)) (d : Option Block), CrashOnly (evalIf n a b c d)
  evalElifs : ∀ (a : List (Token × Option Expr × Block)) (b : Option Block), CrashOnly (evalElifs n a b)
  evalBlock : ∀ (a : Block), CrashOnly (evalBlock n a)
  evalStmts : ∀ (a : List Stmt) (b : List Val), CrashOnly (evalStmts n a b)
  evalStmt : ∀ (a : Stmt), CrashOnly (evalStmt n a)
  evalStmtBody : ∀ (a : Stmt), CrashOnly (evalStmtBody n a)
  evalFor : ∀ (a : Bytes) (b : Bytes) (c : Option Expr) (d : Option Block), CrashOnly (evalFor n a b c d)
  forBody : ∀ (a : Bytes) (b : Bytes) (c : Option Expr) (d : Option Block), CrashOnly (forBody n a b c d)
  forItems : ∀ (a : Bytes) (b : Bytes) (c : Block) (d : List (Val × Val)) (e : List Val), CrashOnly (forItems n a b c d e)
  forRanger : ∀ (a : Bytes) (b : Bytes) (c : Block) (d : Gen.Ranger) (e : Nat) (f : List Val), CrashOnly (forRanger n a b c d e f)
  evalIndex : ∀ (a : Option Expr) (b : Option Expr) (c : Option Expr) (d : Option Expr), CrashOnly (evalIndex n a b c d)
  evalUserFn : ∀ (a : List Ident) (b : Block) (c : List (Option Expr)), CrashOnly (evalUserFn n a b c)
  fnBody : ∀ (a : List Ident) (b : List Val) (c : Block), CrashOnly (fnBody n a b c)
  evalCall : ∀ (a : Option Expr) (b : Option Expr) (c : Expr) (d : Option (List (Option Expr))) (e : Option Block), CrashOnly (evalCall n a b c d e)
  bindArgs : ∀ (a : String) (b : Sig) (c : List (Option Expr)) (d : Option Block), CrashOnly (bindArgs n a b c d)
  bindFixed : ∀ (a : Option Block) (b : List (Option Expr × Ty)) (c : List Val), CrashOnly (bindFixed n a b c)
  bindVariadic : ∀ (a : Ty) (b : List (Option Expr)) (c : List Val), CrashOnly (bindVariadic n a b c)
  blockWith : ∀ (a : Option Block) (b : Nat), CrashOnly (blockWith n a b)
  callHelper : ∀ (a : String) (b : List Val), CrashOnly (callHelper n a b)
  partialHelper : ∀ (a : Bytes) (b : List (Val × Val)) (c : Nat), CrashOnly (partialHelper n a b c)
  renderIn : ∀ (a : Bytes) (b : Nat), CrashOnly (renderIn n a b)
  compileStmts : ∀ (a : List Stmt) (b : Bytes), CrashOnly (compileStmts n a b)

macro "co_ih1" ih:ident : tactic => `(tactic| first
    | (with_reducible apply ($ih).evalExpr)
    | (with_reducible apply ($ih).evalExprs)
    | (with_reducible apply ($ih).evalHashPairs)
    | (with_reducible apply ($ih).evalIdent)
    | (with_reducible apply ($ih).evalInfix)
    | (with_reducible apply ($ih).evalIf)
    | (with_reducible apply ($ih).evalElifs)
    | (with_reducible apply ($ih).evalBlock)
    | (with_reducible apply ($ih).evalStmts)
    | (with_reducible apply ($ih).evalStmt)
    | (with_reducible apply ($ih).evalStmtBody)
    | (with_reducible apply ($ih).evalFor)
    | (with_reducible apply ($ih).forBody)
    | (with_reducible apply ($ih).forItems))
macro "co_ih2" ih:ident : tactic => `(tactic| first
    | (with_reducible apply ($ih).forRanger)
    | (with_reducible apply ($ih).evalIndex)
    | (with_reducible apply ($ih).evalUserFn)
    | (with_reducible apply ($ih).fnBody)
    | (with_reducible apply ($ih).evalCall)
    | (with_reducible apply ($ih).bindArgs)
    | (with_reducible apply ($ih).bindFixed)
    | (with_reducible apply ($ih).bindVariadic)
    | (with_reducible apply ($ih).blockWith)
    | (with_reducible apply ($ih).callHelper)
    | (with_reducible apply ($ih).partialHelper)
    | (with_reducible apply ($ih).renderIn)
    | (with_reducible apply ($ih).compileStmts))

macro "crashonly_ih" ih:ident : tactic =>
  `(tactic| repeat (any_goals (first
    | split
    | co_leaf1
    | co_leaf2
    | (have hfuel := Nat.succ.inj ‹_ + 1 = Nat.succ _›; subst hfuel)
    | co_ih1 $ih
    | co_ih2 $ih
    | exact co_heapSlice _ | exact co_heapMap _ | exact co_renderVal _ | exact co_applyOpOut _ _
    | exact co_applyInfix _ _ _ | exact co_updateIndex _ _ _ | exact co_accessIndex _ _ _ | exact co_memberOf _ _ | exact co_mapKeyMissing _ _
    | (refine co_forM _ _ (fun _ => ?_)) | (refine co_mapM _ _ (fun _ => ?_))
    | (refine co_withCtx _ _ ?_)
    | refine co_attempt ?_
    | refine co_bind ?_ (fun _ => ?_)
    | dsimp only)))

theorem cos_evalExpr (n : Nat) (ih : AllCO n) : ∀ a, CrashOnly (evalExpr (n+1) a) := by
  intro a; unfold evalExpr; crashonly_ih ih

theorem cos_evalExprs (n : Nat) (ih : AllCO n) : ∀ a, CrashOnly (evalExprs (n+1) a) := by
  intro a; unfold evalExprs; crashonly_ih ih

theorem cos_evalHashPairs (n : Nat) (ih : AllCO n) : ∀ a b, CrashOnly (evalHashPairs (n+1) a b) := by
  intro a b; unfold evalHashPairs; crashonly_ih ih

theorem cos_evalIdent (n : Nat) (ih : AllCO n) : ∀ a, CrashOnly (evalIdent (n+1) a) := by
  intro a; unfold evalIdent; crashonly_ih ih

theorem cos_evalInfix (n : Nat) (ih : AllCO n) : ∀ a b c, CrashOnly (evalInfix (n+1) a b c) := by
  intro a b c; unfold evalInfix; crashonly_ih ih

theorem cos_evalIf (n : Nat) (ih : AllCO n) : ∀ a b c d, CrashOnly (evalIf (n+1) a b c d) := by
  intro a b c d; unfold evalIf; crashonly_ih ih

theorem cos_evalElifs (n : Nat) (ih : AllCO n) : ∀ a b, CrashOnly (evalElifs (n+1) a b) := by
  intro a b; unfold evalElifs; crashonly_ih ih

theorem cos_evalBlock (n : Nat) (ih : AllCO n) : ∀ a, CrashOnly (evalBlock (n+1) a) := by
  intro a; unfold evalBlock; crashonly_ih ih

theorem cos_evalStmts (n : Nat) (ih : AllCO n) : ∀ a b, CrashOnly (evalStmts (n+1) a b) := by
  intro a b; unfold evalStmts; crashonly_ih ih

theorem cos_evalStmt (n : Nat) (ih : AllCO n) : ∀ a, CrashOnly (evalStmt (n+1) a) := by
  intro a; unfold evalStmt; crashonly_ih ih

theorem cos_evalStmtBody (n : Nat) (ih : AllCO n) : ∀ a, CrashOnly (evalStmtBody (n+1) a) := by
  intro a; unfold evalStmtBody; crashonly_ih ih

theorem cos_evalFor (n : Nat) (ih : AllCO n) : ∀ a b c d, CrashOnly (evalFor (n+1) a b c d) := by
  intro a b c d; unfold evalFor; crashonly_ih ih

theorem cos_forBody (n : Nat) (ih : AllCO n) : ∀ a b c d, CrashOnly (forBody (n+1) a b c d) := by
  intro a b c d; unfold forBody; crashonly_ih ih

theorem cos_forItems (n : Nat) (ih : AllCO n) : ∀ a b c d e, CrashOnly (forItems (n+1) a b c d e) := by
  intro a b c d e; unfold forItems; crashonly_ih ih

theorem cos_forRanger (n : Nat) (ih : AllCO n) : ∀ a b c d e f, CrashOnly (forRanger (n+1) a b c d e f) := by
  intro a b c d e f; unfold forRanger; crashonly_ih ih

theorem cos_evalIndex (n : Nat) (ih : AllCO n) : ∀ a b c d, CrashOnly (evalIndex (n+1) a b c d) := by
  intro a b c d; unfold evalIndex; crashonly_ih ih

theorem cos_evalUserFn (n : Nat) (ih : AllCO n) : ∀ a b c, CrashOnly (evalUserFn (n+1) a b c) := by
  intro a b c; unfold evalUserFn; crashonly_ih ih

theorem cos_fnBody (n : Nat) (ih : AllCO n) : ∀ a b c, CrashOnly (fnBody (n+1) a b c) := by
  intro a b c; unfold fnBody; crashonly_ih ih

theorem cos_evalCall (n : Nat) (ih : AllCO n) : ∀ a b c d e, CrashOnly (evalCall (n+1) a b c d e) := by
  intro a b c d e; unfold evalCall; crashonly_ih ih

theorem cos_bindArgs (n : Nat) (ih : AllCO n) : ∀ a b c d, CrashOnly (bindArgs (n+1) a b c d) := by
  intro a b c d; unfold bindArgs; crashonly_ih ih

theorem cos_bindFixed (n : Nat) (ih : AllCO n) : ∀ a b c, CrashOnly (bindFixed (n+1) a b c) := by
  intro a b c; unfold bindFixed; crashonly_ih ih

theorem cos_bindVariadic (n : Nat) (ih : AllCO n) : ∀ a b c, CrashOnly (bindVariadic (n+1) a b c) := by
  intro a b c; unfold bindVariadic; crashonly_ih ih

theorem cos_blockWith (n : Nat) (ih : AllCO n) : ∀ a b, CrashOnly (blockWith (n+1) a b) := by
  intro a b; unfold blockWith; crashonly_ih ih

theorem cos_callHelper (n : Nat) (ih : AllCO n) : ∀ a b, CrashOnly (callHelper (n+1) a b) := by
  intro a b; unfold callHelper; crashonly_ih ih

theorem cos_partialHelper (n : Nat) (ih : AllCO n) : ∀ a b c, CrashOnly (partialHelper (n+1) a b c) := by
  intro a b c; unfold partialHelper; crashonly_ih ih

theorem cos_renderIn (n : Nat) (ih : AllCO n) : ∀ a b, CrashOnly (renderIn (n+1) a b) := by
  intro a b
  unfold renderIn
  obtain ⟨r, hr⟩ := parseBytes_total a     -- Theorem B: the parser never fails
  obtain ⟨prog, errs⟩ := r
  rw [hr]
  dsimp only
  crashonly_ih ih

theorem cos_compileStmts (n : Nat) (ih : AllCO n) : ∀ a b, CrashOnly (compileStmts (n+1) a b) := by
  intro a b; unfold compileStmts; crashonly_ih ih

theorem coz_evalExpr : ∀ a, CrashOnly (evalExpr 0 a) := by
  intro a; unfold evalExpr; crashonly

theorem coz_evalExprs : ∀ a, CrashOnly (evalExprs 0 a) := by
  intro a; unfold evalExprs; crashonly

theorem coz_evalHashPairs : ∀ a b, CrashOnly (evalHashPairs 0 a b) := by
  intro a b; unfold evalHashPairs; crashonly

theorem coz_evalIdent : ∀ a, CrashOnly (evalIdent 0 a) := by
  intro a; unfold evalIdent; crashonly

theorem coz_evalInfix : ∀ a b c, CrashOnly (evalInfix 0 a b c) := by
  intro a b c; unfold evalInfix; crashonly

theorem coz_evalIf : ∀ a b c d, CrashOnly (evalIf 0 a b c d) := by
  intro a b c d; unfold evalIf; crashonly

theorem coz_evalElifs : ∀ a b, CrashOnly (evalElifs 0 a b) := by
  intro a b; unfold evalElifs; crashonly

theorem coz_evalBlock : ∀ a, CrashOnly (evalBlock 0 a) := by
  intro a; unfold evalBlock; crashonly

theorem coz_evalStmts : ∀ a b, CrashOnly (evalStmts 0 a b) := by
  intro a b; unfold evalStmts; crashonly

theorem coz_evalStmt : ∀ a, CrashOnly (evalStmt 0 a) := by
  intro a; unfold evalStmt; crashonly

theorem coz_evalStmtBody : ∀ a, CrashOnly (evalStmtBody 0 a) := by
  intro a; unfold evalStmtBody; crashonly

theorem coz_evalFor : ∀ a b c d, CrashOnly (evalFor 0 a b c d) := by
  intro a b c d; unfold evalFor; crashonly

theorem coz_forBody : ∀ a b c d, CrashOnly (forBody 0 a b c d) := by
  intro a b c d; unfold forBody; crashonly

theorem coz_forItems : ∀ a b c d e, CrashOnly (forItems 0 a b c d e) := by
  intro a b c d e; unfold forItems; crashonly

theorem coz_forRanger : ∀ a b c d e f, CrashOnly (forRanger 0 a b c d e f) := by
  intro a b c d e f; unfold forRanger; crashonly

theorem coz_evalIndex : ∀ a b c d, CrashOnly (evalIndex 0 a b c d) := by
  intro a b c d; unfold evalIndex; crashonly

theorem coz_evalUserFn : ∀ a b c, CrashOnly (evalUserFn 0 a b c) := by
  intro a b c; unfold evalUserFn; crashonly

theorem coz_fnBody : ∀ a b c, CrashOnly (fnBody 0 a b c) := by
  intro a b c; unfold fnBody; crashonly

theorem coz_evalCall : ∀ a b c d e, CrashOnly (evalCall 0 a b c d e) := by
  intro a b c d e; unfold evalCall; crashonly

theorem coz_bindArgs : ∀ a b c d, CrashOnly (bindArgs 0 a b c d) := by
  intro a b c d; unfold bindArgs; crashonly

theorem coz_bindFixed : ∀ a b c, CrashOnly (bindFixed 0 a b c) := by
  intro a b c; unfold bindFixed; crashonly

theorem coz_bindVariadic : ∀ a b c, CrashOnly (bindVariadic 0 a b c) := by
  intro a b c; unfold bindVariadic; crashonly

theorem coz_blockWith : ∀ a b, CrashOnly (blockWith 0 a b) := by
  intro a b; unfold blockWith; crashonly

theorem coz_callHelper : ∀ a b, CrashOnly (callHelper 0 a b) := by
  intro a b; unfold callHelper; crashonly

theorem coz_partialHelper : ∀ a b c, CrashOnly (partialHelper 0 a b c) := by
  intro a b c; unfold partialHelper; crashonly

theorem coz_renderIn : ∀ a b, CrashOnly (renderIn 0 a b) := by
  intro a b; unfold renderIn; crashonly

theorem coz_compileStmts : ∀ a b, CrashOnly (compileStmts 0 a b) := by
  intro a b; unfold compileStmts; crashonly

theorem allCO : ∀ n, AllCO n := by
  intro n
  induction n with
  | zero => exact ⟨coz_evalExpr, coz_evalExprs, coz_evalHashPairs, coz_evalIdent, coz_evalInfix, coz_evalIf, coz_evalElifs, coz_evalBlock, coz_evalStmts, coz_evalStmt, coz_evalStmtBody, coz_evalFor, coz_forBody, coz_forItems, coz_forRanger, coz_evalIndex, coz_evalUserFn, coz_fnBody, coz_evalCall, coz_bindArgs, coz_bindFixed, coz_bindVariadic, coz_blockWith, coz_callHelper, coz_partialHelper, coz_renderIn, coz_compileStmts⟩
  | succ n ih => exact ⟨cos_evalExpr n ih, cos_evalExprs n ih, cos_evalHashPairs n ih, cos_evalIdent n ih, cos_evalInfix n ih, cos_evalIf n ih, cos_evalElifs n ih, cos_evalBlock n ih, cos_evalStmts n ih, cos_evalStmt n ih, cos_evalStmtBody n ih, cos_evalFor n ih, cos_forBody n ih, cos_forItems n ih, cos_forRanger n ih, cos_evalIndex n ih, cos_evalUserFn n ih, cos_fnBody n ih, cos_evalCall n ih, cos_bindArgs n ih, cos_bindFixed n ih, cos_bindVariadic n ih, cos_blockWith n ih, cos_callHelper n ih, cos_partialHelper n ih, cos_renderIn n ih, cos_compileStmts n ih⟩

end Plush
