import PlushProofs.Lib.ParserEqs
import PlushProofs.Lib.LexerTotal
namespace Plush
namespace P

theorem Fr.trans' {a c d : PS} (h2 : Fr c d) (h1 : Fr a c) : Fr a d := h1.trans h2
macro "fr0" : tactic => `(tactic| exact ⟨rfl, rfl, by (try dsimp only); omega⟩)
/-- unpack a frame into rewrite-ready facts -/
macro "unfr" h:ident : tactic => `(tactic| (have ft := Fr.toks $h; have fe := Fr.eof $h; have fp := Fr.pos $h; have fs := Fr.size $h; try dsimp only at ft fe fp fs))
macro "fr_leaf" : tactic => `(tactic| (refine ⟨?_, ?_, ?_⟩ <;> (try dsimp only) <;> first | rfl | omega | simp only [*] ))
macro "fuel_tac" : tactic => `(tactic| (simp only [rem, C] at *; omega))

theorem step_comment (n : Nat) (ih : AllOK n) :
    ∀ s, EofOK s → 8 + C * rem s ≤ n + 1 → OK (commentLoop (n+1)) s (fun _ s' => Fr s s') := by
  intro s e hf
  rw [commentLoop_eq]
  simp only [OK_bind, OK_cur, OK_ite, OK_nextTok, OK_pure]
  split
  · rename_i h
    simp only [Bool.and_eq_true, bne_iff_ne, ne_eq] at h
    have hlt := lt_size_of_ne_eof e h.2
    refine OK_conseq (ih.comment _ e ?_) (fun a s' fr => (Fr.step s).trans fr)
    fuel_tac
  · exact Fr.refl s

theorem step_paramLoop (n : Nat) (ih : AllOK n) :
    ∀ s a, EofOK s → 6 + C * rem s ≤ n + 1 → OK (paramLoop (n+1) a) s (fun _ s' => Fr s s') := by
  intro s a e hf
  rw [paramLoop_eq]
  simp only [OK_bind, OK_cur, OK_ite, OK_nextTok, OK_pure, OK_peekIs]
  split
  · rename_i h
    have hlt := lt_size_of_beq e h (by decide)
    refine OK_conseq (ih.paramLoop _ _ e ?_) (fun a s' fr => fr.trans' (by fr0))
    fuel_tac
  · exact Fr.refl s

theorem step_forNames (n : Nat) (ih : AllOK n) :
    ∀ s ln a, EofOK s → 6 + C * rem s ≤ n + 1 → OK (forNamesLoop (n+1) ln a) s (fun _ s' => Fr s s') := by
  intro s ln a e hf
  rw [forNamesLoop_eq]
  simp only [OK_bind, OK_cur, OK_ite, OK_nextTok, OK_pure, OK_peek, OK_addErr]
  split
  · split
    · exact ⟨rfl, rfl, Nat.le_refl _⟩
    · rename_i h1 h2
      simp only [Bool.or_eq_true, beq_iff_eq, not_or] at h2
      have hlt := lt_size_of_ne_eof e h2.2
      refine OK_conseq (ih.forNames _ _ _ e ?_) (fun a s' fr => (Fr.step s).trans fr)
      fuel_tac
  · exact Fr.refl s

theorem step_params (n : Nat) (ih : AllOK n) :
    ∀ s, EofOK s → 8 + C * rem s ≤ n + 1 → OK (parseFunctionParameters (n+1)) s (fun _ s' => Fr s s') := by
  intro s e hf
  rw [parseFunctionParameters_eq]
  simp only [OK_bind, OK_cur, OK_ite, OK_nextTok, OK_pure, OK_peekIs, expectPeek, OK_errHere]
  split
  · exact Fr.step s
  · refine OK_conseq (ih.paramLoop _ _ e ?_) ?_
    · fuel_tac
    · intro a s' fr
      unfr fr
      repeat' split
      all_goals fr_leaf

theorem OK_skipSemicolon (s : PS) (Q : Unit → PS → Prop) :
    OK skipSemicolon s Q ↔ (if ((tokAt s (s.pos + 1)).type == TT.SEMICOLON) = true then Q () { s with pos := s.pos + 1 } else Q () s) := by
  simp only [skipSemicolon, OK_bind, OK_peekIs, OK_ite, OK_nextTok, OK_pure]

theorem OK_expectPeek (t : TT) (s : PS) (Q : Bool → PS → Prop) :
    OK (expectPeek t) s Q ↔ (if ((tokAt s (s.pos + 1)).type == t) = true then Q true { s with pos := s.pos + 1 }
      else Q false { s with errs := s.errs.push { line := some (tokAt s s.pos).line, kind := "expected-next-token" } }) := by
  simp only [expectPeek, OK_bind, OK_peekIs, OK_ite, OK_nextTok, OK_pure, OK_errHere]

macro "pm_simp" : tactic => `(tactic| try simp only [OK_bind, OK_cur, OK_peek, OK_nextTok, OK_pure, OK_curIs, OK_peekIs, OK_addErr,
  OK_errHere, OK_peekPrecedence, OK_curPrecedence, OK_ite, OK_map, OK_get, OK_set, OK_modify, OK_skipSemicolon, OK_expectPeek,
  Bool.not_true, Bool.not_false, Bool.false_eq_true, if_false, if_true])

theorem step_stmt (n : Nat) (ih : AllOK n) :
    ∀ s, EofOK s → 18 + C * rem s ≤ n + 1 → OK (parseStatement (n+1)) s (fun _ s' => Fr s s') := by
  intro s e hf
  rw [parseStatement_eq]
  pm_simp
  split <;> pm_simp
  · exact OK_conseq (ih.let_ _ e (by fuel_tac)) (fun a s' fr => fr)
  · rename_i h
    have hlt := lt_size_of_ne_eof (i := s.pos) e (by rw [h]; decide)
    exact OK_conseq (ih.stmt _ e (by fuel_tac)) (fun a s' fr => fr.trans' (by fr0))
  · exact OK_conseq (ih.ret _ _ e (by fuel_tac)) (fun a s' fr => fr)
  · exact OK_conseq (ih.ret _ _ e (by fuel_tac)) (fun a s' fr => fr)
  · exact Fr.refl s
  · exact Fr.refl s
  · exact OK_conseq (ih.exprStmt _ e (by fuel_tac)) (fun a s' fr => fr)

theorem step_ret (n : Nat) (ih : AllOK n) :
    ∀ s o, EofOK s → 16 + C * rem s ≤ n + 1 → OK (parseReturnStatement (n+1) o) s (fun _ s' => Fr s s') := by
  intro s o e hf
  rw [parseReturnStatement_eq]
  pm_simp
  refine OK_conseq (ih.expr _ _ e (by fuel_tac)) ?_
  intro a s2 fr; unfr fr
  repeat' split
  all_goals fr_leaf

theorem step_exprStmt (n : Nat) (ih : AllOK n) :
    ∀ s, EofOK s → 16 + C * rem s ≤ n + 1 → OK (parseExpressionStatement (n+1)) s (fun _ s' => Fr s s') := by
  intro s e hf
  rw [parseExpressionStatement_eq]
  pm_simp
  refine OK_conseq (ih.expr _ _ e (by fuel_tac)) ?_
  intro a s2 fr; unfr fr
  repeat' split
  all_goals fr_leaf

theorem step_let (n : Nat) (ih : AllOK n) :
    ∀ s, EofOK s → 16 + C * rem s ≤ n + 1 → OK (parseLetStatement (n+1)) s (fun _ s' => Fr s s') := by
  intro s e hf
  rw [parseLetStatement_eq]
  pm_simp
  split
  · rename_i h1
    have hlt := lt_size_of_beq e h1 (by decide)
    split
    · refine OK_conseq (ih.expr _ _ e (by fuel_tac)) ?_
      intro a s2 fr; unfr fr
      repeat' split
      all_goals fr_leaf
    · fr0
  · fr0

theorem prefix_eof_none : lookupLast TT.EOF Gen.prefixFns = none := by decide
theorem infix_eof_none : lookupLast TT.EOF Gen.infixFns = none := by decide

theorem prefix_ne_eof {t : TT} {f : Gen.PrefixFn} (h : lookupLast t Gen.prefixFns = some f) : t ≠ .EOF := by
  intro h0; subst h0; rw [prefix_eof_none] at h; cases h

theorem infix_ne_eof {t : TT} {f : Gen.InfixFn} (h : lookupLast t Gen.infixFns = some f) : t ≠ .EOF := by
  intro h0; subst h0; rw [infix_eof_none] at h; cases h

attribute [local irreducible] Gen.prefixFns Gen.infixFns Gen.precedences

theorem step_expr (n : Nat) (ih : AllOK n) :
    ∀ s p, EofOK s → 14 + C * rem s ≤ n + 1 → OK (parseExpression (n+1) p) s (fun _ s' => Fr s s') := by
  intro s p e hf
  rw [parseExpression_eq]
  pm_simp
  split
  · exact Fr.refl s
  · split <;> pm_simp
    · fr0
    · rename_i f hfn
      have hlt := lt_size_of_ne_eof e (prefix_ne_eof hfn)
      refine OK_conseq (ih.runPrefix _ _ e hlt (by fuel_tac)) ?_
      intro a s2 fr; unfr fr
      exact OK_conseq (ih.infixLoop _ _ _ (fr.eofOK e) (by fuel_tac)) (fun a s' fr' => fr.trans fr')

theorem step_infixLoop (n : Nat) (ih : AllOK n) :
    ∀ s p l, EofOK s → 12 + C * rem s ≤ n + 1 → OK (infixLoop (n+1) p l) s (fun _ s' => Fr s s') := by
  intro s p l e hf
  rw [infixLoop_eq]
  pm_simp
  split
  · split <;> pm_simp
    · exact Fr.refl s
    · rename_i f hfn
      have hlt := lt_size_of_ne_eof e (infix_ne_eof hfn)
      refine OK_conseq (ih.runInfix _ _ _ e (by (try dsimp only); omega) (by fuel_tac)) ?_
      intro a s2 fr; unfr fr
      exact OK_conseq (ih.infixLoop _ _ _ (fr.eofOK e) (by fuel_tac)) (fun a s' fr' => (fr.trans fr').trans' (by fr0))
  · exact Fr.refl s

theorem step_exprListLoop (n : Nat) (ih : AllOK n) :
    ∀ s a, EofOK s → 6 + C * rem s ≤ n + 1 → OK (exprListLoop (n+1) a) s (fun _ s' => Fr s s') := by
  intro s a e hf
  rw [exprListLoop_eq]
  pm_simp
  split
  · rename_i h
    have hlt := lt_size_of_beq e h (by decide)
    refine OK_conseq (ih.expr _ _ e (by fuel_tac)) ?_
    intro a s2 fr; unfr fr
    exact OK_conseq (ih.exprListLoop _ _ (fr.eofOK e) (by fuel_tac)) (fun a s' fr' => (fr.trans fr').trans' (by fr0))
  · exact Fr.refl s

theorem step_exprList (n : Nat) (ih : AllOK n) :
    ∀ s t, EofOK s → s.pos < s.toks.size → 8 + C * rem s ≤ n + 1 → OK (parseExpressionList (n+1) t) s (fun _ s' => Fr s s') := by
  intro s t e hlt hf
  rw [parseExpressionList_eq]
  pm_simp
  split
  · fr0
  · refine OK_conseq (ih.expr _ _ e (by fuel_tac)) ?_
    intro a s2 fr; unfr fr
    refine OK_conseq (ih.exprListLoop _ _ (fr.eofOK e) (by fuel_tac)) ?_
    intro a s3 fr3; unfr fr3
    pm_simp
    repeat' split
    all_goals fr_leaf

theorem step_block (n : Nat) (ih : AllOK n) :
    ∀ s, EofOK s → 22 + C * rem s ≤ n + 1 → OK (parseBlockStatement (n+1)) s (fun _ s' => Fr s s') := by
  intro s e hf
  rw [parseBlockStatement_eq]
  pm_simp
  exact OK_conseq (ih.blockLoop _ _ e (by fuel_tac)) (fun a s' fr => fr.trans' (by fr0))

theorem step_blockLoop (n : Nat) (ih : AllOK n) :
    ∀ s a, EofOK s → 20 + C * rem s ≤ n + 1 → OK (blockLoop (n+1) a) s (fun _ s' => Fr s s') := by
  intro s a e hf
  rw [blockLoop_eq]
  pm_simp
  split
  · rename_i h
    simp only [Bool.and_eq_true, bne_iff_ne, ne_eq] at h
    have hlt := lt_size_of_ne_eof e h.2
    split
    · exact OK_conseq (ih.blockLoop _ _ e (by fuel_tac)) (fun a s' fr => fr.trans' (by fr0))
    · refine OK_conseq (ih.stmt _ e (by fuel_tac)) ?_
      intro a s2 fr; unfr fr
      exact OK_conseq (ih.blockLoop _ _ (fr.eofOK e) (by fuel_tac)) (fun a s' fr' => (fr.trans' (Fr.refl _)).trans (Fr.trans (by fr0) fr'))
  · exact Fr.refl s

theorem step_runPrefix (n : Nat) (ih : AllOK n) :
    ∀ s f, EofOK s → s.pos < s.toks.size → 12 + C * rem s ≤ n + 1 → OK (runPrefix (n+1) f) s (fun _ s' => Fr s s') := by
  intro s f e hlt hf
  rw [runPrefix_eq]
  pm_simp
  split <;> pm_simp
  · -- parseIdentifier / parseAssignExpression
    split
    · refine OK_conseq (ih.expr _ _ e (by fuel_tac)) ?_
      intro a s2 fr; unfr fr
      repeat' split
      all_goals fr_leaf
    · exact Fr.refl s
  · repeat' split
    all_goals fr_leaf
  · split <;> pm_simp
    · exact Fr.refl s
    · fr0
  · repeat' split
    all_goals fr_leaf
  · exact Fr.refl s
  · exact OK_conseq (ih.comment _ e (by fuel_tac)) (fun a s' fr => fr)
  · exact Fr.refl s
  · exact OK_conseq (ih.expr _ _ e (by fuel_tac)) (fun a s' fr => fr.trans' (by fr0))
  · exact Fr.refl s
  · refine OK_conseq (ih.expr _ _ e (by fuel_tac)) ?_
    intro a s2 fr; unfr fr
    repeat' split
    all_goals fr_leaf
  · exact OK_conseq (ih.if_ _ e (by fuel_tac)) (fun a s' fr => fr)
  · refine OK_conseq (ih.for_ _ e (by fuel_tac)) ?_
    intro a s2 fr; unfr fr
    fr_leaf
  · -- parseFunctionLiteral
    split
    · refine OK_conseq (ih.params _ e (by fuel_tac)) ?_
      intro a s2 fr; unfr fr
      split
      · rename_i h2
        refine OK_conseq (ih.block _ (fr.eofOK e) (by fuel_tac)) ?_
        intro a s3 fr3; unfr fr3
        fr_leaf
      · fr_leaf
    · fr0
  · exact OK_conseq (ih.exprList _ _ e hlt (by fuel_tac)) (fun a s' fr => fr)
  · exact OK_conseq (ih.hash _ _ _ e hlt (by fuel_tac)) (fun a s' fr => fr)
  · exact Fr.refl s

theorem assignCallee_ok (pe : Option Expr) (v : Bytes) (s : PS) :
    OK (assignCallee pe v) s (fun _ s' => Fr s s') := by
  unfold assignCallee
  split <;> pm_simp <;> first | exact Fr.refl s | fr0

theorem step_runInfix (n : Nat) (ih : AllOK n) :
    ∀ s f l, EofOK s → s.pos < s.toks.size → 10 + C * rem s ≤ n + 1 → OK (runInfix (n+1) f l) s (fun _ s' => Fr s s') := by
  intro s f l e hlt hf
  rw [runInfix_eq]
  pm_simp
  split <;> pm_simp
  · exact OK_conseq (ih.expr _ _ e (by fuel_tac)) (fun a s' fr => fr.trans' (by fr0))
  · -- parseCallExpression
    split <;> pm_simp
    · fr0
    · refine OK_conseq (ih.exprList _ _ e hlt (by fuel_tac)) ?_
      intro args s2 fr; unfr fr
      have e2 := fr.eofOK e
      split
      · rename_i hb
        have hl2 := lt_size_of_beq e2 hb (by decide)
        refine OK_conseq (ih.block _ e2 (by fuel_tac)) ?_
        intro blk s3 fr3; unfr fr3
        have e3 := fr3.eofOK e2
        pm_simp
        split
        · rename_i hd
          have hl3 := lt_size_of_beq e3 hd (by decide)
          refine OK_conseq (ih.expr _ _ e3 (by fuel_tac)) ?_
          intro pe s4 fr4; unfr fr4
          refine OK_conseq (assignCallee_ok _ _ _) ?_
          intro r s5 fr5; unfr fr5
          split <;> pm_simp <;> fr_leaf
        · fr_leaf
      · have e3 := e2
        split
        · rename_i hd
          have hl3 := lt_size_of_beq e3 hd (by decide)
          refine OK_conseq (ih.expr _ _ e3 (by fuel_tac)) ?_
          intro pe s4 fr4; unfr fr4
          refine OK_conseq (assignCallee_ok _ _ _) ?_
          intro r s5 fr5; unfr fr5
          split <;> pm_simp <;> fr_leaf
        · fr_leaf
  · -- parseIndexExpression
    split <;> pm_simp
    · fr0
    · refine OK_conseq (ih.expr _ _ e (by fuel_tac)) ?_
      intro ix s2 fr; unfr fr
      have e2 := fr.eofOK e
      split
      · rename_i hrb
        have hl2 := lt_size_of_beq e2 hrb (by decide)
        split
        · rename_i hd
          have hl3 := lt_size_of_beq (show EofOK _ from e2) hd (by decide)
          try dsimp only at hl3
          refine OK_conseq (ih.expr _ _ e2 (by fuel_tac)) ?_
          intro pe s4 fr4; unfr fr4
          have e4 := fr4.eofOK e2
          refine OK_conseq (assignCallee_ok _ _ _) ?_
          intro r s5 fr5; unfr fr5
          have e5 := fr5.eofOK e4
          split <;> pm_simp
          · fr_leaf
          · split
            · rename_i ha
              have hl5 := lt_size_of_beq e5 ha (by decide)
              refine OK_conseq (ih.expr _ _ e5 (by fuel_tac)) ?_
              intro v s6 fr6; unfr fr6
              fr_leaf
            · fr_leaf
        · split
          · rename_i ha
            have hl3 := lt_size_of_beq (show EofOK _ from e2) ha (by decide)
            try dsimp only at hl3
            refine OK_conseq (ih.expr _ _ e2 (by fuel_tac)) ?_
            intro v s6 fr6; unfr fr6
            fr_leaf
          · fr_leaf
      · fr_leaf

theorem step_hash (n : Nat) (ih : AllOK n) :
    ∀ s t a, EofOK s → s.pos < s.toks.size → 8 + C * rem s ≤ n + 1 → OK (hashLoop (n+1) t a) s (fun _ s' => Fr s s') := by
  intro s t a e hlt hf
  rw [hashLoop_eq]
  pm_simp
  split
  · refine OK_conseq (ih.expr _ _ e (by fuel_tac)) ?_
    intro k s2 fr; unfr fr
    have e2 := fr.eofOK e
    split
    · rename_i hc
      have hl2 := lt_size_of_beq e2 hc (by decide)
      refine OK_conseq (ih.expr _ _ e2 (by fuel_tac)) ?_
      intro v s3 fr3; unfr fr3
      have e3 := fr3.eofOK e2
      split
      · split
        · rename_i hcm
          have hl3 := lt_size_of_beq e3 hcm (by decide)
          refine OK_conseq (ih.hash _ _ _ e3 (by (try dsimp only); omega) (by fuel_tac)) ?_
          intro r s4 fr4; unfr fr4
          fr_leaf
        · fr_leaf
      · rename_i hrb
        simp only [ne_eq, Bool.not_eq_eq_eq_not, Bool.not_true, beq_eq_false_iff_ne, Decidable.not_not] at hrb
        have hl3 : s3.pos + 1 < s3.toks.size := lt_size_of_beq e3 (by simpa using hrb) (t := TT.RBRACE) (by decide)
        refine OK_conseq (ih.hash _ _ _ e3 (by omega) (by fuel_tac)) ?_
        intro r s4 fr4; unfr fr4
        fr_leaf
    · fr_leaf
  · repeat' split
    all_goals fr_leaf

theorem step_if (n : Nat) (ih : AllOK n) :
    ∀ s, EofOK s → 8 + C * rem s ≤ n + 1 → OK (parseIfExpression (n+1)) s (fun _ s' => Fr s s') := by
  intro s e hf
  rw [parseIfExpression_eq]
  pm_simp
  split
  · rename_i hlp
    have hl := lt_size_of_beq e hlp (by decide)
    refine OK_conseq (ih.expr _ _ e (by fuel_tac)) ?_
    intro c s2 fr; unfr fr
    have e2 := fr.eofOK e
    split
    · fr_leaf
    · split
      · rename_i hrp
        have hl2 := lt_size_of_beq (show EofOK _ from e2) hrp (by decide)
        try dsimp only at hl2
        split
        · refine OK_conseq (ih.block _ e2 (by fuel_tac)) ?_
          intro b s3 fr3; unfr fr3
          have e3 := fr3.eofOK e2
          refine OK_conseq (ih.elseLoop _ _ _ _ _ _ e3 (by fuel_tac)) ?_
          intro r s4 fr4; unfr fr4
          fr_leaf
        · fr_leaf
      · fr_leaf
  · fr0

theorem step_elseLoop (n : Nat) (ih : AllOK n) :
    ∀ s t c b el l, EofOK s → 6 + C * rem s ≤ n + 1 → OK (elseLoop (n+1) t c b el l) s (fun _ s' => Fr s s') := by
  intro s t c b el l e hf
  rw [elseLoop_eq]
  pm_simp
  split
  · rename_i hel
    have hl := lt_size_of_beq e hel (by decide)
    split
    · split
      · refine OK_conseq (ih.expr _ _ e (by fuel_tac)) ?_
        intro ec s2 fr; unfr fr
        have e2 := fr.eofOK e
        split
        · split
          · refine OK_conseq (ih.block _ e2 (by fuel_tac)) ?_
            intro eb s3 fr3; unfr fr3
            have e3 := fr3.eofOK e2
            refine OK_conseq (ih.elseLoop _ _ _ _ _ _ e3 (by fuel_tac)) ?_
            intro r s4 fr4; unfr fr4
            fr_leaf
          · fr_leaf
        · fr_leaf
      · fr_leaf
    · split
      · refine OK_conseq (ih.block _ e (by fuel_tac)) ?_
        intro eb s3 fr3; unfr fr3
        have e3 := fr3.eofOK e
        refine OK_conseq (ih.elseLoop _ _ _ _ _ _ e3 (by fuel_tac)) ?_
        intro r s4 fr4; unfr fr4
        fr_leaf
      · fr_leaf
  · exact Fr.refl s

theorem step_for (n : Nat) (ih : AllOK n) :
    ∀ s, EofOK s → 8 + C * rem s ≤ n + 1 → OK (parseForExpression (n+1)) s (fun _ s' => Fr s s') := by
  intro s e hf
  rw [parseForExpression_eq]
  pm_simp
  split
  · rename_i hlp
    have hl := lt_size_of_beq e hlp (by decide)
    refine OK_conseq (ih.forNames _ _ _ e (by fuel_tac)) ?_
    intro nm s2 fr; unfr fr
    have e2 := fr.eofOK e
    split <;> pm_simp
    · fr_leaf
    · split
      · fr_leaf
      · rename_i hin
        have hl2 : s2.pos + 1 < s2.toks.size := by
          apply lt_size_of_ne_eof e2 (i := s2.pos + 1)
          intro h0
          apply hin
          show (!(tokAt s2 (s2.pos + 1)).type == TT.IN) = true
          rw [h0]; decide
        refine OK_conseq (ih.expr _ _ e2 (by fuel_tac)) ?_
        intro it s3 fr3; unfr fr3
        have e3 := fr3.eofOK e2
        split <;> pm_simp
        · fr_leaf
        · split
          · refine OK_conseq (ih.block _ e3 (by fuel_tac)) ?_
            intro bl s4 fr4; unfr fr4
            fr_leaf
          · fr_leaf
  · fr0

/-- every function of the mutual block returns normally when its budget covers `K_f + 64·(tokens left)` -/
theorem allOK : ∀ n, AllOK n := by
  intro n
  induction n with
  | zero =>
    constructor <;> intros <;> exfalso <;> simp only [C] at * <;> omega
  | succ n ih =>
    exact ⟨step_stmt n ih, step_ret n ih, step_let n ih, step_exprStmt n ih, step_expr n ih, step_infixLoop n ih,
      step_runPrefix n ih, step_comment n ih, step_runInfix n ih, step_exprList n ih, step_exprListLoop n ih,
      step_hash n ih, step_params n ih, step_paramLoop n ih, step_block n ih, step_blockLoop n ih, step_if n ih,
      step_elseLoop n ih, step_for n ih, step_forNames n ih⟩

theorem programLoop_ok (fuel : Nat) :
    ∀ (n : Nat) (s : PS) (acc : List Stmt), EofOK s → rem s < n → 18 + C * rem s ≤ fuel →
      OK (programLoop n fuel acc) s (fun _ s' => Fr s s') := by
  intro n
  induction n with
  | zero => intro s acc _ h; omega
  | succ n ih =>
    intro s acc e hn hf
    unfold programLoop
    pm_simp
    split
    · rename_i hne
      have hlt : s.pos < s.toks.size := by
        apply lt_size_of_ne_eof e
        intro h0; rw [h0] at hne; exact absurd hne (by decide)
      refine OK_conseq ((allOK fuel).stmt _ e hf) ?_
      intro st s2 fr; unfr fr
      have e2 := fr.eofOK e
      refine OK_conseq (ih _ _ e2 (by fuel_tac) (by fuel_tac)) ?_
      intro r s3 fr3; unfr fr3
      fr_leaf
    · exact Fr.refl s

end P

/-- THEOREM B. On every token array whose end-of-input token is EOF, the parser model returns a program and
    an error list: the depth budget `parseFuel` is never exhausted (`outOfFuel`, the model's stand-in for a
    hang or a stack overflow, is unreachable), and the model has no other failure. -/
theorem parseToks_total (toks : Array Token)
    (h : (toks.back?.getD { type := .EOF, lit := [], line := 1 }).type = .EOF) :
    ∃ r, parseToks toks = .ok r := by
  unfold parseToks
  simp only
  have := P.programLoop_ok (parseFuel toks.size) (toks.size + 4)
    { toks := toks, eof := toks.back?.getD { type := .EOF, lit := [], line := 1 } } [] h
    (by simp [P.rem]) (by simp [P.rem, parseFuel, P.C]; omega)
  obtain ⟨a, s', hrun, _⟩ := this
  refine ⟨({ stmts := a }, s'.errs), ?_⟩
  simp only [StateT.run]
  rw [hrun]

/-- …and therefore on every source text (Theorem A supplies the EOF tail of the token stream). -/
theorem parseBytes_total (src : Bytes) : ∃ r, parseBytes src = .ok r := by
  unfold parseBytes
  apply parseToks_total
  exact lexAll_back_eof src.toArray _

end Plush
