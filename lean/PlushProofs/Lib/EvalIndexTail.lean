import PlushModel
import PlushProofs.Lib.EvalKeepsTree
import PlushProofs.Props.C10
/-!
  C11 helper: the tail of an index-then-member access `a[i].name` is evaluated on THE INDEXED ELEMENT.
-/
namespace Plush
open EM

/-- reading back a key just written in an existing frame -/
theorem Store.value_set_same (st : Store) (c : Nat) (k : Bytes) (v : Val) (hc : c < st.frames.size) :
    (st.set c k v).value c k = v := by
  unfold Store.set
  have hf : st.frames[c]? = some st.frames[c] := Array.getElem?_eq_getElem hc
  rw [hf]
  simp only [Store.value, Store.valueF, Array.set!_eq_setIfInBounds, Array.getElem?_setIfInBounds, hc, if_true,
    lookupKey_setKey, beq_self_eq_true]

/-- the tail of `a[i].name`: in the fresh child scope the element is bound under the callee root `cv`, the tail
    `cv.name` is evaluated there and the caller's scope is current again afterwards -/
def indexTail (f : Nat) (t : Token) (cv name : Bytes) (elem : Val) : EM Val := do
  let octx ← getCur
  let c ← ctxNewChild octx
  copyFrame octx c
  ctxSetIn c cv elem
  withCtx c (evalExpr (f + 3) (some (.ident { tok := t, base := some cv, segs := [name] })))

theorem indexTail_uses_element (f : Nat) (t : Token) (cv name : Bytes) (elem : Val) (s : ES) (hne : elem.isNil = false) :
    (indexTail f t cv name elem s).1 = memberStep elem name ∧
      ((∀ x, memberStep elem name ≠ .fatal x) → (indexTail f t cv name elem s).2.cur = s.cur) := by
  unfold indexTail
  simp only [bind, getCur, getS, pure, ctxNewChild]
  -- the state after New(): one more frame
  generalize hnc : s.store.newChild s.cur = nc
  obtain ⟨st1, c⟩ := nc
  have hc : c = s.store.frames.size := by
    have := congrArg Prod.snd hnc; simpa [Store.newChild] using this.symm
  have hg1 : s.store.Grows st1 := by have := Store.newChild_grows s.store s.cur; rw [hnc] at this; exact this
  have hsz1 : s.store.frames.size + 1 ≤ st1.frames.size := by
    have h1 := Store.injectHelpers_grows s.store.frames.size (some s.cur) Gen.helperKeys
      { s.store with frames := s.store.frames.push ⟨[], some s.cur⟩ }
    have : st1 = Store.injectHelpers { s.store with frames := s.store.frames.push ⟨[], some s.cur⟩ } s.store.frames.size (some s.cur) Gen.helperKeys := by
      have := congrArg Prod.fst hnc; simpa [Store.newChild] using this.symm
    rw [this]
    have := h1.1
    simpa using this
  simp only
  -- copyFrame keeps the frames in place
  generalize hcf : copyFrame s.cur c { s with store := st1 } = r2
  obtain ⟨_, s2⟩ := r2
  have hs2 : s2.cur = s.cur ∧ st1.Grows s2.store := by
    have h := (kt_copyFrame s.cur c).grows { s with store := st1 }
    have hcur : (copyFrame s.cur c { s with store := st1 }).2.cur = s.cur := by
      simp only [copyFrame, modifyS]; split <;> rfl
    rw [hcf] at h hcur
    exact ⟨hcur, h⟩
  have hok2 : (copyFrame s.cur c { s with store := st1 }).1 = .ok () := by simp [copyFrame, modifyS]
  rw [hcf] at hok2
  simp only at hok2
  subst hok2
  simp only
  have hclt : c < s2.store.frames.size := by
    have := hs2.2.1; omega
  -- bind the element, switch to the child, evaluate `cv.name`
  simp only [ctxSetIn, modifyS, withCtx, bind, getCur, getS, pure, setCur, attempt]
  have hval : (s2.store.set c cv elem).value c cv = elem := Store.value_set_same s2.store c cv elem hclt
  have hhas : (s2.store.set c cv elem).has c cv = true := by simp [Store.has, hval, hne]
  have hev : evalExpr (f + 3) (some (.ident { tok := t, base := some cv, segs := [name] }))
      { s2 with store := s2.store.set c cv elem, cur := c } = (memberStep elem name, { s2 with store := s2.store.set c cv elem, cur := c }) := by
    simp [evalExpr, evalIdent, bind, ctxHas, getS, pure, ctxValue, hhas, hval, memberOf, List.dropLast]
  simp only [hev]
  cases hms : memberStep elem name <;> simp [hs2.1, throwErr]

/-- `evalIndex` with an identifier tail IS: evaluate index and left, bounds-checked access, nil for a missing
    map key, otherwise `indexTail` on the element -/
theorem evalIndex_tail_eq (f : Nat) (l i : Option Expr) (t : Token) (cv name : Bytes) :
    evalIndex (f + 4) l i none (some (.ident { tok := t, base := some cv, segs := [name] })) = (do
      let index ← evalExpr (f + 3) i
      let left ← evalExpr (f + 3) l
      let elem ← accessIndex left index false
      if (← mapKeyMissing left index) then pure .nil else indexTail f t cv name elem) := by
  unfold evalIndex indexTail
  simp only [calleeRoot, Option.getD_some]

end Plush
