import PlushProofs.Lib.LexerTotal
/-!
  C15, lexer half: a token inside a tag carries the number of the line on which it STARTS:
  1 + the number of line feeds in front of its first byte (after whitespace and `#` comments are skipped).
-/
namespace Plush
namespace LX

/-- where the next tag-mode token starts: after whitespace and `#` line comments -/
def tokStart : Nat → LX → Nat
  | 0, l => l.pos
  | f+1, l =>
    let l1 := l.skipWhitespace
    if l1.ch == 35 then tokStart f (skipLineComment (l1.input.size + 2) l1) else l1.pos

theorem isWhitespace_lf : Gen.isWhitespace 10 = true := by decide

theorem inside_token_line :
    ∀ (fuel : Nat) (l : LX), l.WF → l.input.size - l.pos < fuel →
      (nextInsideToken fuel l).1.line = 1 + countLF l.input (tokStart fuel l) := by
  intro fuel
  induction fuel with
  | zero => intro l _ h; omega
  | succ n ih =>
    intro l w hf
    have sw := skipWhitespace_spec l w
    unfold nextInsideToken tokStart
    simp only []
    generalize hl1 : l.skipWhitespace = l1 at sw ⊢
    have w1 := sw.1.wf
    have hin : l1.input = l.input := sw.1.input
    by_cases hc : (l1.ch == 35) = true
    · simp only [hc, if_true]
      have hne := ne_zero_of_beq hc (by decide)
      have hlt1 := w1.lt_of_ne hne
      have sl := skipLineComment_spec (l1.input.size + 2) l1 w1 (by omega) (by omega)
      have hp := sw.1.pos
      have hgt := sl.2.2.2.2 hne
      have e1 : (skipLineComment (l1.input.size + 2) l1).input.size = l.input.size := by rw [sl.1.input, hin]
      rw [hin] at hlt1
      have := ih _ sl.1.wf (by rw [e1]; omega)
      rw [this, sl.1.input, hin]
    · have hc' := Bool.eq_false_iff.mpr hc
      simp only [hc', Bool.false_eq_true, if_false]
      show l1.line = _
      rw [w1.ln, hin]
      simp only [countLF]
      have hnl : (l.input.getD l1.pos 0 == 10) = false := by
        apply Bool.eq_false_iff.mpr
        intro h
        simp only [beq_iff_eq] at h
        have := sw.2.1
        rw [w1.ch, hin, h, isWhitespace_lf] at this
        exact Bool.noConfusion this
      simp only [hnl, Bool.false_eq_true, if_false, Nat.add_zero]

/-- the position found by `tokStart` is at or after the cursor: the token's line never lies before it -/
theorem countLF_mono (a : Array UInt8) {m n : Nat} (h : m ≤ n) : countLF a m ≤ countLF a n := by
  induction h with
  | refl => exact Nat.le_refl _
  | step _ ih => simp only [countLF]; omega

end LX
end Plush
