import PlushProofs.Lib.ParserWF
/-!
  C15, parser side: every syntax error the parser records names a line (`line N: …`), for every input.
-/
namespace Plush
namespace P

/-- every error in the array carries a line -/
def AL (errs : Array PErr) : Prop := ∀ e ∈ errs.toList, e.line.isSome = true

/-- every recorded error carries a line -/
abbrev AllLines (s : PS) : Prop := AL s.errs

/-- `f` keeps the property -/
def Keeps {α} (m : PM α) (s : PS) : Prop := PC m s (fun _ s' => AllLines s → AllLines s')

theorem AL.push {a : Array PErr} (h : AL a) (ln : Nat) (k : String) : AL (a.push { line := some ln, kind := k }) := by
  intro e he
  simp only [Array.toList_push, List.mem_append, List.mem_singleton] at he
  rcases he with he | rfl
  · exact h e he
  · rfl

theorem AL.confirm {a : Array PErr} (h : AL a) (line : Nat) (e : Option Expr) : AL (confirmIfCondition line e a).2 := by
  unfold AL at *
  fun_induction confirmIfCondition line e a
  all_goals (try simp_all)
  all_goals (try (intro x hx; rcases hx with hx | rfl <;> first | exact h x hx | rfl))

structure AllKeeps (n : Nat) : Prop where
  stmt : ∀ s, Keeps (parseStatement n) s
  ret : ∀ s o, Keeps (parseReturnStatement n o) s
  let_ : ∀ s, Keeps (parseLetStatement n) s
  exprStmt : ∀ s, Keeps (parseExpressionStatement n) s
  expr : ∀ s p, Keeps (parseExpression n p) s
  infixLoop : ∀ s p l, Keeps (infixLoop n p l) s
  runPrefix : ∀ s f, Keeps (runPrefix n f) s
  comment : ∀ s, Keeps (commentLoop n) s
  runInfix : ∀ s f l, Keeps (runInfix n f l) s
  exprList : ∀ s t, Keeps (parseExpressionList n t) s
  exprListLoop : ∀ s a, Keeps (exprListLoop n a) s
  hash : ∀ s t a, Keeps (hashLoop n t a) s
  params : ∀ s, Keeps (parseFunctionParameters n) s
  paramLoop : ∀ s a, Keeps (paramLoop n a) s
  block : ∀ s, Keeps (parseBlockStatement n) s
  blockLoop : ∀ s a, Keeps (blockLoop n a) s
  if_ : ∀ s, Keeps (parseIfExpression n) s
  elseLoop : ∀ s t c b e l, Keeps (elseLoop n t c b e l) s
  for_ : ∀ s, Keeps (parseForExpression n) s
  forNames : ∀ s ln a, Keeps (forNamesLoop n ln a) s

theorem keeps_assignCallee (pe : Option Expr) (v : Bytes) (s : PS) : Keeps (assignCallee pe v) s := by
  unfold Keeps assignCallee
  split <;> pc_simp
  all_goals (intro h; dsimp only [AllLines] at *; solve_by_elim [AL.push, AL.confirm])

/-- one step of the walk through a parse function: split a conditional, use the induction hypothesis for a
    recursive call, or close a leaf -/
macro "kstep" ih:ident : tactic => `(tactic| (
  pc_simp
  first
    | split
    | (refine PC_conseq (($ih).stmt _) ?_; intro _ _ _)
    | (refine PC_conseq (($ih).ret _ _) ?_; intro _ _ _)
    | (refine PC_conseq (($ih).let_ _) ?_; intro _ _ _)
    | (refine PC_conseq (($ih).exprStmt _) ?_; intro _ _ _)
    | (refine PC_conseq (($ih).expr _ _) ?_; intro _ _ _)
    | (refine PC_conseq (($ih).infixLoop _ _ _) ?_; intro _ _ _)
    | (refine PC_conseq (($ih).runPrefix _ _) ?_; intro _ _ _)
    | (refine PC_conseq (($ih).comment _) ?_; intro _ _ _)
    | (refine PC_conseq (($ih).runInfix _ _ _) ?_; intro _ _ _)
    | (refine PC_conseq (($ih).exprList _ _) ?_; intro _ _ _)
    | (refine PC_conseq (($ih).exprListLoop _ _) ?_; intro _ _ _)
    | (refine PC_conseq (($ih).hash _ _ _) ?_; intro _ _ _)
    | (refine PC_conseq (($ih).params _) ?_; intro _ _ _)
    | (refine PC_conseq (($ih).paramLoop _ _) ?_; intro _ _ _)
    | (refine PC_conseq (($ih).block _) ?_; intro _ _ _)
    | (refine PC_conseq (($ih).blockLoop _ _) ?_; intro _ _ _)
    | (refine PC_conseq (($ih).if_ _) ?_; intro _ _ _)
    | (refine PC_conseq (($ih).elseLoop _ _ _ _ _ _) ?_; intro _ _ _)
    | (refine PC_conseq (($ih).for_ _) ?_; intro _ _ _)
    | (refine PC_conseq (($ih).forNames _ _ _) ?_; intro _ _ _)
    | (refine PC_conseq (keeps_assignCallee _ _ _) ?_; intro _ _ _)
    | (intro h; dsimp only [AllLines] at *; solve_by_elim [AL.push, AL.confirm])))

theorem k_stmt (n : Nat) (ih : AllKeeps n) : ∀ s , Keeps (parseStatement (n+1) ) s := by
  intro s ; unfold Keeps; rw [parseStatement_eq]
  repeat' (kstep ih)

theorem k_ret (n : Nat) (ih : AllKeeps n) : ∀ s o, Keeps (parseReturnStatement (n+1) o) s := by
  intro s o; unfold Keeps; rw [parseReturnStatement_eq]
  repeat' (kstep ih)

theorem k_let_ (n : Nat) (ih : AllKeeps n) : ∀ s , Keeps (parseLetStatement (n+1) ) s := by
  intro s ; unfold Keeps; rw [parseLetStatement_eq]
  repeat' (kstep ih)

theorem k_exprStmt (n : Nat) (ih : AllKeeps n) : ∀ s , Keeps (parseExpressionStatement (n+1) ) s := by
  intro s ; unfold Keeps; rw [parseExpressionStatement_eq]
  repeat' (kstep ih)

theorem k_expr (n : Nat) (ih : AllKeeps n) : ∀ s p, Keeps (parseExpression (n+1) p) s := by
  intro s p; unfold Keeps; rw [parseExpression_eq]
  repeat' (kstep ih)

theorem k_infixLoop (n : Nat) (ih : AllKeeps n) : ∀ s p l, Keeps (infixLoop (n+1) p l) s := by
  intro s p l; unfold Keeps; rw [infixLoop_eq]
  repeat' (kstep ih)

theorem k_runPrefix (n : Nat) (ih : AllKeeps n) : ∀ s f, Keeps (runPrefix (n+1) f) s := by
  intro s f; unfold Keeps; rw [runPrefix_eq]
  repeat' (kstep ih)

theorem k_comment (n : Nat) (ih : AllKeeps n) : ∀ s , Keeps (commentLoop (n+1) ) s := by
  intro s ; unfold Keeps; rw [commentLoop_eq]
  repeat' (kstep ih)

theorem k_runInfix (n : Nat) (ih : AllKeeps n) : ∀ s f l, Keeps (runInfix (n+1) f l) s := by
  intro s f l; unfold Keeps; rw [runInfix_eq]
  repeat' (kstep ih)

theorem k_exprList (n : Nat) (ih : AllKeeps n) : ∀ s t, Keeps (parseExpressionList (n+1) t) s := by
  intro s t; unfold Keeps; rw [parseExpressionList_eq]
  repeat' (kstep ih)

theorem k_exprListLoop (n : Nat) (ih : AllKeeps n) : ∀ s a, Keeps (exprListLoop (n+1) a) s := by
  intro s a; unfold Keeps; rw [exprListLoop_eq]
  repeat' (kstep ih)

theorem k_hash (n : Nat) (ih : AllKeeps n) : ∀ s t a, Keeps (hashLoop (n+1) t a) s := by
  intro s t a; unfold Keeps; rw [hashLoop_eq]
  repeat' (kstep ih)

theorem k_params (n : Nat) (ih : AllKeeps n) : ∀ s , Keeps (parseFunctionParameters (n+1) ) s := by
  intro s ; unfold Keeps; rw [parseFunctionParameters_eq]
  repeat' (kstep ih)

theorem k_paramLoop (n : Nat) (ih : AllKeeps n) : ∀ s a, Keeps (paramLoop (n+1) a) s := by
  intro s a; unfold Keeps; rw [paramLoop_eq]
  repeat' (kstep ih)

theorem k_block (n : Nat) (ih : AllKeeps n) : ∀ s , Keeps (parseBlockStatement (n+1) ) s := by
  intro s ; unfold Keeps; rw [parseBlockStatement_eq]
  repeat' (kstep ih)

theorem k_blockLoop (n : Nat) (ih : AllKeeps n) : ∀ s a, Keeps (blockLoop (n+1) a) s := by
  intro s a; unfold Keeps; rw [blockLoop_eq]
  repeat' (kstep ih)

theorem k_if_ (n : Nat) (ih : AllKeeps n) : ∀ s , Keeps (parseIfExpression (n+1) ) s := by
  intro s ; unfold Keeps; rw [parseIfExpression_eq]
  repeat' (kstep ih)

theorem k_elseLoop (n : Nat) (ih : AllKeeps n) : ∀ s t c b e l, Keeps (elseLoop (n+1) t c b e l) s := by
  intro s t c b e l; unfold Keeps; rw [elseLoop_eq]
  repeat' (kstep ih)

theorem k_for_ (n : Nat) (ih : AllKeeps n) : ∀ s , Keeps (parseForExpression (n+1) ) s := by
  intro s ; unfold Keeps; rw [parseForExpression_eq]
  repeat' (kstep ih)

theorem k_forNames (n : Nat) (ih : AllKeeps n) : ∀ s ln a, Keeps (forNamesLoop (n+1) ln a) s := by
  intro s ln a; unfold Keeps; rw [forNamesLoop_eq]
  repeat' (kstep ih)

theorem allKeeps : ∀ n, AllKeeps n := by
  intro n
  induction n with
  | zero => constructor <;> intros <;> exact (PC_throw PFail.outOfFuel _ _).mpr trivial
  | succ n ih => exact ⟨k_stmt n ih, k_ret n ih, k_let_ n ih, k_exprStmt n ih, k_expr n ih, k_infixLoop n ih, k_runPrefix n ih, k_comment n ih, k_runInfix n ih, k_exprList n ih, k_exprListLoop n ih, k_hash n ih, k_params n ih, k_paramLoop n ih, k_block n ih, k_blockLoop n ih, k_if_ n ih, k_elseLoop n ih, k_for_ n ih, k_forNames n ih⟩

theorem keeps_programLoop (fuel : Nat) : ∀ (n : Nat) (s : PS) (acc : List Stmt), Keeps (programLoop n fuel acc) s := by
  intro n
  induction n with
  | zero => intro s acc; unfold Keeps programLoop; exact (PC_throw _ _ _).mpr trivial
  | succ n ih =>
    intro s acc
    unfold Keeps programLoop
    pc_simp
    split
    · refine PC_conseq ((allKeeps fuel).stmt _) ?_
      intro st s2 k2
      pc_simp
      refine PC_conseq (ih _ _) ?_
      intro r s3 k3 h
      exact k3 (k2 h)
    · exact fun h => h

end P

/-- EVERY SYNTAX ERROR NAMES A LINE: for every source text, each error `parser.Parse` records carries a line
    number (`line N: …`) — none of the twenty parse functions, nor the if-condition check, adds an error without one. -/
theorem parse_errors_have_lines (src : Bytes) (prog : Program) (errs : Array PErr)
    (h : parseBytes src = .ok (prog, errs)) : ∀ e ∈ errs.toList, e.line.isSome = true := by
  unfold parseBytes parseToks at h
  simp only at h
  split at h
  · rename_i ss s hrun
    simp only [Except.ok.injEq, Prod.mk.injEq] at h
    obtain ⟨_, hE⟩ := h
    have := P.keeps_programLoop (parseFuel (lexAll src.toArray).size) ((lexAll src.toArray).size + 4)
      { toks := lexAll src.toArray, eof := (lexAll src.toArray).back?.getD { type := .EOF, lit := [], line := 1 } } [] ss s hrun
    rw [← hE]
    exact this (by intro e he; simp at he)
  · cases h

end Plush
