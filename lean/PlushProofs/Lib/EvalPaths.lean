import PlushModel
namespace Plush
open EM

/-!
  C11 helper lemmas: dotted paths over struct / pointer data — evaluation IS navigation (`evalIdent_path`).
-/

/-- navigation of a whole path: fold the one-step function `memberStep` over the segments, left to right; the
    first failure ends it -/
def navigate (root : R Val) (path : List Bytes) : R Val :=
  path.foldl (fun r name => match r with | .ok c => memberStep c name | e => e) root

/-- what a bare name evaluates to -/
def rootValue (name : Bytes) (s : ES) : R Val :=
  if s.store.has s.cur name then .ok (s.store.value s.cur name)
  else if name == b "nil" then .ok .nil
  else .err unknownIdent

theorem evalIdent_root (fuel : Nat) (t : Token) (name : Bytes) (s : ES) :
    evalIdent (fuel + 1) { tok := t, segs := [name], base := none } s = (rootValue name s, s) := by
  unfold rootValue
  by_cases h1 : s.store.has s.cur name = true
  · simp [evalIdent, bind, ctxHas, getS, pure, ctxValue, h1]
  · by_cases h2 : (name == b "nil") = true
    · simp [evalIdent, bind, ctxHas, getS, pure, h1, h2]
    · simp [evalIdent, bind, ctxHas, getS, pure, h1, h2, throwErr]

theorem evalIdent_step (f : Nat) (t : Token) (a c : Bytes) (rest : List Bytes) :
    evalIdent (f + 1) { tok := t, segs := a :: c :: rest, base := none } =
      (do let v ← evalIdent f { tok := t, segs := (a :: c :: rest).dropLast, base := none }
          memberOf v ((a :: c :: rest).getLast?.getD [])) := by
  rfl

/-- EVALUATING A DOTTED PATH IS NAVIGATION, for every path length, every data graph and every state: the value
    of `root.f1.f2.….fn` is the fold of the one-step member function over `f1 … fn`, starting from what `root`
    is bound to; the state is untouched. -/
theorem evalIdent_path (t : Token) (root : Bytes) (s : ES) : ∀ (path : List Bytes) (fuel : Nat), path.length < fuel →
    evalIdent fuel { tok := t, segs := root :: path, base := none } s = (navigate (rootValue root s) path, s) := by
  suffices H : ∀ (n : Nat) (path : List Bytes), path.length = n → ∀ fuel, path.length < fuel →
      evalIdent fuel { tok := t, segs := root :: path, base := none } s = (navigate (rootValue root s) path, s) from
    fun path fuel hf => H path.length path rfl fuel hf
  intro n
  induction n with
  | zero =>
    intro path hn fuel hf
    have : path = [] := List.length_eq_zero_iff.mp hn
    subst this
    obtain ⟨f, rfl⟩ : ∃ f, fuel = f + 1 := ⟨fuel - 1, by simp at hf; omega⟩
    simpa [navigate] using evalIdent_root f t root s
  | succ n ih =>
    intro path hn fuel hf
    rcases List.eq_nil_or_concat path with h0 | ⟨init, last, hc⟩
    · subst h0; simp at hn
    rw [List.concat_eq_append] at hc
    subst hc
    obtain ⟨f, rfl⟩ : ∃ f, fuel = f + 1 := ⟨fuel - 1, by simp at hf; omega⟩
    have hih := ih init (by simp at hn; omega) f (by simp at hf; omega)
    have hsegs : (root :: (init ++ [last])) = (root :: init) ++ [last] := by simp
    have hdl : (root :: (init ++ [last])).dropLast = root :: init := by rw [hsegs, List.dropLast_concat]
    have hgl : (root :: (init ++ [last])).getLast?.getD [] = last := by rw [hsegs, List.getLast?_concat]; rfl
    obtain ⟨c, rest, hcr⟩ : ∃ c rest, init ++ [last] = c :: rest := by
      cases init with
      | nil => exact ⟨last, [], rfl⟩
      | cons x xs => exact ⟨x, xs ++ [last], rfl⟩
    rw [hcr] at hdl hgl ⊢
    rw [evalIdent_step, hdl, hgl]
    simp only [bind, hih, navigate]
    rw [← hcr, List.foldl_append]
    simp only [List.foldl_cons, List.foldl_nil]
    cases hr : List.foldl (fun r name => match r with | .ok c => memberStep c name | e => e) (rootValue root s) init with
    | ok c => rfl
    | err e => rfl
    | fatal x => rfl

/-- a field that is there, exported and not a pointer is returned as it is -/
theorem memberStep_field (ty : String) (fields : List (Bytes × Val)) (name : Bytes) (v : Val)
    (h : lookupKey name fields = some v) (hx : isExportedName name = true) (hp : ∀ t p, v ≠ .ptr t p) :
    memberStep (.struct ty fields) name = .ok v := by
  unfold memberStep
  simp only [h]
  cases v <;> simp_all

/-- … through a pointer to the struct just the same -/
theorem memberStep_ptr (pty : String) (c : Val) (name : Bytes) (hc : ∀ a r, c ≠ .opaque a r) (hn : c ≠ .nil) (hpp : ∀ t p, c ≠ .ptr t p) :
    memberStep (.ptr pty (some c)) name = memberStep c name := by
  unfold memberStep
  cases c <;> simp_all

/-- a missing field is an error, whatever else the struct holds -/
theorem memberStep_missing (ty : String) (fields : List (Bytes × Val)) (name : Bytes) (h : lookupKey name fields = none) :
    memberStep (.struct ty fields) name = .err { kind := "no-field-or-method" } := by
  unfold memberStep; simp only [h]

/-- the value found under a name is an entry OF THAT NAME (never another element's) -/
theorem lookupKey_mem (k : Bytes) (l : List (Bytes × Val)) (v : Val) (h : lookupKey k l = some v) : (k, v) ∈ l := by
  induction l with
  | nil => simp [lookupKey] at h
  | cons kv r ih =>
    obtain ⟨k', v'⟩ := kv
    simp only [lookupKey] at h
    split at h
    · rename_i hk
      simp only [beq_iff_eq] at hk
      simp only [Option.some.injEq] at h
      subst hk; subst h; exact List.mem_cons_self
    · exact List.mem_cons_of_mem _ (ih h)

/-- members of nil are nil; a typed nil pointer, a scalar, a slice or a map has no members: an error -/
theorem memberStep_nil (name : Bytes) : memberStep .nil name = .ok .nil := rfl
theorem memberStep_nilptr (t : String) (name : Bytes) : memberStep (.ptr t none) name = .err { kind := "no-field-or-method" } := rfl
theorem memberStep_scalar (name : Bytes) (i : Int) (s : Bytes) (e : Ty) (a : Nat) :
    memberStep (.int i) name = .err { kind := "no-field-or-method" } ∧
    memberStep (.str s) name = .err { kind := "no-field-or-method" } ∧
    memberStep (.list e a) name = .err { kind := "no-field-or-method" } ∧
    memberStep (.map .string .any a) name = .err { kind := "no-field-or-method" } := ⟨rfl, rfl, rfl, rfl⟩

/-- navigation never crashes and never reports success with anything but a value reached by the steps -/
theorem navigate_ok_cons (r : R Val) (name : Bytes) (rest : List Bytes) :
    navigate r (name :: rest) = navigate (match r with | .ok c => memberStep c name | e => e) rest := rfl

end Plush
