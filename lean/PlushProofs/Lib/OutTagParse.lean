import PlushProofs.Lib.OutTagLex
import PlushProofs.Lib.ParserTotalProof
namespace Plush
open LX

namespace P

/-- the parser's view of `<%="…"%>`: ONE output statement holding the string literal whose value is the content -/
theorem parse_outTag (c : Bytes) (hno : ∀ x ∈ c, x ≠ 0 ∧ x ≠ 92) :
    ∃ t0 t1 : Token, t1.lit = c ∧
      parseBytes (outTagSrc c) = .ok ({ stmts := [.ret true t0 (some (.str t1 c))] }, #[]) := by
  obtain ⟨l0, l1, l2, l3, h0, h1, h2, hk⟩ := tokens_outTag c hno
  refine ⟨{ type := .E_START, lit := b "<%=", line := l0 }, { type := .STRING, lit := c, line := l1 }, rfl, ?_⟩
  unfold parseBytes parseToks
  simp only
  generalize (outTagSrc c).toArray = a at *
  generalize hs0 : ({ toks := lexAll a, eof := (lexAll a).back?.getD { type := .EOF, lit := [], line := 1 } } : PS) = s0
  have htok : ∀ i, tokAt s0 i = tokenAt i (LX.new a) := by
    intro i; rw [← hs0]; exact lexAll_is_stream a i
  have hpos : s0.pos = 0 := by rw [← hs0]
  have herr : s0.errs = #[] := by rw [← hs0]
  have key : OK (programLoop ((lexAll a).size + 4) (parseFuel (lexAll a).size) []) s0
      (fun r s' => r = [.ret true { type := .E_START, lit := b "<%=", line := l0 }
          (some (.str { type := .STRING, lit := c, line := l1 } c))] ∧ s'.errs = #[]) := by
    obtain ⟨K, hK⟩ : ∃ K, parseFuel (lexAll a).size = K + 5 := ⟨64 * (lexAll a).size + 27, by simp [parseFuel]⟩
    rw [hK]
    have h0' : tokAt s0 0 = { type := .E_START, lit := b "<%=", line := l0 } := by rw [htok, h0]
    have h1' : tokAt s0 1 = { type := .STRING, lit := c, line := l1 } := by rw [htok, h1]
    have h2' : tokAt s0 2 = { type := .E_END, lit := b "%>", line := l2 } := by rw [htok, h2]
    have h3' : tokAt s0 3 = { type := .EOF, lit := [], line := l3 } := by rw [htok]; exact hk 0
    have hfn : lookupLast TT.STRING Gen.prefixFns = some .parseStringLiteral := by decide
    have hpe : precOf TT.E_END = Gen.LOWEST := by decide
    have e1 : (TT.E_START == TT.EOF) = false := by decide
    have e2 : (TT.STRING == TT.LET) = false := by decide
    have e3 : (TT.E_END == TT.SEMICOLON) = false := by decide
    have e4 : decide (Gen.LOWEST < Gen.LOWEST) = false := by decide
    have e5 : (TT.EOF == TT.EOF) = true := by decide
    have e6 : (TT.E_END == TT.EOF) = false := by decide
    have hta : ∀ p e f i, tokAt { toks := s0.toks, eof := s0.eof, pos := p, errs := e, inFor := f } i = tokAt s0 i :=
      fun _ _ _ _ => rfl
    have hnb : ∀ v, nonBlank (pStmt (.ret true { type := .E_START, lit := b "<%=", line := l0 } v)) = true := by
      intro v; simp [pStmt, nonBlank]
    unfold programLoop
    simp only [OK_bind, OK_curIs, hpos, h0', OK_ite]
    simp only [hta, hnb, Nat.reduceAdd, parseStatement_eq, parseReturnStatement_eq, parseExpression_eq, runPrefix_eq, infixLoop_eq,
      OK_bind, OK_cur, OK_pure, hpos, h0', hfn, OK_ite, OK_peekIs, OK_peekPrecedence, Nat.zero_add, h1', h2', hpe,
      OK_skipSemicolon, OK_nextTok, e1, e2, e3, e4, Bool.not_false, Bool.and_false, Bool.false_eq_true, if_false, if_true]
    have hfn2 : lookupLast TT.E_END Gen.prefixFns = some .returnNil := by decide
    have hpe2 : precOf TT.EOF = Gen.LOWEST := by decide
    have e7 : (TT.E_END == TT.LET) = false := by decide
    have e8 : (TT.EOF == TT.SEMICOLON) = false := by decide
    have hnb2 : ∀ t, nonBlank (pStmt (.es t none)) = false := by intro t; simp [pStmt, optStr, nonBlank]
    unfold programLoop
    simp only [hta, hnb2, Nat.reduceAdd, h3', e6, e7, e8, hfn2, hpe2, parseStatement_eq, parseExpressionStatement_eq,
      parseExpression_eq, runPrefix_eq, infixLoop_eq,
      OK_bind, OK_cur, OK_curIs, OK_pure, OK_ite, OK_peekIs, OK_peekPrecedence, h2',
      OK_skipSemicolon, OK_nextTok, e4, Bool.not_false, Bool.and_false, Bool.false_eq_true, if_false, if_true, List.nil_append]
    unfold programLoop
    simp only [hta, h3', e5, OK_bind, OK_curIs, OK_ite, OK_pure, Bool.not_true, Bool.false_eq_true, if_false]
    exact ⟨trivial, herr⟩
  obtain ⟨r, s', hrun, hr, he⟩ := key
  simp only [StateT.run]
  rw [hrun, hr]
  simp only [he]

end P
end Plush
