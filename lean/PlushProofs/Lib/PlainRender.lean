import PlushProofs.Lib.PlainParse
import PlushModel.Render
namespace Plush
open EM LX

/-- END TO END: a non-empty template without tags (and without NUL bytes) renders to itself, in any context,
    leaving the evaluator state as it was — lexer, parser and evaluator models composed. -/
theorem render_plain (t : Bytes) (hp : Plain t.toArray) (hne : t ≠ []) (fuel ctx : Nat) (s : ES) :
    renderIn (fuel + 3) t ctx s = (.ok t, s) := by
  obtain ⟨ln, hparse⟩ := P.parse_plain t hp hne
  simp [renderIn, hparse, compileStmts, bind, getCur, getS, setCur, modifyS, attempt, pure, renderVal, writeVal,
    flattenChunks, Chunk.flatten]

theorem renderTop_plain (t : Bytes) (hp : Plain t.toArray) (hne : t ≠ []) (data : List (Bytes × Val))
    (heap : Array HeapObj) (feeder : List (Bytes × Bytes)) :
    (renderTop t data heap feeder).1 = .ok t := by
  unfold renderTop
  simp only
  obtain ⟨k, hk⟩ : ∃ k, evalFuel t = k + 3 := ⟨40 * t.length + 397, by simp [evalFuel]⟩
  rw [hk, render_plain t hp hne]

theorem parse_empty : parseBytes [] = .ok ({ stmts := [] }, #[]) := by rfl

theorem renderTop_empty (data : List (Bytes × Val)) (heap : Array HeapObj) (feeder : List (Bytes × Bytes)) :
    (renderTop [] data heap feeder).1 = .ok [] := by
  unfold renderTop
  simp [renderIn, evalFuel, parse_empty, compileStmts, bind, getCur, getS, setCur, modifyS, attempt, pure]

end Plush
