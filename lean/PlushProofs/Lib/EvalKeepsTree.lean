import PlushModel
/-!
  C09/C10, evaluator-wide: the scope tree is append-only.  Whatever is evaluated — on success, on error, on a fatal
  outcome — every context that existed before still exists afterwards with the same parent: evaluation creates
  child scopes and writes variables, it never removes a scope or re-parents one.
-/
namespace Plush
open EM

/-- the scope tree only grows: no context disappears and none is ever re-parented -/
def Store.Grows (a b : Store) : Prop :=
  a.frames.size ≤ b.frames.size ∧ ∀ i, i < a.frames.size → (b.frames[i]?).map Frame.outer = (a.frames[i]?).map Frame.outer

theorem Store.Grows.refl (a : Store) : a.Grows a := ⟨Nat.le_refl _, fun _ _ => rfl⟩
theorem Store.Grows.trans {a b c : Store} (h1 : a.Grows b) (h2 : b.Grows c) : a.Grows c :=
  ⟨Nat.le_trans h1.1 h2.1, fun i hi => (h2.2 i (Nat.lt_of_lt_of_le hi h1.1)).trans (h1.2 i hi)⟩

theorem Store.set_grows (s : Store) (c : Nat) (k : Bytes) (v : Val) : s.Grows (s.set c k v) := by
  unfold Store.set
  cases hc : s.frames[c]? with
  | none => exact Store.Grows.refl _
  | some f =>
    refine ⟨by simp, fun i hi => ?_⟩
    simp only [Array.set!_eq_setIfInBounds, Array.getElem?_setIfInBounds]
    by_cases h : c = i
    · subst h; rw [hc]; simp [hi]
    · simp [h]

theorem Store.ite_grows (s t : Store) (c : Bool) (h : s.Grows t) : s.Grows (if c = true then t else s) := by
  cases c
  · exact Store.Grows.refl _
  · exact h

theorem Store.injectHelpers_grows (c : Nat) (o : Option Nat) : ∀ (l : List String) (s : Store), s.Grows (s.injectHelpers c o l) := by
  intro l
  induction l with
  | nil => intro s; exact Store.Grows.refl _
  | cons h rest ih =>
    intro s
    unfold Store.injectHelpers
    dsimp only
    exact Store.Grows.trans (Store.ite_grows _ _ _ (Store.set_grows s c _ _)) (ih _)

theorem Store.push_grows (s : Store) (f : Frame) : s.Grows { s with frames := s.frames.push f } := by
  refine ⟨by simp, fun i hi => ?_⟩
  simp [Array.getElem?_push, Nat.ne_of_lt hi]

theorem Store.newChild_grows (s : Store) (o : Nat) : s.Grows (s.newChild o).1 := by
  simp only [Store.newChild]
  exact (Store.push_grows s ⟨[], some o⟩).trans (Store.injectHelpers_grows s.frames.size (some o) Gen.helperKeys _)
theorem Store.newRoot_grows (s : Store) (d : List (Bytes × Val)) : s.Grows (s.newRoot d).1 := by
  simp only [Store.newRoot]
  exact (Store.push_grows s ⟨d, none⟩).trans (Store.injectHelpers_grows s.frames.size none Gen.helperKeys _)

theorem Store.foldl_set_grows (dst : Nat) : ∀ (l : List (Bytes × Val)) (s : Store), s.Grows (l.foldl (fun st kv => st.set dst kv.1 kv.2) s) := by
  intro l
  induction l with
  | nil => intro s; exact Store.Grows.refl _
  | cons kv rest ih => intro s; exact (Store.set_grows s dst _ _).trans (ih _)

structure KeepsTree {α} (m : EM α) : Prop where
  grows : ∀ s : ES, s.store.Grows (m s).2.store

theorem kt_pure {α} (a : α) : KeepsTree (Pure.pure a : EM α) := ⟨fun _ => Store.Grows.refl _⟩
theorem kt_throwErr {α} (e : Err) : KeepsTree (EM.throwErr e : EM α) := ⟨fun _ => Store.Grows.refl _⟩
theorem kt_fail {α} (k : String) : KeepsTree (EM.fail k : EM α) := ⟨fun _ => Store.Grows.refl _⟩
theorem kt_fatal {α} (f : Fatal) : KeepsTree (EM.fatal f : EM α) := ⟨fun _ => Store.Grows.refl _⟩
theorem kt_unsupported {α} (w : String) : KeepsTree (EM.unsupported w : EM α) := ⟨fun _ => Store.Grows.refl _⟩
theorem kt_getS : KeepsTree EM.getS := ⟨fun _ => Store.Grows.refl _⟩
theorem kt_modifyS (f : ES → ES) (h : ∀ s, (f s).store = s.store) : KeepsTree (EM.modifyS f) := ⟨fun s => by
  show s.store.Grows (f s).store
  rw [h s]; exact Store.Grows.refl _⟩

theorem kt_bind {α β} {m : EM α} {f : α → EM β} (hm : KeepsTree m) (hf : ∀ a, KeepsTree (f a)) : KeepsTree (m >>= f) := by
  refine ⟨fun s => ?_⟩
  show s.store.Grows ((match m s with | (.ok a, s') => f a s' | (.err e, s') => (.err e, s') | (.fatal x, s') => (.fatal x, s')) : R β × ES).2.store
  have h1 := hm.grows s
  cases hms : m s with
  | mk r s' =>
    rw [hms] at h1
    cases r with
    | ok a => exact h1.trans ((hf a).grows s')
    | err e => exact h1
    | fatal x => exact h1

theorem kt_attempt {α} {m : EM α} (hm : KeepsTree m) : KeepsTree (EM.attempt m) := by
  refine ⟨fun s => ?_⟩
  have h1 := hm.grows s
  simp only [EM.attempt]
  cases hms : m s with
  | mk r s' =>
    rw [hms] at h1
    cases r <;> exact h1

theorem kt_ctxHas (k : Bytes) : KeepsTree (ctxHas k) := kt_bind kt_getS (fun _ => kt_pure _)
theorem kt_ctxValue (k : Bytes) : KeepsTree (ctxValue k) := kt_bind kt_getS (fun _ => kt_pure _)
theorem kt_ctxSet (k : Bytes) (v : Val) : KeepsTree (ctxSet k v) := ⟨fun s => Store.set_grows _ _ _ _⟩
theorem kt_ctxSetIn (c : Nat) (k : Bytes) (v : Val) : KeepsTree (ctxSetIn c k v) := ⟨fun s => Store.set_grows _ _ _ _⟩
theorem kt_ctxNewChild (o : Nat) : KeepsTree (ctxNewChild o) := by
  refine ⟨fun s => ?_⟩; exact Store.newChild_grows s.store o
theorem kt_getCur : KeepsTree getCur := kt_bind kt_getS (fun _ => kt_pure _)
theorem kt_setCur (c : Nat) : KeepsTree (setCur c) := kt_modifyS _ (fun _ => rfl)
theorem kt_copyFrame (a c : Nat) : KeepsTree (copyFrame a c) := by
  refine ⟨fun s => ?_⟩
  show s.store.Grows (match s.store.frames[a]? with | none => s | some f => { s with store := f.data.foldl (fun (st : Store) (kv : Bytes × Val) => st.set c kv.1 kv.2) s.store } : ES).store
  split
  · exact Store.Grows.refl _
  · exact Store.foldl_set_grows _ _ _
theorem kt_allocSlice (items : Array Val) : KeepsTree (allocSlice items) := ⟨fun _ => Store.Grows.refl _⟩
theorem kt_allocMap (es : List (Val × Val)) : KeepsTree (allocMap es) := ⟨fun _ => Store.Grows.refl _⟩
theorem kt_heapSet (a : Nat) (o : HeapObj) : KeepsTree (heapSet a o) := kt_modifyS _ (fun _ => rfl)
theorem kt_traceEv (e : String) : KeepsTree (traceEv e) := kt_modifyS _ (fun _ => rfl)

macro "kt_leaf1" : tactic =>
  `(tactic| with_reducible first
    | exact kt_ctxHas _ | exact kt_ctxValue _ | exact kt_ctxSet _ _ | exact kt_ctxSetIn _ _ _
    | exact kt_ctxNewChild _ | exact kt_getCur | exact kt_setCur _ | exact kt_copyFrame _ _ | exact kt_allocSlice _
    | exact kt_allocMap _ | exact kt_heapSet _ _ | exact kt_traceEv _ | exact kt_getS)
macro "kt_leaf2" : tactic =>
  `(tactic| with_reducible first
    | exact kt_fail _ | exact kt_throwErr _ | exact kt_unsupported _ | exact kt_fatal _ | exact kt_pure _
    | (apply kt_modifyS; intro _; rfl)
    | assumption)

macro "keepstree" : tactic =>
  `(tactic| repeat (any_goals (first
    | split
    | kt_leaf1
    | kt_leaf2
    | refine kt_attempt ?_
    | refine kt_bind ?_ (fun _ => ?_)
    | dsimp only)))

theorem kt_heapSlice (a : Nat) : KeepsTree (heapSlice a) := by unfold heapSlice; keepstree
theorem kt_heapMap (a : Nat) : KeepsTree (heapMap a) := by unfold heapMap; keepstree
theorem kt_renderVal (v : Val) : KeepsTree (renderVal v) := by unfold renderVal; keepstree
theorem kt_applyOpOut (o : OpOut) (k : String) : KeepsTree (applyOpOut o k) := by unfold applyOpOut; keepstree
theorem kt_withCtx {α} (c : Nat) (m : EM α) (h : KeepsTree m) : KeepsTree (withCtx c m) := by unfold withCtx; keepstree

theorem kt_forM {α} (l : List α) (f : α → EM PUnit) (h : ∀ a, KeepsTree (f a)) : KeepsTree (l.forM f) := by
  induction l with
  | nil => exact kt_pure _
  | cons a as ih => exact kt_bind (h a) (fun _ => ih)
theorem kt_mapM_loop {α β} (f : α → EM β) (h : ∀ a, KeepsTree (f a)) : ∀ (l : List α) (acc : List β), KeepsTree (List.mapM.loop f l acc) := by
  intro l
  induction l with
  | nil => intro acc; exact kt_pure _
  | cons a as ih => intro acc; exact kt_bind (h a) (fun _ => ih _)
theorem kt_mapM {α β} (l : List α) (f : α → EM β) (h : ∀ a, KeepsTree (f a)) : KeepsTree (l.mapM f) := kt_mapM_loop f h l []

theorem kt_applyInfix (op : Bytes) (l r : Val) : KeepsTree (applyInfix op l r) := by
  unfold applyInfix
  repeat (any_goals (first | split | (with_reducible exact kt_applyOpOut _ _) | kt_leaf1 | kt_leaf2 | refine kt_bind ?_ (fun _ => ?_) | dsimp only))
theorem kt_updateIndex (l i v : Val) : KeepsTree (updateIndex l i v) := by
  unfold updateIndex
  repeat (any_goals (first | split | (with_reducible exact kt_heapSlice _) | (with_reducible exact kt_heapMap _) | kt_leaf1 | kt_leaf2 | refine kt_bind ?_ (fun _ => ?_) | dsimp only))
theorem kt_accessIndex (l i : Val) (h : Bool) : KeepsTree (accessIndex l i h) := by
  unfold accessIndex
  repeat (any_goals (first | split | (with_reducible exact kt_heapSlice _) | (with_reducible exact kt_heapMap _) | kt_leaf1 | kt_leaf2 | refine kt_bind ?_ (fun _ => ?_) | dsimp only))
theorem kt_memberOf (c : Val) (name : Bytes) : KeepsTree (memberOf c name) := ⟨fun _ => Store.Grows.refl _⟩
theorem kt_mapKeyMissing (l i : Val) : KeepsTree (mapKeyMissing l i) := by
  unfold mapKeyMissing
  repeat (any_goals (first | split | (with_reducible exact kt_heapMap _) | kt_leaf1 | kt_leaf2 | refine kt_bind ?_ (fun _ => ?_) | dsimp only))

attribute [local irreducible] Store.newChild Store.injectHelpers Store.newRoot

structure AllKT (n : Nat) : Prop where
  evalExpr : ∀ (a : Option Expr), KeepsTree (evalExpr n a)
  evalExprs : ∀ (a : List (Option Expr)), KeepsTree (evalExprs n a)
  evalHashPairs : ∀ (a : List (Option Expr × Option Expr)) (b : List (Val × Val)), KeepsTree (evalHashPairs n a b)
  evalIdent : ∀ (a : Ident), KeepsTree (evalIdent n a)
  evalInfix : ∀ (a : Bytes) (b : Option Expr) (c : Option Expr), KeepsTree (evalInfix n a b c)
  evalIf : ∀ (a : Option Expr) (b : Block) (c : List (Token × Option Expr × Block)) (d : Option Block), KeepsTree (evalIf n a b c d)
  evalElifs : ∀ (a : List (Token × Option Expr × Block)) (b : Option Block), KeepsTree (evalElifs n a b)
  evalBlock : ∀ (a : Block), KeepsTree (evalBlock n a)
  evalStmts : ∀ (a : List Stmt) (b : List Val), KeepsTree (evalStmts n a b)
  evalStmt : ∀ (a : Stmt), KeepsTree (evalStmt n a)
  evalStmtBody : ∀ (a : Stmt), KeepsTree (evalStmtBody n a)
  evalFor : ∀ (a : Bytes) (b : Bytes) (c : Option Expr) (d : Option Block), KeepsTree (evalFor n a b c d)
  forBody : ∀ (a : Bytes) (b : Bytes) (c : Option Expr) (d : Option Block), KeepsTree (forBody n a b c d)
  forItems : ∀ (a : Bytes) (b : Bytes) (c : Block) (d : List (Val × Val)) (e : List Val), KeepsTree (forItems n a b c d e)
  forRanger : ∀ (a : Bytes) (b : Bytes) (c : Block) (d : Gen.Ranger) (e : Nat) (f : List Val), KeepsTree (forRanger n a b c d e f)
  evalIndex : ∀ (a : Option Expr) (b : Option Expr) (c : Option Expr) (d : Option Expr), KeepsTree (evalIndex n a b c d)
  evalUserFn : ∀ (a : List Ident) (b : Block) (c : List (Option Expr)), KeepsTree (evalUserFn n a b c)
  fnBody : ∀ (a : List Ident) (b : List Val) (c : Block), KeepsTree (fnBody n a b c)
  evalCall : ∀ (a : Option Expr) (b : Option Expr) (c : Expr) (d : Option (List (Option Expr))) (e : Option Block), KeepsTree (evalCall n a b c d e)
  bindArgs : ∀ (a : String) (b : Sig) (c : List (Option Expr)) (d : Option Block), KeepsTree (bindArgs n a b c d)
  bindFixed : ∀ (a : Option Block) (b : List (Option Expr × Ty)) (c : List Val), KeepsTree (bindFixed n a b c)
  bindVariadic : ∀ (a : Ty) (b : List (Option Expr)) (c : List Val), KeepsTree (bindVariadic n a b c)
  blockWith : ∀ (a : Option Block) (b : Nat), KeepsTree (blockWith n a b)
  callHelper : ∀ (a : String) (b : List Val), KeepsTree (callHelper n a b)
  partialHelper : ∀ (a : Bytes) (b : List (Val × Val)) (c : Nat), KeepsTree (partialHelper n a b c)
  renderIn : ∀ (a : Bytes) (b : Nat), KeepsTree (renderIn n a b)
  compileStmts : ∀ (a : List Stmt) (b : Bytes), KeepsTree (compileStmts n a b)

macro "kt_ih1" ih:ident : tactic => `(tactic| first
    | (with_reducible apply ($ih).evalExpr)
    | (with_reducible apply ($ih).evalExprs)
    | (with_reducible apply ($ih).evalHashPairs)
    | (with_reducible apply ($ih).evalIdent)
    | (with_reducible apply ($ih).evalInfix)
    | (with_reducible apply ($ih).evalIf)
    | (with_reducible apply ($ih).evalElifs)
    | (with_reducible apply ($ih).evalBlock)
    | (with_reducible apply ($ih).evalStmts)
    | (with_reducible apply ($ih).evalStmt)
    | (with_reducible apply ($ih).evalStmtBody)
    | (with_reducible apply ($ih).evalFor)
    | (with_reducible apply ($ih).forBody)
    | (with_reducible apply ($ih).forItems))
macro "kt_ih2" ih:ident : tactic => `(tactic| first
    | (with_reducible apply ($ih).forRanger)
    | (with_reducible apply ($ih).evalIndex)
    | (with_reducible apply ($ih).evalUserFn)
    | (with_reducible apply ($ih).fnBody)
    | (with_reducible apply ($ih).evalCall)
    | (with_reducible apply ($ih).bindArgs)
    | (with_reducible apply ($ih).bindFixed)
    | (with_reducible apply ($ih).bindVariadic)
    | (with_reducible apply ($ih).blockWith)
    | (with_reducible apply ($ih).callHelper)
    | (with_reducible apply ($ih).partialHelper)
    | (with_reducible apply ($ih).renderIn)
    | (with_reducible apply ($ih).compileStmts))

macro "kt_leaf3" : tactic =>
  `(tactic| with_reducible first
    | exact kt_heapSlice _ | exact kt_heapMap _ | exact kt_renderVal _ | exact kt_applyOpOut _ _
    | exact kt_applyInfix _ _ _ | exact kt_updateIndex _ _ _ | exact kt_accessIndex _ _ _ | exact kt_memberOf _ _ | exact kt_mapKeyMissing _ _)

macro "keepstree_ih" ih:ident : tactic =>
  `(tactic| repeat (any_goals (first
    | split
    | kt_leaf1
    | kt_leaf2
    | (have hfuel := Nat.succ.inj ‹_ + 1 = Nat.succ _›; subst hfuel)
    | kt_ih1 $ih
    | kt_ih2 $ih
    | kt_leaf3
    | (refine kt_forM _ _ (fun _ => ?_)) | (refine kt_mapM _ _ (fun _ => ?_))
    | (refine kt_withCtx _ _ ?_)
    | refine kt_attempt ?_
    | refine kt_bind ?_ (fun _ => ?_)
    | dsimp only)))

theorem kts_evalExpr (n : Nat) (ih : AllKT n) : ∀ a, KeepsTree (evalExpr (n+1) a) := by
  intro a; unfold evalExpr; keepstree_ih ih

theorem kts_evalExprs (n : Nat) (ih : AllKT n) : ∀ a, KeepsTree (evalExprs (n+1) a) := by
  intro a; unfold evalExprs; keepstree_ih ih

theorem kts_evalHashPairs (n : Nat) (ih : AllKT n) : ∀ a b, KeepsTree (evalHashPairs (n+1) a b) := by
  intro a b; unfold evalHashPairs; keepstree_ih ih

theorem kts_evalIdent (n : Nat) (ih : AllKT n) : ∀ a, KeepsTree (evalIdent (n+1) a) := by
  intro a; unfold evalIdent; keepstree_ih ih

theorem kts_evalInfix (n : Nat) (ih : AllKT n) : ∀ a b c, KeepsTree (evalInfix (n+1) a b c) := by
  intro a b c; unfold evalInfix; keepstree_ih ih

theorem kts_evalIf (n : Nat) (ih : AllKT n) : ∀ a b c d, KeepsTree (evalIf (n+1) a b c d) := by
  intro a b c d; unfold evalIf; keepstree_ih ih

theorem kts_evalElifs (n : Nat) (ih : AllKT n) : ∀ a b, KeepsTree (evalElifs (n+1) a b) := by
  intro a b; unfold evalElifs; keepstree_ih ih

theorem kts_evalBlock (n : Nat) (ih : AllKT n) : ∀ a, KeepsTree (evalBlock (n+1) a) := by
  intro a; unfold evalBlock; keepstree_ih ih

theorem kts_evalStmts (n : Nat) (ih : AllKT n) : ∀ a b, KeepsTree (evalStmts (n+1) a b) := by
  intro a b; unfold evalStmts; keepstree_ih ih

theorem kts_evalStmt (n : Nat) (ih : AllKT n) : ∀ a, KeepsTree (evalStmt (n+1) a) := by
  intro a; unfold evalStmt; keepstree_ih ih

theorem kts_evalStmtBody (n : Nat) (ih : AllKT n) : ∀ a, KeepsTree (evalStmtBody (n+1) a) := by
  intro a; unfold evalStmtBody; keepstree_ih ih

theorem kts_evalFor (n : Nat) (ih : AllKT n) : ∀ a b c d, KeepsTree (evalFor (n+1) a b c d) := by
  intro a b c d; unfold evalFor; keepstree_ih ih

theorem kts_forBody (n : Nat) (ih : AllKT n) : ∀ a b c d, KeepsTree (forBody (n+1) a b c d) := by
  intro a b c d; unfold forBody; keepstree_ih ih

theorem kts_forItems (n : Nat) (ih : AllKT n) : ∀ a b c d e, KeepsTree (forItems (n+1) a b c d e) := by
  intro a b c d e; unfold forItems; keepstree_ih ih

theorem kts_forRanger (n : Nat) (ih : AllKT n) : ∀ a b c d e f, KeepsTree (forRanger (n+1) a b c d e f) := by
  intro a b c d e f; unfold forRanger; keepstree_ih ih

theorem kts_evalIndex (n : Nat) (ih : AllKT n) : ∀ a b c d, KeepsTree (evalIndex (n+1) a b c d) := by
  intro a b c d; unfold evalIndex; keepstree_ih ih

theorem kts_evalUserFn (n : Nat) (ih : AllKT n) : ∀ a b c, KeepsTree (evalUserFn (n+1) a b c) := by
  intro a b c; unfold evalUserFn; keepstree_ih ih

theorem kts_fnBody (n : Nat) (ih : AllKT n) : ∀ a b c, KeepsTree (fnBody (n+1) a b c) := by
  intro a b c; unfold fnBody; keepstree_ih ih

theorem kts_evalCall (n : Nat) (ih : AllKT n) : ∀ a b c d e, KeepsTree (evalCall (n+1) a b c d e) := by
  intro a b c d e; unfold evalCall; keepstree_ih ih

theorem kts_bindArgs (n : Nat) (ih : AllKT n) : ∀ a b c d, KeepsTree (bindArgs (n+1) a b c d) := by
  intro a b c d; unfold bindArgs; keepstree_ih ih

theorem kts_bindFixed (n : Nat) (ih : AllKT n) : ∀ a b c, KeepsTree (bindFixed (n+1) a b c) := by
  intro a b c; unfold bindFixed; keepstree_ih ih

theorem kts_bindVariadic (n : Nat) (ih : AllKT n) : ∀ a b c, KeepsTree (bindVariadic (n+1) a b c) := by
  intro a b c; unfold bindVariadic; keepstree_ih ih

theorem kts_blockWith (n : Nat) (ih : AllKT n) : ∀ a b, KeepsTree (blockWith (n+1) a b) := by
  intro a b; unfold blockWith; keepstree_ih ih

theorem kts_callHelper (n : Nat) (ih : AllKT n) : ∀ a b, KeepsTree (callHelper (n+1) a b) := by
  intro a b; unfold callHelper; keepstree_ih ih

theorem kts_partialHelper (n : Nat) (ih : AllKT n) : ∀ a b c, KeepsTree (partialHelper (n+1) a b c) := by
  intro a b c; unfold partialHelper; keepstree_ih ih

theorem kts_renderIn (n : Nat) (ih : AllKT n) : ∀ a b, KeepsTree (renderIn (n+1) a b) := by
  intro a b; unfold renderIn; keepstree_ih ih

theorem kts_compileStmts (n : Nat) (ih : AllKT n) : ∀ a b, KeepsTree (compileStmts (n+1) a b) := by
  intro a b; unfold compileStmts; keepstree_ih ih

theorem ktz_evalExpr : ∀ a, KeepsTree (evalExpr 0 a) := by
  intro a; unfold evalExpr; keepstree

theorem ktz_evalExprs : ∀ a, KeepsTree (evalExprs 0 a) := by
  intro a; unfold evalExprs; keepstree

theorem ktz_evalHashPairs : ∀ a b, KeepsTree (evalHashPairs 0 a b) := by
  intro a b; unfold evalHashPairs; keepstree

theorem ktz_evalIdent : ∀ a, KeepsTree (evalIdent 0 a) := by
  intro a; unfold evalIdent; keepstree

theorem ktz_evalInfix : ∀ a b c, KeepsTree (evalInfix 0 a b c) := by
  intro a b c; unfold evalInfix; keepstree

theorem ktz_evalIf : ∀ a b c d, KeepsTree (evalIf 0 a b c d) := by
  intro a b c d; unfold evalIf; keepstree

theorem ktz_evalElifs : ∀ a b, KeepsTree (evalElifs 0 a b) := by
  intro a b; unfold evalElifs; keepstree

theorem ktz_evalBlock : ∀ a, KeepsTree (evalBlock 0 a) := by
  intro a; unfold evalBlock; keepstree

theorem ktz_evalStmts : ∀ a b, KeepsTree (evalStmts 0 a b) := by
  intro a b; unfold evalStmts; keepstree

theorem ktz_evalStmt : ∀ a, KeepsTree (evalStmt 0 a) := by
  intro a; unfold evalStmt; keepstree

theorem ktz_evalStmtBody : ∀ a, KeepsTree (evalStmtBody 0 a) := by
  intro a; unfold evalStmtBody; keepstree

theorem ktz_evalFor : ∀ a b c d, KeepsTree (evalFor 0 a b c d) := by
  intro a b c d; unfold evalFor; keepstree

theorem ktz_forBody : ∀ a b c d, KeepsTree (forBody 0 a b c d) := by
  intro a b c d; unfold forBody; keepstree

theorem ktz_forItems : ∀ a b c d e, KeepsTree (forItems 0 a b c d e) := by
  intro a b c d e; unfold forItems; keepstree

theorem ktz_forRanger : ∀ a b c d e f, KeepsTree (forRanger 0 a b c d e f) := by
  intro a b c d e f; unfold forRanger; keepstree

theorem ktz_evalIndex : ∀ a b c d, KeepsTree (evalIndex 0 a b c d) := by
  intro a b c d; unfold evalIndex; keepstree

theorem ktz_evalUserFn : ∀ a b c, KeepsTree (evalUserFn 0 a b c) := by
  intro a b c; unfold evalUserFn; keepstree

theorem ktz_fnBody : ∀ a b c, KeepsTree (fnBody 0 a b c) := by
  intro a b c; unfold fnBody; keepstree

theorem ktz_evalCall : ∀ a b c d e, KeepsTree (evalCall 0 a b c d e) := by
  intro a b c d e; unfold evalCall; keepstree

theorem ktz_bindArgs : ∀ a b c d, KeepsTree (bindArgs 0 a b c d) := by
  intro a b c d; unfold bindArgs; keepstree

theorem ktz_bindFixed : ∀ a b c, KeepsTree (bindFixed 0 a b c) := by
  intro a b c; unfold bindFixed; keepstree

theorem ktz_bindVariadic : ∀ a b c, KeepsTree (bindVariadic 0 a b c) := by
  intro a b c; unfold bindVariadic; keepstree

theorem ktz_blockWith : ∀ a b, KeepsTree (blockWith 0 a b) := by
  intro a b; unfold blockWith; keepstree

theorem ktz_callHelper : ∀ a b, KeepsTree (callHelper 0 a b) := by
  intro a b; unfold callHelper; keepstree

theorem ktz_partialHelper : ∀ a b c, KeepsTree (partialHelper 0 a b c) := by
  intro a b c; unfold partialHelper; keepstree

theorem ktz_renderIn : ∀ a b, KeepsTree (renderIn 0 a b) := by
  intro a b; unfold renderIn; keepstree

theorem ktz_compileStmts : ∀ a b, KeepsTree (compileStmts 0 a b) := by
  intro a b; unfold compileStmts; keepstree

theorem allKT : ∀ n, AllKT n := by
  intro n
  induction n with
  | zero => exact ⟨ktz_evalExpr, ktz_evalExprs, ktz_evalHashPairs, ktz_evalIdent, ktz_evalInfix, ktz_evalIf, ktz_evalElifs, ktz_evalBlock, ktz_evalStmts, ktz_evalStmt, ktz_evalStmtBody, ktz_evalFor, ktz_forBody, ktz_forItems, ktz_forRanger, ktz_evalIndex, ktz_evalUserFn, ktz_fnBody, ktz_evalCall, ktz_bindArgs, ktz_bindFixed, ktz_bindVariadic, ktz_blockWith, ktz_callHelper, ktz_partialHelper, ktz_renderIn, ktz_compileStmts⟩
  | succ n ih => exact ⟨kts_evalExpr n ih, kts_evalExprs n ih, kts_evalHashPairs n ih, kts_evalIdent n ih, kts_evalInfix n ih, kts_evalIf n ih, kts_evalElifs n ih, kts_evalBlock n ih, kts_evalStmts n ih, kts_evalStmt n ih, kts_evalStmtBody n ih, kts_evalFor n ih, kts_forBody n ih, kts_forItems n ih, kts_forRanger n ih, kts_evalIndex n ih, kts_evalUserFn n ih, kts_fnBody n ih, kts_evalCall n ih, kts_bindArgs n ih, kts_bindFixed n ih, kts_bindVariadic n ih, kts_blockWith n ih, kts_callHelper n ih, kts_partialHelper n ih, kts_renderIn n ih, kts_compileStmts n ih⟩

end Plush
