import PlushModel.Lexer
/-!
  Theorem A (DESIGN §6 C03, lexer half): the scanner is total on every byte string.
  * `WF` — the state invariant (`readPosition = position + 1`, `ch` is the byte under `position`
    or the NUL sentinel, no out-of-range slice so far) holds initially and after every `NextToken`;
  * every loop leaves because its guard is false, never because the model's budget ran out;
  * every `NextToken` that is not at the end of the input consumes at least one byte, and from
    the end of the input every token is EOF.
-/
namespace Plush
namespace LX

/-- number of line feeds among the first `n` bytes -/
def countLF (a : Array UInt8) : Nat → Nat
  | 0 => 0
  | n+1 => countLF a n + (if a.getD n 0 == 10 then 1 else 0)

structure WF (l : LX) : Prop where
  rp : l.rp = l.pos + 1
  ch : l.ch = l.input.getD l.pos 0
  nc : l.crashed = false
  /-- `curLine` is 1 + the number of line feeds consumed so far (the byte under `position` included) -/
  ln : l.line = 1 + countLF l.input (l.pos + 1)

theorem getD_zero_of_ge (a : Array UInt8) (i : Nat) (h : a.size ≤ i) : a.getD i 0 = 0 := by
  simp [Array.getD, Nat.not_lt.mpr h]

theorem WF.lt_of_ne {l : LX} (w : l.WF) (h : l.ch ≠ 0) : l.pos < l.input.size := by
  apply Nat.lt_of_not_ge
  intro hge
  exact h (by rw [w.ch]; exact getD_zero_of_ge _ _ hge)

theorem WF.ch_zero {l : LX} (w : l.WF) (h : l.input.size ≤ l.pos) : l.ch = 0 := by
  rw [w.ch]; exact getD_zero_of_ge _ _ h

theorem new_wf (input : Array UInt8) : (LX.new input).WF := by
  refine ⟨by simp [LX.new, readChar], by simp [LX.new, readChar], by simp [LX.new, readChar], ?_⟩
  show (if input.getD 0 0 == 10 then 1 + 1 else 1) = 1 + countLF input (0 + 1)
  simp only [countLF]
  split <;> omega

@[simp] theorem readChar_input (l : LX) : l.readChar.input = l.input := rfl
@[simp] theorem readChar_pos (l : LX) : l.readChar.pos = l.rp := rfl
@[simp] theorem readChar_rp (l : LX) : l.readChar.rp = l.rp + 1 := rfl
@[simp] theorem readChar_crashed (l : LX) : l.readChar.crashed = l.crashed := rfl
@[simp] theorem readChar_inside (l : LX) : l.readChar.inside = l.inside := rfl
@[simp] theorem readChar_ch (l : LX) : l.readChar.ch = l.input.getD l.rp 0 := rfl

theorem readChar_wf {l : LX} (w : l.WF) : l.readChar.WF := by
  refine ⟨by simp, by simp, by simp [w.nc], ?_⟩
  show (if l.input.getD l.rp 0 == 10 then l.line + 1 else l.line) = 1 + countLF l.input (l.rp + 1)
  rw [w.ln, w.rp]
  simp only [countLF]
  split <;> omega

theorem readChar_pos' {l : LX} (w : l.WF) : l.readChar.pos = l.pos + 1 := by simp [w.rp]

theorem peekChar_eq {l : LX} (w : l.WF) : l.peekChar = l.input.getD (l.pos + 1) 0 := by
  simp [peekChar, w.rp]

end LX
end Plush

namespace Plush
namespace LX

/-- `l'` is a later state of the same scan: invariant kept, same input, not moved backwards. -/
structure Adv (l l' : LX) : Prop where
  wf : l'.WF
  input : l'.input = l.input
  pos : l.pos ≤ l'.pos

theorem Adv.refl {l : LX} (w : l.WF) : Adv l l := ⟨w, rfl, Nat.le_refl _⟩
theorem Adv.trans {a c d : LX} (h1 : Adv a c) (h2 : Adv c d) : Adv a d :=
  ⟨h2.wf, h2.input.trans h1.input, Nat.le_trans h1.pos h2.pos⟩
theorem Adv.readChar {l : LX} (w : l.WF) : Adv l l.readChar :=
  ⟨readChar_wf w, rfl, by simp [w.rp]⟩

/-- `readWhile` (identifier / number / whitespace loops): stops because the class test fails, inside the input. -/
theorem readWhile_spec (p : UInt8 → Bool) (hp : p 0 = false) :
    ∀ (fuel : Nat) (l : LX), l.WF → l.pos ≤ l.input.size → l.input.size - l.pos < fuel →
      Adv l (readWhile p fuel l) ∧ (readWhile p fuel l).pos ≤ l.input.size ∧ p (readWhile p fuel l).ch = false
        ∧ (readWhile p fuel l).inside = l.inside ∧ (p l.ch = true → l.pos < (readWhile p fuel l).pos) := by
  intro fuel
  induction fuel with
  | zero => intro l _ _ h; omega
  | succ n ih =>
    intro l w hle hf
    unfold readWhile
    by_cases hc : p l.ch = true
    · simp only [hc, if_true]
      have hne : l.ch ≠ 0 := by intro h0; rw [h0, hp] at hc; exact Bool.noConfusion hc
      have hlt := w.lt_of_ne hne
      have w' := readChar_wf w
      have hp' : l.readChar.pos = l.pos + 1 := readChar_pos' w
      have := ih l.readChar w' (by rw [hp', readChar_input]; omega) (by rw [hp', readChar_input]; omega)
      refine ⟨(Adv.readChar w).trans this.1, by simpa using this.2.1, this.2.2.1, by simpa using this.2.2.2.1, fun _ => ?_⟩
      have := this.1.pos; rw [hp'] at this; omega
    · simp only [hc]
      simp only [Bool.not_eq_true] at hc
      exact ⟨Adv.refl w, hle, hc, rfl, fun h => Bool.noConfusion h⟩

theorem skipWsLoop_eq (fuel : Nat) (l : LX) : skipWsLoop fuel l = readWhile Gen.isWhitespace fuel l := by
  induction fuel generalizing l with
  | zero => rfl
  | succ n ih => simp [skipWsLoop, readWhile, ih]

end LX
end Plush

namespace Plush
namespace LX

theorem isWhitespace_zero : Gen.isWhitespace 0 = false := by decide
theorem isLetter_zero : Gen.isLetter 0 = false := by decide
theorem isDigit_zero : Gen.isDigit 0 = false := by decide
theorem identClass_zero : (fun c => Gen.isLetter c || Gen.isDigit c) 0 = false := by decide
theorem numClass_zero : (fun c => Gen.isDigit c || Gen.isDot c) 0 = false := by decide

/-- a successful Go slice expression `l.input[a:b]` -/
theorem slice_ok (l : LX) (a c : Nat) (h1 : a ≤ c) (h2 : c ≤ l.input.size) :
    (l.slice a c).2 = l := by
  simp [slice, h1, h2]

theorem skipWhitespace_spec (l : LX) (w : l.WF) :
    Adv l l.skipWhitespace ∧ Gen.isWhitespace l.skipWhitespace.ch = false ∧ l.skipWhitespace.inside = l.inside
      ∧ (l.pos < l.input.size → l.skipWhitespace.pos ≤ l.input.size)
      ∧ (l.input.size ≤ l.pos → l.skipWhitespace = l) := by
  unfold skipWhitespace
  rw [skipWsLoop_eq]
  by_cases h : l.pos ≤ l.input.size
  · have := readWhile_spec Gen.isWhitespace isWhitespace_zero (l.input.size + 2) l w h (by omega)
    refine ⟨this.1, this.2.2.1, this.2.2.2.1, fun _ => this.2.1, fun hge => ?_⟩
    have hz := w.ch_zero hge
    unfold readWhile
    simp [hz, isWhitespace_zero]
  · have hz := w.ch_zero (by omega)
    have e : readWhile Gen.isWhitespace (l.input.size + 2) l = l := by
      unfold readWhile; simp [hz, isWhitespace_zero]
    rw [e]
    exact ⟨Adv.refl w, by rw [hz]; exact isWhitespace_zero, rfl, fun h' => by omega, fun _ => rfl⟩

theorem readIdentifier_spec (l : LX) (w : l.WF) (hlt : l.pos < l.input.size) :
    Adv l l.readIdentifier.2 ∧ l.readIdentifier.2.pos ≤ l.input.size ∧ l.readIdentifier.2.inside = l.inside
      ∧ (Gen.isLetter l.ch = true → l.pos < l.readIdentifier.2.pos) := by
  unfold readIdentifier
  have := readWhile_spec (fun c => Gen.isLetter c || Gen.isDigit c) identClass_zero (l.input.size + 2) l w (by omega) (by omega)
  simp only
  rw [slice_ok _ _ _ this.1.pos (by rw [this.1.input]; exact this.2.1)]
  exact ⟨this.1, this.2.1, this.2.2.2.1, fun h => this.2.2.2.2 (by simp [h])⟩

theorem readNumber_spec (l : LX) (w : l.WF) (hlt : l.pos < l.input.size) :
    Adv l l.readNumber.2 ∧ l.readNumber.2.pos ≤ l.input.size ∧ l.readNumber.2.inside = l.inside
      ∧ ((Gen.isDigit l.ch || Gen.isDot l.ch) = true → l.pos < l.readNumber.2.pos) := by
  unfold readNumber
  have := readWhile_spec (fun c => Gen.isDigit c || Gen.isDot c) numClass_zero (l.input.size + 2) l w (by omega) (by omega)
  simp only
  rw [slice_ok _ _ _ this.1.pos (by rw [this.1.input]; exact this.2.1)]
  exact ⟨this.1, this.2.1, this.2.2.2.1, fun h => this.2.2.2.2 h⟩

end LX
end Plush

namespace Plush
namespace LX

/-- `for l.ch == '\\' && l.peekChar() == '"' { readChar; readChar }` stays inside the input. -/
theorem skipQuoteEscapes_spec :
    ∀ (fuel : Nat) (l : LX), l.WF → l.pos ≤ l.input.size → l.input.size - l.pos < fuel →
      Adv l (skipQuoteEscapes fuel l) ∧ (skipQuoteEscapes fuel l).pos ≤ l.input.size
        ∧ ((skipQuoteEscapes fuel l).ch == 92 && (skipQuoteEscapes fuel l).peekChar == 34) = false
        ∧ (skipQuoteEscapes fuel l).inside = l.inside := by
  intro fuel
  induction fuel with
  | zero => intro l _ _ h; omega
  | succ n ih =>
    intro l w hle hf
    unfold skipQuoteEscapes
    by_cases hc : (l.ch == 92 && l.peekChar == 34) = true
    · simp only [hc, if_true]
      have hpk : l.peekChar = 34 := by simp at hc; exact hc.2
      have hlt : l.pos + 1 < l.input.size := by
        apply Nat.lt_of_not_ge; intro hge
        rw [peekChar_eq w, getD_zero_of_ge _ _ hge] at hpk; exact absurd hpk (by decide)
      have w1 := readChar_wf w
      have w2 := readChar_wf w1
      have hp2 : l.readChar.readChar.pos = l.pos + 2 := by rw [readChar_pos' w1, readChar_pos' w]
      have := ih l.readChar.readChar w2 (by rw [hp2]; simp; omega) (by rw [hp2]; simp; omega)
      refine ⟨((Adv.readChar w).trans (Adv.readChar w1)).trans this.1, by simpa using this.2.1, this.2.2.1, by simpa using this.2.2.2⟩
    · simp only [hc]
      simp only [Bool.not_eq_true] at hc
      exact ⟨Adv.refl w, hle, hc, rfl⟩

/-- the string-literal loop ends at the closing quote or at the end of the input -/
theorem readStringLoop_spec :
    ∀ (fuel : Nat) (l : LX), l.WF → l.pos ≤ l.input.size → l.input.size - l.pos < fuel →
      Adv l (readStringLoop fuel l) ∧ (readStringLoop fuel l).pos ≤ l.input.size
        ∧ ((readStringLoop fuel l).ch = 0 ∨ (readStringLoop fuel l).ch = 34)
        ∧ (readStringLoop fuel l).inside = l.inside
        ∧ (l.ch ≠ 0 → l.pos < (readStringLoop fuel l).pos) := by
  intro fuel
  induction fuel with
  | zero => intro l _ _ h; omega
  | succ n ih =>
    intro l w hle hf
    unfold readStringLoop
    by_cases hc : l.ch = 0
    · simp [hc]; exact ⟨Adv.refl w, hle⟩
    · have hlt := w.lt_of_ne hc
      have w1 := readChar_wf w
      have hp1 : l.readChar.pos = l.pos + 1 := readChar_pos' w
      have sq := skipQuoteEscapes_spec (l.readChar.input.size + 2) l.readChar w1
        (by rw [hp1]; simp; omega) (by omega)
      simp only [bne_iff_ne, ne_eq, hc, not_false_eq_true, if_true]
      have a1 : Adv l (skipQuoteEscapes (l.readChar.input.size + 2) l.readChar) := (Adv.readChar w).trans sq.1
      have hgt : l.pos < (skipQuoteEscapes (l.readChar.input.size + 2) l.readChar).pos := by
        have := sq.1.pos; rw [hp1] at this; omega
      by_cases hq : (skipQuoteEscapes (l.readChar.input.size + 2) l.readChar).ch = 34
      · simp only [hq, beq_self_eq_true, if_true]
        exact ⟨a1, by simpa using sq.2.1, by first | exact Or.inr hq | trivial, by simpa using sq.2.2.2, fun _ => hgt⟩
      · have hq' : ((skipQuoteEscapes (l.readChar.input.size + 2) l.readChar).ch == 34) = false := by simpa using hq
        simp only [hq', Bool.false_eq_true, if_false]
        have hsz : (skipQuoteEscapes (l.readChar.input.size + 2) l.readChar).input = l.input := a1.input
        have := ih _ sq.1.wf (by rw [hsz]; simpa using sq.2.1) (by rw [hsz]; omega)
        refine ⟨a1.trans this.1, by rw [hsz] at this; exact this.2.1, this.2.2.1, ?_, fun _ => Nat.lt_of_lt_of_le hgt this.1.pos⟩
        rw [this.2.2.2.1]; simpa using sq.2.2.2

end LX
end Plush

namespace Plush
namespace LX

theorem readString_spec (l : LX) (w : l.WF) (hq : l.ch ≠ 0) :
    Adv l l.readString.2 ∧ l.readString.2.pos ≤ l.input.size ∧ l.readString.2.inside = l.inside
      ∧ (l.readString.2.ch = 0 ∨ l.readString.2.ch = 34) := by
  have hlt := w.lt_of_ne hq
  have := readStringLoop_spec (l.input.size + 2) l w (by omega) (by omega)
  unfold readString
  simp only
  rw [slice_ok _ _ _ (this.2.2.2.2 hq) (by rw [this.1.input]; exact this.2.1)]
  exact ⟨this.1, this.2.1, this.2.2.2.1, this.2.2.1⟩

theorem readBStringLoop_spec :
    ∀ (fuel : Nat) (l : LX), l.WF → l.pos ≤ l.input.size → l.input.size - l.pos < fuel →
      Adv l (readBStringLoop fuel l) ∧ (readBStringLoop fuel l).pos ≤ l.input.size
        ∧ ((readBStringLoop fuel l).ch = 0 ∨ (readBStringLoop fuel l).ch = 96)
        ∧ (readBStringLoop fuel l).inside = l.inside
        ∧ (l.ch ≠ 0 → l.pos < (readBStringLoop fuel l).pos) := by
  intro fuel
  induction fuel with
  | zero => intro l _ _ h; omega
  | succ n ih =>
    intro l w hle hf
    unfold readBStringLoop
    by_cases hc : l.ch = 0
    · simp [hc]; exact ⟨Adv.refl w, hle⟩
    · have hlt := w.lt_of_ne hc
      have w1 := readChar_wf w
      have hp1 : l.readChar.pos = l.pos + 1 := readChar_pos' w
      simp only [bne_iff_ne, ne_eq, hc, not_false_eq_true, if_true]
      by_cases hq : l.readChar.ch = 96
      · simp only [hq, beq_self_eq_true, if_true]
        exact ⟨Adv.readChar w, by rw [hp1]; omega, by first | exact Or.inr hq | trivial, rfl, fun _ => by rw [hp1]; omega⟩
      · have hq' : (l.readChar.ch == 96) = false := by simpa using hq
        simp only [hq', Bool.false_eq_true, if_false]
        have := ih l.readChar w1 (by rw [hp1]; simp; omega) (by rw [hp1]; simp; omega)
        refine ⟨(Adv.readChar w).trans this.1, by simpa using this.2.1, this.2.2.1, by simpa using this.2.2.2.1, fun _ => ?_⟩
        have := this.1.pos; rw [hp1] at this; omega

theorem readBString_spec (l : LX) (w : l.WF) (hq : l.ch ≠ 0) :
    Adv l l.readBString.2 ∧ l.readBString.2.pos ≤ l.input.size ∧ l.readBString.2.inside = l.inside
      ∧ (l.readBString.2.ch = 0 ∨ l.readBString.2.ch = 96) := by
  have hlt := w.lt_of_ne hq
  have := readBStringLoop_spec (l.input.size + 2) l w (by omega) (by omega)
  unfold readBString
  simp only
  rw [slice_ok _ _ _ (this.2.2.2.2 hq) (by rw [this.1.input]; exact this.2.1)]
  exact ⟨this.1, this.2.1, this.2.2.2.1, this.2.2.1⟩

/-- a `#` comment ends at a line end or at the end of the input -/
theorem skipLineComment_spec :
    ∀ (fuel : Nat) (l : LX), l.WF → l.pos ≤ l.input.size → l.input.size - l.pos < fuel →
      Adv l (skipLineComment fuel l) ∧ (skipLineComment fuel l).pos ≤ l.input.size
        ∧ ((skipLineComment fuel l).ch = 0 ∨ (skipLineComment fuel l).ch = 10 ∨ (skipLineComment fuel l).ch = 13)
        ∧ (skipLineComment fuel l).inside = l.inside
        ∧ (l.ch ≠ 0 → l.pos < (skipLineComment fuel l).pos) := by
  intro fuel
  induction fuel with
  | zero => intro l _ _ h; omega
  | succ n ih =>
    intro l w hle hf
    unfold skipLineComment
    by_cases hc : l.ch = 0
    · simp [hc]; exact ⟨Adv.refl w, hle⟩
    · have hlt := w.lt_of_ne hc
      have w1 := readChar_wf w
      have hp1 : l.readChar.pos = l.pos + 1 := readChar_pos' w
      simp only [bne_iff_ne, ne_eq, hc, not_false_eq_true, if_true]
      by_cases hq : (l.readChar.ch == 10 || l.readChar.ch == 13) = true
      · simp only [hq, if_true]
        refine ⟨Adv.readChar w, by rw [hp1]; omega, ?_, rfl, fun _ => by rw [hp1]; omega⟩
        simp only [Bool.or_eq_true, beq_iff_eq] at hq; exact Or.inr hq
      · have hq' := Bool.eq_false_iff.mpr hq
        simp only [hq', Bool.false_eq_true, if_false]
        have := ih l.readChar w1 (by rw [hp1]; simp; omega) (by rw [hp1]; simp; omega)
        refine ⟨(Adv.readChar w).trans this.1, by simpa using this.2.1, this.2.2.1, by simpa using this.2.2.2.1, fun _ => ?_⟩
        have := this.1.pos; rw [hp1] at this; omega

end LX
end Plush

namespace Plush
namespace LX

theorem wf_setInside {l : LX} (w : l.WF) (v : Bool) : ({ l with inside := v } : LX).WF :=
  ⟨w.rp, w.ch, w.nc, w.ln⟩

theorem adv_setInside {l : LX} (w : l.WF) (v : Bool) : Adv l { l with inside := v } :=
  ⟨wf_setInside w v, rfl, Nat.le_refl _⟩

def atTag (l : LX) : Bool := l.ch == 60 && l.peekChar == 37

theorem peekCharAt_eq (l : LX) (n : Nat) : l.peekCharAt n = l.input.getD (l.pos + n) 0 := rfl

/-- the text scanner: stops at a tag opener or at the end of the input, never slices out of range -/
theorem readHTMLLoop_spec (position : Nat) :
    ∀ (fuel : Nat) (l : LX), l.WF → l.pos ≤ l.input.size → l.input.size - l.pos < fuel → position ≤ l.pos →
      Adv l (readHTMLLoop position fuel l).2 ∧ (readHTMLLoop position fuel l).2.pos ≤ l.input.size
        ∧ ((readHTMLLoop position fuel l).1 = none →
            ((readHTMLLoop position fuel l).2.ch = 0 ∨ (readHTMLLoop position fuel l).2.atTag = true))
        ∧ (l.ch ≠ 0 → l.atTag = false → l.pos < (readHTMLLoop position fuel l).2.pos) := by
  intro fuel
  induction fuel with
  | zero => intro l _ _ h; omega
  | succ n ih =>
    intro l w hle hf hpos
    unfold readHTMLLoop
    by_cases hc : l.ch = 0
    · simp [hc]; exact ⟨Adv.refl w, hle⟩
    · have hlt := w.lt_of_ne hc
      have w1 := readChar_wf w
      have hp1 : l.readChar.pos = l.pos + 1 := readChar_pos' w
      simp only [bne_iff_ne, ne_eq, hc, not_false_eq_true, if_true]
      -- the step shared by the two "keep scanning" exits
      have cont : ∀ l1 : LX, Adv l l1 → l.pos < l1.pos → l1.pos ≤ l.input.size →
          Adv l (readHTMLLoop position n l1).2 ∧ (readHTMLLoop position n l1).2.pos ≤ l.input.size
            ∧ ((readHTMLLoop position n l1).1 = none →
                ((readHTMLLoop position n l1).2.ch = 0 ∨ (readHTMLLoop position n l1).2.atTag = true))
            ∧ (l.ch ≠ 0 → l.atTag = false → l.pos < (readHTMLLoop position n l1).2.pos) := by
        intro l1 a1 hgt hle1
        have := ih l1 a1.wf (by rw [a1.input]; exact hle1) (by rw [a1.input]; omega) (by omega)
        rw [a1.input] at this
        exact ⟨a1.trans this.1, this.2.1, this.2.2.1, fun _ _ => Nat.lt_of_lt_of_le hgt this.1.pos⟩
      by_cases hesc : (l.ch == 92 && l.peekChar == 60 && l.peekCharAt 2 == 37) = true
      · simp only [hesc, if_true]
        by_cases hprev : (l.prevChar == 92) = true
        · simp only [hprev, if_true]
          have hs : (l.readChar.slice position (l.readChar.pos - 1)).2 = l.readChar :=
            slice_ok _ _ _ (by rw [hp1]; omega) (by rw [hp1]; simp; omega)
          simp only [hs]
          exact ⟨Adv.readChar w, by rw [hp1]; omega, fun h => by simp at h, fun _ _ => by rw [hp1]; omega⟩
        · have hprev' := Bool.eq_false_iff.mpr hprev
          simp only [hprev', Bool.false_eq_true, if_false]
          have h37 : l.peekCharAt 2 = 37 := by simp at hesc; exact hesc.2
          have hlt2 : l.pos + 2 < l.input.size := by
            apply Nat.lt_of_not_ge; intro hge
            rw [peekCharAt_eq, getD_zero_of_ge _ _ hge] at h37; exact absurd h37 (by decide)
          have w2 := readChar_wf w1
          have hp2 : l.readChar.readChar.pos = l.pos + 2 := by rw [readChar_pos' w1, hp1]
          have a2 : Adv l l.readChar.readChar := (Adv.readChar w).trans (Adv.readChar w1)
          by_cases ht : (l.readChar.readChar.ch == 60 && l.readChar.readChar.peekChar == 37) = true
          · simp only [ht, if_true]
            refine ⟨a2.trans (adv_setInside w2 true), by show l.readChar.readChar.pos ≤ _; rw [hp2]; omega,
              fun _ => Or.inr ht, fun _ _ => by show _ < l.readChar.readChar.pos; rw [hp2]; omega⟩
          · have ht' := Bool.eq_false_iff.mpr ht
            simp only [ht', Bool.false_eq_true, if_false]
            have w3 := readChar_wf w2
            have hp3 : l.readChar.readChar.readChar.pos = l.pos + 3 := by rw [readChar_pos' w2, hp2]
            have := cont _ (a2.trans (Adv.readChar w2)) (by rw [hp3]; omega) (by rw [hp3]; omega)
            exact ⟨this.1, this.2.1, this.2.2.1, fun _ => this.2.2.2 hc⟩
      · have hesc' := Bool.eq_false_iff.mpr hesc
        simp only [hesc', Bool.false_eq_true, if_false]
        by_cases ht : (l.ch == 60 && l.peekChar == 37) = true
        · simp only [ht, if_true]
          exact ⟨adv_setInside w true, hle, fun _ => Or.inr ht, fun _ h => by simp [atTag, ht] at h⟩
        · have ht' := Bool.eq_false_iff.mpr ht
          simp only [ht', Bool.false_eq_true, if_false]
          have := cont _ (Adv.readChar w) (by rw [hp1]; omega) (by rw [hp1]; omega)
          exact ⟨this.1, this.2.1, this.2.2.1, fun _ => this.2.2.2 hc⟩

theorem readHTML_spec (l : LX) (w : l.WF) (hc : l.ch ≠ 0) (ht : l.atTag = false) :
    Adv l l.readHTML.2 ∧ l.readHTML.2.pos ≤ l.input.size ∧ l.pos < l.readHTML.2.pos := by
  have hlt := w.lt_of_ne hc
  have := readHTMLLoop_spec l.pos (l.input.size + 2) l w (by omega) (by omega) (Nat.le_refl _)
  unfold readHTML
  simp only
  split
  · rename_i s l' heq
    rw [heq] at this
    exact ⟨this.1, this.2.1, this.2.2.2 hc ht⟩
  · rename_i l' heq
    rw [heq] at this
    simp only
    rw [slice_ok _ _ _ this.1.pos (by rw [this.1.input]; exact this.2.1)]
    exact ⟨this.1, this.2.1, this.2.2.2 hc ht⟩

end LX
end Plush

namespace Plush
namespace LX

/-- strict progress: a later state of the same scan that has consumed at least one position -/
def Prog (l l' : LX) : Prop := Adv l l' ∧ l.pos < l'.pos

theorem Prog.of_adv_left {a c d : LX} (h1 : Adv a c) (h2 : Prog c d) : Prog a d :=
  ⟨h1.trans h2.1, Nat.lt_of_le_of_lt h1.pos h2.2⟩
theorem Prog.of_adv_right {a c d : LX} (h1 : Prog a c) (h2 : Adv c d) : Prog a d :=
  ⟨h1.1.trans h2, Nat.lt_of_lt_of_le h1.2 h2.pos⟩

theorem prog_readChar {l : LX} (w : l.WF) : Prog l l.readChar :=
  ⟨Adv.readChar w, by rw [readChar_pos' w]; omega⟩

@[simp] theorem finish_snd (tok : Token) (l : LX) : (finish tok l).2 = l.readChar := rfl
@[simp] theorem two_snd (l : LX) (t : TT) (s : String) : (two l t s).2 = l.readChar.readChar := rfl

theorem prog_finish {l : LX} (w : l.WF) (tok : Token) : Prog l (finish tok l).2 := prog_readChar w
theorem prog_two {l : LX} (w : l.WF) (t : TT) (s : String) : Prog l (two l t s).2 :=
  (prog_readChar w).of_adv_right (Adv.readChar (readChar_wf w))
theorem prog_two_inside {l : LX} (w : l.WF) (v : Bool) (t : TT) (s : String) :
    Prog l (two { l with inside := v } t s).2 :=
  Prog.of_adv_left (adv_setInside w v) (prog_two (wf_setInside w v) t s)

end LX
end Plush

namespace Plush
namespace LX

theorem prog_ite_snd {α} {l : LX} (c : Prop) [Decidable c] (a e : α × LX)
    (h1 : c → Prog l a.2) (h2 : ¬c → Prog l e.2) : Prog l (if c then a else e).2 := by
  by_cases h : c <;> simp [h, h1, h2]

theorem ne_zero_of_beq {c k : UInt8} (h : (c == k) = true) (hk : k ≠ 0) : c ≠ 0 := by
  simp only [beq_iff_eq] at h; rw [h]; exact hk

theorem prog_string {l : LX} (w : l.WF) (h : (l.ch == 34) = true) (t : TT) (ln : Nat) :
    Prog l (finish { type := t, lit := l.readString.fst, line := ln } l.readString.snd).2 := by
  have := readString_spec l w (ne_zero_of_beq h (by decide))
  exact Prog.of_adv_left this.1 (prog_finish this.1.wf _)

theorem prog_bstring {l : LX} (w : l.WF) (h : (l.ch == 96) = true) (t : TT) (ln : Nat) :
    Prog l (finish { type := t, lit := l.readBString.fst, line := ln } l.readBString.snd).2 := by
  have := readBString_spec l w (ne_zero_of_beq h (by decide))
  exact Prog.of_adv_left this.1 (prog_finish this.1.wf _)

theorem prog_ident {l : LX} (w : l.WF) (h : Gen.isLetter l.ch = true) (tok : Token) :
    Prog l (tok, l.readIdentifier.snd).2 := by
  have hne : l.ch ≠ 0 := by intro h0; rw [h0, isLetter_zero] at h; exact Bool.noConfusion h
  have := readIdentifier_spec l w (w.lt_of_ne hne)
  exact ⟨this.1, this.2.2.2 h⟩

theorem prog_number_digit {l : LX} (w : l.WF) (h : Gen.isDigit l.ch = true) (tok : Token) :
    Prog l (tok, l.readNumber.snd).2 := by
  have hne : l.ch ≠ 0 := by intro h0; rw [h0, isDigit_zero] at h; exact Bool.noConfusion h
  have := readNumber_spec l w (w.lt_of_ne hne)
  exact ⟨this.1, this.2.2.2 (by simp [h])⟩

theorem prog_number_dot {l : LX} (w : l.WF) (h : (l.ch == 46) = true) (tok : Token) :
    Prog l (tok, l.readNumber.snd).2 := by
  have := readNumber_spec l w (w.lt_of_ne (ne_zero_of_beq h (by decide)))
  exact ⟨this.1, this.2.2.2 (by simp [Gen.isDot, h])⟩

theorem prog_open_two {l : LX} (w : l.WF) (t : TT) (s : String) :
    Prog l (two ({ l with inside := true } : LX).readChar t s).2 :=
  Prog.of_adv_left ((adv_setInside w true).trans (Adv.readChar (wf_setInside w true)))
    (prog_two (readChar_wf (wf_setInside w true)) t s)

theorem prog_open_finish {l : LX} (w : l.WF) (tok : Token) :
    Prog l (finish tok ({ l with inside := true } : LX).readChar).2 :=
  Prog.of_adv_left ((adv_setInside w true).trans (Adv.readChar (wf_setInside w true)))
    (prog_finish (readChar_wf (wf_setInside w true)) tok)

/-- Inside a tag every `NextToken` call moves forward (even at the end of the input, where Go's
    `readChar` keeps counting), keeps the invariant, and — with the model's budget of
    `size - position + 1` recursive steps for runs of `#` comments — never runs out of budget. -/
theorem nextInsideToken_spec :
    ∀ (fuel : Nat) (l : LX), l.WF → l.input.size - l.pos < fuel →
      Prog l (nextInsideToken fuel l).2 := by
  intro fuel
  induction fuel with
  | zero => intro l _ h; omega
  | succ n ih =>
    intro l w hf
    have sw := skipWhitespace_spec l w
    unfold nextInsideToken
    simp only []
    generalize hl1 : l.skipWhitespace = l1 at sw ⊢
    have w1 := sw.1.wf
    by_cases hc : (l1.ch == 35) = true
    · simp only [hc, if_true]
      have hne := ne_zero_of_beq hc (by decide)
      have hlt1 := w1.lt_of_ne hne
      have sl := skipLineComment_spec (l1.input.size + 2) l1 w1 (by omega) (by omega)
      have hin : l1.input = l.input := sw.1.input
      have hp := sw.1.pos
      have hgt := sl.2.2.2.2 hne
      have e1 : (skipLineComment (l1.input.size + 2) l1).input.size = l.input.size := by rw [sl.1.input, hin]
      rw [hin] at hlt1
      have := ih _ sl.1.wf (by rw [e1]; omega)
      exact Prog.of_adv_left (sw.1.trans sl.1) this
    · have hc' := Bool.eq_false_iff.mpr hc
      simp only [hc', Bool.false_eq_true, if_false]
      refine Prog.of_adv_left sw.1 ?_
      repeat' (first | (with_reducible apply prog_ite_snd <;> intro _) )
      all_goals (with_reducible first
        | exact prog_finish w1 _ | exact prog_two w1 _ _ | exact prog_two_inside w1 _ _ _
        | exact prog_open_two w1 _ _ | exact prog_open_finish w1 _
        | exact prog_string w1 ‹_› _ _ | exact prog_bstring w1 ‹_› _ _
        | exact prog_ident w1 ‹_› _ | exact prog_number_digit w1 ‹_› _ | exact prog_number_dot w1 ‹_› _
        | skip)

end LX
end Plush

namespace Plush
namespace LX

/-- at the end of the input a tag-mode `NextToken` is EOF -/
theorem nextInsideToken_eof (fuel : Nat) (l : LX) (w : l.WF) (h : l.input.size ≤ l.pos) :
    (nextInsideToken (fuel + 1) l).1.type = .EOF := by
  have hsw := (skipWhitespace_spec l w).2.2.2.2 h
  have hz := w.ch_zero h
  unfold nextInsideToken
  simp only [hsw, hz]
  simp [isLetter_zero, isDigit_zero]
  rfl

/-- the scan is over: outside a tag on the NUL sentinel (Go: `l.ch == 0` → EOF, nothing consumed), or past the input -/
def Done (l : LX) : Prop := (l.inside = false ∧ l.ch = 0) ∨ l.input.size ≤ l.pos

/-- `NextToken` keeps the invariant; unless the scan is over it consumes at least one byte -/
theorem nextToken_spec (l : LX) (w : l.WF) :
    Adv l l.nextToken.2 ∧ (¬ l.Done → l.pos < l.nextToken.2.pos) := by
  unfold nextToken
  by_cases hi : l.inside = true
  · simp only [hi, if_true]
    have := nextInsideToken_spec (l.input.size + 2) l w (by omega)
    exact ⟨this.1, fun _ => this.2⟩
  · have hi' := Bool.eq_false_iff.mpr hi
    simp only [hi', Bool.false_eq_true, if_false]
    by_cases hc : l.ch = 0
    · simp only [hc, beq_self_eq_true, if_true]
      exact ⟨Adv.refl w, fun hnd => absurd (Or.inl ⟨hi', hc⟩) hnd⟩
    · have hc' : (l.ch == 0) = false := by simpa using hc
      simp only [hc', Bool.false_eq_true, if_false]
      have hlt := w.lt_of_ne hc
      by_cases ht : (l.ch == 60 && l.peekChar == 37) = true
      · simp only [ht, if_true]
        have := nextInsideToken_spec (l.input.size + 2) { l with inside := true } (wf_setInside w true) (by simp; omega)
        exact ⟨(adv_setInside w true).trans this.1, fun _ => this.2⟩
      · have ht' := Bool.eq_false_iff.mpr ht
        simp only [ht', Bool.false_eq_true, if_false]
        have := readHTML_spec l w hc ht'
        exact ⟨this.1, fun _ => this.2.2⟩

end LX
end Plush

namespace Plush
namespace LX

theorem readChar_line_of_ge (l : LX) (h : l.input.size ≤ l.rp) : l.readChar.line = l.line := by
  simp [readChar, getD_zero_of_ge _ _ h]

theorem nextInsideToken_done (fuel : Nat) (l : LX) (w : l.WF) (h : l.input.size ≤ l.pos) :
    nextInsideToken (fuel + 1) l = ({ type := .EOF, lit := [], line := l.line }, l.readChar) := by
  have hsw := (skipWhitespace_spec l w).2.2.2.2 h
  have hz := w.ch_zero h
  unfold nextInsideToken
  simp only [hsw, hz]
  simp [finish]

theorem done_step (l : LX) (w : l.WF) (hd : l.Done) :
    l.nextToken.1 = { type := .EOF, lit := [], line := l.line } ∧ l.nextToken.2.Done ∧ l.nextToken.2.line = l.line := by
  unfold nextToken
  by_cases hi : l.inside = true
  · have hge : l.input.size ≤ l.pos := by
      rcases hd with ⟨h1, _⟩ | h
      · rw [hi] at h1; exact Bool.noConfusion h1
      · exact h
    simp only [hi, if_true]
    rw [nextInsideToken_done _ l w hge]
    refine ⟨rfl, Or.inr ?_, ?_⟩
    · simp; rw [w.rp]; omega
    · show l.readChar.line = l.line
      rw [readChar_line_of_ge _ (by rw [w.rp]; omega)]
  · have hi' := Bool.eq_false_iff.mpr hi
    have hc : l.ch = 0 := by
      rcases hd with ⟨_, h2⟩ | h
      · exact h2
      · exact w.ch_zero h
    simp only [hi', Bool.false_eq_true, if_false, hc, beq_self_eq_true, if_true]
    exact ⟨trivial, Or.inl ⟨hi', hc⟩, trivial⟩

end LX
end Plush

namespace Plush
open LX

/-- the lexer state after `n` calls of `NextToken` -/
def stateAfter : Nat → LX → LX
  | 0, l => l
  | n+1, l => stateAfter n l.nextToken.2

/-- the `k`-th token (0-based) of the unbounded stream `NextToken, NextToken, …` -/
def tokenAt (k : Nat) (l : LX) : Token := (stateAfter k l).nextToken.1

theorem stateAfter_succ' (n : Nat) (l : LX) : stateAfter (n+1) l = (stateAfter n l).nextToken.2 := by
  induction n generalizing l with
  | zero => rfl
  | succ n ih => simp only [stateAfter] at ih ⊢; rw [ih]

theorem stateAfter_adv (n : Nat) (l : LX) (w : l.WF) : Adv l (stateAfter n l) := by
  induction n generalizing l with
  | zero => exact Adv.refl w
  | succ n ih =>
    have h1 := (nextToken_spec l w).1
    exact h1.trans (ih _ h1.wf)

theorem lexN_getElem? (m : Nat) (l : LX) (k : Nat) (hk : k < m) : (lexN m l)[k]? = some (tokenAt k l) := by
  induction m generalizing l k with
  | zero => omega
  | succ m ih =>
    cases k with
    | zero => simp [lexN, tokenAt, stateAfter]
    | succ k =>
      simp only [lexN, List.getElem?_cons_succ]
      rw [ih _ _ (by omega)]
      rfl

theorem lexCrashed_false (n : Nat) (l : LX) (w : l.WF) : lexCrashed n l = false := by
  induction n generalizing l with
  | zero => exact w.nc
  | succ n ih => simp [lexCrashed, w.nc, ih _ (nextToken_spec l w).1.wf]

theorem stateAfter_progress (n : Nat) (l : LX) (w : l.WF) :
    (stateAfter n l).Done ∨ l.pos + n ≤ (stateAfter n l).pos := by
  induction n with
  | zero => right; simp [stateAfter]
  | succ n ih =>
    rw [stateAfter_succ']
    have wn := (stateAfter_adv n l w).wf
    rcases ih with hd | hp
    · left; exact (done_step _ wn hd).2.1
    · by_cases hd : (stateAfter n l).Done
      · left; exact (done_step _ wn hd).2.1
      · right
        have := (nextToken_spec _ wn).2 hd
        omega

theorem done_forever (n : Nat) (l : LX) (w : l.WF) (hd : l.Done) :
    (stateAfter n l).Done ∧ (stateAfter n l).line = l.line ∧ tokenAt n l = { type := .EOF, lit := [], line := l.line } := by
  induction n generalizing l with
  | zero => exact ⟨hd, rfl, (done_step l w hd).1⟩
  | succ n ih =>
    have ds := done_step l w hd
    have := ih _ (nextToken_spec l w).1.wf ds.2.1
    simp only [stateAfter, tokenAt] at this ⊢
    rw [ds.2.2] at this
    exact this

/-- after `size + 1` calls the scan is over, whatever the input -/
theorem done_after_size (input : Array UInt8) : (stateAfter (input.size + 1) (LX.new input)).Done := by
  rcases stateAfter_progress (input.size + 1) (LX.new input) (new_wf input) with h | h
  · exact h
  · right
    have := (stateAfter_adv (input.size + 1) (LX.new input) (new_wf input)).input
    rw [this]; simp [LX.new] at h ⊢; omega

theorem stateAfter_add (a c : Nat) (l : LX) : stateAfter (a + c) l = stateAfter c (stateAfter a l) := by
  induction a generalizing l with
  | zero => simp [stateAfter]
  | succ a ih => rw [Nat.succ_add]; simp only [stateAfter]; exact ih _

/-- THE TAIL: from index `size + 1` on, every token of the unbounded stream is the same EOF token -/
theorem stream_tail_eof (input : Array UInt8) (k : Nat) (hk : input.size + 1 ≤ k) :
    tokenAt k (LX.new input) = tokenAt (input.size + 1) (LX.new input) ∧ (tokenAt k (LX.new input)).type = .EOF := by
  obtain ⟨d, rfl⟩ : ∃ d, k = (input.size + 1) + d := ⟨k - (input.size + 1), by omega⟩
  have w := (stateAfter_adv (input.size + 1) (LX.new input) (new_wf input)).wf
  have hd := done_after_size input
  have h0 := done_forever 0 _ w hd
  have hdd := done_forever d _ w hd
  have e : tokenAt (input.size + 1 + d) (LX.new input) = tokenAt d (stateAfter (input.size + 1) (LX.new input)) := by
    simp only [tokenAt, stateAfter_add]
  have e0 : tokenAt (input.size + 1) (LX.new input) = tokenAt 0 (stateAfter (input.size + 1) (LX.new input)) := rfl
  rw [e, e0, hdd.2.2, h0.2.2]
  exact ⟨rfl, rfl⟩

/-- the parser model reads `lexAll input` and repeats its last element for ever: that IS the unbounded stream -/
theorem lexAll_is_stream (input : Array UInt8) (i : Nat) :
    (lexAll input).getD i ((lexAll input).back?.getD { type := .EOF, lit := [], line := 1 }) = tokenAt i (LX.new input) := by
  have hlen : (lexN (input.size + 2) (LX.new input)).length = input.size + 2 := by
    generalize LX.new input = l
    generalize input.size + 2 = n
    induction n generalizing l with
    | zero => rfl
    | succ n ih => simp [lexN, ih]
  have hback : (lexAll input).back? = some (tokenAt (input.size + 1) (LX.new input)) := by
    simp only [lexAll, Array.back?, List.size_toArray, hlen]
    simp [lexN_getElem? (input.size + 2) (LX.new input) (input.size + 1) (by omega)]
  have hget : ∀ d, (lexAll input).getD i d = ((lexN (input.size + 2) (LX.new input))[i]?).getD d := by
    intro d; simp [lexAll, Array.getD_eq_getD_getElem?]
  rw [hget, hback]
  by_cases hi : i < input.size + 2
  · rw [lexN_getElem? _ _ _ hi]; rfl
  · have : (lexN (input.size + 2) (LX.new input))[i]? = none := by
      rw [List.getElem?_eq_none_iff]; omega
    rw [this]
    simp only [Option.getD_some, Option.getD_none]
    exact ((stream_tail_eof input i (by omega)).1).symm

/-- the last element of `lexAll input` — what the parser model repeats for ever — is an EOF token -/
theorem lexAll_back_eof (input : Array UInt8) (d : Token) : ((lexAll input).back?.getD d).type = .EOF := by
  have hlen : (lexN (input.size + 2) (LX.new input)).length = input.size + 2 := by
    generalize LX.new input = l
    generalize input.size + 2 = n
    induction n generalizing l with
    | zero => rfl
    | succ n ih => simp [lexN, ih]
  have hback : (lexAll input).back? = some (tokenAt (input.size + 1) (LX.new input)) := by
    simp only [lexAll, Array.back?, List.size_toArray, hlen]
    simp [lexN_getElem? (input.size + 2) (LX.new input) (input.size + 1) (by omega)]
  rw [hback]
  exact (stream_tail_eof input (input.size + 1) (Nat.le_refl _)).2

end Plush
