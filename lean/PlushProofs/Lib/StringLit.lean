import PlushProofs.Lib.LexerTotal
/-!
  String literals denote exactly the characters between their quotes (C02, last clause; C18: whatever is
  inside a string is inert — tag delimiters, `#`, newlines, the other kind of quote).

  * back-quoted: `readBString` on  `` ` body ` ``  (body free of `` ` `` and NUL) returns `body`, byte for byte;
  * double-quoted, no escapes: `readString` on `" body "` (body free of `"` and NUL, not ending in a backslash)
    returns `body`;
  * double-quoted with escapes: for ANY content `c` free of NUL and backslash, the spelling `" esc c "` —
    every `"` of `c` written `\"` — is read back as `c`  (`readString_escaped`).
  In all three the scanner ends ON the closing quote (the caller's `finish` steps over it).
-/
namespace Plush
namespace LX

theorem getD_ne_zero_lt {a : Array UInt8} {i : Nat} (h : a.getD i 0 ≠ 0) : i < a.size := by
  apply Nat.lt_of_not_ge; intro hge; exact h (getD_zero_of_ge a i hge)

/-! ### back-quoted -/

theorem readBStringLoop_exact (e : Nat) :
    ∀ (fuel : Nat) (l : LX), l.WF → l.ch ≠ 0 → l.pos < e → l.input.getD e 0 = 96 →
      (∀ i, l.pos < i → i < e → l.input.getD i 0 ≠ 96 ∧ l.input.getD i 0 ≠ 0) → e - l.pos < fuel →
      (readBStringLoop fuel l).pos = e := by
  intro fuel
  induction fuel with
  | zero => intro l _ _ _ _ _ h; omega
  | succ n ih =>
    intro l w hc hlt hcl hb hf
    unfold readBStringLoop
    have w1 := readChar_wf w
    have hp1 : l.readChar.pos = l.pos + 1 := readChar_pos' w
    have hch1 : l.readChar.ch = l.input.getD (l.pos + 1) 0 := by rw [w1.ch, hp1]; rfl
    simp only [bne_iff_ne, ne_eq, hc, not_false_eq_true, if_true]
    by_cases he : l.pos + 1 = e
    · have : l.readChar.ch = 96 := by rw [hch1, he, hcl]
      simp only [this, beq_self_eq_true, if_true]; rw [hp1, he]
    · have hlt1 : l.pos + 1 < e := by omega
      have hb1 := hb (l.pos + 1) (by omega) hlt1
      have hq' : (l.readChar.ch == 96) = false := by rw [hch1]; simpa using hb1.1
      simp only [hq', Bool.false_eq_true, if_false]
      exact ih l.readChar w1 (by rw [hch1]; exact hb1.2) (by rw [hp1]; exact hlt1) hcl
        (fun i h1 h2 => hb i (by rw [hp1] at h1; omega) h2) (by rw [hp1]; omega)

/-- a back-quoted string is taken raw: the literal is the bytes between the quotes, whatever they are -/
theorem readBString_exact (l : LX) (w : l.WF) (e : Nat) (hq : l.ch ≠ 0) (hlt : l.pos < e)
    (hcl : l.input.getD e 0 = 96)
    (hb : ∀ i, l.pos < i → i < e → l.input.getD i 0 ≠ 96 ∧ l.input.getD i 0 ≠ 0) :
    l.readBString.1 = (l.input.extract (l.pos + 1) e).toList ∧ l.readBString.2.pos = e
      ∧ l.readBString.2.WF ∧ l.readBString.2.input = l.input ∧ l.readBString.2.inside = l.inside := by
  have hes : e < l.input.size := getD_ne_zero_lt (by rw [hcl]; decide)
  have hpos := readBStringLoop_exact e (l.input.size + 2) l w hq hlt hcl hb (by omega)
  have sp := readBStringLoop_spec (l.input.size + 2) l w (by omega) (by omega)
  unfold readBString
  simp only [slice, hpos, sp.1.input]
  have : l.pos + 1 ≤ e ∧ e ≤ l.input.size := ⟨by omega, by omega⟩
  simp only [this, and_self, if_true]
  exact ⟨trivial, hpos, sp.1.wf, sp.1.input, sp.2.2.2.1⟩

/-! ### double-quoted -/

theorem skipQuoteEscapes_none (fuel : Nat) (l : LX) (h : (l.ch == 92 && l.peekChar == 34) = false) :
    skipQuoteEscapes (fuel + 1) l = l := by
  unfold skipQuoteEscapes; simp [h]

theorem skipQuoteEscapes_one (fuel : Nat) (l : LX) (h : (l.ch == 92 && l.peekChar == 34) = true) :
    skipQuoteEscapes (fuel + 1) l = skipQuoteEscapes fuel l.readChar.readChar := by
  rw [skipQuoteEscapes]; simp only [h, if_true]

theorem replaceAll_no_quote : ∀ (s : Bytes), (34 : UInt8) ∉ s → replaceAll [92, 34] [34] s = s := by
  intro s
  induction s with
  | nil => intro _; rw [replaceAll]
  | cons c rest ih =>
    intro h
    rw [replaceAll]
    have hp : isPrefixOfB [92, 34] (c :: rest) = false := by
      cases rest with
      | nil => simp [isPrefixOfB]
      | cons d r =>
        apply Bool.eq_false_iff.mpr
        intro hp
        simp only [isPrefixOfB, Bool.and_eq_true, beq_iff_eq, Bool.and_true] at hp
        apply h; rw [hp.2]; simp
    simp only [hp, Bool.false_eq_true, and_false, if_false]
    rw [ih (fun hh => h (List.mem_cons_of_mem _ hh))]

/-- the spelling of a string's content inside double quotes: every `"` is written `\"` -/
def escQ : Bytes → Bytes
  | [] => []
  | c :: rest => if c = 34 then 92 :: 34 :: escQ rest else c :: escQ rest

theorem replaceAll_escQ : ∀ (c : Bytes), (92 : UInt8) ∉ c → replaceAll [92, 34] [34] (escQ c) = c := by
  intro c
  induction c with
  | nil => intro _; simp [escQ, replaceAll]
  | cons x rest ih =>
    intro h
    have hx : x ≠ 92 := fun hh => h (by rw [hh]; simp)
    have hr : (92 : UInt8) ∉ rest := fun hh => h (List.mem_cons_of_mem _ hh)
    by_cases hq : x = 34
    · subst hq
      simp only [escQ, if_true]
      rw [replaceAll]
      simp [isPrefixOfB, ih hr]
    · simp only [escQ, hq, if_false]
      rw [replaceAll]
      have hp : isPrefixOfB [92, 34] (x :: escQ rest) = false := by
        cases hh : escQ rest with
        | nil => simp [isPrefixOfB]
        | cons d r => simp [isPrefixOfB]; intro h1; exact absurd h1.symm hx
      simp only [hp, Bool.false_eq_true, and_false, if_false]
      rw [ih hr]

/-- the input spells `body` from position `k` on: `a[k + j] = body[j]` -/
def Spells (a : Array UInt8) (k : Nat) (body : Bytes) : Prop := ∀ j (h : j < body.length), a.getD (k + j) 0 = body[j]

theorem Spells.tail {a : Array UInt8} {k : Nat} {x : UInt8} {r : Bytes} (h : Spells a k (x :: r)) : Spells a (k + 1) r := by
  intro j hj
  have := h (j + 1) (by simp; omega)
  simpa [Nat.add_assoc, Nat.add_comm 1 j] using this

theorem Spells.head {a : Array UInt8} {k : Nat} {x : UInt8} {r : Bytes} (h : Spells a k (x :: r)) : a.getD k 0 = x := by
  have := h 0 (by simp)
  simpa using this

theorem spells_extract (a : Array UInt8) : ∀ (body : Bytes) (k : Nat), Spells a k body → k + body.length ≤ a.size →
    (a.extract k (k + body.length)).toList = body := by
  intro body k hs hle
  apply List.ext_getElem
  · simp; omega
  · intro i h1 h2
    have := hs i h2
    simp only [Array.toList_extract, List.getElem_take, List.getElem_drop] at *
    rw [← this]
    have hk : k + i < a.size := by omega
    simp [Array.getD_eq_getD_getElem?, hk]

/-- skipping `\"` pairs: `m` escaped quotes in a row are stepped over, and the scanner stops on what follows -/
theorem skipQuoteEscapes_run (a : Array UInt8) :
    ∀ (m : Nat) (fuel : Nat) (l : LX), l.WF → l.input = a → m < fuel →
      (∀ j, j < m → a.getD (l.pos + 2 * j) 0 = 92 ∧ a.getD (l.pos + 2 * j + 1) 0 = 34) →
      ¬ (a.getD (l.pos + 2 * m) 0 = 92 ∧ a.getD (l.pos + 2 * m + 1) 0 = 34) →
      (skipQuoteEscapes fuel l).pos = l.pos + 2 * m ∧ (skipQuoteEscapes fuel l).WF
        ∧ (skipQuoteEscapes fuel l).input = a ∧ (skipQuoteEscapes fuel l).inside = l.inside := by
  intro m
  induction m with
  | zero =>
    intro fuel l w hin hf _ hstop
    obtain ⟨n, rfl⟩ : ∃ n, fuel = n + 1 := ⟨fuel - 1, by omega⟩
    have : (l.ch == 92 && l.peekChar == 34) = false := by
      apply Bool.eq_false_iff.mpr; intro h
      simp only [Bool.and_eq_true, beq_iff_eq] at h
      apply hstop
      rw [← hin]
      exact ⟨by simpa [w.ch] using h.1, by simpa [peekChar_eq w] using h.2⟩
    rw [skipQuoteEscapes_none _ _ this]
    exact ⟨by simp, w, hin, rfl⟩
  | succ m ih =>
    intro fuel l w hin hf hrun hstop
    obtain ⟨n, rfl⟩ : ∃ n, fuel = n + 1 := ⟨fuel - 1, by omega⟩
    have h0 := hrun 0 (by omega)
    have : (l.ch == 92 && l.peekChar == 34) = true := by
      simp only [Bool.and_eq_true, beq_iff_eq]
      rw [w.ch, peekChar_eq w, hin]
      simpa using h0
    rw [skipQuoteEscapes_one _ _ this]
    have w1 := readChar_wf w
    have w2 := readChar_wf w1
    have hp2 : l.readChar.readChar.pos = l.pos + 2 := by rw [readChar_pos' w1, readChar_pos' w]
    have := ih n l.readChar.readChar w2 (by simpa using hin) (by omega)
      (fun j hj => by
        have := hrun (j + 1) (by omega)
        rw [hp2]
        have e1 : l.pos + 2 + 2 * j = l.pos + 2 * (j + 1) := by omega
        rw [e1]; exact this)
      (by
        rw [hp2]
        have e1 : l.pos + 2 + 2 * m = l.pos + 2 * (m + 1) := by omega
        rw [e1]; exact hstop)
    refine ⟨by rw [this.1, hp2]; omega, this.2.1, this.2.2.1, by simpa using this.2.2.2⟩

theorem length_le_escQ : ∀ (c : Bytes), c.length ≤ (escQ c).length := by
  intro c
  induction c with
  | nil => simp [escQ]
  | cons x r ih => unfold escQ; split <;> simp <;> omega

/-- the escape-skipping loop, started on the spelling of `c`, steps over the leading quotes of `c` and stops on the
    first character of `c` that is not a quote — or on the closing quote -/
theorem skipQuoteEscapes_escQ (a : Array UInt8) :
    ∀ (c : Bytes) (fuel : Nat) (l : LX), l.WF → l.input = a → c.length < fuel → (∀ x ∈ c, x ≠ 92) →
      Spells a l.pos (escQ c ++ [34]) →
      ∃ c'', (∀ x ∈ c'', x ∈ c) ∧ c''.length ≤ c.length
        ∧ (skipQuoteEscapes fuel l).pos + (escQ c'').length = l.pos + (escQ c).length
        ∧ Spells a (skipQuoteEscapes fuel l).pos (escQ c'' ++ [34])
        ∧ (c'' = [] ∨ ∃ x r, c'' = x :: r ∧ x ≠ 34)
        ∧ (skipQuoteEscapes fuel l).WF ∧ (skipQuoteEscapes fuel l).input = a
        ∧ (skipQuoteEscapes fuel l).inside = l.inside := by
  intro c
  induction c with
  | nil =>
    intro fuel l w hin hf _ hs
    obtain ⟨n, rfl⟩ : ∃ n, fuel = n + 1 := ⟨fuel - 1, by simp at hf; omega⟩
    have h0 : a.getD l.pos 0 = 34 := by have := hs 0 (by simp [escQ]); simpa [escQ] using this
    have : (l.ch == 92 && l.peekChar == 34) = false := by
      apply Bool.eq_false_iff.mpr; intro h
      simp only [Bool.and_eq_true, beq_iff_eq] at h
      rw [w.ch, hin, h0] at h
      exact absurd h.1 (by decide)
    rw [skipQuoteEscapes_none _ _ this]
    exact ⟨[], by simp, by simp, rfl, hs, Or.inl rfl, w, hin, rfl⟩
  | cons x r ih =>
    intro fuel l w hin hf hno hs
    obtain ⟨n, rfl⟩ : ∃ n, fuel = n + 1 := ⟨fuel - 1, by simp at hf; omega⟩
    by_cases hq : x = 34
    · subst hq
      have hs' : Spells a l.pos (92 :: 34 :: (escQ r ++ [34])) := by simpa [escQ] using hs
      have h0 : a.getD l.pos 0 = 92 := hs'.head
      have h1 : a.getD (l.pos + 1) 0 = 34 := hs'.tail.head
      have : (l.ch == 92 && l.peekChar == 34) = true := by
        simp only [Bool.and_eq_true, beq_iff_eq]
        rw [w.ch, peekChar_eq w, hin]; exact ⟨h0, h1⟩
      rw [skipQuoteEscapes_one _ _ this]
      have w1 := readChar_wf w
      have w2 := readChar_wf w1
      have hp2 : l.readChar.readChar.pos = l.pos + 2 := by rw [readChar_pos' w1, readChar_pos' w]
      obtain ⟨c'', m1, m2, m3, m4, m5, m6, m7, m8⟩ := ih n l.readChar.readChar w2 (by simpa using hin)
        (by simp at hf; omega) (fun y hy => hno y (List.mem_cons_of_mem _ hy))
        (by rw [hp2]; exact hs'.tail.tail)
      refine ⟨c'', fun y hy => List.mem_cons_of_mem _ (m1 y hy), by simp; omega, ?_, m4, m5, m6, m7, by simpa using m8⟩
      rw [m3, hp2]; simp [escQ]; omega
    · have hx : x ≠ 92 := hno x (by simp)
      have hs' : Spells a l.pos (x :: (escQ r ++ [34])) := by simpa [escQ, hq] using hs
      have h0 : a.getD l.pos 0 = x := hs'.head
      have : (l.ch == 92 && l.peekChar == 34) = false := by
        apply Bool.eq_false_iff.mpr; intro h
        simp only [Bool.and_eq_true, beq_iff_eq] at h
        rw [w.ch, hin, h0] at h
        exact hx h.1
      rw [skipQuoteEscapes_none _ _ this]
      exact ⟨x :: r, fun _ h => h, Nat.le_refl _, rfl, hs, Or.inr ⟨x, r, rfl, hq⟩, w, hin, rfl⟩

/-- the string loop, started on the opening quote (or on any consumed character) in front of the spelling of `c`
    and a closing quote, ends exactly ON that closing quote -/
theorem readStringLoop_escaped (a : Array UInt8) :
    ∀ (fuel : Nat) (c : Bytes) (l : LX), l.WF → l.input = a → l.ch ≠ 0 → (∀ x ∈ c, x ≠ 0 ∧ x ≠ 92) →
      Spells a (l.pos + 1) (escQ c ++ [34]) → c.length < fuel →
      (readStringLoop fuel l).pos = l.pos + 1 + (escQ c).length := by
  intro fuel
  induction fuel with
  | zero => intro c l _ _ _ _ _ h; omega
  | succ n ih =>
    intro c l w hin hc hno hs hf
    unfold readStringLoop
    simp only [bne_iff_ne, ne_eq, hc, not_false_eq_true, if_true]
    have w1 := readChar_wf w
    have hp1 : l.readChar.pos = l.pos + 1 := readChar_pos' w
    have hlast : a.getD (l.pos + 1 + (escQ c).length) 0 = 34 := by
      have := hs (escQ c).length (by simp)
      simpa using this
    have hsz : l.pos + 1 + (escQ c).length < a.size := getD_ne_zero_lt (by rw [hlast]; decide)
    have hlen := length_le_escQ c
    obtain ⟨c'', m1, m2, m3, m4, m5, m6, m7, _⟩ := skipQuoteEscapes_escQ a c (l.readChar.input.size + 2) l.readChar w1
      (by simpa using hin) (by have : l.readChar.input = a := by simpa using hin
                               rw [this]; omega)
      (fun x hx => (hno x hx).2) (by rw [hp1]; exact hs)
    generalize skipQuoteEscapes (l.readChar.input.size + 2) l.readChar = l2 at *
    rw [hp1] at m3
    rcases m5 with rfl | ⟨x, r, rfl, hxq⟩
    · have hch : l2.ch = 34 := by
        rw [m6.ch, m7]; have := m4 0 (by simp [escQ]); simpa [escQ] using this
      simp only [hch, beq_self_eq_true, if_true]
      simpa [escQ] using m3
    · have hx := hno x (m1 x (by simp))
      have hs2 : Spells a l2.pos (x :: (escQ r ++ [34])) := by simpa [escQ, hxq] using m4
      have hch : l2.ch = x := by rw [m6.ch, m7]; exact hs2.head
      have hne : (l2.ch == 34) = false := by rw [hch]; simpa using hxq
      simp only [hne, Bool.false_eq_true, if_false]
      rw [ih r l2 m6 m7 (by rw [hch]; exact hx.1) (fun y hy => hno y (m1 y (List.mem_cons_of_mem _ hy))) hs2.tail
        (by simp at m2; omega)]
      simp [escQ, hxq] at m3
      omega

/-- **a double-quoted string denotes its content**: for any content `c` free of NUL and backslash, the scanner on
    the opening quote of `" escQ c "` returns `c` and stops on the closing quote -/
theorem readString_escaped (l : LX) (w : l.WF) (c : Bytes) (hq : l.ch ≠ 0) (hno : ∀ x ∈ c, x ≠ 0 ∧ x ≠ 92)
    (hs : Spells l.input (l.pos + 1) (escQ c ++ [34])) :
    l.readString.1 = c ∧ l.readString.2.pos = l.pos + 1 + (escQ c).length
      ∧ l.readString.2.WF ∧ l.readString.2.input = l.input ∧ l.readString.2.inside = l.inside := by
  have hlast : l.input.getD (l.pos + 1 + (escQ c).length) 0 = 34 := by
    have := hs (escQ c).length (by simp)
    simpa using this
  have hsz : l.pos + 1 + (escQ c).length < l.input.size := getD_ne_zero_lt (by rw [hlast]; decide)
  have hlen := length_le_escQ c
  have hpos := readStringLoop_escaped l.input (l.input.size + 2) c l w rfl hq hno hs (by omega)
  have sp := readStringLoop_spec (l.input.size + 2) l w (by omega) (by omega)
  have hbody : Spells l.input (l.pos + 1) (escQ c) := fun j hj => by
    have := hs j (by simp; omega)
    rw [this]; simp [List.getElem_append_left hj]
  have hex := spells_extract l.input (escQ c) (l.pos + 1) hbody (by omega)
  unfold readString
  simp only [slice, hpos, sp.1.input]
  have : l.pos + 1 ≤ l.pos + 1 + (escQ c).length ∧ l.pos + 1 + (escQ c).length ≤ l.input.size := ⟨by omega, by omega⟩
  simp only [this, and_self, if_true]
  rw [hex]
  exact ⟨replaceAll_escQ c (fun h => (hno 92 h).2 rfl), hpos, sp.1.wf, sp.1.input, sp.2.2.2.1⟩

theorem escQ_no_quote : ∀ (body : Bytes), (∀ x ∈ body, x ≠ 34) → escQ body = body := by
  intro body
  induction body with
  | nil => intro _; rfl
  | cons x r ih =>
    intro h
    simp only [escQ, h x (by simp), if_false]
    rw [ih (fun y hy => h y (List.mem_cons_of_mem _ hy))]

/-- corollary without escapes: a body free of `"`, backslash and NUL is returned byte for byte -/
theorem readString_plain (l : LX) (w : l.WF) (body : Bytes) (hq : l.ch ≠ 0) (hno : ∀ x ∈ body, x ≠ 0 ∧ x ≠ 92 ∧ x ≠ 34)
    (hs : Spells l.input (l.pos + 1) (body ++ [34])) :
    l.readString.1 = body ∧ l.readString.2.pos = l.pos + 1 + body.length := by
  have he : escQ body = body := escQ_no_quote body (fun x hx => (hno x hx).2.2)
  have := readString_escaped l w body hq (fun x hx => ⟨(hno x hx).1, (hno x hx).2.1⟩) (by rw [he]; exact hs)
  rw [he] at this
  exact ⟨this.1, this.2.1⟩

end LX
end Plush

namespace Plush
namespace LX

theorem skipWhitespace_id (l : LX) (h : Gen.isWhitespace l.ch = false) : l.skipWhitespace = l := by
  unfold skipWhitespace; rw [show l.input.size + 2 = (l.input.size + 1) + 1 from rfl]; unfold skipWsLoop; simp [h]

set_option maxRecDepth 8000 in
/-- in code mode, on a double quote: the next token is the STRING whose literal is the content `c`, stamped with
    the line the string starts on, and the scan continues after the closing quote, still in code mode -/
theorem nextToken_string (l : LX) (w : l.WF) (hin : l.inside = true) (hch : l.ch = 34) (c : Bytes)
    (hno : ∀ x ∈ c, x ≠ 0 ∧ x ≠ 92) (hs : Spells l.input (l.pos + 1) (escQ c ++ [34])) :
    l.nextToken.1 = { type := .STRING, lit := c, line := l.line }
      ∧ l.nextToken.2.pos = l.pos + 2 + (escQ c).length ∧ l.nextToken.2.inside = true ∧ l.nextToken.2.WF := by
  have hq : l.ch ≠ 0 := by rw [hch]; decide
  have r := readString_escaped l w c hq hno hs
  have hws : l.skipWhitespace = l := skipWhitespace_id l (by rw [hch]; decide)
  unfold nextToken
  simp only [hin, if_true]
  rw [show l.input.size + 2 = (l.input.size + 1) + 1 from rfl]
  unfold nextInsideToken
  simp only [hws]
  generalize l.readString = rs at r ⊢
  obtain ⟨s, l2⟩ := rs
  simp only at r
  obtain ⟨rfl, r2, r3, r4, r5⟩ := r
  simp (config := { decide := true }) only [hch, finish, if_true, if_false]
  refine ⟨trivial, ?_, by simpa [hin] using r5, readChar_wf r3⟩
  rw [readChar_pos' r3, r2]; omega

set_option maxRecDepth 8000 in
/-- the same for a back-quoted string: the literal is the raw bytes between the back quotes -/
theorem nextToken_bstring (l : LX) (w : l.WF) (hin : l.inside = true) (hch : l.ch = 96) (e : Nat) (hlt : l.pos < e)
    (hcl : l.input.getD e 0 = 96)
    (hb : ∀ i, l.pos < i → i < e → l.input.getD i 0 ≠ 96 ∧ l.input.getD i 0 ≠ 0) :
    l.nextToken.1 = { type := .B_STRING, lit := (l.input.extract (l.pos + 1) e).toList, line := l.line }
      ∧ l.nextToken.2.pos = e + 1 ∧ l.nextToken.2.inside = true ∧ l.nextToken.2.WF := by
  have hq : l.ch ≠ 0 := by rw [hch]; decide
  have r := readBString_exact l w e hq hlt hcl hb
  have hws : l.skipWhitespace = l := skipWhitespace_id l (by rw [hch]; decide)
  unfold nextToken
  simp only [hin, if_true]
  rw [show l.input.size + 2 = (l.input.size + 1) + 1 from rfl]
  unfold nextInsideToken
  simp only [hws]
  generalize l.readBString = rs at r ⊢
  obtain ⟨s, l2⟩ := rs
  simp only at r
  obtain ⟨rfl, r2, r3, r4, r5⟩ := r
  simp (config := { decide := true }) only [hch, finish, if_true, if_false]
  refine ⟨trivial, ?_, by simpa [hin] using r5, readChar_wf r3⟩
  rw [readChar_pos' r3, r2]

end LX
end Plush
