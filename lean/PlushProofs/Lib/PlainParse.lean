import PlushProofs.Lib.PlainText
import PlushProofs.Lib.ParserTotalProof
namespace Plush
open LX

theorem tokens_plain (a : Array UInt8) (hp : Plain a) (hne : 0 < a.size) :
    ∃ ln, tokenAt 0 (LX.new a) = { type := .HTML, lit := a.toList, line := ln } ∧
      ∀ k, tokenAt (k + 1) (LX.new a) = { type := .EOF, lit := [], line := ln } := by
  obtain ⟨l', h1, w', d', _⟩ := nextToken_plain a hp hne
  refine ⟨l'.line, ?_, ?_⟩
  · simp [tokenAt, stateAfter, h1]
  · intro k
    have := (done_forever k l' w' d').2.2
    simp only [tokenAt, stateAfter, h1] at this ⊢
    exact this

namespace P

theorem parse_plain (t : Bytes) (hp : Plain t.toArray) (hne : t ≠ []) :
    ∃ ln, parseBytes t = .ok ({ stmts := [.es { type := .HTML, lit := t, line := ln }
        (some (.html { type := .HTML, lit := t, line := ln } t))] }, #[]) := by
  have hsz : 0 < t.toArray.size := by simpa using List.length_pos_iff.mpr hne
  obtain ⟨ln, h0, hk⟩ := tokens_plain t.toArray hp hsz
  refine ⟨ln, ?_⟩
  unfold parseBytes parseToks
  simp only
  generalize hs0 : ({ toks := lexAll t.toArray, eof := (lexAll t.toArray).back?.getD { type := .EOF, lit := [], line := 1 } } : PS) = s0
  have htok : ∀ i, tokAt s0 i = tokenAt i (LX.new t.toArray) := by
    intro i; rw [← hs0]; exact lexAll_is_stream t.toArray i
  have hpos : s0.pos = 0 := by rw [← hs0]
  have herr : s0.errs = #[] := by rw [← hs0]
  have key : OK (programLoop ((lexAll t.toArray).size + 4) (parseFuel (lexAll t.toArray).size) []) s0
      (fun r s' => r = [.es { type := .HTML, lit := t, line := ln } (some (.html { type := .HTML, lit := t, line := ln } t))]
        ∧ s'.errs = #[]) := by
    obtain ⟨K, hK⟩ : ∃ K, parseFuel (lexAll t.toArray).size = K + 5 := ⟨64 * (lexAll t.toArray).size + 27, by simp [parseFuel]⟩
    rw [hK]
    have h0' : tokAt s0 0 = { type := .HTML, lit := t, line := ln } := by rw [htok, h0]
    have h1' : tokAt s0 1 = { type := .EOF, lit := [], line := ln } := by rw [htok]; exact hk 0
    have hfn : lookupLast TT.HTML Gen.prefixFns = some .parseHTMLLiteral := by decide
    have hpe : precOf TT.EOF = Gen.LOWEST := by decide
    have e1 : (TT.HTML == TT.EOF) = false := by decide
    have e2 : (TT.HTML == TT.LET) = false := by decide
    have e3 : (TT.EOF == TT.SEMICOLON) = false := by decide
    have e4 : decide (Gen.LOWEST < Gen.LOWEST) = false := by decide
    have e5 : (TT.EOF == TT.EOF) = true := by decide
    unfold programLoop
    simp only [OK_bind, OK_curIs, hpos, h0', OK_ite]
    simp only [parseStatement_eq, parseExpressionStatement_eq, parseExpression_eq, runPrefix_eq, infixLoop_eq,
      OK_bind, OK_cur, OK_pure, hpos, h0', hfn, OK_ite, OK_peekIs, OK_peekPrecedence, Nat.zero_add, h1', hpe,
      OK_skipSemicolon, OK_nextTok, e1, e2, e3, e4, Bool.not_false, Bool.and_false, Bool.false_eq_true, if_false, if_true]
    unfold programLoop
    have h1'' : tokAt { toks := s0.toks, eof := s0.eof, pos := 1, errs := s0.errs, inFor := s0.inFor } 1 = { type := .EOF, lit := [], line := ln } := h1'
    simp only [OK_bind, OK_curIs, OK_ite, h1'', e5, Bool.not_true, Bool.false_eq_true, if_false, OK_pure, List.nil_append]
    exact ⟨trivial, herr⟩
  obtain ⟨r, s', hrun, hr, he⟩ := key
  simp only [StateT.run]
  rw [hrun, hr]
  simp only [he]

end P
end Plush
