import PlushProofs.Lib.ParserTotalProof
/-!
  C04, parser side ("WFAst"): a syntax tree with a missing child that the evaluator would dereference
  (`let` without a name — the only such node the parser can build; a `for` without a block and an identifier
  without segments are covered too) is only ever produced together with a syntax error, and syntax errors are
  never dropped. So a program that parses WITHOUT errors — the only kind that is ever evaluated — has none.
-/
namespace Plush

def Ident.bad (i : Ident) : Bool := i.base.isNone && i.segs.isEmpty

mutual
def Expr.bad : Expr → Bool
  | .html .. | .str .. | .int .. | .float .. | .bool .. | .brk .. | .cont .. => false
  | .ident i => i.bad
  | .pre _ _ r => OExpr.bad r
  | .inf _ _ l r => OExpr.bad l || OExpr.bad r
  | .asg _ name v => name.bad || OExpr.bad v
  | .arr _ es => OExprs.bad es
  | .hash _ pairs => Pairs.bad pairs
  | .idx _ l i v c => OExpr.bad l || OExpr.bad i || OExpr.bad v || OExpr.bad c
  | .call _ callee chain fn args block => OExpr.bad callee || OExpr.bad chain || Expr.bad fn || OExprs.bad args || OBlock.bad block
  | .fn _ _ block => Block.bad block
  | .if_ _ c bl elifs els => OExpr.bad c || Block.bad bl || Elifs.bad elifs || OBlock.bad els
  | .for_ _ _ _ it bl => OExpr.bad it || (match bl with | none => true | some b => Block.bad b)
def OExpr.bad : Option Expr → Bool
  | none => false
  | some e => Expr.bad e
def Exprs.bad : List (Option Expr) → Bool
  | [] => false
  | e :: r => OExpr.bad e || Exprs.bad r
def OExprs.bad : Option (List (Option Expr)) → Bool
  | none => false
  | some l => Exprs.bad l
def Pairs.bad : List (Option Expr × Option Expr) → Bool
  | [] => false
  | (k, v) :: r => OExpr.bad k || OExpr.bad v || Pairs.bad r
def Elifs.bad : List (Token × Option Expr × Block) → Bool
  | [] => false
  | (_, c, b) :: r => OExpr.bad c || Block.bad b || Elifs.bad r
def Stmt.bad : Stmt → Bool
  | .ret _ _ v => OExpr.bad v
  | .let_ _ name v => (match name with | none => true | some n => n.bad) || OExpr.bad v
  | .es _ e => OExpr.bad e
def Stmts.bad : List Stmt → Bool
  | [] => false
  | s :: r => Stmt.bad s || Stmts.bad r
def Block.bad : Block → Bool
  | .mk _ ss => Stmts.bad ss
def OBlock.bad : Option Block → Bool
  | none => false
  | some b => Block.bad b
end

end Plush

namespace Plush
namespace P

/-- partial correctness: IF `m` returns normally from `s`, the result/state satisfy `Q` -/
def PC {α} (m : PM α) (s : PS) (Q : α → PS → Prop) : Prop := ∀ a s', m s = .ok (a, s') → Q a s'

theorem PC_conseq {α} {m : PM α} {s : PS} {Q Q' : α → PS → Prop}
    (h : PC m s Q') (hq : ∀ a s', Q' a s' → Q a s') : PC m s Q := fun a s' e => hq a s' (h a s' e)

@[simp] theorem PC_pure {α} (a : α) (s : PS) (Q : α → PS → Prop) : PC (pure a) s Q ↔ Q a s := by
  constructor
  · intro h; exact h a s rfl
  · intro q a' s' e
    simp [pure, StateT.pure, Except.pure] at e
    obtain ⟨rfl, rfl⟩ := e; exact q

@[simp] theorem PC_bind {α β} (m : PM α) (f : α → PM β) (s : PS) (Q : β → PS → Prop) :
    PC (m >>= f) s Q ↔ PC m s (fun a s' => PC (f a) s' Q) := by
  constructor
  · intro h a s' e b s'' e2
    apply h b s''
    simp only [bind, StateT.bind, Except.bind, e, e2]
  · intro h b s'' e
    simp only [bind, StateT.bind, Except.bind] at e
    cases hm : m s with
    | error err => rw [hm] at e; cases e
    | ok r =>
      rw [hm] at e
      obtain ⟨a, s'⟩ := r
      exact h a s' hm b s'' e

@[simp] theorem PC_throw {α} (e : PFail) (s : PS) (Q : α → PS → Prop) : PC (throw e : PM α) s Q ↔ True := by
  constructor
  · intro _; trivial
  · intro _ a s' h
    simp [throw, throwThe, MonadExceptOf.throw, StateT.lift] at h
    cases h

@[simp] theorem PC_get (s : PS) (Q : PS → PS → Prop) : PC (get : PM PS) s Q ↔ Q s s := by
  constructor
  · intro h; exact h s s rfl
  · intro q a s' e
    simp [get, getThe, MonadStateOf.get, StateT.get, pure, Except.pure] at e
    obtain ⟨rfl, rfl⟩ := e; exact q

@[simp] theorem PC_set (s s1 : PS) (Q : Unit → PS → Prop) : PC (set s1 : PM Unit) s Q ↔ Q () s1 := by
  constructor
  · intro h; exact h () s1 rfl
  · intro q a s' e
    simp [set, MonadStateOf.set, StateT.set, pure, Except.pure] at e
    obtain ⟨rfl, rfl⟩ := e; exact q

@[simp] theorem PC_modify (f : PS → PS) (s : PS) (Q : Unit → PS → Prop) : PC (modify f : PM Unit) s Q ↔ Q () (f s) := by
  constructor
  · intro h; exact h () (f s) rfl
  · intro q a s' e
    simp [modify, modifyGet, MonadStateOf.modifyGet, StateT.modifyGet, pure, Except.pure] at e
    obtain ⟨rfl, rfl⟩ := e; exact q

@[simp] theorem PC_map {α β} (f : α → β) (m : PM α) (s : PS) (Q : β → PS → Prop) :
    PC (f <$> m) s Q ↔ PC m s (fun a s' => Q (f a) s') := by
  have : f <$> m = m >>= fun a => pure (f a) := by rw [map_eq_pure_bind]
  rw [this, PC_bind]
  simp only [PC_pure]

@[simp] theorem PC_cur (s : PS) (Q : Token → PS → Prop) : PC cur s Q ↔ Q (tokAt s s.pos) s := by simp [cur]
@[simp] theorem PC_peek (s : PS) (Q : Token → PS → Prop) : PC peek s Q ↔ Q (tokAt s (s.pos + 1)) s := by simp [peek]
@[simp] theorem PC_nextTok (s : PS) (Q : Unit → PS → Prop) : PC nextTok s Q ↔ Q () { s with pos := s.pos + 1 } := by
  simp [nextTok]
@[simp] theorem PC_curIs (t : TT) (s : PS) (Q : Bool → PS → Prop) : PC (curIs t) s Q ↔ Q ((tokAt s s.pos).type == t) s := by
  simp [curIs]
@[simp] theorem PC_peekIs (t : TT) (s : PS) (Q : Bool → PS → Prop) :
    PC (peekIs t) s Q ↔ Q ((tokAt s (s.pos + 1)).type == t) s := by simp [peekIs]
@[simp] theorem PC_addErr (ln : Option Nat) (k : String) (s : PS) (Q : Unit → PS → Prop) :
    PC (addErr ln k) s Q ↔ Q () { s with errs := s.errs.push { line := ln, kind := k } } := by simp [addErr]
@[simp] theorem PC_errHere (k : String) (s : PS) (Q : Unit → PS → Prop) :
    PC (errHere k) s Q ↔ Q () { s with errs := s.errs.push { line := some (tokAt s s.pos).line, kind := k } } := by
  simp [errHere]
@[simp] theorem PC_peekPrecedence (s : PS) (Q : Nat → PS → Prop) :
    PC peekPrecedence s Q ↔ Q (precOf (tokAt s (s.pos + 1)).type) s := by simp [peekPrecedence]
@[simp] theorem PC_curPrecedence (s : PS) (Q : Nat → PS → Prop) :
    PC curPrecedence s Q ↔ Q (precOf (tokAt s s.pos).type) s := by simp [curPrecedence]
@[simp] theorem PC_ite {α} (c : Prop) [Decidable c] (m1 m2 : PM α) (s : PS) (Q : α → PS → Prop) :
    PC (if c then m1 else m2) s Q ↔ (if c then PC m1 s Q else PC m2 s Q) := by
  split <;> rfl
theorem PC_skipSemicolon (s : PS) (Q : Unit → PS → Prop) :
    PC skipSemicolon s Q ↔ (if ((tokAt s (s.pos + 1)).type == TT.SEMICOLON) = true then Q () { s with pos := s.pos + 1 } else Q () s) := by
  simp only [skipSemicolon, PC_bind, PC_peekIs, PC_ite, PC_nextTok, PC_pure]
theorem PC_expectPeek (t : TT) (s : PS) (Q : Bool → PS → Prop) :
    PC (expectPeek t) s Q ↔ (if ((tokAt s (s.pos + 1)).type == t) = true then Q true { s with pos := s.pos + 1 }
      else Q false { s with errs := s.errs.push { line := some (tokAt s s.pos).line, kind := "expected-next-token" } }) := by
  simp only [expectPeek, PC_bind, PC_peekIs, PC_ite, PC_nextTok, PC_pure, PC_errHere]

macro "pc_simp" : tactic => `(tactic| try simp only [PC_bind, PC_cur, PC_peek, PC_nextTok, PC_pure, PC_curIs, PC_peekIs, PC_addErr,
  PC_errHere, PC_peekPrecedence, PC_curPrecedence, PC_ite, PC_map, PC_get, PC_set, PC_modify, PC_skipSemicolon, PC_expectPeek, PC_throw,
  Bool.not_true, Bool.not_false, Bool.false_eq_true, if_false, if_true])

/-- errors are only ever added: `s'` has at least the errors of `s` -/
def Mono (s s' : PS) : Prop := s.errs.size ≤ s'.errs.size

end P
end Plush

namespace Plush
namespace P

/-- no error was dropped, and if none was added the result has no bad node (`b` = the result's badness) -/
def Good (s s' : PS) (b : Bool) : Prop := s.errs.size ≤ s'.errs.size ∧ (s'.errs.size = s.errs.size → b = false)

/-- the same for functions that carry an accumulator / left operand whose badness is `pre` -/
def GoodP (s s' : PS) (pre b : Bool) : Prop := s.errs.size ≤ s'.errs.size ∧ (s'.errs.size = s.errs.size → pre = false → b = false)

def OStmt.bad : Option Stmt → Bool | none => false | some st => st.bad

structure AllPC (n : Nat) : Prop where
  stmt : ∀ s, PC (parseStatement n) s (fun r s' => Good s s' (OStmt.bad r))
  ret : ∀ s o, PC (parseReturnStatement n o) s (fun r s' => Good s s' r.bad)
  let_ : ∀ s, PC (parseLetStatement n) s (fun r s' => Good s s' r.bad)
  exprStmt : ∀ s, PC (parseExpressionStatement n) s (fun r s' => Good s s' r.bad)
  expr : ∀ s p, PC (parseExpression n p) s (fun r s' => Good s s' (OExpr.bad r))
  infixLoop : ∀ s p l, PC (infixLoop n p l) s (fun r s' => GoodP s s' (OExpr.bad l) (OExpr.bad r))
  runPrefix : ∀ s f, PC (runPrefix n f) s (fun r s' => Good s s' (OExpr.bad r))
  comment : ∀ s, PC (commentLoop n) s (fun r s' => Good s s' (OExpr.bad r))
  runInfix : ∀ s f l, PC (runInfix n f l) s (fun r s' => GoodP s s' (OExpr.bad l) (OExpr.bad r))
  exprList : ∀ s t, PC (parseExpressionList n t) s (fun r s' => Good s s' (OExprs.bad r))
  exprListLoop : ∀ s a, PC (exprListLoop n a) s (fun r s' => GoodP s s' (Exprs.bad a) (Exprs.bad r))
  hash : ∀ s t a, PC (hashLoop n t a) s (fun r s' => GoodP s s' (Pairs.bad a) (OExpr.bad r))
  params : ∀ s, PC (parseFunctionParameters n) s (fun _ s' => Good s s' false)
  paramLoop : ∀ s a, PC (paramLoop n a) s (fun _ s' => Good s s' false)
  block : ∀ s, PC (parseBlockStatement n) s (fun r s' => Good s s' (Block.bad r))
  blockLoop : ∀ s a, PC (blockLoop n a) s (fun r s' => GoodP s s' (Stmts.bad a) (Stmts.bad r))
  if_ : ∀ s, PC (parseIfExpression n) s (fun r s' => Good s s' (OExpr.bad r))
  elseLoop : ∀ s t c b e l,
    PC (elseLoop n t c b e l) s (fun r s' => GoodP s s' (OExpr.bad c || Block.bad b || Elifs.bad e || OBlock.bad l) (OExpr.bad r))
  for_ : ∀ s, PC (parseForExpression n) s (fun r s' => Good s s' (OExpr.bad r))
  forNames : ∀ s ln a, PC (forNamesLoop n ln a) s (fun _ s' => Good s s' false)

macro "msz" : tactic => `(tactic| ((try dsimp only at *); (try simp only [Array.size_push] at *); omega))

theorem Good.refl (s : PS) : Good s s false := ⟨Nat.le_refl _, fun _ => rfl⟩

theorem wf_comment (n : Nat) (ih : AllPC n) : ∀ s, PC (commentLoop (n+1)) s (fun r s' => Good s s' (OExpr.bad r)) := by
  intro s
  rw [commentLoop_eq]
  pc_simp
  split
  · exact PC_conseq (ih.comment _) (fun a s' g => g)
  · exact ⟨Nat.le_refl _, fun _ => by simp [OExpr.bad, Expr.bad]⟩

theorem wf_paramLoop (n : Nat) (ih : AllPC n) : ∀ s a, PC (paramLoop (n+1) a) s (fun _ s' => Good s s' false) := by
  intro s a
  rw [paramLoop_eq]
  pc_simp
  split
  · exact PC_conseq (ih.paramLoop _ _) (fun a s' g => g)
  · exact Good.refl s

theorem wf_forNames (n : Nat) (ih : AllPC n) : ∀ s ln a, PC (forNamesLoop (n+1) ln a) s (fun _ s' => Good s s' false) := by
  intro s ln a
  rw [forNamesLoop_eq]
  pc_simp
  split
  · split
    · exact ⟨by msz, fun _ => rfl⟩
    · exact PC_conseq (ih.forNames _ _ _) (fun a s' g => g)
  · exact Good.refl s

theorem wf_params (n : Nat) (ih : AllPC n) : ∀ s, PC (parseFunctionParameters (n+1)) s (fun _ s' => Good s s' false) := by
  intro s
  rw [parseFunctionParameters_eq]
  pc_simp
  split
  · exact Good.refl s
  · refine PC_conseq (ih.paramLoop _ _) ?_
    intro a s2 ⟨gm, _⟩
    pc_simp
    repeat' split
    all_goals exact ⟨by msz, fun _ => rfl⟩

theorem wf_stmt (n : Nat) (ih : AllPC n) : ∀ s, PC (parseStatement (n+1)) s (fun r s' => Good s s' (OStmt.bad r)) := by
  intro s
  rw [parseStatement_eq]
  pc_simp
  split <;> pc_simp
  · exact PC_conseq (ih.let_ _) (fun a s' g => g)
  · exact PC_conseq (ih.stmt _) (fun a s' g => g)
  · exact PC_conseq (ih.ret _ _) (fun a s' g => g)
  · exact PC_conseq (ih.ret _ _) (fun a s' g => g)
  · exact Good.refl s
  · exact Good.refl s
  · exact PC_conseq (ih.exprStmt _) (fun a s' g => g)

theorem wf_ret (n : Nat) (ih : AllPC n) : ∀ s o, PC (parseReturnStatement (n+1) o) s (fun r s' => Good s s' r.bad) := by
  intro s o
  rw [parseReturnStatement_eq]
  pc_simp
  refine PC_conseq (ih.expr _ _) ?_
  intro a s2 ⟨gm, gh⟩
  repeat' split
  all_goals exact ⟨by msz, fun h => by simpa [Stmt.bad] using gh (by msz)⟩

theorem wf_exprStmt (n : Nat) (ih : AllPC n) : ∀ s, PC (parseExpressionStatement (n+1)) s (fun r s' => Good s s' r.bad) := by
  intro s
  rw [parseExpressionStatement_eq]
  pc_simp
  refine PC_conseq (ih.expr _ _) ?_
  intro a s2 ⟨gm, gh⟩
  repeat' split
  all_goals exact ⟨by msz, fun h => by simpa [Stmt.bad] using gh (by msz)⟩

theorem splitOn1_ne_nil (sep : UInt8) (l : Bytes) : splitOn1 sep l ≠ [] := by
  induction l with
  | nil => simp [splitOn1]
  | cons c r ih =>
    simp only [splitOn1]
    split
    · simp
    · split <;> simp

theorem wf_let (n : Nat) (ih : AllPC n) : ∀ s, PC (parseLetStatement (n+1)) s (fun r s' => Good s s' r.bad) := by
  intro s
  rw [parseLetStatement_eq]
  pc_simp
  split
  · split
    · refine PC_conseq (ih.expr _ _) ?_
      intro a s2 ⟨gm, gh⟩
      repeat' split
      all_goals exact ⟨by msz, fun h => by simpa [Stmt.bad, Ident.bad] using gh (by msz)⟩
    · exact ⟨by msz, fun h => by msz⟩
  · exact ⟨by msz, fun h => by msz⟩

theorem wf_expr (n : Nat) (ih : AllPC n) : ∀ s p, PC (parseExpression (n+1) p) s (fun r s' => Good s s' (OExpr.bad r)) := by
  intro s p
  rw [parseExpression_eq]
  pc_simp
  split
  · exact ⟨Nat.le_refl _, fun _ => rfl⟩
  · split <;> pc_simp
    · exact ⟨by msz, fun h => by msz⟩
    · refine PC_conseq (ih.runPrefix _ _) ?_
      intro a s2 ⟨gm, gh⟩
      refine PC_conseq (ih.infixLoop _ _ _) ?_
      intro r s3 ⟨gm3, gh3⟩
      exact ⟨by omega, fun h => gh3 (by omega) (gh (by omega))⟩

theorem Exprs.bad_append (a : List (Option Expr)) (e : Option Expr) : Exprs.bad (a ++ [e]) = (Exprs.bad a || OExpr.bad e) := by
  induction a with
  | nil => simp [Exprs.bad]
  | cons x r ih => simp [Exprs.bad, ih, Bool.or_assoc]

theorem Stmts.bad_append (a : List Stmt) (st : Stmt) : Stmts.bad (a ++ [st]) = (Stmts.bad a || Stmt.bad st) := by
  induction a with
  | nil => simp [Stmts.bad]
  | cons x r ih => simp [Stmts.bad, ih, Bool.or_assoc]

theorem Elifs.bad_append (a : List (Token × Option Expr × Block)) (t : Token) (c : Option Expr) (b : Block) :
    Elifs.bad (a ++ [(t, c, b)]) = (Elifs.bad a || OExpr.bad c || Block.bad b) := by
  induction a with
  | nil => simp [Elifs.bad]
  | cons x r ih => obtain ⟨t', c', b'⟩ := x; simp [Elifs.bad, ih, Bool.or_assoc]

theorem wf_infixLoop (n : Nat) (ih : AllPC n) : ∀ s p l, PC (infixLoop (n+1) p l) s (fun r s' => GoodP s s' (OExpr.bad l) (OExpr.bad r)) := by
  intro s p l
  rw [infixLoop_eq]
  pc_simp
  split
  · split <;> pc_simp
    · exact ⟨Nat.le_refl _, fun _ h => h⟩
    · refine PC_conseq (ih.runInfix _ _ _) ?_
      intro a s2 ⟨gm, gh⟩
      refine PC_conseq (ih.infixLoop _ _ _) ?_
      intro r s3 ⟨gm3, gh3⟩
      exact ⟨by msz, fun h hl => gh3 (by msz) (gh (by msz) hl)⟩
  · exact ⟨Nat.le_refl _, fun _ h => h⟩

theorem wf_exprListLoop (n : Nat) (ih : AllPC n) : ∀ s a, PC (exprListLoop (n+1) a) s (fun r s' => GoodP s s' (Exprs.bad a) (Exprs.bad r)) := by
  intro s a
  rw [exprListLoop_eq]
  pc_simp
  split
  · refine PC_conseq (ih.expr _ _) ?_
    intro e s2 ⟨gm, gh⟩
    refine PC_conseq (ih.exprListLoop _ _) ?_
    intro r s3 ⟨gm3, gh3⟩
    refine ⟨by msz, fun h ha => gh3 (by msz) ?_⟩
    rw [Exprs.bad_append, ha, gh (by msz)]; rfl
  · exact ⟨Nat.le_refl _, fun _ h => h⟩

theorem wf_exprList (n : Nat) (ih : AllPC n) : ∀ s t, PC (parseExpressionList (n+1) t) s (fun r s' => Good s s' (OExprs.bad r)) := by
  intro s t
  rw [parseExpressionList_eq]
  pc_simp
  split
  · exact ⟨Nat.le_refl _, fun _ => rfl⟩
  · refine PC_conseq (ih.expr _ _) ?_
    intro e s2 ⟨gm, gh⟩
    refine PC_conseq (ih.exprListLoop _ _) ?_
    intro r s3 ⟨gm3, gh3⟩
    pc_simp
    split
    · refine ⟨by msz, fun h => ?_⟩
      simp only [OExprs.bad]
      apply gh3 (by msz)
      simp [Exprs.bad, gh (by msz)]
    · exact ⟨by msz, fun h => by msz⟩

theorem wf_block (n : Nat) (ih : AllPC n) : ∀ s, PC (parseBlockStatement (n+1)) s (fun r s' => Good s s' (Block.bad r)) := by
  intro s
  rw [parseBlockStatement_eq]
  pc_simp
  refine PC_conseq (ih.blockLoop _ _) ?_
  intro r s2 ⟨gm, gh⟩
  exact ⟨gm, fun h => by simpa [Block.bad] using gh h (by simp [Stmts.bad])⟩

theorem wf_blockLoop (n : Nat) (ih : AllPC n) : ∀ s a, PC (blockLoop (n+1) a) s (fun r s' => GoodP s s' (Stmts.bad a) (Stmts.bad r)) := by
  intro s a
  rw [blockLoop_eq]
  pc_simp
  split
  · split
    · exact PC_conseq (ih.blockLoop _ _) (fun r s' g => g)
    · refine PC_conseq (ih.stmt _) ?_
      intro st s2 ⟨gm, gh⟩
      refine PC_conseq (ih.blockLoop _ _) ?_
      intro r s3 ⟨gm3, gh3⟩
      refine ⟨by msz, fun h ha => gh3 (by msz) ?_⟩
      have hs := gh (by msz)
      cases st with
      | none => exact ha
      | some x => simp only [OStmt.bad] at hs; rw [Stmts.bad_append, ha, hs]; rfl
  · exact ⟨Nat.le_refl _, fun _ h => h⟩

theorem wf_assignCallee (pe : Option Expr) (v : Bytes) (s : PS) :
    PC (assignCallee pe v) s (fun r s' => GoodP s s' (OExpr.bad pe) (OExpr.bad r)) := by
  unfold assignCallee
  split <;> pc_simp
  all_goals first
    | exact ⟨by msz, fun h => by msz⟩
    | (refine ⟨Nat.le_refl _, fun _ hb => ?_⟩
       simp only [OExpr.bad, Expr.bad, Ident.bad, Bool.or_eq_false_iff, Option.isNone_some, Bool.false_and] at hb ⊢
       try simp_all
       try (first
         | (intro h0; simp [baseIdent] at h0)
         | (split <;> simp_all [Expr.bad, Ident.bad])))

theorem wf_runPrefix (n : Nat) (ih : AllPC n) : ∀ s f, PC (runPrefix (n+1) f) s (fun r s' => Good s s' (OExpr.bad r)) := by
  intro s f
  rw [runPrefix_eq]
  pc_simp
  split <;> pc_simp
  · -- identifier / assignment
    split
    · refine PC_conseq (ih.expr _ _) ?_
      intro a s2 ⟨gm, gh⟩
      repeat' split
      all_goals (refine ⟨by msz, fun h => ?_⟩
                 have hs := splitOn1_ne_nil 46 (tokAt s s.pos).lit
                 simp [OExpr.bad, Expr.bad, Ident.bad, gh (by msz), hs])
    · refine ⟨Nat.le_refl _, fun _ => ?_⟩
      have hs := splitOn1_ne_nil 46 (tokAt s s.pos).lit
      simp [OExpr.bad, Expr.bad, Ident.bad, hs]
  · repeat' split
    all_goals first | exact ⟨by msz, fun h => by msz⟩ | exact ⟨Nat.le_refl _, fun _ => by simp [OExpr.bad, Expr.bad]⟩
  · split <;> pc_simp
    · exact ⟨Nat.le_refl _, fun _ => by simp [OExpr.bad, Expr.bad]⟩
    · exact ⟨by msz, fun h => by msz⟩
  · repeat' split
    all_goals first | exact ⟨by msz, fun h => by msz⟩ | exact ⟨Nat.le_refl _, fun _ => by simp [OExpr.bad, Expr.bad]⟩
  · exact ⟨Nat.le_refl _, fun _ => by simp [OExpr.bad, Expr.bad]⟩
  · exact PC_conseq (ih.comment _) (fun a s' g => g)
  · exact ⟨Nat.le_refl _, fun _ => by simp [OExpr.bad, Expr.bad]⟩
  · refine PC_conseq (ih.expr _ _) ?_
    intro a s2 ⟨gm, gh⟩
    exact ⟨gm, fun h => by simpa [OExpr.bad, Expr.bad] using gh h⟩
  · exact ⟨Nat.le_refl _, fun _ => by simp [OExpr.bad, Expr.bad]⟩
  · refine PC_conseq (ih.expr _ _) ?_
    intro a s2 ⟨gm, gh⟩
    repeat' split
    all_goals first | exact ⟨by msz, fun h => by msz⟩ | exact ⟨by msz, fun h => gh (by msz)⟩
  · exact PC_conseq (ih.if_ _) (fun a s' g => g)
  · refine PC_conseq (ih.for_ _) ?_
    intro a s2 ⟨gm, gh⟩
    exact ⟨gm, gh⟩
  · -- function literal
    split
    · refine PC_conseq (ih.params _) ?_
      intro ps s2 ⟨gm, _⟩
      split
      · refine PC_conseq (ih.block _) ?_
        intro bl s3 ⟨gm3, gh3⟩
        exact ⟨by msz, fun h => by simpa [OExpr.bad, Expr.bad] using gh3 (by msz)⟩
      · exact ⟨by msz, fun h => by msz⟩
    · exact ⟨by msz, fun h => by msz⟩
  · refine PC_conseq (ih.exprList _ _) ?_
    intro a s2 ⟨gm, gh⟩
    exact ⟨gm, fun h => by simpa [OExpr.bad, Expr.bad] using gh h⟩
  · refine PC_conseq (ih.hash _ _ _) ?_
    intro a s2 ⟨gm, gh⟩
    exact ⟨gm, fun h => gh h (by simp [Pairs.bad])⟩
  · exact ⟨Nat.le_refl _, fun _ => rfl⟩

theorem ident_of_split_not_bad (t : Token) (l : List Bytes) (h : l ≠ []) : Ident.bad { tok := t, segs := l } = false := by
  simp [Ident.bad, h]

theorem wf_runInfix (n : Nat) (ih : AllPC n) : ∀ s f l, PC (runInfix (n+1) f l) s (fun r s' => GoodP s s' (OExpr.bad l) (OExpr.bad r)) := by
  intro s f l
  rw [runInfix_eq]
  pc_simp
  split <;> pc_simp
  · refine PC_conseq (ih.expr _ _) ?_
    intro a s2 ⟨gm, gh⟩
    exact ⟨gm, fun h hl => by simp only [OExpr.bad, Expr.bad, Bool.or_eq_false_iff]; exact ⟨hl, gh h⟩⟩
  · -- call
    split <;> pc_simp
    · exact ⟨by msz, fun h => by msz⟩
    · rename_i function
      refine PC_conseq (ih.exprList _ _) ?_
      intro args s2 ⟨gm, gh⟩
      -- callee / function identifiers rebuilt from the printed callee are never bad
      have hcal : ∀ (hl : Expr.bad function = false),
          OExpr.bad (if (splitOn1 46 (pExpr function)).length > 1 then
              (some (Expr.ident { tok := identTok ((splitOn1 46 (pExpr function)).dropLast.getLast?.getD []), segs := (splitOn1 46 (pExpr function)).dropLast }),
               Expr.ident { tok := identTok ((splitOn1 46 (pExpr function)).getLast?.getD []), segs := splitOn1 46 (pExpr function) })
            else (none, function)).1 = false ∧
          Expr.bad (if (splitOn1 46 (pExpr function)).length > 1 then
              (some (Expr.ident { tok := identTok ((splitOn1 46 (pExpr function)).dropLast.getLast?.getD []), segs := (splitOn1 46 (pExpr function)).dropLast }),
               Expr.ident { tok := identTok ((splitOn1 46 (pExpr function)).getLast?.getD []), segs := splitOn1 46 (pExpr function) })
            else (none, function)).2 = false := by
        intro hl
        split
        · rename_i hlen
          have h1 : (splitOn1 46 (pExpr function)).dropLast ≠ [] := by
            intro h0
            have := congrArg List.length h0
            simp at this; omega
          have h2 := splitOn1_ne_nil 46 (pExpr function)
          simp [OExpr.bad, Expr.bad, Ident.bad, h1, h2]
        · simp [OExpr.bad, hl]
      generalize (if (splitOn1 46 (pExpr function)).length > 1 then
              (some (Expr.ident { tok := identTok ((splitOn1 46 (pExpr function)).dropLast.getLast?.getD []), segs := (splitOn1 46 (pExpr function)).dropLast }),
               Expr.ident { tok := identTok ((splitOn1 46 (pExpr function)).getLast?.getD []), segs := splitOn1 46 (pExpr function) })
            else (none, function)) = cf at hcal ⊢
      -- the `.f…` tail shared by the two block cases
      have tail : ∀ (s3 : PS) (blk : Option Block), s.errs.size ≤ s3.errs.size → s2.errs.size ≤ s3.errs.size →
          (s3.errs.size = s.errs.size → OBlock.bad blk = false) →
          (if ((tokAt s3 (s3.pos + 1)).type == TT.DOT) = true then
              PC (parseExpression n Gen.LOWEST) { s3 with pos := s3.pos + 1 + 1 } fun pe s4 =>
                PC (assignCallee pe (pExpr cf.2)) s4 fun r s5 => PC (match r with
                  | none => pure none
                  | some ch => pure (some (Expr.call (tokAt s s.pos) cf.1 (some ch) cf.2 args blk))) s5
                    fun r s' => GoodP s s' (OExpr.bad (some function)) (OExpr.bad r)
            else GoodP s s3 (OExpr.bad (some function)) (OExpr.bad (some (Expr.call (tokAt s s.pos) cf.1 none cf.2 args blk)))) := by
        intro s3 blk m3 m23 hb3
        split
        · refine PC_conseq (ih.expr _ _) ?_
          intro pe s4 ⟨gm4, gh4⟩
          refine PC_conseq (wf_assignCallee _ _ _) ?_
          intro r s5 ⟨gm5, gh5⟩
          split <;> pc_simp
          · exact ⟨by msz, fun _ _ => rfl⟩
          · refine ⟨by msz, fun h hl => ?_⟩
            have := hcal (by simpa [OExpr.bad] using hl)
            have e5 := gh5 (by msz) (gh4 (by msz))
            simp only [OExpr.bad] at e5
            simp [OExpr.bad, Expr.bad, this.1, this.2, gh (by msz), hb3 (by msz), e5]
        · refine ⟨m3, fun h hl => ?_⟩
          have := hcal (by simpa [OExpr.bad] using hl)
          simp [OExpr.bad, Expr.bad, this.1, this.2, gh (by msz), hb3 (by msz)]
      split
      · refine PC_conseq (ih.block _) ?_
        intro blk s3 ⟨gm3, gh3⟩
        pc_simp
        exact tail s3 (some blk) (by msz) (by msz) (fun h => by simpa [OBlock.bad] using gh3 (by msz))
      · exact tail s2 none gm (Nat.le_refl _) (fun _ => rfl)
  · -- index
    split <;> pc_simp
    · exact ⟨by msz, fun h => by msz⟩
    · rename_i lft
      refine PC_conseq (ih.expr _ _) ?_
      intro ix s2 ⟨gm, gh⟩
      split
      · split
        · refine PC_conseq (ih.expr _ _) ?_
          intro pe s4 ⟨gm4, gh4⟩
          refine PC_conseq (wf_assignCallee _ _ _) ?_
          intro r s5 ⟨gm5, gh5⟩
          split <;> pc_simp
          · exact ⟨by msz, fun _ _ => rfl⟩
          · split
            · refine PC_conseq (ih.expr _ _) ?_
              intro v s6 ⟨gm6, gh6⟩
              refine ⟨by msz, fun h hl => ?_⟩
              have e5 := gh5 (by msz) (gh4 (by msz))
              simp only [OExpr.bad] at e5 hl
              simp [OExpr.bad, Expr.bad, hl, gh (by msz), gh6 (by msz), e5]
            · refine ⟨by msz, fun h hl => ?_⟩
              have e5 := gh5 (by msz) (gh4 (by msz))
              simp only [OExpr.bad] at e5 hl
              simp [OExpr.bad, Expr.bad, hl, gh (by msz), e5]
        · split
          · refine PC_conseq (ih.expr _ _) ?_
            intro v s6 ⟨gm6, gh6⟩
            refine ⟨by msz, fun h hl => ?_⟩
            simp only [OExpr.bad] at hl
            simp [OExpr.bad, Expr.bad, hl, gh (by msz), gh6 (by msz)]
          · refine ⟨by msz, fun h hl => ?_⟩
            simp only [OExpr.bad] at hl
            simp [OExpr.bad, Expr.bad, hl, gh (by msz)]
      · exact ⟨by msz, fun h => by msz⟩

theorem Pairs.bad_append (a : List (Option Expr × Option Expr)) (k v : Option Expr) :
    Pairs.bad (a ++ [(k, v)]) = (Pairs.bad a || OExpr.bad k || OExpr.bad v) := by
  induction a with
  | nil => simp [Pairs.bad]
  | cons x r ih => obtain ⟨k', v'⟩ := x; simp [Pairs.bad, ih, Bool.or_assoc]

theorem Pairs.bad_map (a : List (Option Expr × Option Expr)) (v : Option Expr) (ha : Pairs.bad a = false) (hv : OExpr.bad v = false) :
    Pairs.bad (a.map (fun kv => if kv.1.isNone = true then (kv.1, v) else kv)) = false := by
  induction a with
  | nil => simp [Pairs.bad]
  | cons x r ih =>
    obtain ⟨k', v'⟩ := x
    simp only [Pairs.bad, Bool.or_eq_false_iff] at ha
    simp only [List.map_cons]
    split <;> simp only [Pairs.bad, ha.1.1, ha.1.2, hv, ih ha.2, Bool.or_false]

theorem wf_hash (n : Nat) (ih : AllPC n) : ∀ s t a, PC (hashLoop (n+1) t a) s (fun r s' => GoodP s s' (Pairs.bad a) (OExpr.bad r)) := by
  intro s t a
  rw [hashLoop_eq]
  pc_simp
  split
  · refine PC_conseq (ih.expr _ _) ?_
    intro k s2 ⟨gm, gh⟩
    split
    · refine PC_conseq (ih.expr _ _) ?_
      intro v s3 ⟨gm3, gh3⟩
      have acc_ok : s3.errs.size = s.errs.size → Pairs.bad a = false →
          Pairs.bad ((if k.isNone = true then a.map (fun kv => if kv.1.isNone = true then (kv.1, v) else kv) else a) ++ [(k, v)]) = false := by
        intro h ha
        have hk := gh (by msz); have hv := gh3 (by msz)
        rw [Pairs.bad_append, hk, hv]
        split
        · rw [Pairs.bad_map a v ha hv]; rfl
        · rw [ha]; rfl
      split
      · split
        · refine PC_conseq (ih.hash _ _ _) ?_
          intro r s4 ⟨gm4, gh4⟩
          exact ⟨by msz, fun h ha => gh4 (by msz) (acc_ok (by msz) ha)⟩
        · exact ⟨by msz, fun h => by msz⟩
      · refine PC_conseq (ih.hash _ _ _) ?_
        intro r s4 ⟨gm4, gh4⟩
        exact ⟨by msz, fun h ha => gh4 (by msz) (acc_ok (by msz) ha)⟩
    · exact ⟨by msz, fun h => by msz⟩
  · repeat' split
    all_goals first
      | exact ⟨by msz, fun h => by msz⟩
      | exact ⟨Nat.le_refl _, fun _ ha => by simpa [OExpr.bad, Expr.bad] using ha⟩

theorem confirm_mono (line : Nat) (e : Option Expr) (errs : Array PErr) :
    errs.size ≤ (confirmIfCondition line e errs).2.size ∧
      ((confirmIfCondition line e errs).1 = false → errs.size < (confirmIfCondition line e errs).2.size) := by
  fun_induction confirmIfCondition line e errs
  all_goals (try simp_all)
  all_goals (try omega)
  all_goals (rename_i ih2 ih1; exact ⟨by omega, fun h => by have := ih1.2 h; omega⟩)

theorem wf_if (n : Nat) (ih : AllPC n) : ∀ s, PC (parseIfExpression (n+1)) s (fun r s' => Good s s' (OExpr.bad r)) := by
  intro s
  rw [parseIfExpression_eq]
  pc_simp
  split
  · refine PC_conseq (ih.expr _ _) ?_
    intro c s2 ⟨gm, gh⟩
    have hconf : s2.errs.size ≤ (confirmIfCondition (tokAt s2 s2.pos).line c s2.errs).2.size ∧
        ((confirmIfCondition (tokAt s2 s2.pos).line c s2.errs).1 = false →
          s2.errs.size < (confirmIfCondition (tokAt s2 s2.pos).line c s2.errs).2.size) := confirm_mono _ _ _
    split
    · exact ⟨by msz, fun h => by rename_i hnok; have := hconf.2 (by simpa using hnok); msz⟩
    · split
      · split
        · refine PC_conseq (ih.block _) ?_
          intro b s3 ⟨gm3, gh3⟩
          refine PC_conseq (ih.elseLoop _ _ _ _ _ _) ?_
          intro r s4 ⟨gm4, gh4⟩
          have := hconf.1
          refine ⟨by msz, fun h => gh4 (by msz) ?_⟩
          simp [gh (by msz), gh3 (by msz), Elifs.bad, OBlock.bad]
        · have := hconf.1; exact ⟨by msz, fun h => by msz⟩
      · have := hconf.1; exact ⟨by msz, fun h => by msz⟩
  · exact ⟨by msz, fun h => by msz⟩

theorem wf_elseLoop (n : Nat) (ih : AllPC n) : ∀ s t c b e l,
    PC (elseLoop (n+1) t c b e l) s (fun r s' => GoodP s s' (OExpr.bad c || Block.bad b || Elifs.bad e || OBlock.bad l) (OExpr.bad r)) := by
  intro s t c b e l
  rw [elseLoop_eq]
  pc_simp
  split
  · split
    · split
      · refine PC_conseq (ih.expr _ _) ?_
        intro ec s2 ⟨gm, gh⟩
        split
        · split
          · refine PC_conseq (ih.block _) ?_
            intro eb s3 ⟨gm3, gh3⟩
            refine PC_conseq (ih.elseLoop _ _ _ _ _ _) ?_
            intro r s4 ⟨gm4, gh4⟩
            refine ⟨by msz, fun h hp => gh4 (by msz) ?_⟩
            simp only [Bool.or_eq_false_iff] at hp ⊢
            refine ⟨⟨⟨hp.1.1.1, hp.1.1.2⟩, ?_⟩, hp.2⟩
            rw [Elifs.bad_append, hp.1.2, gh (by msz), gh3 (by msz)]; rfl
          · exact ⟨by msz, fun h => by msz⟩
        · exact ⟨by msz, fun h => by msz⟩
      · exact ⟨by msz, fun h => by msz⟩
    · split
      · refine PC_conseq (ih.block _) ?_
        intro eb s3 ⟨gm3, gh3⟩
        refine PC_conseq (ih.elseLoop _ _ _ _ _ _) ?_
        intro r s4 ⟨gm4, gh4⟩
        refine ⟨by msz, fun h hp => gh4 (by msz) ?_⟩
        simp only [Bool.or_eq_false_iff] at hp ⊢
        exact ⟨⟨⟨hp.1.1.1, hp.1.1.2⟩, hp.1.2⟩, by simpa [OBlock.bad] using gh3 (by msz)⟩
      · exact ⟨by msz, fun h => by msz⟩
  · refine ⟨Nat.le_refl _, fun _ hp => ?_⟩
    simp only [Bool.or_eq_false_iff] at hp
    simp [OExpr.bad, Expr.bad, hp.1.1.1, hp.1.1.2, hp.1.2, hp.2]

theorem wf_for (n : Nat) (ih : AllPC n) : ∀ s, PC (parseForExpression (n+1)) s (fun r s' => Good s s' (OExpr.bad r)) := by
  intro s
  rw [parseForExpression_eq]
  pc_simp
  split
  · refine PC_conseq (ih.forNames _ _ _) ?_
    intro nm s2 ⟨gm, _⟩
    split <;> pc_simp
    · exact ⟨by msz, fun _ => rfl⟩
    · split
      · exact ⟨by msz, fun _ => rfl⟩
      · refine PC_conseq (ih.expr _ _) ?_
        intro it s3 ⟨gm3, gh3⟩
        split <;> pc_simp
        · refine ⟨by msz, fun h => ?_⟩
          have := gh3 (by msz)
          simp only [OExpr.bad, Expr.bad, Bool.or_eq_false_iff, OBlock.bad] at this ⊢
          simp [this.1.1.1.1, this.1.1.1.2, this.1.1.2, this.1.2, this.2, OBlock.bad]
        · split
          · refine PC_conseq (ih.block _) ?_
            intro bl s4 ⟨gm4, gh4⟩
            refine ⟨by msz, fun h => ?_⟩
            simp [OExpr.bad, Expr.bad, gh4 (by msz)]
            exact gh3 (by msz)
          · exact ⟨by msz, fun h => by msz⟩
  · exact ⟨by msz, fun h => by msz⟩

theorem allPC : ∀ n, AllPC n := by
  intro n
  induction n with
  | zero =>
    constructor <;> intros <;> exact (PC_throw PFail.outOfFuel _ _).mpr trivial
  | succ n ih =>
    exact ⟨wf_stmt n ih, wf_ret n ih, wf_let n ih, wf_exprStmt n ih, wf_expr n ih, wf_infixLoop n ih, wf_runPrefix n ih,
      wf_comment n ih, wf_runInfix n ih, wf_exprList n ih, wf_exprListLoop n ih, wf_hash n ih, wf_params n ih,
      wf_paramLoop n ih, wf_block n ih, wf_blockLoop n ih, wf_if n ih, wf_elseLoop n ih, wf_for n ih, wf_forNames n ih⟩

theorem wf_programLoop (fuel : Nat) : ∀ (n : Nat) (s : PS) (acc : List Stmt),
    PC (programLoop n fuel acc) s (fun r s' => GoodP s s' (Stmts.bad acc) (Stmts.bad r)) := by
  intro n
  induction n with
  | zero => intro s acc; unfold programLoop; exact (PC_throw _ _ _).mpr trivial
  | succ n ih =>
    intro s acc
    unfold programLoop
    pc_simp
    split
    · refine PC_conseq ((allPC fuel).stmt _) ?_
      intro st s2 ⟨gm, gh⟩
      refine PC_conseq (ih _ _) ?_
      intro r s3 ⟨gm3, gh3⟩
      refine ⟨by msz, fun h ha => gh3 (by msz) ?_⟩
      have hs := gh (by msz)
      split
      · rename_i t ht hv
        simp only [OStmt.bad] at hs
        rw [Stmts.bad_append, ha, hs]; rfl
      · rename_i x _
        simp only [OStmt.bad] at hs
        split
        · rw [Stmts.bad_append, ha, hs]; rfl
        · exact ha
      · exact ha
    · exact ⟨Nat.le_refl _, fun _ h => h⟩

end P

/-- THE PARSER NEVER HANDS THE EVALUATOR A MISSING CHILD: if `parser.Parse` reports no syntax error, the program
    contains no `let` without a name, no `for` without a block and no identifier without segments — the nil
    children `evalLetStatement` / `evalForExpression` / `evalIdentifier` would dereference (the model's three
    crash sites). Every such node is built only on a path that also records an error, and errors are never
    dropped. -/
theorem parseToks_no_bad_node (toks : Array Token) (prog : Program) (errs : Array PErr)
    (h : parseToks toks = .ok (prog, errs)) (he : errs.size = 0) : Stmts.bad prog.stmts = false := by
  unfold parseToks at h
  simp only at h
  split at h
  · rename_i ss s hrun
    simp only [Except.ok.injEq, Prod.mk.injEq] at h
    obtain ⟨hp, hE⟩ := h
    have := P.wf_programLoop (parseFuel toks.size) (toks.size + 4)
      { toks := toks, eof := toks.back?.getD { type := .EOF, lit := [], line := 1 } } [] ss s hrun
    rw [← hp]
    apply this.2
    · rw [hE, he]; rfl
    · rfl
  · cases h

theorem parseBytes_no_bad_node (src : Bytes) (prog : Program) (errs : Array PErr)
    (h : parseBytes src = .ok (prog, errs)) (he : errs.size = 0) : Stmts.bad prog.stmts = false :=
  parseToks_no_bad_node _ prog errs h he

end Plush
