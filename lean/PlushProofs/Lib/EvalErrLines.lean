import PlushModel
import PlushProofs.Lib.ParserErrLines
/-!
  C15, evaluator side, for every template and every context: an error that leaves `compile` — and hence an error
  that leaves `Render`/`BuffaloRenderer`/a partial — always carries a line number.  The proof is compositional
  and needs nothing about the 27-function evaluator: whatever the statement's evaluation did, `compile` stamps
  the error before it leaves; the only other source of an error is the parser, whose errors all carry lines
  (`parse_errors_have_lines`).
-/
namespace Plush
open EM

/-- every Go error `m` can return carries a line -/
def ErrsLined {α} (m : EM α) : Prop := ∀ s e s', m s = (.err e, s') → e.line.isSome = true

theorem el_pure {α} (a : α) : ErrsLined (Pure.pure a : EM α) := by intro s e s' h; cases h
theorem el_fatal {α} (f : Fatal) : ErrsLined (EM.fatal f : EM α) := by intro s e s' h; cases h
theorem el_unsupported {α} (w : String) : ErrsLined (EM.unsupported w : EM α) := el_fatal _
theorem el_getS : ErrsLined EM.getS := by intro s e s' h; cases h
theorem el_modifyS (f : ES → ES) : ErrsLined (EM.modifyS f) := by intro s e s' h; cases h
theorem el_throw {α} (e : Err) (h : e.line.isSome = true) : ErrsLined (EM.throwErr e : EM α) := by
  intro s e' s' h'; cases h'; exact h
theorem el_attempt {α} (m : EM α) : ErrsLined (EM.attempt m) := by
  intro s e s' h
  simp only [EM.attempt] at h
  cases hm : m s with
  | mk r s1 => rw [hm] at h; cases r <;> cases h

theorem el_bind {α β} {m : EM α} {f : α → EM β} (hm : ErrsLined m) (hf : ∀ a, ErrsLined (f a)) :
    ErrsLined (m >>= f) := by
  intro s e s' h
  have h' : (match m s with | (.ok a, s1) => f a s1 | (.err e, s1) => (.err e, s1) | (.fatal x, s1) => (.fatal x, s1) : R β × ES) = (.err e, s') := h
  cases hms : m s with
  | mk r s1 =>
    rw [hms] at h'
    cases r with
    | ok a => exact hf a s1 e s' h'
    | err e1 => cases h'; exact hm s e s' hms
    | fatal x => cases h'

theorem el_renderVal (v : Val) : ErrsLined (renderVal v) := by
  unfold renderVal
  refine el_bind el_getS (fun s => ?_)
  split
  · exact el_pure _
  · exact el_unsupported _

/-- `compile`: every error it returns carries a line -/
theorem compileStmts_errors_lined : ∀ (fuel : Nat) (stmts : List Stmt) (out : Bytes), ErrsLined (compileStmts fuel stmts out) := by
  intro fuel
  induction fuel with
  | zero => intro stmts out; unfold compileStmts; exact el_fatal _
  | succ n ih =>
    intro stmts out
    cases stmts with
    | nil => unfold compileStmts; exact el_pure _
    | cons st rest =>
      unfold compileStmts
      refine el_bind (el_modifyS _) (fun _ => ?_)
      refine el_bind (el_attempt _) (fun r => ?_)
      cases r with
      | error e =>
        refine el_bind el_getS (fun s => ?_)
        exact el_throw _ rfl
      | ok v =>
        refine el_bind (el_renderVal v) (fun bs => ?_)
        exact ih rest _

theorem el_setCur (c : Nat) : ErrsLined (setCur c) := el_modifyS _
theorem el_getCur : ErrsLined getCur := el_bind el_getS (fun _ => el_pure _)

/-- what `attempt` hands on as an error was an error of `m` -/
theorem attempt_error {α} (m : EM α) (s s' : ES) (e : Err) (h : EM.attempt m s = (.ok (.error e), s')) : m s = (.err e, s') := by
  simp only [EM.attempt] at h
  cases hm : m s with
  | mk r s1 =>
    rw [hm] at h
    cases r with
    | ok a => cases h
    | err e1 => cases h; rfl
    | fatal x => cases h

/-- an `EM` whose *successful error value* (from `attempt`) is lined -/
def OkErrLined {α} (m : EM (Except Err α)) : Prop := ∀ s e s', m s = (.ok (.error e), s') → e.line.isSome = true

theorem okerr_attempt {α} {m : EM α} (h : ErrsLined m) : OkErrLined (EM.attempt m) :=
  fun s e s' hh => h s e s' (attempt_error m s s' e hh)

theorem el_bind_dep {α β} {m : EM α} {f : α → EM β} (P : α → Prop) (hm : ErrsLined m)
    (hp : ∀ s a s', m s = (.ok a, s') → P a) (hf : ∀ a, P a → ErrsLined (f a)) : ErrsLined (m >>= f) := by
  intro s e s' h
  have h' : (match m s with | (.ok a, s1) => f a s1 | (.err e, s1) => (.err e, s1) | (.fatal x, s1) => (.fatal x, s1) : R β × ES) = (.err e, s') := h
  cases hms : m s with
  | mk r s1 =>
    rw [hms] at h'
    cases r with
    | ok a => exact hf a (hp s a s1 hms) s1 e s' h'
    | err e1 => cases h'; exact hm s e s' hms
    | fatal x => cases h'

/-- `Render` of any source text in any context: every error carries a line -/
theorem renderIn_errors_lined (fuel : Nat) (src : Bytes) (ctx : Nat) : ErrsLined (renderIn fuel src ctx) := by
  cases fuel with
  | zero => unfold renderIn; exact el_fatal _
  | succ n =>
    unfold renderIn
    split
    · exact el_fatal _
    · exact el_fatal _
    · exact el_fatal _
    · rename_i prog errs hp
      split
      · rename_i hne
        apply el_throw
        have hl := parse_errors_have_lines src prog errs hp
        cases hq : errs[0]? with
        | none =>
          have : errs.size = 0 := by
            rcases Nat.eq_zero_or_pos errs.size with h0 | h0
            · exact h0
            · rw [Array.getElem?_eq_getElem h0] at hq; cases hq
          simp [Array.isEmpty, this] at hne
        | some e0 =>
          have hm : e0 ∈ errs.toList := by
            have := Array.mem_of_getElem? hq
            exact Array.mem_def.mp this
          simpa using hl e0 hm
      · refine el_bind el_getCur (fun octx => ?_)
        refine el_bind el_getS (fun s0 => ?_)
        refine el_bind (el_setCur _) (fun _ => ?_)
        refine el_bind (el_modifyS _) (fun _ => ?_)
        refine el_bind_dep (fun r => ∀ e, r = .error e → e.line.isSome = true) (el_attempt _) ?_ ?_
        · intro s a s' h e he
          subst he
          exact compileStmts_errors_lined n _ _ s e s' (attempt_error _ s s' e h)
        · intro r hr
          refine el_bind (el_setCur _) (fun _ => ?_)
          refine el_bind (el_modifyS _) (fun _ => ?_)
          cases r with
          | ok out => exact el_pure _
          | error e => exact el_throw _ (hr e rfl)

end Plush
