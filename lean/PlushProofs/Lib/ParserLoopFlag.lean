import PlushProofs.Lib.ParserWF
/-!
  C08, parser side: the "inside a loop" flag (`p.inForBlock`) is scoped. Every parse function returns with the
  flag it was called with — nested loops, function literals, blocks, failed constructs included — so whether
  `break` / `continue` is accepted at a statement depends only on the loops that enclose it.
-/
namespace Plush
namespace P

/-- `m` returns with the loop flag it was started with -/
def KeepsFor {α} (m : PM α) (s : PS) : Prop := PC m s (fun _ s' => s'.inFor = s.inFor)

structure AllFor (n : Nat) : Prop where
  stmt : ∀ s, KeepsFor (parseStatement n) s
  ret : ∀ s o, KeepsFor (parseReturnStatement n o) s
  let_ : ∀ s, KeepsFor (parseLetStatement n) s
  exprStmt : ∀ s, KeepsFor (parseExpressionStatement n) s
  expr : ∀ s p, KeepsFor (parseExpression n p) s
  infixLoop : ∀ s p l, KeepsFor (infixLoop n p l) s
  runPrefix : ∀ s f, KeepsFor (runPrefix n f) s
  comment : ∀ s, KeepsFor (commentLoop n) s
  runInfix : ∀ s f l, KeepsFor (runInfix n f l) s
  exprList : ∀ s t, KeepsFor (parseExpressionList n t) s
  exprListLoop : ∀ s a, KeepsFor (exprListLoop n a) s
  hash : ∀ s t a, KeepsFor (hashLoop n t a) s
  params : ∀ s, KeepsFor (parseFunctionParameters n) s
  paramLoop : ∀ s a, KeepsFor (paramLoop n a) s
  block : ∀ s, KeepsFor (parseBlockStatement n) s
  blockLoop : ∀ s a, KeepsFor (blockLoop n a) s
  if_ : ∀ s, KeepsFor (parseIfExpression n) s
  elseLoop : ∀ s t c b e l, KeepsFor (elseLoop n t c b e l) s
  /-- the one exception: `parseForExpression` itself switches the flag on (its caller restores it) -/
  for_ : ∀ s, PC (parseForExpression n) s (fun _ _ => True)
  forNames : ∀ s ln a, KeepsFor (forNamesLoop n ln a) s

theorem keepsFor_assignCallee (pe : Option Expr) (v : Bytes) (s : PS) : KeepsFor (assignCallee pe v) s := by
  unfold KeepsFor assignCallee
  split <;> pc_simp

macro "istep" ih:ident : tactic => `(tactic| first | (pc_simp; done) | (
  pc_simp
  first
    | split
    | (refine PC_conseq (($ih).stmt _) ?_; intro _ _ _)
    | (refine PC_conseq (($ih).ret _ _) ?_; intro _ _ _)
    | (refine PC_conseq (($ih).let_ _) ?_; intro _ _ _)
    | (refine PC_conseq (($ih).exprStmt _) ?_; intro _ _ _)
    | (refine PC_conseq (($ih).expr _ _) ?_; intro _ _ _)
    | (refine PC_conseq (($ih).infixLoop _ _ _) ?_; intro _ _ _)
    | (refine PC_conseq (($ih).runPrefix _ _) ?_; intro _ _ _)
    | (refine PC_conseq (($ih).comment _) ?_; intro _ _ _)
    | (refine PC_conseq (($ih).runInfix _ _ _) ?_; intro _ _ _)
    | (refine PC_conseq (($ih).exprList _ _) ?_; intro _ _ _)
    | (refine PC_conseq (($ih).exprListLoop _ _) ?_; intro _ _ _)
    | (refine PC_conseq (($ih).hash _ _ _) ?_; intro _ _ _)
    | (refine PC_conseq (($ih).params _) ?_; intro _ _ _)
    | (refine PC_conseq (($ih).paramLoop _ _) ?_; intro _ _ _)
    | (refine PC_conseq (($ih).block _) ?_; intro _ _ _)
    | (refine PC_conseq (($ih).blockLoop _ _) ?_; intro _ _ _)
    | (refine PC_conseq (($ih).if_ _) ?_; intro _ _ _)
    | (refine PC_conseq (($ih).elseLoop _ _ _ _ _ _) ?_; intro _ _ _)
    | (refine PC_conseq (($ih).for_ _) ?_; intro _ _ _)
    | (refine PC_conseq (($ih).forNames _ _ _) ?_; intro _ _ _)
    | (refine PC_conseq (keepsFor_assignCallee _ _ _) ?_; intro _ _ _)
    | trivial
    | (simp_all; done)))

theorem f_stmt (n : Nat) (ih : AllFor n) : ∀ s , KeepsFor (parseStatement (n+1) ) s := by
  intro s ; unfold KeepsFor; rw [parseStatement_eq]
  repeat' (istep ih)

theorem f_ret (n : Nat) (ih : AllFor n) : ∀ s o, KeepsFor (parseReturnStatement (n+1) o) s := by
  intro s o; unfold KeepsFor; rw [parseReturnStatement_eq]
  repeat' (istep ih)

theorem f_let_ (n : Nat) (ih : AllFor n) : ∀ s , KeepsFor (parseLetStatement (n+1) ) s := by
  intro s ; unfold KeepsFor; rw [parseLetStatement_eq]
  repeat' (istep ih)

theorem f_exprStmt (n : Nat) (ih : AllFor n) : ∀ s , KeepsFor (parseExpressionStatement (n+1) ) s := by
  intro s ; unfold KeepsFor; rw [parseExpressionStatement_eq]
  repeat' (istep ih)

theorem f_expr (n : Nat) (ih : AllFor n) : ∀ s p, KeepsFor (parseExpression (n+1) p) s := by
  intro s p; unfold KeepsFor; rw [parseExpression_eq]
  repeat' (istep ih)

theorem f_infixLoop (n : Nat) (ih : AllFor n) : ∀ s p l, KeepsFor (infixLoop (n+1) p l) s := by
  intro s p l; unfold KeepsFor; rw [infixLoop_eq]
  repeat' (istep ih)

theorem f_runPrefix (n : Nat) (ih : AllFor n) : ∀ s f, KeepsFor (runPrefix (n+1) f) s := by
  intro s f; unfold KeepsFor; rw [runPrefix_eq]
  repeat' (istep ih)

theorem f_comment (n : Nat) (ih : AllFor n) : ∀ s , KeepsFor (commentLoop (n+1) ) s := by
  intro s ; unfold KeepsFor; rw [commentLoop_eq]
  repeat' (istep ih)

theorem f_runInfix (n : Nat) (ih : AllFor n) : ∀ s f l, KeepsFor (runInfix (n+1) f l) s := by
  intro s f l; unfold KeepsFor; rw [runInfix_eq]
  repeat' (istep ih)

theorem f_exprList (n : Nat) (ih : AllFor n) : ∀ s t, KeepsFor (parseExpressionList (n+1) t) s := by
  intro s t; unfold KeepsFor; rw [parseExpressionList_eq]
  repeat' (istep ih)

theorem f_exprListLoop (n : Nat) (ih : AllFor n) : ∀ s a, KeepsFor (exprListLoop (n+1) a) s := by
  intro s a; unfold KeepsFor; rw [exprListLoop_eq]
  repeat' (istep ih)

theorem f_hash (n : Nat) (ih : AllFor n) : ∀ s t a, KeepsFor (hashLoop (n+1) t a) s := by
  intro s t a; unfold KeepsFor; rw [hashLoop_eq]
  repeat' (istep ih)

theorem f_params (n : Nat) (ih : AllFor n) : ∀ s , KeepsFor (parseFunctionParameters (n+1) ) s := by
  intro s ; unfold KeepsFor; rw [parseFunctionParameters_eq]
  repeat' (istep ih)

theorem f_paramLoop (n : Nat) (ih : AllFor n) : ∀ s a, KeepsFor (paramLoop (n+1) a) s := by
  intro s a; unfold KeepsFor; rw [paramLoop_eq]
  repeat' (istep ih)

theorem f_block (n : Nat) (ih : AllFor n) : ∀ s , KeepsFor (parseBlockStatement (n+1) ) s := by
  intro s ; unfold KeepsFor; rw [parseBlockStatement_eq]
  repeat' (istep ih)

theorem f_blockLoop (n : Nat) (ih : AllFor n) : ∀ s a, KeepsFor (blockLoop (n+1) a) s := by
  intro s a; unfold KeepsFor; rw [blockLoop_eq]
  repeat' (istep ih)

theorem f_if_ (n : Nat) (ih : AllFor n) : ∀ s , KeepsFor (parseIfExpression (n+1) ) s := by
  intro s ; unfold KeepsFor; rw [parseIfExpression_eq]
  repeat' (istep ih)

theorem f_elseLoop (n : Nat) (ih : AllFor n) : ∀ s t c b e l, KeepsFor (elseLoop (n+1) t c b e l) s := by
  intro s t c b e l; unfold KeepsFor; rw [elseLoop_eq]
  repeat' (istep ih)

theorem f_forNames (n : Nat) (ih : AllFor n) : ∀ s ln a, KeepsFor (forNamesLoop (n+1) ln a) s := by
  intro s ln a; unfold KeepsFor; rw [forNamesLoop_eq]
  repeat' (istep ih)

theorem f_for_ (n : Nat) (ih : AllFor n) : ∀ s, PC (parseForExpression (n+1)) s (fun _ _ => True) := by
  intro s a s' _; trivial

theorem allFor : ∀ n, AllFor n := by
  intro n
  induction n with
  | zero => constructor <;> intros <;> exact (PC_throw PFail.outOfFuel _ _).mpr trivial
  | succ n ih => exact ⟨f_stmt n ih, f_ret n ih, f_let_ n ih, f_exprStmt n ih, f_expr n ih, f_infixLoop n ih, f_runPrefix n ih, f_comment n ih, f_runInfix n ih, f_exprList n ih, f_exprListLoop n ih, f_hash n ih, f_params n ih, f_paramLoop n ih, f_block n ih, f_blockLoop n ih, f_if_ n ih, f_elseLoop n ih, f_for_ n ih, f_forNames n ih⟩

end P

/-- THE LOOP FLAG IS SCOPED. For every parse function except `parseForExpression` itself (whose caller restores
    the flag), and every state: the parser returns with the `inForBlock` flag it was called with — whatever was
    parsed in between (nested loops, function literals, blocks, constructs that failed half-way). Hence inside a
    loop body every statement is parsed with the flag set, and outside any loop with the flag clear: `break` and
    `continue` are accepted exactly inside loops, however nested and at whatever statement position. -/
theorem loop_flag_scoped (n : Nat) : P.AllFor n := P.allFor n

end Plush
