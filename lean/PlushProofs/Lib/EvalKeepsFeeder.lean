import PlushModel
/-!
  C13, evaluator-wide: evaluation never modifies the template sources it renders from (the partial feeder —
  the model's stand-in for the parsed templates a render can reach): whatever is evaluated, on success, on
  error and even on a fatal outcome, the sources afterwards are the sources before.
-/
namespace Plush
open EM

structure KeepsFeeder {α} (m : EM α) : Prop where
  same : ∀ s : ES, (m s).2.feeder = s.feeder

theorem kf_pure {α} (a : α) : KeepsFeeder (Pure.pure a : EM α) := ⟨fun _ => rfl⟩
theorem kf_throwErr {α} (e : Err) : KeepsFeeder (EM.throwErr e : EM α) := ⟨fun _ => rfl⟩
theorem kf_fail {α} (k : String) : KeepsFeeder (EM.fail k : EM α) := ⟨fun _ => rfl⟩
theorem kf_fatal {α} (f : Fatal) : KeepsFeeder (EM.fatal f : EM α) := ⟨fun _ => rfl⟩
theorem kf_unsupported {α} (w : String) : KeepsFeeder (EM.unsupported w : EM α) := ⟨fun _ => rfl⟩
theorem kf_getS : KeepsFeeder EM.getS := ⟨fun _ => rfl⟩
theorem kf_modifyS (f : ES → ES) (h : ∀ s, (f s).feeder = s.feeder) : KeepsFeeder (EM.modifyS f) := ⟨fun s => h s⟩

theorem kf_bind {α β} {m : EM α} {f : α → EM β} (hm : KeepsFeeder m) (hf : ∀ a, KeepsFeeder (f a)) : KeepsFeeder (m >>= f) := by
  refine ⟨fun s => ?_⟩
  show ((match m s with | (.ok a, s') => f a s' | (.err e, s') => (.err e, s') | (.fatal x, s') => (.fatal x, s')) : R β × ES).2.feeder = s.feeder
  have h1 := hm.same s
  cases hms : m s with
  | mk r s' =>
    rw [hms] at h1
    cases r with
    | ok a => simp only; rw [(hf a).same s']; exact h1
    | err e => exact h1
    | fatal x => exact h1

theorem kf_attempt {α} {m : EM α} (hm : KeepsFeeder m) : KeepsFeeder (EM.attempt m) := by
  refine ⟨fun s => ?_⟩
  have h1 := hm.same s
  simp only [EM.attempt]
  cases hms : m s with
  | mk r s' =>
    rw [hms] at h1
    cases r <;> exact h1

theorem kf_ctxHas (k : Bytes) : KeepsFeeder (ctxHas k) := kf_bind kf_getS (fun _ => kf_pure _)
theorem kf_ctxValue (k : Bytes) : KeepsFeeder (ctxValue k) := kf_bind kf_getS (fun _ => kf_pure _)
theorem kf_ctxSet (k : Bytes) (v : Val) : KeepsFeeder (ctxSet k v) := kf_modifyS _ (fun _ => rfl)
theorem kf_ctxSetIn (c : Nat) (k : Bytes) (v : Val) : KeepsFeeder (ctxSetIn c k v) := kf_modifyS _ (fun _ => rfl)
theorem kf_ctxNewChild (o : Nat) : KeepsFeeder (ctxNewChild o) := by
  refine ⟨fun s => ?_⟩; unfold ctxNewChild; cases s.store.newChild o; rfl
theorem kf_getCur : KeepsFeeder getCur := kf_bind kf_getS (fun _ => kf_pure _)
theorem kf_setCur (c : Nat) : KeepsFeeder (setCur c) := kf_modifyS _ (fun _ => rfl)
theorem kf_copyFrame (a c : Nat) : KeepsFeeder (copyFrame a c) := by
  apply kf_modifyS; intro s; split <;> rfl
theorem kf_allocSlice (items : Array Val) : KeepsFeeder (allocSlice items) := ⟨fun _ => rfl⟩
theorem kf_allocMap (es : List (Val × Val)) : KeepsFeeder (allocMap es) := ⟨fun _ => rfl⟩
theorem kf_heapSet (a : Nat) (o : HeapObj) : KeepsFeeder (heapSet a o) := kf_modifyS _ (fun _ => rfl)
theorem kf_traceEv (e : String) : KeepsFeeder (traceEv e) := kf_modifyS _ (fun _ => rfl)

macro "kf_leaf1" : tactic =>
  `(tactic| with_reducible first
    | exact kf_ctxHas _ | exact kf_ctxValue _ | exact kf_ctxSet _ _ | exact kf_ctxSetIn _ _ _
    | exact kf_ctxNewChild _ | exact kf_getCur | exact kf_setCur _ | exact kf_copyFrame _ _ | exact kf_allocSlice _
    | exact kf_allocMap _ | exact kf_heapSet _ _ | exact kf_traceEv _ | exact kf_getS)
macro "kf_leaf2" : tactic =>
  `(tactic| with_reducible first
    | exact kf_fail _ | exact kf_throwErr _ | exact kf_unsupported _ | exact kf_fatal _ | exact kf_pure _
    | (apply kf_modifyS; intro _; rfl)
    | assumption)

macro "keepsfeeder" : tactic =>
  `(tactic| repeat (any_goals (first
    | split
    | kf_leaf1
    | kf_leaf2
    | refine kf_attempt ?_
    | refine kf_bind ?_ (fun _ => ?_)
    | dsimp only)))

theorem kf_heapSlice (a : Nat) : KeepsFeeder (heapSlice a) := by unfold heapSlice; keepsfeeder
theorem kf_heapMap (a : Nat) : KeepsFeeder (heapMap a) := by unfold heapMap; keepsfeeder
theorem kf_renderVal (v : Val) : KeepsFeeder (renderVal v) := by unfold renderVal; keepsfeeder
theorem kf_applyOpOut (o : OpOut) (k : String) : KeepsFeeder (applyOpOut o k) := by unfold applyOpOut; keepsfeeder
theorem kf_withCtx {α} (c : Nat) (m : EM α) (h : KeepsFeeder m) : KeepsFeeder (withCtx c m) := by unfold withCtx; keepsfeeder

theorem kf_forM {α} (l : List α) (f : α → EM PUnit) (h : ∀ a, KeepsFeeder (f a)) : KeepsFeeder (l.forM f) := by
  induction l with
  | nil => exact kf_pure _
  | cons a as ih => exact kf_bind (h a) (fun _ => ih)
theorem kf_mapM_loop {α β} (f : α → EM β) (h : ∀ a, KeepsFeeder (f a)) : ∀ (l : List α) (acc : List β), KeepsFeeder (List.mapM.loop f l acc) := by
  intro l
  induction l with
  | nil => intro acc; exact kf_pure _
  | cons a as ih => intro acc; exact kf_bind (h a) (fun _ => ih _)
theorem kf_mapM {α β} (l : List α) (f : α → EM β) (h : ∀ a, KeepsFeeder (f a)) : KeepsFeeder (l.mapM f) := kf_mapM_loop f h l []

theorem kf_applyInfix (op : Bytes) (l r : Val) : KeepsFeeder (applyInfix op l r) := by
  unfold applyInfix
  repeat (any_goals (first | split | exact kf_applyOpOut _ _ | kf_leaf1 | kf_leaf2 | refine kf_bind ?_ (fun _ => ?_) | dsimp only))
theorem kf_updateIndex (l i v : Val) : KeepsFeeder (updateIndex l i v) := by
  unfold updateIndex
  repeat (any_goals (first | split | exact kf_heapSlice _ | exact kf_heapMap _ | kf_leaf1 | kf_leaf2 | refine kf_bind ?_ (fun _ => ?_) | dsimp only))
theorem kf_accessIndex (l i : Val) (h : Bool) : KeepsFeeder (accessIndex l i h) := by
  unfold accessIndex
  repeat (any_goals (first | split | exact kf_heapSlice _ | exact kf_heapMap _ | kf_leaf1 | kf_leaf2 | refine kf_bind ?_ (fun _ => ?_) | dsimp only))
theorem kf_memberOf (c : Val) (name : Bytes) : KeepsFeeder (memberOf c name) := ⟨fun _ => rfl⟩
theorem kf_mapKeyMissing (l i : Val) : KeepsFeeder (mapKeyMissing l i) := by
  unfold mapKeyMissing
  repeat (any_goals (first | split | (with_reducible exact kf_heapMap _) | kf_leaf1 | kf_leaf2 | refine kf_bind ?_ (fun _ => ?_) | dsimp only))

attribute [local irreducible] Store.newChild Store.injectHelpers Store.newRoot

structure AllKF (n : Nat) : Prop where
  evalExpr : ∀ (a : Option Expr), KeepsFeeder (evalExpr n a)
  evalExprs : ∀ (a : List (Option Expr)), KeepsFeeder (evalExprs n a)
  evalHashPairs : ∀ (a : List (Option Expr × Option Expr)) (b : List (Val × Val)), KeepsFeeder (evalHashPairs n a b)
  evalIdent : ∀ (a : Ident), KeepsFeeder (evalIdent n a)
  evalInfix : ∀ (a : Bytes) (b : Option Expr) (c : Option Expr), KeepsFeeder (evalInfix n a b c)
  evalIf : ∀ (a : Option Expr) (b : Block) (c : List (Token × Option Expr × Block)) (d : Option Block), KeepsFeeder (evalIf n a b c d)
  evalElifs : ∀ (a : List (Token × Option Expr × Block)) (b : Option Block), KeepsFeeder (evalElifs n a b)
  evalBlock : ∀ (a : Block), KeepsFeeder (evalBlock n a)
  evalStmts : ∀ (a : List Stmt) (b : List Val), KeepsFeeder (evalStmts n a b)
  evalStmt : ∀ (a : Stmt), KeepsFeeder (evalStmt n a)
  evalStmtBody : ∀ (a : Stmt), KeepsFeeder (evalStmtBody n a)
  evalFor : ∀ (a : Bytes) (b : Bytes) (c : Option Expr) (d : Option Block), KeepsFeeder (evalFor n a b c d)
  forBody : ∀ (a : Bytes) (b : Bytes) (c : Option Expr) (d : Option Block), KeepsFeeder (forBody n a b c d)
  forItems : ∀ (a : Bytes) (b : Bytes) (c : Block) (d : List (Val × Val)) (e : List Val), KeepsFeeder (forItems n a b c d e)
  forRanger : ∀ (a : Bytes) (b : Bytes) (c : Block) (d : Gen.Ranger) (e : Nat) (f : List Val), KeepsFeeder (forRanger n a b c d e f)
  evalIndex : ∀ (a : Option Expr) (b : Option Expr) (c : Option Expr) (d : Option Expr), KeepsFeeder (evalIndex n a b c d)
  evalUserFn : ∀ (a : List Ident) (b : Block) (c : List (Option Expr)), KeepsFeeder (evalUserFn n a b c)
  fnBody : ∀ (a : List Ident) (b : List Val) (c : Block), KeepsFeeder (fnBody n a b c)
  evalCall : ∀ (a : Option Expr) (b : Option Expr) (c : Expr) (d : Option (List (Option Expr))) (e : Option Block), KeepsFeeder (evalCall n a b c d e)
  bindArgs : ∀ (a : String) (b : Sig) (c : List (Option Expr)) (d : Option Block), KeepsFeeder (bindArgs n a b c d)
  bindFixed : ∀ (a : Option Block) (b : List (Option Expr × Ty)) (c : List Val), KeepsFeeder (bindFixed n a b c)
  bindVariadic : ∀ (a : Ty) (b : List (Option Expr)) (c : List Val), KeepsFeeder (bindVariadic n a b c)
  blockWith : ∀ (a : Option Block) (b : Nat), KeepsFeeder (blockWith n a b)
  callHelper : ∀ (a : String) (b : List Val), KeepsFeeder (callHelper n a b)
  partialHelper : ∀ (a : Bytes) (b : List (Val × Val)) (c : Nat), KeepsFeeder (partialHelper n a b c)
  renderIn : ∀ (a : Bytes) (b : Nat), KeepsFeeder (renderIn n a b)
  compileStmts : ∀ (a : List Stmt) (b : Bytes), KeepsFeeder (compileStmts n a b)

macro "kf_ih1" ih:ident : tactic => `(tactic| first
    | (with_reducible apply ($ih).evalExpr)
    | (with_reducible apply ($ih).evalExprs)
    | (with_reducible apply ($ih).evalHashPairs)
    | (with_reducible apply ($ih).evalIdent)
    | (with_reducible apply ($ih).evalInfix)
    | (with_reducible apply ($ih).evalIf)
    | (with_reducible apply ($ih).evalElifs)
    | (with_reducible apply ($ih).evalBlock)
    | (with_reducible apply ($ih).evalStmts)
    | (with_reducible apply ($ih).evalStmt)
    | (with_reducible apply ($ih).evalStmtBody)
    | (with_reducible apply ($ih).evalFor)
    | (with_reducible apply ($ih).forBody)
    | (with_reducible apply ($ih).forItems))
macro "kf_ih2" ih:ident : tactic => `(tactic| first
    | (with_reducible apply ($ih).forRanger)
    | (with_reducible apply ($ih).evalIndex)
    | (with_reducible apply ($ih).evalUserFn)
    | (with_reducible apply ($ih).fnBody)
    | (with_reducible apply ($ih).evalCall)
    | (with_reducible apply ($ih).bindArgs)
    | (with_reducible apply ($ih).bindFixed)
    | (with_reducible apply ($ih).bindVariadic)
    | (with_reducible apply ($ih).blockWith)
    | (with_reducible apply ($ih).callHelper)
    | (with_reducible apply ($ih).partialHelper)
    | (with_reducible apply ($ih).renderIn)
    | (with_reducible apply ($ih).compileStmts))

macro "keepsfeeder_ih" ih:ident : tactic =>
  `(tactic| repeat (any_goals (first
    | split
    | kf_leaf1
    | kf_leaf2
    | (have hfuel := Nat.succ.inj ‹_ + 1 = Nat.succ _›; subst hfuel)
    | kf_ih1 $ih
    | kf_ih2 $ih
    | exact kf_heapSlice _ | exact kf_heapMap _ | exact kf_renderVal _ | exact kf_applyOpOut _ _
    | exact kf_applyInfix _ _ _ | exact kf_updateIndex _ _ _ | exact kf_accessIndex _ _ _ | exact kf_memberOf _ _ | exact kf_mapKeyMissing _ _
    | (refine kf_forM _ _ (fun _ => ?_)) | (refine kf_mapM _ _ (fun _ => ?_))
    | (refine kf_withCtx _ _ ?_)
    | refine kf_attempt ?_
    | refine kf_bind ?_ (fun _ => ?_)
    | dsimp only)))

theorem kfs_evalExpr (n : Nat) (ih : AllKF n) : ∀ a, KeepsFeeder (evalExpr (n+1) a) := by
  intro a; unfold evalExpr; keepsfeeder_ih ih

theorem kfs_evalExprs (n : Nat) (ih : AllKF n) : ∀ a, KeepsFeeder (evalExprs (n+1) a) := by
  intro a; unfold evalExprs; keepsfeeder_ih ih

theorem kfs_evalHashPairs (n : Nat) (ih : AllKF n) : ∀ a b, KeepsFeeder (evalHashPairs (n+1) a b) := by
  intro a b; unfold evalHashPairs; keepsfeeder_ih ih

theorem kfs_evalIdent (n : Nat) (ih : AllKF n) : ∀ a, KeepsFeeder (evalIdent (n+1) a) := by
  intro a; unfold evalIdent; keepsfeeder_ih ih

theorem kfs_evalInfix (n : Nat) (ih : AllKF n) : ∀ a b c, KeepsFeeder (evalInfix (n+1) a b c) := by
  intro a b c; unfold evalInfix; keepsfeeder_ih ih

theorem kfs_evalIf (n : Nat) (ih : AllKF n) : ∀ a b c d, KeepsFeeder (evalIf (n+1) a b c d) := by
  intro a b c d; unfold evalIf; keepsfeeder_ih ih

theorem kfs_evalElifs (n : Nat) (ih : AllKF n) : ∀ a b, KeepsFeeder (evalElifs (n+1) a b) := by
  intro a b; unfold evalElifs; keepsfeeder_ih ih

theorem kfs_evalBlock (n : Nat) (ih : AllKF n) : ∀ a, KeepsFeeder (evalBlock (n+1) a) := by
  intro a; unfold evalBlock; keepsfeeder_ih ih

theorem kfs_evalStmts (n : Nat) (ih : AllKF n) : ∀ a b, KeepsFeeder (evalStmts (n+1) a b) := by
  intro a b; unfold evalStmts; keepsfeeder_ih ih

theorem kfs_evalStmt (n : Nat) (ih : AllKF n) : ∀ a, KeepsFeeder (evalStmt (n+1) a) := by
  intro a; unfold evalStmt; keepsfeeder_ih ih

theorem kfs_evalStmtBody (n : Nat) (ih : AllKF n) : ∀ a, KeepsFeeder (evalStmtBody (n+1) a) := by
  intro a; unfold evalStmtBody; keepsfeeder_ih ih

theorem kfs_evalFor (n : Nat) (ih : AllKF n) : ∀ a b c d, KeepsFeeder (evalFor (n+1) a b c d) := by
  intro a b c d; unfold evalFor; keepsfeeder_ih ih

theorem kfs_forBody (n : Nat) (ih : AllKF n) : ∀ a b c d, KeepsFeeder (forBody (n+1) a b c d) := by
  intro a b c d; unfold forBody; keepsfeeder_ih ih

theorem kfs_forItems (n : Nat) (ih : AllKF n) : ∀ a b c d e, KeepsFeeder (forItems (n+1) a b c d e) := by
  intro a b c d e; unfold forItems; keepsfeeder_ih ih

theorem kfs_forRanger (n : Nat) (ih : AllKF n) : ∀ a b c d e f, KeepsFeeder (forRanger (n+1) a b c d e f) := by
  intro a b c d e f; unfold forRanger; keepsfeeder_ih ih

theorem kfs_evalIndex (n : Nat) (ih : AllKF n) : ∀ a b c d, KeepsFeeder (evalIndex (n+1) a b c d) := by
  intro a b c d; unfold evalIndex; keepsfeeder_ih ih

theorem kfs_evalUserFn (n : Nat) (ih : AllKF n) : ∀ a b c, KeepsFeeder (evalUserFn (n+1) a b c) := by
  intro a b c; unfold evalUserFn; keepsfeeder_ih ih

theorem kfs_fnBody (n : Nat) (ih : AllKF n) : ∀ a b c, KeepsFeeder (fnBody (n+1) a b c) := by
  intro a b c; unfold fnBody; keepsfeeder_ih ih

theorem kfs_evalCall (n : Nat) (ih : AllKF n) : ∀ a b c d e, KeepsFeeder (evalCall (n+1) a b c d e) := by
  intro a b c d e; unfold evalCall; keepsfeeder_ih ih

theorem kfs_bindArgs (n : Nat) (ih : AllKF n) : ∀ a b c d, KeepsFeeder (bindArgs (n+1) a b c d) := by
  intro a b c d; unfold bindArgs; keepsfeeder_ih ih

theorem kfs_bindFixed (n : Nat) (ih : AllKF n) : ∀ a b c, KeepsFeeder (bindFixed (n+1) a b c) := by
  intro a b c; unfold bindFixed; keepsfeeder_ih ih

theorem kfs_bindVariadic (n : Nat) (ih : AllKF n) : ∀ a b c, KeepsFeeder (bindVariadic (n+1) a b c) := by
  intro a b c; unfold bindVariadic; keepsfeeder_ih ih

theorem kfs_blockWith (n : Nat) (ih : AllKF n) : ∀ a b, KeepsFeeder (blockWith (n+1) a b) := by
  intro a b; unfold blockWith; keepsfeeder_ih ih

theorem kfs_callHelper (n : Nat) (ih : AllKF n) : ∀ a b, KeepsFeeder (callHelper (n+1) a b) := by
  intro a b; unfold callHelper; keepsfeeder_ih ih

theorem kfs_partialHelper (n : Nat) (ih : AllKF n) : ∀ a b c, KeepsFeeder (partialHelper (n+1) a b c) := by
  intro a b c; unfold partialHelper; keepsfeeder_ih ih

theorem kfs_renderIn (n : Nat) (ih : AllKF n) : ∀ a b, KeepsFeeder (renderIn (n+1) a b) := by
  intro a b; unfold renderIn; keepsfeeder_ih ih

theorem kfs_compileStmts (n : Nat) (ih : AllKF n) : ∀ a b, KeepsFeeder (compileStmts (n+1) a b) := by
  intro a b; unfold compileStmts; keepsfeeder_ih ih

theorem kfz_evalExpr : ∀ a, KeepsFeeder (evalExpr 0 a) := by
  intro a; unfold evalExpr; keepsfeeder

theorem kfz_evalExprs : ∀ a, KeepsFeeder (evalExprs 0 a) := by
  intro a; unfold evalExprs; keepsfeeder

theorem kfz_evalHashPairs : ∀ a b, KeepsFeeder (evalHashPairs 0 a b) := by
  intro a b; unfold evalHashPairs; keepsfeeder

theorem kfz_evalIdent : ∀ a, KeepsFeeder (evalIdent 0 a) := by
  intro a; unfold evalIdent; keepsfeeder

theorem kfz_evalInfix : ∀ a b c, KeepsFeeder (evalInfix 0 a b c) := by
  intro a b c; unfold evalInfix; keepsfeeder

theorem kfz_evalIf : ∀ a b c d, KeepsFeeder (evalIf 0 a b c d) := by
  intro a b c d; unfold evalIf; keepsfeeder

theorem kfz_evalElifs : ∀ a b, KeepsFeeder (evalElifs 0 a b) := by
  intro a b; unfold evalElifs; keepsfeeder

theorem kfz_evalBlock : ∀ a, KeepsFeeder (evalBlock 0 a) := by
  intro a; unfold evalBlock; keepsfeeder

theorem kfz_evalStmts : ∀ a b, KeepsFeeder (evalStmts 0 a b) := by
  intro a b; unfold evalStmts; keepsfeeder

theorem kfz_evalStmt : ∀ a, KeepsFeeder (evalStmt 0 a) := by
  intro a; unfold evalStmt; keepsfeeder

theorem kfz_evalStmtBody : ∀ a, KeepsFeeder (evalStmtBody 0 a) := by
  intro a; unfold evalStmtBody; keepsfeeder

theorem kfz_evalFor : ∀ a b c d, KeepsFeeder (evalFor 0 a b c d) := by
  intro a b c d; unfold evalFor; keepsfeeder

theorem kfz_forBody : ∀ a b c d, KeepsFeeder (forBody 0 a b c d) := by
  intro a b c d; unfold forBody; keepsfeeder

theorem kfz_forItems : ∀ a b c d e, KeepsFeeder (forItems 0 a b c d e) := by
  intro a b c d e; unfold forItems; keepsfeeder

theorem kfz_forRanger : ∀ a b c d e f, KeepsFeeder (forRanger 0 a b c d e f) := by
  intro a b c d e f; unfold forRanger; keepsfeeder

theorem kfz_evalIndex : ∀ a b c d, KeepsFeeder (evalIndex 0 a b c d) := by
  intro a b c d; unfold evalIndex; keepsfeeder

theorem kfz_evalUserFn : ∀ a b c, KeepsFeeder (evalUserFn 0 a b c) := by
  intro a b c; unfold evalUserFn; keepsfeeder

theorem kfz_fnBody : ∀ a b c, KeepsFeeder (fnBody 0 a b c) := by
  intro a b c; unfold fnBody; keepsfeeder

theorem kfz_evalCall : ∀ a b c d e, KeepsFeeder (evalCall 0 a b c d e) := by
  intro a b c d e; unfold evalCall; keepsfeeder

theorem kfz_bindArgs : ∀ a b c d, KeepsFeeder (bindArgs 0 a b c d) := by
  intro a b c d; unfold bindArgs; keepsfeeder

theorem kfz_bindFixed : ∀ a b c, KeepsFeeder (bindFixed 0 a b c) := by
  intro a b c; unfold bindFixed; keepsfeeder

theorem kfz_bindVariadic : ∀ a b c, KeepsFeeder (bindVariadic 0 a b c) := by
  intro a b c; unfold bindVariadic; keepsfeeder

theorem kfz_blockWith : ∀ a b, KeepsFeeder (blockWith 0 a b) := by
  intro a b; unfold blockWith; keepsfeeder

theorem kfz_callHelper : ∀ a b, KeepsFeeder (callHelper 0 a b) := by
  intro a b; unfold callHelper; keepsfeeder

theorem kfz_partialHelper : ∀ a b c, KeepsFeeder (partialHelper 0 a b c) := by
  intro a b c; unfold partialHelper; keepsfeeder

theorem kfz_renderIn : ∀ a b, KeepsFeeder (renderIn 0 a b) := by
  intro a b; unfold renderIn; keepsfeeder

theorem kfz_compileStmts : ∀ a b, KeepsFeeder (compileStmts 0 a b) := by
  intro a b; unfold compileStmts; keepsfeeder

theorem allKF : ∀ n, AllKF n := by
  intro n
  induction n with
  | zero => exact ⟨kfz_evalExpr, kfz_evalExprs, kfz_evalHashPairs, kfz_evalIdent, kfz_evalInfix, kfz_evalIf, kfz_evalElifs, kfz_evalBlock, kfz_evalStmts, kfz_evalStmt, kfz_evalStmtBody, kfz_evalFor, kfz_forBody, kfz_forItems, kfz_forRanger, kfz_evalIndex, kfz_evalUserFn, kfz_fnBody, kfz_evalCall, kfz_bindArgs, kfz_bindFixed, kfz_bindVariadic, kfz_blockWith, kfz_callHelper, kfz_partialHelper, kfz_renderIn, kfz_compileStmts⟩
  | succ n ih => exact ⟨kfs_evalExpr n ih, kfs_evalExprs n ih, kfs_evalHashPairs n ih, kfs_evalIdent n ih, kfs_evalInfix n ih, kfs_evalIf n ih, kfs_evalElifs n ih, kfs_evalBlock n ih, kfs_evalStmts n ih, kfs_evalStmt n ih, kfs_evalStmtBody n ih, kfs_evalFor n ih, kfs_forBody n ih, kfs_forItems n ih, kfs_forRanger n ih, kfs_evalIndex n ih, kfs_evalUserFn n ih, kfs_fnBody n ih, kfs_evalCall n ih, kfs_bindArgs n ih, kfs_bindFixed n ih, kfs_bindVariadic n ih, kfs_blockWith n ih, kfs_callHelper n ih, kfs_partialHelper n ih, kfs_renderIn n ih, kfs_compileStmts n ih⟩

end Plush
