import PlushProofs.Lib.LexerSim
import PlushProofs.Lib.LexerLines
/-!
  C15, shift invariance at the scanner: two states that see the same bytes ahead produce tokens whose line
  numbers differ by exactly the difference of the two line counters — so text inserted in front of a tag
  shifts every later line number by the number of line feeds it contains, and by nothing else.
-/
namespace Plush
namespace LX

/-- line feeds in a window depend only on the bytes of the window -/
theorem countLF_window (a a' : Array UInt8) (i i' : Nat) (hv : ∀ k, a.getD (i + k) 0 = a'.getD (i' + k) 0) :
    ∀ n, countLF a (i + n) - countLF a i = countLF a' (i' + n) - countLF a' i' ∧ countLF a i ≤ countLF a (i + n)
      ∧ countLF a' i' ≤ countLF a' (i' + n) := by
  intro n
  induction n with
  | zero => simp
  | succ n ih =>
    have hvn := hv n
    have e : i + (n + 1) = (i + n) + 1 := by omega
    have e' : i' + (n + 1) = (i' + n) + 1 := by omega
    rw [e, e']
    simp only [countLF]
    rw [hvn]
    split <;> omega

theorem tokStart_sim :
    ∀ (f f' : Nat) (l l' : LX), Sim l l' → l.input.size - l.pos < f → l'.input.size - l'.pos < f' →
      tokStart f l - l.pos = tokStart f' l' - l'.pos ∧ l.pos ≤ tokStart f l ∧ l'.pos ≤ tokStart f' l' := by
  intro f
  induction f with
  | zero => intro f' l l' _ h; omega
  | succ n ih =>
    intro f' l l' hs hf hf'
    cases f' with
    | zero => omega
    | succ n' =>
      have sw := skipWhitespace_sim hs
      have sp := skipWhitespace_spec l hs.wf
      have sp' := skipWhitespace_spec l' hs.wf'
      unfold tokStart
      simp only []
      generalize hl1 : l.skipWhitespace = l1 at sw sp ⊢
      generalize hl1' : l'.skipWhitespace = l1' at sw sp' ⊢
      have s1 := sw.1
      have ad := sw.2
      unfold SameAdv at ad
      by_cases hc : (l1.ch == 35) = true
      · have hc1 : (l1'.ch == 35) = true := by rw [← s1.ch]; exact hc
        simp only [hc, hc1, if_true]
        have hne := ne_zero_of_beq hc (by decide)
        have hne' : l1'.ch ≠ 0 := by rw [← s1.ch]; exact hne
        have hlt1 := s1.wf.lt_of_ne hne
        have hlt1' := s1.wf'.lt_of_ne hne'
        have sl := skipLineComment_spec (l1.input.size + 2) l1 s1.wf (by omega) (by omega)
        have sl' := skipLineComment_spec (l1'.input.size + 2) l1' s1.wf' (by omega) (by omega)
        have sls := skipLineComment_sim (l1.input.size + 2) (l1'.input.size + 2) l1 l1' s1 (by omega) (by omega) (by omega) (by omega)
        have hgt := sl.2.2.2.2 hne
        have hgt' := sl'.2.2.2.2 hne'
        have hi : l1.input = l.input := sp.1.input
        have hi' : l1'.input = l'.input := sp'.1.input
        have e1 : (skipLineComment (l1.input.size + 2) l1).input.size = l.input.size := by rw [sl.1.input, hi]
        have e1' : (skipLineComment (l1'.input.size + 2) l1').input.size = l'.input.size := by rw [sl'.1.input, hi']
        have hz : l1.input.size = l.input.size := by rw [hi]
        have hz' : l1'.input.size = l'.input.size := by rw [hi']
        have := ih n' _ _ sls.1 (by rw [e1]; omega) (by rw [e1']; omega)
        have ad2 := sls.2
        unfold SameAdv at ad2
        omega
      · have hc' := Bool.eq_false_iff.mpr hc
        have hc1' : (l1'.ch == 35) = false := by rw [← s1.ch]; exact hc'
        simp only [hc', hc1', Bool.false_eq_true, if_false]
        omega

/-- SHIFT INVARIANCE (scanner): from states that see the same bytes ahead, the tokens' line numbers differ by
    exactly the difference of the line counters -/
theorem token_line_shift (l l' : LX) (hs : Sim l l') :
    ((nextInsideToken (l'.input.size + 2) l').1.line : Int) - (nextInsideToken (l.input.size + 2) l).1.line
      = (l'.line : Int) - l.line := by
  have h1 := inside_token_line (l.input.size + 2) l hs.wf (by omega)
  have h2 := inside_token_line (l'.input.size + 2) l' hs.wf' (by omega)
  have ts := tokStart_sim (l.input.size + 2) (l'.input.size + 2) l l' hs (by omega) (by omega)
  rw [h1, h2, hs.wf.ln, hs.wf'.ln]
  obtain ⟨d, hd⟩ : ∃ d, tokStart (l.input.size + 2) l = l.pos + d := ⟨tokStart (l.input.size + 2) l - l.pos, by omega⟩
  have hd' : tokStart (l'.input.size + 2) l' = l'.pos + d := by omega
  rw [hd, hd']
  have w1 := countLF_window l.input l'.input l.pos l'.pos hs.view d
  have w0 := countLF_window l.input l'.input l.pos l'.pos hs.view 1
  omega

end LX
end Plush
