import PlushModel
import PlushModel.Gen.EvalDispatch
/-!
  C16 — user-defined functions bind parameters to argument values and return their value.
  Theorems about `evalUserFn` / `unwrapReturn` (the model of evalUserFunction after the fix: commit),
  tied to /repo by the `render-gen` stream (user functions with if/return chains, recursion through `let`).
-/
namespace Plush
open EM

/-- too few arguments: an error, nothing is evaluated, no scope is created -/
theorem C16_arity (fuel : Nat) (ps : List Ident) (body : Block) (args : List (Option Expr)) (s : ES)
    (h : args.length < ps.length) :
    evalUserFn (fuel + 1) ps body args s = (.err { kind := "too-few-arguments" }, s) := by
  simp [evalUserFn, h, fail, throwErr]

/-- the arguments are evaluated in the CALLER's scope, before any parameter is bound: if evaluating them
    fails, that is the result, and the current scope is the caller's throughout -/
theorem C16_args_in_caller_scope (fuel : Nat) (ps : List Ident) (body : Block) (args : List (Option Expr))
    (s s1 : ES) (e : Err) (hlen : ¬ args.length < ps.length)
    (h : evalExprs fuel (args.take ps.length) s = (.err e, s1)) :
    evalUserFn (fuel + 1) ps body args s = (.err e, s1) := by
  simp [evalUserFn, hlen, bind, h]

/-- … and when they evaluate to `vals`, the body runs in a FRESH child of the caller's scope in which
    exactly the parameters are bound to those values (`withCtx` makes the caller's scope current again
    afterwards), and the call's value is the unwrapped result of the body -/
theorem C16_call (fuel : Nat) (ps : List Ident) (body : Block) (args : List (Option Expr))
    (s s1 : ES) (vals : List Val) (hlen : ¬ args.length < ps.length)
    (h : evalExprs fuel (args.take ps.length) s = (.ok vals, s1)) :
    evalUserFn (fuel + 1) ps body args s =
      (do
        let octx ← getCur
        let c ← ctxNewChild octx
        let r ← withCtx c (fnBody fuel ps vals body)
        pure (unwrapReturn r)) s1 := by
  simp [evalUserFn, hlen, bind, h]

/-- the body of the call: the parameters are bound, in order, to the argument values — in the call's own
    scope — and then the function's block is evaluated -/
theorem C16_body (fuel : Nat) (ps : List Ident) (vals : List Val) (body : Block) :
    fnBody (fuel + 1) ps vals body = (do
      (ps.zip vals).forM fun (p, v) => ctxSet p.value v
      evalBlock fuel body) := by
  simp [fnBody]

mutual
theorem flattenRet_noRet : ∀ (v : Val), ∀ x ∈ flattenRet v, ∀ vs, x ≠ .ret vs
  | .ret vs, x, hx, ws => by
    simp only [flattenRet] at hx
    exact flattenRets_noRet vs x hx ws
  | .nil, x, hx, ws | .bool _, x, hx, ws | .int _, x, hx, ws | .float _, x, hx, ws | .str _, x, hx, ws
  | .html _, x, hx, ws | .list _ _, x, hx, ws | .map _ _ _, x, hx, ws | .rv _, x, hx, ws | .gofn _, x, hx, ws
  | .userfn _ _, x, hx, ws | .iter _ _ _, x, hx, ws | .cont _, x, hx, ws | .brk _, x, hx, ws
  | .ilist _, x, hx, ws | .closure _ _, x, hx, ws | .hctx _ _, x, hx, ws | .giter _, x, hx, ws
  | .opaque _ _, x, hx, ws | .struct _ _, x, hx, ws | .ptr _ _, x, hx, ws => by
    simp [flattenRet] at hx; subst hx; simp
theorem flattenRets_noRet : ∀ (vs : List Val), ∀ x ∈ flattenRets vs, ∀ ws, x ≠ .ret ws
  | [], x, hx, ws => by simp [flattenRets] at hx
  | v :: r, x, hx, ws => by
    simp only [flattenRets, List.mem_append] at hx
    rcases hx with hx | hx
    · exact flattenRet_noRet v x hx ws
    · exact flattenRets_noRet r x hx ws
end

/-- the value of a call is a plain value — never a return wrapper — so it can be emitted, tested,
    compared and passed on like any other value -/
theorem C16_value_is_plain (v : Val) : ∀ vs, unwrapReturn v ≠ .ret vs := by
  intro vs
  unfold unwrapReturn
  split
  · rename_i ws
    split
    · rename_i x hx
      have : x ∈ flattenRet (.ret ws) := by rw [hx]; simp
      exact flattenRet_noRet _ x this vs
    · simp
  · rename_i h; exact fun e => h vs e

/-- `return x` reached directly in the body: the call's value is x itself -/
theorem C16_return_value (x : Val) (hx : ∀ vs, x ≠ .ret vs) : unwrapReturn (.ret [.ret [x]]) = x := by
  have hf : flattenRet x = [x] := by
    cases x <;> first | rfl | exact absurd rfl (hx _)
  simp [unwrapReturn, flattenRet, flattenRets, hf]

/-- … also through nested blocks (`if` inside the body wraps once more per level) -/
theorem C16_return_value_nested (x : Val) (hx : ∀ vs, x ≠ .ret vs) :
    unwrapReturn (.ret [.ret [.ret [.ret [x]]]]) = x := by
  have hf : flattenRet x = [x] := by
    cases x <;> first | rfl | exact absurd rfl (hx _)
  simp [unwrapReturn, flattenRet, flattenRets, hf]

/-- a statement after the `return` that is reached is not evaluated: the block ends there -/
theorem C16_return_skips_rest (fuel : Nat) (st : Stmt) (rest : List Stmt) (acc vs : List Val) (s s1 : ES)
    (h : evalStmt fuel st s = (.ok (.ret vs), s1)) :
    evalStmts (fuel + 1) (st :: rest) acc s = (.ok (.ret (acc ++ [.ret vs])), s1) := by
  simp [evalStmts, bind, h, pure]

/-- THE FRESH SCOPE OF A FUNCTION CALL (AND OF A LOOP, AND OF AN INDEX TAIL) IS OPENED UNCONDITIONALLY: in /repo the
    statement `c.ctx = ….New()` sits in the function body itself, not under an `if` (block depth 0; re-read on every
    run) — and every scope switch restores by `defer` (`C09_every_scope_switch_is_deferred`). The model opens the
    child scope unconditionally too (`evalUserFn`, `C16_body`). A scope opened only for some arities (seeded change
    C16-i: not for zero parameters) changes the depth. -/
theorem C16_scope_opened_unconditionally :
    Gen.scopeOpenDepths = [("evalUserFunction", 0), ("evalForExpression", 0), ("evalIndexCallee", 0)] := rfl

end Plush
