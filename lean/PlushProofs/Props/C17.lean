import PlushModel
import PlushProofs.Props.C01
import PlushProofs.Props.C09
/-!
  C17 — rendering via partial / layout / contentFor / block helpers equals rendering inline.
  Models: `partialHelper`, `blockWith`, the `contentFor` / `contentOf` arms of `callHelper`, `renderIn`
  (PlushModel/Eval.lean), tied to /repo by the `render-gen` stream (partials with data and layouts,
  contentFor / contentOf with data and default blocks, block helpers) and the C17 oracle.
-/
namespace Plush
open EM

/-- a block helper receives exactly what its block renders to: the block is evaluated ONCE, in the given
    context, and its value goes through the output sink -/
theorem C17_block (fuel : Nat) (bl : Block) (ctx : Nat) :
    blockWith (fuel + 1) (some bl) ctx = (do let v ← withCtx ctx (evalBlock fuel bl); renderVal v) := by
  simp [blockWith]

/-- no block: an error, not an empty string -/
theorem C17_no_block (fuel : Nat) (ctx : Nat) (s : ES) :
    blockWith (fuel + 1) none ctx s = (.err { kind := "no-block-defined" }, s) := by
  simp [blockWith, fail, throwErr]

/-- contentFor emits nothing where it is defined: its value is nil, which the sink writes as nothing; it
    only stores the block (with the defining context) under "contentFor:<name>" -/
theorem C17_contentFor_silent (fuel : Nat) (nm : Bytes) (c : Nat) (blk : Option Block) (s : ES) :
    callHelper (fuel + 1) "contentFor" [.str nm, .hctx c blk] s =
      (.ok .nil, { s with store := s.store.set c (b "contentFor:" ++ nm) (.closure blk c),
                          trace := s.trace.push "contentFor" }) := by
  simp [callHelper, bind, traceEv, modifyS, ctxSetIn, pure]

theorem C17_nil_writes_nothing (h : HeapView) (f : Nat) : writeVal h (f + 1) .nil = some [] := rfl

/-- what partial / contentOf / a block helper return is typed HTML, so the output tag inserts it
    unescaped, exactly once (C01_write_html): already-rendered text is not escaped again -/
theorem C17_inserted_once (h : HeapView) (f : Nat) (body : Bytes) :
    writeVal h (f + 1) (.html body) = some [.trusted body] ∧ flattenChunks [.trusted body] = body := by
  constructor
  · rfl
  · simp [flattenChunks, Chunk.flatten]

/-- a missing contentOf name without a default block is an error (wrapped by the call site) -/
theorem C17_contentOf_missing (fuel : Nat) (nm : Bytes) (da c : Nat) (s : ES) (es : List (Val × Val))
    (hd : s.heap[da]? = some (.map es))
    (hmiss : ∀ blk cc, s.store.value c (b "contentFor:" ++ nm) ≠ .closure blk cc) :
    callHelper (fuel + 1) "contentOf" [.str nm, .map .string .any da, .hctx c none] s
      = (.err { kind := "helper-failed" }, { s with trace := s.trace.push "contentOf" }) := by
  simp only [callHelper, bind, traceEv, modifyS, heapMap, getS, hd, pure]
  generalize s.store.value c (b "contentFor:" ++ nm) = v at *
  cases v <;> first | exact absurd rfl (hmiss _ _) | simp [throwErr]

end Plush
