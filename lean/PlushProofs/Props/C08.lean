import PlushModel
import PlushProofs.Lib.ParserLoopFlag
/-!
  C08 — for loops visit every element once, in order; break/continue mean what they say.
  Theorems about `forItems` / `forRanger` / `evalStmts` (models of evalForExpression's three loops and of
  evalBlockStatement), tied to /repo by the `render-gen` stream; the parser's loop-state tracking
  (break/continue accepted anywhere inside a loop body) is in PlushModel/Parser.lean, tied by `parse-tok`.
-/
namespace Plush
open EM

/-- one iteration: the loop variables are bound to the element, the body is evaluated once, … -/
def iterStart (key val : Bytes) (k v : Val) : EM Unit := do ctxSet key k; ctxSet val v

/-- … a normal result is appended and the loop goes on with the NEXT element (index order: the list is
    walked front to back) -/
theorem C08_step_normal (fuel : Nat) (key val : Bytes) (block : Block) (k v : Val) (rest : List (Val × Val))
    (ret : List Val) (s s1 : ES) (res : Val)
    (hb : (do iterStart key val k v; evalBlock fuel block) s = (.ok res, s1))
    (hc : ∀ vs, res ≠ .cont vs) (hk : ∀ vs, res ≠ .brk vs) :
    forItems (fuel + 1) key val block ((k, v) :: rest) ret s = forItems fuel key val block rest (ret ++ [res]) s1 := by
  simp only [iterStart, bind] at hb
  simp only [forItems, bind]
  cases h1 : ctxSet key k s with
  | mk r1 sa =>
    cases r1 with
    | ok u =>
      simp only [h1] at hb ⊢
      cases h2 : ctxSet val v sa with
      | mk r2 sb =>
        cases r2 with
        | ok u2 =>
          simp only [h2] at hb ⊢
          simp only [hb]
        | err e => simp [h2] at hb
        | fatal f => simp [h2] at hb
    | err e => simp [h1] at hb
    | fatal f => simp [h1] at hb

/-- `continue` ends only the current iteration and keeps what it had produced -/
theorem C08_step_continue (fuel : Nat) (key val : Bytes) (block : Block) (k v : Val) (rest : List (Val × Val))
    (ret vs : List Val) (s s1 : ES)
    (hb : (do iterStart key val k v; evalBlock fuel block) s = (.ok (.cont vs), s1)) :
    forItems (fuel + 1) key val block ((k, v) :: rest) ret s =
      forItems fuel key val block rest (ret ++ [.ilist vs]) s1 := by
  simp only [iterStart, bind] at hb
  simp only [forItems, bind]
  cases h1 : ctxSet key k s with
  | mk r1 sa =>
    cases r1 with
    | ok u =>
      simp only [h1] at hb ⊢
      cases h2 : ctxSet val v sa with
      | mk r2 sb =>
        cases r2 with
        | ok u2 => simp only [h2] at hb ⊢; simp only [hb]
        | err e => simp [h2] at hb
        | fatal f => simp [h2] at hb
    | err e => simp [h1] at hb
    | fatal f => simp [h1] at hb

/-- `break` ends the loop — the remaining elements are not visited — and keeps what the iteration had produced -/
theorem C08_step_break (fuel : Nat) (key val : Bytes) (block : Block) (k v : Val) (rest : List (Val × Val))
    (ret vs : List Val) (s s1 : ES)
    (hb : (do iterStart key val k v; evalBlock fuel block) s = (.ok (.brk vs), s1)) :
    forItems (fuel + 1) key val block ((k, v) :: rest) ret s = (.ok (.ilist (ret ++ [.ilist vs])), s1) := by
  simp only [iterStart, bind] at hb
  simp only [forItems, bind]
  cases h1 : ctxSet key k s with
  | mk r1 sa =>
    cases r1 with
    | ok u =>
      simp only [h1] at hb ⊢
      cases h2 : ctxSet val v sa with
      | mk r2 sb =>
        cases r2 with
        | ok u2 => simp only [h2] at hb ⊢; simp only [hb, pure]
        | err e => simp [h2] at hb
        | fatal f => simp [h2] at hb
    | err e => simp [h1] at hb
    | fatal f => simp [h1] at hb

/-- no elements (or none left): the accumulated per-iteration results, in order -/
theorem C08_done (fuel : Nat) (key val : Bytes) (block : Block) (ret : List Val) (s : ES) :
    forItems (fuel + 1) key val block [] ret s = (.ok (.ilist ret), s) := by
  simp [forItems, pure]

/-- inside a block, `continue` / `break` stop the block at once and carry what the block had produced -/
theorem C08_block_continue (fuel : Nat) (st : Stmt) (rest : List Stmt) (acc vs : List Val) (s s1 : ES)
    (h : evalStmt fuel st s = (.ok (.cont vs), s1)) :
    evalStmts (fuel + 1) (st :: rest) acc s = (.ok (.cont (acc ++ vs)), s1) := by
  simp [evalStmts, bind, h, pure]

theorem C08_block_break (fuel : Nat) (st : Stmt) (rest : List Stmt) (acc vs : List Val) (s s1 : ES)
    (h : evalStmt fuel st s = (.ok (.brk vs), s1)) :
    evalStmts (fuel + 1) (st :: rest) acc s = (.ok (.brk (acc ++ vs)), s1) := by
  simp [evalStmts, bind, h, pure]

/-- the counter iterator: the running count starts at 0 and goes up by one per element -/
theorem C08_ranger_step (fuel : Nat) (key val : Bytes) (block : Block) (rg rg' : Gen.Ranger) (x : Int) (i : Nat)
    (ret : List Val) (s : ES) (hn : Gen.Helpers.next rg = (rg', some x)) :
    forRanger (fuel + 1) key val block rg i ret s =
      (do
        ctxSet key (.int i); ctxSet val (.int x)
        let res ← evalBlock fuel block
        match res with
        | .cont vs => forRanger fuel key val block rg' (i + 1) (ret ++ [Val.ilist vs])
        | .brk vs => pure (Val.ilist (ret ++ [Val.ilist vs]))
        | other => forRanger fuel key val block rg' (i + 1) (ret ++ [other])) s := by
  simp [forRanger, hn]
  rfl

theorem C08_ranger_done (fuel : Nat) (key val : Bytes) (block : Block) (rg rg' : Gen.Ranger) (i : Nat)
    (ret : List Val) (s : ES) (hn : Gen.Helpers.next rg = (rg', none)) :
    forRanger (fuel + 1) key val block rg i ret s = (.ok (.ilist ret), s) := by
  simp [forRanger, hn, pure]

/-- the parser keeps the enclosing loop state across a nested `for` and across a `fn` literal, so
    `break` / `continue` after an inner loop are still inside the outer one -/
theorem C08_parser_restores_loop_state (fuel : Nat) (s : PS) (r : Option Expr) (s' : PS)
    (h : (P.runPrefix (fuel + 1) .parseForExpression).run s = .ok (r, s')) : s'.inFor = s.inFor := by
  simp only [P.runPrefix, bind, StateT.bind, StateT.run, P.cur, get, getThe, MonadStateOf.get, StateT.get,
    pure, StateT.pure, Except.pure, Except.bind, modify, modifyGet, MonadStateOf.modifyGet, StateT.modifyGet] at h
  split at h
  · cases h
  · rename_i x hx
    cases h
    rfl

/-! ### The loop flag is scoped, for every input (proof in `PlushProofs/Lib/ParserLoopFlag.lean`) -/

/-- `break` / `continue` ARE ACCEPTED ANYWHERE INSIDE A LOOP BODY, HOWEVER NESTED — parser side. Whatever a statement
    contains (nested loops, function literals, blocks, constructs that fail half-way), the parser comes back from
    it with the `inForBlock` flag unchanged; so every statement of a loop body is parsed with the flag set, at
    any statement position. -/
theorem C08_statement_keeps_loop_flag (fuel : Nat) (s s' : PS) (r : Option Stmt)
    (h : P.parseStatement fuel s = .ok (r, s')) : s'.inFor = s.inFor :=
  (P.allFor fuel).stmt s r s' h

theorem C08_block_keeps_loop_flag (fuel : Nat) (acc : List Stmt) (s s' : PS) (r : List Stmt)
    (h : P.blockLoop fuel acc s = .ok (r, s')) : s'.inFor = s.inFor :=
  (P.allFor fuel).blockLoop s acc r s' h

/-- … and an expression (where `for` and `fn` literals occur) leaves it unchanged too -/
theorem C08_expression_keeps_loop_flag (fuel prec : Nat) (s s' : PS) (r : Option Expr)
    (h : P.parseExpression fuel prec s = .ok (r, s')) : s'.inFor = s.inFor :=
  (P.allFor fuel).expr s prec r s' h

end Plush
