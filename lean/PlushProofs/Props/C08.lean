import PlushModel
import PlushProofs.Lib.ParserLoopFlag
/-!
  C08 — for loops visit every element once, in order; break/continue mean what they say.
  Theorems about `forItems` / `forRanger` / `evalStmts` (models of evalForExpression's three loops and of
  evalBlockStatement), tied to /repo by the `render-gen` stream; the parser's loop-state tracking
  (break/continue accepted anywhere inside a loop body) is in PlushModel/Parser.lean, tied by `parse-tok`.
-/
namespace Plush
open EM

/-- one iteration: the loop variables are bound to the element, the body is evaluated once, … -/
def iterStart (key val : Bytes) (k v : Val) : EM Unit := do ctxSet key k; ctxSet val v

/-- … a normal result is appended and the loop goes on with the NEXT element (index order: the list is
    walked front to back) -/
theorem C08_step_normal (fuel : Nat) (key val : Bytes) (block : Block) (k v : Val) (rest : List (Val × Val))
    (ret : List Val) (s s1 : ES) (res : Val)
    (hb : (do iterStart key val k v; evalBlock fuel block) s = (.ok res, s1))
    (hc : ∀ vs, res ≠ .cont vs) (hk : ∀ vs, res ≠ .brk vs) :
    forItems (fuel + 1) key val block ((k, v) :: rest) ret s = forItems fuel key val block rest (ret ++ [res]) s1 := by
  simp only [iterStart, bind] at hb
  simp only [forItems, bind]
  cases h1 : ctxSet key k s with
  | mk r1 sa =>
    cases r1 with
    | ok u =>
      simp only [h1] at hb ⊢
      cases h2 : ctxSet val v sa with
      | mk r2 sb =>
        cases r2 with
        | ok u2 =>
          simp only [h2] at hb ⊢
          simp only [hb]
        | err e => simp [h2] at hb
        | fatal f => simp [h2] at hb
    | err e => simp [h1] at hb
    | fatal f => simp [h1] at hb

/-- `continue` ends only the current iteration and keeps what it had produced -/
theorem C08_step_continue (fuel : Nat) (key val : Bytes) (block : Block) (k v : Val) (rest : List (Val × Val))
    (ret vs : List Val) (s s1 : ES)
    (hb : (do iterStart key val k v; evalBlock fuel block) s = (.ok (.cont vs), s1)) :
    forItems (fuel + 1) key val block ((k, v) :: rest) ret s =
      forItems fuel key val block rest (ret ++ [.ilist vs]) s1 := by
  simp only [iterStart, bind] at hb
  simp only [forItems, bind]
  cases h1 : ctxSet key k s with
  | mk r1 sa =>
    cases r1 with
    | ok u =>
      simp only [h1] at hb ⊢
      cases h2 : ctxSet val v sa with
      | mk r2 sb =>
        cases r2 with
        | ok u2 => simp only [h2] at hb ⊢; simp only [hb]
        | err e => simp [h2] at hb
        | fatal f => simp [h2] at hb
    | err e => simp [h1] at hb
    | fatal f => simp [h1] at hb

/-- `break` ends the loop — the remaining elements are not visited — and keeps what the iteration had produced -/
theorem C08_step_break (fuel : Nat) (key val : Bytes) (block : Block) (k v : Val) (rest : List (Val × Val))
    (ret vs : List Val) (s s1 : ES)
    (hb : (do iterStart key val k v; evalBlock fuel block) s = (.ok (.brk vs), s1)) :
    forItems (fuel + 1) key val block ((k, v) :: rest) ret s = (.ok (.ilist (ret ++ [.ilist vs])), s1) := by
  simp only [iterStart, bind] at hb
  simp only [forItems, bind]
  cases h1 : ctxSet key k s with
  | mk r1 sa =>
    cases r1 with
    | ok u =>
      simp only [h1] at hb ⊢
      cases h2 : ctxSet val v sa with
      | mk r2 sb =>
        cases r2 with
        | ok u2 => simp only [h2] at hb ⊢; simp only [hb, pure]
        | err e => simp [h2] at hb
        | fatal f => simp [h2] at hb
    | err e => simp [h1] at hb
    | fatal f => simp [h1] at hb

/-- no elements (or none left): the accumulated per-iteration results, in order -/
theorem C08_done (fuel : Nat) (key val : Bytes) (block : Block) (ret : List Val) (s : ES) :
    forItems (fuel + 1) key val block [] ret s = (.ok (.ilist ret), s) := by
  simp [forItems, pure]

/-- inside a block, `continue` / `break` stop the block at once and carry what the block had produced -/
theorem C08_block_continue (fuel : Nat) (st : Stmt) (rest : List Stmt) (acc vs : List Val) (s s1 : ES)
    (h : evalStmt fuel st s = (.ok (.cont vs), s1)) :
    evalStmts (fuel + 1) (st :: rest) acc s = (.ok (.cont (acc ++ vs)), s1) := by
  simp [evalStmts, bind, h, pure]

theorem C08_block_break (fuel : Nat) (st : Stmt) (rest : List Stmt) (acc vs : List Val) (s s1 : ES)
    (h : evalStmt fuel st s = (.ok (.brk vs), s1)) :
    evalStmts (fuel + 1) (st :: rest) acc s = (.ok (.brk (acc ++ vs)), s1) := by
  simp [evalStmts, bind, h, pure]

/-- the counter iterator: the running count starts at 0 and goes up by one per element -/
theorem C08_ranger_step (fuel : Nat) (key val : Bytes) (block : Block) (rg rg' : Gen.Ranger) (x : Int) (i : Nat)
    (ret : List Val) (s : ES) (hn : Gen.Helpers.next rg = (rg', some x)) :
    forRanger (fuel + 1) key val block rg i ret s =
      (do
        ctxSet key (.int i); ctxSet val (.int x)
        let res ← evalBlock fuel block
        match res with
        | .cont vs => forRanger fuel key val block rg' (i + 1) (ret ++ [Val.ilist vs])
        | .brk vs => pure (Val.ilist (ret ++ [Val.ilist vs]))
        | other => forRanger fuel key val block rg' (i + 1) (ret ++ [other])) s := by
  simp [forRanger, hn]
  rfl

theorem C08_ranger_done (fuel : Nat) (key val : Bytes) (block : Block) (rg rg' : Gen.Ranger) (i : Nat)
    (ret : List Val) (s : ES) (hn : Gen.Helpers.next rg = (rg', none)) :
    forRanger (fuel + 1) key val block rg i ret s = (.ok (.ilist ret), s) := by
  simp [forRanger, hn, pure]

/-- the parser keeps the enclosing loop state across a nested `for` and across a `fn` literal, so
    `break` / `continue` after an inner loop are still inside the outer one -/
theorem C08_parser_restores_loop_state (fuel : Nat) (s : PS) (r : Option Expr) (s' : PS)
    (h : (P.runPrefix (fuel + 1) .parseForExpression).run s = .ok (r, s')) : s'.inFor = s.inFor := by
  simp only [P.runPrefix, bind, StateT.bind, StateT.run, P.cur, get, getThe, MonadStateOf.get, StateT.get,
    pure, StateT.pure, Except.pure, Except.bind, modify, modifyGet, MonadStateOf.modifyGet, StateT.modifyGet] at h
  split at h
  · cases h
  · rename_i x hx
    cases h
    rfl

/-! ### The loop flag is scoped, for every input (proof in `PlushProofs/Lib/ParserLoopFlag.lean`) -/

/-- `break` / `continue` ARE ACCEPTED ANYWHERE INSIDE A LOOP BODY, HOWEVER NESTED — parser side. Whatever a statement
    contains (nested loops, function literals, blocks, constructs that fail half-way), the parser comes back from
    it with the `inForBlock` flag unchanged; so every statement of a loop body is parsed with the flag set, at
    any statement position. -/
theorem C08_statement_keeps_loop_flag (fuel : Nat) (s s' : PS) (r : Option Stmt)
    (h : P.parseStatement fuel s = .ok (r, s')) : s'.inFor = s.inFor :=
  (P.allFor fuel).stmt s r s' h

theorem C08_block_keeps_loop_flag (fuel : Nat) (acc : List Stmt) (s s' : PS) (r : List Stmt)
    (h : P.blockLoop fuel acc s = .ok (r, s')) : s'.inFor = s.inFor :=
  (P.allFor fuel).blockLoop s acc r s' h

/-- … and an expression (where `for` and `fn` literals occur) leaves it unchanged too -/
theorem C08_expression_keeps_loop_flag (fuel prec : Nat) (s s' : PS) (r : Option Expr)
    (h : P.parseExpression fuel prec s = .ok (r, s')) : s'.inFor = s.inFor :=
  (P.allFor fuel).expr s prec r s' h

/-! ### The whole loop, for any number of elements -/

/-- a run of a loop: element by element, front to back; each body evaluation starts in the state the previous one
    left; a normal result is appended, `continue` appends what the iteration had produced and goes on, `break`
    appends what it had produced and ENDS the run (`visited` counts the elements whose body was evaluated) -/
inductive LoopRun (key val : Bytes) (block : Block) :
    Nat → List (Val × Val) → List Val → ES → List Val → ES → Nat → Prop
  | done (f : Nat) (ret : List Val) (s : ES) : LoopRun key val block (f + 1) [] ret s ret s 0
  | step (f : Nat) (k v : Val) (rest : List (Val × Val)) (ret out : List Val) (s s1 s2 : ES) (res : Val) (n : Nat)
      (hb : (do iterStart key val k v; evalBlock f block) s = (.ok res, s1))
      (hc : ∀ vs, res ≠ .cont vs) (hk : ∀ vs, res ≠ .brk vs)
      (hr : LoopRun key val block f rest (ret ++ [res]) s1 out s2 n) :
      LoopRun key val block (f + 1) ((k, v) :: rest) ret s out s2 (n + 1)
  | cont (f : Nat) (k v : Val) (rest : List (Val × Val)) (ret out vs : List Val) (s s1 s2 : ES) (n : Nat)
      (hb : (do iterStart key val k v; evalBlock f block) s = (.ok (.cont vs), s1))
      (hr : LoopRun key val block f rest (ret ++ [.ilist vs]) s1 out s2 n) :
      LoopRun key val block (f + 1) ((k, v) :: rest) ret s out s2 (n + 1)
  | brk (f : Nat) (k v : Val) (rest : List (Val × Val)) (ret vs : List Val) (s s1 : ES)
      (hb : (do iterStart key val k v; evalBlock f block) s = (.ok (.brk vs), s1)) :
      LoopRun key val block (f + 1) ((k, v) :: rest) ret s (ret ++ [.ilist vs]) s1 1

/-- THE WHOLE LOOP, for any number of elements: if the iterations go as a `LoopRun` describes, `forItems` returns
    exactly the accumulated per-iteration results, in order — one per element whose body was evaluated, no element
    visited twice, none skipped before a `break`, none visited after it -/
theorem C08_loop_is_its_run {key val : Bytes} {block : Block} {f : Nat} {items : List (Val × Val)}
    {ret out : List Val} {s s2 : ES} {n : Nat} (h : LoopRun key val block f items ret s out s2 n) :
    forItems f key val block items ret s = (.ok (.ilist out), s2) ∧ n ≤ items.length ∧
      ∃ results, out = ret ++ results ∧ results.length = n := by
  induction h with
  | done f ret s => exact ⟨C08_done f key val block ret s, by simp, [], by simp⟩
  | step f k v rest ret out s s1 s2 res n hb hc hk _ ih =>
    obtain ⟨h1, h2, rs, h3, h4⟩ := ih
    refine ⟨?_, by simp; omega, res :: rs, ?_, by simp [h4]⟩
    · rw [C08_step_normal f key val block k v rest ret s s1 res hb hc hk]; exact h1
    · rw [h3]; simp
  | cont f k v rest ret out vs s s1 s2 n hb _ ih =>
    obtain ⟨h1, h2, rs, h3, h4⟩ := ih
    refine ⟨?_, by simp; omega, .ilist vs :: rs, ?_, by simp [h4]⟩
    · rw [C08_step_continue f key val block k v rest ret vs s s1 hb]; exact h1
    · rw [h3]; simp
  | brk f k v rest ret vs s s1 hb =>
    exact ⟨C08_step_break f key val block k v rest ret vs s s1 hb, by simp, [.ilist vs], rfl, rfl⟩

/-- non-vacuity: a two-element loop with an empty body is such a run (two iterations, two results) -/
example (tk : Token) (s : ES) :
    let s1 : ES := { s with store := (s.store.set s.cur [107] (.int 0)).set s.cur [118] (.int 7) }
    let s2 : ES := { s1 with store := (s1.store.set s1.cur [107] (.int 1)).set s1.cur [118] (.int 8) }
    LoopRun [107] [118] (Block.mk tk []) 4 [(.int 0, .int 7), (.int 1, .int 8)] [] s [.ilist [], .ilist []] s2 2 := by
  intro s1 s2
  refine .step 3 (.int 0) (.int 7) _ [] _ s s1 s2 (.ilist []) 1 ?_ (by intro vs h; cases h) (by intro vs h; cases h)
    (.step 2 (.int 1) (.int 8) _ _ _ s1 s2 s2 (.ilist []) 0 ?_ (by intro vs h; cases h) (by intro vs h; cases h) (.done 1 _ _))
  · simp [iterStart, bind, ctxSet, modifyS, evalBlock, evalStmts, pure, s1]
  · simp [iterStart, bind, ctxSet, modifyS, evalBlock, evalStmts, pure, s1, s2]


end Plush
