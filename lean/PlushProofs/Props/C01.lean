import PlushModel
import PlushProofs.Props.C20
import PlushProofs.Lib.OutTagRender
import PlushProofs.Lib.IdentTag
/-!
  C01 — string data is always HTML-escaped on output; only trusted HTML is verbatim.
  `Gen.writeCases` is TRANSLATED from the type switch of `compiler.write`; `writeVal` is its model on the
  value universe (tied by the `render-gen` stream).
-/
namespace Plush
open Gen

def armOf (ty : String) : Option (Nat × String) :=
  ((List.zipIdx Gen.writeCases).find? fun (row, _) => row.1.contains ty).map fun (row, i) => (i, row.2)

/-- the sink's arms: string and bool are escaped and come BEFORE the fmt.Stringer arm; template.HTML is
    written verbatim, HTMLer through HTML(); []string, []interface{} and return wrappers recurse into the
    sink (so their string elements are escaped); nothing else writes raw bytes -/
theorem C01_write_table :
    (armOf "string").map (·.2) = some "escape" ∧ (armOf "bool").map (·.2) = some "escape" ∧
    (armOf "template.HTML").map (·.2) = some "verbatim" ∧ (armOf "HTMLer").map (·.2) = some "htmler" ∧
    (armOf "[]string").map (·.2) = some "recurse" ∧ (armOf "[]interface{}").map (·.2) = some "recurse" ∧
    (armOf "returnObject").map (·.2) = some "recurse" ∧
    (∃ i j, armOf "string" = some (i, "escape") ∧ armOf "fmt.Stringer" = some (j, "stringer") ∧ i < j) ∧
    (List.map (·.2) Gen.writeCases).all (fun c => c ∈ ["time", "deref", "unwrap", "escape", "verbatim", "htmler", "sprint", "stringer", "recurse"]) = true := by
  refine ⟨by decide, by decide, by decide, by decide, by decide, by decide, by decide, ⟨3, 7, by decide, by decide, by decide⟩, by decide⟩

theorem C01_write_str (h : HeapView) (f : Nat) (s : Bytes) : writeVal h (f + 1) (.str s) = some [.esc s] := rfl
theorem C01_write_bool (h : HeapView) (f : Nat) (v : Bool) :
    writeVal h (f + 1) (.bool v) = some [.esc (if v then b "true" else b "false")] := rfl
/-- trusted HTML is emitted exactly once and unmodified -/
theorem C01_write_html (h : HeapView) (f : Nat) (s : Bytes) : writeVal h (f + 1) (.html s) = some [.trusted s] := rfl

/-- an escaped chunk never contributes a raw < > ' " to the output -/
theorem C01_esc_chunk_safe (s : Bytes) : ∀ x ∈ (Chunk.esc s).flatten, x ≠ 60 ∧ x ≠ 62 ∧ x ≠ 39 ∧ x ≠ 34 :=
  C20_html_no_specials s

/-- values built only from Go strings by the routes that end in the sink as []interface{} / return
    wrappers (loops, blocks, user functions, array literals): any nesting, any depth -/
inductive StrTree
  | leaf (s : Bytes)
  | seq (ts : List StrTree)      -- []interface{} built by a block / loop / array literal
  | ret (ts : List StrTree)      -- returnObject

mutual
def StrTree.toVal : StrTree → Val
  | .leaf s => .str s
  | .seq ts => .ilist (StrTree.toVals ts)
  | .ret ts => .ret (StrTree.toVals ts)
def StrTree.toVals : List StrTree → List Val
  | [] => []
  | t :: r => t.toVal :: StrTree.toVals r
end

def allEsc (cs : List Chunk) : Prop := ∀ c ∈ cs, ∃ s, c = .esc s

mutual
theorem writeVal_strTree (h : HeapView) : ∀ (t : StrTree) (f : Nat) (cs : List Chunk),
    writeVal h f t.toVal = some cs → allEsc cs
  | .leaf s, f, cs, hw => by
    cases f with
    | zero => simp [writeVal] at hw
    | succ f =>
      simp [StrTree.toVal, writeVal] at hw
      subst hw; intro c hc; simp at hc; exact ⟨s, hc⟩
  | .seq ts, f, cs, hw => by
    cases f with
    | zero => simp [writeVal] at hw
    | succ f =>
      simp only [StrTree.toVal, writeVal] at hw
      exact writeVals_strTree h ts f cs hw
  | .ret ts, f, cs, hw => by
    cases f with
    | zero => simp [writeVal] at hw
    | succ f =>
      simp only [StrTree.toVal, writeVal] at hw
      exact writeVals_strTree h ts f cs hw
theorem writeVals_strTree (h : HeapView) : ∀ (ts : List StrTree) (f : Nat) (cs : List Chunk),
    writeVals h f (StrTree.toVals ts) = some cs → allEsc cs
  | [], f, cs, hw => by
    cases f with
    | zero => simp [writeVals] at hw
    | succ f => simp [StrTree.toVals, writeVals] at hw; subst hw; intro c hc; simp at hc
  | t :: r, f, cs, hw => by
    cases f with
    | zero => simp [writeVals] at hw
    | succ f =>
      simp only [StrTree.toVals, writeVals, bind, Option.bind] at hw
      cases ha : writeVal h f t.toVal with
      | none => simp [ha] at hw
      | some a =>
        cases hb : writeVals h f (StrTree.toVals r) with
        | none => simp [ha, hb] at hw
        | some c =>
          simp [ha, hb] at hw
          subst hw
          intro x hx
          rcases List.mem_append.mp hx with hx | hx
          · exact writeVal_strTree h t f a ha x hx
          · exact writeVals_strTree h r f c hb x hx
end

/-- ROUTES: whatever nesting of blocks / loops / return wrappers a string takes to the sink, every byte
    written for it comes from an escaped chunk: no raw < > ' " reaches the output -/
theorem C01_routes (h : HeapView) (t : StrTree) (f : Nat) (cs : List Chunk) (hw : writeVal h f t.toVal = some cs) :
    ∀ x ∈ flattenChunks cs, x ≠ 60 ∧ x ≠ 62 ∧ x ≠ 39 ∧ x ≠ 34 := by
  intro x hx
  simp only [flattenChunks, List.mem_flatMap] at hx
  obtain ⟨c, hc, hxc⟩ := hx
  obtain ⟨s, rfl⟩ := writeVal_strTree h t f cs hw c hc
  exact C01_esc_chunk_safe s x hxc

/-- **END TO END: a string written in a template comes out escaped, whatever it contains.** For every content `c`
    (no NUL, no backslash) the output of the template `<%="…"%>` spelling `c` contains none of `<` `>` `'` `"` — so no
    string literal can open a tag or close an attribute in the page. Lexer, parser, evaluator and sink composed with
    the escaper's safety theorem; holds for all data, heaps and partial feeders. -/
theorem C01_string_literal_output_is_escaped_end_to_end (c : Bytes) (hno : ∀ x ∈ c, x ≠ 0 ∧ x ≠ 92)
    (data : List (Bytes × Val)) (heap : Array HeapObj) (feeder : List (Bytes × Bytes)) :
    ∃ out, (renderTop (LX.outTagSrc c) data heap feeder).1 = .ok out ∧ out = htmlEscape c
      ∧ ∀ x ∈ out, x ≠ 60 ∧ x ≠ 62 ∧ x ≠ 39 ∧ x ≠ 34 :=
  ⟨htmlEscape c, renderTop_outTag c hno data heap feeder, rfl, C20_html_no_specials c⟩

/-- **END TO END, DATA TO OUTPUT: a Go string bound in the context comes out escaped.** For every lower-case name that is
    not a keyword, every string value `v` (any bytes at all), every store, context and fuel: when `name` is bound to `v` in
    the context the render runs in, the template `<%=name%>` renders to exactly `htmlEscape v`, that output contains none of
    `<` `>` `'` `"`, and the evaluator state is left as it was. Lexer (E_START, IDENT, E_END), parser (one output statement
    holding the identifier), evaluator (lookup in the current context) and sink (escaped chunk) composed. -/
theorem C01_string_data_is_escaped_end_to_end (name v : Bytes) (hn : LX.LowerName name)
    (hkw : LX.lookupIdent name = .IDENT) (fuel ctx : Nat) (s : ES)
    (hhas : s.store.has ctx name = true) (hval : s.store.value ctx name = .str v) :
    renderIn (fuel + 5) (LX.identTagSrc name) ctx s = (.ok (htmlEscape v), s)
      ∧ ∀ x ∈ htmlEscape v, x ≠ 60 ∧ x ≠ 62 ∧ x ≠ 39 ∧ x ≠ 34 :=
  ⟨render_identTag_str name v hn hkw fuel ctx s hhas hval, C20_html_no_specials v⟩

/-- … and a `template.HTML` value bound to the same name comes out verbatim: the sink distinguishes the two by the VALUE's
    type, nothing in the template does -/
theorem C01_trusted_html_is_verbatim_end_to_end (name v : Bytes) (hn : LX.LowerName name)
    (hkw : LX.lookupIdent name = .IDENT) (fuel ctx : Nat) (s : ES)
    (hhas : s.store.has ctx name = true) (hval : s.store.value ctx name = .html v) :
    renderIn (fuel + 5) (LX.identTagSrc name) ctx s = (.ok v, s) :=
  render_identTag_html name v hn hkw fuel ctx s hhas hval

/-- non-vacuity: `user` is a lower-case name and not a keyword; its template is `<%=user%>` -/
example : LX.LowerName [117, 115, 101, 114] ∧ LX.lookupIdent [117, 115, 101, 114] = .IDENT
    ∧ LX.identTagSrc [117, 115, 101, 114] = [60, 37, 61, 117, 115, 101, 114, 37, 62] :=
  ⟨⟨by decide, by decide⟩, by decide, by decide⟩

end Plush
