import PlushModel
import PlushModel.Gen.EvalDispatch
/-!
  C12 — Go helpers receive exactly the supplied arguments, in order, or are not called.
  Decision logic of the argument binder (`bindArgs` / `bindFixed` / `bindVariadic`, the model of the
  fixed and variadic paths of evalCallExpression), stated outright. Tied to /repo by the `render-gen`
  stream (helper family with fixed, optional-map, helper-context and variadic signatures) and the C12 oracle.
-/
namespace Plush
open EM

/-- too many arguments for a non-variadic function: an error, and NOTHING is evaluated (state unchanged),
    so the function is not invoked -/
theorem C12_too_many (fuel : Nat) (name : String) (sig : Sig) (args : List (Option Expr)) (blk : Option Block)
    (s : ES) (hv : sig.variadic = false) (h : args.length > sig.params.length) :
    bindArgs (fuel + 1) name sig args blk s = (.err { kind := "too-many-arguments" }, s) := by
  simp [bindArgs, hv, h, fail, throwErr]

/-- too few arguments for a variadic function (fewer than its fixed parameters): an error, nothing evaluated -/
theorem C12_variadic_too_few (fuel : Nat) (name : String) (sig : Sig) (args : List (Option Expr)) (blk : Option Block)
    (s : ES) (hv : sig.variadic = true) (h : args.length < sig.params.length - 1) :
    bindArgs (fuel + 1) name sig args blk s = (.err { kind := "too-few-arguments" }, s) := by
  simp [bindArgs, hv, h, fail, throwErr]

/-- arguments are evaluated one at a time, left to right: the first argument is evaluated first, and if
    it fails the later ones are not evaluated (they do not occur in the result) -/
theorem C12_first_arg_first (fuel : Nat) (blk : Option Block) (a : Option Expr) (t : Ty) (rest : List (Option Expr × Ty))
    (acc : List Val) (s s1 : ES) (e : Err) (h : evalExpr fuel a s = (.err e, s1)) :
    bindFixed (fuel + 1) blk ((a, t) :: rest) acc s = (.err e, s1) := by
  simp [bindFixed, bind, h]

/-- an argument whose value is not assignable to its parameter: an error that stops the binding — the
    remaining arguments are not evaluated and the function is not invoked -/
theorem C12_bad_arg (fuel : Nat) (blk : Option Block) (a : Option Expr) (t : Ty) (rest : List (Option Expr × Ty))
    (acc : List Val) (s s1 : ES) (v : Val) (at_ : Ty) (h : evalExpr fuel a s = (.ok v, s1))
    (hn : v.isNil = false) (hty : v.ty = some at_) (hna : assignableTo at_ t = false) :
    bindFixed (fuel + 1) blk ((a, t) :: rest) acc s = (.err { kind := "invalid-argument" }, s1) := by
  simp [bindFixed, bind, h, hn, hty, hna, getCur, getS, fail, throwErr, pure]

/-- an assignable argument is passed unchanged, in its position; binding continues with the next one -/
theorem C12_good_arg (fuel : Nat) (blk : Option Block) (a : Option Expr) (t : Ty) (rest : List (Option Expr × Ty))
    (acc : List Val) (s s1 : ES) (v : Val) (at_ : Ty) (h : evalExpr fuel a s = (.ok v, s1))
    (hn : v.isNil = false) (hty : v.ty = some at_) (ha : assignableTo at_ t = true) :
    bindFixed (fuel + 1) blk ((a, t) :: rest) acc s = bindFixed fuel blk rest (acc ++ [v]) s1 := by
  simp [bindFixed, bind, h, hn, hty, ha, getCur, getS, pure]

/-- nil becomes the parameter type's zero value — for fixed parameters … -/
theorem C12_nil_is_zero (fuel : Nat) (blk : Option Block) (a : Option Expr) (t : Ty) (rest : List (Option Expr × Ty))
    (acc : List Val) (s s1 : ES) (h : evalExpr fuel a s = (.ok .nil, s1)) :
    bindFixed (fuel + 1) blk ((a, t) :: rest) acc s = bindFixed fuel blk rest (acc ++ [zeroOf t]) s1 := by
  simp [bindFixed, bind, h, Val.isNil, getCur, getS, pure]

/-- … and in the variadic tail (the element type's zero value) -/
theorem C12_variadic_nil_is_zero (fuel : Nat) (t : Ty) (a : Option Expr) (rest : List (Option Expr)) (acc : List Val)
    (s s1 : ES) (h : evalExpr fuel a s = (.ok .nil, s1)) :
    bindVariadic (fuel + 1) t (a :: rest) acc s = bindVariadic fuel t rest (acc ++ [zeroOf t]) s1 := by
  simp [bindVariadic, bind, h, Val.isNil, pure]

/-- a TYPED nil pointer is a value, not nil: it is passed on unchanged when the parameter can take it (an
    `interface{}` parameter or a pointer parameter of its own type), and is NOT replaced by the zero value — only the
    untyped nil is (the class of seeded change C12-h; tied to /repo by pointer arguments in the `render-struct` stream) -/
theorem C12_typed_nil_pointer_is_a_value (fuel : Nat) (blk : Option Block) (a : Option Expr) (t : Ty) (pty : String)
    (rest : List (Option Expr × Ty)) (acc : List Val) (s s1 : ES)
    (h : evalExpr fuel a s = (.ok (.ptr pty none), s1)) (ha : assignableTo (.named pty) t = true) :
    bindFixed (fuel + 1) blk ((a, t) :: rest) acc s = bindFixed fuel blk rest (acc ++ [.ptr pty none]) s1 :=
  C12_good_arg fuel blk a t rest acc s s1 (.ptr pty none) (.named pty) h rfl rfl ha

/-- … and it is rejected, with the helper not invoked, when the parameter cannot take it -/
theorem C12_typed_nil_pointer_rejected (fuel : Nat) (blk : Option Block) (a : Option Expr) (t : Ty) (pty : String)
    (rest : List (Option Expr × Ty)) (acc : List Val) (s s1 : ES)
    (h : evalExpr fuel a s = (.ok (.ptr pty none), s1)) (ha : assignableTo (.named pty) t = false) :
    bindFixed (fuel + 1) blk ((a, t) :: rest) acc s = (.err { kind := "invalid-argument" }, s1) := by
  simp [bindFixed, bind, h, Val.isNil, Val.ty, ha, getCur, getS, fail, throwErr, pure]

/-- the variadic tail receives ALL remaining arguments, in order -/
theorem C12_variadic_all (fuel : Nat) (t : Ty) (acc : List Val) (s : ES) :
    bindVariadic (fuel + 1) t [] acc s = (.ok acc, s) := by
  simp [bindVariadic, pure]

/-- a non-nil trailing error result fails the call and the error wraps the original (errors.Is holds):
    the wrapping keeps the cause chain -/
theorem C12_wrap_keeps_causes (e : Err) : ({ e with kind := "helper-failed", direct := false } : Err).causes = e.causes := rfl

/-- the signatures of the model's helper family are the ones of the Go functions: an omitted trailing
    helper context / options map exists exactly where the binder auto-supplies it -/
example : (helperSig "partial").map (·.params.length) = some 3 ∧ (helperSig "contentOf").map (·.params.length) = some 3 ∧
    (helperSig "truncate").map (·.params) = some [.string, optsTy] := by decide

/-- THE ARGUMENT CHECK IN /repo IS ASSIGNABILITY, at all three binding sites (fixed parameters, the fixed part of a
    variadic, the variadic tail) — re-read from `evalCallExpression` on every run: the reflect type predicates it
    applies are exactly three `AssignableTo` on the argument's type, plus the `ConvertibleTo`/`Implements` tests
    that recognise an omitted helper-context / options parameter. A check relaxed to convertibility (seeded changes
    C01-e, C04-i: a string accepted for a `template.HTML` parameter, a slice for an array parameter) changes this
    list. The model's `bindFixed` / `bindVariadic` use `assignableTo` (C12_bad_arg, C12_good_arg). -/
theorem C12_argument_check_is_assignability :
    Gen.callTypeChecks = ["actualT.AssignableTo", "arg.ConvertibleTo", "arg.Implements", "arg.ConvertibleTo",
      "actualT.AssignableTo", "actualT.AssignableTo"] := rfl

end Plush
