import PlushModel
import PlushProofs.Lib.EvalPaths
import PlushModel.Gen.EvalDispatch
import PlushProofs.Lib.EvalIndexTail
/-!
  C11 — path access returns exactly what Go navigation would, or fails; never another element.
  Struct values and pointers ARE in the model's value universe (`Val.struct`, `Val.ptr`; build session 3): field
  selection along a dotted path is proved to be exactly navigation (`C11_path_is_navigation` below) and tied to
  /repo by struct-shaped data in the `render-gen` stream. Still PARTIAL: methods, embedded structs and the
  index-then-member rebinding are reflected Go behaviour outside the model; for them the navigation is decided by
  the C11 oracle (self-describing data) on the implementation. Also proved here, the part of the mechanism that is logic: how a dotted path is split and re-joined, how
  `assignCallee` wires `a[i].b` / `a[i].b.f()` (the root of the member chain is the indexed element — the
  `fix:` for the wrong-element defect), that an index is bounds-checked on both sides, and that a failed
  navigation step is an error or nil — never a default element.
-/
namespace Plush
open EM

theorem splitOn1_ne_nil (sep : UInt8) (s : Bytes) : splitOn1 sep s ≠ [] := by
  cases s with
  | nil => simp [splitOn1]
  | cons c r =>
    simp only [splitOn1]
    split
    · simp
    · split <;> simp

/-- a dotted identifier is split on '.', and its printed form is the original spelling -/
theorem C11_split_join (s : Bytes) : joinWith [46] (splitOn1 46 s) = s := by
  induction s with
  | nil => rfl
  | cons c r ih =>
    simp only [splitOn1]
    cases hs : splitOn1 46 r with
    | nil => exact absurd hs (splitOn1_ne_nil 46 r)
    | cons x xs =>
      rw [hs] at ih
      by_cases h : c = 46
      · subst h
        simp only [beq_self_eq_true, if_true, joinWith]
        simp [ih]
      · have : (c == 46) = false := by simpa using h
        simp only [this, Bool.false_eq_true, if_false]
        cases xs with
        | nil => simp [joinWith] at ih ⊢; exact ih
        | cons y ys => simp [joinWith] at ih ⊢; exact ih

theorem C11_ident_spelling (t : Token) (lit : Bytes) :
    ({ tok := t, segs := splitOn1 46 lit } : Ident).str = lit := by
  simp [Ident.str, C11_split_join]

/-- `a[i].b`: the member chain hangs off the indexed element (the base), not off a global name -/
theorem C11_assignCallee_ident (i : Ident) (cv : Bytes) (s : PS) :
    (P.assignCallee (some (.ident i)) cv).run s = .ok (some (.ident { i with base := some cv }), s) := by
  simp [P.assignCallee, pure, StateT.pure, StateT.run, Except.pure]

/-- `a[i].b.f()`: the call keeps its own callee chain `b` and the indexed element becomes the ROOT of that
    chain — f is called on the field b of the element, not on the element itself -/
theorem C11_assignCallee_call (t : Token) (i fi : Ident) (ch : Option Expr) (args blk) (cv : Bytes) (s : PS) :
    (P.assignCallee (some (.call t (some (.ident i)) ch (.ident fi) args blk)) cv).run s =
      .ok (some (.call t (some (.ident { i with base := some cv })) ch (.ident { fi with base := some cv }) args blk), s) := by
  simp [P.assignCallee, pure, StateT.pure, StateT.run, Except.pure]

/-- anything else after `a[i].` is a syntax error, not a silently different path -/
theorem C11_assignCallee_other (cv : Bytes) (s : PS) :
    (P.assignCallee none cv).run s =
      .ok (none, { s with errs := s.errs.push { line := some (P.tokAt s s.pos).line, kind := "invalid-nested-index-access" } }) := by
  simp [P.assignCallee, P.errHere, P.addErr, P.cur, bind, StateT.bind, StateT.run, get, getThe, MonadStateOf.get,
    StateT.get, pure, StateT.pure, Except.pure, Except.bind, modify, modifyGet, MonadStateOf.modifyGet, StateT.modifyGet]

/-- an index outside 0..len-1 — on EITHER side — is an error: never element 0, never the last element -/
theorem C11_index_out_of_range (a : Nat) (ety : Ty) (ix : Int) (s : ES) (items : Array Val)
    (h : s.heap[a]? = some (.slice items)) (hout : ix < 0 ∨ (items.size : Int) - 1 < ix) (hc : Bool) :
    accessIndex (.list ety a) (.int ix) hc s = (.err { kind := "index-out-of-bounds" }, s) := by
  have : (decide (ix < 0) || decide ((items.size : Int) - 1 < ix)) = true := by
    rcases hout with h1 | h1 <;> simp [h1]
  simp [accessIndex, bind, heapSlice, getS, h, pure, this, fail, throwErr]

/-- an index inside the range yields exactly that element -/
theorem C11_index_in_range (a : Nat) (ety : Ty) (ix : Int) (s : ES) (items : Array Val)
    (h : s.heap[a]? = some (.slice items)) (h0 : 0 ≤ ix) (h1 : ix ≤ (items.size : Int) - 1) :
    accessIndex (.list ety a) (.int ix) false s = (.ok (items.getD ix.toNat .nil), s) := by
  have : (decide (ix < 0) || decide ((items.size : Int) - 1 < ix)) = false := by
    simp; omega
  simp [accessIndex, bind, heapSlice, getS, h, pure, this]

/-- a missing map key is nil (empty output), not some other entry's value -/
theorem C11_missing_key (a : Nat) (k : Bytes) (s : ES) (es : List (Val × Val))
    (h : s.heap[a]? = some (.map es)) (hk : mapLookup (.str k) es = none) (hc : Bool) :
    accessIndex (.map .string .any a) (.str k) hc s = (.ok .nil, s) := by
  simp [accessIndex, bind, heapMap, getS, h, pure, hk, Val.ty]

/-- a member of nil is nil; a member of a non-struct value is an error -/
theorem C11_member_of_nil (fuel : Nat) (i : Ident) (root leaf : Bytes) (s s1 : ES)
    (hi : i.base = none ∧ i.segs = [root, leaf])
    (h : evalIdent fuel { i with segs := [root] } s = (.ok .nil, s1)) :
    evalIdent (fuel + 1) i s = (.ok .nil, s1) := by
  obtain ⟨hb, hs⟩ := hi
  have : i = { i with base := none, segs := [root, leaf] } := by cases i; simp_all
  rw [this]
  simp only [hb] at h
  simp [evalIdent, bind, List.dropLast, h, memberOf, memberStep]

/-! ### Dotted paths over struct / pointer data (proofs in `PlushProofs/Lib/EvalPaths.lean`) -/

/-- EVALUATING A DOTTED PATH IS NAVIGATION, for every path length, every data graph, every state and any
    sufficient fuel: the value of `root.f1.f2.….fn` is the left-to-right fold of the one-step member function
    (`memberStep`: nil has nil members; one pointer dereference in front; struct field lookup by name; a nil
    pointer field is nil, a non-nil pointer field is dereferenced; unexported is an error; anything else has no
    members) over `f1 … fn`, starting from what `root` is bound to — and the evaluator state is untouched. So a
    path yields exactly what that navigation yields, or the first failure on the way. -/
theorem C11_path_is_navigation (t : Token) (root : Bytes) (s : ES) (path : List Bytes) (fuel : Nat) (hf : path.length < fuel) :
    evalIdent fuel { tok := t, segs := root :: path, base := none } s = (navigate (rootValue root s) path, s) :=
  evalIdent_path t root s path fuel hf

/-- the right field: a field that is there, exported and not a pointer is returned as it is … -/
theorem C11_field_exact (ty : String) (fields : List (Bytes × Val)) (name : Bytes) (v : Val)
    (h : lookupKey name fields = some v) (hx : isExportedName name = true) (hp : ∀ t p, v ≠ .ptr t p) :
    memberStep (.struct ty fields) name = .ok v := memberStep_field ty fields name v h hx hp

/-- … and what is found under a name IS an entry of that name: never the value of a different element -/
theorem C11_found_value_has_that_name (k : Bytes) (l : List (Bytes × Val)) (v : Val) (h : lookupKey k l = some v) :
    (k, v) ∈ l := lookupKey_mem k l v h

/-- pointers are dereferenced transparently -/
theorem C11_through_pointer (pty : String) (c : Val) (name : Bytes) (hc : ∀ a r, c ≠ .opaque a r) (hn : c ≠ .nil)
    (hpp : ∀ t p, c ≠ .ptr t p) : memberStep (.ptr pty (some c)) name = memberStep c name :=
  memberStep_ptr pty c name hc hn hpp

/-- navigation that cannot be completed is an error or nil — a missing field, a typed nil pointer, a scalar,
    a slice, a map have no members; members of nil are nil -/
theorem C11_incomplete_navigation (ty : String) (fields : List (Bytes × Val)) (name : Bytes) (t : String) (i : Int) (sv : Bytes)
    (e : Ty) (a : Nat) (h : lookupKey name fields = none) :
    memberStep (.struct ty fields) name = .err { kind := "no-field-or-method" } ∧
    memberStep (.ptr t none) name = .err { kind := "no-field-or-method" } ∧
    memberStep .nil name = .ok .nil ∧
    memberStep (.int i) name = .err { kind := "no-field-or-method" } ∧
    memberStep (.str sv) name = .err { kind := "no-field-or-method" } ∧
    memberStep (.list e a) name = .err { kind := "no-field-or-method" } ∧
    memberStep (.map .string .any a) name = .err { kind := "no-field-or-method" } :=
  ⟨memberStep_missing ty fields name h, rfl, rfl, rfl, rfl, rfl, rfl⟩

/-- INDEX-THEN-MEMBER HANGS OFF THE INDEXED ELEMENT (`evalIndexCallee`, the site of the wrong-element defect
    repaired in session 1): for every state, every element and every name of the callee root, binding the element
    in the fresh child scope and evaluating the tail `cv.name` there yields exactly `memberStep elem name` — the
    member of THAT element, whatever the caller's scope or the copied variables hold under other names — and the
    caller's scope is current again afterwards. (`indexTail` is literally the sequence `evalIndex` runs after the
    bounds-checked access; a nil element is not bound, as in Go, and reads as an unknown identifier.) -/
theorem C11_index_then_member_uses_the_element (f : Nat) (t : Token) (cv name : Bytes) (elem : Val) (s : ES)
    (hne : elem.isNil = false) :
    (indexTail f t cv name elem s).1 = memberStep elem name ∧
      ((∀ x, memberStep elem name ≠ .fatal x) → (indexTail f t cv name elem s).2.cur = s.cur) :=
  indexTail_uses_element f t cv name elem s hne

/-- … and that sequence is what `evalIndex` does for `l[i].name` (after `assignCallee` put `cv` at the root of the
    tail): index and left evaluated, bounds-checked access, nil for a missing map key WITHOUT evaluating the tail,
    otherwise the tail on the element -/
theorem C11_index_tail_is_evalIndex (f : Nat) (l i : Option Expr) (t : Token) (cv name : Bytes) :
    evalIndex (f + 4) l i none (some (.ident { tok := t, base := some cv, segs := [name] })) = (do
      let index ← evalExpr (f + 3) i
      let left ← evalExpr (f + 3) l
      let elem ← accessIndex left index false
      if (← mapKeyMissing left index) then pure .nil else indexTail f t cv name elem) :=
  evalIndex_tail_eq f l i t cv name

/-- index read and index write do not look through pointers (translated from `evalAccessIndex` / `evalUpdateIndex`
    on every run): an index applied to a pointer — also a pointer to a map or slice — is an error, in Go and in the
    model, never an element and never a panic -/
theorem C11_index_does_not_dereference (t : String) (p : Option Val) (i : Val) (h : Bool) (s : ES) :
    Gen.evalAccessIndexDerefsPointer = false ∧ Gen.evalUpdateIndexDerefsPointer = false ∧
    Gen.evalAccessIndexKinds = [["reflect.Map"], ["reflect.Array", "reflect.Slice"]] ∧
    accessIndex (.ptr t p) i h s = (.err { kind := "could-not-index" }, s) :=
  ⟨rfl, rfl, rfl, rfl⟩

/-- non-vacuity: `u.Boss.Name` on `u = &User{Name: "ann", Boss: &User{Name: "bo", Boss: nil}}` is "bo", and
    `u.Boss.Boss.Name` is nil (a member of a nil pointer field) -/
example :
    let name : Bytes := [78, 97, 109, 101]   -- "Name"
    let boss : Bytes := [66, 111, 115, 115]  -- "Boss"
    let bo : Val := .struct "User" [(name, .str [98, 111]), (boss, .ptr "*User" none)]
    let ann : Val := .ptr "*User" (some (.struct "User" [(name, .str [97, 110, 110]), (boss, .ptr "*User" (some bo))]))
    navigate (.ok ann) [boss, name] = .ok (.str [98, 111]) ∧
    navigate (.ok ann) [boss, boss, name] = .ok .nil ∧
    navigate (.ok ann) [[78, 111, 112, 101]] = .err { kind := "no-field-or-method" } := by
  refine ⟨?_, ?_, ?_⟩ <;> rfl

end Plush
