import PlushModel
/-!
  C11 — path access returns exactly what Go navigation would, or fails; never another element.
  PARTIAL: struct fields and methods are reflected Go values outside the model's value universe, so the
  navigation itself is decided by the C11 oracle (self-describing data) on the implementation. What is
  proved here is the part of the mechanism that is logic: how a dotted path is split and re-joined, how
  `assignCallee` wires `a[i].b` / `a[i].b.f()` (the root of the member chain is the indexed element — the
  `fix:` for the wrong-element defect), that an index is bounds-checked on both sides, and that a failed
  navigation step is an error or nil — never a default element.
-/
namespace Plush
open EM

theorem splitOn1_ne_nil (sep : UInt8) (s : Bytes) : splitOn1 sep s ≠ [] := by
  cases s with
  | nil => simp [splitOn1]
  | cons c r =>
    simp only [splitOn1]
    split
    · simp
    · split <;> simp

/-- a dotted identifier is split on '.', and its printed form is the original spelling -/
theorem C11_split_join (s : Bytes) : joinWith [46] (splitOn1 46 s) = s := by
  induction s with
  | nil => rfl
  | cons c r ih =>
    simp only [splitOn1]
    cases hs : splitOn1 46 r with
    | nil => exact absurd hs (splitOn1_ne_nil 46 r)
    | cons x xs =>
      rw [hs] at ih
      by_cases h : c = 46
      · subst h
        simp only [beq_self_eq_true, if_true, joinWith]
        simp [ih]
      · have : (c == 46) = false := by simpa using h
        simp only [this, Bool.false_eq_true, if_false]
        cases xs with
        | nil => simp [joinWith] at ih ⊢; exact ih
        | cons y ys => simp [joinWith] at ih ⊢; exact ih

theorem C11_ident_spelling (t : Token) (lit : Bytes) :
    ({ tok := t, segs := splitOn1 46 lit } : Ident).str = lit := by
  simp [Ident.str, C11_split_join]

/-- `a[i].b`: the member chain hangs off the indexed element (the base), not off a global name -/
theorem C11_assignCallee_ident (i : Ident) (cv : Bytes) (s : PS) :
    (P.assignCallee (some (.ident i)) cv).run s = .ok (some (.ident { i with base := some cv }), s) := by
  simp [P.assignCallee, pure, StateT.pure, StateT.run, Except.pure]

/-- `a[i].b.f()`: the call keeps its own callee chain `b` and the indexed element becomes the ROOT of that
    chain — f is called on the field b of the element, not on the element itself -/
theorem C11_assignCallee_call (t : Token) (i fi : Ident) (ch : Option Expr) (args blk) (cv : Bytes) (s : PS) :
    (P.assignCallee (some (.call t (some (.ident i)) ch (.ident fi) args blk)) cv).run s =
      .ok (some (.call t (some (.ident { i with base := some cv })) ch (.ident { fi with base := some cv }) args blk), s) := by
  simp [P.assignCallee, pure, StateT.pure, StateT.run, Except.pure]

/-- anything else after `a[i].` is a syntax error, not a silently different path -/
theorem C11_assignCallee_other (cv : Bytes) (s : PS) :
    (P.assignCallee none cv).run s =
      .ok (none, { s with errs := s.errs.push { line := some (P.tokAt s s.pos).line, kind := "invalid-nested-index-access" } }) := by
  simp [P.assignCallee, P.errHere, P.addErr, P.cur, bind, StateT.bind, StateT.run, get, getThe, MonadStateOf.get,
    StateT.get, pure, StateT.pure, Except.pure, Except.bind, modify, modifyGet, MonadStateOf.modifyGet, StateT.modifyGet]

/-- an index outside 0..len-1 — on EITHER side — is an error: never element 0, never the last element -/
theorem C11_index_out_of_range (a : Nat) (ety : Ty) (ix : Int) (s : ES) (items : Array Val)
    (h : s.heap[a]? = some (.slice items)) (hout : ix < 0 ∨ (items.size : Int) - 1 < ix) (hc : Bool) :
    accessIndex (.list ety a) (.int ix) hc s = (.err { kind := "index-out-of-bounds" }, s) := by
  have : (decide (ix < 0) || decide ((items.size : Int) - 1 < ix)) = true := by
    rcases hout with h1 | h1 <;> simp [h1]
  simp [accessIndex, bind, heapSlice, getS, h, pure, this, fail, throwErr]

/-- an index inside the range yields exactly that element -/
theorem C11_index_in_range (a : Nat) (ety : Ty) (ix : Int) (s : ES) (items : Array Val)
    (h : s.heap[a]? = some (.slice items)) (h0 : 0 ≤ ix) (h1 : ix ≤ (items.size : Int) - 1) :
    accessIndex (.list ety a) (.int ix) false s = (.ok (items.getD ix.toNat .nil), s) := by
  have : (decide (ix < 0) || decide ((items.size : Int) - 1 < ix)) = false := by
    simp; omega
  simp [accessIndex, bind, heapSlice, getS, h, pure, this]

/-- a missing map key is nil (empty output), not some other entry's value -/
theorem C11_missing_key (a : Nat) (k : Bytes) (s : ES) (es : List (Val × Val))
    (h : s.heap[a]? = some (.map es)) (hk : mapLookup (.str k) es = none) (hc : Bool) :
    accessIndex (.map .string .any a) (.str k) hc s = (.ok .nil, s) := by
  simp [accessIndex, bind, heapMap, getS, h, pure, hk, Val.ty]

/-- a member of nil is nil; a member of a non-struct value is an error -/
theorem C11_member_of_nil (fuel : Nat) (i : Ident) (root leaf : Bytes) (s s1 : ES)
    (hi : i.base = none ∧ i.segs = [root, leaf])
    (h : evalIdent fuel { i with segs := [root] } s = (.ok .nil, s1)) :
    evalIdent (fuel + 1) i s = (.ok .nil, s1) := by
  obtain ⟨hb, hs⟩ := hi
  have : i = { i with base := none, segs := [root, leaf] } := by cases i; simp_all
  rw [this]
  simp only [hb] at h
  simp [evalIdent, bind, List.dropLast, h, pure]

end Plush
