import PlushModel
import PlushModel.Gen.EvalDispatch
import PlushProofs.Lib.ParserWF
import PlushProofs.Lib.EvalCrashSites
/-!
  C04 — evaluation is total: the operator, index-read and index-write matrices of the model never reach
  a crash site, for EVERY combination of value kinds (case analysis over all constructors of `Val`,
  not a sample). `applyInfix`, `accessIndex`, `updateIndex` are the models of evalInfixExpression's
  operator dispatch, evalAccessIndex and evalUpdateIndex (after the fix: commits), tied to /repo by the
  `render-gen` stream and the generated operator tables.
-/
namespace Plush
open EM Gen

/-- a computation never reaches a crash site, from any state -/
def NoCrash {α} (m : EM α) : Prop := ∀ s site, (m s).1 ≠ .fatal (.crash site)

theorem NoCrash.pure {α} (a : α) : NoCrash (pure a : EM α) := by intro s site h; cases h
theorem NoCrash.fail {α} (k : String) : NoCrash (EM.fail k : EM α) := by intro s site h; cases h
theorem NoCrash.throwErr {α} (e : Err) : NoCrash (EM.throwErr e : EM α) := by intro s site h; cases h
theorem NoCrash.unsupported {α} (w : String) : NoCrash (EM.unsupported w : EM α) := by
  intro s site h; simp [EM.unsupported, EM.fatal] at h
theorem NoCrash.bind {α β} {m : EM α} {f : α → EM β} (hm : NoCrash m) (hf : ∀ a, NoCrash (f a)) :
    NoCrash (m >>= f) := by
  intro s site
  show (match m s with | (.ok a, s') => f a s' | (.err e, s') => (.err e, s') | (.fatal x, s') => (.fatal x, s')).1 ≠ _
  have := hm s site
  cases hms : m s with
  | mk r s' =>
    cases r with
    | ok a => exact hf a s' site
    | err e => intro h; cases h
    | fatal x => rw [hms] at this; intro h; simp at h; subst h; exact this rfl

theorem NoCrash.heapSlice (a : Nat) : NoCrash (heapSlice a) := by
  intro s site
  simp only [Plush.heapSlice, Bind.bind, EM.getS]
  cases h : s.heap[a]? with
  | none => simp [EM.unsupported, EM.fatal]
  | some o => cases o <;> simp [Pure.pure, EM.unsupported, EM.fatal]
theorem NoCrash.heapMap (a : Nat) : NoCrash (heapMap a) := by
  intro s site
  simp only [Plush.heapMap, Bind.bind, EM.getS]
  cases h : s.heap[a]? with
  | none => simp [EM.unsupported, EM.fatal]
  | some o => cases o <;> simp [Pure.pure, EM.unsupported, EM.fatal]
theorem NoCrash.allocSlice (items : Array Val) : NoCrash (allocSlice items) := by intro s site h; cases h
theorem NoCrash.heapSet (a : Nat) (o : HeapObj) : NoCrash (heapSet a o) := by intro s site h; cases h

theorem NoCrash.applyOpOut (o : OpOut) (k : String) : NoCrash (applyOpOut o k) := by
  cases o <;> simp only [Plush.applyOpOut] <;>
    repeat (first
      | exact NoCrash.pure _ | exact NoCrash.fail _ | exact NoCrash.unsupported _ | split)

/-- decomposes a goal `NoCrash m` along the structure of `m` (match / if first, then bind, then leaves) -/
macro "nocrash" : tactic =>
  `(tactic| repeat (any_goals (first
    | split
    | exact NoCrash.applyOpOut _ _ | exact NoCrash.heapSlice _ | exact NoCrash.heapMap _
    | exact NoCrash.allocSlice _ | exact NoCrash.heapSet _ _
    | exact NoCrash.fail _ | exact NoCrash.throwErr _ | exact NoCrash.unsupported _ | exact NoCrash.pure _
    | refine NoCrash.bind ?_ (fun _ => ?_)
    | dsimp only)))

/-- OPERATORS: for every operator and every pair of operand values, the result is a value, an error
    or "outside the modelled fragment" — never a crash -/
theorem C04_infix_total (op : Bytes) (l r : Val) : NoCrash (applyInfix op l r) := by
  unfold applyInfix
  nocrash

/-- INDEX READ: every (container kind × index kind) -/
theorem C04_index_read_total (left index : Val) (hc : Bool) : NoCrash (accessIndex left index hc) := by
  unfold accessIndex
  nocrash

/-- INDEX WRITE: every (container kind × index kind × assigned value kind) -/
theorem C04_index_write_total (left index value : Val) : NoCrash (updateIndex left index value) := by
  unfold updateIndex
  nocrash

/-- a user function called with too few arguments is an error (it was an index-out-of-range panic) -/
theorem C04_userfn_too_few (fuel : Nat) (ps : List Ident) (body : Block) (args : List (Option Expr)) (s : ES)
    (h : args.length < ps.length) :
    evalUserFn (fuel + 1) ps body args s = (.err { kind := "too-few-arguments" }, s) := by
  simp [evalUserFn, h, fail, throwErr]

/-- the negative index that used to panic in reflect is an error: `xs[0-1]` -/
example (s : ES) (items : Array Val) (a : Nat) (h : s.heap[a]? = some (.slice items)) :
    accessIndex (.list .any a) (.int (-1)) false s = (.err { kind := "index-out-of-bounds" }, s) := by
  simp [accessIndex, bind, heapSlice, EM.getS, h, pure, EM.fail, EM.throwErr]

/-! ### The parser side of totality ("WFAst", proofs in `PlushProofs/Lib/ParserWF.lean`) -/

/-- THE EVALUATOR IS NEVER HANDED A MISSING CHILD. The model's evaluator has exactly three places where Go
    would dereference a nil AST child (`let` without a name, `for` without a block, an identifier without
    segments). For EVERY source text: if parsing reports no syntax error — the only case in which the program is
    evaluated — the program contains no such node, at any depth (`Stmts.bad = false`). Proof: a partial-correctness
    calculus over the 20 mutually recursive parse functions shows that each of them only adds errors, and that a
    result with such a node implies that an error was added. -/
theorem C04_parser_never_yields_missing_child (src : Bytes) (prog : Program) (errs : Array PErr)
    (h : parseBytes src = .ok (prog, errs)) (he : errs.size = 0) : Stmts.bad prog.stmts = false :=
  parseBytes_no_bad_node src prog errs h he

/-- non-vacuity of the notion: `let` without a name is "bad", a well-formed `let` is not -/
example : Stmt.bad (.let_ zeroTok none none) = true ∧
    Stmt.bad (.let_ zeroTok (some { tok := zeroTok, segs := [[120]] }) none) = false := by
  constructor <;> simp [Stmt.bad, OExpr.bad, Ident.bad]

/-! ### Evaluator-wide crash sites (proof in `PlushProofs/Lib/EvalCrashSites.lean`) -/

/-- THE WHOLE EVALUATOR, not just the dispatch matrices: in the model a crash site (a Go panic) can be reached ONLY
    at one of three named places, each the dereference of a missing AST child — never in operator dispatch,
    indexing, calls, argument binding, the three loop forms, block helpers, contentFor/contentOf, partials, the
    output sink, nor (Theorem B) through the parser. All 27 functions of the evaluator's mutual recursion, every
    program, every state. `C04_parser_never_yields_missing_child` excludes the three sites for error-free programs. -/
theorem C04_evaluator_crash_sites (fuel : Nat) : AllCO fuel := allCO fuel

/-- instance: a whole render -/
theorem C04_render_crash_sites (fuel : Nat) (src : Bytes) (ctx : Nat) (s : ES) (site : String)
    (h : (renderIn fuel src ctx s).1 = .fatal (.crash site)) : site ∈ nilChildSites :=
  (allCO fuel).renderIn src ctx s site h

/-! ### The evaluator's dispatch on node types, tied to the source (`Gen/EvalDispatch.lean`, re-translated on every run) -/

/-- which arm of Go's `evalExpression` an AST node of the model takes: its Go node type and what that arm does -/
def Expr.goArm : Expr → String × String
  | .html .. => ("*ast.HTMLLiteral", "return:template.HTML(…)")
  | .str .. => ("*ast.StringLiteral", "return:s.Value")
  | .int .. => ("*ast.IntegerLiteral", "return:s.Value")
  | .float .. => ("*ast.FloatLiteral", "return:s.Value")
  | .inf .. => ("*ast.InfixExpression", "evalInfixExpression")
  | .hash .. => ("*ast.HashLiteral", "evalHashLiteral")
  | .idx .. => ("*ast.IndexExpression", "evalIndexExpression")
  | .call .. => ("*ast.CallExpression", "evalCallExpression")
  | .ident .. => ("*ast.Identifier", "evalIdentifier")
  | .bool .. => ("*ast.Boolean", "return:s.Value")
  | .arr .. => ("*ast.ArrayLiteral", "evalArrayLiteral")
  | .for_ .. => ("*ast.ForExpression", "evalForExpression")
  | .if_ .. => ("*ast.IfExpression", "evalIfExpression")
  | .pre .. => ("*ast.PrefixExpression", "evalPrefixExpression")
  | .fn .. => ("*ast.FunctionLiteral", "evalFunctionLiteral")
  | .asg .. => ("*ast.AssignExpression", "evalAssignExpression")
  | .cont .. => ("*ast.ContinueExpression", "return:continueObject{…}")
  | .brk .. => ("*ast.BreakExpression", "return:breakObject{…}")

def flatArms (arms : List (List String × String)) : List (String × String) :=
  arms.flatMap fun (tys, a) => tys.map fun t => (t, a)

/-- THE MODEL'S NODE KINDS AND ROUTES ARE EXACTLY THE ARMS OF THE TRANSLATED SWITCH: every arm of `evalExpression`
    in /repo (re-translated on every run) is the arm of some model node kind or the `nil` arm, and every model
    node kind has its arm; a node type without an arm is an error in Go. -/
theorem C04_eval_dispatch_table :
    flatArms Gen.evalExpressionArms =
      [("*ast.HTMLLiteral", "return:template.HTML(…)"), ("*ast.StringLiteral", "return:s.Value"),
       ("*ast.IntegerLiteral", "return:s.Value"), ("*ast.FloatLiteral", "return:s.Value"),
       ("*ast.InfixExpression", "evalInfixExpression"), ("*ast.HashLiteral", "evalHashLiteral"),
       ("*ast.IndexExpression", "evalIndexExpression"), ("*ast.CallExpression", "evalCallExpression"),
       ("*ast.Identifier", "evalIdentifier"), ("*ast.Boolean", "return:s.Value"),
       ("*ast.ArrayLiteral", "evalArrayLiteral"), ("*ast.ForExpression", "evalForExpression"),
       ("*ast.IfExpression", "evalIfExpression"), ("*ast.PrefixExpression", "evalPrefixExpression"),
       ("*ast.FunctionLiteral", "evalFunctionLiteral"), ("*ast.AssignExpression", "evalAssignExpression"),
       ("*ast.ContinueExpression", "return:continueObject{…}"), ("*ast.BreakExpression", "return:breakObject{…}"),
       ("nil", "return:nil")] ∧
    Gen.evalExpressionUnknownIsError = true := by
  constructor <;> rfl

theorem C04_every_node_kind_has_its_arm (e : Expr) : e.goArm ∈ flatArms Gen.evalExpressionArms := by
  rw [C04_eval_dispatch_table.1]
  cases e <;> simp [Expr.goArm]

/-- … and the model takes that route: one equation per arm of the switch -/
theorem C04_model_follows_dispatch (f : Nat) :
    (evalExpr (f + 1) none = pure .nil) ∧
    (∀ t v, evalExpr (f + 1) (some (.html t v)) = pure (.html v)) ∧
    (∀ t v, evalExpr (f + 1) (some (.str t v)) = pure (.str v)) ∧
    (∀ t v, evalExpr (f + 1) (some (.int t v)) = pure (.int v)) ∧
    (∀ t v, evalExpr (f + 1) (some (.bool t v)) = pure (.bool v)) ∧
    (∀ t op l r, evalExpr (f + 1) (some (.inf t op l r)) = evalInfix f op l r) ∧
    (∀ t l i v c, evalExpr (f + 1) (some (.idx t l i v c)) = evalIndex f l i v c) ∧
    (∀ t ce ch fn args blk, evalExpr (f + 1) (some (.call t ce ch fn args blk)) = evalCall f ce ch fn args blk) ∧
    (∀ i, evalExpr (f + 1) (some (.ident i)) = evalIdent f i) ∧
    (∀ t k v it bl, evalExpr (f + 1) (some (.for_ t k v it bl)) = evalFor f k v it bl) ∧
    (∀ t c bl el es, evalExpr (f + 1) (some (.if_ t c bl el es)) = evalIf f c bl el es) ∧
    (∀ t ps bl, evalExpr (f + 1) (some (.fn t ps bl)) = pure (.userfn (ps.getD []) bl)) ∧
    (∀ t, evalExpr (f + 1) (some (.cont t)) = pure (.cont [])) ∧
    (∀ t, evalExpr (f + 1) (some (.brk t)) = pure (.brk [])) := by
  refine ⟨?_, ?_, ?_, ?_, ?_, ?_, ?_, ?_, ?_, ?_, ?_, ?_, ?_, ?_⟩ <;> intros <;> simp [evalExpr]

/-- the statement switch: three arms, anything else is an error -/
theorem C04_stmt_dispatch_table :
    flatArms Gen.evalStatementArms =
      [("*ast.ExpressionStatement", "block:evalExpression"), ("*ast.ReturnStatement", "evalReturnStatement"),
       ("*ast.LetStatement", "evalLetStatement")] ∧ Gen.evalStatementUnknownIsError = true := by
  constructor <;> rfl


/-- the reflective dispatch of loops and index operations, as translated: maps and slices/arrays have arms, every
    other kind goes to the default arm (an error in the model: `could-not-iterate`, `could-not-index`); a `for`
    dereferences a pointer operand first (the model: `for` over a pointer to a slice is outside the fragment, over
    a pointer to a struct an error), index read and index write do NOT (the model: an index on a pointer is an
    error) -/
theorem C04_kind_dispatch :
    Gen.evalForExpressionKinds = [["reflect.Map"], ["reflect.Slice", "reflect.Array"]] ∧
    Gen.evalForExpressionHasDefault = true ∧ Gen.evalForExpressionDerefsPointer = true ∧
    Gen.evalAccessIndexKinds = [["reflect.Map"], ["reflect.Array", "reflect.Slice"]] ∧
    Gen.evalAccessIndexHasDefault = true ∧ Gen.evalAccessIndexDerefsPointer = false ∧
    Gen.evalUpdateIndexKinds = [["reflect.Map"], ["reflect.Array", "reflect.Slice"]] ∧
    Gen.evalUpdateIndexHasDefault = true ∧ Gen.evalUpdateIndexDerefsPointer = false := by
  refine ⟨rfl, rfl, rfl, rfl, rfl, rfl, rfl, rfl, rfl⟩

/-- … and the model agrees: an index read or write on a pointer is an error, whatever it points to -/
theorem C04_index_on_pointer_is_error (t : String) (p : Option Val) (i v : Val) (h : Bool) (s : ES) :
    accessIndex (.ptr t p) i h s = (.err { kind := "could-not-index" }, s) ∧
    updateIndex (.ptr t p) i v s = (.err { kind := "could-not-index" }, s) := by
  constructor <;> rfl

end Plush
