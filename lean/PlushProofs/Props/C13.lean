import PlushModel
import PlushProofs.Lib.EvalKeepsFeeder
/-!
  C13 — rendering is a deterministic function of template and data; templates are immutable.
  The model's `renderIn` IS a function of (source, store, heap), so the content here is: (1) the places
  where the Go evaluator could depend on Go's map order or mutate shared state are exactly the ones the
  model accounts for (`Gen.*Sites`, TRANSLATED from /repo on every run); (2) the frame copies that range
  over a Go map are order-irrelevant; (3) hash literals evaluate in source order; (4) the cache is
  transparent. What the model cannot exhibit is Go's map-order randomisation itself; it is quantified
  over instead (any permutation), and the oracle repeats renders to sample it.
-/
namespace Plush
open Gen

/-- every `range` in the evaluator files either walks an ordered sequence (AST children, argument lists,
    slices being written) or is one of the four copies of a context frame / data map into a fresh scope -/
def orderedRanges : List String :=
  ["f.Parameters", "c.program.Statements", "node.Elements", "node.Statements", "node.Arguments", "node.ElseIf",
   "node.Order", "node.Parameters", "ro.Value", "t", "t.Value"]
def frameCopies : List (String × String) :=
  [("PartialHelper", "data"), ("evalCallExpression", "octx.data"), ("evalForExpression", "octx.data"),
   ("evalIndexCallee", "octx.data")]

theorem C13_sites :
    (rangeSites.filter fun p => !orderedRanges.contains p.2) = frameCopies ∧
    mapKeysSites = ["evalForExpression"] := by decide

/-- hash literals are evaluated over `node.Order` (source order), not over the `Pairs` map -/
theorem C13_hash_in_source_order : ("evalHashLiteral", "node.Order") ∈ rangeSites ∧
    ¬ (("evalHashLiteral", "node.Pairs") ∈ rangeSites) := by decide

/-- executing never writes the parsed program: no assignment through an AST-typed variable, the
    `program` field is assigned only by Parse, no package-level variable is written -/
theorem C13_no_ast_writes : astWriteSites = [] ∧ programWriteSites = ["Parse"] ∧ packageVarWriteSites = [] := by
  decide

/-- copying a frame (`for k, v := range data { ctx.Set(k, v) }`) gives the same bindings whatever the
    order in which Go visits the map: the keys of a map are distinct, and then only the entry for a key
    decides what is found under it -/
theorem lookup_foldl_set (kvs : List (Bytes × Val)) : ∀ (d : List (Bytes × Val)) (k : Bytes),
    lookupKey k (kvs.foldl (fun acc kv => setKey kv.1 kv.2 acc) d) =
      match (kvs.reverse.find? fun kv => kv.1 == k) with
      | some kv => some kv.2
      | none => lookupKey k d := by
  induction kvs with
  | nil => intro d k; rfl
  | cons x rest ih =>
    intro d k
    simp only [List.foldl_cons, ih, List.reverse_cons, List.find?_append]
    cases h : (rest.reverse.find? fun kv => kv.1 == k) with
    | some kv => simp
    | none =>
      simp only [Option.none_or, List.find?_cons, List.find?_nil]
      by_cases hx : x.1 = k
      · subst hx; simp [lookupKey_setKey_self]
      · have : (x.1 == k) = false := by simpa using hx
        simp [this, lookupKey_setKey_other _ _ _ _ hx]
where
  lookupKey_setKey_self (k : Bytes) (v : Val) (l : List (Bytes × Val)) : lookupKey k (setKey k v l) = some v := by
    induction l with
    | nil => simp [setKey, lookupKey]
    | cons y r ih =>
      obtain ⟨ky, vy⟩ := y
      by_cases h : ky = k
      · subst h; simp [setKey, lookupKey]
      · simp [setKey, lookupKey, h, ih]
  lookupKey_setKey_other (k k' : Bytes) (v : Val) (l : List (Bytes × Val)) (h : k ≠ k') :
      lookupKey k' (setKey k v l) = lookupKey k' l := by
    induction l with
    | nil => simp [setKey, lookupKey, h]
    | cons y r ih =>
      obtain ⟨ky, vy⟩ := y
      by_cases h1 : ky = k
      · subst h1; simp [setKey, lookupKey, h]
      · by_cases h2 : ky = k'
        · subst h2; simp [setKey, lookupKey, h1]
        · simp [setKey, lookupKey, h1, h2, ih]

theorem find_key_perm (k : Bytes) : ∀ (l₁ l₂ : List (Bytes × Val)), l₁.Perm l₂ → (l₁.map (·.1)).Nodup →
    (l₁.find? fun kv => kv.1 == k) = (l₂.find? fun kv => kv.1 == k) := by
  intro l₁ l₂ hp
  induction hp with
  | nil => intro _; rfl
  | cons x _ ih =>
    intro hn
    simp only [List.map_cons, List.nodup_cons] at hn
    simp only [List.find?_cons]
    split
    · rfl
    · exact ih hn.2
  | swap x y l =>
    intro hn
    simp only [List.map_cons, List.nodup_cons, List.mem_cons, not_or] at hn
    simp only [List.find?_cons]
    by_cases hx : x.1 = k
    · by_cases hy : y.1 = k
      · exact absurd (hy.trans hx.symm) hn.1.1
      · have : (y.1 == k) = false := by simpa using hy
        simp [hx, this]
    · have : (x.1 == k) = false := by simpa using hx
      simp [this]
  | trans h1 _ ih1 ih2 =>
    intro hn
    rw [ih1 hn]
    exact ih2 ((h1.map _).nodup_iff.mp hn)

/-- ORDER IRRELEVANCE of the frame copies: for any two visiting orders of the same (duplicate-free) map -/
theorem C13_copy_order_irrelevant (kvs₁ kvs₂ : List (Bytes × Val)) (hp : kvs₁.Perm kvs₂)
    (hn : (kvs₁.map (·.1)).Nodup) (d : List (Bytes × Val)) (k : Bytes) :
    lookupKey k (kvs₁.foldl (fun acc kv => setKey kv.1 kv.2 acc) d) =
    lookupKey k (kvs₂.foldl (fun acc kv => setKey kv.1 kv.2 acc) d) := by
  rw [lookup_foldl_set, lookup_foldl_set]
  have hr : kvs₁.reverse.Perm kvs₂.reverse := (List.reverse_perm _).trans (hp.trans (List.reverse_perm _).symm)
  have hnr : (kvs₁.reverse.map (·.1)).Nodup := by
    rw [List.map_reverse]; exact (List.reverse_perm _).nodup_iff.mpr hn
  rw [find_key_perm k _ _ hr hnr]

-- ---------- the cache ----------

/-- `plush.Parse` with the cache: an association list from input text to parsed template -/
def cacheParse {T : Type} (parse : Bytes → Option T) (enabled : Bool) (cache : List (Bytes × T)) (input : Bytes) :
    Option T × List (Bytes × T) :=
  if !enabled then (parse input, cache)
  else match cache.find? (fun e => e.1 == input) with
    | some e => (some e.2, cache)
    | none => match parse input with
      | some t => (some t, cache ++ [(input, t)])
      | none => (none, cache)

/-- cache invariant: every entry is what a fresh parse of its key gives -/
def CacheOk {T : Type} (parse : Bytes → Option T) (cache : List (Bytes × T)) : Prop :=
  ∀ e ∈ cache, parse e.1 = some e.2

/-- TRANSPARENCY: with the cache on or off, cold or warm, Parse returns what a fresh parse returns, and
    the invariant is kept — for every history of calls -/
theorem C13_cache {T : Type} (parse : Bytes → Option T) (enabled : Bool) (cache : List (Bytes × T)) (input : Bytes)
    (h : CacheOk parse cache) :
    (cacheParse parse enabled cache input).1 = parse input ∧ CacheOk parse (cacheParse parse enabled cache input).2 := by
  unfold cacheParse
  cases enabled
  · exact ⟨rfl, h⟩
  · simp only [Bool.not_true, Bool.false_eq_true, if_false]
    cases hf : cache.find? (fun e => e.1 == input) with
    | some e =>
      have hm := List.mem_of_find?_eq_some hf
      have hk : e.1 = input := by simpa using List.find?_some hf
      exact ⟨by simp only []; rw [← hk]; exact (h e hm).symm, h⟩
    | none =>
      cases hp : parse input with
      | none => exact ⟨rfl, h⟩
      | some t =>
        refine ⟨rfl, ?_⟩
        intro e he
        rcases List.mem_append.mp he with he | he
        · exact h e he
        · simp at he; subst he; exact hp

theorem C13_cache_history {T : Type} (parse : Bytes → Option T) (enabled : Bool) :
    ∀ (inputs : List Bytes) (cache : List (Bytes × T)), CacheOk parse cache →
      ∀ input, (cacheParse parse enabled (inputs.foldl (fun c i => (cacheParse parse enabled c i).2) cache) input).1
        = parse input := by
  intro inputs
  induction inputs with
  | nil => intro cache h input; exact (C13_cache parse enabled cache input h).1
  | cons i rest ih =>
    intro cache h input
    exact ih _ (C13_cache parse enabled cache i h).2 input

/-! ### Evaluator-wide: template sources are immutable (proof in `PlushProofs/Lib/EvalKeepsFeeder.lean`) -/

/-- EVALUATION NEVER MODIFIES THE TEMPLATE SOURCES IT RENDERS FROM: the partial feeder (the model's stand-in for
    the templates a render can reach) is the same after any evaluator function as before it — on success, on
    error, on a fatal outcome; for every program, data and fuel. (The parsed program itself is an immutable
    value in the model; that the Go evaluator does not write to AST nodes is the generated fact
    `Gen.astWriteSites`, re-translated from /repo on every run.) -/
theorem C13_sources_immutable (fuel : Nat) : AllKF fuel := allKF fuel

/-- instance: a whole render -/
theorem C13_render_keeps_sources (fuel : Nat) (src : Bytes) (ctx : Nat) (s : ES) :
    (renderIn fuel src ctx s).2.feeder = s.feeder := ((allKF fuel).renderIn src ctx).same s

end Plush
