import PlushModel
import PlushProofs.Lib.LexerTotal
import PlushProofs.Lib.ParserTotalProof
/-!
  C03 — parsing is total. Theorems over the model of lexer + parser (PlushModel/Lexer.lean,
  PlushModel/Parser.lean), which the `parse-tok` / `parse-text` correspondence streams tie to /repo.
-/
namespace Plush

/-- The token stream is total: `n` calls of `NextToken` give `n` tokens, whatever the input. -/
theorem C03_lexN_length (n : Nat) (l : LX) : (lexN n l).length = n := by
  induction n generalizing l with
  | zero => rfl
  | succ n ih => simp [lexN, ih]

/-- After the input is exhausted (outside a tag, NUL sentinel) the lexer returns EOF and stays put
    — `lexer.go:35-40`; this is what every parser loop relies on to stop. -/
theorem C03_lexer_eof_stable (l : LX) (h : l.inside = false) (hc : l.ch = 0) :
    l.nextToken = ({ type := .EOF, lit := [], line := l.line }, l) := by
  simp [LX.nextToken, h, hc]

/-- A comment is skipped up to `%>` *or EOF* (the loop that used to hang): from an EOF token the
    comment loop returns at once, for any fuel ≥ 1. -/
theorem C03_comment_stops_at_eof (fuel : Nat) (s : PS) (h : (P.tokAt s s.pos).type = .EOF) :
    (P.commentLoop (fuel + 1)).run s = .ok (some (.str (P.tokAt s s.pos) []), s) := by
  simp [P.commentLoop, P.cur, h, bind, StateT.bind, StateT.run, get, getThe, MonadStateOf.get,
    StateT.get, pure, StateT.pure, Except.pure, Except.bind]

/-- An infix function is never applied to a missing left operand: it reports a syntax error and
    returns no node (this was the nil dereference of parseCallExpression / parseIndexExpression). -/
theorem C03_call_nil_left (fuel : Nat) (s : PS) :
    (P.runInfix (fuel + 1) .parseCallExpression none).run s =
      .ok (none, { s with errs := s.errs.push { line := some (P.tokAt s s.pos).line, kind := "nothing-to-call" } }) := by
  simp [P.runInfix, P.cur, P.errHere, P.addErr, bind, StateT.bind, StateT.run, get, getThe, MonadStateOf.get,
    StateT.get, pure, StateT.pure, Except.pure, Except.bind, modify, modifyGet, MonadStateOf.modifyGet,
    StateT.modifyGet]

theorem C03_index_nil_left (fuel : Nat) (s : PS) :
    (P.runInfix (fuel + 1) .parseIndexExpression none).run s =
      .ok (none, { s with errs := s.errs.push { line := some (P.tokAt s s.pos).line, kind := "nothing-to-index" } }) := by
  simp [P.runInfix, P.cur, P.errHere, P.addErr, bind, StateT.bind, StateT.run, get, getThe, MonadStateOf.get,
    StateT.get, pure, StateT.pure, Except.pure, Except.bind, modify, modifyGet, MonadStateOf.modifyGet,
    StateT.modifyGet]

/-! ### Theorem A — the scanner is total on every byte string (proofs in `PlushProofs/Lib/LexerTotal.lean`) -/

/-- NO PANIC IN THE LEXER, for every input and any number of `NextToken` calls: no slice expression of
    `lexer.go` (`readIdentifier`, `readNumber`, `readString`, `readBString`, `readHTML`) is ever out of range. -/
theorem C03_lexer_never_out_of_range (input : Array UInt8) (n : Nat) : lexCrashed n (LX.new input) = false :=
  lexCrashed_false n _ (LX.new_wf input)

/-- NO HANG IN THE LEXER: every `NextToken` call keeps the state invariant and, unless the scan is over
    (NUL sentinel outside a tag, or past the input), consumes at least one byte — so every scanning loop
    of `lexer.go` terminates, and the model's loop budgets (`size + 2`) are never what stops a loop. -/
theorem C03_lexer_progress (l : LX) (w : l.WF) :
    l.nextToken.2.WF ∧ l.nextToken.2.input = l.input ∧ l.pos ≤ l.nextToken.2.pos ∧
      (¬ l.Done → l.pos < l.nextToken.2.pos) :=
  ⟨(LX.nextToken_spec l w).1.wf, (LX.nextToken_spec l w).1.input, (LX.nextToken_spec l w).1.pos, (LX.nextToken_spec l w).2⟩

/-- THE STREAM ENDS: from token number `len(input) + 1` on, `NextToken` returns one and the same EOF token
    for ever — the fact every parser loop that tests for EOF relies on. -/
theorem C03_lexer_stream_ends (input : Array UInt8) (k : Nat) (hk : input.size + 1 ≤ k) :
    tokenAt k (LX.new input) = tokenAt (input.size + 1) (LX.new input) ∧ (tokenAt k (LX.new input)).type = .EOF :=
  stream_tail_eof input k hk

/-- The parser model reads the finite array `lexAll input` and repeats its last element: that is exactly the
    unbounded token stream of the lexer, at every index. -/
theorem C03_parser_reads_true_stream (input : Array UInt8) (i : Nat) :
    (lexAll input).getD i ((lexAll input).back?.getD { type := .EOF, lit := [], line := 1 }) = tokenAt i (LX.new input) :=
  lexAll_is_stream input i

/-- non-vacuity: the invariant holds initially, and a state in the middle of a tag is not `Done` -/
example : (LX.new #[60, 37, 61, 32, 97, 32, 37, 62]).WF ∧ ¬ (LX.new #[60, 37, 61, 32, 97, 32, 37, 62]).Done := by
  refine ⟨LX.new_wf _, ?_⟩
  intro h
  rcases h with ⟨_, h⟩ | h
  · exact absurd h (by decide)
  · exact absurd h (by decide)

/-! ### Theorem B — the parser terminates on every input (proofs in `PlushProofs/Lib/ParserTotalProof.lean`) -/

/-- PARSING IS TOTAL ON EVERY TOKEN STREAM that ends in EOF: the model of `parser.Parse` returns a program and
    an error list. Its recursion-depth budget (`parseFuel`, linear in the number of tokens) is never exhausted —
    `outOfFuel`, the model's stand-in for a hang or an unbounded recursion, is unreachable — because every cycle
    of the twenty mutually recursive parse functions consumes a token, and every loop stops at EOF. -/
theorem C03_parser_total_tokens (toks : Array Token)
    (h : (toks.back?.getD { type := .EOF, lit := [], line := 1 }).type = .EOF) :
    ∃ prog errs, parseToks toks = .ok (prog, errs) := by
  obtain ⟨r, hr⟩ := parseToks_total toks h
  exact ⟨r.1, r.2, hr⟩

/-- PARSING IS TOTAL ON EVERY SOURCE TEXT (lexer and parser together): for every byte string the model of
    `plush.Parse` yields a program or a list of syntax errors; never a crash, never a hang. -/
theorem C03_parse_total (src : Bytes) : ∃ prog errs, parseBytes src = .ok (prog, errs) := by
  obtain ⟨r, hr⟩ := parseBytes_total src
  exact ⟨r.1, r.2, hr⟩

end Plush
