import PlushModel
/-!
  C03 — parsing is total. Theorems over the model of lexer + parser (PlushModel/Lexer.lean,
  PlushModel/Parser.lean), which the `parse-tok` / `parse-text` correspondence streams tie to /repo.
-/
namespace Plush

/-- The token stream is total: `n` calls of `NextToken` give `n` tokens, whatever the input. -/
theorem C03_lexN_length (n : Nat) (l : LX) : (lexN n l).length = n := by
  induction n generalizing l with
  | zero => rfl
  | succ n ih => simp [lexN, ih]

/-- After the input is exhausted (outside a tag, NUL sentinel) the lexer returns EOF and stays put
    — `lexer.go:35-40`; this is what every parser loop relies on to stop. -/
theorem C03_lexer_eof_stable (l : LX) (h : l.inside = false) (hc : l.ch = 0) :
    l.nextToken = ({ type := .EOF, lit := [], line := l.line }, l) := by
  simp [LX.nextToken, h, hc]

/-- A comment is skipped up to `%>` *or EOF* (the loop that used to hang): from an EOF token the
    comment loop returns at once, for any fuel ≥ 1. -/
theorem C03_comment_stops_at_eof (fuel : Nat) (s : PS) (h : (P.tokAt s s.pos).type = .EOF) :
    (P.commentLoop (fuel + 1)).run s = .ok (some (.str (P.tokAt s s.pos) []), s) := by
  simp [P.commentLoop, P.cur, h, bind, StateT.bind, StateT.run, get, getThe, MonadStateOf.get,
    StateT.get, pure, StateT.pure, Except.pure, Except.bind]

/-- An infix function is never applied to a missing left operand: it reports a syntax error and
    returns no node (this was the nil dereference of parseCallExpression / parseIndexExpression). -/
theorem C03_call_nil_left (fuel : Nat) (s : PS) :
    (P.runInfix (fuel + 1) .parseCallExpression none).run s =
      .ok (none, { s with errs := s.errs.push { line := some (P.tokAt s s.pos).line, kind := "nothing-to-call" } }) := by
  simp [P.runInfix, P.cur, P.errHere, P.addErr, bind, StateT.bind, StateT.run, get, getThe, MonadStateOf.get,
    StateT.get, pure, StateT.pure, Except.pure, Except.bind, modify, modifyGet, MonadStateOf.modifyGet,
    StateT.modifyGet]

theorem C03_index_nil_left (fuel : Nat) (s : PS) :
    (P.runInfix (fuel + 1) .parseIndexExpression none).run s =
      .ok (none, { s with errs := s.errs.push { line := some (P.tokAt s s.pos).line, kind := "nothing-to-index" } }) := by
  simp [P.runInfix, P.cur, P.errHere, P.addErr, bind, StateT.bind, StateT.run, get, getThe, MonadStateOf.get,
    StateT.get, pure, StateT.pure, Except.pure, Except.bind, modify, modifyGet, MonadStateOf.modifyGet,
    StateT.modifyGet]

end Plush
