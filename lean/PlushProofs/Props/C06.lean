import PlushModel
import PlushProofs.Lib.PrattRoundTrip
/-!
  C06 — operators, precedence and associativity. The precedence table, the five operator tables and
  the list of tolerant operators are TRANSLATED from /repo (Gen/Precedences.lean, Gen/Operators.lean),
  so these theorems are re-proved against the source on every run.
-/
namespace Plush
open Gen EM

/-- documented order: ! > * / > + - > < <= > >= > == != ~= > && ||  (and call/index bind tightest) -/
theorem C06_table :
    P.precOf .ASTERISK = P.precOf .SLASH ∧ P.precOf .PLUS = P.precOf .MINUS ∧
    P.precOf .LT = P.precOf .LTEQ ∧ P.precOf .LT = P.precOf .GT ∧ P.precOf .LT = P.precOf .GTEQ ∧
    P.precOf .EQ = P.precOf .NOT_EQ ∧ P.precOf .EQ = P.precOf .MATCHES ∧ P.precOf .AND = P.precOf .OR ∧
    PREFIX > P.precOf .ASTERISK ∧ P.precOf .ASTERISK > P.precOf .PLUS ∧ P.precOf .PLUS > P.precOf .LT ∧
    P.precOf .LT > P.precOf .EQ ∧ P.precOf .EQ > P.precOf .AND ∧ P.precOf .AND > LOWEST ∧
    P.precOf .LPAREN > PREFIX ∧ P.precOf .LBRACKET > P.precOf .LPAREN := by decide

/-- every token that is not an operator has the lowest precedence (it ends an expression) -/
theorem C06_non_operators_lowest :
    ∀ t ∈ [TT.RPAREN, .RBRACE, .RBRACKET, .COMMA, .COLON, .SEMICOLON, .E_END, .EOF, .ASSIGN, .IDENT, .INT, .STRING],
      P.precOf t = LOWEST := by decide

/-- binary operators are registered as infix, `!` as prefix -/
theorem C06_registered :
    (∀ t ∈ [TT.PLUS, .MINUS, .SLASH, .ASTERISK, .EQ, .NOT_EQ, .MATCHES, .LT, .GT, .LTEQ, .GTEQ, .AND, .OR],
      P.lookupLast t infixFns = some .parseInfixExpression) ∧
    P.lookupLast .BANG prefixFns = some .parsePrefixExpression ∧
    P.lookupLast .LPAREN prefixFns = some .parseGroupedExpression := by decide

/-- integer operators: wrap-around + - *, truncated division with a zero test, the six comparisons -/
theorem C06_ops_int (l r : Int) :
    intsOperator [43] l r = .int (wrap64 (l + r)) ∧ intsOperator [45] l r = .int (wrap64 (l - r)) ∧
    intsOperator [42] l r = .int (wrap64 (l * r)) ∧
    intsOperator [47] l r = (if r == 0 then .divZero else .int (wrap64 (Int.tdiv l r))) ∧
    intsOperator [60] l r = .bool (decide (l < r)) ∧ intsOperator [60, 61] l r = .bool (decide (l ≤ r)) ∧
    intsOperator [62] l r = .bool (decide (l > r)) ∧ intsOperator [62, 61] l r = .bool (decide (l ≥ r)) ∧
    intsOperator [61, 61] l r = .bool (l == r) ∧ intsOperator [33, 61] l r = .bool (l != r) ∧
    intsOperator [126, 61] l r = .unknownOp ∧ intsOperator [38, 38] l r = .unknownOp := by
  simp [intsOperator, goDiv]

theorem C06_ops_float (l r : Dyadic) :
    floatsOperator [43] l r = .float (Dyadic.add l r) ∧ floatsOperator [45] l r = .float (Dyadic.sub l r) ∧
    floatsOperator [42] l r = .float (Dyadic.mul l r) ∧
    floatsOperator [47] l r = (if Dyadic.isZero r then .divZero else .floatDiv l r) ∧
    floatsOperator [60] l r = .bool (Dyadic.lt l r) ∧ floatsOperator [62] l r = .bool (Dyadic.lt r l) ∧
    floatsOperator [60, 61] l r = .bool (!Dyadic.lt r l) ∧ floatsOperator [62, 61] l r = .bool (!Dyadic.lt l r) ∧
    floatsOperator [61, 61] l r = .bool (l == r) ∧ floatsOperator [33, 61] l r = .bool (l != r) := by
  simp [floatsOperator]

/-- strings: `+` concatenates (the right operand is the printed form of x), comparisons are bytewise -/
theorem C06_ops_string (l r : Bytes) :
    stringsOperator [43] l r = .str (l ++ r) ∧
    stringsOperator [60] l r = .bool (bytesLt l r) ∧ stringsOperator [62] l r = .bool (bytesLt r l) ∧
    stringsOperator [60, 61] l r = .bool (!bytesLt r l) ∧ stringsOperator [62, 61] l r = .bool (!bytesLt l r) ∧
    stringsOperator [61, 61] l r = .bool (l == r) ∧ stringsOperator [33, 61] l r = .bool (l != r) ∧
    stringsOperator [45] l r = .unknownOp ∧ stringsOperator [42] l r = .unknownOp ∧ stringsOperator [47] l r = .unknownOp := by
  simp [stringsOperator]

theorem C06_ops_bool (l r : Bool) :
    boolsOperator [61, 61] l r = .bool (l == r) ∧ boolsOperator [33, 61] l r = .bool (l != r) ∧
    boolsOperator [60] l r = .unknownOp ∧ boolsOperator [45] l r = .unknownOp := by
  simp [boolsOperator]

theorem C06_ops_nil (bn : Bool) :
    nilsOperator [61, 61] bn = .bool bn ∧ nilsOperator [33, 61] bn = .bool (!bn) ∧
    nilsOperator [43] bn = .unknownOp ∧ nilsOperator [60] bn = .unknownOp := by
  simp [nilsOperator]

/-- division by zero and unknown operators are errors; nothing else in the tables is -/
theorem C06_errors_are_errors (k : String) (s : ES) :
    applyOpOut .divZero k s = (.err { kind := "division-by-zero" }, s) ∧
    applyOpOut .unknownOp k s = (.err { kind := "unknown-operator-" ++ k }, s) := by
  simp [applyOpOut, fail, throwErr]

/-- operand-type mismatch (int with a non-int, float with a non-float, string compared with a non-string)
    is an error — shown here for the int-left row; `string + x` is the documented exception -/
theorem C06_mismatch_int_left (fuel : Nat) (l r : Option Expr) (s s1 s2 : ES) (i : Int) (rv : Val)
    (hl : evalExpr fuel l s = (.ok (.int i), s1)) (hr : evalExpr fuel r s1 = (.ok rv, s2))
    (hnil : rv.isNil = false) (hint : ∀ j, rv ≠ .int j) :
    evalInfix (fuel + 1) [60] l r s = (.err { kind := "unable-to-operate" }, s2) := by
  simp only [evalInfix, bind, attempt, getS, hl, hr, pure]
  cases rv <;> simp_all [applyInfix, Val.isNil, fail, throwErr, tolerantOps]

/-- `&&` and `||` short-circuit: a falsy (truthy) left operand decides the result and the right operand
    is not evaluated — it does not occur on the right-hand side and the state is the one after the left -/
theorem C06_short_circuit_and (fuel : Nat) (l r : Option Expr) (s s1 : ES) (v : Val)
    (hl : evalExpr fuel l s = (.ok v, s1)) (hf : isTruthy v = false) :
    evalInfix (fuel + 1) [38, 38] l r s = (.ok (.bool false), s1) := by
  simp [evalInfix, bind, attempt, getS, hl, pure, hf]

theorem C06_short_circuit_or (fuel : Nat) (l r : Option Expr) (s s1 : ES) (v : Val)
    (hl : evalExpr fuel l s = (.ok v, s1)) (ht : isTruthy v = true) :
    evalInfix (fuel + 1) [124, 124] l r s = (.ok (.bool true), s1) := by
  simp [evalInfix, bind, attempt, getS, hl, pure, ht, tolerantOps]

/-- integer division truncates towards zero (Go), e.g. -7 / 2 = -3, and MinInt64 / -1 wraps -/
example : intsOperator [47] (-7) 2 = .int (-3) ∧ intsOperator [47] 7 (-2) = .int (-3) ∧
    intsOperator [47] minInt (-1) = .int minInt ∧ intsOperator [47] 1 0 = .divZero := by decide

/-- COMPOSITIONALITY: a binary node evaluates its left operand, then its right operand (in the state the left
    one left), and applies the operator's table entry to the two values — for every operator except the
    short-circuiting `&&` / `||` (theorems `C06_short_circuit_*`). With Theorem C (the tree IS the documented
    grouping) and the tables `C06_ops_*` this is the reference evaluator of the property. -/
theorem C06_binary_compositional (fuel : Nat) (t : Token) (op : Bytes) (l r : Option Expr) (s s1 s2 : ES) (lv rv : Val)
    (hl : evalExpr fuel l s = (.ok lv, s1)) (hr : evalExpr fuel r s1 = (.ok rv, s2))
    (hop : op ≠ [38, 38] ∧ op ≠ [124, 124]) :
    evalExpr (fuel + 2) (some (.inf t op l r)) s = applyInfix op lv rv s2 := by
  simp [evalExpr, evalInfix, bind, attempt, getS, hl, hr, pure, hop.1, hop.2]

/-- … and when `&&` (`||`) does not short-circuit, its value is the truth value of the right operand -/
theorem C06_logical_right (fuel : Nat) (t : Token) (l r : Option Expr) (s s1 s2 : ES) (lv rv : Val)
    (hl : evalExpr fuel l s = (.ok lv, s1)) (hr : evalExpr fuel r s1 = (.ok rv, s2)) :
    (isTruthy lv = true → evalExpr (fuel + 2) (some (.inf t [38, 38] l r)) s = (.ok (.bool (isTruthy rv)), s2)) ∧
    (isTruthy lv = false → evalExpr (fuel + 2) (some (.inf t [124, 124] l r)) s = (.ok (.bool (isTruthy rv)), s2)) := by
  constructor <;> intro h <;> simp [evalExpr, evalInfix, bind, attempt, getS, hl, hr, pure, h, tolerantOps]

/-! ### Theorem C — Pratt round trip on the parser model (proof in `PlushProofs/Lib/PrattRoundTrip.lean`) -/
section Pratt
open P

/-- PRECEDENCE AND ASSOCIATIVITY, FOR EVERY EXPRESSION TREE. Take any tree over atoms (identifiers, integer,
    string and boolean literals), registered binary operators, prefix operators (`!`, `-`), index expressions
    `a[i]`, `a[i][j]`, `f(x)[i]` (any expression as the index; an atom, an index or a call as the indexed operand) and
    calls `f()`, `f(a, b, …)` of a plain function name and array literals `[]`, `[a, b, …]` with ANY number of
    arguments / elements, each any expression of the fragment; print it with the minimal parentheses that the
    precedence table and LEFT associativity require (left operand at the operator's level, right operand one level
    tighter, the operand of a prefix operator tighter than every binary operator); put the tokens anywhere in a token array, followed by a token of lowest binding power. Then
    `parseExpression` at the lowest precedence returns exactly that tree, leaves the cursor on the expression's last
    token and changes nothing else. Since the grouping of the printed form is unique, the parser's grouping IS the
    documented one: tighter operators first, equal levels left to right, `&&`/`||` on one level (table `C06_table`). -/
theorem C06_pratt_round_trip (e : PE) (s : PS) (f : Nat) (hwf : e.WF) (eo : EofOK s)
    (hat : At s s.pos (pr (Gen.LOWEST + 1) e))
    (hnext : precOf (tokAt s (s.pos + (pr (Gen.LOWEST + 1) e).length)).type = Gen.LOWEST)
    (hna : (tokAt s (s.pos + (pr (Gen.LOWEST + 1) e).length)).type ≠ .ASSIGN)
    (hnd : (tokAt s (s.pos + (pr (Gen.LOWEST + 1) e).length)).type ≠ .DOT)
    (hnb : (tokAt s (s.pos + (pr (Gen.LOWEST + 1) e).length)).type ≠ .LBRACE)
    (hf : 14 + P.C * rem s ≤ f) :
    parseExpression f Gen.LOWEST s = .ok (some e.toExpr, s.at (s.pos + (pr (Gen.LOWEST + 1) e).length - 1)) :=
  parse_print e s f hwf eo hat hnext hna hnd hnb hf

/-- flat left-associative chain: a o1 b o2 c with equal binding power prints without parentheses as the LEFT-nested tree -/
theorem C06_print_left_assoc (o1 o2 lp rp a b c : Token) (xa xb xc : Expr) (h : precOf o1.type = precOf o2.type)
    (hl : Gen.LOWEST < precOf o2.type) :
    pr (Gen.LOWEST + 1) (.bin o2 lp rp (.bin o1 lp rp (.atom a xa) (.atom b xb)) (.atom c xc)) = [a, o1, b, o2, c] := by
  have h1 : ¬ precOf o2.type < Gen.LOWEST + 1 := by omega
  have h2 : ¬ precOf o1.type < precOf o2.type := by omega
  simp [pr, h1, h2]

/-- the RIGHT-nested tree of the same operators needs parentheses -/
theorem C06_print_right_nested (o1 o2 lp rp a b c : Token) (xa xb xc : Expr) (h : precOf o1.type = precOf o2.type)
    (hl : Gen.LOWEST < precOf o2.type) :
    pr (Gen.LOWEST + 1) (.bin o1 lp rp (.atom a xa) (.bin o2 lp rp (.atom b xb) (.atom c xc))) = [a, o1, lp, b, o2, c, rp] := by
  have h1 : ¬ precOf o1.type < Gen.LOWEST + 1 := by omega
  have h2 : precOf o2.type < precOf o1.type + 1 := by omega
  simp [pr, h1, h2]

/-- a tighter operator on the right groups first: a o1 b o2 c with prec o1 < prec o2 is a o1 (b o2 c) -/
theorem C06_print_tighter_right (o1 o2 lp rp a b c : Token) (xa xb xc : Expr) (h : precOf o1.type < precOf o2.type)
    (hl : Gen.LOWEST < precOf o1.type) :
    pr (Gen.LOWEST + 1) (.bin o1 lp rp (.atom a xa) (.bin o2 lp rp (.atom b xb) (.atom c xc))) = [a, o1, b, o2, c] := by
  have h1 : ¬ precOf o1.type < Gen.LOWEST + 1 := by omega
  have h2 : ¬ precOf o2.type < precOf o1.type + 1 := by omega
  simp [pr, h1, h2]



/-- a prefix operator binds tighter than every binary operator: `! a == b` is `(!a) == b` … -/
theorem C06_print_prefix_binds_tighter (o1 o2 lp rp a b : Token) (xa xb : Expr)
    (h2 : lookupLast o2.type Gen.infixFns = some .parseInfixExpression) (hl : Gen.LOWEST < precOf o2.type) :
    pr (Gen.LOWEST + 1) (.bin o2 lp rp (.pre o1 (.atom a xa)) (.atom b xb)) = [o1, a, o2, b] := by
  have h1 : ¬ precOf o2.type < Gen.LOWEST + 1 := by omega
  simp [pr, h1]

/-- … while negating the comparison needs parentheses: `! (a == b)` -/
theorem C06_print_prefix_of_binary (o1 o2 lp rp a b : Token) (xa xb : Expr)
    (h2 : lookupLast o2.type Gen.infixFns = some .parseInfixExpression) :
    pr (Gen.LOWEST + 1) (.pre o1 (.bin o2 lp rp (.atom a xa) (.atom b xb))) = [o1, lp, a, o2, b, rp] := by
  have := infix_prec_le h2
  have h1 : precOf o2.type < Gen.PREFIX + 1 := by omega
  simp [pr, h1]

/-! non-vacuity: `1 - 2 - 3 %>` meets every hypothesis of the round trip and parses as `(1 - 2) - 3` -/
def tI (n : UInt8) : Token := { type := .INT, lit := [n], line := 1 }
def tMinus : Token := { type := .MINUS, lit := [45], line := 1 }
def tStar : Token := { type := .ASTERISK, lit := [42], line := 1 }
def tEnd : Token := { type := .E_END, lit := [37, 62], line := 1 }
def tEOF : Token := { type := .EOF, lit := [], line := 1 }
def sDemo : PS := { toks := #[tI 49, tMinus, tI 50, tMinus, tI 51, tEnd], eof := tEOF }

def tLP : Token := { type := .LPAREN, lit := [40], line := 1 }
def tRP : Token := { type := .RPAREN, lit := [41], line := 1 }
def a1 : PE := .atom (tI 49) (.int (tI 49) 1)
def a2 : PE := .atom (tI 50) (.int (tI 50) 2)
def a3 : PE := .atom (tI 51) (.int (tI 51) 3)
def eDemo : PE := .bin tMinus tLP tRP (.bin tMinus tLP tRP a1 a2) a3

-- 1 - 2 - 3 %>   parses as (1 - 2) - 3: the hypotheses of the round-trip theorem are satisfiable
example : parseExpression 400 Gen.LOWEST sDemo = .ok (some eDemo.toExpr, sDemo.at 4) := by
  have hwf : eDemo.WF := by
    refine ⟨by decide, by decide, rfl, rfl, ⟨by decide, by decide, rfl, rfl, ?_, ?_⟩, ?_⟩ <;> rfl
  have hpr : pr (Gen.LOWEST + 1) eDemo = [tI 49, tMinus, tI 50, tMinus, tI 51] := by
    apply C06_print_left_assoc <;> decide
  have := parse_print eDemo sDemo 400 hwf rfl
    (by rw [hpr]; intro k hk; rcases k with _|_|_|_|_|k <;> first | rfl | (simp at hk; omega))
    (by rw [hpr]; decide) (by rw [hpr]; decide) (by rw [hpr]; decide) (by rw [hpr]; decide) (by decide)
  rw [hpr] at this
  exact this

/-! non-vacuity for index expressions: `- a[1 - 2][3] * b %>` parses as `(-(a[1 - 2][3])) * b` -/
def tId (c : UInt8) : Token := { type := .IDENT, lit := [c], line := 1 }
def tLB : Token := { type := .LBRACKET, lit := [91], line := 1 }
def tRB : Token := { type := .RBRACKET, lit := [93], line := 1 }
def aA : PE := .atom (tId 97) (.ident { tok := tId 97, segs := [[97]] })
def aB : PE := .atom (tId 98) (.ident { tok := tId 98, segs := [[98]] })
def eIdx : PE := .bin tStar tLP tRP (.pre tMinus (.idx tLB tRB (.idx tLB tRB aA (.bin tMinus tLP tRP a1 a2)) a3)) aB
def sIdx : PS := { toks := #[tMinus, tId 97, tLB, tI 49, tMinus, tI 50, tRB, tLB, tI 51, tRB, tStar, tId 98, tEnd], eof := tEOF }

example : parseExpression 1000 Gen.LOWEST sIdx = .ok (some eIdx.toExpr, sIdx.at 11) := by
  have hwf : eIdx.WF := by
    refine ⟨by decide, by decide, rfl, rfl, ⟨by decide, rfl, rfl, rfl, ⟨rfl, rfl, rfl, ?_, ⟨by decide, by decide, rfl, rfl, ?_, ?_⟩⟩, ?_⟩, ?_⟩ <;> rfl
  have hpr : pr (Gen.LOWEST + 1) eIdx = [tMinus, tId 97, tLB, tI 49, tMinus, tI 50, tRB, tLB, tI 51, tRB, tStar, tId 98] := by
    decide
  have := parse_print eIdx sIdx 1000 hwf rfl
    (by rw [hpr]; intro k hk; rcases k with _|_|_|_|_|_|_|_|_|_|_|_|k <;> first | rfl | (simp at hk; omega))
    (by rw [hpr]; decide) (by rw [hpr]; decide) (by rw [hpr]; decide) (by rw [hpr]; decide) (by decide)
  rw [hpr] at this
  exact this

/-! non-vacuity for calls: `f(1 - 2, a[3], g())[1] * b %>` parses as `(f((1 - 2), a[3], g())[1]) * b` -/
def tComma : Token := { type := .COMMA, lit := [44], line := 1 }
def cG : PE := .call0 (tId 103) tLP tRP
def cF : PE := .call (tId 102) tLP tRP (.acons (.bin tMinus tLP tRP a1 a2) tComma (.acons (.idx tLB tRB aA a3) tComma (.aone cG)))
def eCall : PE := .bin tStar tLP tRP (.idx tLB tRB cF a1) aB
def sCall : PS := { toks := #[tId 102, tLP, tI 49, tMinus, tI 50, tComma, tId 97, tLB, tI 51, tRB, tComma, tId 103, tLP, tRP, tRP,
    tLB, tI 49, tRB, tStar, tId 98, tEnd], eof := tEOF }

example : parseExpression 2000 Gen.LOWEST sCall = .ok (some eCall.toExpr, sCall.at 19) := by
  have hwf : eCall.WF := by
    refine ⟨by decide, by decide, rfl, rfl, ⟨rfl, rfl, rfl, ⟨rfl, by decide, rfl, rfl, ?_⟩, rfl⟩, rfl⟩
    refine ⟨⟨by decide, by decide, rfl, rfl, rfl, rfl⟩, rfl, ⟨rfl, rfl, rfl, rfl, rfl⟩, rfl, ?_⟩
    exact ⟨rfl, by decide, rfl, rfl⟩
  have hpr : pr (Gen.LOWEST + 1) eCall = [tId 102, tLP, tI 49, tMinus, tI 50, tComma, tId 97, tLB, tI 51, tRB, tComma, tId 103,
      tLP, tRP, tRP, tLB, tI 49, tRB, tStar, tId 98] := by
    decide
  have := parse_print eCall sCall 2000 hwf rfl
    (by rw [hpr]; intro k hk
        rcases k with _|_|_|_|_|_|_|_|_|_|_|_|_|_|_|_|_|_|_|_|k <;> first | rfl | (simp at hk; omega))
    (by rw [hpr]; decide) (by rw [hpr]; decide) (by rw [hpr]; decide) (by rw [hpr]; decide) (by decide)
  rw [hpr] at this
  exact this

/-! non-vacuity for array literals: `[1, a[2], g()][1] - 3 %>` parses as `([1, a[2], g()][1]) - 3` -/
def eArr : PE := .bin tMinus tLP tRP (.idx tLB tRB (.arr tLB tRB (.acons a1 tComma (.acons (.idx tLB tRB aA a2) tComma (.aone cG)))) a1) a3
def sArrToks : Array Token := #[tLB, tI 49, tComma, tId 97, tLB, tI 50, tRB, tComma, tId 103, tLP, tRP, tRB, tLB, tI 49, tRB,
  tMinus, tI 51, tEnd]
def sArr : PS := { toks := sArrToks, eof := tEOF }

example : parseExpression 2000 Gen.LOWEST sArr = .ok (some eArr.toExpr, sArr.at 16) := by
  have hwf : eArr.WF := by
    refine ⟨by decide, by decide, rfl, rfl, ⟨rfl, rfl, rfl, ⟨rfl, rfl, ?_⟩, rfl⟩, rfl⟩
    exact ⟨rfl, rfl, ⟨rfl, rfl, rfl, rfl, rfl⟩, rfl, ⟨rfl, by decide, rfl, rfl⟩⟩
  have hpr : pr (Gen.LOWEST + 1) eArr = [tLB, tI 49, tComma, tId 97, tLB, tI 50, tRB, tComma, tId 103, tLP, tRP, tRB, tLB, tI 49,
      tRB, tMinus, tI 51] := by
    decide
  have := parse_print eArr sArr 2000 hwf rfl
    (by rw [hpr]; intro k hk
        rcases k with _|_|_|_|_|_|_|_|_|_|_|_|_|_|_|_|_|k <;> first | rfl | (simp at hk; omega))
    (by rw [hpr]; decide) (by rw [hpr]; decide) (by rw [hpr]; decide) (by rw [hpr]; decide) (by decide)
  rw [hpr] at this
  exact this

end Pratt

end Plush
