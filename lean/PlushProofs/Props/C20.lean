import PlushModel
/-!
  C20 — truncate bound, escaping completeness. Theorems about the model of helpers/text/truncate.go
  (line by line) and of the escapers plush delegates to (`text/template.HTMLEscape`, `JSEscape` on
  ASCII) — the standard-library part is a MODEL tied by the `helper` correspondence stream only.
-/
namespace Plush

-- ---------- truncate ----------

theorem runes_encodeRunes_take_length (rs : List Nat) (k : Nat) : (rs.take k).length ≤ k := by
  simp [List.length_take]; omega

/-- unchanged when it has at most `size` characters -/
theorem C20_trunc_id (s : Bytes) (size : Int) (trail : Bytes) (h : ((runes s).length : Int) ≤ size) :
    truncate s size trail = s := by
  simp [truncate, h]

/-- otherwise: a prefix of the runes of `s`, then the trail … -/
theorem C20_trunc_shape (s : Bytes) (size : Int) (trail : Bytes) (h : ¬ ((runes s).length : Int) ≤ size) :
    truncate s size trail = trail ∨
    truncate s size trail = encodeRunes ((runes s).take (size - (runes trail).length).toNat) ++ trail := by
  unfold truncate
  simp only [h, if_false]
  by_cases h2 : ((runes trail).length : Int) ≥ size
  · left; simp [h2]
  · right; simp [h2]

/-- the number of runes kept in front of the trail (0 when the trail alone is returned) -/
def keptRunes (s : Bytes) (size : Int) (trail : Bytes) : Nat :=
  if ((runes s).length : Int) ≤ size then (runes s).length
  else if ((runes trail).length : Int) ≥ size then 0
  else (size - (runes trail).length).toNat

/-- … totalling at most max(size, length of trail) characters: kept + |trail| ≤ max(size, |trail|) -/
theorem C20_trunc_bound (s : Bytes) (size : Int) (trail : Bytes) (h : ¬ ((runes s).length : Int) ≤ size) :
    ((keptRunes s size trail : Nat) : Int) + (runes trail).length ≤ max size (runes trail).length := by
  unfold keptRunes
  simp only [h, if_false]
  by_cases h2 : ((runes trail).length : Int) ≥ size
  · simp only [h2, if_true]; omega
  · simp only [h2, if_false]; omega

-- ---------- htmlEscape ----------

def isHtmlSpecial (c : UInt8) : Bool := c == 60 || c == 62 || c == 38 || c == 39 || c == 34

/-- the escaper produces no < > ' " at all -/
theorem htmlEscapeByte_safe (c : UInt8) : ∀ x ∈ htmlEscapeByte c, x ≠ 60 ∧ x ≠ 62 ∧ x ≠ 39 ∧ x ≠ 34 := by
  intro x hx
  unfold htmlEscapeByte at hx
  split at hx
  · simp at hx; rcases hx with rfl | rfl | rfl <;> decide
  split at hx
  · simp at hx; rcases hx with rfl | rfl | rfl | rfl | rfl <;> decide
  split at hx
  · simp at hx; rcases hx with rfl | rfl | rfl | rfl | rfl <;> decide
  split at hx
  · simp at hx; rcases hx with rfl | rfl | rfl | rfl | rfl <;> decide
  split at hx
  · simp at hx; rcases hx with rfl | rfl | rfl | rfl <;> decide
  split at hx
  · simp at hx; rcases hx with rfl | rfl | rfl | rfl <;> decide
  · simp at hx; subst hx
    rename_i h0 h34 h39 h38 h60 h62
    simp at h34 h39 h60 h62
    exact ⟨h60, h62, h39, h34⟩

/-- htmlEscape output contains none of < > ' " (and `&` only as the first byte of an entity, below) -/
theorem C20_html_no_specials (s : Bytes) : ∀ x ∈ htmlEscape s, x ≠ 60 ∧ x ≠ 62 ∧ x ≠ 39 ∧ x ≠ 34 := by
  intro x hx
  simp only [htmlEscape, List.mem_flatMap] at hx
  obtain ⟨c, _, hc⟩ := hx
  exact htmlEscapeByte_safe c x hc

/-- every chunk the escaper emits is the byte itself (then it is not `&`), U+FFFD, or one of the five entities -/
theorem htmlEscapeByte_cases (c : UInt8) :
    (htmlEscapeByte c = [c] ∧ c ≠ 38) ∨
    htmlEscapeByte c ∈ [[0xEF, 0xBF, 0xBD], [38, 35, 51, 52, 59], [38, 35, 51, 57, 59], [38, 97, 109, 112, 59],
                        [38, 108, 116, 59], [38, 103, 116, 59]] := by
  unfold htmlEscapeByte
  split
  · right; simp
  split
  · right; simp
  split
  · right; simp
  split
  · right; simp
  split
  · right; simp
  split
  · right; simp
  · left
    rename_i h0 h34 h39 h38 h60 h62
    simp at h38
    exact ⟨rfl, h38⟩

/-- un-escaping gives the input back (NUL-free input): the escaper loses nothing -/
def htmlUnescape : Nat → Bytes → Bytes
  | 0, s => s
  | _, [] => []
  | f+1, c :: r =>
    if c == 38 then
      match r with
      | 35 :: 51 :: 52 :: 59 :: r' => 34 :: htmlUnescape f r'
      | 35 :: 51 :: 57 :: 59 :: r' => 39 :: htmlUnescape f r'
      | 97 :: 109 :: 112 :: 59 :: r' => 38 :: htmlUnescape f r'
      | 108 :: 116 :: 59 :: r' => 60 :: htmlUnescape f r'
      | 103 :: 116 :: 59 :: r' => 62 :: htmlUnescape f r'
      | _ => c :: htmlUnescape f r
    else c :: htmlUnescape f r

theorem htmlUnescape_step (c : UInt8) (hc : c ≠ 0) (f : Nat) (r : Bytes) :
    htmlUnescape (f + 1) (htmlEscapeByte c ++ r) = c :: htmlUnescape f r := by
  by_cases h34 : c = 34
  · subst h34; simp [htmlEscapeByte, htmlUnescape]
  by_cases h39 : c = 39
  · subst h39; simp [htmlEscapeByte, htmlUnescape]
  by_cases h38 : c = 38
  · subst h38; simp [htmlEscapeByte, htmlUnescape]
  by_cases h60 : c = 60
  · subst h60; simp [htmlEscapeByte, htmlUnescape]
  by_cases h62 : c = 62
  · subst h62; simp [htmlEscapeByte, htmlUnescape]
  have he : htmlEscapeByte c = [c] := by
    simp [htmlEscapeByte, hc, h34, h39, h38, h60, h62]
  rw [he]
  simp [htmlUnescape, h38]

theorem C20_html_roundtrip (s : Bytes) (h0 : ∀ c ∈ s, c ≠ 0) :
    htmlUnescape s.length (htmlEscape s) = s := by
  induction s with
  | nil => simp [htmlEscape, htmlUnescape]
  | cons c r ih =>
    have hc : c ≠ 0 := h0 c (by simp)
    have hr : ∀ x ∈ r, x ≠ 0 := fun x hx => h0 x (by simp [hx])
    simp only [htmlEscape, List.flatMap_cons, List.length_cons]
    rw [htmlUnescape_step c hc]
    have := ih hr
    simp only [htmlEscape] at this
    rw [this]

-- ---------- jsEscape (ASCII) ----------

/-- bytes that may not appear raw in jsEscape output -/
def isJsSpecial (c : UInt8) : Bool := c == 60 || c == 62 || c == 38 || c == 61 || c == 10 || c == 13

theorem isJsSpecial_of_toNat (x : UInt8)
    (h : x.toNat ≠ 60 ∧ x.toNat ≠ 62 ∧ x.toNat ≠ 38 ∧ x.toNat ≠ 61 ∧ x.toNat ≠ 10 ∧ x.toNat ≠ 13) :
    isJsSpecial x = false := by
  unfold isJsSpecial
  simp only [Bool.or_eq_false_iff, beq_eq_false_iff_ne, ne_eq]
  refine ⟨⟨⟨⟨⟨?_, ?_⟩, ?_⟩, ?_⟩, ?_⟩, ?_⟩ <;> (intro e; subst e; simp at h)

theorem hexDigitUpper_safe (n : UInt8) (h : n < 16) :
    isJsSpecial (jsEscapeByte.hexDigitUpper n) = false := by
  apply isJsSpecial_of_toNat
  unfold jsEscapeByte.hexDigitUpper
  have hn : n.toNat < 16 := by simpa [UInt8.lt_iff_toNat_lt] using h
  split
  · rename_i h10
    have h10' : n.toNat < 10 := by simpa [UInt8.lt_iff_toNat_lt] using h10
    have e : (48 + n).toNat = 48 + n.toNat := by
      rw [UInt8.toNat_add]; simp; omega
    rw [e]; omega
  · rename_i h10
    have h10' : ¬ n.toNat < 10 := by simpa [UInt8.lt_iff_toNat_lt] using h10
    have e : (55 + n).toNat = 55 + n.toNat := by
      rw [UInt8.toNat_add]; simp; omega
    rw [e]; omega

theorem jsEscapeByte_safe (c : UInt8) (out : Bytes) (h : jsEscapeByte c = some out) :
    ∀ x ∈ out, isJsSpecial x = false := by
  intro x hx
  unfold jsEscapeByte at h
  split at h
  · cases h
  split at h
  · cases h; simp at hx; rcases hx with rfl | rfl <;> decide
  split at h
  · cases h; simp at hx; rcases hx with rfl | rfl <;> decide
  split at h
  · cases h; simp at hx; rcases hx with rfl | rfl <;> decide
  split at h
  · cases h; simp at hx; rcases hx with rfl | rfl | rfl | rfl | rfl <;> decide
  split at h
  · cases h; simp at hx; rcases hx with rfl | rfl | rfl | rfl | rfl <;> decide
  split at h
  · cases h; simp at hx; rcases hx with rfl | rfl | rfl | rfl | rfl <;> decide
  split at h
  · cases h; simp at hx; rcases hx with rfl | rfl | rfl | rfl | rfl <;> decide
  split at h
  · cases h
    rename_i hlt
    simp at hx
    rcases hx with rfl | rfl | rfl | rfl | rfl
    · decide
    · decide
    · decide
    · apply hexDigitUpper_safe
      have : c.toNat < 32 := by simpa [UInt8.lt_iff_toNat_lt] using hlt
      rw [UInt8.lt_iff_toNat_lt, UInt8.toNat_shiftRight]; simp; omega
    · apply hexDigitUpper_safe
      rw [UInt8.lt_iff_toNat_lt, UInt8.toNat_and]; simp
      exact Nat.lt_of_le_of_lt (Nat.and_le_right) (by omega)
  · cases h
    simp at hx; subst hx
    rename_i h80 h92 h39 h34 h60 h62 h38 h61 h32
    have h32' : ¬ x.toNat < 32 := by simpa [UInt8.lt_iff_toNat_lt] using h32
    simp at h60 h62 h38 h61
    apply isJsSpecial_of_toNat
    refine ⟨?_, ?_, ?_, ?_, ?_, ?_⟩
    · intro e; exact h60 (UInt8.toNat_inj.mp (by simpa using e))
    · intro e; exact h62 (UInt8.toNat_inj.mp (by simpa using e))
    · intro e; exact h38 (UInt8.toNat_inj.mp (by simpa using e))
    · intro e; exact h61 (UInt8.toNat_inj.mp (by simpa using e))
    · omega
    · omega

/-- jsEscape output contains no < > & = and no raw line break -/
theorem C20_js_no_specials : ∀ (s out : Bytes), jsEscape s = some out → ∀ x ∈ out, isJsSpecial x = false := by
  intro s
  induction s with
  | nil => intro out h; simp [jsEscape] at h; subst h; simp
  | cons c r ih =>
    intro out h x hx
    simp only [jsEscape, bind, Option.bind] at h
    cases ha : jsEscapeByte c with
    | none => simp [ha] at h
    | some a =>
      cases hb : jsEscape r with
      | none => simp [ha, hb] at h
      | some rest =>
        simp [ha, hb] at h
        subst h
        rcases List.mem_append.mp hx with hx | hx
        · exact jsEscapeByte_safe c a ha x hx
        · exact ih rest hb x hx

-- non-vacuity / concrete instances (multi-byte text is cut on rune boundaries; bytes written out so that
-- `decide` can evaluate them in the kernel)
-- truncate("héllo wörld", size 5, trail "..") = "hé.."
example : truncate [0x68, 0xC3, 0xA9, 0x6C, 0x6C, 0x6F, 0x20, 0x77, 0xC3, 0xB6, 0x72, 0x6C, 0x64] 5 [0x2E, 0x2E]
    = [0x68, 0xC3, 0xA9, 0x6C, 0x2E, 0x2E] := by decide
-- size ≤ |trail|: the trail alone;  size ≤ 0 with an empty trail: empty
example : truncate [0x61, 0x62, 0x63] 2 [0x2E, 0x2E, 0x2E] = [0x2E, 0x2E, 0x2E] := by decide
example : truncate [0x61, 0x62, 0x63] (-1) [] = [] := by decide
-- htmlEscape("<'&") = "&lt;&#39;&amp;"
example : htmlEscape [60, 39, 38] = [38, 108, 116, 59, 38, 35, 51, 57, 59, 38, 97, 109, 112, 59] := by decide
-- jsEscape("<\n'") = "\u003C\u000A\'"
example : jsEscape [60, 10, 39] = some [92, 117, 48, 48, 51, 67, 92, 117, 48, 48, 48, 65, 92, 39] := by decide

end Plush
