import PlushModel
/-!
  C10 — Context behaves as a chain of scopes for every history of New / Set / Value / Has.
  Refinement of the concrete store of PlushModel/Ctx.lean (mutable association lists, parent
  indexes, helper injection at construction — the model of /repo/context.go, tied by the `ctx`
  correspondence stream) to an abstract spec in which a scope is a partial function.
-/
namespace Plush

-- ---------- the abstract spec ----------

structure SFrame where
  bind : Bytes → Option Val
  parent : Option Nat

/-- abstract store: scopes in creation order -/
abbrev SStore := List SFrame

def SStore.valueF (s : SStore) : Nat → Nat → Bytes → Val
  | 0, _, _ => .nil
  | fuel+1, c, k =>
    match s[c]? with
    | none => .nil
    | some f =>
      match f.bind k with
      | some v => v
      | none => match f.parent with
        | some p => SStore.valueF s fuel p k
        | none => .nil

/-- the value most recently bound for `k` on the nearest scope on the path to the root that binds `k` -/
def SStore.value (s : SStore) (c : Nat) (k : Bytes) : Val := s.valueF (c + 1) c k
def SStore.has (s : SStore) (c : Nat) (k : Bytes) : Bool := !(s.value c k).isNil

def updFn (f : Bytes → Option Val) (k : Bytes) (v : Val) : Bytes → Option Val :=
  fun k' => if k' == k then some v else f k'

def SStore.set (s : SStore) (c : Nat) (k : Bytes) (v : Val) : SStore :=
  match s[c]? with
  | none => s
  | some f => List.set s c { f with bind := updFn f.bind k v }

def SStore.inject (s : SStore) (c : Nat) (checkOuter : Option Nat) : List String → SStore
  | [] => s
  | h :: rest =>
    let k := b h
    let absent := !s.has c k && (match checkOuter with | some o => !s.has o k | none => true)
    SStore.inject (if absent then s.set c k (Store.builtin h) else s) c checkOuter rest

def bindOf (data : List (Bytes × Val)) : Bytes → Option Val := fun k => lookupKey k data

def SStore.newRoot (s : SStore) (data : List (Bytes × Val)) : SStore :=
  SStore.inject (s ++ [{ bind := bindOf data, parent := none }]) s.length none Gen.helperKeys

def SStore.newChild (s : SStore) (outer : Nat) : SStore :=
  SStore.inject (s ++ [{ bind := fun _ => none, parent := some outer }]) s.length (some outer) Gen.helperKeys

inductive COp
  | newRoot (data : List (Bytes × Val))
  | newChild (parent : Nat)
  | set (c : Nat) (k : Bytes) (v : Val)

def applyOp (s : Store) : COp → Store
  | .newRoot d => (s.newRoot d).1
  | .newChild p => (s.newChild p).1
  | .set c k v => s.set c k v

def specApply (s : SStore) : COp → SStore
  | .newRoot d => s.newRoot d
  | .newChild p => s.newChild p
  | .set c k v => s.set c k v

def run (ops : List COp) : Store := ops.foldl applyOp {}
def specRun (ops : List COp) : SStore := ops.foldl specApply []

-- ---------- abstraction ----------

def absFrame (f : Frame) : SFrame := { bind := bindOf f.data, parent := f.outer }
def abs (s : Store) : SStore := s.frames.toList.map absFrame

theorem lookupKey_setKey (k k' : Bytes) (v : Val) (l : List (Bytes × Val)) :
    lookupKey k' (setKey k v l) = if k' == k then some v else lookupKey k' l := by
  induction l with
  | nil =>
    by_cases h : k' = k
    · subst h; simp [setKey, lookupKey]
    · have h' : ¬ k = k' := fun e => h e.symm
      simp [setKey, lookupKey, h, h']
  | cons x r ih =>
    obtain ⟨kx, vx⟩ := x
    by_cases h : kx = k
    · subst h
      by_cases h2 : k' = kx
      · subst h2; simp [setKey, lookupKey]
      · have h2' : ¬ kx = k' := fun e => h2 e.symm
        simp [setKey, lookupKey, h2, h2']
    · by_cases h3 : kx = k'
      · subst h3
        simp [setKey, lookupKey, h]
      · simp [setKey, lookupKey, h, h3, ih]

theorem bindOf_setKey (k : Bytes) (v : Val) (l : List (Bytes × Val)) :
    bindOf (setKey k v l) = updFn (bindOf l) k v := by
  funext k'
  simp [bindOf, updFn, lookupKey_setKey]

theorem abs_length (s : Store) : (abs s).length = s.frames.size := by simp [abs]

theorem abs_get (s : Store) (c : Nat) : (abs s)[c]? = (s.frames[c]?).map absFrame := by
  simp [abs]

theorem valueF_abs (s : Store) : ∀ (fuel c : Nat) (k : Bytes), (abs s).valueF fuel c k = s.valueF fuel c k := by
  intro fuel
  induction fuel with
  | zero => intro c k; rfl
  | succ n ih =>
    intro c k
    simp only [SStore.valueF, Store.valueF, abs_get]
    cases hf : s.frames[c]? with
    | none => simp
    | some f =>
      simp only [Option.map_some, absFrame, bindOf]
      cases lookupKey k f.data with
      | some v => rfl
      | none =>
        cases f.outer with
        | none => rfl
        | some o => exact ih o k

theorem value_abs (s : Store) (c : Nat) (k : Bytes) : (abs s).value c k = s.value c k := valueF_abs s _ c k
theorem has_abs (s : Store) (c : Nat) (k : Bytes) : (abs s).has c k = s.has c k := by
  simp [SStore.has, Store.has, value_abs]

theorem abs_set (s : Store) (c : Nat) (k : Bytes) (v : Val) : abs (s.set c k v) = (abs s).set c k v := by
  simp only [Store.set, SStore.set, abs_get]
  cases hf : s.frames[c]? with
  | none => simp
  | some f =>
    simp only [Option.map_some]
    apply List.ext_getElem?
    intro i
    simp only [abs, Array.set!_eq_setIfInBounds, Array.toList_setIfInBounds, List.getElem?_map, List.getElem?_set]
    by_cases hi : c = i
    · subst hi
      have hc : c < s.frames.size := by
        rcases Nat.lt_or_ge c s.frames.size with h | h
        · exact h
        · rw [Array.getElem?_eq_none h] at hf; cases hf
      simp [hc, absFrame, bindOf_setKey]
    · simp [hi]

theorem abs_inject (hs : List String) : ∀ (s : Store) (c : Nat) (co : Option Nat),
    abs (s.injectHelpers c co hs) = (abs s).inject c co hs := by
  induction hs with
  | nil => intro s c co; rfl
  | cons h rest ih =>
    intro s c co
    simp only [Store.injectHelpers, SStore.inject]
    have hcond : (!s.has c (b h) && (match co with | some o => !s.has o (b h) | none => true)) =
        (!(abs s).has c (b h) && (match co with | some o => !(abs s).has o (b h) | none => true)) := by
      cases co <;> simp [has_abs]
    rw [ih, ← hcond, apply_ite abs, abs_set]
    rfl

theorem abs_push (s : Store) (f : Frame) : abs { s with frames := s.frames.push f } = abs s ++ [absFrame f] := by
  simp [abs]

/-- one concrete operation = one abstract operation -/
theorem abs_applyOp (s : Store) (op : COp) : abs (applyOp s op) = specApply (abs s) op := by
  cases op with
  | newRoot d =>
    simp only [applyOp, specApply, Store.newRoot, SStore.newRoot, abs_inject, abs_push, abs_length]
    rfl
  | newChild p =>
    simp only [applyOp, specApply, Store.newChild, SStore.newChild, abs_inject, abs_push, abs_length]
    rfl
  | set c k v => simp only [applyOp, specApply, abs_set]

theorem abs_foldl (ops : List COp) : ∀ (s : Store), abs (ops.foldl applyOp s) = ops.foldl specApply (abs s) := by
  induction ops with
  | nil => intro s; rfl
  | cons op rest ih => intro s; simp only [List.foldl_cons, ih, abs_applyOp]

/-- REFINEMENT: after ANY history of operations, what the concrete store answers to Value / Has is what
    the scope-chain spec answers. -/
theorem C10_refines (ops : List COp) (c : Nat) (k : Bytes) :
    (run ops).value c k = (specRun ops).value c k ∧ (run ops).has c k = (specRun ops).has c k := by
  have h : abs (run ops) = specRun ops := by
    simp only [run, specRun]; rw [abs_foldl]; rfl
  rw [← h]
  exact ⟨(value_abs _ c k).symm, (has_abs _ c k).symm⟩

-- ---------- corollaries on the spec (short, because scopes are functions) ----------

/-- Has(k) ⇔ Value(k) ≠ nil -/
theorem C10_has (s : SStore) (c : Nat) (k : Bytes) : s.has c k = !(s.value c k).isNil := rfl

theorem SStore.set_get (s : SStore) (c d : Nat) (k : Bytes) (v : Val) :
    (s.set c k v)[d]? = if d = c then (s[c]?).map (fun f => { f with bind := updFn f.bind k v }) else s[d]? := by
  simp only [SStore.set]
  cases hf : s[c]? with
  | none =>
    by_cases h : d = c
    · subst h; simp [hf]
    · simp [h]
  | some f =>
    by_cases h : d = c
    · subst h
      have hc : d < s.length := by
        rcases Nat.lt_or_ge d s.length with h | h
        · exact h
        · rw [List.getElem?_eq_none h] at hf; cases hf
      simp [hc]
    · simp [h, List.getElem?_set_ne (Ne.symm h)]

/-- Value after Set on the same context is the value set -/
theorem C10_value_after_set (s : SStore) (c : Nat) (k : Bytes) (v : Val) (hc : c < s.length) :
    (s.set c k v).value c k = v := by
  simp only [SStore.value, SStore.valueF, SStore.set_get, if_true]
  have : s[c]? = some s[c] := List.getElem?_eq_getElem hc
  simp [this, updFn]

/-- a Set never changes a different key, anywhere -/
theorem C10_set_other_key (s : SStore) (c : Nat) (k k' : Bytes) (v : Val) (hk : k' ≠ k) :
    ∀ (fuel d : Nat), (s.set c k v).valueF fuel d k' = s.valueF fuel d k' := by
  intro fuel
  induction fuel with
  | zero => intro d; rfl
  | succ n ih =>
    intro d
    simp only [SStore.valueF, SStore.set_get]
    have hkk : (k' == k) = false := by simpa using hk
    by_cases h : d = c
    · subst h
      cases hf : s[d]? with
      | none => simp
      | some f =>
        simp only [if_true, Option.map_some, updFn, hkk, Bool.false_eq_true, if_false]
        cases hb : f.bind k' with
        | some x => rfl
        | none =>
          cases hp : f.parent with
          | none => rfl
          | some p => simp only [ih p]
    · simp only [h, if_false]
      cases hf : s[d]? with
      | none => rfl
      | some f =>
        simp only []
        cases hb : f.bind k' with
        | some x => rfl
        | none =>
          cases hp : f.parent with
          | none => rfl
          | some p => simp only [ih p]

/-- `c` lies on the path from `d` to the root (looking at most `fuel` scopes up) -/
def onPath (s : SStore) : Nat → Nat → Nat → Bool
  | 0, _, _ => false
  | fuel+1, d, c =>
    d == c || (match s[d]? with
      | some f => (match f.parent with | some p => onPath s fuel p c | none => false)
      | none => false)

theorem onPath_set (s : SStore) (c' : Nat) (k : Bytes) (v : Val) : ∀ (fuel d c : Nat),
    onPath (s.set c' k v) fuel d c = onPath s fuel d c := by
  intro fuel
  induction fuel with
  | zero => intro d c; rfl
  | succ n ih =>
    intro d c
    simp only [onPath, SStore.set_get]
    by_cases h : d = c'
    · subst h
      cases hf : s[d]? with
      | none => simp
      | some f =>
        simp only [if_true, Option.map_some]
        cases hp : f.parent <;> simp [ih]
    · simp only [h, if_false]
      cases hf : s[d]? with
      | none => rfl
      | some f =>
        simp only []
        cases hp : f.parent <;> simp [ih]

/-- ISOLATION: a Set on `c` never changes what a context observes unless `c` is that context or one
    of its ancestors (so ancestors and siblings of `c` are unaffected) -/
theorem C10_isolation (s : SStore) (c : Nat) (k k' : Bytes) (v : Val) :
    ∀ (fuel d : Nat), onPath s fuel d c = false → (s.set c k v).valueF fuel d k' = s.valueF fuel d k' := by
  intro fuel
  induction fuel with
  | zero => intro d _; rfl
  | succ n ih =>
    intro d hp
    simp only [onPath, Bool.or_eq_false_iff] at hp
    have hdc : d ≠ c := by simpa using hp.1
    simp only [SStore.valueF, SStore.set_get, hdc, if_false]
    cases hf : s[d]? with
    | none => rfl
    | some f =>
      simp only []
      cases hb : f.bind k' with
      | some x => rfl
      | none =>
        cases hpar : f.parent with
        | none => rfl
        | some p =>
          have := hp.2
          simp only [hf, hpar] at this
          simp only [ih p this]

/-- nearest binding wins: a binding in the context itself shadows every ancestor, also a nil one -/
theorem C10_nearest (s : SStore) (c : Nat) (k : Bytes) (f : SFrame) (hf : s[c]? = some f) :
    s.value c k = match f.bind k with
      | some v => v
      | none => match f.parent with
        | some p => s.valueF c p k
        | none => .nil := by
  simp only [SStore.value, SStore.valueF, hf]

-- non-vacuity: the isolation hypothesis holds for a parent and a sibling of the written context
-- (root 0 with children 1 and 2: neither 0 nor 2 has 1 on its path; 1 itself has)
def demoStore : SStore :=
  [{ bind := fun _ => none, parent := none }, { bind := fun _ => none, parent := some 0 }, { bind := fun _ => none, parent := some 0 }]
example : onPath demoStore 1 0 1 = false ∧ onPath demoStore 3 2 1 = false ∧ onPath demoStore 2 1 1 = true := by decide

end Plush
