import PlushModel
/-!
  C19 — iterator and collection helpers produce exact sequences and partitions.
  `Gen.Helpers.*` / `Gen.Root.*` are TRANSLATED from /repo/helpers/iterators and /repo/iterators.go on
  every run, so these theorems are re-checked against what the code says now. Go's `int` is the
  range `[minInt, maxInt]` of `Int` with `wrap64` on every + and -.
-/
namespace Plush
open Gen

def inRange (x : Int) : Prop := minInt ≤ x ∧ x ≤ maxInt

theorem wrap64_id (x : Int) (h : inRange x) : wrap64 x = x := by
  unfold inRange minInt maxInt at h
  simp only [wrap64]
  omega

/-- the values a ranger yields until its first `nil`, looking at most `fuel` times -/
def drain (next : Ranger → Ranger × Option Int) : Nat → Ranger → List Int
  | 0, _ => []
  | fuel+1, r => match next r with
    | (r', some v) => v :: drain next fuel r'
    | (_, none) => []

def interval (lo : Int) : Nat → List Int
  | 0 => []
  | n+1 => lo :: interval (lo + 1) n

/-- length of the closed interval a..b (0 when b < a) -/
def span (a b : Int) : Nat := (b - a + 1).toNat

theorem drain_done (fuel : Nat) (r : Ranger) (h : r.done = true) : drain Helpers.next fuel r = [] := by
  cases fuel with
  | zero => rfl
  | succ n => simp [drain, Helpers.next, h]

/-- core lemma: a live ranger yields exactly pos..end and then nil, within span+1 calls -/
theorem drain_live (k : Nat) : ∀ (fuel : Nat) (r : Ranger), r.done = false → inRange r.pos → inRange r.end_ →
    span r.pos r.end_ = k → k + 1 ≤ fuel → drain Helpers.next fuel r = interval r.pos k := by
  induction k with
  | zero =>
    intro fuel r hd _ _ hk hf
    have hgt : r.pos > r.end_ := by unfold span at hk; omega
    cases fuel with
    | zero => omega
    | succ n => simp [drain, Helpers.next, hd, hgt, interval]
  | succ k ih =>
    intro fuel r hd hp he hk hf
    have hle : ¬ r.pos > r.end_ := by unfold span at hk; omega
    cases fuel with
    | zero => omega
    | succ n =>
      by_cases heq : r.pos = r.end_
      · have hk0 : k = 0 := by unfold span at hk; omega
        subst hk0
        simp [drain, Helpers.next, hd, heq, interval]
        exact drain_done n _ rfl
      · have hlt : r.pos < r.end_ := by omega
        have hw : wrap64 (r.pos + 1) = r.pos + 1 := by
          apply wrap64_id; unfold inRange at *; omega
        have hne : (r.pos == r.end_) = false := by simp [heq]
        simp only [drain, Helpers.next, hd, hne, Bool.false_or, decide_eq_true_eq, hle, if_false, Bool.false_eq_true, interval]
        rw [hw]
        have := ih n { pos := r.pos + 1, end_ := r.end_, done := false } rfl
          (by unfold inRange at *; simp only; omega) he (by unfold span at *; simp only; omega) (by omega)
        simp only at this
        exact congrArg _ this

/-- range(a,b) yields a..b inclusive (nothing when b < a) and then nil — for ALL ints, extremes included -/
theorem C19_range (a b : Int) (ha : inRange a) (hb : inRange b) (fuel : Nat) (hf : span a b + 1 ≤ fuel) :
    drain Helpers.next fuel (Helpers.Range a b) = interval a (span a b) :=
  drain_live (span a b) fuel (Helpers.Range a b) rfl ha hb rfl hf

/-- between(a,b) yields a+1..b-1 -/
theorem C19_between (a b : Int) (ha : inRange a) (hb : inRange b) (fuel : Nat) (hf : span (a + 1) (b - 1) + 1 ≤ fuel) :
    drain Helpers.next fuel (Helpers.Between a b) = interval (a + 1) (span (a + 1) (b - 1)) := by
  unfold Helpers.Between
  by_cases hx : a = maxInt ∨ b = minInt
  · have hs : span (a + 1) (b - 1) = 0 := by
      unfold span inRange minInt maxInt at *; omega
    have : ((a == maxInt) || (b == minInt)) = true := by
      rcases hx with h | h <;> simp [h]
    simp only [this, if_true, hs, interval]
    exact drain_done fuel _ rfl
  · have hne : ((a == maxInt) || (b == minInt)) = false := by
      simp only [Bool.or_eq_false_iff, beq_eq_false_iff_ne]; exact ⟨fun h => hx (Or.inl h), fun h => hx (Or.inr h)⟩
    have ha' : inRange (a + 1) := by unfold inRange minInt maxInt at *; omega
    have hb' : inRange (b - 1) := by unfold inRange minInt maxInt at *; omega
    simp only [hne, Bool.false_eq_true, if_false]
    rw [wrap64_id _ ha', wrap64_id _ hb']
    exact drain_live _ fuel _ rfl ha' hb' rfl hf

/-- until(n) yields 0..n-1 -/
theorem C19_until (n : Int) (hn : inRange n) (fuel : Nat) (hf : span 0 (n - 1) + 1 ≤ fuel) :
    drain Helpers.next fuel (Helpers.Until n) = interval 0 (span 0 (n - 1)) := by
  unfold Helpers.Until
  by_cases hx : n = minInt
  · have hs : span 0 (n - 1) = 0 := by unfold span minInt at *; omega
    simp only [hx, beq_self_eq_true, if_true]
    rw [hx] at hs
    simp only [hs, interval]
    exact drain_done fuel _ rfl
  · have hne : (n == minInt) = false := by simp [hx]
    have hb' : inRange (n - 1) := by unfold inRange minInt maxInt at *; omega
    simp only [hne, Bool.false_eq_true, if_false]
    rw [wrap64_id _ hb']
    have h0 : inRange (0 : Int) := by unfold inRange minInt maxInt; omega
    exact drain_live _ fuel _ rfl h0 hb' rfl hf

/-- the two shipped copies of the counter iterator are the same function -/
theorem C19_copies_agree :
    Helpers.next = Root.next ∧ Helpers.Range = Root.Range ∧ Helpers.Between = Root.Between ∧ Helpers.Until = Root.Until :=
  ⟨rfl, rfl, rfl, rfl⟩

-- ---------- groupBy: partition laws, for every list and every group count ----------

theorem groupByLoop_flatten {α} (g : Nat) (hg : 0 < g) : ∀ (fuel : Nat) (xs : List α), xs.length ≤ fuel →
    (groupByLoop g fuel xs).flatten = xs := by
  intro fuel
  induction fuel with
  | zero => intro xs h; cases xs with
    | nil => rfl
    | cons _ _ => simp at h
  | succ n ih =>
    intro xs h
    cases xs with
    | nil => rfl
    | cons x t =>
      simp only [groupByLoop, List.flatten_cons]
      rw [ih]
      · exact List.take_append_drop g (x :: t)
      · simp only [List.length_drop, List.length_cons] at *; omega

theorem groupSize_zero (len n : Nat) (hn : 0 < n) (h : groupSize len n = 0) : len = 0 := by
  unfold groupSize at h
  by_cases hm : len % n = 0
  · simp [hm] at h
    have := Nat.div_add_mod len n
    rcases h with h0 | h0
    · omega
    · have hd : len / n = 0 := (Nat.div_eq_zero_iff).mpr (Or.inr h0)
      rw [hd] at this; omega
  · simp [hm] at h

theorem groupSize_cover (len n : Nat) (hn : 0 < n) : len ≤ groupSize len n * n := by
  unfold groupSize
  have := Nat.div_add_mod len n
  have hlt := Nat.mod_lt len hn
  by_cases hm : len % n = 0
  · simp [hm]; rw [Nat.mul_comm]; omega
  · simp [hm]; rw [Nat.add_mul, Nat.mul_comm]; omega

theorem groupBy_unfold {α} (n : Nat) (xs : List α) (hl : xs.length ≠ n) (hz : groupSize xs.length n ≠ 0) :
    groupBy n xs = groupByLoop (groupSize xs.length n) xs.length xs := by
  unfold groupBy
  have h1 : (xs.length == n) = false := by simp [hl]
  have h2 : (groupSize xs.length n == 0) = false := by simp [hz]
  simp only [h1, h2, Bool.false_eq_true, if_false]

theorem groupBy_empty {α} (n : Nat) (xs : List α) (hl : xs.length ≠ n) (hz : groupSize xs.length n = 0) :
    groupBy n xs = [] := by
  unfold groupBy
  have h1 : (xs.length == n) = false := by simp [hl]
  simp [h1, hz]

theorem groupBy_whole {α} (n : Nat) (xs : List α) (hl : xs.length = n) : groupBy n xs = [xs] := by
  unfold groupBy; simp [hl]

/-- the concatenation of the groups is the input -/
theorem C19_groupBy_concat {α} (n : Nat) (xs : List α) (hn : 0 < n) : (groupBy n xs).flatten = xs := by
  by_cases hl : xs.length = n
  · simp [groupBy_whole n xs hl]
  · by_cases hz : groupSize xs.length n = 0
    · have : xs = [] := List.length_eq_zero_iff.mp (groupSize_zero _ _ hn hz)
      rw [groupBy_empty n xs hl hz, this]; rfl
    · rw [groupBy_unfold n xs hl hz]
      exact groupByLoop_flatten _ (by omega) _ _ (Nat.le_refl _)

theorem groupByLoop_nonempty {α} (g : Nat) (hg : 0 < g) : ∀ (fuel : Nat) (xs : List α),
    ∀ grp ∈ groupByLoop g fuel xs, grp ≠ [] := by
  intro fuel
  induction fuel with
  | zero => intro xs grp h; simp [groupByLoop] at h
  | succ n ih =>
    intro xs grp h
    cases xs with
    | nil => simp [groupByLoop] at h
    | cons x t =>
      simp only [groupByLoop, List.mem_cons] at h
      rcases h with h | h
      · subst h
        cases g with
        | zero => omega
        | succ g => simp
      · exact ih _ _ h

/-- no group is empty -/
theorem C19_groupBy_nonempty {α} (n : Nat) (xs : List α) (_hn : 0 < n) (hx : xs ≠ []) : ∀ grp ∈ groupBy n xs, grp ≠ [] := by
  intro grp h
  by_cases hl : xs.length = n
  · rw [groupBy_whole n xs hl] at h; simp at h; subst h; exact hx
  · by_cases hz : groupSize xs.length n = 0
    · rw [groupBy_empty n xs hl hz] at h; simp at h
    · rw [groupBy_unfold n xs hl hz] at h
      exact groupByLoop_nonempty _ (by omega) _ _ grp h

theorem groupByLoop_length {α} (g : Nat) (hg : 0 < g) : ∀ (fuel : Nat) (xs : List α), xs.length ≤ fuel →
    (groupByLoop g fuel xs).length = (xs.length + g - 1) / g := by
  intro fuel
  induction fuel with
  | zero => intro xs h
            have : xs = [] := by cases xs with | nil => rfl | cons _ _ => simp at h
            subst this
            simp [groupByLoop]
            exact ((Nat.div_eq_zero_iff).mpr (Or.inr (by omega))).symm
  | succ n ih =>
    intro xs h
    cases xs with
    | nil =>
      simp [groupByLoop]
      exact ((Nat.div_eq_zero_iff).mpr (Or.inr (by omega))).symm
    | cons x t =>
      simp only [groupByLoop, List.length_cons]
      rw [ih _ (by simp only [List.length_drop, List.length_cons] at *; omega)]
      simp only [List.length_drop, List.length_cons]
      by_cases hle : t.length + 1 ≤ g
      · have h1 : t.length + 1 - g = 0 := by omega
        rw [h1]
        have h2 : (0 + g - 1) / g = 0 := (Nat.div_eq_zero_iff).mpr (Or.inr (by omega))
        have h3 : (t.length + 1 + g - 1) / g = 1 := by
          apply Nat.div_eq_of_lt_le <;> omega
        omega
      · have : t.length + 1 + g - 1 = (t.length + 1 - g + g - 1) + g := by omega
        rw [this, Nat.add_div_right _ hg]

/-- at most `n` groups -/
theorem C19_groupBy_count {α} (n : Nat) (xs : List α) (hn : 0 < n) : (groupBy n xs).length ≤ n := by
  by_cases hl : xs.length = n
  · rw [groupBy_whole n xs hl]; simp; omega
  · by_cases hz : groupSize xs.length n = 0
    · rw [groupBy_empty n xs hl hz]; simp
    · rw [groupBy_unfold n xs hl hz, groupByLoop_length _ (by omega) _ _ (Nat.le_refl _)]
      have hcover := groupSize_cover xs.length n hn
      generalize groupSize xs.length n = g at *
      have hgpos : 0 < g := by omega
      apply Nat.lt_succ_iff.mp
      rw [Nat.div_lt_iff_lt_mul hgpos, Nat.succ_mul, Nat.mul_comm n g]
      omega

theorem groupByLoop_sizes {α} (g : Nat) (hg : 0 < g) : ∀ (fuel : Nat) (xs : List α), xs.length ≤ fuel →
    ∀ grp ∈ (groupByLoop g fuel xs).dropLast, grp.length = g := by
  intro fuel
  induction fuel with
  | zero => intro xs _ grp h; simp [groupByLoop] at h
  | succ n ih =>
    intro xs h grp hm
    cases xs with
    | nil => simp [groupByLoop] at hm
    | cons x t =>
      simp only [groupByLoop] at hm
      cases hrest : groupByLoop g n (List.drop g (x :: t)) with
      | nil => rw [hrest] at hm; simp at hm
      | cons y ys =>
        rw [hrest] at hm
        simp only [List.dropLast_cons_cons, List.mem_cons] at hm
        rcases hm with hm | hm
        · subst hm
          -- the rest is non-empty, so the first group is full
          have hne : List.drop g (x :: t) ≠ [] := by
            intro hd; rw [hd] at hrest
            cases n <;> simp [groupByLoop] at hrest
          have : g < (x :: t).length :=
            Nat.lt_of_not_le (fun hc => hne (List.drop_eq_nil_of_le hc))
          simp only [List.length_take]; omega
        · have := ih (List.drop g (x :: t)) (by simp only [List.length_drop, List.length_cons] at *; omega) grp
          rw [hrest] at this
          exact this hm

/-- all groups but the last have the same size -/
theorem C19_groupBy_equal_sizes {α} (n : Nat) (xs : List α) (hn : 0 < n) :
    ∃ g, ∀ grp ∈ (groupBy n xs).dropLast, grp.length = g := by
  by_cases hl : xs.length = n
  · exact ⟨0, by rw [groupBy_whole n xs hl]; simp⟩
  · by_cases hz : groupSize xs.length n = 0
    · exact ⟨0, by rw [groupBy_empty n xs hl hz]; simp⟩
    · rw [groupBy_unfold n xs hl hz]
      exact ⟨_, groupByLoop_sizes _ (by omega) _ _ (Nat.le_refl _)⟩

-- non-vacuity: the hypotheses are met by non-trivial inputs, and the extremes are covered
example : inRange minInt ∧ inRange (minInt + 1) := by unfold inRange minInt maxInt; omega
example : drain Helpers.next 5 (Helpers.Range minInt (minInt + 1)) = [minInt, minInt + 1] := by decide
example : drain Helpers.next 5 (Helpers.Between 3 minInt) = [] := by decide
example : drain Helpers.next 5 (Helpers.Until minInt) = [] := by decide
example : groupBy 2 [1, 2, 3, 4, 5] = [[1, 2, 3], [4, 5]] := by decide

end Plush
