import PlushModel
import PlushProofs.Lib.PlainRender
import PlushProofs.Lib.StringLit
import PlushProofs.Lib.OutTagRender
import PlushProofs.Lib.CodeTag
import PlushProofs.Lib.TextTagText
/-!
  C02 — output = literal text verbatim + values of `<%= %>` tags, in source order.
  Evaluator half: theorems about `compileStmts` / `evalStmtBody` (models of compiler.compile and
  evalStatement): literal text is appended verbatim, an output tag appends its value through the sink,
  code tags and comments contribute nothing — at top level and inside blocks. Lexer half: the text
  scanner `readHTML` (two escapes only) and string literals, in PlushModel/Lexer.lean, tied to /repo by
  the exhaustive `lex-text` / `parse-text` streams.
-/
namespace Plush
open EM

/-- literal text at top level is appended to the output byte for byte -/
theorem C02_text_verbatim (fuel : Nat) (t ht : Token) (v : Bytes) (rest : List Stmt) (out : Bytes) (s : ES) :
    compileStmts (fuel + 1) (.es t (some (.html ht v)) :: rest) out s =
      compileStmts fuel rest (out ++ v) { s with curStmt := none } := by
  simp [compileStmts, bind, modifyS, attempt, pure, renderVal, getS, writeVal, flattenChunks, Chunk.flatten]

/-- a code tag `<% e %>` at top level contributes NOTHING to the output, whatever its value -/
theorem C02_silent_tag (fuel : Nat) (t : Token) (e : Expr) (rest : List Stmt) (out : Bytes) (s s1 : ES) (v : Val)
    (hne : ∀ ht hv, e ≠ .html ht hv)
    (h : evalExpr fuel (some e) ({ s with curStmt := none }) = (.ok v, s1)) :
    compileStmts (fuel + 1) (.es t (some e) :: rest) out s = compileStmts fuel rest out s1 := by
  cases e <;> first
    | exact absurd rfl (hne _ _)
    | simp [compileStmts, bind, modifyS, attempt, pure, renderVal, getS, writeVal, flattenChunks, h]

/-- `let` at top level contributes nothing either -/
theorem C02_let_silent (fuel : Nat) (t : Token) (n : Ident) (e : Option Expr) (rest : List Stmt) (out : Bytes)
    (s s1 : ES) (v : Val) (h : evalExpr fuel e ({ s with curStmt := none }) = (.ok v, s1)) :
    compileStmts (fuel + 1) (.let_ t (some n) e :: rest) out s =
      compileStmts fuel rest out { s1 with store := s1.store.set s1.cur n.value v } := by
  simp [compileStmts, bind, modifyS, attempt, pure, renderVal, getS, writeVal, flattenChunks, h, ctxSet]

/-- an output tag `<%= e %>` appends exactly what the sink writes for its value, after what was there -/
theorem C02_output_tag (fuel : Nat) (t : Token) (e : Option Expr) (rest : List Stmt) (out : Bytes)
    (s s1 : ES) (v : Val) (cs : List Chunk)
    (h : evalExpr fuel e ({ s with curStmt := none }) = (.ok v, s1))
    (hw : writeVal (heapView s1) 64 v = some cs) :
    compileStmts (fuel + 1) (.ret true t e :: rest) out s = compileStmts fuel rest (out ++ flattenChunks cs) s1 := by
  simp [compileStmts, bind, modifyS, attempt, pure, renderVal, getS, h, hw]

/-- INSIDE BLOCKS (if / for / fn / helper blocks): an expression statement yields a value for the block's
    output only when it is literal text or a control-flow object — a code tag whose value happens to be
    HTML (e.g. `<% raw("<b>") %>`) contributes nothing -/
theorem C02_block_silent (fuel : Nat) (t : Token) (e : Expr) (s s1 : ES) (v : Val)
    (hne : ∀ ht hv, e ≠ .html ht hv) (hx : v.isExit = false)
    (h : evalExpr fuel (some e) s = (.ok v, s1)) :
    evalStmtBody (fuel + 1) (.es t (some e)) s = (.ok .nil, s1) := by
  cases e <;> first
    | exact absurd rfl (hne _ _)
    | (cases v <;> simp_all [evalStmtBody, bind, pure, Val.isExit])

theorem C02_block_text (fuel : Nat) (t ht : Token) (hv : Bytes) (s : ES) :
    evalStmtBody (fuel + 2) (.es t (some (.html ht hv))) s = (.ok (.html hv), s) := by
  simp [evalStmtBody, evalExpr, bind, pure]

/-- a comment tag evaluates to the empty string (and is an expression statement: silent) -/
theorem C02_comment_value (fuel : Nat) (s : PS) (h : (P.tokAt s s.pos).type = .E_END) :
    (P.commentLoop (fuel + 1)).run s = .ok (some (.str (P.tokAt s s.pos) []), s) := by
  simp [P.commentLoop, P.cur, h, bind, StateT.bind, StateT.run, get, getThe, MonadStateOf.get,
    StateT.get, pure, StateT.pure, Except.pure, Except.bind]

/-! ### End to end: lexer ∘ parser ∘ evaluator on tag-free text (proofs in `PlushProofs/Lib/Plain*.lean`) -/

/-- "A TEMPLATE WITHOUT TAGS RENDERS TO ITSELF" — for EVERY byte string that contains no `<%` and no NUL byte
    (Go's lexer treats NUL as end of input), of any length and any encoding, in any context: the model of
    `plush.Render` returns exactly the input. Lexer (one HTML token holding the whole text, `replaceAll` finds no
    escape), parser (one expression statement holding that literal, no syntax error) and evaluator (literal text
    is appended verbatim) are composed; nothing here is sampled. -/
theorem C02_tagless_renders_to_itself (t : Bytes) (hp : LX.Plain t.toArray)
    (data : List (Bytes × Val)) (heap : Array HeapObj) (feeder : List (Bytes × Bytes)) :
    (renderTop t data heap feeder).1 = .ok t := by
  cases t with
  | nil => exact renderTop_empty data heap feeder
  | cons c r => exact renderTop_plain (c :: r) hp (by simp) data heap feeder

/-- the same with the evaluator state: rendering tag-free text leaves contexts, heap and helper state untouched -/
theorem C02_tagless_no_side_effect (t : Bytes) (hp : LX.Plain t.toArray) (hne : t ≠ []) (fuel ctx : Nat) (s : ES) :
    renderIn (fuel + 3) t ctx s = (.ok t, s) := render_plain t hp hne fuel ctx s

/-- the parser's view: tag-free text is ONE statement, the literal, and no error -/
theorem C02_tagless_parse (t : Bytes) (hp : LX.Plain t.toArray) (hne : t ≠ []) :
    ∃ ln, parseBytes t = .ok ({ stmts := [.es { type := .HTML, lit := t, line := ln }
        (some (.html { type := .HTML, lit := t, line := ln } t))] }, #[]) := P.parse_plain t hp hne

/-- non-vacuity: `a<b%>c\` (a lone `<`, a lone `%>`, a trailing backslash) is plain -/
example : LX.Plain #[97, 60, 98, 37, 62, 99, 92] := by
  constructor
  · intro i hi
    have : i < 7 := hi
    rcases i with _|_|_|_|_|_|_|i <;> first | decide | omega
  · intro i
    rcases i with _|_|_|_|_|_|_|i
    all_goals first | decide | (intro h; have h1 := h.1; rw [LX.getD_zero_of_ge _ _ (by simp)] at h1; exact absurd h1 (by decide))

/-- **a double-quoted string denotes exactly its content** (for EVERY content): let `c` be any byte string free of
    NUL and backslash — quotes, tag delimiters `<%` `%>`, `#`, newlines, braces, multi-byte runes all allowed. When the
    scanner, in code mode, stands on a `"` that is followed by the spelling of `c` (each `"` of `c` written `\"`) and a
    closing `"`, the next token is the STRING whose literal is `c` itself, stamped with the line the string starts on;
    the scan goes on right after the closing quote, still in code mode (nothing inside the string was taken for a
    delimiter), and no slice expression went out of range. -/
theorem C02_double_quoted_string_denotes_its_content (l : LX) (w : l.WF) (hin : l.inside = true) (hch : l.ch = 34)
    (c : Bytes) (hno : ∀ x ∈ c, x ≠ 0 ∧ x ≠ 92) (hs : LX.Spells l.input (l.pos + 1) (LX.escQ c ++ [34])) :
    l.nextToken.1 = { type := .STRING, lit := c, line := l.line }
      ∧ l.nextToken.2.pos = l.pos + 2 + (LX.escQ c).length ∧ l.nextToken.2.inside = true ∧ l.nextToken.2.WF :=
  LX.nextToken_string l w hin hch c hno hs

/-- **a back-quoted string is taken raw**: whatever stands between two back quotes (no back quote, no NUL; backslashes,
    double quotes, tag delimiters, newlines allowed) IS the literal of the B_STRING token, byte for byte. -/
theorem C02_back_quoted_string_is_raw (l : LX) (w : l.WF) (hin : l.inside = true) (hch : l.ch = 96) (e : Nat)
    (hlt : l.pos < e) (hcl : l.input.getD e 0 = 96)
    (hb : ∀ i, l.pos < i → i < e → l.input.getD i 0 ≠ 96 ∧ l.input.getD i 0 ≠ 0) :
    l.nextToken.1 = { type := .B_STRING, lit := (l.input.extract (l.pos + 1) e).toList, line := l.line }
      ∧ l.nextToken.2.pos = e + 1 ∧ l.nextToken.2.inside = true ∧ l.nextToken.2.WF :=
  LX.nextToken_bstring l w hin hch e hlt hcl hb

/-- the spelling is undone exactly: `strings.Replace(esc c, `\"`, `"`)` is `c` for every backslash-free `c` -/
theorem C02_unescape_inverts_escape (c : Bytes) (h : (92 : UInt8) ∉ c) : replaceAll [92, 34] [34] (LX.escQ c) = c :=
  LX.replaceAll_escQ c h

/-- the limit of the escape (a WITNESS, not a law): content ending in a backslash has no spelling — in `"a\"` the
    `\"` is an escaped quote, the string loop runs on to the end of the input (position 4 of 4) -/
example : (LX.readStringLoop 6 (LX.new #[34, 97, 92, 34])).pos = 4 := by decide

/-- non-vacuity: on `"a\"<%#"` + blank the hypotheses hold with content `a"<%#`, and the theorem's conclusion is what the
    scanner computes -/
example : LX.Spells #[34, 97, 92, 34, 60, 37, 35, 34, 32] 1 (LX.escQ [97, 34, 60, 37, 35] ++ [34]) := by
  intro j hj
  have : j < 7 := by simpa [LX.escQ] using hj
  rcases j with _|_|_|_|_|_|_|j <;> first | rfl | omega
example : ({ LX.new #[34, 97, 92, 34, 60, 37, 35, 34, 32] with inside := true } : LX).nextToken.1
    = { type := .STRING, lit := [97, 34, 60, 37, 35], line := 1 } := by
  have h := C02_double_quoted_string_denotes_its_content
    ({ LX.new #[34, 97, 92, 34, 60, 37, 35, 34, 32] with inside := true } : LX)
    (LX.wf_setInside (LX.new_wf _) true) rfl rfl [97, 34, 60, 37, 35] (by decide)
    (by intro j hj
        have : j < 7 := by simpa [LX.escQ] using hj
        rcases j with _|_|_|_|_|_|_|j <;> first | rfl | omega)
  exact h.1

/-- **END TO END, with a tag**: for EVERY content `c` (no NUL, no backslash — quotes, `<`, `>`, `&`, `%>`, `<%`, `#`,
    newlines, multi-byte runes all allowed) the template `<%="` + spelling of `c` + `"%>` renders, on any data, to
    exactly what the sink writes for the Go string `c` — its HTML escape — and to nothing else: the tag delimiters,
    the quotes and the escape backslashes contribute nothing. Lexer (three tokens: E_START, STRING `c`, E_END), parser
    (one output statement holding the literal, no syntax error) and evaluator (literal → string value → escaped
    chunk) are composed; nothing here is sampled. -/
theorem C02_output_tag_with_string_end_to_end (c : Bytes) (hno : ∀ x ∈ c, x ≠ 0 ∧ x ≠ 92)
    (data : List (Bytes × Val)) (heap : Array HeapObj) (feeder : List (Bytes × Bytes)) :
    (renderTop (LX.outTagSrc c) data heap feeder).1 = .ok (htmlEscape c) := renderTop_outTag c hno data heap feeder

/-- the same with the evaluator state: rendering it leaves contexts, heap and helper state untouched -/
theorem C02_output_tag_no_side_effect (c : Bytes) (hno : ∀ x ∈ c, x ≠ 0 ∧ x ≠ 92) (fuel ctx : Nat) (s : ES) :
    renderIn (fuel + 3) (LX.outTagSrc c) ctx s = (.ok (htmlEscape c), s) := render_outTag c hno fuel ctx s

/-- the token stream of that template: E_START, STRING `c`, E_END, then EOF for ever -/
theorem C02_output_tag_tokens (c : Bytes) (hno : ∀ x ∈ c, x ≠ 0 ∧ x ≠ 92) :
    ∃ l0 l1 l2 l3,
      tokenAt 0 (LX.new (LX.outTagSrc c).toArray) = { type := .E_START, lit := b "<%=", line := l0 } ∧
      tokenAt 1 (LX.new (LX.outTagSrc c).toArray) = { type := .STRING, lit := c, line := l1 } ∧
      tokenAt 2 (LX.new (LX.outTagSrc c).toArray) = { type := .E_END, lit := b "%>", line := l2 } ∧
      ∀ k, tokenAt (k + 3) (LX.new (LX.outTagSrc c).toArray) = { type := .EOF, lit := [], line := l3 } :=
  tokens_outTag c hno

/-- non-vacuity: the template for the content `a"<b` is `<%="a\"<b"%>` -/
example : LX.outTagSrc [97, 34, 60, 98] = [60, 37, 61, 34, 97, 92, 34, 60, 98, 34, 37, 62] := by decide

/-- **END TO END, a code tag is silent**: the same string literal in a CODE tag — `<%"…"%>` — renders to NOTHING, for
    every content `c`, on any data, and leaves the evaluator state as it was: the value is computed and dropped. Together
    with `C02_output_tag_with_string_end_to_end` this is the difference between `<%= %>` and `<% %>`, proved through the
    lexer, the parser and the evaluator. -/
theorem C02_code_tag_with_string_renders_nothing (c : Bytes) (hno : ∀ x ∈ c, x ≠ 0 ∧ x ≠ 92)
    (data : List (Bytes × Val)) (heap : Array HeapObj) (feeder : List (Bytes × Bytes)) :
    (renderTop (LX.codeTagSrc c) data heap feeder).1 = .ok [] := renderTop_codeTag c hno data heap feeder

/-- … and has no side effect -/
theorem C02_code_tag_no_side_effect (c : Bytes) (hno : ∀ x ∈ c, x ≠ 0 ∧ x ≠ 92) (fuel ctx : Nat) (s : ES) :
    renderIn (fuel + 3) (LX.codeTagSrc c) ctx s = (.ok [], s) := render_codeTag c hno fuel ctx s

/-- **END TO END, text – tag – text, in source order.** For EVERY non-empty literal text `pre` and `post` (no NUL, no
    `<%`; `pre` not ending in a backslash, which would escape the tag) and EVERY string content `c` (no NUL, no backslash),
    on any data, heap and partial feeder, `plush.Render` of `pre ++ <%="c"%> ++ post` returns exactly
    `pre ++ htmlEscape c ++ post`: the literal text outside the tag byte for byte, the value of the tag between them, in
    source order, and nothing else. Lexer (HTML `pre`, E_START, STRING `c`, E_END, HTML `post`, EOF — the text scanner
    stops ON the opener and switches modes, the code scanner hands back after `%>`), parser (three statements) and
    evaluator (`compile` appends literal, value, literal) are composed; nothing here is sampled. -/
theorem C02_text_tag_text_in_source_order (pre c post : Bytes) (hp : LX.PlainL pre) (hpne : pre ≠ [])
    (hlast : pre.getD (pre.length - 1) 0 ≠ 92) (hq : LX.PlainL post) (hqne : post ≠ [])
    (hno : ∀ x ∈ c, x ≠ 0 ∧ x ≠ 92) (data : List (Bytes × Val)) (heap : Array HeapObj) (feeder : List (Bytes × Bytes)) :
    (renderTop (LX.ttSrc pre c post) data heap feeder).1 = .ok (pre ++ htmlEscape c ++ post) :=
  renderTop_tt pre c post hp hpne hlast hq hqne hno data heap feeder

/-- … and has no side effect on the evaluator state -/
theorem C02_text_tag_text_no_side_effect (pre c post : Bytes) (hp : LX.PlainL pre) (hpne : pre ≠ [])
    (hlast : pre.getD (pre.length - 1) 0 ≠ 92) (hq : LX.PlainL post) (hqne : post ≠ [])
    (hno : ∀ x ∈ c, x ≠ 0 ∧ x ≠ 92) (fuel ctx : Nat) (s : ES) :
    renderIn (fuel + 5) (LX.ttSrc pre c post) ctx s = (.ok (pre ++ htmlEscape c ++ post), s) :=
  render_tt pre c post hp hpne hlast hq hqne hno fuel ctx s

/-- the parser's view: three statements in source order, no syntax error -/
theorem C02_text_tag_text_parse (pre c post : Bytes) (hp : LX.PlainL pre) (hpne : pre ≠ [])
    (hlast : pre.getD (pre.length - 1) 0 ≠ 92) (hq : LX.PlainL post) (hqne : post ≠ [])
    (hno : ∀ x ∈ c, x ≠ 0 ∧ x ≠ 92) :
    ∃ h0 t1 t2 h4 : Token,
      parseBytes (LX.ttSrc pre c post) = .ok ({ stmts := [.es h0 (some (.html h0 pre)), .ret true t1 (some (.str t2 c)),
        .es h4 (some (.html h4 post))] }, #[]) := P.parse_tt pre c post hp hpne hlast hq hqne hno

/-- non-vacuity: `pre = "a<"` (a lone `<` right in front of the tag), `post = ">b"` satisfy the hypotheses -/
example : LX.PlainL [97, 60] ∧ LX.PlainL [62, 98] ∧ ([97, 60] : Bytes).getD 1 0 ≠ 92 := by
  refine ⟨⟨?_, ?_⟩, ⟨?_, ?_⟩, by decide⟩
  · intro i hi; have : i < 2 := hi; rcases i with _|_|i <;> first | decide | omega
  · intro i; rcases i with _|_|i <;> first | decide | (intro h; have h1 := h.1; simp [List.getD_eq_getElem?_getD] at h1)
  · intro i hi; have : i < 2 := hi; rcases i with _|_|i <;> first | decide | omega
  · intro i; rcases i with _|_|i <;> first | decide | (intro h; have h1 := h.1; simp [List.getD_eq_getElem?_getD] at h1)

end Plush
