import PlushModel
import PlushModel.Gen.EvalDispatch
/-!
  C05 — no silent failure. `Gen.tolerantOps`, `Gen.tolerantOnlyUnknownIdent` and `Gen.tolerantSites` are
  TRANSLATED from compiler.go (toleratedOperandError and the three `err.(*ErrUnknownIdentifier)` guards).
-/
namespace Plush
open Gen EM

/-- the tolerance of the code is exactly the one the property licenses: an unknown identifier, as a
    condition or as an operand of ! == != && || — every other error check in those functions is strict -/
theorem C05_tolerance_exact :
    tolerantOps = [[61, 61], [33, 61], [124, 124], [38, 38]] ∧ tolerantOnlyUnknownIdent = true ∧
    tolerantSites = [("evalPrefixExpression", 1, 0), ("evalIfExpression", 1, 0), ("evalElseAndElseIfExpressions", 1, 0)] := by
  decide

/-- an operand error that is not an unknown identifier fails the whole infix expression, whatever the
    operator — including == != && || (the left operand; state changes so far are kept, nothing else runs) -/
theorem C05_infix_left_error (fuel : Nat) (op : Bytes) (l r : Option Expr) (s s1 : ES) (e : Err)
    (hl : evalExpr fuel l s = (.err e, s1)) (hd : e.direct = false) :
    evalInfix (fuel + 1) op l r s = (.err e, s1) := by
  simp [evalInfix, bind, attempt, getS, hl, hd, throwErr]

/-- … and the right operand likewise, once the left one has been evaluated and did not short-circuit -/
theorem C05_infix_right_error (fuel : Nat) (op : Bytes) (l r : Option Expr) (s s1 s2 : ES) (v : Val) (e : Err)
    (hl : evalExpr fuel l s = (.ok v, s1)) (hr : evalExpr fuel r s1 = (.err e, s2)) (hd : e.direct = false)
    (hsc : ¬ (op = [38, 38] ∧ isTruthy v = false) ∧ ¬ (op = [124, 124] ∧ isTruthy v = true)) :
    evalInfix (fuel + 1) op l r s = (.err e, s2) := by
  obtain ⟨h1, h2⟩ := hsc
  by_cases ha : op = [38, 38]
  · subst ha
    have : isTruthy v = true := by
      cases h : isTruthy v
      · exact absurd ⟨rfl, h⟩ h1
      · rfl
    simp [evalInfix, bind, attempt, getS, hl, hr, hd, throwErr, pure, this]
  · by_cases ho : op = [124, 124]
    · subst ho
      have : isTruthy v = false := by
        cases h : isTruthy v
        · rfl
        · exact absurd ⟨rfl, h⟩ h2
      simp [evalInfix, bind, attempt, getS, hl, hr, hd, throwErr, pure, this]
    · simp [evalInfix, bind, attempt, getS, hl, hr, hd, throwErr, pure, ha, ho]

/-- under an operator outside the tolerant list even an unknown identifier is an error -/
theorem C05_infix_unknown_not_tolerated (fuel : Nat) (op : Bytes) (l r : Option Expr) (s s1 : ES) (e : Err)
    (hl : evalExpr fuel l s = (.err e, s1)) (hop : op ∉ tolerantOps) :
    evalInfix (fuel + 1) op l r s = (.err e, s1) := by
  simp [evalInfix, bind, attempt, getS, hl, throwErr, hop]

/-- `!x`, `if (x)`, `else if (x)`: only an unknown identifier is tolerated -/
theorem C05_prefix_error (fuel : Nat) (t : Token) (op : Bytes) (r : Option Expr) (s s1 : ES) (e : Err)
    (h : evalExpr fuel r s = (.err e, s1)) (hd : e.direct = false) :
    evalExpr (fuel + 1) (some (.pre t op r)) s = (.err e, s1) := by
  simp [evalExpr, bind, attempt, getS, h, hd, throwErr]

theorem C05_if_error (fuel : Nat) (c : Option Expr) (bl : Block) (elifs els) (s s1 : ES) (e : Err)
    (h : evalExpr fuel c s = (.err e, s1)) (hd : e.direct = false) :
    evalIf (fuel + 1) c bl elifs els s = (.err e, s1) := by
  simp [evalIf, bind, attempt, getS, h, hd, throwErr]

/-- a failing element fails the array literal / the argument list (nothing is skipped) -/
theorem C05_exprs_error (fuel : Nat) (x : Option Expr) (rest : List (Option Expr)) (s s1 : ES) (e : Err)
    (h : evalExpr fuel x s = (.err e, s1)) :
    evalExprs (fuel + 1) (x :: rest) s = (.err e, s1) := by
  simp [evalExprs, bind, h]

/-- a failing statement fails its block: no partial result -/
theorem C05_block_error (fuel : Nat) (st : Stmt) (rest : List Stmt) (acc : List Val) (s s1 : ES) (e : Err)
    (h : evalStmt fuel st s = (.err e, s1)) :
    evalStmts (fuel + 1) (st :: rest) acc s = (.err e, s1) := by
  simp [evalStmts, bind, h]

/-- `compile`: an error in any top-level statement is the result of the whole render — carrying the line
    and the `errors.Is` chain — and whatever output had been accumulated is dropped -/
theorem C05_compile_error (fuel : Nat) (t : Token) (e : Option Expr) (rest : List Stmt) (out : Bytes) (s s1 : ES) (er : Err)
    (h : evalExpr fuel e ({ s with curStmt := none }) = (.err er, s1)) :
    compileStmts (fuel + 1) (.ret true t e :: rest) out s
      = (.err { er with line := some (match s1.curStmt with | some l => l | none => t.line), direct := false }, s1) := by
  simp [compileStmts, bind, modifyS, attempt, h, getS, throwErr, pure, Stmt.tok]
  cases s1.curStmt <;> rfl

/-- EVERY `fmt.Errorf` IN THE EVALUATOR THAT IS HANDED AN ERROR WRAPS IT WITH %w (re-read from compiler.go,
    helper_context.go, partial_helper.go, template.go, plush.go and helpers/content on every run): the two sites are
    `compile` ("line N: %w") and the helper-call site ("could not call … function: %w"); everywhere else errors are
    returned as they are. So the cause chain survives to the caller (`errors.Is` / `errors.As`) — the model keeps
    `causes` through both wrappers (`C12_wrap_keeps_causes`, `C05_compile_error`). A new wrapper that formats the
    error with %s or %v (seeded change C05-i) adds an entry with `false`. -/
theorem C05_error_wrappers_keep_the_cause :
    Gen.errorfSites = [("compiler.go:compile", true), ("compiler.go:evalCallExpression", true)] ∧
    ∀ p ∈ Gen.errorfSites, p.2 = true := by
  constructor
  · rfl
  · decide

end Plush
