import PlushModel
/-!
  C07 — if / else-if / else renders exactly the first truthy branch; truthiness is uniform.
  `isTruthy` is the generated `Gen.isTruthyView` (translated from compiler.go on every run) applied to
  the value's view; the chain theorems are about the model of evalIfExpression /
  evalElseAndElseIfExpressions (PlushModel/Eval.lean), tied to /repo by the `render-gen` stream.
-/
namespace Plush
open EM

/-- the falsy list of the property statement: nil, false, "", empty HTML (nil pointers are outside
    this fragment of the universe; unknown identifiers evaluate to nil at the tolerant sites) -/
def truthySpec : Val → Bool
  | .nil => false
  | .bool v => v
  | .str s => s != []
  | .html s => s != []
  | .ptr _ none => false        -- a typed nil pointer
  | _ => true

theorem C07_truthy (v : Val) : isTruthy v = truthySpec v := by
  cases v <;> simp [isTruthy, Val.tview, Gen.isTruthyView, truthySpec]
  all_goals (rename_i s; cases s <;> simp [Val.tview, Gen.isTruthyView, truthySpec])

/-- 0, empty collections and every other value are truthy -/
theorem C07_zero_and_empty_truthy (a : Nat) :
    isTruthy (.int 0) = true ∧ isTruthy (.list .any a) = true ∧ isTruthy (.map .string .any a) = true ∧
    isTruthy (.ilist []) = true ∧ isTruthy (.float ⟨0, 0⟩) = true := by
  simp [isTruthy, Val.tview, Gen.isTruthyView]

/-- what a condition contributes: its value, with an unknown identifier counting as nil -/
def condValue (r : R Val) : Option Val :=
  match r with
  | .ok v => some v
  | .err e => if e.direct then some .nil else none
  | .fatal _ => none

/-- the state after a condition: when an unknown-identifier failure is forgiven, the statement it happened in
    is no longer blamed (`c.curStmt = cur`); otherwise the state the evaluation left -/
def condState (s : ES) (r : R Val) (s' : ES) : ES :=
  match r with
  | .err e => if e.direct then { s' with curStmt := s.curStmt } else s'
  | _ => s'

/-- `!e`: the negation of the operand's truth value (unknown identifier = nil = falsy) -/
theorem C07_bang (fuel : Nat) (t : Token) (r : Option Expr) (s s' : ES) (res : R Val) (v : Val)
    (h : evalExpr fuel r s = (res, s')) (hv : condValue res = some v) :
    evalExpr (fuel + 1) (some (.pre t (b "!") r)) s = (.ok (.bool (!truthySpec v)), condState s res s') := by
  rw [← C07_truthy]
  cases res with
  | ok a =>
    simp [condValue] at hv; subst hv
    simp [evalExpr, bind, attempt, h, pure, getS, forgive, modifyS, condState]
  | err e =>
    simp only [condValue] at hv
    by_cases hd : e.direct = true
    · simp [hd] at hv; subst hv
      simp [evalExpr, bind, attempt, h, pure, getS, forgive, modifyS, condState, hd]
    · simp [hd] at hv
  | fatal f => simp [condValue] at hv

/-- `if (c) {…}` takes the then-block exactly when the condition is truthy -/
theorem C07_if_true (fuel : Nat) (c : Option Expr) (bl : Block) (elifs els) (s s' : ES) (res : R Val) (v : Val)
    (h : evalExpr fuel c s = (res, s')) (hv : condValue res = some v) (ht : truthySpec v = true) :
    evalIf (fuel + 1) c bl elifs els s = evalBlock fuel bl (condState s res s') := by
  rw [← C07_truthy] at ht
  cases res with
  | ok a =>
    simp [condValue] at hv; subst hv
    simp [evalIf, bind, attempt, h, pure, getS, forgive, modifyS, condState, ht]
  | err e =>
    simp only [condValue] at hv
    by_cases hd : e.direct = true
    · simp [hd] at hv; subst hv; simp [isTruthy, Val.tview, Gen.isTruthyView] at ht
    · simp [hd] at hv
  | fatal f => simp [condValue] at hv

theorem C07_if_false (fuel : Nat) (c : Option Expr) (bl : Block) (elifs els) (s s' : ES) (res : R Val) (v : Val)
    (h : evalExpr fuel c s = (res, s')) (hv : condValue res = some v) (ht : truthySpec v = false) :
    evalIf (fuel + 1) c bl elifs els s = evalElifs fuel elifs els (condState s res s') := by
  rw [← C07_truthy] at ht
  cases res with
  | ok a =>
    simp [condValue] at hv; subst hv
    simp [evalIf, bind, attempt, h, pure, getS, forgive, modifyS, condState, ht]
  | err e =>
    simp only [condValue] at hv
    by_cases hd : e.direct = true
    · simp [hd] at hv; subst hv
      simp [evalIf, bind, attempt, h, pure, getS, forgive, modifyS, condState, hd, isTruthy, Val.tview, Gen.isTruthyView]
    · simp [hd] at hv
  | fatal f => simp [condValue] at hv

/-- all conditions of `pre` are evaluated in order and are falsy, taking the state from `s` to `s'`
    (each with the fuel the evaluator gives it) -/
inductive AllFalsy : Nat → List (Token × Option Expr × Block) → ES → ES → Prop
  | nil (fuel s) : AllFalsy fuel [] s s
  | cons (fuel t c bl rest s s1 s' res v) :
      evalExpr fuel c s = (res, s1) → condValue res = some v → truthySpec v = false →
      AllFalsy fuel rest (condState s res s1) s' → AllFalsy (fuel + 1) ((t, c, bl) :: rest) s s'

/-- CHAIN: if the else-if conditions before position k are falsy and the k-th is truthy, the chain
    evaluates to exactly the k-th block — whatever follows (later conditions are not evaluated: they do
    not occur in the right-hand side), for chains of any length. -/
theorem C07_chain_first (pre : List (Token × Option Expr × Block)) :
    ∀ (fuel : Nat) (t : Token) (c : Option Expr) (bl : Block) (post els) (s s1 s2 : ES) (res : R Val) (v : Val),
    AllFalsy (fuel + pre.length + 1) pre s s1 →
    evalExpr fuel c s1 = (res, s2) → condValue res = some v → truthySpec v = true →
    evalElifs (fuel + pre.length + 1) (pre ++ (t, c, bl) :: post) els s = evalBlock fuel bl (condState s1 res s2) := by
  induction pre with
  | nil =>
    intro fuel t c bl post els s s1 s2 res v hf h hv ht
    cases hf
    rw [← C07_truthy] at ht
    cases res with
    | ok a =>
      simp [condValue] at hv; subst hv
      simp [evalElifs, bind, attempt, h, pure, getS, forgive, modifyS, condState, ht]
    | err e =>
      simp only [condValue] at hv
      by_cases hd : e.direct = true
      · simp [hd] at hv; subst hv; simp [isTruthy, Val.tview, Gen.isTruthyView] at ht
      · simp [hd] at hv
    | fatal f => simp [condValue] at hv
  | cons x pre ih =>
    intro fuel t c bl post els s s1 s2 res v hf h hv ht
    obtain ⟨tx, cx, blx⟩ := x
    have hlen : fuel + (((tx, cx, blx) :: pre).length) + 1 = (fuel + pre.length + 1) + 1 := by simp; omega
    rw [hlen] at hf
    cases hf with
    | cons _ _ _ _ _ _ sm _ resx vx hx hvx htx hrest =>
      have ih' := ih fuel t c bl post els (condState s resx sm) s1 s2 res v hrest h hv ht
      rw [← C07_truthy] at htx
      have hstep : evalElifs (fuel + ((tx, cx, blx) :: pre).length + 1) ((tx, cx, blx) :: pre ++ (t, c, bl) :: post) els s
          = evalElifs (fuel + pre.length + 1) (pre ++ (t, c, bl) :: post) els (condState s resx sm) := by
        have : fuel + ((tx, cx, blx) :: pre).length + 1 = (fuel + pre.length + 1) + 1 := by simp; omega
        rw [this]
        cases resx with
        | ok a =>
          simp [condValue] at hvx; subst hvx
          simp [evalElifs, bind, attempt, hx, pure, getS, forgive, modifyS, condState, htx]
        | err e =>
          simp only [condValue] at hvx
          by_cases hd : e.direct = true
          · simp [hd] at hvx; subst hvx
            simp [evalElifs, bind, attempt, hx, pure, getS, forgive, modifyS, condState, hd, isTruthy, Val.tview, Gen.isTruthyView]
          · simp [hd] at hvx
        | fatal f => simp [condValue] at hvx
      rw [hstep]; exact ih'

/-- … and when every condition is falsy the else block (or nothing) is the result -/
theorem C07_chain_none (elifs : List (Token × Option Expr × Block)) :
    ∀ (fuel : Nat) (els : Option Block) (s s1 : ES), AllFalsy (fuel + elifs.length + 1) elifs s s1 →
    evalElifs (fuel + elifs.length + 1) elifs els s =
      (match els with | some eb => evalBlock fuel eb s1 | none => (.ok .nil, s1)) := by
  induction elifs with
  | nil =>
    intro fuel els s s1 hf
    cases hf
    cases els <;> simp [evalElifs, pure]
  | cons x pre ih =>
    intro fuel els s s1 hf
    obtain ⟨tx, cx, blx⟩ := x
    have hlen : fuel + (((tx, cx, blx) :: pre).length) + 1 = (fuel + pre.length + 1) + 1 := by simp; omega
    rw [hlen] at hf
    cases hf with
    | cons _ _ _ _ _ _ sm _ resx vx hx hvx htx hrest =>
      have ih' := ih fuel els (condState s resx sm) s1 hrest
      rw [← C07_truthy] at htx
      have : fuel + ((tx, cx, blx) :: pre).length + 1 = (fuel + pre.length + 1) + 1 := by simp; omega
      rw [this]
      cases resx with
      | ok a =>
        simp [condValue] at hvx; subst hvx
        simp [evalElifs, bind, attempt, hx, pure, getS, forgive, modifyS, condState, htx]; exact ih'
      | err e =>
        simp only [condValue] at hvx
        by_cases hd : e.direct = true
        · simp [hd] at hvx; subst hvx
          simp [evalElifs, bind, attempt, hx, pure, getS, forgive, modifyS, hd, isTruthy, Val.tview, Gen.isTruthyView]
          simpa [condState, hd] using ih'
        · simp [hd] at hvx
      | fatal f => simp [condValue] at hvx

end Plush
