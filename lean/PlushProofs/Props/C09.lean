import PlushModel
import PlushProofs.Lib.EvalKeepsCur
import PlushProofs.Lib.EvalKeepsTree
import PlushModel.Gen.EvalDispatch
import PlushProofs.Props.C10
/-!
  C09 — names bound inside for / function / partial / contentOf scopes never leak or clobber.
  Each of these constructs evaluates its body in a FRESH child context and makes the caller's context
  current again afterwards — on success and on error. Writes (`let`, assignment, parameter binding) go
  to the current context only (`ctxSet`), and by C10_isolation a write to a child is invisible to its
  ancestors and siblings. Tied to /repo by the `render-gen` stream (nested for / fn / blkw / partial /
  contentFor with let, shadowing let and probes).
-/
set_option maxRecDepth 4000
namespace Plush
open EM

/-- the result is a value or a Go error (not "out of fuel" / outside the model) -/
def settled {α} (r : R α) : Prop := ∀ f, r ≠ .fatal f

/-- the scope combinator every construct uses: whatever `m` does, afterwards the context that was
    current before is current again — on success and on error -/
theorem withCtx_restores {α} (c : Nat) (m : EM α) (s s' : ES) (r : R α)
    (h : withCtx c m s = (r, s')) (hs : settled r) : s'.cur = s.cur := by
  simp only [withCtx, bind, getCur, getS, setCur, modifyS, attempt, pure] at h
  cases hm : m { s with cur := c } with
  | mk res sm =>
    simp only [hm] at h
    cases res with
    | ok a => simp [pure] at h; obtain ⟨_, rfl⟩ := h; rfl
    | err e => simp [throwErr] at h; obtain ⟨_, rfl⟩ := h; rfl
    | fatal f => simp at h; obtain ⟨rfl, _⟩ := h; exact absurd rfl (hs f)

attribute [local irreducible] Store.newChild Store.injectHelpers in
/-- `for`: the body runs under `withCtx` on a fresh child; the caller's context is current again afterwards -/
theorem C09_for_restores (fuel : Nat) (key val : Bytes) (it : Option Expr) (bl : Option Block) (s s' : ES) (r : R Val)
    (h : evalFor (fuel + 1) key val it bl s = (r, s')) (hs : settled r) : s'.cur = s.cur := by
  simp only [evalFor, bind, getCur, getS, ctxNewChild, copyFrame, modifyS, pure] at h
  have h' := withCtx_restores _ _ _ _ _ h hs
  rw [h']; split <;> rfl

attribute [local irreducible] Store.newChild Store.injectHelpers in
/-- user function call: parameters are bound and the body runs in a fresh child under `withCtx` -/
theorem C09_userfn_restores (fuel : Nat) (ps : List Ident) (body : Block) (args : List (Option Expr))
    (s s1 s' : ES) (vals : List Val) (r : R Val) (hlen : ¬ args.length < ps.length)
    (ha : evalExprs fuel (args.take ps.length) s = (.ok vals, s1))
    (h : evalUserFn (fuel + 1) ps body args s = (r, s')) (hs : settled r) : s'.cur = s1.cur := by
  simp [evalUserFn, hlen, bind, ha, getCur, getS, ctxNewChild, pure] at h
  cases hw : withCtx (s1.store.newChild s1.cur).2 (fnBody fuel ps vals body)
      { s1 with store := (s1.store.newChild s1.cur).1 } with
  | mk rw sw =>
    rw [hw] at h
    cases rw with
    | ok a =>
      simp at h; obtain ⟨rfl, rfl⟩ := h
      exact withCtx_restores _ _ { s1 with store := (s1.store.newChild s1.cur).1 } _ (.ok a) hw (fun f hf => by cases hf)
    | err e =>
      simp at h; obtain ⟨rfl, rfl⟩ := h
      exact withCtx_restores _ _ { s1 with store := (s1.store.newChild s1.cur).1 } _ (.err e) hw (fun f hf => by cases hf)
    | fatal f => simp at h; obtain ⟨rfl, _⟩ := h; exact absurd rfl (hs f)

/-- block helpers with their own context (`BlockWith`, used by contentOf / contentFor / blkw): if the
    block evaluates (to a value or an error) the evaluator's context is the caller's again -/
theorem C09_blockWith_restores (fuel : Nat) (bl : Block) (ctx : Nat) (s sw : ES) (rw : R Val)
    (hw : withCtx ctx (evalBlock fuel bl) s = (rw, sw)) (hs : settled rw) : sw.cur = s.cur :=
  withCtx_restores _ _ _ _ _ hw hs

theorem C09_blockWith_shape (fuel : Nat) (bl : Block) (ctx : Nat) :
    blockWith (fuel + 1) (some bl) ctx = (do let v ← withCtx ctx (evalBlock fuel bl); renderVal v) := by
  simp [blockWith]

/-- `let` and assignment write to the CURRENT context only: every other frame of the store is unchanged -/
theorem C09_set_local (k : Bytes) (v : Val) (s : ES) (d : Nat) (hd : d ≠ s.cur) :
    ((ctxSet k v s).2).store.frames[d]? = s.store.frames[d]? := by
  simp only [ctxSet, modifyS, Store.set]
  cases hf : s.store.frames[s.cur]? with
  | none => rfl
  | some f => simp [Array.getElem?_setIfInBounds, Ne.symm hd]

/-! ### Evaluator-wide: the current context is restored everywhere (proof in `PlushProofs/Lib/EvalKeepsCur.lean`) -/

/-- EVERY EVALUATOR FUNCTION LEAVES THE CURRENT CONTEXT WHAT IT WAS — on success and on error — for every
    program, every data and every fuel: expressions, statements, blocks, loops (all three iteration forms),
    user-function calls, argument binding, block helpers, contentFor/contentOf, partials with layouts, nested
    renders. All 27 functions of the evaluator's mutual recursion are walked by one tactic (`keepscur_ih`); the
    only two places that switch contexts by hand (`withCtx`, `renderIn`) are proved to switch back. So no scope
    a construct opens can stay current after the construct ends: names bound inside it cannot leak that way. -/
theorem C09_context_restored_everywhere (fuel : Nat) : AllCur fuel := allCur fuel

/-- instance: any expression, in any state -/
theorem C09_expr_restores_context (fuel : Nat) (e : Option Expr) (s : ES) (h : settledR (evalExpr fuel e s).1) :
    (evalExpr fuel e s).2.cur = s.cur := (allCur fuel).evalExpr e s h

/-- instance: a whole render started in context `ctx` comes back with the caller's context -/
theorem C09_render_restores_context (fuel : Nat) (src : Bytes) (ctx : Nat) (s : ES) (h : settledR (renderIn fuel src ctx s).1) :
    (renderIn fuel src ctx s).2.cur = s.cur := (allCur fuel).renderIn src ctx s h

/-! ### Evaluator-wide: the scope tree is append-only (proof in `PlushProofs/Lib/EvalKeepsTree.lean`) -/

/-- NO SCOPE IS EVER REMOVED OR RE-PARENTED, for every program, data and fuel, on success, on error and on a
    fatal outcome alike: after any evaluator function has run, every context that existed before still exists
    and has the same parent (`Store.Grows`: the frame array only grows, the `outer` link of every old frame is
    unchanged). Evaluation creates child scopes (`ctxNewChild`) and writes variables (`Store.set`), nothing
    else touches the store. All 27 functions are walked by one tactic. Together with
    `C09_context_restored_everywhere` this is the shape of the scope discipline: a fixed tree that grows at the
    leaves, and a cursor that always returns to where it was. -/
theorem C09_scope_tree_append_only (fuel : Nat) : AllKT fuel := allKT fuel

/-- instance: a whole render, whatever it does, leaves every existing scope's parent link alone -/
theorem C09_render_keeps_scope_tree (fuel : Nat) (src : Bytes) (ctx : Nat) (s : ES) :
    s.store.Grows (renderIn fuel src ctx s).2.store := ((allKT fuel).renderIn src ctx).grows s

/-- instance, spelled out for one scope `i` that exists before an expression is evaluated -/
theorem C09_expr_keeps_parent (fuel : Nat) (e : Option Expr) (s : ES) (i : Nat) (hi : i < s.store.frames.size) :
    ((evalExpr fuel e s).2.store.frames[i]?).map Frame.outer = (s.store.frames[i]?).map Frame.outer :=
  (((allKT fuel).evalExpr e).grows s).2 i hi

/-! ### The code's side of "restored everywhere": every scope switch has a deferred restore (translated) -/

/-- EVERY PLACE IN /repo THAT MAKES ANOTHER CONTEXT CURRENT RESTORES THE PREVIOUS ONE BY `defer` — so also on the
    error paths — as re-read from the source on every run (`Gen.ctxSwitchSites`: all assignments `x.ctx = …` in
    compiler.go, helper_context.go, partial_helper.go, template.go, plush.go, with whether a `defer` registered
    before them in the same or an enclosing block assigns the saved context back). This is the syntactic fact that
    licenses modelling all five sites with `withCtx` (which restores on success AND on error,
    `withCtx_restores`); the evaluator-wide theorem `C09_context_restored_everywhere` is about that model. A
    restore moved after the body (seeded changes C16-f, C09-h), or dropped on one path (C11-c), flips an entry. -/
theorem C09_every_scope_switch_is_deferred :
    Gen.ctxSwitchSites = [("compiler.go:evalUserFunction", true), ("compiler.go:evalCallExpression", true),
      ("compiler.go:evalForExpression", true), ("compiler.go:evalIndexCallee", true),
      ("helper_context.go:BlockWith", true)] ∧ ∀ p ∈ Gen.ctxSwitchSites, p.2 = true := by
  constructor
  · rfl
  · decide

end Plush
