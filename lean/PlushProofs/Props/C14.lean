import PlushModel
/-!
  C14 — shared templates, the cache and contexts are safe under concurrent use (the LOGIC part).
  `Gen.contextOps`, `Gen.cacheOps`, `Gen.astWriteSites`, … are TRANSLATED from /repo on every run: per
  function the lock/unlock events and the accesses to the shared location, in source order.
  Theorem `lockset_sound`: for any number of threads, any programs and any schedule, if every access
  to a location happens while its mutex is held, no reachable configuration has two threads about to
  access it with one of them writing. What the model cannot exhibit: weak-memory reorderings and the
  interleavings inside user-supplied helpers; those are explored with the race detector (oracle C14).
-/
namespace Plush
open Gen

/-- walk one thread's events: `none` = an access to `loc` outside a critical section of `m` (or a
    lock taken twice / released while not held); `some h` = fine, ending with "m held" = h -/
def lockCheck (m loc : String) : Bool → List Ev → Option Bool
  | h, [] => some h
  | h, .lock m' :: rest => if m' = m then (if h then none else lockCheck m loc true rest) else lockCheck m loc h rest
  | h, .unlock m' :: rest => if m' = m then (if h then lockCheck m loc false rest else none) else lockCheck m loc h rest
  | h, .rd l :: rest => if l = loc ∧ h = false then none else lockCheck m loc h rest
  | h, .wr l :: rest => if l = loc ∧ h = false then none else lockCheck m loc h rest

/-- an operation is disciplined when, entered without the mutex, it accesses `loc` only under it and
    leaves without it -/
def Disciplined (ops : List (String × List Ev)) (loc m : String) : Prop :=
  ∀ op ∈ ops, lockCheck m loc false op.2 = some false

instance (ops loc m) : Decidable (Disciplined ops loc m) := by unfold Disciplined; exact inferInstance

/-- context.go: Set, Value (hence Has and New) and export touch `c.data` only under `c.moot` -/
theorem C14_context : Disciplined contextOps "Context.data" "Context.moot" := by decide

/-- plush.go: the template cache is read and written only under the package mutex -/
theorem C14_cache : Disciplined cacheOps "cache" "plush.moot" := by decide

/-- the evaluator never assigns through an AST-typed variable, assigns `Template.program` only in Parse
    (before the first Exec), and writes no package-level variable: executions share only read-only data -/
theorem C14_exec_writes_local :
    astWriteSites = [] ∧ programWriteSites = ["Parse"] ∧ packageVarWriteSites = [] := by decide

theorem lockCheck_append (m loc : String) : ∀ (a : List Ev) (h : Bool) (c : List Ev),
    lockCheck m loc h (a ++ c) = (lockCheck m loc h a).bind (fun h' => lockCheck m loc h' c) := by
  intro a
  induction a with
  | nil => intro h c; rfl
  | cons e rest ih =>
    intro h c
    cases e <;> simp only [List.cons_append, lockCheck] <;> (repeat' split) <;> first | exact ih _ _ | simp

/-- any sequence of disciplined operations is again disciplined -/
theorem disciplined_seq (ops : List (String × List Ev)) (loc m : String) (hd : Disciplined ops loc m) :
    ∀ (calls : List (String × List Ev)), (∀ c ∈ calls, c ∈ ops) →
      lockCheck m loc false (calls.flatMap (·.2)) = some false := by
  intro calls
  induction calls with
  | nil => intro _; rfl
  | cons c rest ih =>
    intro hmem
    simp only [List.flatMap_cons, lockCheck_append]
    rw [hd c (hmem c (by simp))]
    exact ih (fun x hx => hmem x (by simp [hx]))

-- ---------- the scheduler model and lockset soundness ----------

structure St where
  progs : Nat → List Ev            -- remaining program of each thread (any number of threads)
  holder : String → Option Nat     -- mutex ↦ holding thread

inductive Step : St → St → Prop
  | lock (s t m rest) : s.progs t = .lock m :: rest → s.holder m = none →
      Step s { progs := fun u => if u = t then rest else s.progs u,
               holder := fun m' => if m' = m then some t else s.holder m' }
  | unlock (s t m rest) : s.progs t = .unlock m :: rest → s.holder m = some t →
      Step s { progs := fun u => if u = t then rest else s.progs u,
               holder := fun m' => if m' = m then none else s.holder m' }
  | rd (s t l rest) : s.progs t = .rd l :: rest →
      Step s { s with progs := fun u => if u = t then rest else s.progs u }
  | wr (s t l rest) : s.progs t = .wr l :: rest →
      Step s { s with progs := fun u => if u = t then rest else s.progs u }

inductive Reach (s0 : St) : St → Prop
  | refl : Reach s0 s0
  | step {s s'} : Reach s0 s → Step s s' → Reach s0 s'

def accesses (loc : String) : List Ev → Bool
  | .rd l :: _ => l = loc
  | .wr l :: _ => l = loc
  | _ => false
def writes (loc : String) : List Ev → Bool
  | .wr l :: _ => l = loc
  | _ => false

/-- two different threads are both about to access `loc`, one of them writing -/
def Race (loc : String) (s : St) : Prop :=
  ∃ t u, t ≠ u ∧ accesses loc (s.progs t) = true ∧ accesses loc (s.progs u) = true ∧
    (writes loc (s.progs t) = true ∨ writes loc (s.progs u) = true)

/-- invariant: every thread's remaining program passes the check from its current "holds m" state -/
def LInv (m loc : String) (s : St) : Prop :=
  ∀ t, (lockCheck m loc (s.holder m == some t) (s.progs t)).isSome = true

theorem inv_step {m loc : String} {s s' : St} (hi : LInv m loc s) (hs : Step s s') : LInv m loc s' := by
  intro u
  cases hs with
  | lock t m' rest hp hh =>
    have hu := hi u
    by_cases hut : u = t
    · subst hut
      simp only [if_pos rfl]
      rw [hp] at hu; simp only [lockCheck] at hu
      by_cases hm : m' = m
      · subst hm
        simp only [if_true] at hu ⊢
        rw [hh] at hu
        simpa using hu
      · simp only [if_neg hm] at hu
        have : (if m = m' then some u else s.holder m) = s.holder m := by simp [Ne.symm hm]
        simp only [this]; exact hu
    · simp only [if_neg hut]
      by_cases hm : m = m'
      · subst hm
        have hne : (t == u) = false := by simp; exact fun h => hut h.symm
        rw [hh] at hu
        simp only [if_true]
        simpa [hne] using hu
      · simp only [if_neg hm]; exact hu
  | unlock t m' rest hp hh =>
    have hu := hi u
    by_cases hut : u = t
    · subst hut
      simp only [if_pos rfl]
      rw [hp] at hu; simp only [lockCheck] at hu
      by_cases hm : m' = m
      · subst hm
        simp only [if_true] at hu ⊢
        rw [hh] at hu
        simpa using hu
      · simp only [if_neg hm] at hu
        have : (if m = m' then none else s.holder m) = s.holder m := by simp [Ne.symm hm]
        simp only [this]; exact hu
    · simp only [if_neg hut]
      by_cases hm : m = m'
      · subst hm
        have hne : (t == u) = false := by simp; exact fun h => hut h.symm
        rw [hh] at hu
        simp only [if_true]
        simpa [hne] using hu
      · simp only [if_neg hm]; exact hu
  | rd t l rest hp =>
    have hu := hi u
    by_cases hut : u = t
    · subst hut; simp only [if_pos rfl]; rw [hp] at hu
      simp only [lockCheck] at hu
      split at hu
      · simp at hu
      · exact hu
    · simp only [if_neg hut]; exact hu
  | wr t l rest hp =>
    have hu := hi u
    by_cases hut : u = t
    · subst hut; simp only [if_pos rfl]; rw [hp] at hu
      simp only [lockCheck] at hu
      split at hu
      · simp at hu
      · exact hu
    · simp only [if_neg hut]; exact hu

theorem check_access {m loc : String} {h : Bool} {p : List Ev}
    (hok : (lockCheck m loc h p).isSome = true) (ha : accesses loc p = true) : h = true := by
  cases p with
  | nil => simp [accesses] at ha
  | cons e rest =>
    cases e <;> simp [accesses] at ha
    all_goals
      subst ha
      simp only [lockCheck] at hok
      cases h
      · simp at hok
      · rfl

/-- LOCKSET SOUNDNESS: any number of threads, any programs, any schedule -/
theorem lockset_sound (m loc : String) (s0 s : St) (h0 : LInv m loc s0) (hr : Reach s0 s) : ¬ Race loc s := by
  have hinv : LInv m loc s := by
    induction hr with
    | refl => exact h0
    | step _ hs ih => exact inv_step ih hs
  rintro ⟨t, u, htu, hat, hau, _⟩
  have h1 := check_access (hinv t) hat
  have h2 := check_access (hinv u) hau
  simp at h1 h2
  rw [h1] at h2; injection h2 with h2; exact htu h2

/-- COROLLARY for Context: whatever sequences of Set / Value / Has / New / export each of any number of
    goroutines performs on one context, in any interleaving, there is never a data race on its map -/
theorem C14_context_race_free (calls : Nat → List (String × List Ev)) (hc : ∀ t, ∀ c ∈ calls t, c ∈ contextOps)
    (s : St) (hr : Reach { progs := fun t => (calls t).flatMap (·.2), holder := fun _ => none } s) :
    ¬ Race "Context.data" s := by
  apply lockset_sound "Context.moot" "Context.data" _ s _ hr
  intro t
  have := disciplined_seq contextOps "Context.data" "Context.moot" C14_context (calls t) (hc t)
  simp [this]

theorem C14_cache_race_free (calls : Nat → List (String × List Ev)) (hc : ∀ t, ∀ c ∈ calls t, c ∈ cacheOps)
    (s : St) (hr : Reach { progs := fun t => (calls t).flatMap (·.2), holder := fun _ => none } s) :
    ¬ Race "cache" s := by
  apply lockset_sound "plush.moot" "cache" _ s _ hr
  intro t
  have := disciplined_seq cacheOps "cache" "plush.moot" C14_cache (calls t) (hc t)
  simp [this]

def iterN {α} (f : α → α) : Nat → α → α
  | 0, a => a
  | n+1, a => iterN f n (f a)

/-- ISOLATION: a thread that only reads shared state and writes its own local state ends, under any
    schedule, in the local state it reaches when run alone (its steps do not depend on the others') -/
theorem C14_isolation {L S : Type} (step : L → S → L) (shared : S) (sched : List Nat) (t : Nat) :
    ∀ (init : Nat → L),
    (sched.foldl (fun (st : Nat → L) u => fun v => if v = u then step (st u) shared else st v) init) t
      = iterN (fun l => step l shared) (sched.count t) (init t) := by
  induction sched with
  | nil => intro init; rfl
  | cons u rest ih =>
    intro init
    simp only [List.foldl_cons]
    rw [ih]
    by_cases h : u = t
    · subst h
      simp [List.count_cons, iterN]
    · have h' : ¬ t = u := fun e => h e.symm
      simp [List.count_cons, h, h']

end Plush
