import PlushModel
import PlushProofs.Lib.LexerSim
import PlushProofs.Lib.StringLit
/-!
  C18 — layout inside code tags is insignificant: whitespace, comments, tag splitting.
  `Gen.isWhitespace`, `Gen.isLetter`, `Gen.isDigit` are TRANSLATED from lexer.go on every run.
  The parser half (statement boundaries: S_START / E_END are skipped inside blocks, the cursor stays on a
  closing brace) is PlushModel/Parser.lean, tied by `parse-tok`; the metamorphic oracle C18 compares
  layouts on the implementation.
-/
namespace Plush
open Gen

/-- what separates tokens inside a tag is exactly space, tab, LF and CR -/
theorem C18_whitespace (c : UInt8) : isWhitespace c = true ↔ c = 32 ∨ c = 9 ∨ c = 10 ∨ c = 13 := by
  simp [isWhitespace, or_assoc]

/-- THE EXCEPTION of the property: '-' continues an identifier and '.' continues an identifier, a path or
    a number, so they fuse with adjacent letters / digits — and nothing else does -/
theorem C18_exception : isLetter 45 = true ∧ isDigit 46 = true ∧ isDot 46 = true := by decide

/-- operator and delimiter bytes never continue an identifier or a number: they always start a new token,
    so whitespace next to them is optional -/
theorem C18_punctuation_separates :
    ∀ c ∈ ([40, 41, 91, 93, 123, 125, 44, 58, 59, 43, 42, 47, 60, 62, 61, 33, 38, 124, 126, 34, 96, 35, 37, 32, 9, 10, 13] : List UInt8),
      (isLetter c || isDigit c) = false := by decide

/-- skipping whitespace stops at the first non-blank byte and is idempotent there -/
theorem C18_skipWs_stops (fuel : Nat) (l : LX) (h : isWhitespace l.ch = false) : LX.skipWsLoop (fuel + 1) l = l := by
  simp [LX.skipWsLoop, h]

theorem C18_skipWs_step (fuel : Nat) (l : LX) (h : isWhitespace l.ch = true) :
    LX.skipWsLoop (fuel + 1) l = LX.skipWsLoop fuel l.readChar := by
  simp [LX.skipWsLoop, h]

/-- a `#` line comment runs to the end of the line (LF or CR) or of the input, and then the next token
    is returned as it is — the byte after it is not skipped -/
theorem C18_comment_stops_at_eol (fuel : Nat) (l : LX) (h0 : l.ch ≠ 0)
    (h : l.readChar.ch = 10 ∨ l.readChar.ch = 13) : LX.skipLineComment (fuel + 1) l = l.readChar := by
  have : (l.ch != 0) = true := by simpa using h0
  rcases h with h | h <;> simp only [LX.skipLineComment, this, h, if_true] <;> simp

/-- inside a block, tag delimiters between statements are skipped: splitting or merging tags does not
    change the statement list (`blockLoop` on S_START / E_END just advances) -/
theorem C18_tag_delims_skipped (fuel : Nat) (acc : List Stmt) (s : PS)
    (h : (P.tokAt s s.pos).type = .S_START ∨ (P.tokAt s s.pos).type = .E_END) :
    (P.blockLoop (fuel + 1) acc).run s = (P.blockLoop fuel acc).run { s with pos := s.pos + 1 } := by
  rcases h with h | h <;>
    simp [P.blockLoop, P.cur, P.nextTok, h, bind, StateT.bind, StateT.run, get, getThe, MonadStateOf.get,
      StateT.get, pure, StateT.pure, Except.pure, Except.bind, modify, modifyGet, MonadStateOf.modifyGet,
      StateT.modifyGet]

/-- `;` after a statement is optional: it is consumed when present and nothing changes otherwise -/
theorem C18_semicolon_optional (s : PS) :
    P.skipSemicolon.run s =
      .ok ((), if (P.tokAt s (s.pos + 1)).type = .SEMICOLON then { s with pos := s.pos + 1 } else s) := by
  by_cases h : (P.tokAt s (s.pos + 1)).type = .SEMICOLON <;>
    simp [P.skipSemicolon, P.peekIs, P.peek, P.nextTok, h, bind, StateT.bind, StateT.run, get, getThe,
      MonadStateOf.get, StateT.get, pure, StateT.pure, Except.pure, Except.bind, modify, modifyGet,
      MonadStateOf.modifyGet, StateT.modifyGet]

/-! ### Suffix determinism and layout insignificance of the scanner (proofs in `PlushProofs/Lib/LexerSim.lean`) -/

/-- SUFFIX DETERMINISM. Inside a tag, what `NextToken` returns (token type and text) and what the scanner sees
    afterwards depend only on the bytes from the cursor on: two scanner states — over different inputs, at
    different offsets, on different lines — that see the same bytes ahead produce the same token and again see
    the same bytes ahead. (`LX.Sim`; the line number is the one thing that may differ.) -/
theorem C18_suffix_determinism (l l' : LX) (hs : LX.Sim l l') :
    LX.TokSim (LX.nextInsideToken (l.input.size + 2) l) (LX.nextInsideToken (l'.input.size + 2) l') :=
  LX.nextInsideToken_sim _ _ l l' hs (by omega) (by omega)

/-- LAYOUT IS INSIGNIFICANT INSIDE A TAG (scanner level): any run of spaces, tabs, line ends and `#` line
    comments in front of a token (`LX.Layout l m`: from `l`, skipping such a run, one arrives at `m`) changes
    neither the token nor what follows. -/
theorem C18_layout_insignificant (l m : LX) (h : LX.Layout l m) (w : l.WF) :
    LX.TokSim (LX.nextInsideToken (l.input.size + 2) l) (LX.nextInsideToken (m.input.size + 2) m) :=
  LX.layout_insignificant h _ _ w (by omega) (by omega)

/-- … also across two templates: different layout in front of the same remaining text gives the same token -/
theorem C18_layout_two_templates (l m l' m' : LX) (h : LX.Layout l m) (h' : LX.Layout l' m') (w : l.WF) (w' : l'.WF)
    (hs : LX.Sim m m') :
    (LX.nextInsideToken (l.input.size + 2) l).1.type = (LX.nextInsideToken (l'.input.size + 2) l').1.type ∧
    (LX.nextInsideToken (l.input.size + 2) l).1.lit = (LX.nextInsideToken (l'.input.size + 2) l').1.lit := by
  have a := LX.layout_insignificant h (l.input.size + 2) (m.input.size + 2) w (by omega) (by omega)
  have c := LX.nextInsideToken_sim (m.input.size + 2) (m'.input.size + 2) m m' hs (by omega) (by omega)
  have d := LX.layout_insignificant h' (l'.input.size + 2) (m'.input.size + 2) w' (by omega) (by omega)
  exact ⟨a.1.trans (c.1.trans d.1.symm), a.2.1.trans (c.2.1.trans d.2.1.symm)⟩

/-- non-vacuity: in ` \n# c\nab` (inside a tag) the layout run ` \n# c\n` leads from offset 0 to the `a` at offset 6 -/
def c18DemoStart : LX := { (LX.new #[32, 10, 35, 32, 99, 10, 97, 98]) with inside := true }
def c18DemoEnd : LX := (LX.skipLineComment 10 c18DemoStart.readChar.readChar).readChar

example : LX.Layout c18DemoStart c18DemoEnd ∧ c18DemoEnd.pos = 6 ∧ c18DemoEnd.ch = 97 := by
  refine ⟨?_, by decide, by decide⟩
  apply LX.Layout.ws _ _ (by decide)
  apply LX.Layout.ws _ _ (by decide)
  apply LX.Layout.comment _ _ (by decide)
  apply LX.Layout.ws _ _ (by decide)
  exact LX.Layout.here _

/-- **what is inside a string literal is inert**: whatever the content `c` of a double-quoted string is — `%>`, `<%`,
    `#`, newlines, braces, semicolons — the scanner comes out of the string exactly one byte after its closing quote and is
    still in code mode: nothing inside was taken for a tag delimiter, a comment or a statement boundary. -/
theorem C18_string_contents_are_inert (l : LX) (w : l.WF) (hin : l.inside = true) (hch : l.ch = 34)
    (c : Bytes) (hno : ∀ x ∈ c, x ≠ 0 ∧ x ≠ 92) (hs : LX.Spells l.input (l.pos + 1) (LX.escQ c ++ [34])) :
    l.nextToken.2.pos = l.pos + 2 + (LX.escQ c).length ∧ l.nextToken.2.inside = true ∧ l.nextToken.1.type = .STRING := by
  have h := LX.nextToken_string l w hin hch c hno hs
  exact ⟨h.2.1, h.2.2.1, by rw [h.1]⟩

/-- the same for back-quoted strings -/
theorem C18_raw_string_contents_are_inert (l : LX) (w : l.WF) (hin : l.inside = true) (hch : l.ch = 96) (e : Nat)
    (hlt : l.pos < e) (hcl : l.input.getD e 0 = 96)
    (hb : ∀ i, l.pos < i → i < e → l.input.getD i 0 ≠ 96 ∧ l.input.getD i 0 ≠ 0) :
    l.nextToken.2.pos = e + 1 ∧ l.nextToken.2.inside = true ∧ l.nextToken.1.type = .B_STRING := by
  have h := LX.nextToken_bstring l w hin hch e hlt hcl hb
  exact ⟨h.2.1, h.2.2.1, by rw [h.1]⟩

end Plush
