import PlushModel
import PlushProofs.Lib.LexerLines
import PlushProofs.Lib.LexerShift
import PlushProofs.Lib.ParserErrLines
import PlushProofs.Props.C05
import PlushProofs.Lib.EvalErrLines
/-!
  C15 — every template error names the line of the failing tag, invariant under shifting.
  Line tracking lives in the lexer (`readChar` bumps the counter on every LF it consumes; a token is
  stamped with the line it starts on), parser messages carry the current token's line, and `compile`
  prefixes runtime errors with the line of the innermost statement still being evaluated.
-/
namespace Plush
open EM

/-- the counter goes up by exactly one per consumed newline, in every scanning loop (they all advance
    through `readChar`) -/
theorem C15_readChar_line (l : LX) :
    l.readChar.line = l.line + (if l.input.getD l.rp 0 = 10 then 1 else 0) := by
  simp only [LX.readChar]
  split <;> simp_all

theorem C15_readChar_advances (l : LX) : l.readChar.rp = l.rp + 1 ∧ l.readChar.pos = l.rp := by
  simp [LX.readChar]

/-- every parser message carries a line: `errHere` stamps the current token's line -/
theorem C15_parser_errors_have_line (kind : String) (s : PS) :
    (P.errHere kind).run s = .ok ((), { s with errs := s.errs.push { line := some (P.tokAt s s.pos).line, kind := kind } }) := by
  simp [P.errHere, P.addErr, P.cur, bind, StateT.bind, StateT.run, get, getThe, MonadStateOf.get, StateT.get,
    pure, StateT.pure, Except.pure, Except.bind, modify, modifyGet, MonadStateOf.modifyGet, StateT.modifyGet]

/-- integer literals that do not fit: the message has the line prefix too (it used not to) -/
theorem C15_bad_int_has_line (fuel : Nat) (s : PS) (h : P.atoi (P.tokAt s s.pos).lit = none) :
    (P.runPrefix (fuel + 1) .parseIntegerLiteral).run s =
      .ok (none, { s with errs := s.errs.push { line := some (P.tokAt s s.pos).line, kind := "could-not-parse-integer" } }) := by
  simp [P.runPrefix, P.errHere, P.addErr, P.cur, h, bind, StateT.bind, StateT.run, get, getThe, MonadStateOf.get,
    StateT.get, pure, StateT.pure, Except.pure, Except.bind, modify, modifyGet, MonadStateOf.modifyGet,
    StateT.modifyGet]

/-- every runtime error that leaves `compile` carries a line: the line of the innermost statement still
    being evaluated, else of the top-level statement itself (restated from C05_compile_error) -/
theorem C15_runtime_errors_have_line (fuel : Nat) (t : Token) (e : Option Expr) (rest : List Stmt) (out : Bytes)
    (s s1 : ES) (er : Err) (h : evalExpr fuel e ({ s with curStmt := none }) = (.err er, s1)) :
    ∃ line er', compileStmts (fuel + 1) (.ret true t e :: rest) out s = (.err er', s1) ∧ er'.line = some line :=
  ⟨_, _, C05_compile_error fuel t e rest out s s1 er h, rfl⟩

/-- a statement that completed is no longer blamed: after it, the enclosing statement is current again -/
theorem C15_curStmt_restored (fuel : Nat) (st : Stmt) (s s1 : ES) (v : Val)
    (h : evalStmtBody fuel st ({ s with curStmt := some st.tok.line }) = (.ok v, s1)) :
    evalStmt (fuel + 1) st s = (.ok v, { s1 with curStmt := s.curStmt }) := by
  simp [evalStmt, bind, getS, modifyS, h, pure]

/-- … while a statement that failed stays current, so `compile` reports ITS line -/
theorem C15_curStmt_kept_on_error (fuel : Nat) (st : Stmt) (s s1 : ES) (e : Err)
    (h : evalStmtBody fuel st ({ s with curStmt := some st.tok.line }) = (.err e, s1)) :
    evalStmt (fuel + 1) st s = (.err e, s1) := by
  simp [evalStmt, bind, getS, modifyS, h]

/-! ### The line counter, globally (proofs in `PlushProofs/Lib/LexerTotal.lean`, `LexerLines.lean`) -/

/-- THE LINE COUNTER IS EXACT, for every input and after any number of `NextToken` calls: `curLine` equals
    1 + the number of line feeds among the bytes consumed so far (text, tags, strings, comments alike) — part
    of the lexer invariant `LX.WF` that Theorem A maintains. -/
theorem C15_line_counter_exact (input : Array UInt8) (n : Nat) :
    (stateAfter n (LX.new input)).line =
      1 + LX.countLF input ((stateAfter n (LX.new input)).pos + 1) := by
  have a := stateAfter_adv n (LX.new input) (LX.new_wf input)
  have := a.wf.ln
  rw [a.input] at this
  exact this

/-- A TOKEN INSIDE A TAG CARRIES THE LINE IT STARTS ON: 1 + the number of line feeds in front of its first byte
    (`tokStart`: after whitespace and `#` comments), however many lines the token itself or its look-ahead spans. -/
theorem C15_token_line (l : LX) (w : l.WF) :
    (LX.nextInsideToken (l.input.size + 2) l).1.line = 1 + LX.countLF l.input (LX.tokStart (l.input.size + 2) l) :=
  LX.inside_token_line _ l w (by omega)

/-- SHIFT INVARIANCE at the scanner: two scanner states that see the same bytes ahead (any two inputs, any
    offsets) produce tokens whose line numbers differ by exactly the difference of the two line counters. So
    whatever is inserted in front of a tag moves every later token's line by the number of line feeds inserted —
    text, tags, strings and comments alike — and changes nothing else about the tokens (`C18_suffix_determinism`). -/
theorem C15_shift_scanner (l l' : LX) (hs : LX.Sim l l') :
    ((LX.nextInsideToken (l'.input.size + 2) l').1.line : Int) - (LX.nextInsideToken (l.input.size + 2) l).1.line
      = (l'.line : Int) - l.line :=
  LX.token_line_shift l l' hs

/-- EVERY SYNTAX ERROR NAMES A LINE, for every source text: each error the parser records carries a line number
    (the `line N:` prefix). Proved by walking all twenty parse functions with one automated step tactic
    (`Lib/ParserErrLines.lean`): no path adds an error without a line. -/
theorem C15_syntax_errors_name_a_line (src : Bytes) (prog : Program) (errs : Array PErr)
    (h : parseBytes src = .ok (prog, errs)) : ∀ e ∈ errs.toList, e.line.isSome = true :=
  parse_errors_have_lines src prog errs h

/-! ### Every error a render returns names a line (proof in `PlushProofs/Lib/EvalErrLines.lean`) -/

/-- EVERY ERROR THAT LEAVES `compile` CARRIES A LINE, for every statement list, every data, every fuel: whatever
    the statement's evaluation did (all 27 evaluator functions, helpers, partials), `compile` stamps the error
    before it leaves — with the line of the innermost statement still being evaluated, else of the top-level
    statement. (Strengthens `C15_runtime_errors_have_line`, which was about one statement form.) -/
theorem C15_compile_errors_name_a_line (fuel : Nat) (stmts : List Stmt) (out : Bytes) (s s' : ES) (e : Err)
    (h : compileStmts fuel stmts out s = (.err e, s')) : e.line.isSome = true :=
  compileStmts_errors_lined fuel stmts out s e s' h

/-- END TO END: every error returned by a render of ANY source text in ANY context names a line — a syntax
    error by `C15_syntax_errors_name_a_line`, a runtime error by `C15_compile_errors_name_a_line`. -/
theorem C15_render_errors_name_a_line (fuel : Nat) (src : Bytes) (ctx : Nat) (s s' : ES) (e : Err)
    (h : renderIn fuel src ctx s = (.err e, s')) : e.line.isSome = true :=
  renderIn_errors_lined fuel src ctx s e s' h

end Plush
