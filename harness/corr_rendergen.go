package main

import (
	"fmt"
	"strings"
)

// Structured generator of (environment, template, feeder) cases for the `render` correspondence
// stream: mostly valid programs over the fragment the Lean evaluator models, plus a malformed share.

type rgType int

const (
	tInt rgType = iota
	tStr
	tBool
	tHTML
	tNil
	tList
	tAny
)

type rgVar struct {
	name string
	ty   rgType
}

const rgEnv = "6e31=i3;6e30=i0;6e6567=i-4;7331=s6162;7365=s;7370=s3c623e2661;6274=t;6266=f;6e6c=n;" +
	"7873=La[i1,i2,i3];7373=Ls[s61,s3c];6973=Li[i5,i6];6d=M[61:i1];6d6d=M[6b:s76,7a:i2];666c=d3/1;6868=h3c693e783c2f693e;" +
	"6563686f=Fecho;6661696c=Ffail;6661696c6966=Ffailif;7469636b=Ftick;6964656e74=Fident;616464=Fadd;636174=Fcat;" +
	"76737472=Fvstr;6f707473=Fopts;626c6b=Fblk;626c6b77=Fblkw;686173626c6b=Fhasblk;68746d6c=Fhtml"

var rgBaseVars = []rgVar{
	{"n1", tInt}, {"n0", tInt}, {"neg", tInt}, {"s1", tStr}, {"se", tStr}, {"sp", tStr}, {"bt", tBool}, {"bf", tBool},
	{"nl", tNil}, {"xs", tList}, {"ss", tList}, {"is", tList}, {"fl", tAny}, {"hh", tHTML},
}

type rgen struct {
	r      *Rng
	vars   []rgVar
	fns    []string // user functions defined so far (1 param, int -> int) and (2 params)
	inLoop bool
	feeder map[string]string
	inPart bool
	inCF   bool
	nlet   int
	errs   bool // allow error-producing expressions
}

func (g *rgen) varsOf(t rgType) []string {
	var out []string
	for _, v := range g.vars {
		if v.ty == t {
			out = append(out, v.name)
		}
	}
	return out
}

func (g *rgen) strLit() string {
	alpha := []string{"a", "b", "<", "&", "'", " ", "x", `\"`, ">", "é", "#", "%>", "<%"}
	n := g.r.Range(0, 3)
	var sb strings.Builder
	for i := 0; i < n; i++ {
		sb.WriteString(Pick(g.r, alpha))
	}
	return `"` + sb.String() + `"`
}

func (g *rgen) intE(d int) string {
	if d <= 0 || g.r.Chance(35) {
		switch g.r.Intn(4) {
		case 0:
			return fmt.Sprint(g.r.Range(0, 9))
		case 1:
			if vs := g.varsOf(tInt); len(vs) > 0 {
				return Pick(g.r, vs)
			}
			return "7"
		case 2:
			return fmt.Sprint(g.r.Range(10, 120))
		default:
			return "n1"
		}
	}
	switch g.r.Intn(12) {
	case 0, 1, 2:
		return g.intE(d-1) + " " + Pick(g.r, []string{"+", "-", "*"}) + " " + g.intE(d-1)
	case 3:
		return g.intE(d-1) + " / " + Pick(g.r, []string{"2", "3", "n1", g.intE(d - 1)})
	case 4:
		return "(" + g.intE(d-1) + ")"
	case 5:
		return "add(" + g.intE(d-1) + ", " + g.intE(d-1) + ")"
	case 6:
		return "len(" + Pick(g.r, []string{"xs", "ss", "s1", "sp", "m", "mm", "nl", `"abc"`}) + ")"
	case 7:
		return "tick()"
	case 8:
		return "xs[" + Pick(g.r, []string{"0", "1", "2", "n0", "3 - 1"}) + "]"
	case 9:
		return `m["a"]`
	case 10:
		if len(g.fns) > 0 {
			f := Pick(g.r, g.fns)
			if strings.HasSuffix(f, "2") {
				return f + "(" + g.intE(d-1) + ", " + g.intE(d-1) + ")"
			}
			return f + "(" + g.intE(d-1) + ")"
		}
		return "is[1]"
	default:
		return "ident(" + g.intE(d-1) + ")"
	}
}

func (g *rgen) strE(d int) string {
	if d <= 0 || g.r.Chance(35) {
		if g.r.Bool() {
			return g.strLit()
		}
		if vs := g.varsOf(tStr); len(vs) > 0 {
			return Pick(g.r, vs)
		}
		return `"q"`
	}
	switch g.r.Intn(10) {
	case 0, 1:
		return g.strE(d-1) + " + " + g.scalarE(d-1)
	case 2:
		return "cat(" + g.strE(d-1) + ", " + g.strE(d-1) + ")"
	case 3:
		return "echo(" + g.anyE(d-1) + ", " + g.anyE(d-1) + ")"
	case 4:
		return "vstr(" + g.strE(d-1) + ", " + g.strE(d-1) + ")"
	case 5:
		return "opts(" + g.strE(d-1) + ", {k: " + g.scalarE(d-1) + "})"
	case 6:
		return "truncate(" + g.strE(d-1) + ", {size: " + fmt.Sprint(g.r.Range(-1, 6)) + Pick(g.r, []string{"", `, trail: "~"`, `, trail: ""`}) + "})"
	case 7:
		return "ss[" + Pick(g.r, []string{"0", "1"}) + "]"
	case 8:
		return `mm["k"]`
	default:
		return "htmlEscape(" + g.strE(d-1) + ")"
	}
}

func (g *rgen) boolE(d int) string {
	if d <= 0 || g.r.Chance(30) {
		return Pick(g.r, []string{"true", "false", "bt", "bf"})
	}
	switch g.r.Intn(10) {
	case 0, 1:
		return g.intE(d-1) + " " + Pick(g.r, []string{"<", "<=", ">", ">=", "==", "!="}) + " " + g.intE(d-1)
	case 2:
		return g.strE(d-1) + " " + Pick(g.r, []string{"==", "!=", "<", ">"}) + " " + g.strE(d-1)
	case 3:
		return "!" + g.boolE(d-1)
	case 4:
		return "!" + g.anyE(d-1)
	case 5, 6:
		return g.boolE(d-1) + " " + Pick(g.r, []string{"&&", "||"}) + " " + g.boolE(d-1)
	case 7:
		return Pick(g.r, []string{"zz", "nl", "n1", "se"}) + " " + Pick(g.r, []string{"==", "!="}) + " nil"
	case 8:
		return "(" + g.boolE(d-1) + ")"
	default:
		return g.anyE(d-1) + " " + Pick(g.r, []string{"&&", "||"}) + " " + g.boolE(d-1)
	}
}

func (g *rgen) scalarE(d int) string {
	switch g.r.Intn(5) {
	case 0, 1:
		return g.intE(d)
	case 2:
		return g.strE(d)
	case 3:
		return g.boolE(d)
	default:
		return Pick(g.r, []string{"nl", "fl", "1.5", "0.25"})
	}
}

func (g *rgen) anyE(d int) string {
	switch g.r.Intn(12) {
	case 0, 1, 2:
		return g.intE(d)
	case 3, 4, 5:
		return g.strE(d)
	case 6, 7:
		return g.boolE(d)
	case 8:
		return Pick(g.r, []string{"nl", "nil", "hh", "fl", "xs", "ss", `raw("<u>")`, `html("<p>")`})
	case 9:
		return "[" + g.scalarE(d-1) + ", " + g.scalarE(d-1) + "]"
	case 10:
		if g.errs {
			return Pick(g.r, []string{"fail()", "zz", "1 / 0", "xs[9]", `1 + "a"`, `"a" - 1`, "failif(bt)", "zz.Name", "nosuch(1)",
				"xs[0 - 1]", `m[nil]`, "failif(bf)", "s1[0]", "add(1)", `add("a", 1)`, "add(1, 2, 3)"})
		}
		return "failif(bf)"
	default:
		return "fl " + Pick(g.r, []string{"+", "-", "*", "<", "=="}) + " " + Pick(g.r, []string{"fl", "1.5", "0.5", "2.0"})
	}
}

func (g *rgen) text() string {
	alpha := []string{"a", " ", "\n", "<b>", "&", "x", "\\", "%", ">", "é", "\\<%", "\"", "#"}
	n := g.r.Range(1, 3)
	var sb strings.Builder
	for i := 0; i < n; i++ {
		sb.WriteString(Pick(g.r, alpha))
	}
	return sb.String()
}

// stmts generates a statement sequence in "tag" style (each statement in its own tag)
func (g *rgen) stmts(d, n int) string {
	var sb strings.Builder
	for i := 0; i < n; i++ {
		sb.WriteString(g.stmt(d))
	}
	return sb.String()
}

func (g *rgen) stmt(d int) string {
	k := g.r.Intn(22)
	if d <= 0 && k >= 8 {
		k = g.r.Intn(8)
	}
	switch k {
	case 0, 1:
		return g.text()
	case 2, 3, 4:
		return "<%= " + g.anyE(2) + " %>"
	case 5:
		name := fmt.Sprintf("v%d", g.nlet%4)
		g.nlet++
		ty := Pick(g.r, []rgType{tInt, tStr, tBool})
		var e string
		switch ty {
		case tInt:
			e = g.intE(2)
		case tStr:
			e = g.strE(2)
		default:
			e = g.boolE(2)
		}
		// a name may change its type: drop older entries of that name
		var vs []rgVar
		for _, v := range g.vars {
			if v.name != name {
				vs = append(vs, v)
			}
		}
		g.vars = append(vs, rgVar{name, ty})
		return "<% let " + name + " = " + e + " %>"
	case 6:
		if vs := g.varsOf(tInt); len(vs) > 0 {
			return "<% " + Pick(g.r, vs) + " = " + g.intE(2) + " %>"
		}
		return "<% " + g.anyE(1) + " %>"
	case 7:
		return "<%# " + Pick(g.r, []string{"note", "a %", "<b>", ""}) + " %>"
	case 8, 9, 10:
		s := "<%= if (" + g.condE() + ") { %>" + g.stmts(d-1, g.r.Range(0, 2))
		for j := g.r.Intn(3); j > 0; j-- {
			s += "<% } else if (" + g.condE() + ") { %>" + g.stmts(d-1, g.r.Range(0, 2))
		}
		if g.r.Bool() {
			s += "<% } else { %>" + g.stmts(d-1, g.r.Range(0, 2))
		}
		return s + "<% } %>"
	case 11, 12, 13:
		iter := Pick(g.r, []string{"xs", "ss", "is", "m", "range(1, 3)", "between(0, 3)", "until(2)", "nl", "[1, 2]", "range(n1, n1)", "groupBy(2, xs)"})
		if g.errs && g.r.Chance(5) {
			iter = Pick(g.r, []string{"n1", "s1", "zz", "fail()"})
		}
		hdr := Pick(g.r, []string{"(k, v)", "(v)", "(i, v)"})
		names := []rgVar{}
		vty := tAny
		switch iter {
		case "xs", "is", "range(1, 3)", "between(0, 3)", "until(2)", "[1, 2]", "range(n1, n1)", "m":
			vty = tInt
		case "ss":
			vty = tStr
		}
		switch hdr {
		case "(k, v)":
			names = append(names, rgVar{"v", vty})
			if iter != "m" {
				names = append(names, rgVar{"k", tInt})
			}
		case "(v)":
			names = append(names, rgVar{"v", vty})
		default:
			names = append(names, rgVar{"v", vty})
			if iter != "m" {
				names = append(names, rgVar{"i", tInt})
			}
		}
		saved, savedLoop := g.vars, g.inLoop
		g.vars = append(append([]rgVar{}, g.vars...), names...)
		if vty == tAny {
			g.vars = saved
		}
		g.inLoop = true
		body := g.stmts(d-1, g.r.Range(0, 3))
		if g.r.Chance(40) {
			pos := Pick(g.r, []string{"<% if (" + g.condE() + ") { " + Pick(g.r, []string{"break", "continue"}) + " } %>", "<% " + Pick(g.r, []string{"break", "continue"}) + " %>"})
			body = g.stmts(d-1, g.r.Range(0, 1)) + pos + body
		}
		g.vars, g.inLoop = saved, savedLoop
		open := Pick(g.r, []string{"<%= ", "<%= ", "<% "})
		return open + "for " + hdr + " in " + iter + " { %>" + body + "<% } %>"
	case 14:
		// user function definition (int -> int) with an if/return chain
		name := fmt.Sprintf("f%d", len(g.fns))
		two := g.r.Bool()
		saved := g.vars
		g.vars = append(append([]rgVar{}, g.vars...), rgVar{"a", tInt})
		params := "a"
		if two {
			params = "a, b"
			g.vars = append(g.vars, rgVar{"b", tInt})
			name += "2"
		}
		body := ""
		for j := g.r.Intn(3); j > 0; j-- {
			body += " if (" + g.boolE(1) + ") { return " + g.intE(1) + " }"
		}
		body += " return " + g.intE(2)
		g.vars = saved
		g.fns = append(g.fns, name)
		return "<% let " + name + " = fn(" + params + ") {" + body + " } %>"
	case 15:
		return "<%= blk() { %>" + g.stmts(d-1, g.r.Range(0, 2)) + "<% } %>"
	case 16:
		saved := g.vars
		g.vars = append(append([]rgVar{}, g.vars...), rgVar{"w", tInt})
		s := "<%= blkw(\"w\", " + g.intE(1) + ") { %>" + g.stmts(d-1, g.r.Range(0, 2)) + "<% } %>"
		g.vars = saved
		return s
	case 17:
		nm := Pick(g.r, []string{"c1", "c2"})
		savedCF := g.inCF
		g.inCF = true // no contentOf inside a stored block: a block that renders itself never terminates
		body := g.stmts(d-1, g.r.Range(0, 2))
		g.inCF = savedCF
		return "<% contentFor(\"" + nm + "\") { %>" + body + "<% } %>"
	case 18:
		if g.inCF {
			return g.text()
		}
		nm := Pick(g.r, []string{"c1", "c2", "c3"})
		switch g.r.Intn(3) {
		case 0:
			return "<%= contentOf(\"" + nm + "\") %>"
		case 1:
			return "<%= contentOf(\"" + nm + "\", {k: " + g.scalarE(1) + "}) %>"
		default:
			return "<%= contentOf(\"" + nm + "\") { %>" + g.stmts(d-1, 1) + "<% } %>"
		}
	case 19:
		// partial (bodies of partials contain no partial calls: no recursion between partials)
		if g.inPart {
			return g.text()
		}
		pn := Pick(g.r, []string{"p1", "p2.html", "p3.js", "missing"})
		if pn != "missing" {
			if _, ok := g.feeder[pn]; !ok {
				saved, sf, sl := g.vars, g.fns, g.inLoop
				g.vars = append(append([]rgVar{}, rgBaseVars...), rgVar{"pk", tInt})
				g.fns, g.inLoop, g.inPart = nil, false, true
				g.feeder[pn] = g.stmts(d-1, g.r.Range(1, 3))
				g.vars, g.fns, g.inLoop, g.inPart = saved, sf, sl, false
			}
		}
		data := "{pk: " + g.intE(1) + "}"
		if g.r.Chance(25) {
			if _, ok := g.feeder["lay"]; !ok {
				g.feeder["lay"] = "[L:" + "<%= yield %>" + "]"
			}
			data = "{pk: " + g.intE(1) + ", layout: \"lay\"}"
		}
		return "<%= partial(\"" + pn + "\", " + data + ") %>"
	case 20:
		if g.inLoop {
			return "<% " + Pick(g.r, []string{"break", "continue"}) + " %>"
		}
		return "<%= hasblk() %>"
	default:
		return "<% " + g.anyE(2) + " %>"
	}
}

func (g *rgen) condE() string {
	if g.r.Chance(70) {
		return g.boolE(2)
	}
	return Pick(g.r, []string{"zz", "nl", "s1", "se", "n0", "xs", "hh", "!zz", "zz == nil", "zz && bt", "bt || zz", "fl", "m"})
}

func genRenderCase(r *Rng, errs bool, ct string) (env, tmpl, feeder string) {
	g := &rgen{r: r, vars: append([]rgVar{}, rgBaseVars...), feeder: map[string]string{}, errs: errs}
	tmpl = g.stmts(3, r.Range(1, 6))
	env = rgEnv
	if ct != "" {
		env += ";636f6e74656e7454797065=s" + hx(ct)
	}
	feeder = "-"
	if len(g.feeder) > 0 {
		var parts []string
		for _, k := range []string{"p1", "p2.html", "p3.js", "lay"} {
			if v, ok := g.feeder[k]; ok {
				parts = append(parts, hx(k)+":"+hx(v))
			}
		}
		feeder = strings.Join(parts, ",")
	}
	return
}

func init() {
	corrStreams["render-gen"] = func(cfg Config, emit func(string)) {
		r := NewRng(cfg.Seed).Fork(11)
		n := cfg.N(20000, 300000)
		for i := 0; i < n; i++ {
			ct := ""
			if i%7 == 3 {
				ct = "application/javascript"
			}
			env, tmpl, feeder := genRenderCase(r, i%3 == 0, ct)
			emit("render " + env + " " + hx(tmpl) + " " + feeder)
		}
	}
}
