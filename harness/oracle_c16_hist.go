package main

import (
	"strconv"
	"strings"
)

// Multi-step histories for the C16 oracle: ONE call site that is evaluated several times within one render while
// the name it calls is bound to DIFFERENT functions (or the same function gets different arguments): a
// higher-order function used with several function arguments, a loop variable that ranges over stored functions,
// a free name that is re-bound between two uses, a callback that changes between two uses of a recursive
// function, a local that holds either function. "Functions are first-class (can be stored, passed and called
// through parameters)": the function that is called is the one the name holds NOW.
//
// A history is a list of top-level items (definitions, lets, assignments, emitted expressions, loops over emitted
// expressions); every emitted value is followed by "|". The reference evaluator runs the items in order.

type c16Item struct {
	// def | let | set | emit | for (N = loop variable, E = iterable, Body)
	// | render (top level only: what follows is ANOTHER template, rendered next with the same context)
	// | partial (N = its name, Data = the local data of the call, Body = the partial's template)
	// | probe (E = a call that may fail on an unset variable, N = the form that forgives it, ID; value discarded)
	T    string
	F    *c16Fn
	Gen  bool // def: a generated decision chain (its body may be shrunk)
	N    string
	E    *c16Expr
	ID   int
	Data []c16Bind
	Body []*c16Item
}

type c16Bind struct {
	N string
	E *c16Expr
}

type c16Hist struct {
	Shape string
	Items []*c16Item
	Plain bool // the family id is Shape as it is (no :single-use variant)
	Exec  bool // templates run through Parse + Exec
}

// c16HistSrc: the templates of the history, in the order they are rendered (split at the render items), and its partials.
func c16HistSrc(items []*c16Item) (steps []string, partials map[string]string) {
	partials = map[string]string{}
	from := 0
	for i, it := range items {
		if it.T == "render" {
			steps = append(steps, c16ItemsSrc(items[from:i], partials))
			from = i + 1
		}
	}
	steps = append(steps, c16ItemsSrc(items[from:], partials))
	if len(partials) == 0 {
		partials = nil
	}
	return steps, partials
}

func c16ItemsSrc(items []*c16Item, partials map[string]string) string {
	var b strings.Builder
	for _, it := range items {
		switch it.T {
		case "partial":
			ds := []string{}
			for _, d := range it.Data {
				ds = append(ds, d.N+": "+d.E.Src())
			}
			b.WriteString("<%= partial(" + strconv.Quote(it.N) + ", {" + strings.Join(ds, ", ") + "}) %>")
			partials[it.N] = c16ItemsSrc(it.Body, partials)
		case "probe":
			b.WriteString(c16ProbeSrc(it.N, it.E, it.ID, ""))
		case "def":
			b.WriteString(it.F.Def())
		case "let":
			b.WriteString("<% let " + it.N + " = " + it.E.Src() + " %>")
		case "set":
			b.WriteString("<% " + it.N + " = " + it.E.Src() + " %>")
		case "emit":
			b.WriteString("<%= " + it.E.Src() + " %>|")
		case "for":
			b.WriteString("<%= for (" + it.N + ") in " + it.E.Src() + " { %>" + c16ItemsSrc(it.Body, partials) + "<% } %>")
		}
	}
	return b.String()
}

func (m *c16Ref) items(items []*c16Item, env *c16Env, out *strings.Builder, uses *int) {
	for _, it := range items {
		switch it.T {
		case "def":
			env.vars[it.F.Name] = c16Val{K: "fn", F: it.F}
		case "let":
			env.vars[it.N] = m.eval(it.E, env)
		case "set":
			e := env
			for ; e != nil; e = e.outer {
				if _, ok := e.vars[it.N]; ok {
					break
				}
			}
			if e == nil {
				panic(c16Stuck{"assignment to unbound " + it.N})
			}
			e.vars[it.N] = m.eval(it.E, env)
		case "emit":
			v := m.eval(it.E, env)
			if v.K == "fn" || v.K == "arr" || v.K == "nil" {
				panic(c16Stuck{"emitted " + v.K})
			}
			out.WriteString(v.Render() + "|")
			*uses++
		case "for":
			arr := m.eval(it.E, env)
			if arr.K != "arr" {
				panic(c16Stuck{"for over " + arr.K})
			}
			for _, x := range *arr.A {
				m.items(it.Body, &c16Env{vars: map[string]c16Val{it.N: x}, outer: env}, out, uses)
			}
		case "render": // the next template, same context: the top-level bindings stay
		case "probe":
			m.probe(it.E, it.N, env)
		case "partial": // the data is evaluated at the call site; the partial runs in a scope of its own below that of the call site
			pe := &c16Env{vars: map[string]c16Val{}, outer: env}
			for _, d := range it.Data {
				v := m.eval(d.E, env)
				if v.K == "nil" || v.K == "arr" {
					panic(c16Stuck{"partial data " + v.K})
				}
				pe.vars[d.N] = v
			}
			m.items(it.Body, pe, out, uses)
		}
	}
}

// c16HistBuild prints the history and computes the expectation (ok=false: the reference cannot evaluate it).
func c16HistBuild(h *c16Hist) (cs *c16Case, ok bool) {
	defer func() {
		if r := recover(); r != nil {
			if _, stuck := r.(c16Stuck); stuck {
				cs, ok = nil, false
				return
			}
			panic(r)
		}
	}()
	m := &c16Ref{}
	var out strings.Builder
	uses := 0
	m.items(h.Items, &c16Env{vars: map[string]c16Val{}}, &out, &uses)
	if uses == 0 || len(m.marks) > 250 {
		return nil, false
	}
	shape := h.Shape
	if h.Plain {
		shape = c16ScopeLabel(h, len(m.probes))
	}
	if uses == 1 && !h.Plain { // nothing happens twice: whatever fails here is not about the history
		shape += ":single-use"
	}
	steps, partials := c16HistSrc(h.Items)
	cs = &c16Case{Tmpl: steps[len(steps)-1], Want: out.String(), Marks: m.marks, Shape: shape, Site: "out", Partials: partials, Exec: h.Exec}
	if len(steps) > 1 {
		cs.Pre = steps[:len(steps)-1]
	}
	for _, p := range m.probes { // one per distinct forgiven failure
		dup := false
		for _, q := range cs.Probes {
			dup = dup || p == q
		}
		if !dup {
			cs.Probes = append(cs.Probes, p)
		}
	}
	return cs, true
}

// c16HistVariants: one item less, one list element less, a simpler body of a generated function.
func c16HistVariants(items []*c16Item) [][]*c16Item {
	out := [][]*c16Item{}
	repl := func(i int, with ...*c16Item) []*c16Item {
		n := append([]*c16Item{}, items[:i]...)
		n = append(n, with...)
		return append(n, items[i+1:]...)
	}
	for i, it := range items {
		if it.T != "def" && it.T != "render" { // the render boundaries stay: they are what a multi-render history is about
			out = append(out, repl(i))
		}
	}
	for i, it := range items {
		if it.E != nil && it.E.T == "list" && len(it.E.Args) > 1 {
			for k := range it.E.Args {
				c := *it
				l := *it.E
				l.Args = append(append([]*c16Expr{}, it.E.Args[:k]...), it.E.Args[k+1:]...)
				c.E = &l
				out = append(out, repl(i, &c))
			}
		}
		if it.T == "partial" && len(it.Data) > 0 { // one data entry less
			for k := range it.Data {
				c := *it
				c.Data = append(append([]c16Bind{}, it.Data[:k]...), it.Data[k+1:]...)
				out = append(out, repl(i, &c))
			}
		}
		if it.T == "for" || it.T == "partial" {
			for _, b := range c16HistVariants(it.Body) {
				if len(b) == 0 {
					continue
				}
				c := *it
				c.Body = b
				out = append(out, repl(i, &c))
			}
		}
	}
	for i, it := range items {
		if it.T == "def" && it.Gen {
			for _, b := range c16Variants(it.F.Body) {
				c := *it
				f := *it.F
				f.Body = b
				c.F = &f
				out = append(out, repl(i, &c))
			}
		}
	}
	for i, it := range items { // a definition nothing mentions any more
		if it.T == "def" {
			out = append(out, repl(i))
		}
	}
	return out
}

// c16HistSingles: the histories with one use only: one of the top-level emitted expressions, one element of a list.
func c16HistSingles(items []*c16Item) [][]*c16Item {
	out := [][]*c16Item{}
	emits := 0
	for i, it := range items {
		if it.T == "emit" {
			emits++
			one := []*c16Item{}
			for j, o := range items {
				if o.T != "emit" || j == i {
					one = append(one, o)
				}
			}
			out = append(out, one)
		}
	}
	if emits > 0 {
		return out
	}
	for i, it := range items {
		if it.E != nil && it.E.T == "list" && len(it.E.Args) > 1 {
			for k := range it.E.Args {
				c := *it
				l := *it.E
				l.Args = []*c16Expr{it.E.Args[k]}
				c.E = &l
				one := append(append([]*c16Item{}, items[:i]...), &c)
				out = append(out, append(one, items[i+1:]...))
			}
		}
	}
	return out
}

func c16RunHist(rep *Report, h *c16Hist) {
	cs, ok := c16HistBuild(h)
	if !ok {
		rep.Tag("not-a-case")
		return
	}
	v := c16Eval(cs)
	if v.Kind != "" {
		// a single use that fails on its own is reported instead (always checked: the history ids are kept for
		// failures that need the history)
		if h.Plain {
			for _, q := range c16ScopeSimpler(h) {
				if c2, ok := c16HistBuild(q); ok && c2.Shape != cs.Shape {
					if w := c16Eval(c2); w.Kind != "" {
						h, cs, v = q, c2, w
						break
					}
				}
			}
		}
		for _, items := range c16HistSingles(h.Items) {
			if h.Plain {
				break
			}
			q := &c16Hist{Shape: h.Shape, Items: items}
			if c2, ok := c16HistBuild(q); ok && strings.HasSuffix(c2.Shape, ":single-use") {
				if w := c16Eval(c2); w.Kind != "" {
					h, cs, v = q, c2, w
					break
				}
			}
		}
		key := "shrunk:" + v.Site
		if rep.Dist[key] < 12 {
			rep.Tag(key)
			base := strings.TrimSuffix(v.Site, ":single-use") // (a scope history keeps its id: what the id names stays in the case)
			for budget := 0; budget < 150; budget++ {
				progress := false
				for _, items := range c16HistVariants(h.Items) {
					q := &c16Hist{Shape: h.Shape, Items: items, Plain: h.Plain, Exec: h.Exec}
					c2, ok := c16HistBuild(q)
					if !ok {
						continue
					}
					if w := c16Eval(c2); w.Kind == v.Kind && strings.TrimSuffix(w.Site, ":single-use") == base {
						h, cs, v, progress = q, c2, w, true
						break
					}
				}
				if !progress {
					break
				}
			}
		}
	}
	c16Record(rep, cs, v)
}

// ---- generation

func c16Lits(tu []c16Val) []*c16Expr {
	out := []*c16Expr{}
	for _, v := range tu {
		out = append(out, c16Lit(v))
	}
	return out
}

func c16Vars(names []string) []*c16Expr {
	out := []*c16Expr{}
	for _, n := range names {
		out = append(out, c16Var(n))
	}
	return out
}

// c16Apply: the value of f(tu) according to the reference, the other functions being visible.
func c16Apply(fs []*c16Fn, f *c16Fn, tu []c16Val) (v c16Val, ok bool) {
	defer func() {
		if r := recover(); r != nil {
			if _, stuck := r.(c16Stuck); stuck {
				ok = false
				return
			}
			panic(r)
		}
	}()
	env := &c16Env{vars: map[string]c16Val{}}
	for _, h := range fs {
		env.vars[h.Name] = c16Val{K: "fn", F: h}
	}
	return (&c16Ref{}).eval(c16Call(f.Name, c16Lits(tu)...), env), true
}

// family: k generated decision chains f1..fk of one signature. Their marks are disjoint, so the marks tell which
// function ran even where the values agree.
func (g *c16Gen) family(k, size int, unary string) []*c16Fn {
	fs := []*c16Fn{}
	g.forcePT, g.forceRT = nil, ""
	if unary != "" {
		g.forcePT, g.forceRT = []string{unary}, unary
	}
	for i := 0; i < k; i++ {
		g.marks, g.locs = 20*i, 10*i
		f := g.fn("f"+strconv.Itoa(i+1), size)
		fs = append(fs, f)
		g.forcePT, g.forceRT = f.PT, f.RT
	}
	g.forcePT, g.forceRT = nil, ""
	return fs
}

// sequence of m function indexes below k, not all the same
func (g *c16Gen) indexes(m, k int) []int {
	seq := make([]int, m)
	for i := range seq {
		seq[i] = g.r.Intn(k)
	}
	seq[1] = (seq[0] + 1 + g.r.Intn(k-1)) % k
	return seq
}

// a tuple for fs[i] after fs[prev] was used: preferably one on which the two differ
func (g *c16Gen) tupleFor(fs []*c16Fn, tuples [][]c16Val, i, prev int) []c16Val {
	if prev >= 0 && prev != i && g.r.Chance(80) {
		c := [][]c16Val{}
		for _, tu := range tuples {
			a, ok1 := c16Apply(fs, fs[i], tu)
			b, ok2 := c16Apply(fs, fs[prev], tu)
			if ok1 && ok2 && a != b {
				c = append(c, tu)
			}
		}
		if len(c) > 0 {
			return Pick(g.r, c)
		}
	}
	return Pick(g.r, tuples)
}

// wrap: the body of a function that calls `call` and returns its value, directly or after using it (compared with
// a literal: mostly a value one of the functions fs has somewhere).
func (g *c16Gen) wrap(call *c16Expr, rt string, fs []*c16Fn, tuples [][]c16Val) []*c16Stmt {
	r := g.r
	body := []*c16Stmt{}
	if r.Chance(30) {
		body = append(body, &c16Stmt{T: "mark", ID: 90 + r.Intn(5)})
	}
	switch w := r.Intn(100); {
	case w < 50:
		body = append(body, c16Ret(call))
	case w < 65:
		body = append(body, &c16Stmt{T: "let", N: "res", E: call}, c16Ret(c16Var("res")))
	case w < 80:
		lit := g.lit(rt)
		if v, ok := c16Apply(fs, Pick(r, fs), Pick(r, tuples)); ok && r.Chance(75) {
			lit = c16Lit(v)
		}
		if r.Bool() {
			body = append(body, c16Ret(c16Bin("==", call, lit)))
		} else {
			body = append(body, &c16Stmt{T: "if", E: c16Bin("==", call, lit), Then: []*c16Stmt{c16Ret(c16Str("eq"))}}, c16Ret(c16Str("ne")))
		}
	default:
		switch rt {
		case "bool":
			body = append(body, &c16Stmt{T: "if", E: call, Then: []*c16Stmt{c16Ret(c16Str("yes"))}}, c16Ret(c16Str("no")))
		case "str":
			body = append(body, c16Ret(c16Bin("+", c16Str("["), call)))
		default:
			body = append(body, c16Ret(c16Bin("+", call, c16Int(1))))
		}
	}
	return body
}

func c16Defs(fs []*c16Fn, gen bool) []*c16Item {
	out := []*c16Item{}
	for _, f := range fs {
		out = append(out, &c16Item{T: "def", F: f, Gen: gen})
	}
	return out
}

func c16Histories(cfg Config, rep *Report, r *Rng) {
	g := &c16Gen{r: r}
	n := cfg.N(700, 5000)
	shapes := []string{"hof", "hof", "hof", "loop", "loop", "rebound", "callback", "callback", "local", "loop-args"}
	for i := 0; i < n && !rep.Full(); i++ {
		h := &c16Hist{}
		emit := func(e *c16Expr) { h.Items = append(h.Items, &c16Item{T: "emit", E: e}) }
		switch shape := shapes[i%len(shapes)]; shape {
		case "hof":
			// ap = fn(g, p..) { return g(p..) }; ap(f1, t) | ap(f2, t') | ...
			h.Shape = "hof-reused-with-another-function"
			k := r.Range(2, 3)
			fs := g.family(k, r.Intn(3), "")
			tuples := c16Tuples(fs[0].PT)
			h.Items = c16Defs(fs, true)
			names := []string{}
			for j := range fs[0].Params {
				if w := r.Intn(3); w == 0 { // ap's parameters are named like those of f1, rotated
					names = append(names, fs[0].Params[(j+1)%len(fs[0].Params)])
				} else {
					names = append(names, "p"+strconv.Itoa(j+1))
				}
			}
			ap := &c16Fn{Name: "ap", Params: append([]string{"g"}, names...), RT: fs[0].RT}
			ap.Body = g.wrap(c16Call("g", c16Vars(names)...), fs[0].RT, fs, tuples)
			h.Items = append(h.Items, &c16Item{T: "def", F: ap})
			// how the function argument is written: its name, a variable that holds it, the value of a chooser
			how := r.Intn(100)
			if how >= 70 && how < 85 {
				for j, f := range fs {
					h.Items = append(h.Items, &c16Item{T: "let", N: "h" + strconv.Itoa(j+1), E: c16Var(f.Name)})
				}
			}
			if how >= 85 {
				ch := &c16Fn{Name: "ch", Params: []string{"i"}, RT: "fn"}
				for j := 1; j < len(fs); j++ {
					ch.Body = append(ch.Body, &c16Stmt{T: "if", E: c16Bin("==", c16Var("i"), c16Int(j)), Then: []*c16Stmt{c16Ret(c16Var(fs[j].Name))}})
				}
				ch.Body = append(ch.Body, c16Ret(c16Var(fs[0].Name)))
				h.Items = append(h.Items, &c16Item{T: "def", F: ch})
			}
			prev := -1
			for _, j := range g.indexes(r.Range(2, 5), k) {
				fe := c16Var(fs[j].Name)
				switch {
				case how >= 85:
					fe = c16Call("ch", c16Int(j))
				case how >= 70:
					fe = c16Var("h" + strconv.Itoa(j+1))
				}
				emit(c16Call("ap", append([]*c16Expr{fe}, c16Lits(g.tupleFor(fs, tuples, j, prev))...)...))
				prev = j
			}
		case "loop":
			// for (h) in [f1, f2, f1] { h(t) }
			h.Shape = "loop-over-functions"
			k := r.Range(2, 4)
			fs := g.family(k, r.Intn(3), "")
			tuples := c16Tuples(fs[0].PT)
			h.Items = c16Defs(fs, true)
			list := &c16Expr{T: "list"}
			for _, j := range g.indexes(r.Range(2, 5), k) {
				list.Args = append(list.Args, c16Var(fs[j].Name))
			}
			lv := Pick(r, []string{"h", "h", "g", "f"})
			tu := g.tupleFor(fs, tuples, 0, 1)
			var it *c16Item
			if len(fs[0].Params) > 0 && r.Chance(30) { // a second loop over the values of the first argument
				av := Pick(r, []string{"v", fs[0].Params[0]})
				vals := &c16Expr{T: "list", Args: c16Lits(c16Pools[fs[0].PT[0]])}
				args := append([]*c16Expr{c16Var(av)}, c16Lits(tu[1:])...)
				inner := &c16Item{T: "for", N: av, E: vals, Body: []*c16Item{{T: "emit", E: c16Call(lv, args...)}}}
				it = &c16Item{T: "for", N: lv, E: list, Body: []*c16Item{inner}}
				if r.Bool() { // the other nesting order
					inner = &c16Item{T: "for", N: lv, E: list, Body: []*c16Item{{T: "emit", E: c16Call(lv, args...)}}}
					it = &c16Item{T: "for", N: av, E: vals, Body: []*c16Item{inner}}
				}
			} else {
				it = &c16Item{T: "for", N: lv, E: list, Body: []*c16Item{{T: "emit", E: c16Call(lv, c16Lits(tu)...)}}}
			}
			if r.Chance(30) && it.E == list { // the list is stored first
				h.Items = append(h.Items, &c16Item{T: "let", N: "fs", E: list})
				it.E = c16Var("fs")
			}
			h.Items = append(h.Items, it)
		case "rebound":
			// u = fn(p..) { return h(p..) }; let h = f1; u(t); h = f2; u(t')
			h.Shape = "free-name-rebound-to-another-function"
			k := r.Range(2, 3)
			fs := g.family(k, r.Intn(3), "")
			tuples := c16Tuples(fs[0].PT)
			h.Items = c16Defs(fs, true)
			names := []string{}
			for j := range fs[0].Params {
				names = append(names, "p"+strconv.Itoa(j+1))
			}
			u := &c16Fn{Name: "u", Params: names, RT: fs[0].RT}
			u.Body = g.wrap(c16Call("h", c16Vars(names)...), fs[0].RT, fs, tuples)
			h.Items = append(h.Items, &c16Item{T: "def", F: u})
			prev := -1
			for _, j := range g.indexes(r.Range(2, 4), k) {
				switch {
				case prev < 0:
					h.Items = append(h.Items, &c16Item{T: "let", N: "h", E: c16Var(fs[j].Name)})
				case j != prev:
					h.Items = append(h.Items, &c16Item{T: Pick(r, []string{"set", "set", "let"}), N: "h", E: c16Var(fs[j].Name)})
				}
				emit(c16Call("u", c16Lits(g.tupleFor(fs, tuples, j, prev))...))
				prev = j
			}
		case "callback":
			// rep(n, g, s) with another g the second time; twice(g, v); comp(g, k, v)
			h.Shape = "callback-combinator-reused-with-another-function"
			t := Pick(r, []string{"int", "str"})
			k := r.Range(2, 3)
			fs := g.family(k, r.Intn(2), t)
			h.Items = c16Defs(fs, true)
			nv, gv, kv, sv := c16Var("n"), c16Var("g"), c16Var("k"), c16Var("s")
			stop := &c16Stmt{T: "if", E: c16Bin("==", nv, c16Int(0)), Then: []*c16Stmt{c16Ret(sv)}}
			dec := c16Bin("-", nv, c16Int(1))
			fuel := &c16Stmt{T: "mark", ID: 99}
			var comb *c16Fn
			var use func(j, j2 int, v c16Val) *c16Expr
			fn := func(j int) *c16Expr { return c16Var(fs[j].Name) }
			switch r.Intn(5) {
			case 0:
				comb = &c16Fn{Name: "rep", Params: []string{"n", "g", "s"}, Body: []*c16Stmt{fuel, stop, c16Ret(c16Call("rep", dec, gv, c16Call("g", sv)))}}
				use = func(j, j2 int, v c16Val) *c16Expr { return c16Call("rep", c16Int(r.Range(1, 3)), fn(j), c16Lit(v)) }
			case 1: // the callback first, applied on the way back
				comb = &c16Fn{Name: "rep", Params: []string{"g", "n", "s"}, Body: []*c16Stmt{fuel, stop, c16Ret(c16Call("g", c16Call("rep", gv, dec, sv)))}}
				use = func(j, j2 int, v c16Val) *c16Expr { return c16Call("rep", fn(j), c16Int(r.Range(1, 3)), c16Lit(v)) }
			case 2:
				comb = &c16Fn{Name: "twice", Params: []string{"g", "s"}, Body: []*c16Stmt{c16Ret(c16Call("g", c16Call("g", sv)))}}
				use = func(j, j2 int, v c16Val) *c16Expr { return c16Call("twice", fn(j), c16Lit(v)) }
			case 3:
				comb = &c16Fn{Name: "comp", Params: []string{"g", "k", "s"}, Body: []*c16Stmt{c16Ret(c16Call("g", c16Call("k", sv)))}}
				use = func(j, j2 int, v c16Val) *c16Expr { return c16Call("comp", fn(j), fn(j2), c16Lit(v)) }
			default: // both callbacks, alternating on the way down
				comb = &c16Fn{Name: "zig", Params: []string{"n", "g", "k", "s"}, Body: []*c16Stmt{fuel, stop, c16Ret(c16Call("zig", dec, kv, gv, c16Call("g", sv)))}}
				use = func(j, j2 int, v c16Val) *c16Expr {
					return c16Call("zig", c16Int(r.Range(1, 3)), fn(j), fn(j2), c16Lit(v))
				}
			}
			h.Items = append(h.Items, &c16Item{T: "def", F: comb})
			seq := g.indexes(r.Range(2, 4), k)
			for x, j := range seq {
				emit(use(j, seq[(x+1)%len(seq)], Pick(r, c16Pools[t])))
			}
		case "local":
			// sel = fn(t, p..) { let h = f1; if (t) { let h = f2 }; return h(p..) }
			h.Shape = "local-holds-either-function"
			fs := g.family(2, r.Intn(3), "")
			tuples := c16Tuples(fs[0].PT)
			h.Items = c16Defs(fs, true)
			names := []string{}
			for j := range fs[0].Params {
				names = append(names, "p"+strconv.Itoa(j+1))
			}
			sel := &c16Fn{Name: "sel", Params: append([]string{"t"}, names...), RT: fs[0].RT}
			sel.Body = []*c16Stmt{{T: "let", N: "h", E: c16Var("f1")},
				{T: "if", E: c16Var("t"), Then: []*c16Stmt{{T: "let", N: "h", E: c16Var("f2")}}}}
			sel.Body = append(sel.Body, g.wrap(c16Call("h", c16Vars(names)...), fs[0].RT, fs, tuples)...)
			h.Items = append(h.Items, &c16Item{T: "def", F: sel})
			prev := -1
			for _, j := range g.indexes(r.Range(2, 4), 2) {
				emit(c16Call("sel", append([]*c16Expr{c16Bool(j == 1)}, c16Lits(g.tupleFor(fs, tuples, j, prev))...)...))
				prev = j
			}
		case "loop-args":
			// for (v) in [0, 1, 2] { f(.., v, ..) }: one call site, the same function, other argument values
			h.Shape = "loop-over-argument-values"
			var f *c16Fn
			for try := 0; try < 10; try++ {
				g.marks, g.locs = 0, 0
				f = g.fn("f", r.Intn(3))
				if len(f.Params) > 0 {
					break
				}
			}
			if len(f.Params) == 0 {
				continue
			}
			tuples := c16Tuples(f.PT)
			h.Items = c16Defs([]*c16Fn{f}, true)
			pos := r.Intn(len(f.Params))
			lv := Pick(r, []string{"v", f.Params[pos], f.Params[(pos+1)%len(f.Params)]})
			vals := &c16Expr{T: "list"}
			for x, m := 0, r.Range(2, 4); x < m; x++ {
				vals.Args = append(vals.Args, c16Lit(Pick(r, c16Pools[f.PT[pos]])))
			}
			args := c16Lits(Pick(r, tuples))
			args[pos] = c16Var(lv)
			call := c16Call("f", args...)
			if r.Chance(25) { // through a higher-order function
				names := []string{}
				for j := range f.Params {
					names = append(names, "p"+strconv.Itoa(j+1))
				}
				ap := &c16Fn{Name: "ap", Params: append([]string{"g"}, names...), RT: f.RT}
				ap.Body = g.wrap(c16Call("g", c16Vars(names)...), f.RT, []*c16Fn{f}, tuples)
				h.Items = append(h.Items, &c16Item{T: "def", F: ap})
				call = c16Call("ap", append([]*c16Expr{c16Var("f")}, args...)...)
			}
			h.Items = append(h.Items, &c16Item{T: "for", N: lv, E: vals, Body: []*c16Item{{T: "emit", E: call}}})
		}
		c16RunHist(rep, h)
	}
}
