package main

// Shared by the C13 and C14 oracles: named environments (Go data + helpers rebuilt from the name), a
// structured generator of plush programs over every construct, the canonical form of an outcome (blocks of a
// for-over-Go-map loop compared as a multiset) and a reflective AST walk used only to *label* failures.

import (
	"fmt"
	"html/template"
	"reflect"
	"regexp"
	"sort"
	"strconv"
	"strings"

	plush "github.com/gobuffalo/plush/v5"
	"github.com/gobuffalo/plush/v5/ast"
	"github.com/gobuffalo/plush/v5/helpers/hctx"
)

// ---------------------------------------------------------------------------------------------------------
// Environments
// ---------------------------------------------------------------------------------------------------------

type c13User struct {
	Name string
	Age  int
	Tags []string
	Boss *c13User
}

func (u *c13User) Greet() string        { return "hi " + u.Name }
func (u c13User) Shout(s string) string { return strings.ToUpper(s) + "!" }

// c13Iter is a Go-side plush.Iterator (stateful: one per execution).
type c13Iter struct{ i, n int }

func (it *c13Iter) Next() interface{} {
	if it.i >= it.n {
		return nil
	}
	it.i++
	return it.i * 10
}

var c13EnvNames = []string{"e0", "e1", "e2", "e3"}

// A data set can come in a second "theme": the name "e0~b" is the plain data of e0 with other *function-valued*
// data - a partial feeder that serves other texts under the same partial names (one name exists only there, one
// fails only in the base theme) and helpers wrap/up that are bound to other functions. Context data is data:
// two contexts that differ only in what their feeder or helpers return are different data for the same
// template text. Themed names are used by C13 only (they are not in c13EnvNames).
const c13ThemeSep = "~"

func c13SplitEnv(name string) (base, theme string) {
	if i := strings.Index(name, c13ThemeSep); i >= 0 {
		return name[:i], name[i+1:]
	}
	return name, ""
}

var c13PartialsB = map[string]string{
	"p_plain":   `(P=<%= x %>)`,
	"p_loop":    `<%= for (i, v) in xs { %><%= i %>:<%= v %>;<% } %>`,
	"p_nest":    `<%= partial("p_plain", {x: y}) %>?<%= y %>`,
	"p_tick":    `{T<%= tick() %>/<%= tick() %>}`,
	"p_layout":  `<M><%= yield %></M>`,
	"p_err":     `[no error here]`,
	"p_if":      `<%= if (x) { %>on<% } else { %>off<% } %>`,
	"p_fn":      `<% let pf = fn(a) { return a * 2 } %><%= pf(x) %>`,
	"p_missing": `[found <%= n %>]`,
	"p_rec":     `[<%= x %>:<%= if (x > 0) { %><%= partial("p_rec", {x: x - 1}) %>;<% } %><%= x %>]`,
}

var c13Partials = map[string]string{
	"p_plain":  `[p:<%= x %>]`,
	"p_loop":   `<%= for (v) in xs { %><%= v %>,<% } %>`,
	"p_nest":   `<%= partial("p_plain", {x: y}) %>!`,
	"p_tick":   `{t<%= tick() %>}`,
	"p_layout": `<L><%= yield %></L>`,
	"p_err":    `<%= fail("in partial") %>`,
	"p_if":     `<%= if (x) { %>yes<% } else { %>no<% } %>`,
	"p_fn":     `<% let pf = fn(a) { return a + 1 } %><%= pf(x) %>`,
	// a partial that includes itself (a tree, a menu, a thread): every level prints its x, the nested level, its x again
	"p_rec": `(<%= x %><%= if (x > 0) { %><%= partial("p_rec", {x: x - 1}) %><% } %><%= x %>)`,
}

// c13EnvShared returns the stateless part of an environment: plain data and helpers without state. Every call
// builds fresh values, so a template that mutates a slice or map cannot influence another execution. The
// helpers are pure functions of their arguments (and of the block they are given) and touch no shared state.
func c13EnvShared(name string) map[string]interface{} {
	name, theme := c13SplitEnv(name)
	d := c13EnvSharedBase(name)
	if theme != "" {
		d["partialFeeder"] = func(n string) (string, error) {
			if p, ok := c13PartialsB[n]; ok {
				return p, nil
			}
			return "", fmt.Errorf("theme %s has no partial %q", theme, n)
		}
		d["up"] = func(s string) string { return strings.ToUpper(s) + "^" }
		d["wrap"] = func(help plush.HelperContext) (template.HTML, error) {
			s, err := help.Block()
			if err != nil {
				return "", err
			}
			return template.HTML("<W>" + s + "</W>"), nil
		}
	}
	return d
}

// c13SetV is the helper setv(coll, at, v): it stores v into the slice or map it is given, in place (what a Go
// helper that sorts or fills its argument does), and prints nothing.
func c13SetV(coll, at, v interface{}) (string, error) {
	switch c := coll.(type) {
	case []interface{}:
		i, ok := at.(int)
		if !ok || i < 0 || i >= len(c) {
			return "", fmt.Errorf("setv: no element %v in a list of %d", at, len(c))
		}
		c[i] = v
	case map[string]interface{}:
		k, ok := at.(string)
		if !ok || c == nil {
			return "", fmt.Errorf("setv: %v is not a key", at)
		}
		c[k] = v
	default:
		return "", fmt.Errorf("setv: cannot store into %T", coll)
	}
	return "", nil
}

// c13Attrs prints an options map as attributes, sorted by name.
func c13Attrs(m map[string]interface{}) string {
	ks := make([]string, 0, len(m))
	for k := range m {
		ks = append(ks, k)
	}
	sort.Strings(ks)
	var sb strings.Builder
	for _, k := range ks {
		sb.WriteString(" " + k + `="` + template.HTMLEscapeString(fmt.Sprint(m[k])) + `"`)
	}
	return sb.String()
}

// Helpers written the way the tag and form helpers of the buffalo ecosystem are: they take a trailing options
// map (which a call may leave out, like the trailing HelperContext) and work IN the map they are handed - their
// own class is appended, defaults are filled in, consumed keys are deleted, a counter is kept. Each is a pure
// function of its arguments: it keeps nothing between calls, and what it prints is determined by the label /
// name, the options it was given and its block.
func c13Btn(label string, opts map[string]interface{}) template.HTML {
	cls := "btn"
	if c, ok := opts["class"].(string); ok && c != "" {
		cls = c + " btn"
	}
	opts["class"] = cls
	return template.HTML("<button" + c13Attrs(opts) + ">" + template.HTMLEscapeString(label) + "</button>")
}

func c13Field(name string, opts hctx.Map) template.HTML {
	lbl := name
	if l, ok := opts["label"]; ok {
		lbl = fmt.Sprint(l)
		delete(opts, "label")
	}
	if _, ok := opts["id"]; !ok {
		opts["id"] = "f-" + name
	}
	if _, ok := opts["type"]; !ok {
		opts["type"] = "text"
	}
	opts["tabindex"] = len(opts)
	return template.HTML("<label>" + template.HTMLEscapeString(lbl) + "</label><input" + c13Attrs(opts) + ">")
}

func c13TagB(name string, opts map[string]interface{}, help plush.HelperContext) (template.HTML, error) {
	n, _ := opts["n"].(int)
	opts["n"] = n + 1
	body := ""
	if help.HasBlock() {
		s, err := help.Block()
		if err != nil {
			return "", err
		}
		body = s
	}
	return template.HTML("<" + name + c13Attrs(opts) + ">" + body + "</" + name + ">"), nil
}

// c13Optn takes nothing but the options: it counts the entries it was given and marks the map as seen.
func c13Optn(opts map[string]interface{}) string {
	n := len(opts)
	opts["seen"+strconv.Itoa(n)] = true
	return "#" + strconv.Itoa(n)
}

func c13EnvSharedBase(name string) map[string]interface{} {
	d := map[string]interface{}{
		"setv":  c13SetV,
		"btn":   c13Btn,
		"field": c13Field,
		"tagb":  c13TagB,
		"optn":  c13Optn,
		"fail":  func(msg string) (string, error) { return "", fmt.Errorf("failed: %s", msg) },
		"up":    func(s string) string { return strings.ToUpper(s) },
		"add":   func(a, b int) int { return a + b },
		"wrap": func(help plush.HelperContext) (template.HTML, error) {
			s, err := help.Block()
			if err != nil {
				return "", err
			}
			return template.HTML("<w>" + s + "</w>"), nil
		},
		"twice": func(help plush.HelperContext) (template.HTML, error) {
			a, err := help.Block()
			if err != nil {
				return "", err
			}
			b, err := help.Block()
			if err != nil {
				return "", err
			}
			return template.HTML(a + "+" + b), nil
		},
		"withv": func(n int, help plush.HelperContext) (template.HTML, error) {
			c := help.New()
			c.Set("bv", n)
			s, err := help.BlockWith(c)
			if err != nil {
				return "", err
			}
			return template.HTML("(" + s + ")"), nil
		},
		"partialFeeder": func(n string) (string, error) {
			if p, ok := c13Partials[n]; ok {
				return p, nil
			}
			return "", fmt.Errorf("no partial %q", n)
		},
	}
	boss := &c13User{Name: "Ann", Age: 50, Tags: []string{"ceo"}}
	switch name {
	case "e1": // empties, nils, falsy values, missing names (sz, kk, u.Boss)
		d["n"] = 0
		d["s"] = ""
		d["t"] = false
		d["ff"] = false
		d["xs"] = []int{}
		d["ss"] = []string{}
		d["ys"] = []interface{}{}
		d["m"] = map[string]int{}
		d["mi"] = map[string]interface{}{}
		d["u"] = &c13User{Name: "", Age: 0, Tags: nil}
		d["nilv"] = nil
	case "e2": // larger collections: eight-entry maps make every Go map order about equally likely
		d["n"] = 7
		d["kk"] = 12
		d["s"] = "plush"
		d["sz"] = "go"
		d["t"] = true
		d["ff"] = false
		d["xs"] = []int{5, 4, 3, 2, 1, 0}
		d["ss"] = []string{"x", "y", "z", "w"}
		d["ys"] = []interface{}{1, "two", true, 4.5}
		d["m"] = map[string]int{"a": 1, "b": 2, "c": 3, "d": 4, "e": 5, "f": 6, "g": 7, "h": 8}
		d["mi"] = map[string]interface{}{"a": "A", "b": 2, "c": true, "d": 1.5, "e": "E", "f": 6, "g": false, "h": "H"}
		d["u"] = &c13User{Name: "Bob", Age: 31, Tags: []string{"dev", "ops", "qa"}, Boss: boss}
		d["nilv"] = nil
	case "e3": // strings that need escaping, other numeric types
		d["n"] = 3
		d["kk"] = -2
		d["s"] = `<b>"q"&'a'</b>`
		d["sz"] = "a&b"
		d["t"] = true
		d["ff"] = false
		d["xs"] = []int{-1, 0, 1}
		d["ss"] = []string{"<i>", "&amp;", "'"}
		d["ys"] = []interface{}{template.HTML("<em>"), "<em>", 2}
		d["m"] = map[string]int{"a": -1, "b": 0}
		d["mi"] = map[string]interface{}{"a": "<x>", "b": template.HTML("<y>")}
		d["u"] = &c13User{Name: "<Eve>", Age: 27, Tags: []string{"<t>"}, Boss: boss}
		d["nilv"] = nil
	default: // e0
		d["n"] = 2
		d["kk"] = 5
		d["s"] = "str"
		d["sz"] = "other"
		d["t"] = true
		d["ff"] = false
		d["xs"] = []int{3, 1, 2}
		d["ss"] = []string{"a", "b", "c"}
		d["ys"] = []interface{}{1, "b", false}
		d["m"] = map[string]int{"a": 1, "b": 2, "c": 3}
		d["mi"] = map[string]interface{}{"a": "A", "b": 2, "c": true}
		d["u"] = &c13User{Name: "Joe", Age: 40, Tags: []string{"x", "y"}, Boss: boss}
		d["nilv"] = nil
	}
	return d
}

// c13EnvLocal returns the per-execution part: the counting helper tick() (1,2,3,... per context), a stateful
// Go iterator and the execution's identity gid.
func c13EnvLocal(name string, gid int) map[string]interface{} {
	name, _ = c13SplitEnv(name)
	cnt := 0
	n := 3
	if name == "e1" {
		n = 0
	}
	return map[string]interface{}{
		"tick": func() int { cnt++; return cnt },
		"it":   &c13Iter{n: n},
		"gid":  gid,
	}
}

// c13NewCtx builds a fresh root context for one execution.
func c13NewCtx(env string) *plush.Context {
	d := c13EnvShared(env)
	for k, v := range c13EnvLocal(env, 0) {
		d[k] = v
	}
	return plush.NewContextWith(d)
}

// ---------------------------------------------------------------------------------------------------------
// Canonical outcome
// ---------------------------------------------------------------------------------------------------------

// Every for loop over a Go map generated here wraps its body in ⟦id: … ⟧. Adjacent blocks with the same id are
// sorted (recursively), which compares the iteration blocks as a multiset: the one variation C13 licenses.
const c13Open, c13Close = '⟦', '⟧'

func c13CanonOut(s string) string {
	if !strings.ContainsRune(s, c13Open) {
		return s
	}
	rs := []rune(s)
	pos := 0
	var parse func(top bool) (string, bool)
	parse = func(top bool) (string, bool) {
		type item struct {
			id   string // "" = text
			text string
		}
		var items []item
		var txt []rune
		flush := func() {
			if len(txt) > 0 {
				items = append(items, item{"", string(txt)})
				txt = nil
			}
		}
		closed := false
		for pos < len(rs) {
			c := rs[pos]
			if c == c13Open {
				flush()
				pos++
				st := pos
				for pos < len(rs) && rs[pos] != ':' && rs[pos] != c13Open && rs[pos] != c13Close {
					pos++
				}
				if pos >= len(rs) || rs[pos] != ':' {
					return "", false
				}
				id := string(rs[st:pos])
				pos++
				inner, ok := parse(false)
				if !ok {
					return "", false
				}
				items = append(items, item{id, inner})
				continue
			}
			if c == c13Close {
				if top {
					return "", false
				}
				pos++
				closed = true
				break
			}
			txt = append(txt, c)
			pos++
		}
		if !top && !closed {
			return "", false
		}
		flush()
		for i := 0; i < len(items); {
			j := i
			for j < len(items) && items[j].id != "" && items[j].id == items[i].id {
				j++
			}
			if j > i+1 {
				sub := items[i:j]
				sort.SliceStable(sub, func(a, b int) bool { return sub[a].text < sub[b].text })
			}
			if j == i {
				j = i + 1
			}
			i = j
		}
		var sb strings.Builder
		for _, it := range items {
			if it.id == "" {
				sb.WriteString(it.text)
			} else {
				sb.WriteString(string(c13Open) + it.id + ":" + it.text + string(c13Close))
			}
		}
		return sb.String(), true
	}
	out, ok := parse(true)
	if !ok {
		return s
	}
	return out
}

// c13CanonMsg is the canonical form of an error or panic message. A message can quote a value that contains
// the output of a for-over-map loop (e.g. "… is an invalid argument" prints the argument); there the blocks are
// not adjacent (values are printed with separators), so all top-level blocks of the message are taken out and
// compared as one multiset.
func c13CanonMsg(s string) string {
	if !strings.ContainsRune(s, c13Open) {
		return s
	}
	rs := []rune(s)
	var outside strings.Builder
	var blocks []string
	depth, start := 0, 0
	for i, c := range rs {
		switch c {
		case c13Open:
			if depth == 0 {
				start = i
			}
			depth++
		case c13Close:
			if depth == 0 {
				return s
			}
			depth--
			if depth == 0 {
				blocks = append(blocks, c13CanonOut(string(rs[start:i+1])))
				outside.WriteString("⟦⟧")
			}
		default:
			if depth == 0 {
				outside.WriteRune(c)
			}
		}
	}
	if depth != 0 {
		return s
	}
	sort.Strings(blocks)
	return outside.String() + " <<" + strings.Join(blocks, "") + ">>"
}

var c13AddrRe = regexp.MustCompile(`0x[0-9a-fA-F]{5,}`)

// c13Canon is what two executions are compared on: the output (map-loop blocks as multisets) or the error
// message. Machine addresses printed into a message (%v of a func or pointer argument) are not data.
func c13Canon(o Obs) string {
	switch o.Kind() {
	case "OK":
		return "OK:" + c13CanonOut(o.Out)
	case "ERR":
		return "ERR:" + c13CanonMsg(c13AddrRe.ReplaceAllString(o.Err.Error(), "0xADDR"))
	case "PANIC":
		return "PANIC:" + o.Site + ":" + c13CanonMsg(c13AddrRe.ReplaceAllString(o.Panic, "0xADDR"))
	}
	return "HANG"
}

func c13Short(s string) string {
	if len(s) > 160 {
		return s[:160] + "…"
	}
	return s
}

// ---------------------------------------------------------------------------------------------------------
// AST walk (labels failures only; never decides pass/fail)
// ---------------------------------------------------------------------------------------------------------

func c13Walk(v reflect.Value, depth int, visit func(n interface{})) {
	if depth > 400 || !v.IsValid() {
		return
	}
	switch v.Kind() {
	case reflect.Interface:
		if !v.IsNil() {
			c13Walk(v.Elem(), depth+1, visit)
		}
	case reflect.Ptr:
		if v.IsNil() {
			return
		}
		if v.Elem().Kind() == reflect.Struct && strings.HasSuffix(v.Type().Elem().PkgPath(), "/ast") {
			visit(v.Interface())
			c13Walk(v.Elem(), depth+1, visit)
		}
	case reflect.Struct:
		for i := 0; i < v.NumField(); i++ {
			if v.Type().Field(i).PkgPath != "" {
				continue // unexported
			}
			c13Walk(v.Field(i), depth+1, visit)
		}
	case reflect.Slice:
		for i := 0; i < v.Len(); i++ {
			c13Walk(v.Index(i), depth+1, visit)
		}
	case reflect.Map:
		it := v.MapRange()
		for it.Next() {
			c13Walk(it.Key(), depth+1, visit)
			c13Walk(it.Value(), depth+1, visit)
		}
	}
}

type c13Feat struct {
	hashDup     bool // some hash literal spells one key twice
	hashEffects bool // some hash literal has >= 2 values that are not plain literals (calls, lookups)
	hashes      int
	mapLoops    int
}

func c13Features(p *ast.Program) c13Feat {
	var f c13Feat
	if p == nil {
		return f
	}
	c13Walk(reflect.ValueOf(p), 0, func(n interface{}) {
		h, ok := n.(*ast.HashLiteral)
		if !ok {
			return
		}
		f.hashes++
		seen := map[string]bool{}
		nonLit := 0
		for _, k := range h.Order {
			if k == nil {
				continue
			}
			lit := k.TokenLiteral()
			if seen[lit] {
				f.hashDup = true
			}
			seen[lit] = true
			plain := true
			c13Walk(reflect.ValueOf(h.Pairs[k]), 0, func(m interface{}) {
				switch m.(type) {
				case *ast.CallExpression, *ast.Identifier, *ast.IndexExpression:
					plain = false
				}
			})
			if !plain {
				nonLit++
			}
		}
		if nonLit >= 2 {
			f.hashEffects = true
		}
	})
	return f
}

// ---------------------------------------------------------------------------------------------------------
// Program generator
// ---------------------------------------------------------------------------------------------------------

type c13GenOpt struct {
	// NoHashEffects: hash literals get distinct keys and values without side effects or failures, so their
	// result does not depend on the order in which the values are evaluated (used by C14, whose subject is
	// concurrency, not the evaluation order).
	NoHashEffects bool
	// NoSharedWrites: no index assignment into data that comes from the environment (in C14 that data is shared
	// between goroutines through the parent context; writing to it would be the template author's race).
	NoSharedWrites bool
	// Wide (C13 only): statements that build a list or hash out of constants (also nested, also with one
	// evaluated element), update it in place - element assignment, accumulation in a loop, a Go helper that
	// stores into its argument - and read it back. A value the evaluator hands out for a literal must be the
	// template's own: if it shared storage with the parsed program, the next execution would see the update.
	// Also: calls of Go helpers that work in the options map they are handed (btn, field, tagb, optn), with the
	// map left out, given as a literal, or given as a variable; and statements that start another execution of
	// the template that is running (again(k), partial("self", …), the self-including partial p_rec) and read
	// their own scope afterwards. These need the names lvl / again / self, which only C13's contexts bind.
	Wide bool
}

type c13Fn struct {
	name  string
	arity int
	pure  bool
	ret   bool // body is `return e`: on the current code the returned object also ends the caller's block
}

type c13Hash struct {
	name string
	keys []string
}

type c13Scope struct {
	ints, strs, bools, arrs, anys []string
	localArrs                     []string // arrays created by the template itself
	hashes                        []c13Hash
	fns                           []c13Fn
	contents                      []string
	pure                          bool // inside a for-over-map body: nothing whose result depends on the visiting order
	inLoop                        bool
	depth                         int
}

func (s *c13Scope) clone() *c13Scope {
	c := *s
	cp := func(x []string) []string { return append([]string(nil), x...) }
	c.ints, c.strs, c.bools, c.arrs, c.anys = cp(s.ints), cp(s.strs), cp(s.bools), cp(s.arrs), cp(s.anys)
	c.localArrs, c.contents = cp(s.localArrs), cp(s.contents)
	c.hashes = append([]c13Hash(nil), s.hashes...)
	c.fns = append([]c13Fn(nil), s.fns...)
	return &c
}

type c13Gen struct {
	r     *Rng
	opt   c13GenOpt
	nid   int
	kinds map[string]bool // constructs used by the current program
}

func c13NewGen(r *Rng, opt c13GenOpt) *c13Gen { return &c13Gen{r: r, opt: opt} }

func (g *c13Gen) fresh(p string) string { g.nid++; return p + strconv.Itoa(g.nid) }
func (g *c13Gen) use(k string)          { g.kinds[k] = true }

// Program returns one template and the set of construct kinds it contains.
func (g *c13Gen) Program() (string, []string) {
	g.nid = 0
	g.kinds = map[string]bool{}
	sc := &c13Scope{
		ints:  []string{"n", "kk", "gid"},
		strs:  []string{"s", "sz"},
		bools: []string{"t", "ff"},
		arrs:  []string{"xs", "ss", "ys"},
		anys:  []string{"u.Age", "u.Name"},
	}
	if g.opt.Wide {
		sc.ints = append(sc.ints, "lvl")
	}
	var sb strings.Builder
	g.block(&sb, sc, g.r.Range(1, 6))
	ks := make([]string, 0, len(g.kinds))
	for k := range g.kinds {
		ks = append(ks, k)
	}
	sort.Strings(ks)
	return sb.String(), ks
}

var c13Texts = []string{"a", "b ", " c", "\n", "<p>", "</p>", "&amp;", "x=1;", "-", "|", "é", "  "}

func (g *c13Gen) block(sb *strings.Builder, sc *c13Scope, n int) {
	for i := 0; i < n; i++ {
		g.stmt(sb, sc)
	}
}

func (g *c13Gen) stmt(sb *strings.Builder, sc *c13Scope) {
	r := g.r
	deep := sc.depth >= 3
	if g.opt.Wide && !sc.pure {
		switch k := r.Intn(100); {
		case k < 7:
			g.mutateLocal(sb, sc)
			return
		case k < 12:
			g.optsHelper(sb, sc)
			return
		case k < 14 && !deep:
			g.reenter(sb, sc)
			return
		}
	}
	for tries := 0; tries < 20; tries++ {
		k := r.Intn(100)
		switch {
		case k < 10:
			g.use("text")
			sb.WriteString(Pick(r, c13Texts))
			return
		case k < 26:
			g.use("output")
			if len(sc.fns) > 0 && r.Chance(25) {
				f := Pick(r, sc.fns)
				if !sc.pure || (f.pure && !f.ret) {
					g.use("user-fn-call")
					sb.WriteString("<%= " + g.fnCall(sc, f, 1) + " %>")
					return
				}
			}
			sb.WriteString("<%= " + g.anyExpr(sc, 2) + " %>")
			return
		case k < 34:
			g.use("let")
			switch r.Intn(4) {
			case 0:
				v := g.fresh("i")
				sb.WriteString("<% let " + v + " = " + g.intExpr(sc, 2) + " %>")
				sc.ints = append(sc.ints, v)
			case 1:
				v := g.fresh("w")
				sb.WriteString("<% let " + v + " = " + g.strExpr(sc, 2) + " %>")
				sc.strs = append(sc.strs, v)
			case 2:
				v := g.fresh("c")
				sb.WriteString("<% let " + v + " = " + g.boolExpr(sc, 2) + " %>")
				sc.bools = append(sc.bools, v)
			default:
				v, v2 := g.fresh("a"), g.fresh("i")
				// two statements in one tag
				sb.WriteString("<% let " + v + " = " + g.arrLit(sc) + "\n let " + v2 + " = " + g.intExpr(sc, 1) + " %>")
				sc.arrs = append(sc.arrs, v)
				sc.localArrs = append(sc.localArrs, v)
				sc.ints = append(sc.ints, v2)
			}
			return
		case k < 44:
			g.use("hash")
			h := g.fresh("h")
			lit, keys := g.hashLit(sc, !sc.pure && !g.opt.NoHashEffects, g.opt.NoHashEffects)
			sb.WriteString("<% let " + h + " = " + lit + " %>")
			for _, key := range c13Uniq(keys) {
				sb.WriteString("<%= " + h + `["` + key + `"] %>;`)
			}
			sc.hashes = append(sc.hashes, c13Hash{h, c13Uniq(keys)})
			return
		case k < 49:
			if sc.pure {
				continue
			}
			g.use("assign")
			switch r.Intn(3) {
			case 0:
				v := Pick(r, sc.ints)
				sb.WriteString("<% " + v + " = " + g.intExpr(sc, 2) + " %>")
			case 1:
				v := Pick(r, sc.strs)
				sb.WriteString("<% " + v + " = " + g.strExpr(sc, 2) + " %>")
			default:
				v := Pick(r, sc.bools)
				sb.WriteString("<% " + v + " = " + g.boolExpr(sc, 2) + " %>")
			}
			return
		case k < 59:
			if deep {
				continue
			}
			g.use("if")
			open := "<%= "
			if r.Chance(10) {
				open = "<% "
			}
			sb.WriteString(open + "if (" + g.boolExpr(sc, 2) + ") { %>")
			g.sub(sb, sc, nil)
			if r.Chance(40) {
				g.use("else-if")
				sb.WriteString("<% } else if (" + g.boolExpr(sc, 2) + ") { %>")
				g.sub(sb, sc, nil)
			}
			if r.Chance(60) {
				g.use("else")
				sb.WriteString("<% } else { %>")
				g.sub(sb, sc, nil)
			}
			sb.WriteString("<% } %>")
			return
		case k < 68:
			if deep {
				continue
			}
			g.forSeq(sb, sc)
			return
		case k < 75:
			if deep {
				continue
			}
			g.forMap(sb, sc)
			return
		case k < 81:
			if deep {
				continue
			}
			g.fnDef(sb, sc)
			return
		case k < 86:
			if deep {
				continue
			}
			g.use("block-helper")
			switch r.Intn(3) {
			case 0:
				sb.WriteString("<%= wrap() { %>")
				g.sub(sb, sc, nil)
			case 1:
				sb.WriteString("<%= twice() { %>")
				g.sub(sb, sc, nil)
			default:
				sb.WriteString("<%= withv(" + g.intExpr(sc, 1) + ") { %>")
				g.sub(sb, sc, func(c *c13Scope) { c.ints = append(c.ints, "bv") })
			}
			sb.WriteString("<% } %>")
			return
		case k < 91:
			g.use("partial")
			sb.WriteString("<%= " + g.partialCall(sc) + " %>")
			return
		case k < 95:
			if sc.pure || deep {
				continue
			}
			g.use("contentFor")
			name := g.fresh("cf")
			sb.WriteString(`<% contentFor("` + name + `") { %>`)
			g.sub(sb, sc, func(c *c13Scope) { c.strs = append(c.strs, "lbl") })
			sb.WriteString("<% } %>")
			sc.contents = append(sc.contents, name)
			g.contentOf(sb, sc)
			return
		case k < 97:
			g.contentOf(sb, sc)
			return
		case k < 99:
			if sc.pure {
				continue
			}
			g.use("index-assign")
			if len(sc.hashes) > 0 && r.Bool() {
				h := Pick(r, sc.hashes)
				sb.WriteString("<% " + h.name + `["` + Pick(r, h.keys) + `"] = ` + g.intExpr(sc, 1) + " %>")
				return
			}
			pool := sc.localArrs
			if !g.opt.NoSharedWrites {
				pool = sc.arrs
			}
			if len(pool) == 0 {
				continue
			}
			a := Pick(r, pool)
			sb.WriteString("<% " + a + "[" + strconv.Itoa(r.Intn(3)) + "] = " + g.intExpr(sc, 1) + " %>")
			return
		default:
			if !sc.inLoop || sc.pure {
				continue
			}
			g.use("break-continue")
			kw := "break"
			if r.Bool() {
				kw = "continue"
			}
			sb.WriteString("<% if (" + g.boolExpr(sc, 1) + ") { %><% " + kw + " %><% } %>")
			return
		}
	}
	sb.WriteString("~")
}

// sub emits a nested block of 1-3 statements in a copy of the scope.
func (g *c13Gen) sub(sb *strings.Builder, sc *c13Scope, adj func(*c13Scope)) {
	c := sc.clone()
	c.depth++
	if adj != nil {
		adj(c)
	}
	g.block(sb, c, g.r.Range(1, 3))
}

func (g *c13Gen) forSeq(sb *strings.Builder, sc *c13Scope) {
	r := g.r
	kv, vv := g.fresh("k"), g.fresh("v")
	var iter string
	elemInt := false
	switch r.Intn(7) {
	case 0:
		iter = "xs"
		elemInt = true
		g.use("for-slice")
	case 1:
		iter = Pick(r, sc.arrs)
		g.use("for-slice")
	case 2:
		iter = g.arrLit(sc)
		g.use("for-array-literal")
	case 3:
		iter = "range(" + strconv.Itoa(r.Intn(3)) + ", " + strconv.Itoa(r.Range(1, 4)) + ")"
		elemInt = true
		g.use("for-iterator")
	case 4:
		iter = "until(" + strconv.Itoa(r.Intn(4)) + ")"
		elemInt = true
		g.use("for-iterator")
	case 5:
		if sc.pure { // the Go iterator is stateful: a second pass over it is empty
			iter = "ss"
			g.use("for-slice")
			break
		}
		iter = "it"
		elemInt = true
		g.use("for-go-iterator")
	default:
		iter = "u.Tags"
		g.use("for-slice")
	}
	head := "(" + kv + ", " + vv + ")"
	one := r.Chance(30)
	if one {
		head = "(" + vv + ")"
	}
	sb.WriteString("<%= for " + head + " in " + iter + " { %>")
	g.sub(sb, sc, func(c *c13Scope) {
		c.inLoop = true
		if !one {
			c.ints = append(c.ints, kv)
		}
		if elemInt {
			c.ints = append(c.ints, vv)
		} else {
			c.anys = append(c.anys, vv)
		}
	})
	sb.WriteString("<% } %>")
}

func (g *c13Gen) forMap(sb *strings.Builder, sc *c13Scope) {
	r := g.r
	kv, vv := g.fresh("k"), g.fresh("v")
	id := g.fresh("")
	var iter string
	valInt := false
	switch r.Intn(4) {
	case 0:
		iter = "m"
		valInt = true
		g.use("for-go-map")
	case 1:
		iter = "mi"
		g.use("for-go-map")
	case 2:
		// a hash bound to a fresh name that nothing else refers to (so it is not updated before the loop)
		lit, _ := g.hashLit(sc, !sc.pure && !g.opt.NoHashEffects, true)
		iter = g.fresh("h")
		sb.WriteString("<% let " + iter + " = " + lit + " %>")
		g.use("for-hash-var")
	default:
		iter, _ = g.hashLit(sc, !sc.pure && !g.opt.NoHashEffects, true)
		g.use("for-hash-literal")
	}
	// The body prints the key and the value and is otherwise independent of them (and free of side effects), so
	// that every visiting order yields the same multiset of blocks or the same error.
	_ = valInt
	sb.WriteString("<%= for (" + kv + ", " + vv + ") in " + iter + " { %>" + string(c13Open) + id + ":<%= " + kv + " %>=<%= " + vv + " %>,")
	g.sub(sb, sc, func(c *c13Scope) {
		c.pure = true
		c.inLoop = true
	})
	sb.WriteString(string(c13Close) + "<% } %>")
}

func (g *c13Gen) fnDef(sb *strings.Builder, sc *c13Scope) {
	r := g.r
	g.use("user-fn")
	name := g.fresh("f")
	ar := r.Intn(3)
	ps := []string{}
	for i := 0; i < ar; i++ {
		ps = append(ps, g.fresh("p"))
	}
	pure := sc.pure || r.Bool()
	body := sc.clone()
	body.depth++
	body.pure = pure
	body.inLoop = false
	body.ints = append(body.ints, ps...)
	ret := !sc.pure && r.Bool()
	if ret {
		// expression body in one tag
		sb.WriteString("<% let " + name + " = fn(" + strings.Join(ps, ", ") + ") { return " + g.intExpr(body, 2) + " } %>")
	} else {
		sb.WriteString("<% let " + name + " = fn(" + strings.Join(ps, ", ") + ") { %>")
		g.block(sb, body, r.Range(1, 2))
		sb.WriteString("<% } %>")
	}
	f := c13Fn{name, ar, pure, ret}
	sc.fns = append(sc.fns, f)
	sb.WriteString("<%= " + g.fnCall(sc, f, 1) + " %>")
}

func (g *c13Gen) fnCall(sc *c13Scope, f c13Fn, d int) string {
	args := []string{}
	for i := 0; i < f.arity; i++ {
		args = append(args, g.intExpr(sc, d))
	}
	return f.name + "(" + strings.Join(args, ", ") + ")"
}

func (g *c13Gen) partialCall(sc *c13Scope) string {
	r := g.r
	if g.opt.Wide && r.Chance(10) {
		// a partial that includes itself x times (x small): with the cache on, one template value is executed
		// again while an execution of it is under way
		g.use("partial-recursive")
		return `partial("p_rec", {x: ` + Pick(r, []string{"0", "1", "2", "3", "lvl", "len(ss)", "len(u.Tags)"}) + `})`
	}
	switch r.Intn(9) {
	case 0:
		return `partial("p_plain", {x: ` + g.anyExpr(sc, 1) + `})`
	case 1:
		return `partial("p_loop", {})`
	case 2:
		return `partial("p_nest", {y: ` + g.intExpr(sc, 1) + `})`
	case 3:
		if !sc.pure {
			return `partial("p_tick", {})`
		}
		return `partial("p_if", {x: ` + g.boolExpr(sc, 1) + `})`
	case 4:
		return `partial("p_plain", {x: ` + g.intExpr(sc, 1) + `, layout: "p_layout"})`
	case 5:
		if !sc.pure && r.Chance(30) {
			return `partial("p_err", {})`
		}
		return `partial("p_fn", {x: ` + g.intExpr(sc, 1) + `})`
	case 6:
		if !sc.pure && r.Chance(30) {
			return `partial("p_missing", {})`
		}
		return `partial("p_if", {x: ` + g.boolExpr(sc, 1) + `})`
	case 7:
		return `partial("p_fn", {x: ` + g.intExpr(sc, 1) + `})`
	default:
		return `partial("p_plain", {x: "` + Pick(r, []string{"v", "<b>", "&"}) + `"})`
	}
}

func (g *c13Gen) contentOf(sb *strings.Builder, sc *c13Scope) {
	r := g.r
	g.use("contentOf")
	if len(sc.contents) > 0 && !sc.pure && r.Chance(80) {
		name := Pick(r, sc.contents)
		if r.Bool() {
			sb.WriteString(`<%= contentOf("` + name + `") %>`)
		} else {
			sb.WriteString(`<%= contentOf("` + name + `", {lbl: ` + g.strExpr(sc, 1) + `}) %>`)
		}
		return
	}
	if sc.depth >= 3 || r.Chance(8) {
		sb.WriteString(`<%= contentOf("nope") %>`) // error: missing block
		return
	}
	sb.WriteString(`<%= contentOf("nope") { %>`)
	g.sub(sb, sc, nil)
	sb.WriteString("<% } %>")
}

func c13Uniq(xs []string) []string {
	seen := map[string]bool{}
	var out []string
	for _, x := range xs {
		if !seen[x] {
			seen[x] = true
			out = append(out, x)
		}
	}
	return out
}

var c13SafeVals = []string{"0", "7", `"lit"`, `"<b>"`, "n", "s", "gid", "t", "u.Age", "u.Name", "add(1, 2)", "len(xs)", `up("x")`, "(n + 1)", "true"}

var c13Keys = []string{"a", "b", "c", "d", "e", "f", "g", "h"}

// hashLit returns a hash literal and its keys in source order. With effects, values may count (tick()), fail,
// and a key may be spelled twice.
//
// safe: apart from the effects, every value is one that exists, is not nil and cannot fail in any environment
// (needed where the hash is iterated - a nil value cannot be printed - and wherever the literal must not
// depend on the order in which its values are evaluated).
func (g *c13Gen) hashLit(sc *c13Scope, effects, safe bool) (string, []string) {
	r := g.r
	if effects && !r.Chance(40) {
		effects = false
	}
	n := r.Range(1, 8)
	if r.Chance(30) {
		n = 8
	}
	perm := append([]string(nil), c13Keys...)
	for i := len(perm) - 1; i > 0; i-- {
		j := r.Intn(i + 1)
		perm[i], perm[j] = perm[j], perm[i]
	}
	keys := perm[:n]
	if effects && n >= 2 && r.Chance(20) {
		g.use("hash-duplicate-key")
		keys[r.Range(1, n-1)] = keys[0]
	}
	var parts []string
	nt, nf := 0, 0
	twoFail := effects && n >= 2 && r.Chance(8)
	for i, k := range keys {
		var v string
		switch {
		case twoFail && (i == 0 || i == n-1):
			v = `fail("` + k + strconv.Itoa(i) + `")`
			nf++
		case effects && r.Chance(45):
			v = "tick()"
			nt++
		case effects && r.Chance(2):
			v = `fail("` + k + `")`
			nf++
		case safe:
			v = Pick(r, c13SafeVals)
		case r.Chance(30):
			v = g.strExpr(sc, 1)
		default:
			v = g.intExpr(sc, 1)
		}
		ks := k
		if r.Chance(25) {
			ks = `"` + k + `"`
		}
		parts = append(parts, ks+": "+v)
	}
	if nt >= 2 {
		g.use("hash-side-effects")
	}
	if nf >= 2 {
		g.use("hash-two-failing")
	}
	return "{" + strings.Join(parts, ", ") + "}", keys
}

var c13ConstInts = []string{"0", "1", "2", "7", "10", "-3"}
var c13ConstStrs = []string{`"-"`, `"none"`, `"<b>"`, `""`, `"x y"`}
var c13ConstOther = []string{"true", "false", "1.5", "0.25"}

// constant returns a literal constant and whether it is an integer.
func (g *c13Gen) constant() (string, bool) {
	switch k := g.r.Intn(100); {
	case k < 55:
		return Pick(g.r, c13ConstInts), true
	case k < 80:
		return Pick(g.r, c13ConstStrs), false
	default:
		return Pick(g.r, c13ConstOther), false
	}
}

// constList returns a list literal of n elements and which of them are integers. Usually every element is a
// literal constant; one time in five one element is evaluated at run time.
func (g *c13Gen) constList(sc *c13Scope, n int) (string, []bool) {
	es, isInt := make([]string, n), make([]bool, n)
	for i := range es {
		es[i], isInt[i] = g.constant()
	}
	if g.r.Chance(20) {
		i := g.r.Intn(n)
		es[i], isInt[i] = g.intExpr(sc, 1), true
		g.use("list-literal-mixed")
	} else {
		g.use("list-literal-constants")
	}
	return "[" + strings.Join(es, ", ") + "]", isInt
}

// mutateLocal emits: a value built by the template itself from a literal; 1-3 in-place updates of it; reads.
func (g *c13Gen) mutateLocal(sb *strings.Builder, sc *c13Scope) {
	r := g.r
	switch k := r.Intn(10); {
	case k < 6: // a list
		g.use("local-list-update")
		q := g.fresh("q")
		n := r.Range(1, 4)
		lit, isInt := g.constList(sc, n)
		sb.WriteString("<% let " + q + " = " + lit + " %>")
		g.updates(sb, sc, q, n, isInt, nil)
		sc.arrs = append(sc.arrs, q)
		sc.localArrs = append(sc.localArrs, q)
	case k < 9: // a hash with distinct keys and constant values
		g.use("local-hash-update")
		q := g.fresh("g")
		n := r.Range(1, 4)
		keys := append([]string(nil), c13Keys[:n]...)
		dup := -1
		if n >= 2 && r.Chance(20) {
			// one key spelled twice, with constant values: the one later in the source has to win every time
			g.use("hash-duplicate-key-constants")
			dup = r.Range(1, n-1)
			keys[dup] = keys[0]
		}
		isInt := make([]bool, n)
		parts := make([]string, n)
		for i, key := range keys {
			var v string
			v, isInt[i] = g.constant()
			if r.Chance(25) {
				key = `"` + key + `"`
			}
			parts[i] = key + ": " + v
		}
		if dup > 0 {
			isInt[0] = isInt[dup]
		}
		sb.WriteString("<% let " + q + " = {" + strings.Join(parts, ", ") + "} %>")
		if dup > 0 {
			sb.WriteString("<%= " + q + `["` + keys[0] + `"] %>;`)
		}
		g.updates(sb, sc, q, n, isInt, keys)
		sc.hashes = append(sc.hashes, c13Hash{q, c13Uniq(keys)})
	default: // a list inside a list or a hash, updated through a second name
		g.use("nested-literal-update")
		q, in := g.fresh("q"), g.fresh("q")
		n := r.Range(1, 3)
		lit, isInt := g.constList(sc, n)
		var outer, path string
		if r.Bool() {
			other, _ := g.constList(sc, r.Range(1, 2))
			outer, path = "["+lit+", "+other+"]", q+"[0]"
		} else {
			c, _ := g.constant()
			outer, path = "{a: "+lit+", b: "+c+"}", q+`["a"]`
		}
		sb.WriteString("<% let " + q + " = " + outer + " %><% let " + in + " = " + path + " %>")
		g.updates(sb, sc, in, n, isInt, nil)
		i := strconv.Itoa(r.Intn(n))
		sb.WriteString("<%= " + path + "[" + i + "] %>;")
	}
}

// updates emits 1-3 in-place updates of the list (keys == nil) or hash q, each followed at some point by reads.
func (g *c13Gen) updates(sb *strings.Builder, sc *c13Scope, q string, n int, isInt []bool, keys []string) {
	r := g.r
	at := func(i int) string {
		if keys != nil {
			return `"` + keys[i] + `"`
		}
		return strconv.Itoa(i)
	}
	elem := func(i int) string { return q + "[" + at(i) + "]" }
	for u, nu := 0, r.Range(1, 3); u < nu; u++ {
		i := r.Intn(n)
		if keys == nil && r.Chance(6) {
			// one past the end: an error, the same one on every route
			sb.WriteString("<% " + q + "[" + strconv.Itoa(n) + "] = 1 %>")
			continue
		}
		switch k := r.Intn(100); {
		case k < 30 && isInt[i]:
			sb.WriteString("<% " + elem(i) + " = " + elem(i) + " + " + g.intExpr(sc, 1) + " %>")
		case k < 55 && isInt[i]:
			g.use("accumulate-in-loop")
			v := g.fresh("v")
			src := Pick(r, []string{"xs", "xs", "range(1, 3)", "[4, 5, 6]", "until(2)"})
			if r.Bool() {
				sb.WriteString("<% for (" + v + ") in " + src + " { " + elem(i) + " = " + elem(i) + " + " + v + " } %>")
			} else {
				sb.WriteString("<% for (" + v + ") in " + src + " { %><% " + elem(i) + " = " + elem(i) + " + " + v + " %><% } %>")
			}
		case k < 75:
			g.use("helper-stores-into-argument")
			c, ci := g.constant()
			sb.WriteString("<% setv(" + q + ", " + at(i) + ", " + c + ") %>")
			isInt[i] = ci
		case k < 85 && keys != nil:
			c, _ := g.constant()
			sb.WriteString("<% " + q + `["z"] = ` + c + " %><%= " + q + `["z"] %>`)
		default:
			if r.Bool() {
				c, ci := g.constant()
				sb.WriteString("<% " + elem(i) + " = " + c + " %>")
				isInt[i] = ci
			} else {
				sb.WriteString("<% " + elem(i) + " = " + g.strExpr(sc, 1) + " %>")
				isInt[i] = false
			}
		}
		if r.Chance(35) {
			sb.WriteString("<%= " + elem(r.Intn(n)) + " %>")
		}
	}
	switch k := r.Intn(10); {
	case k < 4 || keys != nil:
		for i := 0; i < n; i++ {
			sb.WriteString("<%= " + elem(i) + " %>,")
		}
	case k < 8:
		v := g.fresh("v")
		sb.WriteString("<%= for (" + v + ") in " + q + " { %><%= " + v + " %>,<% } %>")
	default:
		sb.WriteString("<%= " + q + " %>")
	}
}

// optsLit returns a small options literal for the helpers btn / field / tagb / optn.
func (g *c13Gen) optsLit(sc *c13Scope) string {
	r := g.r
	var parts []string
	for _, k := range []string{"class", "id", "label", "n", "type"} {
		if !r.Chance(35) {
			continue
		}
		var v string
		switch k {
		case "n":
			v = g.intExpr(sc, 0)
		default:
			v = g.strExpr(sc, 1)
		}
		parts = append(parts, k+": "+v)
	}
	return "{" + strings.Join(parts, ", ") + "}"
}

// optsHelper emits calls of Go helpers that take a trailing options map and work in it: with the map left out
// (the evaluator supplies one), with a literal (evaluated for this call), and with a variable of the template
// (then, and only then, a later call sees what an earlier one stored).
func (g *c13Gen) optsHelper(sb *strings.Builder, sc *c13Scope) {
	r := g.r
	call := func(opts string) string {
		// opts: "" = left out
		arg := func(first string) string {
			if opts == "" {
				return first
			}
			if first == "" {
				return opts
			}
			return first + ", " + opts
		}
		switch r.Intn(4) {
		case 0:
			return "btn(" + arg(g.strExpr(sc, 1)) + ")"
		case 1:
			return "field(" + arg(Pick(r, []string{`"name"`, `"q"`, "s", "sz"})) + ")"
		case 2:
			return "optn(" + arg("") + ")"
		default:
			return "tagb(" + arg(Pick(r, []string{`"div"`, `"p"`, `"li"`})) + ")"
		}
	}
	n := r.Range(1, 3)
	switch k := r.Intn(10); {
	case k < 5:
		g.use("opts-helper-options-omitted")
		for i := 0; i < n; i++ {
			sb.WriteString("<%= " + call("") + " %>")
		}
	case k < 7:
		g.use("opts-helper-options-literal")
		for i := 0; i < n; i++ {
			sb.WriteString("<%= " + call(g.optsLit(sc)) + " %>")
			if r.Bool() {
				sb.WriteString("<%= " + call("") + " %>")
			}
		}
	case k < 8 && sc.depth < 3:
		// block form: the options and the helper context are both left out, or only the helper context
		g.use("opts-helper-with-block")
		o := ""
		if r.Bool() {
			o = ", " + g.optsLit(sc)
		}
		sb.WriteString("<%= tagb(" + Pick(r, []string{`"div"`, `"ul"`}) + o + ") { %>")
		g.sub(sb, sc, nil)
		sb.WriteString("<% } %><%= tagb(\"i\") %>")
	default:
		g.use("opts-helper-options-variable")
		o := g.fresh("o")
		sb.WriteString("<% let " + o + " = " + g.optsLit(sc) + " %>")
		for i := 0; i < n; i++ {
			sb.WriteString("<%= " + call(o) + " %>")
		}
		sb.WriteString("<%= " + call("") + " %><%= " + o + `["class"] %>`)
	}
}

// reenter emits a statement that starts another execution of the running template - the helper again(k) (the
// same text on the data set k places further, one level down) or partial("self", …) (the feeder serves the
// template's own text) - and afterwards reads the scope it was started from. lvl is 2 at the top, one less on
// every level; at level 0 again() prints a dot and starts nothing.
func (g *c13Gen) reenter(sb *strings.Builder, sc *c13Scope) {
	r := g.r
	read := func() string {
		switch r.Intn(4) {
		case 0:
			return "<%= " + Pick(r, sc.ints) + " %>"
		case 1:
			return "<%= " + Pick(r, sc.strs) + " %>"
		default:
			return "<%= lvl %>"
		}
	}
	k := Pick(r, []string{"0", "0", "0", "1", "2", "3"})
	switch c := r.Intn(10); {
	case c < 4:
		g.use("reenter-again")
		sb.WriteString("<%= lvl %>(<%= again(" + k + ") %>)" + read())
	case c < 5:
		g.use("reenter-again-in-let")
		v := g.fresh("w")
		sb.WriteString("<% let " + v + " = again(" + k + ") %>" + read() + "<%= " + v + " %>")
		sc.anys = append(sc.anys, v)
	case c < 6:
		g.use("reenter-again-in-block")
		sb.WriteString("<%= " + Pick(r, []string{"wrap()", "twice()", `tagb("b")`}) + " { %><%= again(" + k + ") %>" + read() + "<% } %>" + read())
	case c < 7:
		g.use("reenter-again-in-loop")
		v := g.fresh("v")
		sb.WriteString("<%= for (" + v + ") in " + Pick(r, []string{"[0, 1]", "until(2)", "ss"}) + " { %><%= again(" + k + ") %>" + read() + "<%= " + v + " %>,<% } %>")
	default:
		g.use("reenter-self-partial")
		data := "{lvl: lvl - 1}"
		if r.Chance(30) {
			data = "{lvl: lvl - 1, s: " + g.strExpr(sc, 1) + "}"
		}
		sb.WriteString("<%= lvl %>(<%= if (lvl > 0) { %><%= partial(\"self\", " + data + ") %><% } %>)" + read())
	}
}

func (g *c13Gen) arrLit(sc *c13Scope) string {
	n := g.r.Intn(4)
	var es []string
	for i := 0; i < n; i++ {
		if g.r.Chance(70) {
			es = append(es, g.intExpr(sc, 1))
		} else {
			es = append(es, g.strExpr(sc, 1))
		}
	}
	g.use("array-literal")
	return "[" + strings.Join(es, ", ") + "]"
}

func (g *c13Gen) anyExpr(sc *c13Scope, d int) string {
	switch g.r.Intn(8) {
	case 0, 1, 2:
		return g.intExpr(sc, d)
	case 3, 4:
		return g.strExpr(sc, d)
	case 5:
		return g.boolExpr(sc, d)
	case 6:
		if len(sc.anys) > 0 {
			return Pick(g.r, sc.anys)
		}
		return g.strExpr(sc, d)
	default:
		switch g.r.Intn(5) {
		case 0:
			return Pick(g.r, sc.arrs)
		case 1:
			g.use("index")
			return `mi["` + Pick(g.r, c13Keys[:4]) + `"]`
		case 2:
			g.use("index")
			return "ys[" + strconv.Itoa(g.r.Intn(3)) + "]"
		case 3:
			return `raw("<r>")`
		default:
			return "u.Boss.Name"
		}
	}
}

func (g *c13Gen) intExpr(sc *c13Scope, d int) string {
	r := g.r
	if d <= 0 {
		if r.Bool() {
			return strconv.Itoa(r.Intn(10))
		}
		return Pick(r, sc.ints)
	}
	switch r.Intn(14) {
	case 0, 1:
		return strconv.Itoa(r.Intn(10))
	case 2, 3:
		return Pick(r, sc.ints)
	case 4:
		return "(" + g.intExpr(sc, d-1) + " " + Pick(r, []string{"+", "-", "*"}) + " " + g.intExpr(sc, d-1) + ")"
	case 5:
		g.use("go-helper")
		return "add(" + g.intExpr(sc, d-1) + ", " + g.intExpr(sc, d-1) + ")"
	case 6:
		g.use("go-helper")
		return "len(" + Pick(r, sc.arrs) + ")"
	case 7:
		g.use("index")
		return "xs[" + strconv.Itoa(r.Intn(3)) + "]"
	case 8:
		g.use("index")
		return `m["` + Pick(r, c13Keys[:4]) + `"]`
	case 9:
		if len(sc.hashes) > 0 {
			g.use("index")
			h := Pick(r, sc.hashes)
			return h.name + `["` + Pick(r, h.keys) + `"]`
		}
		return "u.Age"
	case 10:
		if !sc.pure {
			g.use("tick")
			return "tick()"
		}
		return "u.Age"
	case 11:
		var ok []c13Fn
		for _, f := range sc.fns {
			// only `return e` functions in operand position: the value of a block-bodied function is its rendered
			// output, which an "invalid argument" message would quote (map-loop blocks included)
			if !sc.pure && f.ret {
				ok = append(ok, f)
			}
		}
		if len(ok) > 0 {
			g.use("user-fn-call")
			return g.fnCall(sc, Pick(r, ok), d-1)
		}
		return strconv.Itoa(r.Intn(10))
	case 12:
		if !sc.pure && r.Chance(15) {
			g.use("failing-call")
			return `fail("x")`
		}
		return Pick(r, sc.ints)
	default:
		g.use("field")
		return "u.Age"
	}
}

var c13StrLits = []string{`"lit"`, `"<b>"`, `"a&b"`, `""`, `"q'"`, "`raw\\n`", `"x y"`}

func (g *c13Gen) strExpr(sc *c13Scope, d int) string {
	r := g.r
	if d <= 0 {
		if r.Bool() {
			return Pick(r, c13StrLits)
		}
		return Pick(r, sc.strs)
	}
	switch r.Intn(10) {
	case 0, 1:
		return Pick(r, c13StrLits)
	case 2, 3:
		return Pick(r, sc.strs)
	case 4:
		return "(" + g.strExpr(sc, d-1) + " + " + g.strExpr(sc, d-1) + ")"
	case 5:
		g.use("go-helper")
		return "up(" + g.strExpr(sc, d-1) + ")"
	case 6:
		g.use("field")
		return "u.Name"
	case 7:
		g.use("method")
		if r.Bool() {
			return "u.Greet()"
		}
		return "u.Shout(" + g.strExpr(sc, d-1) + ")"
	case 8:
		g.use("index")
		return "ss[" + strconv.Itoa(r.Intn(3)) + "]"
	default:
		g.use("go-helper")
		return "capitalize(" + g.strExpr(sc, d-1) + ")"
	}
}

func (g *c13Gen) boolExpr(sc *c13Scope, d int) string {
	r := g.r
	if d <= 0 {
		return Pick(r, append([]string{"true", "false"}, sc.bools...))
	}
	switch r.Intn(11) {
	case 0:
		return Pick(r, []string{"true", "false"})
	case 1, 2:
		return Pick(r, sc.bools)
	case 3, 4:
		return g.intExpr(sc, d-1) + " " + Pick(r, []string{"<", ">", "==", "!=", "<=", ">="}) + " " + g.intExpr(sc, d-1)
	case 5:
		return g.strExpr(sc, d-1) + " " + Pick(r, []string{"==", "!=", "~="}) + " " + g.strExpr(sc, 0)
	case 6:
		return "!(" + g.boolExpr(sc, d-1) + ")"
	case 7:
		return "(" + g.boolExpr(sc, d-1) + " " + Pick(r, []string{"&&", "||"}) + " " + g.boolExpr(sc, d-1) + ")"
	case 8:
		return Pick(r, []string{"zz", "nilv", "u.Boss"}) // unknown identifier / nil in a condition
	case 9:
		return Pick(r, sc.strs)
	default:
		return "len(" + Pick(r, sc.arrs) + ") > " + strconv.Itoa(r.Intn(3))
	}
}
