package main

import (
	"fmt"
	"reflect"
	"strconv"
	"strings"
	"time"

	plush "github.com/gobuffalo/plush/v5"
	"github.com/gobuffalo/plush/v5/helpers/hctx"
)

// C12 oracle, stage (D): call HISTORIES and NESTED calls (model-free).
//
// Stages (A)-(C) render one Go call per template. The property quantifies over every call of a
// template: "each supplied argument is evaluated once, left to right, and passed positionally with its
// value unchanged" must also hold when an argument is itself a Go call (in any operand position, to
// any depth), when other Go calls ran earlier in the same render (earlier statement, earlier loop
// iteration, a user-defined function called twice) and when a call runs inside the block of another
// helper. A case here is a small PROGRAM: 1-4 statements, each one statement form around a tree of
// calls of a fixed family of recording helpers whose results depend on what they received.
//
// What the property demands is obtained by evaluating the same tree directly in Go (arguments left to
// right, innermost first, nil -> reflect.Zero of the parameter type, assignability by
// reflect.Type.AssignableTo, omitted trailing options map / helper context supplied), which yields the
// expected invocation log (helper name + every received argument) and the expected output. plush's
// binding code is never consulted.

// ---------------------------------------------------------------------------------------------
// the helper family

type c12hDef struct {
	name     string
	kinds    []string // parameter kinds (keys of c12Types); for a variadic helper the last one is the element kind
	variadic bool
	res      string // int | string | any | string,error
	block    bool   // renders its block (if it has one) into its result
}

var c12hDefs = []c12hDef{
	{name: "zero0", res: "int"},
	{name: "inc1", kinds: []string{"int"}, res: "int"},
	{name: "pair2", kinds: []string{"int", "int"}, res: "string"},
	{name: "trip3", kinds: []string{"int", "int", "int"}, res: "string"},
	{name: "sumv", kinds: []string{"int"}, variadic: true, res: "int"},
	{name: "catv", kinds: []string{"any"}, variadic: true, res: "string"},
	{name: "strv", kinds: []string{"string"}, variadic: true, res: "string"},
	{name: "anyp2", kinds: []string{"any", "any"}, res: "string"},
	{name: "strp2", kinds: []string{"string", "string"}, res: "string"},
	{name: "fixv", kinds: []string{"string", "int"}, variadic: true, res: "int"},
	{name: "iopt", kinds: []string{"int", "opts"}, res: "int"},
	{name: "ictx", kinds: []string{"int", "int", "ctxS"}, res: "string"},
	{name: "octx", kinds: []string{"string", "opts", "ctxI"}, res: "string"},
	{name: "idn", kinds: []string{"any"}, res: "any"},
	{name: "serr", kinds: []string{"int", "string"}, res: "string,error"},
	{name: "wrapb", kinds: []string{"int", "int", "ctxI"}, res: "string,error", block: true},
}

func c12hLookup(name string) (c12hDef, bool) {
	for _, d := range c12hDefs {
		if d.name == name {
			return d, true
		}
	}
	return c12hDef{}, false
}

func (d c12hDef) funcType() reflect.Type {
	in := []reflect.Type{}
	for i, k := range d.kinds {
		t := c12Types[k]
		if d.variadic && i == len(d.kinds)-1 {
			t = reflect.SliceOf(t)
		}
		in = append(in, t)
	}
	out := []reflect.Type{}
	switch d.res {
	case "int":
		out = append(out, c12Types["int"])
	case "string":
		out = append(out, c12Types["string"])
	case "any":
		out = append(out, c12Types["any"])
	case "string,error":
		out = append(out, c12Types["string"], c12ErrT)
	}
	return reflect.FuncOf(in, out, d.variadic)
}

// resultKind: which literal kinds the first result can stand in for
func (d c12hDef) resultFits(want string) bool {
	switch want {
	case "any":
		return true
	case "int":
		return d.res == "int"
	case "string":
		return d.res == "string" || d.res == "string,error"
	}
	return false
}

func c12hShort(v interface{}) string {
	switch x := v.(type) {
	case nil:
		return "nil"
	case int:
		return strconv.Itoa(x)
	case string:
		return x
	case bool:
		return strconv.FormatBool(x)
	case map[string]interface{}:
		return "map" + strconv.Itoa(len(x))
	case []string:
		return "strs" + strconv.Itoa(len(x))
	}
	return "other"
}

// c12hResult: the helper's first result, a function of what it received (so that a changed argument
// also changes every call that consumes the result).
func c12hResult(d c12hDef, vals []interface{}, blockOut string) interface{} {
	switch d.res {
	case "int":
		n := 1
		for _, v := range vals {
			if i, ok := v.(int); ok {
				n += i
			}
		}
		return n
	case "any":
		if len(vals) > 0 {
			return vals[0]
		}
		return nil
	}
	if d.block {
		return "W" + blockOut + "W"
	}
	parts := []string{}
	for _, v := range vals {
		parts = append(parts, c12hShort(v))
	}
	return d.name + "[" + strings.Join(parts, ".") + "]"
}

type c12hEntry struct {
	fn    string
	descs []string
}

func (e c12hEntry) String() string { return e.fn + "(" + strings.Join(e.descs, ", ") + ")" }

func c12hLogText(l []c12hEntry) string {
	s := []string{}
	for _, e := range l {
		s = append(s, e.String())
	}
	return "[" + strings.Join(s, "; ") + "]"
}

type c12hState struct{ log []c12hEntry }

func c12hMake(d c12hDef, st *c12hState) interface{} {
	return reflect.MakeFunc(d.funcType(), func(args []reflect.Value) []reflect.Value {
		descs, vals := []string{}, []interface{}{}
		var hc hctx.HelperContext
		for i, a := range args {
			if d.variadic && i == len(args)-1 {
				for j := 0; j < a.Len(); j++ {
					descs = append(descs, "..."+c12Val(a.Index(j)))
					vals = append(vals, a.Index(j).Interface())
				}
				continue
			}
			k := d.kinds[i]
			switch k {
			case "ctxS", "ctxI":
				if !d.block {
					descs = append(descs, c12Describe(a, k))
					continue
				}
				if k == "ctxI" && a.IsNil() {
					descs = append(descs, "ctx(nil)")
					continue
				}
				hc = a.Interface().(hctx.HelperContext)
				descs = append(descs, "ctx(block="+strconv.FormatBool(hc.HasBlock())+")")
			default:
				descs = append(descs, c12Val(a))
				vals = append(vals, a.Interface())
			}
		}
		st.log = append(st.log, c12hEntry{fn: d.name, descs: descs})
		blockOut := ""
		var berr error
		if d.block && hc != nil && hc.HasBlock() {
			blockOut, berr = hc.Block()
		}
		r := c12hResult(d, vals, blockOut)
		out := []reflect.Value{}
		ft := d.funcType()
		if r == nil {
			out = append(out, reflect.Zero(ft.Out(0)))
		} else {
			out = append(out, reflect.ValueOf(r).Convert(ft.Out(0)))
		}
		if d.res == "string,error" {
			if berr != nil {
				out = append(out, reflect.ValueOf(berr).Convert(c12ErrT))
			} else {
				out = append(out, reflect.Zero(c12ErrT))
			}
		}
		return out
	}).Interface()
}

// ---------------------------------------------------------------------------------------------
// programs

type c12hExpr struct {
	kind byte // i int literal, s string literal, n nil, b true, x loop variable, h hash literal, c call
	n    int
	fn   string
	args []*c12hExpr
}

func (e *c12hExpr) enc() string {
	switch e.kind {
	case 'i':
		return strconv.Itoa(e.n)
	case 's':
		return "s" + strconv.Itoa(e.n)
	case 'n':
		return "nil"
	case 'b':
		return "true"
	case 'x':
		return "x"
	case 'h':
		return "{k:" + strconv.Itoa(e.n) + "}"
	}
	parts := []string{}
	for _, a := range e.args {
		parts = append(parts, a.enc())
	}
	return e.fn + "(" + strings.Join(parts, ",") + ")"
}

func (e *c12hExpr) tmpl() string {
	switch e.kind {
	case 'i':
		return strconv.Itoa(e.n)
	case 's':
		return `"s` + strconv.Itoa(e.n) + `"`
	case 'n':
		return "nil"
	case 'b':
		return "true"
	case 'x':
		return "x"
	case 'h':
		return `{"k": ` + strconv.Itoa(e.n) + `}`
	}
	parts := []string{}
	for _, a := range e.args {
		parts = append(parts, a.tmpl())
	}
	return e.fn + "(" + strings.Join(parts, ", ") + ")"
}

// statement forms
//
//	e  <%= E %>
//	l  <% let v = E %><%= v %>
//	f  <%= for (x) in [10, 20, 30] { %><%= E %>,<% } %>        E may use x
//	u  <% let uf = fn(x) { return E } %><%= uf(10) %>.<%= uf(20) %>   E may use x
//	w  <%= wrapb(5, 6) { %><%= E %><% } %>                     E runs inside the block of another helper
//	b  <%= E { %>blk<% } %>                                    E (a call) gets a block
const c12hForms = "elfuwb"

type c12hStmt struct {
	form byte
	e    *c12hExpr
}

type c12hProg []c12hStmt

func (p c12hProg) enc() string {
	s := []string{}
	for _, st := range p {
		s = append(s, string(st.form)+":"+st.e.enc())
	}
	return strings.Join(s, ";")
}

func (p c12hProg) tmpl() string {
	s := []string{}
	for _, st := range p {
		e := st.e.tmpl()
		switch st.form {
		case 'e':
			s = append(s, "<%= "+e+" %>")
		case 'l':
			s = append(s, "<% let v = "+e+" %><%= v %>")
		case 'f':
			s = append(s, "<%= for (x) in [10, 20, 30] { %><%= "+e+" %>,<% } %>")
		case 'u':
			s = append(s, "<% let uf = fn(x) { return "+e+" } %><%= uf(10) %>.<%= uf(20) %>")
		case 'w':
			s = append(s, "<%= wrapb(5, 6) { %><%= "+e+" %><% } %>")
		case 'b':
			s = append(s, "<%= "+e+" { %>blk<% } %>")
		}
	}
	return strings.Join(s, "|")
}

// --- parsing a program back from its case text

type c12hParser struct {
	s   string
	pos int
}

func c12hIdentChar(c byte) bool { return c >= 'a' && c <= 'z' || c >= '0' && c <= '9' }

func (p *c12hParser) expr() (*c12hExpr, error) {
	if p.pos < len(p.s) && p.s[p.pos] == '{' {
		end := strings.IndexByte(p.s[p.pos:], '}')
		if end < 0 || !strings.HasPrefix(p.s[p.pos:], "{k:") {
			return nil, fmt.Errorf("bad hash literal at %d", p.pos)
		}
		n, err := strconv.Atoi(p.s[p.pos+3 : p.pos+end])
		if err != nil {
			return nil, fmt.Errorf("bad hash literal at %d", p.pos)
		}
		p.pos += end + 1
		return &c12hExpr{kind: 'h', n: n}, nil
	}
	start := p.pos
	for p.pos < len(p.s) && c12hIdentChar(p.s[p.pos]) {
		p.pos++
	}
	tok := p.s[start:p.pos]
	if tok == "" {
		return nil, fmt.Errorf("expression expected at %d", start)
	}
	if p.pos < len(p.s) && p.s[p.pos] == '(' {
		p.pos++
		e := &c12hExpr{kind: 'c', fn: tok}
		if p.pos < len(p.s) && p.s[p.pos] == ')' {
			p.pos++
			return e, nil
		}
		for {
			a, err := p.expr()
			if err != nil {
				return nil, err
			}
			e.args = append(e.args, a)
			if p.pos >= len(p.s) {
				return nil, fmt.Errorf("unterminated call")
			}
			c := p.s[p.pos]
			p.pos++
			if c == ')' {
				return e, nil
			}
			if c != ',' {
				return nil, fmt.Errorf("',' or ')' expected at %d", p.pos-1)
			}
		}
	}
	switch tok {
	case "nil":
		return &c12hExpr{kind: 'n'}, nil
	case "true":
		return &c12hExpr{kind: 'b'}, nil
	case "x":
		return &c12hExpr{kind: 'x'}, nil
	}
	if n, err := strconv.Atoi(tok); err == nil {
		return &c12hExpr{kind: 'i', n: n}, nil
	}
	if tok[0] == 's' {
		if n, err := strconv.Atoi(tok[1:]); err == nil {
			return &c12hExpr{kind: 's', n: n}, nil
		}
	}
	return nil, fmt.Errorf("bad token %q", tok)
}

func c12hParseProg(s string) (c12hProg, error) {
	var prog c12hProg
	for _, part := range strings.Split(s, ";") {
		if len(part) < 3 || part[1] != ':' || !strings.Contains(c12hForms, part[:1]) {
			return nil, fmt.Errorf("bad statement %q", part)
		}
		p := &c12hParser{s: part[2:]}
		e, err := p.expr()
		if err != nil {
			return nil, err
		}
		if p.pos != len(p.s) {
			return nil, fmt.Errorf("trailing text in statement %q", part)
		}
		prog = append(prog, c12hStmt{form: part[0], e: e})
	}
	return prog, nil
}

// ---------------------------------------------------------------------------------------------
// what the property demands: the program evaluated directly in Go

type c12hMeta struct {
	autoFrom int    // index in descs from which on the values are auto-supplied
	nilAt    []bool // per supplied argument: written as a nil (or evaluated to nil)
	callAt   []bool // per supplied argument: the argument is itself a Go call
	def      c12hDef
	chain    []c12hFrame // the call and the calls that enclose it (their evaluation has begun), innermost first
}

type c12hRes struct {
	val    interface{}
	err    bool
	errFn  string
	errWhy string
	min    int // log length that must have been reached at least when the error is reported
	upto   int // log length once the refused argument has been evaluated (used to name the failure family only)
	chain  []c12hFrame
	silent string // the statement does not say what has to happen
}

type c12hBlock struct {
	static string
	e      *c12hExpr
}

type c12hNative struct {
	log        []c12hEntry
	meta       []c12hMeta
	x          int
	hasX       bool
	outUnknown bool
	stack      []*c12hFrame
}

// c12hFrame: a call whose evaluation has begun and which of its arguments (so far) evaluated to nil
type c12hFrame struct {
	e    *c12hExpr
	nils []bool
}

func (n *c12hNative) chain() []c12hFrame {
	c := []c12hFrame{}
	for i := len(n.stack) - 1; i >= 0; i-- {
		c = append(c, c12hFrame{e: n.stack[i].e, nils: append([]bool{}, n.stack[i].nils...)})
	}
	return c
}

// c12hNilBlame: when a valid call was refused, the refusing call is the next expected one or one that
// encloses it; a nil written for one of their parameters names the family.
func c12hNilBlame(chain []c12hFrame) string {
	site := ""
	for _, c := range chain {
		d, ok := c12hLookup(c.e.fn)
		if !ok {
			continue
		}
		for i, a := range c.e.args {
			if a.kind != 'n' && !(i < len(c.nils) && c.nils[i]) {
				continue
			}
			if d.variadic && i >= len(d.kinds)-1 {
				return "variadic-nil-not-zero"
			}
			site = "valid-call-not-invoked:nil-for-fixed-parameter"
		}
	}
	return site
}

func (n *c12hNative) outText(v interface{}) string {
	switch x := v.(type) {
	case nil:
		return ""
	case int:
		return strconv.Itoa(x)
	case string:
		return x
	case bool:
		return strconv.FormatBool(x)
	}
	n.outUnknown = true // how other values print is not this property's business
	return ""
}

func (n *c12hNative) eval(e *c12hExpr, blk *c12hBlock) c12hRes {
	switch e.kind {
	case 'i':
		return c12hRes{val: e.n}
	case 's':
		return c12hRes{val: "s" + strconv.Itoa(e.n)}
	case 'n':
		return c12hRes{}
	case 'b':
		return c12hRes{val: true}
	case 'h':
		return c12hRes{val: map[string]interface{}{"k": e.n}}
	case 'x':
		if !n.hasX {
			return c12hRes{silent: "x-outside-loop"}
		}
		return c12hRes{val: n.x}
	}
	d, ok := c12hLookup(e.fn)
	if !ok {
		return c12hRes{silent: "unknown-helper"}
	}
	P, nargs := len(d.kinds), len(e.args)
	if d.variadic && nargs < P-1 {
		return c12hRes{silent: "too-few-arguments-for-variadic"}
	}
	if !d.variadic && P-nargs > c12AutoSuffix(d.kinds) {
		return c12hRes{silent: "missing-parameter-that-is-not-a-trailing-options-map-or-helper-context"}
	}
	start := len(n.log)
	fr := &c12hFrame{e: e}
	n.stack = append(n.stack, fr)
	defer func() { n.stack = n.stack[:len(n.stack)-1] }()
	fault, upto := "", start
	if !d.variadic && nargs > P {
		fault = "too-many-arguments"
	}
	descs, vals := []string{}, []interface{}{}
	m := c12hMeta{def: d}
	for i, a := range e.args {
		r := n.eval(a, nil)
		if r.silent != "" {
			return r
		}
		if r.err {
			if fault != "" {
				return c12hRes{silent: "more-than-one-fault"}
			}
			return r
		}
		fr.nils = append(fr.nils, r.val == nil)
		m.nilAt = append(m.nilAt, r.val == nil)
		m.callAt = append(m.callAt, a.kind == 'c')
		if fault != "" {
			continue
		}
		k, isVar := "", false
		if d.variadic && i >= P-1 {
			k, isVar = d.kinds[P-1], true
		} else {
			k = d.kinds[i]
		}
		pt := c12Types[k]
		var ev reflect.Value
		if r.val == nil {
			ev = reflect.Zero(pt)
		} else {
			if !reflect.TypeOf(r.val).AssignableTo(pt) {
				fault, upto = "unassignable-argument", len(n.log)
				continue
			}
			ev = reflect.ValueOf(r.val).Convert(pt)
		}
		switch {
		case isVar:
			descs = append(descs, "..."+c12Val(ev))
			vals = append(vals, ev.Interface())
		case k == "ctxS":
			descs = append(descs, "ctx(block=false)") // only nil is assignable: the zero value
		case k == "ctxI":
			descs = append(descs, "ctx(nil)")
		default:
			descs = append(descs, c12Val(ev))
			vals = append(vals, ev.Interface())
		}
	}
	if fault != "" {
		return c12hRes{err: true, errFn: d.name, errWhy: fault, min: start, upto: upto, chain: n.chain()[1:]}
	}
	m.autoFrom = len(descs)
	var body *c12hBlock
	if !d.variadic {
		for i := nargs; i < P; i++ {
			switch d.kinds[i] {
			case "ctxS", "ctxI":
				switch {
				case blk == nil:
					descs = append(descs, "ctx(block=false)")
				case d.block:
					descs = append(descs, "ctx(block=true)")
					body = blk
				default:
					if blk.e != nil {
						return c12hRes{silent: "non-static-block-for-describing-helper"}
					}
					descs = append(descs, "ctx(block=true,"+strconv.Quote(blk.static)+")")
				}
			default:
				descs = append(descs, "map[string]interface {}:<empty>")
				vals = append(vals, map[string]interface{}{})
			}
		}
	}
	n.log = append(n.log, c12hEntry{fn: d.name, descs: descs})
	m.chain = n.chain()
	n.meta = append(n.meta, m)
	blockOut := ""
	if body != nil {
		if body.e == nil {
			blockOut = body.static
		} else {
			saveX := n.hasX
			r := n.eval(body.e, nil)
			n.hasX = saveX
			if r.silent != "" || r.err {
				return r // a failing block fails the helper (non-nil trailing error) and so the render
			}
			blockOut = n.outText(r.val)
		}
	}
	return c12hRes{val: c12hResult(d, vals, blockOut)}
}

// run evaluates the whole program; out is the expected output when it succeeds
func (n *c12hNative) run(p c12hProg) (out string, res c12hRes) {
	parts := []string{}
	for _, st := range p {
		s := ""
		switch st.form {
		case 'e', 'l':
			n.hasX = false
			r := n.eval(st.e, nil)
			if r.silent != "" || r.err {
				return "", r
			}
			if st.form == 'l' && r.val == nil {
				// <% let v = nil %><%= v %>: whether a variable holding nil can be read is not this property's business
				return "", c12hRes{silent: "let-of-nil"}
			}
			s = n.outText(r.val)
		case 'f', 'u':
			xs, sep, last := []int{10, 20, 30}, ",", ","
			if st.form == 'u' {
				xs, sep, last = []int{10, 20}, ".", ""
			}
			for i, x := range xs {
				n.hasX, n.x = true, x
				r := n.eval(st.e, nil)
				n.hasX = false
				if r.silent != "" || r.err {
					return "", r
				}
				s += n.outText(r.val)
				if i < len(xs)-1 {
					s += sep
				} else {
					s += last
				}
			}
		case 'w':
			n.hasX = false
			w := &c12hExpr{kind: 'c', fn: "wrapb", args: []*c12hExpr{{kind: 'i', n: 5}, {kind: 'i', n: 6}}}
			r := n.eval(w, &c12hBlock{e: st.e})
			if r.silent != "" || r.err {
				return "", r
			}
			s = n.outText(r.val)
		case 'b':
			n.hasX = false
			if st.e.kind != 'c' {
				return "", c12hRes{silent: "block-on-a-non-call"}
			}
			r := n.eval(st.e, &c12hBlock{static: "blk"})
			if r.silent != "" || r.err {
				return "", r
			}
			s = n.outText(r.val)
		}
		parts = append(parts, s)
	}
	return strings.Join(parts, "|"), c12hRes{}
}

// ---------------------------------------------------------------------------------------------
// running one program

type c12hRunner struct {
	rep *Report
	st  *c12hState
	fns map[string]interface{}
}

func c12hNewRunner(rep *Report) *c12hRunner {
	h := &c12hRunner{rep: rep, st: &c12hState{}, fns: map[string]interface{}{}}
	for _, d := range c12hDefs {
		h.fns[d.name] = c12hMake(d, h.st)
	}
	return h
}

func c12hShape(p c12hProg) (calls, nested, nestedNonFirst, depth int) {
	var walk func(e *c12hExpr, lvl int)
	walk = func(e *c12hExpr, lvl int) {
		if e.kind != 'c' {
			return
		}
		calls++
		if lvl > depth {
			depth = lvl
		}
		for i, a := range e.args {
			if a.kind == 'c' {
				nested++
				if i > 0 {
					nestedNonFirst++
				}
			}
			walk(a, lvl+1)
		}
	}
	for _, st := range p {
		walk(st.e, 1)
	}
	return
}

func (h *c12hRunner) check(p c12hProg) {
	rep := h.rep
	if rep.Full() {
		return
	}
	tmpl := p.tmpl()
	caseText := "hist=" + p.enc() + " | " + tmpl
	h.st.log = nil
	o := safeCall(3*time.Second, func() (string, error) {
		t, err := plush.NewTemplate(tmpl)
		if err != nil {
			return "", fmt.Errorf("c12-parse: %w", err)
		}
		ctx := plush.NewContext()
		for name, f := range h.fns {
			ctx.Set(name, f)
		}
		return t.Exec(ctx)
	})
	obs := append([]c12hEntry{}, h.st.log...)
	nat := &c12hNative{}
	wantOut, w := nat.run(p)

	calls, nested, nestedNonFirst, depth := c12hShape(p)
	rep.Count(caseText, true)
	rep.Tag("hist:result:" + o.Kind())
	rep.Tag("hist:statements:" + strconv.Itoa(len(p)))
	rep.Tag("hist:call-depth:" + strconv.Itoa(depth))
	for _, st := range p {
		rep.Tag("hist:form:" + string(st.form))
	}
	if nested > 0 {
		rep.Tag("hist:has-nested-call")
	}
	if nestedNonFirst > 0 && (calls > nested+1 || len(p) > 1 || strings.ContainsAny(string(p[0].form), "fuw")) {
		rep.Tag("hist:nested-call-in-later-operand-after-earlier-call")
	}
	fail := func(kind, site, what string) {
		rep.Fail(Failure{Case: caseText, Kind: kind, Site: site, What: what})
	}
	if o.Err != nil && strings.HasPrefix(o.Err.Error(), "c12-parse:") {
		fail("wrong-error", "hist-program-does-not-parse", "the template does not parse: "+c12Clean(o.Err.Error()))
		return
	}
	if w.silent != "" {
		rep.Tag("hist:unchecked:" + w.silent)
		return
	}
	if o.Kind() == "HANG" {
		fail("hang", "c12-hist", "render did not return within 3s")
		return
	}
	if o.Kind() == "PANIC" {
		fail("panic", o.Site, "render panicked: "+c12Clean(o.Panic)+"; expected invocations "+c12hLogText(nat.log))
		return
	}
	// first difference between the observed and the expected invocation log
	d := 0
	for d < len(obs) && d < len(nat.log) && obs[d].String() == nat.log[d].String() {
		d++
	}
	logs := "expected invocations " + c12hLogText(nat.log) + ", observed " + c12hLogText(obs) + "; render result: " + c12ObsText(o)
	if w.err {
		rep.Tag("hist:want:error:" + w.errWhy)
		id := map[string]string{"too-many-arguments": "too-many", "unassignable-argument": "bad-arg"}[w.errWhy]
		what := "expected an error naming the call " + w.errFn + " (" + w.errWhy + "), " + w.errFn + " not invoked, render failed; "
		switch {
		case d == len(nat.log) && len(obs) > d && obs[d].fn == w.errFn:
			fail("missing-error", "hist-invoked-despite-"+id, what+logs)
		case d < len(obs):
			// the observed log is not a prefix of what Go evaluation gives
			fail("wrong-output", h.diffSite(nat, obs, d), what+"the invocations before the error differ at #"+strconv.Itoa(d)+": "+logs)
		case len(obs) < w.min && o.Kind() == "ERR":
			fail("wrong-error", h.refusedSite(nat.meta[len(obs)]), what+"a valid call that precedes it ("+nat.log[len(obs)].fn+") was not invoked and the render failed; "+logs)
		case len(obs) < w.min:
			fail("wrong-output", "hist-invocation-missing", what+"calls that precede the failing call did not run: "+logs)
		case o.Kind() == "OK":
			fail("missing-error", "hist-no-error-for-"+id, what+logs)
		case !strings.Contains(o.Err.Error(), w.errFn):
			site := "hist-error-does-not-name-call:" + id
			if len(obs) < w.upto {
				// the render stopped before the bad argument was reached: a valid call was refused
				site = h.refusedSite(nat.meta[len(obs)])
			} else if s := c12hNilBlame(w.chain); s != "" {
				// the error may come from an enclosing call that refused an argument evaluated before the bad call was reached
				site = s
			}
			fail("wrong-error", site, what+"the error does not contain the function name: "+c12Clean(o.Err.Error()))
		}
		return
	}
	rep.Tag("hist:want:invoked")
	if d < len(nat.log) || d < len(obs) {
		switch {
		case d == len(obs) && o.Kind() == "ERR":
			// a valid call was refused
			fail("wrong-error", h.refusedSite(nat.meta[d]), "a valid call ("+nat.log[d].fn+") was not invoked and the render failed; "+logs)
		default:
			fail("wrong-output", h.diffSite(nat, obs, d), "invocation #"+strconv.Itoa(d)+" differs; "+logs)
		}
		return
	}
	if o.Kind() == "ERR" {
		fail("wrong-error", "hist-valid-program-fails-after-invocations", "every helper ran with the right arguments and returned no error, but the render failed: "+c12Clean(o.Err.Error()))
		return
	}
	if !nat.outUnknown && o.Out != wantOut {
		fail("wrong-output", "hist-result-is-not-call-value", "every helper received the right arguments; expected output "+strconv.Quote(wantOut)+", got "+strconv.Quote(o.Out))
	}
}

func (h *c12hRunner) refusedSite(m c12hMeta) string {
	if s := c12hNilBlame(m.chain); s != "" {
		return s
	}
	return "hist-valid-call-not-invoked:" + c12hTailClass(m.def)
}

func c12hTailClass(d c12hDef) string {
	switch {
	case d.variadic:
		return "variadic"
	case c12AutoSuffix(d.kinds) > 0:
		return "auto"
	}
	return "fixed"
}

// diffSite names the family of the first difference (at index d) between the observed log and the
// expected log.
func (h *c12hRunner) diffSite(nat *c12hNative, obs []c12hEntry, d int) string {
	switch {
	case d >= len(nat.log):
		return "hist-extra-invocation"
	case d >= len(obs):
		return "hist-invocation-missing"
	case obs[d].fn != nat.log[d].fn:
		return "hist-invocation-sequence"
	}
	m := nat.meta[d]
	got, want := obs[d].descs, nat.log[d].descs
	if len(got) != len(want) {
		if m.def.variadic {
			return "variadic-tail-length"
		}
		return "argument-count"
	}
	for i := range got {
		if got[i] == want[i] {
			continue
		}
		if i >= m.autoFrom {
			switch m.def.kinds[i] {
			case "ctxS":
				return "hist-block-wrong-for-struct-ctx"
			case "ctxI":
				return "hist-block-wrong-for-interface-ctx"
			}
			return "auto-options-map-wrong"
		}
		isVar := m.def.variadic && i >= len(m.def.kinds)-1
		isNil := i < len(m.nilAt) && m.nilAt[i]
		switch {
		case isNil && isVar:
			return "variadic-nil-not-zero"
		case isNil:
			return "fixed-nil-not-zero"
		}
		// a value other than nil arrived changed: tell by what kind of call shape
		hasNested := false
		for _, c := range m.callAt {
			hasNested = hasNested || c
		}
		cls := "fixed"
		if m.def.variadic {
			cls = "variadic"
		}
		if hasNested {
			return "hist-arg-value-changed-in-call-with-nested-call:" + cls
		}
		return "hist-arg-value-changed:" + cls
	}
	return "hist-arg-value-changed"
}

// ---------------------------------------------------------------------------------------------
// generation

type c12hGen struct {
	r      *Rng
	lit    int
	inLoop bool
	fault  bool // one deliberate fault (unassignable / too many) per program at most
}

func (g *c12hGen) next() int {
	g.lit++
	if g.lit%10 == 0 { // 10, 20, 30 are the loop values
		g.lit++
	}
	return g.lit
}

func (g *c12hGen) literal(want string) *c12hExpr {
	switch want {
	case "int":
		if g.inLoop && g.r.Chance(40) {
			return &c12hExpr{kind: 'x'}
		}
		return &c12hExpr{kind: 'i', n: g.next()}
	case "string":
		return &c12hExpr{kind: 's', n: g.next()}
	case "opts", "map":
		return &c12hExpr{kind: 'h', n: g.next()}
	case "ctxS", "ctxI":
		return &c12hExpr{kind: 'n'}
	}
	switch g.r.Intn(6) {
	case 0:
		return &c12hExpr{kind: 's', n: g.next()}
	case 1:
		return &c12hExpr{kind: 'b'}
	case 2:
		return &c12hExpr{kind: 'h', n: g.next()}
	case 3:
		return &c12hExpr{kind: 'n'}
	}
	return g.literal("int")
}

func (g *c12hGen) expr(want string, depth int) *c12hExpr {
	if want == "ctxS" || want == "ctxI" {
		return &c12hExpr{kind: 'n'}
	}
	if !g.fault && (want == "int" || want == "string" || want == "opts") && g.r.Chance(3) {
		g.fault = true
		want = map[string]string{"int": "string", "string": "int", "opts": "int"}[want]
	}
	if g.r.Chance(6) {
		return &c12hExpr{kind: 'n'}
	}
	if depth > 0 && want != "opts" && g.r.Chance(50) {
		fits := []c12hDef{}
		for _, d := range c12hDefs {
			if d.resultFits(want) && d.res != "any" {
				fits = append(fits, d)
			}
		}
		if g.r.Chance(12) { // the identity helper: result type interface{}, dynamic type as wanted
			return &c12hExpr{kind: 'c', fn: "idn", args: []*c12hExpr{g.expr(want, depth-1)}}
		}
		return g.call(Pick(g.r, fits), depth-1)
	}
	return g.literal(want)
}

func (g *c12hGen) call(d c12hDef, depth int) *c12hExpr {
	e := &c12hExpr{kind: 'c', fn: d.name}
	P := len(d.kinds)
	if d.variadic {
		for i := 0; i < P-1; i++ {
			e.args = append(e.args, g.expr(d.kinds[i], depth))
		}
		for i, n := 0, g.r.Range(0, 4); i < n; i++ {
			e.args = append(e.args, g.expr(d.kinds[P-1], depth))
		}
		return e
	}
	n := P
	tooMany := !g.fault && g.r.Chance(2)
	if tooMany {
		g.fault = true
	} else {
		suffix := c12AutoSuffix(d.kinds)
		if suffix > 0 && strings.HasPrefix(d.kinds[P-1], "ctx") {
			if g.r.Chance(92) {
				n--
				if suffix == 2 && g.r.Chance(50) {
					n--
				}
			}
		} else if suffix > 0 && g.r.Chance(50) {
			n--
		}
	}
	for i := 0; i < n; i++ {
		e.args = append(e.args, g.expr(d.kinds[i], depth))
	}
	if tooMany {
		e.args = append(e.args, &c12hExpr{kind: 'i', n: g.next()})
	}
	return e
}

func (g *c12hGen) prog() c12hProg {
	g.lit, g.fault = 0, false
	n := []int{1, 2, 2, 2, 2, 3, 3, 3, 4, 4}[g.r.Intn(10)]
	var p c12hProg
	for i := 0; i < n; i++ {
		form := "eeeelffuwb"[g.r.Intn(10)]
		g.inLoop = form == 'f' || form == 'u'
		p = append(p, c12hStmt{form: form, e: g.call(Pick(g.r, c12hDefs), 2)})
	}
	return p
}

// c12hPlain: a call of d with literal arguments only (no auto-suppliable parameter supplied; two
// elements for a variadic tail). first, if not nil, replaces the first int argument.
func c12hPlain(g *c12hGen, d c12hDef) *c12hExpr {
	e := &c12hExpr{kind: 'c', fn: d.name}
	P := len(d.kinds)
	n := P - c12AutoSuffix(d.kinds)
	if d.variadic {
		n = P + 1
	}
	for i := 0; i < n; i++ {
		k := d.kinds[P-1]
		if i < P {
			k = d.kinds[i]
		}
		if k == "any" {
			k = "int"
		}
		e.args = append(e.args, g.literal(k))
	}
	return e
}

// c12hSystematic: every helper O x every argument position p of O x every helper I whose result fits
// the parameter at p, I nested at p, x every kind of history.
func c12hSystematic(run func(c12hProg)) {
	histories := []string{"none", "same", "wide", "twice", "let", "loop", "fn", "block", "with-block"}
	for _, O := range c12hDefs {
		for _, I := range c12hDefs {
			for _, hist := range histories {
				g := &c12hGen{r: NewRng(1)} // literals only: no random choice is made (inLoop false)
				outer := c12hPlain(g, O)
				for p := range outer.args {
					k := O.kinds[len(O.kinds)-1]
					if p < len(O.kinds) {
						k = O.kinds[p]
					}
					if !I.resultFits(k) {
						continue
					}
					g.lit = 0
					outer = c12hPlain(g, O)
					inner := c12hPlain(g, I)
					if I.res == "any" { // idn(<literal of the wanted kind>)
						kk := k
						if kk == "any" {
							kk = "int"
						}
						inner.args[0] = g.literal(kk)
					}
					if hist == "loop" || hist == "fn" {
						for _, a := range inner.args {
							if a.kind == 'i' {
								a.kind = 'x'
								break
							}
						}
					}
					outer.args[p] = inner
					var prog c12hProg
					switch hist {
					case "none":
						prog = c12hProg{{'e', outer}}
					case "same":
						prog = c12hProg{{'e', c12hPlain(g, O)}, {'e', outer}}
					case "wide":
						wide := &c12hExpr{kind: 'c', fn: "catv"}
						for i := 0; i < 5; i++ {
							wide.args = append(wide.args, g.literal("int"))
						}
						prog = c12hProg{{'e', wide}, {'e', outer}}
					case "twice":
						prog = c12hProg{{'e', outer}, {'e', outer}}
					case "let":
						prog = c12hProg{{'l', c12hPlain(g, O)}, {'l', outer}}
					case "loop":
						prog = c12hProg{{'f', outer}}
					case "fn":
						prog = c12hProg{{'u', outer}}
					case "block":
						prog = c12hProg{{'w', outer}}
					case "with-block":
						prog = c12hProg{{'e', c12hPlain(g, O)}, {'b', outer}}
					}
					run(prog)
				}
			}
		}
	}
}

func c12hStage(cfg Config, rep *Report) {
	h := c12hNewRunner(rep)
	c12hSystematic(h.check)
	g := &c12hGen{r: NewRng(cfg.Seed).Fork(1204)}
	for i, n := 0, cfg.N(8000, 60000); i < n && !rep.Full(); i++ {
		h.check(g.prog())
	}
}

func c12hReplay(arg string, rep *Report) {
	s := strings.TrimPrefix(arg, "hist=")
	if i := strings.Index(s, " | "); i >= 0 {
		s = s[:i]
	}
	p, err := c12hParseProg(strings.TrimSpace(s))
	if err != nil {
		rep.Notes = append(rep.Notes, "cannot parse replay argument: "+err.Error())
		return
	}
	c12hNewRunner(rep).check(p)
}

const c12hRule = " (D) call histories and nested calls: programs of 1-4 statements (forms: <%= E %>; let v = E; E in the body of a for loop over [10, 20, 30]; E as the body of a user-defined fn called twice; " +
	"E inside the block of another Go helper; E with a block of its own), E a tree (depth <= 3) of calls of 16 recording helpers (0-3 fixed int/string/interface{} parameters, +/- options map, +/- struct / interface helper context, ...int / ...string / ...interface{} tails, " +
	"results int, string, interface{}, (string, error)) whose results are a function of the received arguments; arguments are literals (int, string, bool, nil, hash), the loop variable or nested calls in every operand position. " +
	"Systematic part (exhaustive): every helper x every argument position x every fitting helper nested there x 9 histories (none, same call earlier, a wider call earlier, the statement twice, let, loop, fn, inside a block, with a block). " +
	"Random part: typed generation, about 75% valid programs, at most one deliberate fault (unassignable argument or one argument too many) per program. Expected invocation log and output come from evaluating the same tree directly in Go."

var c12hNotes = []string{
	"(D) on an expected error the observed invocation log has to be a prefix of the log Go evaluation gives (whether the remaining arguments of a refused call are still evaluated is left open) and must contain every invocation that precedes the refused call; the error has to contain the refused function's name.",
	"(D) a nested call never has a block of its own: its auto-supplied helper context must report HasBlock() == false even when the enclosing call has a block.",
	"(D) the output is compared only when every printed value is an int, string, bool or nil (how other values print is not this property's business).",
}
