package main

import (
	"fmt"
	"io"
	"reflect"
	"regexp"
	"strconv"
	"strings"
	"time"

	plush "github.com/gobuffalo/plush/v5"
)

// C18, second stream ("C18-entry"): the layout of a code tag is insignificant at EVERY way the text of a
// code tag reaches the lexer, not only through plush.Render of a template whose tag delimiters the
// generator writes itself.
//
//   * RunScript: the script IS the inside of one code tag, the library supplies the delimiters. The token
//     list of a pure-code program (effects: calls of the helper out(e)) is laid out as a script: random
//     separators in every gap and - the positions a template layout cannot reach - at the two EDGES of the
//     text: before the first token (from the very first byte on) and after the last one: nothing, space, tab,
//     LF, CRLF, one or more '# comment' lines. Compared with the canonical script (single spaces, one
//     statement per line, nothing at the edges): same error (modulo 'line N: ') and same sequence of out()
//     calls. The empty program (a script of white space and comment lines only) is included.
//   * RenderR (reader that delivers one byte at a time), BuffaloRenderer, NewTemplate+Exec, a zero
//     Template{Input}.Exec, Parse with the template cache on (second look-up) + Exec, Clone+Exec: template
//     programs as in the first stream, canonical layout and random layouts through the SAME entry point.
//
// Case text: `entry=<name> site=<Go-quoted family id> a=<Go-quoted canonical text> b=<Go-quoted layout text>`.

const c18EntryPrefix = "entry="

type c18Ent struct {
	name   string
	script bool
}

var c18Ents = []*c18Ent{
	{name: "RunScript", script: true},
	{name: "RenderR"},
	{name: "BuffaloRenderer"},
	{name: "NewTemplate.Exec"},
	{name: "Template.Exec"},
	{name: "Parse[cache].Exec"},
	{name: "Clone.Exec"},
}

func c18EntByName(n string) *c18Ent {
	for _, e := range c18Ents {
		if e.name == n {
			return e
		}
	}
	return nil
}

// text writes the token list in the given layout, as this entry point wants it (nil: a template)
func (e *c18Ent) text(items []c18It, l *c18Layout) string {
	if e == nil || !e.script {
		return c18Render(items, l)
	}
	return c18ScriptText(items, l)
}

func (e *c18Ent) obs(src string) string {
	if e == nil {
		return c18Obs(src)
	}
	return c18EntObs(e.name, src)
}

// c18ScriptText: everything in one tag, whose delimiters are not written. Boundaries without a decision
// are line breaks; l.Open[0] / l.Close[0] are the separators at the two edges of the script (missing: "").
func c18ScriptText(items []c18It, l *c18Layout) string {
	first, last := 0, 0
	for _, it := range items {
		if it.K == 't' {
			if first == 0 {
				first = it.ID
			}
			last = it.ID
		}
	}
	if first == 0 {
		return l.Open[0] + l.Close[0]
	}
	c := l.clone()
	for _, it := range items {
		if it.K == 'S' || it.K == 'O' || it.K == 'C' {
			d, ok := c.B[it.ID]
			if !ok || !d.Merge {
				d = c18Dec{Merge: true, Sep: "\n"}
			}
			d.Comments = nil
			c.B[it.ID] = d
		}
	}
	delete(c.Open, 0)
	delete(c.Close, 0)
	c.Open[first], c.Close[last] = "", ""
	t := c18Render(items, c)
	if !strings.HasPrefix(t, "<%") || !strings.HasSuffix(t, "%>") {
		return "out(\"c18: not a script: \" + " + strconv.Quote(t) + ")" // never (pure-code programs only)
	}
	return l.Open[0] + t[2:len(t)-2] + l.Close[0]
}

type c18OneByte struct {
	s string
	i int
}

func (r *c18OneByte) Read(p []byte) (int, error) {
	if r.i >= len(r.s) {
		return 0, io.EOF
	}
	if len(p) == 0 {
		return 0, nil
	}
	p[0] = r.s[r.i]
	r.i++
	return 1, nil
}

func c18Show(i interface{}) string {
	if i != nil && reflect.ValueOf(i).Kind() == reflect.Func {
		return "<func>"
	}
	return fmt.Sprint(i)
}

func c18EntObs(name, src string) string {
	var effects []string // written by the call only; read only after it has returned
	o := safeCall(3*time.Second, func() (string, error) {
		switch name {
		case "RunScript":
			ctx := c18Ctx()
			var eff []string
			ctx.Set("out", func(i interface{}) { eff = append(eff, c18Show(i)) })
			err := plush.RunScript(src, ctx)
			effects = eff
			return strings.Join(eff, "\x1f"), err
		case "RenderR":
			return plush.RenderR(&c18OneByte{s: src}, c18Ctx())
		case "BuffaloRenderer":
			data := map[string]interface{}{
				"a": 3, "b": 4, "n": 0, "s": "str", "t": "<t>", "a-b": 7,
				"xs": []interface{}{1, 2, 3}, "ys": []interface{}{"x", "y"},
				"m": map[string]interface{}{"k": 1, "j": "v"},
				"p": c18Person{Name: "Ann", Age: 30},
			}
			helpers := map[string]interface{}{"add": func(x, y int) int { return x + y }, "up": strings.ToUpper, "wrap": c18Wrap}
			return plush.BuffaloRenderer(src, data, helpers)
		case "NewTemplate.Exec":
			t, err := plush.NewTemplate(src)
			if err != nil {
				return "", err
			}
			return t.Exec(c18Ctx())
		case "Template.Exec":
			t := &plush.Template{Input: src}
			return t.Exec(c18Ctx())
		case "Parse[cache].Exec":
			plush.CacheEnabled = true
			defer func() { plush.CacheEnabled = false }()
			if _, err := plush.Parse(src); err != nil {
				return "", err
			}
			t, err := plush.Parse(src)
			if err != nil {
				return "", err
			}
			return t.Exec(c18Ctx())
		case "Clone.Exec":
			t, err := plush.NewTemplate(src)
			if err != nil {
				return "", err
			}
			return t.Clone().Exec(c18Ctx())
		}
		return "", fmt.Errorf("c18: unknown entry point %q", name)
	})
	plush.CacheEnabled = false
	switch o.Kind() {
	case "OK":
		return "OK " + o.Out
	case "ERR":
		// a script's effects up to the error are visible too
		return "ERR " + c18LineRe.ReplaceAllString(o.Err.Error(), "") + " effects=" + strings.Join(effects, "\x1f")
	case "PANIC":
		return "PANIC " + o.Site + " " + o.Panic
	}
	return "HANG"
}

// separators for the two edges of a script: white space and whole comment lines, from the first byte on
func c18EdgeSep(r *Rng) string {
	if r.Chance(45) {
		s := Pick(r, []string{"", "", "", " ", "\n", "\t", "\r\n"})
		for n := r.Range(1, 2); n > 0; n-- {
			s += "#" + Pick(r, c18ComTexts) + Pick(r, []string{"\n", "\n", "\r\n", "\n  ", "\n\n"})
		}
		return s
	}
	return Pick(r, c18WS)
}

func c18EntryFamily(f c18Found) string {
	var parts []string
	if s := f.layout.Open[0]; s != "" {
		parts = append(parts, "script-starts-with-"+c18SepClass(s))
	}
	if s := f.layout.Close[0]; s != "" {
		parts = append(parts, "script-ends-with-"+c18SepClass(s))
	}
	rest := c18Family(f)
	if len(parts) == 0 || !strings.HasSuffix(rest, ":no-layout-entry-left") {
		parts = append(parts, rest)
	}
	return f.ent.name + ":" + strings.Join(parts, ",")
}

func c18EntryCase(ent, site, a, b string) string {
	return c18EntryPrefix + ent + " site=" + strconv.Quote(site) + " a=" + strconv.Quote(a) + " b=" + strconv.Quote(b)
}

var c18EntryCaseRe = regexp.MustCompile(`^entry=(\S+) (?:site=("(?:[^"\\]|\\.)*") )?a=("(?:[^"\\]|\\.)*") b=("(?:[^"\\]|\\.)*")$`)

func c18KindOf(shape string) string {
	switch shape {
	case "panic":
		return "panic"
	case "hang":
		return "hang"
	case "error-only-in-layout", "error-differs":
		return "wrong-error"
	case "error-only-in-canonical":
		return "missing-error"
	}
	return "wrong-output"
}

func c18EntryReport(cfg Config) *Report {
	rep := NewReport("C18", "C18-entry", cfg)
	rep.Rule = "the first stream's programs and layouts at the other entry points. RunScript (60% of the programs): pure-code programs (no text / output tags; effects are out(e) calls) written as ONE script = the inside of a code tag whose delimiters the library supplies: random separators in every gap, statements separated by white space / line comments / ';', and at the two edges of the text (before the first token from byte 0 on, after the last token) one of {nothing, space, tab, LF, CRLF, 1-2 '# comment' lines (LF or CRLF terminated) optionally after white space}; 5% empty programs (white space and comment lines only); compared with the canonical script (single spaces, one statement per line, nothing at the edges): same error modulo 'line N: ', same sequence of out() arguments. Template entry points (40%): RenderR (one byte per Read), BuffaloRenderer, NewTemplate+Exec, zero Template{Input}.Exec, Parse with the cache on (second look-up)+Exec, Clone+Exec: canonical layout vs random layouts through the same entry point. non-trivial = layout text differs from the canonical text; distinct by (entry, layout text); mismatches shrunk and bucketed as in the first stream, family id prefixed with the entry point"
	rep.Notes = append(rep.Notes,
		"a line comment at the end of a script is always terminated by a line break (whether an unterminated last comment line may swallow the tag end the library appends is left open by the statement)",
		"two runs through the SAME entry point are compared (never RunScript against Render), so what an entry point adds of its own (print/println, a child context) is not checked")
	return rep
}

func c18EntryReplay(cfg Config) *Report {
	rep := c18EntryReport(cfg)
	m := c18EntryCaseRe.FindStringSubmatch(cfg.Arg)
	var ent *c18Ent
	if m != nil {
		ent = c18EntByName(m[1])
	}
	if ent == nil {
		rep.Notes = append(rep.Notes, "cannot parse --arg (want entry=<name> [site=\"…\" ]a=\"…\" b=\"…\")")
		return rep
	}
	site := ent.name + ":replay"
	if m[2] != "" {
		site, _ = strconv.Unquote(m[2])
	}
	a, _ := strconv.Unquote(m[3])
	b, _ := strconv.Unquote(m[4])
	oa, ob := ent.obs(a), ent.obs(b)
	rep.Count(cfg.Arg, true)
	if oa != ob {
		shape := c18Shape(oa, ob)
		if shape == "panic" {
			site = strings.SplitN(ob, " ", 3)[1]
		}
		rep.Fail(Failure{Case: cfg.Arg, Kind: c18KindOf(shape), Site: site,
			What: fmt.Sprintf("two layouts of one token list must behave identically through %s; a gives %q, b gives %q", ent.name, oa, ob)})
	}
	return rep
}

func c18EntryStream(cfg Config) *Report {
	rep := c18EntryReport(cfg)
	r := NewRng(cfg.Seed).Fork(1018)
	nprog := cfg.N(900, 6000)
	for pi := 0; pi < nprog && !rep.Full(); pi++ {
		ent := c18Ents[0]
		if r.Chance(40) {
			ent = c18Ents[1+r.Intn(len(c18Ents)-1)]
		}
		rep.Tag("entry:" + ent.name)
		size := []int{1, 1, 2, 2, 3, 3, 4, 5, 6}[r.Intn(9)]
		var prog []*c18Stmt
		if ent.script && r.Chance(5) {
			rep.Tag("empty-program")
		} else {
			prog = c18GenMode(r, size, ent.script)
		}
		var items []c18It
		c18Flatten(prog, &items)
		canon := ent.text(items, c18NewLayout())
		want := ent.obs(canon)
		rep.Tag("canonical:" + strings.SplitN(want, " ", 2)[0])
		var layouts []*c18Layout
		if ent.script {
			// the edges alone, on the canonical body
			for _, e := range []string{" ", "\n", "\r\n", "\t", "# note\n", "#\r\n", " # note\n"} {
				l := c18NewLayout()
				l.Open[0] = e
				layouts = append(layouts, l)
				l = c18NewLayout()
				l.Close[0] = e
				layouts = append(layouts, l)
			}
			for k := 0; k < 8; k++ {
				l := c18RandLayout(r, items, 1, k%2 == 0)
				for id, d := range l.B {
					d.Comments = nil
					l.B[id] = d
				}
				if s := c18EdgeSep(r); s != "" {
					l.Open[0] = s
				}
				if s := c18EdgeSep(r); s != "" {
					l.Close[0] = s
				}
				layouts = append(layouts, l)
			}
		} else {
			for k := 0; k < 8; k++ {
				layouts = append(layouts, c18RandLayout(r, items, k%3, k%3 == 0))
			}
		}
		reported := map[string]bool{}
		for _, l := range layouts {
			src := ent.text(items, l)
			got := ent.obs(src)
			rep.Count(ent.name+" "+src, src != canon)
			if ent.script {
				rep.Tag("script-starts-with:" + c18SepClass(l.Open[0]))
				rep.Tag("script-ends-with:" + c18SepClass(l.Close[0]))
			}
			if got == want {
				continue
			}
			f := c18Shrink(c18Found{prog: prog, layout: l, shape: c18Shape(want, got), ent: ent})
			fam := c18EntryFamily(f)
			if reported[fam] {
				continue
			}
			reported[fam] = true
			var its []c18It
			c18Flatten(f.prog, &its)
			a, b := ent.text(its, c18NewLayout()), ent.text(its, f.layout)
			oa, ob := ent.obs(a), ent.obs(b)
			site := fam
			if f.shape == "panic" {
				site = strings.SplitN(ob, " ", 3)[1]
			}
			rep.Fail(Failure{Case: c18EntryCase(ent.name, site, a, b), Kind: c18KindOf(f.shape), Site: site,
				What: fmt.Sprintf("two layouts of one token list must behave identically through %s; canonical gives %q, this layout gives %q", ent.name, oa, ob)})
		}
	}
	return rep
}
