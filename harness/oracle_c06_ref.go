package main

// C06 — expression trees, their printings, and a reference evaluator written from the property
// text (properties.jsonl, C06). Nothing in this file looks at plush's parser or evaluator: the
// tree is generated, printed, and evaluated here; plush only ever sees the printed text.

import (
	"fmt"
	"html/template"
	"math"
	"regexp"
	"strings"
	"sync"
	"time"

	plush "github.com/gobuffalo/plush/v5"
)

// ---- values ----

type c06Kind int

const (
	c06Int c06Kind = iota
	c06Float
	c06Str
	c06Bool
	c06Nil
	c06Any // generator only
)

func (k c06Kind) String() string {
	return [...]string{"int", "float", "string", "bool", "nil", "any"}[k]
}

type c06Val struct {
	k c06Kind
	i int64
	f float64
	s string
	b bool
}

// result classes of the reference evaluator
const (
	c06OK     = iota // a value
	c06ErrMis        // error: operand-type mismatch
	c06ErrDiv        // error: division by zero
	c06Unspec        // the property text does not define this case: nothing is checked
)

type c06Res struct {
	class int
	v     c06Val
}

func (r c06Res) isErr() bool { return r.class == c06ErrMis || r.class == c06ErrDiv }

func (r c06Res) String() string {
	switch r.class {
	case c06OK:
		return fmt.Sprintf("%s %q", r.v.k, c06Printed(r.v))
	case c06ErrMis:
		return "error (operand-type mismatch)"
	case c06ErrDiv:
		return "error (division by zero)"
	}
	return "unspecified"
}

// printed form of a value: what `<%= v %>` writes, and what `string + v` appends (unescaped there)
func c06Raw(v c06Val) string {
	switch v.k {
	case c06Int:
		return fmt.Sprintf("%d", v.i)
	case c06Float:
		return c06FloatText(v.f)
	case c06Str:
		return v.s
	case c06Bool:
		if v.b {
			return "true"
		}
		return "false"
	}
	return ""
}

// The printed form of a float. For the everyday range it is Go's shortest decimal ("1.5", "0.25", "-0.5", "0").
// Where that form would carry an exponent (|f| >= 1e21 always, and in Go's %v already from 1e6 up / below 1e-4)
// the property text does not say which spelling is "the printed form"; there it is DEFINED by what plush itself
// writes for `<%= x %>` with x a context variable holding exactly this float64. So the oracle demands only that
// an expression whose value is f renders like f itself, and that `string + f` appends that same text -- whatever
// spelling plush has chosen. (If plush cannot render the variable at all, the leaf check reports that; the
// fallback is Go's %v.)
var c06FloatTexts sync.Map // math.Float64bits -> string

func c06FloatText(f float64) string {
	s := fmt.Sprint(f)
	if !strings.ContainsAny(s, "eE") {
		return s
	}
	key := math.Float64bits(f)
	if v, ok := c06FloatTexts.Load(key); ok {
		return v.(string)
	}
	o := safeCall(3*time.Second, func() (string, error) {
		return plush.Render("<%= x %>", plush.NewContextWith(map[string]interface{}{"x": f}))
	})
	if o.Kind() == "OK" && o.Out != "" {
		s = o.Out
	}
	if o.Kind() != "HANG" {
		c06FloatTexts.Store(key, s)
	}
	return s
}

func c06Printed(v c06Val) string {
	if v.k == c06Str {
		return template.HTMLEscapeString(v.s)
	}
	return c06Raw(v)
}

// truth value of an operand of ! && || (C07's list: nil, false, "" are falsy; numbers are truthy)
func c06Truthy(v c06Val) bool {
	switch v.k {
	case c06Nil:
		return false
	case c06Bool:
		return v.b
	case c06Str:
		return v.s != ""
	}
	return true
}

// ---- operators ----

type c06OpInfo struct {
	sym   string
	name  string // for family ids
	level int    // documented precedence level; higher binds tighter
}

var c06Ops = []c06OpInfo{
	{"*", "mul", 4}, {"/", "div", 4},
	{"+", "plus", 3}, {"-", "minus", 3},
	{"<", "lt", 2}, {"<=", "le", 2}, {">", "gt", 2}, {">=", "ge", 2},
	{"==", "eq", 1}, {"!=", "ne", 1}, {"~=", "match", 1},
	{"&&", "and", 0}, {"||", "or", 0},
}

const c06NotLevel = 5

func c06Op(sym string) c06OpInfo {
	if sym == "!" {
		return c06OpInfo{"!", "not", c06NotLevel}
	}
	for _, o := range c06Ops {
		if o.sym == sym {
			return o
		}
	}
	return c06OpInfo{sym, "unknown", -1}
}

// ---- leaves ----

type c06Leaf struct {
	name  string      // token in the s-expression and in the template
	val   c06Val      // reference value
	goVal interface{} // non-nil: a context variable with this Go value
	probe int         // 1: counting helper returning true, 2: counting helper returning false
	mag   bool        // a value outside the everyday range (see c06ExtPool)
	vr    bool        // a variable whose binding is an INPUT of the case (oracle_c06_env.go), not fixed by the pool
	bind  string      // vr: name of the value it is bound to (c06EnvVals); "" = bound by the environments of the case
}

// token of the leaf in the s-expression
func (l *c06Leaf) tok() string {
	if l.vr && l.bind != "" {
		return l.name + ":" + l.bind
	}
	return l.name
}

func (l *c06Leaf) src() string {
	if l.probe != 0 {
		return l.name + "()"
	}
	return l.name
}

func c06IntV(i int64) c06Val     { return c06Val{k: c06Int, i: i} }
func c06FloatV(f float64) c06Val { return c06Val{k: c06Float, f: f} }
func c06StrV(s string) c06Val    { return c06Val{k: c06Str, s: s} }
func c06BoolV(b bool) c06Val     { return c06Val{k: c06Bool, b: b} }

// The pool. Literals are spelled as in a template; variables (goVal != nil) are set in the context.
// Equal pairs: 3/ip, 1.5/fh, "a"/sa. Negative numbers only via variables (no unary minus). Floats are
// small dyadic rationals.
var c06Pool = []*c06Leaf{
	{name: "0", val: c06IntV(0)},
	{name: "3", val: c06IntV(3)},
	{name: "7", val: c06IntV(7)},
	{name: "ip", val: c06IntV(3), goVal: 3},
	{name: "im", val: c06IntV(-3), goVal: -3},
	{name: "1.5", val: c06FloatV(1.5)},
	{name: "0.25", val: c06FloatV(0.25)},
	{name: "0.0", val: c06FloatV(0)},
	{name: "fh", val: c06FloatV(1.5), goVal: 1.5},
	{name: "fm", val: c06FloatV(-0.5), goVal: -0.5},
	{name: `"a"`, val: c06StrV("a")},
	{name: `"b"`, val: c06StrV("b")},
	{name: `""`, val: c06StrV("")},
	{name: `"3"`, val: c06StrV("3")},
	{name: "sa", val: c06StrV("a"), goVal: "a"},
	{name: "sx", val: c06StrV("a<b"), goVal: "a<b"},
	{name: "true", val: c06BoolV(true)},
	{name: "false", val: c06BoolV(false)},
	{name: "nil", val: c06Val{k: c06Nil}},
}

// The extension pool: operand VALUES the everyday pool does not reach. "Integer" and "float" operands in the
// property are Go's int and float64, so the quantifier covers the whole range of both:
//   - ints that need more than 53 bits (not representable as a float64): 2^53+1 next to 2^53 (a near-equal pair),
//     the largest int, 2^62+1 and -(2^53+1) as variables. A quotient, difference or comparison computed in
//     floating point is wrong on these and on nothing smaller.
//   - floats whose printed form has an exponent (>= 1e6 / 1e21, < 1e-4) and a non-zero whole-valued one (2.0 prints "2"):
//     the operands on which "the printed form of x" in `string + x` can differ from what `<%= x %>` writes.
//
// All floats are exact in binary except 0.00001 (nearest float64, the same one plush's ParseFloat gives).
var c06ExtPool = []*c06Leaf{
	{name: "9007199254740993", val: c06IntV(9007199254740993), mag: true},
	{name: "9007199254740992", val: c06IntV(9007199254740992), mag: true},
	{name: "9223372036854775807", val: c06IntV(math.MaxInt64), mag: true},
	{name: "ib", val: c06IntV(4611686018427387905), goVal: int(4611686018427387905), mag: true},
	{name: "ibm", val: c06IntV(-9007199254740993), goVal: int(-9007199254740993), mag: true},
	{name: "2.0", val: c06FloatV(2), mag: true},
	{name: "1000000.0", val: c06FloatV(1e6), mag: true},
	{name: "0.00001", val: c06FloatV(0.00001), mag: true},
	{name: "fb", val: c06FloatV(2.5e7), goVal: 2.5e7, mag: true},
	{name: "fs", val: c06FloatV(1.0 / 16384), goVal: 1.0 / 16384, mag: true},
	{name: "fg", val: c06FloatV(3e21), goVal: 3e21, mag: true},
}

// everyday pool + extension pool
var c06AllPool = append(append([]*c06Leaf(nil), c06Pool...), c06ExtPool...)

// leaves of the two-operator enumeration around the extension values: (quick) a few of them next to one everyday
// leaf per type; (thorough) more of them
var c06MagQuickNames = []string{"3", "im", "9007199254740993", "ib", "1.5", "1000000.0", "fs", `"a"`}
var c06MagThoroughNames = []string{"3", "im", "1.5", `"a"`,
	"9007199254740993", "9007199254740992", "ib", "ibm", "1000000.0", "0.00001", "fb", "fs"}

// reduced pool for the quick tier's two-operator enumeration (one or two leaves per type)
var c06SmallPoolNames = []string{"0", "3", "im", "1.5", `"a"`, `""`, "true", "nil"}

var c06Probes = []*c06Leaf{
	{name: "ct", val: c06BoolV(true), probe: 1},
	{name: "cf", val: c06BoolV(false), probe: 2},
}

func c06LeafByName(n string) *c06Leaf {
	for _, l := range c06AllPool {
		if l.name == n {
			return l
		}
	}
	for _, l := range c06Probes {
		if l.name == n {
			return l
		}
	}
	return c06VarLeafByTok(n)
}

func c06LeavesOf(k c06Kind, pool []*c06Leaf) []*c06Leaf {
	var out []*c06Leaf
	for _, l := range pool {
		if k == c06Any || l.val.k == k {
			out = append(out, l)
		}
	}
	return out
}

// ---- trees ----

type c06Node struct {
	op   string // "" leaf, "!" unary (operand in l), else binary
	leaf *c06Leaf
	l, r *c06Node
}

func c06L(l *c06Leaf) *c06Node                 { return &c06Node{leaf: l} }
func c06Un(x *c06Node) *c06Node                { return &c06Node{op: "!", l: x} }
func c06Bin(op string, l, r *c06Node) *c06Node { return &c06Node{op: op, l: l, r: r} }

func (n *c06Node) isLeaf() bool  { return n.op == "" }
func (n *c06Node) isUnary() bool { return n.op == "!" }

func (n *c06Node) nOps() int {
	switch {
	case n.isLeaf():
		return 0
	case n.isUnary():
		return 1 + n.l.nOps()
	}
	return 1 + n.l.nOps() + n.r.nOps()
}

func (n *c06Node) depth() int {
	switch {
	case n.isLeaf():
		return 0
	case n.isUnary():
		return 1 + n.l.depth()
	}
	a, b := n.l.depth(), n.r.depth()
	if b > a {
		a = b
	}
	return 1 + a
}

func (n *c06Node) hasProbe() bool {
	switch {
	case n.isLeaf():
		return n.leaf.probe != 0
	case n.isUnary():
		return n.l.hasProbe()
	}
	return n.l.hasProbe() || n.r.hasProbe()
}

func (n *c06Node) hasMag() bool {
	switch {
	case n.isLeaf():
		return n.leaf.mag
	case n.isUnary():
		return n.l.hasMag()
	}
	return n.l.hasMag() || n.r.hasMag()
}

// s-expression: the oracle's own serialisation of a tree (replay input). Not plush syntax.
func (n *c06Node) sexpr() string {
	switch {
	case n.isLeaf():
		return n.leaf.tok()
	case n.isUnary():
		return "(! " + n.l.sexpr() + ")"
	}
	return "(" + n.op + " " + n.l.sexpr() + " " + n.r.sexpr() + ")"
}

func c06ParseSexpr(s string) (*c06Node, error) {
	s = strings.ReplaceAll(strings.ReplaceAll(s, "(", " ( "), ")", " ) ")
	toks := strings.Fields(s)
	pos := 0
	var rec func() (*c06Node, error)
	rec = func() (*c06Node, error) {
		if pos >= len(toks) {
			return nil, fmt.Errorf("unexpected end")
		}
		t := toks[pos]
		pos++
		if t == ")" {
			return nil, fmt.Errorf("unexpected )")
		}
		if t != "(" {
			l := c06LeafByName(t)
			if l == nil {
				return nil, fmt.Errorf("unknown leaf %q", t)
			}
			return c06L(l), nil
		}
		if pos >= len(toks) {
			return nil, fmt.Errorf("unexpected end")
		}
		op := toks[pos]
		pos++
		if c06Op(op).level < 0 {
			return nil, fmt.Errorf("unknown operator %q", op)
		}
		a, err := rec()
		if err != nil {
			return nil, err
		}
		var n *c06Node
		if op == "!" {
			n = c06Un(a)
		} else {
			b, err := rec()
			if err != nil {
				return nil, err
			}
			n = c06Bin(op, a, b)
		}
		if pos >= len(toks) || toks[pos] != ")" {
			return nil, fmt.Errorf("expected )")
		}
		pos++
		return n, nil
	}
	n, err := rec()
	if err == nil && pos != len(toks) {
		err = fmt.Errorf("trailing tokens")
	}
	return n, err
}

// ---- printing ----
//
// A style says how many pairs of parentheses surround each node, in preorder:
//   "min"   only the pairs the documented precedence / left-associativity require,
//   "full"  one pair around every operator node,
//   "p<digits>"  digit i = pairs around the i-th node in preorder (raised to 1 where a pair is required);
//                this is how a random admissible parenthesisation is written down, so that it (and the
//                corresponding printing of any subtree) can be replayed exactly.

// does child c of parent p need parentheses? (documented levels, all binary operators left-assoc.)
func c06NeedsParens(p, c *c06Node, right bool) bool {
	if c.isLeaf() || c.isUnary() {
		return false // ! binds tighter than every binary operator, and !!x needs none
	}
	if p.isUnary() {
		return true
	}
	pl, cl := c06Op(p.op).level, c06Op(c.op).level
	if right {
		return cl <= pl
	}
	return cl < pl
}

func (n *c06Node) size() int {
	switch {
	case n.isLeaf():
		return 1
	case n.isUnary():
		return 1 + n.l.size()
	}
	return 1 + n.l.size() + n.r.size()
}

// number of parenthesis pairs per node, preorder
func c06Wraps(n *c06Node, style string) []int {
	w := make([]int, 0, n.size())
	digits := ""
	if strings.HasPrefix(style, "p") {
		digits = style[1:]
	}
	var rec func(n *c06Node, need bool)
	rec = func(n *c06Node, need bool) {
		k := 0
		if need {
			k = 1
		}
		switch {
		case style == "full":
			if !n.isLeaf() {
				k = 1
			}
		case digits != "":
			if i := len(w); i < len(digits) && digits[i] >= '0' && digits[i] <= '9' && int(digits[i]-'0') > k {
				k = int(digits[i] - '0')
			}
		}
		w = append(w, k)
		switch {
		case n.isLeaf():
		case n.isUnary():
			rec(n.l, c06NeedsParens(n, n.l, false))
		default:
			rec(n.l, c06NeedsParens(n, n.l, false))
			rec(n.r, c06NeedsParens(n, n.r, true))
		}
	}
	rec(n, false)
	return w
}

func c06PrintWraps(n *c06Node, w []int) string {
	i := 0
	var rec func(n *c06Node) string
	rec = func(n *c06Node) string {
		k := w[i]
		i++
		var s string
		switch {
		case n.isLeaf():
			s = n.leaf.src()
		case n.isUnary():
			s = "!" + rec(n.l)
		default:
			l := rec(n.l)
			s = l + " " + n.op + " " + rec(n.r)
		}
		return strings.Repeat("(", k) + s + strings.Repeat(")", k)
	}
	return rec(n)
}

func c06Print(n *c06Node, style string) string { return c06PrintWraps(n, c06Wraps(n, style)) }

// the style of child i (0 left / operand, 1 right) when it is printed on its own: the same pairs inside,
// none around it
func c06ChildStyle(n *c06Node, style string, i int) string {
	if !strings.HasPrefix(style, "p") {
		return style
	}
	w := c06Wraps(n, style)
	from := 1
	ch := n.l
	if i == 1 {
		from, ch = 1+n.l.size(), n.r
	}
	var b strings.Builder
	b.WriteByte('p')
	for j, k := range w[from : from+ch.size()] {
		if j == 0 {
			k = 0
		}
		b.WriteByte(byte('0' + k))
	}
	return b.String()
}

// a random admissible parenthesisation: every required pair, about half of the optional ones around
// operator nodes, now and then a pair around a leaf or a doubled pair
func c06RandomStyle(r *Rng, n *c06Node) string {
	var b strings.Builder
	b.WriteByte('p')
	var rec func(n *c06Node)
	rec = func(n *c06Node) {
		k := 0
		if n.isLeaf() {
			if r.Chance(10) {
				k = 1
			}
		} else if r.Chance(45) {
			k = 1
		}
		if k == 1 && r.Chance(8) {
			k = 2
		}
		b.WriteByte(byte('0' + k))
		switch {
		case n.isLeaf():
		case n.isUnary():
			rec(n.l)
		default:
			rec(n.l)
			rec(n.r)
		}
	}
	rec(n)
	return b.String()
}

func c06Tmpl(n *c06Node, style string) string { return "<%= " + c06Print(n, style) + " %>" }

// ---- the reference evaluator ----

type c06Counts struct{ ct, cf int }

// exact int64 arithmetic; ok=false when the mathematical result does not fit (the text is silent on overflow)
func c06IntArith(op string, l, r int64) (v int64, ok bool) {
	switch op {
	case "+":
		v = l + r
		return v, (l^v)&(r^v) >= 0
	case "-":
		v = l - r
		return v, (l^r)&(l^v) >= 0
	case "*":
		if l == 0 || r == 0 {
			return 0, true
		}
		if (l == -1 && r == math.MinInt64) || (r == -1 && l == math.MinInt64) {
			return 0, false
		}
		v = l * r
		return v, v/r == l
	case "/": // r != 0
		if l == math.MinInt64 && r == -1 {
			return 0, false
		}
		return l / r, true // Go's / truncates toward zero
	}
	return 0, false
}

func c06Eval(n *c06Node, cnt *c06Counts) c06Res {
	ok := func(v c06Val) c06Res { return c06Res{class: c06OK, v: v} }
	switch {
	case n.isLeaf():
		if n.leaf.vr && n.leaf.bind == "" {
			return c06Res{class: c06Unspec} // no binding, no value (never evaluated: see c06BindTree)
		}
		switch n.leaf.probe {
		case 1:
			cnt.ct++
		case 2:
			cnt.cf++
		}
		return ok(n.leaf.val)
	case n.isUnary():
		x := c06Eval(n.l, cnt)
		if x.class != c06OK {
			return x
		}
		return ok(c06BoolV(!c06Truthy(x.v)))
	case n.op == "&&" || n.op == "||":
		l := c06Eval(n.l, cnt)
		if l.class != c06OK {
			return l
		}
		lt := c06Truthy(l.v)
		if n.op == "&&" && !lt {
			return ok(c06BoolV(false)) // right operand not evaluated
		}
		if n.op == "||" && lt {
			return ok(c06BoolV(true))
		}
		r := c06Eval(n.r, cnt)
		if r.class != c06OK {
			return r
		}
		return ok(c06BoolV(c06Truthy(r.v)))
	}
	l := c06Eval(n.l, cnt)
	r := c06Eval(n.r, cnt)
	if l.class == c06Unspec || r.class == c06Unspec {
		return c06Res{class: c06Unspec}
	}
	if l.isErr() {
		return l
	}
	if r.isErr() {
		return r
	}
	return c06Apply(n.op, l.v, r.v)
}

// the documented meaning of one binary operator on two values (not && ||)
func c06Apply(op string, l, r c06Val) c06Res {
	ok := func(v c06Val) c06Res { return c06Res{class: c06OK, v: v} }
	unspec := c06Res{class: c06Unspec}
	mismatch := c06Res{class: c06ErrMis}
	same := l.k == r.k
	switch op {
	case "==", "!=":
		var eq bool
		switch {
		case l.k == c06Nil || r.k == c06Nil:
			eq = same // nil operands are fine under == and !=: nil equals only nil
		case !same:
			return mismatch
		case l.k == c06Int:
			eq = l.i == r.i
		case l.k == c06Float:
			eq = l.f == r.f
		case l.k == c06Str:
			eq = l.s == r.s
		case l.k == c06Bool:
			eq = l.b == r.b
		}
		return ok(c06BoolV(eq == (op == "==")))
	case "<", "<=", ">", ">=":
		if !same {
			return mismatch
		}
		var c int
		switch l.k {
		case c06Int:
			c = c06Cmp(l.i < r.i, l.i == r.i)
		case c06Float:
			c = c06Cmp(l.f < r.f, l.f == r.f)
		case c06Str:
			c = c06Cmp(l.s < r.s, l.s == r.s)
		default:
			return unspec // ordering of booleans / nil: the text is silent
		}
		switch op {
		case "<":
			return ok(c06BoolV(c < 0))
		case "<=":
			return ok(c06BoolV(c <= 0))
		case ">":
			return ok(c06BoolV(c > 0))
		}
		return ok(c06BoolV(c >= 0))
	case "+", "-", "*", "/":
		if op == "+" && l.k == c06Str {
			if r.k == c06Nil {
				return unspec // "printed form" of nil: silent
			}
			return ok(c06StrV(l.s + c06Raw(r)))
		}
		if !same {
			return mismatch
		}
		switch l.k {
		case c06Int:
			if op == "/" && r.i == 0 {
				return c06Res{class: c06ErrDiv}
			}
			v, fits := c06IntArith(op, l.i, r.i)
			if !fits {
				return unspec // overflow of the 64-bit int: silent
			}
			return ok(c06IntV(v))
		case c06Float:
			var v float64
			switch op {
			case "+":
				v = l.f + r.f
			case "-":
				v = l.f - r.f
			case "*":
				v = l.f * r.f
			case "/":
				if r.f == 0 {
					return c06Res{class: c06ErrDiv}
				}
				v = l.f / r.f
			}
			if math.IsInf(v, 0) || math.IsNaN(v) {
				return unspec // overflow: silent
			}
			return ok(c06FloatV(v))
		}
		return unspec // string - string, bool + bool, nil + nil ...: silent
	case "~=":
		if l.k == c06Str && r.k == c06Str {
			re, err := regexp.Compile(r.s)
			if err != nil {
				return unspec
			}
			return ok(c06BoolV(re.MatchString(l.s)))
		}
		if l.k == c06Str || same {
			return unspec // ~= with a non-string pattern, or on two non-strings of one type: silent
		}
		return mismatch
	}
	return unspec
}

func c06Cmp(less, eq bool) int {
	switch {
	case less:
		return -1
	case eq:
		return 0
	}
	return 1
}
