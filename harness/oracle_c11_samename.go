package main

import (
	"fmt"
	"strings"
	"time"

	"github.com/gobuffalo/plush/v5"
)

// Stream C11-samename: DIFFERENT Go types that PRINT the same name (function-local types; in applications: `models.User`
// from two packages both called `models`) with different layouts, read alternately in one process. Navigation must go by
// the type's identity, never by its printed name: every leaf string spells its own owner and field, so a value read at
// another type's field position is visible. (Added after seeded change C11-j: a field-index cache keyed on Type.String().)

func c11SameA() interface{} {
	type Card struct{ Title, Body, Footer string }
	return Card{Title: "A.Title", Body: "A.Body", Footer: "A.Footer"}
}
func c11SameB() interface{} {
	type Card struct{ Body, Footer, Title string }
	return Card{Body: "B.Body", Footer: "B.Footer", Title: "B.Title"}
}
func c11SameC() interface{} {
	type Card struct {
		N      int
		Footer string
		hidden string
		Title  string
		Body   string
	}
	return &Card{N: 7, Footer: "C.Footer", hidden: "C.hidden", Title: "C.Title", Body: "C.Body"}
}
func c11SameD() interface{} {
	type Card struct{ Title string }
	return []Card{{Title: "D.Title"}}
}

func c11SameName(cfg Config) *Report {
	rep := NewReport("C11", "C11-samename", cfg)
	rep.Rule = "four function-local struct types that all print as main.Card (layouts: Title/Body/Footer; Body/Footer/Title; a pointer to N/Footer/hidden/Title/Body; a slice of {Title}) under roots a, b, c, d; every leaf spells owner.field. " +
		"EXHAUSTIVE over ordered pairs and triples of (root, field) reads, in ONE template and in CONSECUTIVE renders of one process; expected = the spelling of what Go navigation yields (a missing field must be an error). non-trivial = reads on two different types."
	rep.Exhaustive = true
	roots := map[string]interface{}{"a": c11SameA(), "b": c11SameB(), "c": c11SameC(), "d": c11SameD()}
	type read struct{ expr, want string }
	var reads []read
	for _, f := range []string{"Title", "Body", "Footer"} {
		reads = append(reads, read{"a." + f, "A." + f}, read{"b." + f, "B." + f}, read{"c." + f, "C." + f})
	}
	reads = append(reads, read{"d[0].Title", "D.Title"})
	check := func(caseText string, seq []read, oneTemplate bool) {
		rep.Count(caseText, true)
		var got []string
		var errs []string
		if oneTemplate {
			var sb strings.Builder
			for i, r := range seq {
				if i > 0 {
					sb.WriteString("|")
				}
				sb.WriteString("<%= " + r.expr + " %>")
			}
			o := safeCall(3*time.Second, func() (string, error) { return plush.Render(sb.String(), plush.NewContextWith(roots)) })
			if o.Kind() != "OK" {
				errs = append(errs, o.Kind())
			}
			got = strings.Split(o.Out, "|")
		} else {
			for _, r := range seq {
				o := safeCall(3*time.Second, func() (string, error) { return plush.Render("<%= "+r.expr+" %>", plush.NewContextWith(roots)) })
				if o.Kind() != "OK" {
					errs = append(errs, o.Kind())
				}
				got = append(got, o.Out)
			}
		}
		var want []string
		for _, r := range seq {
			want = append(want, r.want)
		}
		if len(errs) > 0 || strings.Join(got, "|") != strings.Join(want, "|") {
			rep.Fail(Failure{Case: caseText, Kind: "wrong-output", Site: "same-printed-type-name",
				What: fmt.Sprintf("Go navigation yields %q; plush: %q %v (the types of the roots all print as main.Card but are different types)", strings.Join(want, "|"), strings.Join(got, "|"), errs)})
		}
	}
	for _, one := range []bool{true, false} {
		for i := range reads {
			for j := range reads {
				seq := []read{reads[i], reads[j]}
				check(fmt.Sprintf("samename one=%v %s ; %s", one, reads[i].expr, reads[j].expr), seq, one)
				if cfg.Tier == "thorough" {
					for k := range reads {
						check(fmt.Sprintf("samename one=%v %s ; %s ; %s", one, reads[i].expr, reads[j].expr, reads[k].expr), append(seq, reads[k]), one)
					}
				}
			}
		}
	}
	return rep
}

func init() {
	prev := oracles["C11"]
	oracles["C11"] = func(cfg Config) []*Report {
		if strings.HasPrefix(cfg.Arg, "samename") {
			return []*Report{c11SameName(cfg)}
		}
		reps := prev(cfg)
		if cfg.Arg == "" {
			reps = append(reps, c11SameName(cfg))
		}
		return reps
	}
}
