package main

import "sync"

// c04Chunked runs worker over the index range [0,total) split into a FIXED number of contiguous
// chunks (independent of timing and of the number of CPUs), each with its own Report, and merges
// the chunk reports in index order — so the merged report is the same on every run.
// Used by the random stream of C04 and by C05 (shared helper of the same author).
func c04Chunked(dst *Report, cfg Config, chunks, total int, worker func(lo, hi int, rep *Report)) {
	if chunks < 1 {
		chunks = 1
	}
	reps := make([]*Report, chunks)
	var wg sync.WaitGroup
	for c := 0; c < chunks; c++ {
		lo, hi := total*c/chunks, total*(c+1)/chunks
		reps[c] = NewReport(dst.Property, dst.Stream, cfg)
		wg.Add(1)
		go func(c, lo, hi int) {
			defer wg.Done()
			worker(lo, hi, reps[c])
		}(c, lo, hi)
	}
	wg.Wait()
	for _, r := range reps {
		c04MergeReport(dst, r)
	}
}

func c04MergeReport(dst, src *Report) {
	dst.Evaluations += src.Evaluations
	for h := range src.seen {
		if _, ok := dst.seen[h]; !ok {
			dst.seen[h] = struct{}{}
			dst.Distinct++
		}
	}
	for k, v := range src.Dist {
		dst.Dist[k] += v
	}
	for _, s := range src.Samples {
		if len(dst.Samples) < 6 {
			dst.Samples = append(dst.Samples, s)
		}
	}
	for _, f := range src.Failures {
		dup := false
		for _, g := range dst.Failures {
			if g.Case == f.Case && g.Kind == f.Kind && g.Site == f.Site {
				dup = true
			}
		}
		if !dup {
			dst.Fail(f)
		}
	}
	for _, n := range src.Notes {
		dup := false
		for _, m := range dst.Notes {
			if m == n {
				dup = true
			}
		}
		if !dup && len(dst.Notes) < 60 {
			dst.Notes = append(dst.Notes, n)
		}
	}
}
