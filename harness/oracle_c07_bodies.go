package main

// C07 oracle, block contents: the statement quantifies over all chains, so the blocks of a chain need not
// render text. "Renders exactly the block of the first truthy condition" must hold just the same when that
// block renders nothing: an empty block, a block of code only (a call, a let, an assignment - the "pick a
// class" idiom), a block that prints nil or "", a comment, a nested if that selects nothing, white space.
// Blocks that render nothing are observed through mark("<marker>"), a helper that records which blocks were
// executed: exactly the selected block runs, once per evaluation of the chain, and no other one.

import (
	"fmt"
	"sort"
	"strings"
)

type c07BodyT struct {
	text  func(m string) string // the block in the template-text placements (nil: not available there)
	ret   func(m string) string // the block in the return placements (nil: not available there)
	out   func(m string) string // what rendering the block contributes
	marks bool                  // the block calls mark(m) / markS(m) / markV(m) (yielding nil / "" / m) exactly once when executed
	fails bool                  // executing the block ends in an error (after its mark): the render fails there
	what  string
}

func c07Nothing(m string) string { return "" }

var c07Bodies = map[string]c07BodyT{
	"t": {text: func(m string) string { return "{ %>" + m + "<% }" }, ret: func(m string) string { return `{ return "` + m + `" }` },
		out: func(m string) string { return m }, what: "marker text"},
	"e":  {text: func(m string) string { return "{ }" }, out: c07Nothing, what: "empty block { }"},
	"eh": {text: func(m string) string { return "{ %><% }" }, out: c07Nothing, what: "empty template text { %><% }"},
	"m":  {text: func(m string) string { return `{ mark("` + m + `") }` }, out: c07Nothing, marks: true, what: "code only: a call"},
	"l":  {text: func(m string) string { return `{ let z = markV("` + m + `") }` }, out: c07Nothing, marks: true, what: "code only: a let"},
	"a":  {text: func(m string) string { return `{ sel = markV("` + m + `") }` }, out: c07Nothing, marks: true, what: "code only: an assignment to an outer variable"},
	"pn": {text: func(m string) string { return `{ %><%= mark("` + m + `") %><% }` }, out: c07Nothing, marks: true, what: "prints nil"},
	"ps": {text: func(m string) string { return `{ %><%= markS("` + m + `") %><% }` }, out: c07Nothing, marks: true, what: `prints ""`},
	"n":  {text: func(m string) string { return `{ %><%= if (mark("` + m + `")) { %>X<% } %><% }` }, out: c07Nothing, marks: true, what: "a nested if that selects nothing"},
	"c":  {text: func(m string) string { return "{ %><%# " + m + " %><% }" }, out: c07Nothing, what: "a comment only"},
	"w":  {text: func(m string) string { return "{ %> <% }" }, out: func(m string) string { return " " }, what: "white space only"},
	"tm": {text: func(m string) string { return `{ %>` + m + `<% mark("` + m + `") %><% }` }, out: func(m string) string { return m }, marks: true, what: "marker text, then code"},
	"re": {ret: func(m string) string { return `{ return "" }` }, out: c07Nothing, what: `return ""`},
	"rm": {ret: func(m string) string { return `{ return markS("` + m + `") }` }, out: c07Nothing, marks: true, what: `return of a call that yields ""`},
	// blocks that fail once they run (after recording that they ran): the chain has selected its block all the
	// same - no later condition is evaluated and no other block runs
	"xu": {text: func(m string) string { return `{ %><%= markS("` + m + `") %><%= c07unset %><% }` },
		ret: func(m string) string { return `{ return markS("` + m + `") + c07unset }` },
		out: c07Nothing, marks: true, fails: true, what: "fails: reads an unset name"},
	"xm": {text: func(m string) string { return `{ %><%= markS("` + m + `") %><%= c07unset.Name %><% }` },
		ret: func(m string) string { return `{ return markS("` + m + `") + c07unset.Name }` },
		out: c07Nothing, marks: true, fails: true, what: "fails: reads a member of an unset name"},
	"xe": {text: func(m string) string { return `{ %><%= fail("` + m + `") %><% }` },
		ret: func(m string) string { return `{ return fail("` + m + `") }` },
		out: c07Nothing, marks: true, fails: true, what: "fails: a helper that returns an error"},
}

var c07BodyNames = []string{"t", "e", "eh", "m", "l", "a", "pn", "ps", "n", "c", "w", "tm", "re", "rm", "xu", "xm", "xe"}

// the non-default body kinds a placement can take
func c07BodyKindsFor(w c07Wrap) []string {
	var ks []string
	for _, b := range c07BodyNames[1:] {
		if (w.ret && c07Bodies[b].ret != nil) || (!w.ret && c07Bodies[b].text != nil) {
			ks = append(ks, b)
		}
	}
	return ks
}

func (c c07Chain) nBranches() int {
	if c.hasElse {
		return len(c.forms) + 1
	}
	return len(c.forms)
}

func (c c07Chain) marker(j int) string {
	if j >= len(c.forms) {
		return "E"
	}
	return fmt.Sprintf("B%d", j)
}

func (c c07Chain) body(j int) string {
	if c.bodies == nil || j < 0 || j >= len(c.bodies) {
		return "t"
	}
	return c.bodies[j]
}

func (c c07Chain) defaultBodies() bool {
	for _, b := range c.bodies {
		if b != "t" {
			return false
		}
	}
	return true
}

func (c c07Chain) checkBodies() error {
	if len(c.bodies) != c.nBranches() {
		return fmt.Errorf("bodies= needs one entry per branch (%d)", c.nBranches())
	}
	for _, b := range c.bodies {
		bt, ok := c07Bodies[b]
		if !ok {
			return fmt.Errorf("unknown body %q", b)
		}
		if (c.wrap.ret && bt.ret == nil) || (!c.wrap.ret && bt.text == nil) {
			return fmt.Errorf("body %q is not available in placement %s", b, c.wrap.name)
		}
	}
	return nil
}

// canonical bodies: all-default is nil
func (c c07Chain) normBodies() c07Chain {
	if c.bodies != nil && c.defaultBodies() {
		c.bodies = nil
	}
	return c
}

// distinct non-default body kinds of a chain, in c07BodyNames order
func (c c07Chain) bodySig() []string {
	has := map[string]bool{}
	for _, b := range c.bodies {
		has[b] = true
	}
	var sig []string
	for _, b := range c07BodyNames[1:] {
		if has[b] {
			sig = append(sig, b)
		}
	}
	return sig
}

// the context entries the blocks need; marks[m] counts executions of the block with marker m
func c07BodiesData(data map[string]interface{}, marks map[string]int) {
	data["mark"] = func(m string) interface{} { marks[m]++; return nil }
	data["markS"] = func(m string) string { marks[m]++; return "" }
	data["markV"] = func(m string) string { marks[m]++; return m }
	data["sel"] = "none"
	data["fail"] = func(m string) (string, error) { marks[m]++; return "", fmt.Errorf("block %s failed", m) }
}

func c07MarksText(c c07Chain, m map[string]int) string {
	var p []string
	for j := 0; j <= len(c.forms); j++ {
		if n, ok := m[c.marker(j)]; ok && n != 0 {
			p = append(p, fmt.Sprintf("%s=%d", c.marker(j), n))
		}
	}
	return "{" + strings.Join(p, " ") + "}"
}

// A chain violates the statement with these block contents but not with every block its marker text: look
// for the simplest chain that still shows it (own helpers, plain bools, plain forms, one block that is not
// marker text, an empty block in its place, top level) and name the family after what is left.
func c07BlameBodies(rep *Report, seen map[string]bool, c c07Chain, r c07ChainObs) {
	kinds := c07KindMap
	suffix := ""
	try := func(c1 c07Chain) bool {
		if r1 := c07EvalChain(c1); len(r1.symptoms) > 0 {
			c, r = c1, r1
			return true
		}
		return false
	}
	// operand spellings
	if !c.defaultOps() {
		c1 := c
		c1.ops = nil
		if !try(c1) {
			suffix += "-operands-spelled-" + strings.Join(c.opSig(), "+")
		}
	}
	// kinds
	if !r.allBool {
		c1 := c
		c1.rows = nil
		for _, row := range c.rows {
			nr := make([]string, len(row))
			for i, kn := range row {
				nr[i] = c07BoolName(kinds[kn].truthy)
			}
			c1.rows = append(c1.rows, nr)
		}
		c1 = c1.normOps()
		if !try(c1) {
			suffix += "-nonbool-kinds"
		}
	}
	// forms
	plain := true
	for _, f := range c.forms {
		plain = plain && f == "p"
	}
	if !plain {
		ok := false
		if r.allBool {
			c2 := c
			c2.forms = c07Plain(len(c.forms))
			c2.rows = nil
			for _, row := range c.rows {
				nr := make([]string, len(row))
				for i, kn := range row {
					nr[i] = c07BoolName(kinds[kn].truthy != c07Forms[c.forms[i]].negate)
				}
				c2.rows = append(c2.rows, nr)
			}
			ok = try(c2)
		}
		if !ok {
			suffix += "-with-condition-forms"
		}
	}
	// placement: the same rows, one at a time, at top level
	in := ""
	if c.wrap.name != "top" && c.wrap.name != "top-return" {
		tw, _ := c07WrapByName("top")
		if c.wrap.ret {
			tw, _ = c07WrapByName("top-return")
		}
		atTop := false
		for _, row := range c.rows {
			if try(c07Chain{wrap: tw, hasElse: c.hasElse, forms: c.forms, rows: [][]string{row}, ops: c.ops, bodies: c.bodies}) {
				atTop = true
				break
			}
		}
		if !atTop {
			in = "-in-" + c.wrap.name
		}
	}
	// one block that is not marker text; an empty block (return "") in its place
	where := func(j int) string {
		switch {
		case j == 0:
			return "if"
		case j >= len(c.forms):
			return "else"
		}
		return "elseif"
	}
	simplest := "e"
	if c.wrap.ret {
		simplest = "re"
	}
	blamed := false
	whole, wholeObs := c, r
	for j := 0; j < whole.nBranches(); j++ {
		if whole.body(j) == "t" {
			continue
		}
		c1 := whole
		c1.bodies = make([]string, whole.nBranches())
		for k := range c1.bodies {
			c1.bodies[k] = "t"
		}
		c1.bodies[j] = whole.body(j)
		r1 := c07EvalChain(c1)
		if len(r1.symptoms) == 0 {
			continue
		}
		blamed = true
		if c1.bodies[j] != simplest {
			c2 := c1
			c2.bodies = append([]string(nil), c1.bodies...)
			c2.bodies[j] = simplest
			if r2 := c07EvalChain(c2); len(r2.symptoms) > 0 {
				c1, r1 = c2, r2
			}
		}
		b, wh := c1.bodies[j], where(j)
		c07FailChain(rep, seen, c1, r1, func(sy string) string {
			return "chain-" + sy + "-block-" + b + "-as-" + wh + "-block" + in + suffix
		})
	}
	if blamed {
		return
	}
	sig := whole.bodySig()
	sort.Strings(sig)
	c07FailChain(rep, seen, whole, wholeObs, func(sy string) string {
		return "chain-" + sy + "-blocks-" + strings.Join(sig, "+") + in + suffix
	})
}

func c07UniformBodies(b string, n int) []string {
	bs := make([]string, n)
	for i := range bs {
		bs[i] = b
	}
	return bs
}

func c07GenBodies(rep *Report, seen map[string]bool, cfg Config, written, returnable []string) {
	// (1) every block of the chain of the same kind: every truth assignment (pairs of assignments in the
	// placements that evaluate the chain twice), with and without else, in every placement
	maxN1, maxN2 := cfg.N(4, 5), cfg.N(2, 3)
	for _, w := range c07Wraps {
		for _, b := range c07BodyKindsFor(w) {
			for _, hasElse := range []bool{false, true} {
				e := 0
				if hasElse {
					e = 1
				}
				if w.rows == 1 {
					for n := 1; n <= maxN1; n++ {
						for bits := 0; bits < 1<<uint(n); bits++ {
							c07RunChain(rep, seen, c07Chain{wrap: w, hasElse: hasElse, forms: c07Plain(n), rows: [][]string{c07BoolRow(n, bits)},
								bodies: c07UniformBodies(b, n+e)}, "blocks-exhaustive")
						}
					}
				} else {
					for n := 1; n <= maxN2; n++ {
						for b0 := 0; b0 < 1<<uint(n); b0++ {
							for b1 := 0; b1 < 1<<uint(n); b1++ {
								c07RunChain(rep, seen, c07Chain{wrap: w, hasElse: hasElse, forms: c07Plain(n),
									rows: [][]string{c07BoolRow(n, b0), c07BoolRow(n, b1)}, bodies: c07UniformBodies(b, n+e)}, "blocks-exhaustive")
							}
						}
					}
				}
			}
		}
		if rep.Full() {
			return
		}
	}
	// (2) one block of a 3-chain of that kind (the if block, an else-if block, the else block), the others
	// marker text: every truth assignment, with and without else, in every placement
	for _, w := range c07Wraps {
		for _, b := range c07BodyKindsFor(w) {
			for _, hasElse := range []bool{true, false} {
				nb := 3
				if hasElse {
					nb = 4
				}
				for pos := 0; pos < nb; pos++ {
					bodies := c07UniformBodies("t", nb)
					bodies[pos] = b
					for bits := 0; bits < 8; bits++ {
						rows := [][]string{c07BoolRow(3, bits)}
						if w.rows == 2 {
							rows = append(rows, c07BoolRow(3, 7-bits))
						}
						c07RunChain(rep, seen, c07Chain{wrap: w, hasElse: hasElse, forms: c07Plain(3), rows: rows, bodies: bodies}, "block-at-position")
					}
				}
			}
		}
		if rep.Full() {
			return
		}
	}
	// (3) random chains with random blocks (own random stream: the other streams stay as they were)
	r := NewRng(cfg.Seed).Fork(7007)
	for i := 0; i < cfg.N(5000, 100000) && !rep.Full(); i++ {
		w := Pick(r, c07Wraps)
		n := r.Range(1, 6)
		c := c07Chain{wrap: w, hasElse: r.Bool(), forms: make([]string, n)}
		for j := range c.forms {
			c.forms[j] = "p"
			if r.Chance(30) {
				c.forms[j] = Pick(r, c07FormNames)
			}
		}
		for x := 0; x < w.rows; x++ {
			row := make([]string, n)
			for j := range row {
				switch {
				case r.Chance(40):
					row[j] = "bool-false"
				case r.Chance(40):
					row[j] = "bool-true"
				case r.Chance(20):
					row[j] = Pick(r, written)
				default:
					row[j] = Pick(r, returnable)
				}
			}
			c.rows = append(c.rows, row)
		}
		// a kind written as an expression is part of the template: the same in every row
		for j := 0; j < n; j++ {
			for x := range c.rows {
				if !c07KindMap[c.rows[x][j]].isVar {
					for y := range c.rows {
						c.rows[y][j] = c.rows[x][j]
					}
					break
				}
			}
		}
		if r.Chance(20) {
			c.ops = c07RandomOps(r, n)
			c = c.normOps()
		}
		avail := c07BodyKindsFor(w)
		c.bodies = c07UniformBodies("t", c.nBranches())
		for j := range c.bodies {
			if r.Chance(50) {
				c.bodies[j] = Pick(r, avail)
			}
		}
		c = c.normBodies()
		c07RunChain(rep, seen, c, "blocks-random")
	}
}

func c07BodiesRule() string {
	var p []string
	for _, b := range c07BodyNames[1:] {
		p = append(p, b+": "+c07Bodies[b].what)
	}
	return strings.Join(p, "; ")
}
