package main

import (
	"fmt"
	"reflect"
	"runtime"
	"runtime/debug"
	"strconv"
	"strings"
	"sync"
	"sync/atomic"
	"time"

	plush "github.com/gobuffalo/plush/v5"
	"github.com/gobuffalo/plush/v5/helpers/hctx"
)

// C10 oracle (model-free): a tree of <= 4 plush contexts is driven through histories of
// New / Set / Value / Has; every Value / Has result is predicted by a small map-of-maps
// reference of the *property* (nearest binding on the path to the root, nil bindings
// shadow, Has <=> non-nil, user value under a helper name beats the built-in).
//
// Case text (replay):  root=r3 obs=all ops=N0 S1.a=1 V0.len H2.b
//   root   : r0 NewContext(), r1 NewContextWith({}), r2 {a:1}, r3 {len:2}, r4 {a:nil,b:2}, r5 {len:1,a:2,b:nil}
//   obs    : all  = after the root is made and after every New/Set, Value and Has of every
//                   (context, key) pair are checked (explicit-state exploration)
//            none = only the Value/Has operations written in the history are checked
//   ops    : N<i> child of context i (contexts are numbered in creation order, root = 0)
//            S<i>.<k>=<v>   V<i>.<k>   H<i>.<k>      k in {a,b,len}   v in {1,2,nil}

const c10MaxCtx = 4

var c10Keys = [3]string{"a", "b", "len"}

// pre-boxed keys (Value takes an interface{}; boxing per call would dominate the allocation profile)
var c10KeyBox = [3]interface{}{"a", "b", "len"}

const c10HelperKey = 2 // index of "len" in c10Keys

// reference cell codes
const (
	c10Absent  = iota // no binding in this frame
	c10NilB           // bound to nil (still shadows)
	c10One            // bound to 1
	c10Two            // bound to 2
	c10Builtin        // bound to the built-in helper (plush.Helpers.All()[k])
	c10Open           // statement leaves it open (see Notes): not checked
)

var c10CodeName = [...]string{"<unbound>", "nil", "1", "2", "<built-in>", "<open>"}

type c10Op struct {
	kind byte // 'N' 'S' 'V' 'H'
	ctx  int8
	key  int8
	val  int8 // 0 nil, 1, 2
}

func (o c10Op) String() string {
	switch o.kind {
	case 'N':
		return "N" + strconv.Itoa(int(o.ctx))
	case 'S':
		v := "nil"
		if o.val > 0 {
			v = strconv.Itoa(int(o.val))
		}
		return "S" + strconv.Itoa(int(o.ctx)) + "." + c10Keys[o.key] + "=" + v
	}
	return string(o.kind) + strconv.Itoa(int(o.ctx)) + "." + c10Keys[o.key]
}

type c10Root struct {
	name string
	with bool    // NewContextWith(data) rather than NewContext()
	data [3]int8 // reference codes of the initial data (c10Absent = not in the map)
}

var c10Roots = []c10Root{
	{"r0", false, [3]int8{}},
	{"r1", true, [3]int8{}},
	{"r2", true, [3]int8{c10One, 0, 0}},
	{"r3", true, [3]int8{0, 0, c10Two}},
	{"r4", true, [3]int8{c10NilB, c10Two, 0}},
	{"r5", true, [3]int8{c10Two, c10NilB, c10One}},
}

func c10GoVal(code int8) interface{} {
	switch code {
	case c10One:
		return 1
	case c10Two:
		return 2
	}
	return nil
}

// ---- the reference (the property, not the code) ------------------------------------------

type c10Ref struct {
	n      int
	parent [c10MaxCtx]int8
	data   [c10MaxCtx][3]int8
}

func (r *c10Ref) init(root c10Root) {
	r.n = 1
	r.parent[0] = -1
	r.data[0] = root.data
	// no user value under the helper's name: the built-in is what the root observes
	if r.data[0][c10HelperKey] == c10Absent {
		r.data[0][c10HelperKey] = c10Builtin
	}
}

// lookup returns the code of the nearest binding of key k from context c, and its owner.
func (r *c10Ref) lookup(c, k int) (int8, int) {
	for i := c; i >= 0; i = int(r.parent[i]) {
		if v := r.data[i][k]; v != c10Absent {
			return v, i
		}
	}
	return c10Absent, -1
}

func (r *c10Ref) newChild(p int) int {
	c := r.n
	r.n++
	r.parent[c] = int8(p)
	r.data[c] = [3]int8{}
	// A child made while the helper's name is bound to nil (or to an open value) on its path:
	// the statement's nearest-binding clause says nil, the design's injection clause says
	// built-in. Open: not checked until somebody Sets the key on the child.
	if v, _ := r.lookup(p, c10HelperKey); v == c10NilB || v == c10Open {
		r.data[c][c10HelperKey] = c10Open
	}
	return c
}

func (r *c10Ref) set(c, k int, val int8) {
	r.data[c][k] = c10NilB + val // 0 -> nil binding, 1 -> One, 2 -> Two
}

func (r *c10Ref) isAncestorOrSelf(a, c int) bool {
	for i := c; i >= 0; i = int(r.parent[i]) {
		if i == a {
			return true
		}
	}
	return false
}

// ---- running one history on plush --------------------------------------------------------

var c10BuiltinPtr = func() uintptr {
	f, ok := plush.Helpers.All()[c10Keys[c10HelperKey]]
	if !ok || f == nil {
		return 0
	}
	return reflect.ValueOf(f).Pointer()
}()

// c10Observe maps an observed value to a reference code (c10Absent = something else entirely).
func c10Observe(g interface{}) (int8, string) {
	switch v := g.(type) {
	case nil:
		return c10NilB, "nil"
	case int:
		if v == 1 {
			return c10One, "1"
		}
		if v == 2 {
			return c10Two, "2"
		}
	}
	rv := reflect.ValueOf(g)
	if rv.Kind() == reflect.Func && c10BuiltinPtr != 0 && rv.Pointer() == c10BuiltinPtr {
		return c10Builtin, "<built-in>"
	}
	return c10Absent, fmt.Sprintf("%T(%v)", g, g)
}

type c10Fail struct {
	site, what string
	step       int // index of the op at (or after) which the check failed; -1 = after root creation
}

type c10Stats struct {
	ops, checks, open int
	openBuiltin       int
	openNil           int
}

// c10ValueSite classifies a wrong Value result into a narrow family.
func c10ValueSite(r *c10Ref, c, k int, exp int8, owner int, got int8) string {
	helper := k == c10HelperKey
	// does the observed value equal a binding that lives off the path of c ?
	onPath := false // the observed value is also bound somewhere on c's own path: not evidence of a leak
	for i := c; i >= 0; i = int(r.parent[i]) {
		if r.data[i][k] == got {
			onPath = true
		}
	}
	if (got == c10One || got == c10Two) && !onPath {
		for i := 0; i < r.n; i++ {
			if r.data[i][k] == got && !r.isAncestorOrSelf(i, c) {
				if r.isAncestorOrSelf(c, i) {
					return "set-on-descendant-visible-in-ancestor"
				}
				return "set-on-sibling-branch-visible"
			}
		}
	}
	switch {
	case helper && (exp == c10One || exp == c10Two) && got == c10Builtin:
		return "builtin-wins-over-user-value"
	case helper && exp == c10Builtin:
		return "builtin-helper-not-visible"
	case exp == c10NilB && got != c10NilB:
		return "nil-set-does-not-shadow"
	case exp == c10Absent:
		return "value-for-unbound-key"
	case owner == c:
		return "own-set-not-returned"
	default:
		return "nearest-ancestor-binding-not-returned"
	}
}

// c10Run executes one history from scratch. It returns the first violated check (nil if none).
// It must be called under a recover (c10Guard).
func c10Run(root c10Root, ops []c10Op, obsAll bool, st *c10Stats) *c10Fail {
	var ref c10Ref
	ref.init(root)
	var ctxs [c10MaxCtx]hctx.Context
	if root.with {
		m := map[string]interface{}{}
		for k, code := range root.data {
			if code != c10Absent {
				m[c10Keys[k]] = c10GoVal(code)
			}
		}
		ctxs[0] = plush.NewContextWith(m)
	} else {
		ctxs[0] = plush.NewContext()
	}

	checkValue := func(step, c, k int) *c10Fail {
		exp, owner := ref.lookup(c, k)
		g := ctxs[c].Value(c10KeyBox[k])
		st.checks++
		got, gs := c10Observe(g)
		if exp == c10Open {
			st.open++
			if got == c10Builtin {
				st.openBuiltin++
			} else if got == c10NilB {
				st.openNil++
			}
			return nil
		}
		want := exp
		if want == c10Absent {
			want = c10NilB
		}
		if got != want {
			return &c10Fail{step: step, site: c10ValueSite(&ref, c, k, exp, owner, got),
				what: fmt.Sprintf("Value(%q) on context %d: expected %s (nearest binding: %s), got %s",
					c10Keys[k], c, c10CodeName[want], c10Where(owner), gs)}
		}
		return nil
	}
	checkHas := func(step, c, k int) *c10Fail {
		exp, owner := ref.lookup(c, k)
		h := ctxs[c].Has(c10Keys[k])
		st.checks++
		if exp == c10Open {
			st.open++
			return nil
		}
		want := exp != c10Absent && exp != c10NilB
		if h != want {
			site := "has-false-for-non-nil-value"
			if h {
				site = "has-true-for-unbound-key"
				if exp == c10NilB {
					site = "has-true-for-nil-binding"
				}
			}
			return &c10Fail{step: step, site: site,
				what: fmt.Sprintf("Has(%q) on context %d: expected %v (nearest binding: %s = %s), got %v",
					c10Keys[k], c, want, c10Where(owner), c10CodeName[exp], h)}
		}
		return nil
	}
	observeAll := func(step int) *c10Fail {
		for c := 0; c < ref.n; c++ {
			for k := 0; k < 3; k++ {
				if f := checkValue(step, c, k); f != nil {
					return f
				}
				if f := checkHas(step, c, k); f != nil {
					return f
				}
			}
		}
		return nil
	}

	if obsAll {
		if f := observeAll(-1); f != nil {
			return f
		}
	}
	for i, op := range ops {
		st.ops++
		c, k := int(op.ctx), int(op.key)
		switch op.kind {
		case 'N':
			ch := ctxs[c].New()
			if ch == nil {
				return &c10Fail{step: i, site: "new-returns-nil", what: "New() returned nil"}
			}
			ctxs[ref.newChild(c)] = ch
		case 'S':
			ctxs[c].Set(c10Keys[k], c10GoVal(int8(c10NilB)+op.val))
			ref.set(c, k, op.val)
		case 'V':
			if f := checkValue(i, c, k); f != nil {
				return f
			}
		case 'H':
			if f := checkHas(i, c, k); f != nil {
				return f
			}
		}
		if obsAll && (op.kind == 'N' || op.kind == 'S') {
			if f := observeAll(i); f != nil {
				return f
			}
		}
	}
	return nil
}

func c10Where(owner int) string {
	if owner < 0 {
		return "none"
	}
	return "context " + strconv.Itoa(owner)
}

// c10Guard runs one history with panic recovery (site = top plush frame).
func c10Guard(root c10Root, ops []c10Op, obsAll bool, st *c10Stats) (f *c10Fail, panicked bool) {
	defer func() {
		if r := recover(); r != nil {
			f = &c10Fail{step: len(ops) - 1, site: plushFrame(), what: "panic: " + fmt.Sprint(r)}
			panicked = true
		}
	}()
	return c10Run(root, ops, obsAll, st), false
}

func c10CaseText(root c10Root, ops []c10Op, obsAll bool) string {
	var b strings.Builder
	b.WriteString("root=")
	b.WriteString(root.name)
	if obsAll {
		b.WriteString(" obs=all ops=")
	} else {
		b.WriteString(" obs=none ops=")
	}
	for i, o := range ops {
		if i > 0 {
			b.WriteByte(' ')
		}
		b.WriteString(o.String())
	}
	return b.String()
}

func c10ParseCase(s string) (root c10Root, ops []c10Op, obsAll bool, err error) {
	root = c10Roots[0]
	i := strings.Index(s, "ops=")
	if i < 0 {
		return root, nil, false, fmt.Errorf("no ops= in case")
	}
	for _, f := range strings.Fields(s[:i]) {
		switch {
		case strings.HasPrefix(f, "root="):
			ok := false
			for _, r := range c10Roots {
				if r.name == f[5:] {
					root, ok = r, true
				}
			}
			if !ok {
				return root, nil, false, fmt.Errorf("unknown root %q", f)
			}
		case f == "obs=all":
			obsAll = true
		}
	}
	n := 1
	for _, f := range strings.Fields(s[i+4:]) {
		if len(f) < 2 {
			return root, nil, false, fmt.Errorf("bad op %q", f)
		}
		op := c10Op{kind: f[0]}
		c := int(f[1] - '0')
		if c < 0 || c >= n {
			return root, nil, false, fmt.Errorf("bad context in %q", f)
		}
		op.ctx = int8(c)
		if op.kind == 'N' {
			if n >= c10MaxCtx {
				return root, nil, false, fmt.Errorf("more than %d contexts", c10MaxCtx)
			}
			n++
			ops = append(ops, op)
			continue
		}
		if len(f) < 4 || f[2] != '.' {
			return root, nil, false, fmt.Errorf("bad op %q", f)
		}
		rest := f[3:]
		val := ""
		if j := strings.IndexByte(rest, '='); j >= 0 {
			rest, val = rest[:j], rest[j+1:]
		}
		ki := -1
		for k, name := range c10Keys {
			if name == rest {
				ki = k
			}
		}
		if ki < 0 {
			return root, nil, false, fmt.Errorf("bad key in %q", f)
		}
		op.key = int8(ki)
		switch op.kind {
		case 'S':
			switch val {
			case "nil":
				op.val = 0
			case "1":
				op.val = 1
			case "2":
				op.val = 2
			default:
				return root, nil, false, fmt.Errorf("bad value in %q", f)
			}
		case 'V', 'H':
		default:
			return root, nil, false, fmt.Errorf("bad op %q", f)
		}
		ops = append(ops, op)
	}
	return root, ops, obsAll, nil
}

// c10Shrink: cut the history after the failing step, then greedily drop Set/Value/Has ops
// (New ops stay, so context numbers remain valid) while the same family still fails.
func c10Shrink(root c10Root, ops []c10Op, obsAll bool, f *c10Fail) ([]c10Op, *c10Fail) {
	cur := append([]c10Op(nil), ops...)
	if f.step >= 0 && f.step+1 < len(cur) {
		cur = cur[:f.step+1]
	}
	best := f
	for changed := true; changed; {
		changed = false
		for i := len(cur) - 1; i >= 0; i-- {
			if cur[i].kind == 'N' {
				continue
			}
			cand := append(append([]c10Op(nil), cur[:i]...), cur[i+1:]...)
			var st c10Stats
			if g, _ := c10Guard(root, cand, obsAll, &st); g != nil && g.site == f.site {
				cur, best, changed = cand, g, true
			}
		}
	}
	return cur, best
}

// ---- enumeration ----------------------------------------------------------------------------

// c10Alphabet restricts the enumerated operations.
type c10Alphabet struct {
	reads  bool // Value / Has are operations of the history (literal histories)
	canon  bool // only histories canonical under renaming a<->b and 1<->2 (b not Set before a, 2 not used before 1)
	maxCtx int
	keys   []int8
	vals   []int8
}

var c10FullKeys = []int8{0, 1, 2}
var c10FullVals = []int8{0, 1, 2}

func c10NextOps(al c10Alphabet, n int, prefix []c10Op, out []c10Op) []c10Op {
	out = out[:0]
	aUsed, oneUsed := true, true
	if al.canon {
		aUsed, oneUsed = false, false
		for _, p := range prefix {
			if p.kind == 'S' {
				if p.key == 0 {
					aUsed = true
				}
				if p.val == 1 {
					oneUsed = true
				}
			}
		}
	}
	for c := 0; c < n; c++ {
		if n < al.maxCtx {
			out = append(out, c10Op{kind: 'N', ctx: int8(c)})
		}
	}
	for c := 0; c < n; c++ {
		for _, k := range al.keys {
			if k == 1 && !aUsed {
				continue
			}
			for _, v := range al.vals {
				if v == 2 && !oneUsed {
					continue
				}
				out = append(out, c10Op{kind: 'S', ctx: int8(c), key: k, val: v})
			}
		}
	}
	if al.reads {
		for c := 0; c < n; c++ {
			for _, k := range al.keys {
				out = append(out, c10Op{kind: 'V', ctx: int8(c), key: k})
				out = append(out, c10Op{kind: 'H', ctx: int8(c), key: k})
			}
		}
	}
	return out
}

type c10Found struct {
	root   c10Root
	ops    []c10Op
	obsAll bool
	f      *c10Fail
	panick bool
}

type c10Local struct {
	st      c10Stats
	leaves  int
	nodes   int
	found   []c10Found
	perSite map[string]int
	sample  string
}

func (l *c10Local) record(root c10Root, ops []c10Op, obsAll bool, f *c10Fail, p bool) {
	if l.perSite == nil {
		l.perSite = map[string]int{}
	}
	// exploration is by increasing position, so the first hits per family are already short
	if l.perSite[f.site] >= 2*maxPerSig {
		return
	}
	l.perSite[f.site]++
	l.found = append(l.found, c10Found{root, append([]c10Op(nil), ops...), obsAll, f, p})
}

// c10Enumerate runs every history of exactly `length` operations over the alphabet (every
// shorter history is a prefix of one of them and its checks are a prefix of that run's checks).
func c10Enumerate(rep *Report, root c10Root, al c10Alphabet, length int, obsAll bool, deadline time.Time) (complete bool) {
	// tasks = all prefixes of length min(3,length), handed to the workers from a shared counter
	type task struct {
		ops []c10Op
		n   int
	}
	var tasks []task
	var build func(prefix []c10Op, n, depth int)
	pl := 3
	if length < pl {
		pl = length
	}
	build = func(prefix []c10Op, n, depth int) {
		if depth == pl {
			tasks = append(tasks, task{append([]c10Op(nil), prefix...), n})
			return
		}
		for _, op := range c10NextOps(al, n, prefix, nil) {
			nn := n
			if op.kind == 'N' {
				nn++
			}
			build(append(prefix, op), nn, depth+1)
		}
	}
	build(nil, 1, 0)

	locals := make([]c10Local, len(tasks))
	var next int64 = -1
	var timedOut int32
	workers := runtime.GOMAXPROCS(0)
	if workers > len(tasks) {
		workers = len(tasks)
	}
	current := make([]*[]c10Op, workers) // what each worker is running (read only if it is stuck)
	var wg sync.WaitGroup
	done := make(chan struct{})
	for w := 0; w < workers; w++ {
		wg.Add(1)
		go func(w int) {
			defer wg.Done()
			bufs := make([][]c10Op, length+1)
			for {
				ti := int(atomic.AddInt64(&next, 1))
				if ti >= len(tasks) || atomic.LoadInt32(&timedOut) != 0 {
					return
				}
				l := &locals[ti]
				ops := make([]c10Op, len(tasks[ti].ops), length)
				copy(ops, tasks[ti].ops)
				current[w] = &ops
				var rec func(n, depth int)
				rec = func(n, depth int) {
					l.nodes++
					if depth == length {
						l.leaves++
						if l.leaves&0x3ff == 0 && time.Now().After(deadline) {
							atomic.StoreInt32(&timedOut, 1)
						}
						f, p := c10Guard(root, ops, obsAll, &l.st)
						if f != nil {
							l.record(root, ops, obsAll, f, p)
						}
						if l.sample == "" && l.leaves == 7 {
							l.sample = c10CaseText(root, ops, obsAll)
						}
						return
					}
					bufs[depth] = c10NextOps(al, n, ops[:depth], bufs[depth])
					for _, op := range bufs[depth] {
						if atomic.LoadInt32(&timedOut) != 0 {
							return
						}
						nn := n
						if op.kind == 'N' {
							nn++
						}
						ops = append(ops[:depth], op)
						rec(nn, depth+1)
					}
				}
				rec(tasks[ti].n, len(tasks[ti].ops))
			}
		}(w)
	}
	go func() { wg.Wait(); close(done) }()
	hung := false
	select {
	case <-done:
	case <-time.After(time.Until(deadline) + 20*time.Second):
		// a worker is stuck inside plush (e.g. a lock never released)
		hung = true
		atomic.StoreInt32(&timedOut, 1)
		atomic.AddInt32(&hungGoroutines, 1)
		for w := range current {
			if current[w] != nil {
				rep.Fail(Failure{Case: c10CaseText(root, append([]c10Op(nil), (*current[w])...), obsAll), Kind: "hang", Site: "context-op",
					What: "a context operation of this history did not return (worker stuck)"})
				break
			}
		}
	}
	if hung {
		return false
	}
	// merge in task order (deterministic)
	stream := fmt.Sprintf("len=%d/literal", length)
	if !al.reads {
		stream = fmt.Sprintf("len=%d/explicit-state", length)
	}
	for ti := range locals {
		l := &locals[ti]
		rep.Evaluations += l.leaves
		rep.Distinct += l.leaves
		rep.Dist["histories-incl-prefixes"] += l.nodes
		rep.Dist["ops-executed"] += l.st.ops
		rep.Dist["value/has-checks"] += l.st.checks
		rep.Dist["checks-skipped-open-case"] += l.st.open
		rep.Dist["open-case-observed-builtin"] += l.st.openBuiltin
		rep.Dist["open-case-observed-nil"] += l.st.openNil
		rep.Dist["root="+root.name] += l.leaves
		rep.Dist[stream] += l.leaves
		if l.sample != "" && len(rep.Samples) < 6 && ti%37 == 0 {
			rep.Samples = append(rep.Samples, l.sample)
		}
		for _, fd := range l.found {
			c10Report(rep, fd)
		}
	}
	return atomic.LoadInt32(&timedOut) == 0
}

// c10Reported bounds the shrinking work per family (a broken Context fails millions of histories).
var c10Reported = map[string]int{}

func c10Report(rep *Report, fd c10Found) {
	if c10Reported[fd.f.site] >= 4*maxPerSig {
		return
	}
	c10Reported[fd.f.site]++
	ops, f := fd.ops, fd.f
	kind := "wrong-output"
	if fd.panick {
		kind = "panic"
	} else {
		ops, f = c10Shrink(fd.root, fd.ops, fd.obsAll, fd.f)
	}
	rep.Fail(Failure{Case: c10CaseText(fd.root, ops, fd.obsAll), Kind: kind, Site: f.site, What: f.what})
}

func c10Random(r *Rng, length int) []c10Op {
	ops := make([]c10Op, 0, length)
	n := 1
	for len(ops) < length {
		p := r.Intn(100)
		c := int8(r.Intn(n))
		k := int8(r.Intn(3))
		switch {
		case p < 8 && n < c10MaxCtx:
			ops = append(ops, c10Op{kind: 'N', ctx: c})
			n++
		case p < 50:
			ops = append(ops, c10Op{kind: 'S', ctx: c, key: k, val: int8(r.Intn(3))})
		case p < 80:
			ops = append(ops, c10Op{kind: 'V', ctx: c, key: k})
		default:
			ops = append(ops, c10Op{kind: 'H', ctx: c, key: k})
		}
	}
	return ops
}

func init() {
	oracles["C10"] = func(cfg Config) []*Report {
		rep := NewReport("C10", "C10", cfg)
		rep.Rule = "histories of New/Set/Value/Has over a tree of <=4 contexts (root: NewContext or NewContextWith(data), 6 root variants incl. data binding the helper name len; children by ctx.New()), keys {a,b,len}, values {1,2,nil}; every Value/Has is predicted by a map-of-maps reference of the property. " +
			"(i) literal: every history of exactly L operations of all four kinds (each shorter one is a prefix); (ii) explicit-state: every New/Set history of exactly L operations, with Value and Has of every (context,key) checked after every step; (iii) random literal histories of length 200 (half of them also fully observed). " +
			"100% of cases reach context.go; a case = one history, all distinct by construction in (i),(ii); built-in helper values are compared by function identity with plush.Helpers.All()[\"len\"]"
		rep.Notes = append(rep.Notes,
			"open case, not checked: a child created (New) while the helper name is bound to nil on its path (Set(\"len\", nil) on an ancestor). The statement's nearest-binding clause predicts nil, the default-helper injection (context.go NewContextWithOuter; DESIGN C10 spec 'injected p') predicts the built-in; the 'user value wins' clause is only stated for non-nil values. The check is skipped until the key is Set on that child; distribution keys open-case-observed-* say what plush did. NewContextWith(data) with data[\"len\"]=nil is left out for the same reason.",
			"Set's argument values and keys: exactly the alphabet of the quantifier; NewContextWithOuter / NewContextWithContext are not driven (not named by the statement).")
		if c10BuiltinPtr == 0 {
			rep.Notes = append(rep.Notes, "plush.Helpers has no \"len\": built-in identity checks are vacuous")
		}

		if cfg.Arg != "" {
			root, ops, obsAll, err := c10ParseCase(cfg.Arg)
			if err != nil {
				rep.Notes = append(rep.Notes, "replay: cannot parse case: "+err.Error())
				return []*Report{rep}
			}
			var st c10Stats
			var f *c10Fail
			var p bool
			o := safeCall(10*time.Second, func() (string, error) {
				f, p = c10Guard(root, ops, obsAll, &st)
				return "", nil
			})
			text := c10CaseText(root, ops, obsAll)
			rep.Count(text, true)
			rep.Dist["value/has-checks"] += st.checks
			rep.Dist["checks-skipped-open-case"] += st.open
			switch {
			case o.Hang:
				rep.Fail(Failure{Case: text, Kind: "hang", Site: "context-op", What: "history did not finish within 10s"})
			case f != nil && p:
				rep.Fail(Failure{Case: text, Kind: "panic", Site: f.site, What: f.what})
			case f != nil:
				rep.Fail(Failure{Case: text, Kind: "wrong-output", Site: f.site, What: fmt.Sprintf("at op #%d: %s", f.step, f.what)})
			}
			return []*Report{rep}
		}

		start := time.Now()
		budget := time.Duration(cfg.N(22, 280)) * time.Second // safety net only: on an idle 16-core machine quick needs ~10 s, thorough ~2.5 min
		deadline := start.Add(budget)
		defer debug.SetGCPercent(debug.SetGCPercent(800)) // short-lived maps by the million: collect less often
		full := c10Alphabet{reads: false, maxCtx: c10MaxCtx, keys: c10FullKeys, vals: c10FullVals}
		lit := full
		lit.reads = true
		canon := full
		canon.canon = true
		ak := []int8{0, c10HelperKey}
		nv := []int8{0, 1}
		small4 := c10Alphabet{maxCtx: 4, keys: ak, vals: nv}
		small3 := c10Alphabet{maxCtx: 3, keys: ak, vals: nv}
		rep.Exhaustive = true
		type phase struct {
			name   string
			al     c10Alphabet
			length int
			roots  []c10Root
		}
		pick := func(idx ...int) []c10Root {
			out := []c10Root{}
			for _, i := range idx {
				out = append(out, c10Roots[i])
			}
			return out
		}
		small2 := c10Alphabet{maxCtx: 2, keys: ak, vals: nv}
		var phases []phase
		if cfg.Thorough() {
			phases = []phase{
				{"literal (New/Set/Value/Has) L<=5, all roots", lit, 5, c10Roots},
				{"explicit-state (New/Set + full observation) L<=6, roots r0 r3 r5", full, 6, pick(0, 3, 5)},
				{"explicit-state L<=5, roots r1 r2 r4", full, 5, pick(1, 2, 4)},
				{"explicit-state L<=7 pruned to keys {a,len}, values {1,nil}, <=4 contexts, root r0", small4, 7, pick(0)},
				{"explicit-state L<=7 pruned to keys {a,len}, values {1,nil}, <=3 contexts, root r3", small3, 7, pick(3)},
				{"explicit-state L<=8 pruned to keys {a,len}, values {1,nil}, <=2 contexts, root r0", small2, 8, pick(0)},
				{"explicit-state L<=8 pruned to keys {a,len}, values {1,nil}, <=3 contexts, root r0", small3, 8, pick(0)},
			}
		} else {
			phases = []phase{
				{"literal (New/Set/Value/Has) L<=4, all roots", lit, 4, c10Roots},
				{"explicit-state (New/Set + full observation) L<=5, roots r2 r3 r4 r5", full, 5, pick(2, 3, 4, 5)},
				{"explicit-state L<=6, root r0, one representative per renaming a<->b, 1<->2 (covers L<=5 for r0; r1 = NewContextWith({}) is what NewContext() itself calls)", canon, 6, pick(0)},
			}
		}
		// random histories first (cheap, never skipped)
		rr := NewRng(cfg.Seed).Fork(10)
		nRandom := cfg.N(3000, 60000)
		for i := 0; i < nRandom && !rep.Full(); i++ {
			root := c10Roots[rr.Intn(len(c10Roots))]
			ops := c10Random(rr, 200)
			obsAll := i%2 == 1
			var st c10Stats
			var f *c10Fail
			var p bool
			o := safeCall(10*time.Second, func() (string, error) {
				f, p = c10Guard(root, ops, obsAll, &st)
				return "", nil
			})
			text := c10CaseText(root, ops, obsAll)
			rep.Count(text, true)
			rep.Tag("len=200/random")
			rep.Dist["ops-executed"] += st.ops
			rep.Dist["value/has-checks"] += st.checks
			rep.Dist["checks-skipped-open-case"] += st.open
			rep.Dist["open-case-observed-builtin"] += st.openBuiltin
			rep.Dist["open-case-observed-nil"] += st.openNil
			if o.Hang {
				rep.Fail(Failure{Case: text, Kind: "hang", Site: "context-op", What: "history did not finish within 10s"})
				continue
			}
			if f != nil {
				c10Report(rep, c10Found{root, ops, obsAll, f, p})
			}
		}
		if len(rep.Samples) > 2 {
			rep.Samples = rep.Samples[:2] // leave room for samples of the enumerated streams
		}
		for _, ph := range phases {
			complete := true
			for _, root := range ph.roots {
				if time.Now().After(deadline) || rep.Full() {
					complete = false
					break
				}
				if !c10Enumerate(rep, root, ph.al, ph.length, !ph.al.reads, deadline) {
					complete = false
					break
				}
			}
			if complete {
				rep.Notes = append(rep.Notes, "complete: "+ph.name)
			} else {
				rep.Exhaustive = false
				rep.Notes = append(rep.Notes, "NOT complete (time budget): "+ph.name)
			}
		}
		if cfg.Thorough() {
			rep.Notes = append(rep.Notes, "pruning: the full alphabet is enumerated to L=6 (L=7 would be 2.5e8 New/Set histories, L=8 7.2e9, L=6 literal 9.7e7 per root); L=7 and L=8 are enumerated completely only over the reduced alphabets named above; literal four-kind histories completely to L=5. Every literal history of <= L+1 operations whose New/Set subsequence has length <= L has all its Value/Has results checked by the explicit-state run of that subsequence (with extra reads interleaved)")
		} else {
			rep.Notes = append(rep.Notes, "pruning: L=6 is enumerated for New/Set histories from NewContext() only, one representative per renaming of the interchangeable keys a<->b and values 1<->2 (assumes plush treats those names alike), with every Value/Has of every context checked after each step; this covers the Value/Has results of every literal history of <= 6 operations from r0 up to extra interleaved reads. Literal four-kind histories are complete to L=4 for every root and New/Set histories to L=5 for every root but r1")
		}
		for i, sm := range rep.Samples {
			if len(sm) > 160 {
				rep.Samples[i] = sm[:160] + " ...(" + strconv.Itoa(len(strings.Fields(sm))-3) + " ops)"
			}
		}
		return []*Report{rep}
	}
}
