package main

// C07: value kinds whose Go TYPE carries methods (or a shape) that the library, the standard library or
// common conventions give a meaning elsewhere - printing, iterating, database null wrappers, zero tests -
// while their truth value, by the statement, is only a matter of the value itself: a non-nil struct / a
// non-nil pointer / a number / a collection is truthy whatever it wraps, prints as or reports about itself;
// a nil pointer is falsy whatever its element type's method set. The methods all answer the "falsy-looking"
// way (nil, false, "", 0, true for IsZero ...) so that a truth test that consults them disagrees with the
// statement.

import (
	"database/sql"
	"errors"
	"html/template"
	"reflect"
)

// the shape of gobuffalo/nulls and of plush's own private `interfaceable`: a value plus a Valid flag
type c07Wrapped struct {
	V     interface{}
	Valid bool
}

func (w c07Wrapped) Interface() interface{} {
	if !w.Valid {
		return nil
	}
	return w.V
}

// the same with a pointer receiver (only the pointer has the method)
type c07PWrapped struct {
	V     interface{}
	Valid bool
}

func (w *c07PWrapped) Interface() interface{} {
	if w == nil || !w.Valid {
		return nil
	}
	return w.V
}

// prints as S (fmt.Stringer)
type c07Stringer struct{ S string }

func (s c07Stringer) String() string { return s.S }

// prints as H (plush.HTMLer)
type c07HTMLer struct{ H string }

func (h c07HTMLer) HTML() template.HTML { return template.HTML(h.H) }

// an error value with an empty message
type c07Err struct{ Msg string }

func (e c07Err) Error() string { return e.Msg }

// reports itself zero / empty / nil / false / invalid
type c07Zeroer struct{ A int }

func (c07Zeroer) IsZero() bool  { return true }
func (c07Zeroer) IsEmpty() bool { return true }
func (c07Zeroer) Empty() bool   { return true }
func (c07Zeroer) IsNil() bool   { return true }
func (c07Zeroer) Len() int      { return 0 }
func (c07Zeroer) Bool() bool    { return false }
func (c07Zeroer) IsValid() bool { return false }
func (c07Zeroer) Truthy() bool  { return false }
func (c07Zeroer) IsTrue() bool  { return false }

// marshals as null / the empty text
type c07Marshaler struct{ A int }

func (c07Marshaler) MarshalJSON() ([]byte, error) { return []byte("null"), nil }
func (c07Marshaler) MarshalText() ([]byte, error) { return nil, nil }

// an exhausted plush.Iterator
type c07Iter struct{ A int }

func (c07Iter) Next() interface{} { return nil }

// a slice / map / number / func type with the wrapper method
type c07SliceW []int

func (c07SliceW) Interface() interface{} { return nil }

type c07MapW map[string]int

func (c07MapW) Interface() interface{} { return false }

type c07IntW int

func (c07IntW) Interface() interface{} { return "" }
func (c07IntW) String() string         { return "" }

// every printing / iterating / reporting method at once (not error: see the error kinds)
type c07All struct{ A int }

func (c07All) Interface() interface{} { return nil }
func (c07All) String() string         { return "" }
func (c07All) HTML() template.HTML    { return "" }
func (c07All) IsZero() bool           { return true }
func (c07All) Next() interface{}      { return nil }

// a struct that embeds a wrapper (the method is promoted)
type c07Embeds struct {
	c07Wrapped
	A int
}

func c07TypedKinds() []c07KindT {
	// full: also at every position of a 3-chain in every placement / spelling (the kind-at-position streams)
	full := func(name string, val interface{}, truthy bool) c07KindT {
		return c07KindT{name: name, expr: "v", val: val, isVar: true, truthy: truthy}
	}
	// matrix + random chains
	v := func(name string, val interface{}, truthy bool) c07KindT {
		return c07KindT{name: name, expr: "v", val: val, isVar: true, truthy: truthy, light: true}
	}
	// matrix only
	m := func(name string, val interface{}, truthy bool) c07KindT {
		return c07KindT{name: name, expr: "v", val: val, isVar: true, truthy: truthy, light: true, noHelper: true}
	}
	var (
		nilWrapped  *c07Wrapped
		nilPWrapped *c07PWrapped
		nilStringer *c07Stringer
		nilAll      *c07All
		nilErr      *c07Err
		nilNullStr  *sql.NullString
		nilIface    *interface{}
		nilPP       **c07S
		nilP        *c07S
		nilIfaceVal interface{}
	)
	return []c07KindT{
		// non-nil structs with an Interface() method, whatever they wrap: truthy
		full("wrapper-invalid", c07Wrapped{}, true),
		v("wrapper-nil", c07Wrapped{V: nil, Valid: true}, true),
		full("wrapper-false", c07Wrapped{V: false, Valid: true}, true),
		full("wrapper-str-empty", c07Wrapped{V: "", Valid: true}, true),
		v("wrapper-html-empty", c07Wrapped{V: template.HTML(""), Valid: true}, true),
		v("wrapper-nil-ptr", c07Wrapped{V: nilP, Valid: true}, true),
		v("wrapper-true", c07Wrapped{V: true, Valid: true}, true),
		v("wrapper-str-x", c07Wrapped{V: "x", Valid: true}, true),
		full("ptr-wrapper-invalid", &c07Wrapped{}, true),
		v("ptr-wrapper-false", &c07Wrapped{V: false, Valid: true}, true),
		full("ptrrecv-wrapper-invalid", &c07PWrapped{}, true),
		v("ptrrecv-wrapper-str-empty", &c07PWrapped{V: "", Valid: true}, true),
		v("ptrrecv-wrapper-value", c07PWrapped{}, true),
		v("embeds-wrapper-invalid", c07Embeds{}, true),
		v("slice-wrapper-nil", c07SliceW{}, true),
		v("map-wrapper-false", c07MapW{}, true),
		v("int-wrapper-str-empty", c07IntW(0), true),
		v("reflect-value-false", reflect.ValueOf(false), true),
		v("reflect-value-str-empty", reflect.ValueOf(""), true),
		// ... and nil pointers to such types: falsy (and the test must not call the method)
		full("nil-ptr-wrapper", nilWrapped, false),
		v("nil-ptr-ptrrecv-wrapper", nilPWrapped, false),
		v("nil-ptr-stringer", nilStringer, false),
		full("nil-ptr-all-methods", nilAll, false),
		v("nil-ptr-sql-nullstring", nilNullStr, false),
		v("nil-ptr-iface", nilIface, false),
		v("nil-ptr-ptr", nilPP, false),
		// what a value prints as is not its truth value
		full("stringer-empty", c07Stringer{}, true),
		v("stringer-false", c07Stringer{S: "false"}, true),
		v("ptr-stringer-empty", &c07Stringer{}, true),
		full("htmler-empty", c07HTMLer{}, true),
		v("ptr-htmler-empty", &c07HTMLer{}, true),
		v("marshaler-null", c07Marshaler{}, true),
		// error values (as context variables only: a helper that returns one has failed)
		m("error-empty", c07Err{}, true),
		m("ptr-error-empty", &c07Err{}, true),
		m("error-std", errors.New(""), true),
		m("nil-ptr-error", nilErr, false),
		// what a value reports about itself is not its truth value
		full("zeroer", c07Zeroer{}, true),
		v("ptr-zeroer", &c07Zeroer{}, true),
		full("iterator-exhausted", c07Iter{}, true),
		full("all-methods", c07All{}, true),
		v("ptr-all-methods", &c07All{}, true),
		// database/sql null wrappers (Valid=false; driver.Valuer yields nil)
		full("sql-nullstring-invalid", sql.NullString{}, true),
		v("sql-nullbool-invalid", sql.NullBool{}, true),
		v("sql-nullbool-false", sql.NullBool{Bool: false, Valid: true}, true),
		v("sql-nullint64-invalid", sql.NullInt64{}, true),
		v("ptr-sql-nullstring-invalid", &sql.NullString{}, true),
		// non-nil pointers to falsy things (the pointer is tested, not what it points to)
		v("ptr-nil-ptr", &nilP, true),
		v("ptr-nil-iface", &nilIfaceVal, true),
		v("ptr-html-empty", func() *template.HTML { h := template.HTML(""); return &h }(), true),
		// more numeric zeros ("every other value, including 0")
		v("int8-0", int8(0), true),
		v("int32-0", int32(0), true),
		v("uint-0", uint(0), true),
		v("uint64-0", uint64(0), true),
		v("uintptr-0", uintptr(0), true),
		v("float32-0", float32(0), true),
		v("complex-0", complex128(0), true),
		v("float-neg-zero", c07NegZero(), true),
		// more empty collections
		v("bytes-empty", []byte{}, true),
		v("bytes-nil", []byte(nil), true),
		v("strings-empty", []string{}, true),
		v("slice-of-empty-str", []string{""}, true),
		v("map-int-keys-empty", map[int]bool{}, true),
		v("chan", make(chan int), true),
	}
}

func c07NegZero() float64 {
	z := 0.0
	return -z
}
