package main

import (
	"encoding/json"
	"fmt"
	"html"
	"strconv"
	"strings"
	"time"
	"unicode/utf8"

	plush "github.com/gobuffalo/plush/v5"
	"github.com/gobuffalo/plush/v5/helpers/encoders"
	"github.com/gobuffalo/plush/v5/helpers/escapes"
	"github.com/gobuffalo/plush/v5/helpers/helptest"
	"github.com/gobuffalo/plush/v5/helpers/text"
)

// C20, multi-call histories (model-free).
//
// The laws of C20 are laws about the VALUE a helper call yields: toJSON(v) decodes back to v, raw(s) is s,
// truncate(s, ...) is a bounded prefix + trail, ... A template (and a Go caller) routinely makes several helper
// calls before the first result is looked at: `let` keeps results in variables, and the values of a for / if
// block are collected and only written when the enclosing statement finishes. So the laws are evaluated here on
// every result of a history of 2..6 helper calls AFTER all calls of the history have been made:
//
//   form=pkg   direct Go calls, all results held, every one checked after the last call
//   form=seq   <%= E0 %>SEP<%= E1 %>...                          (top level: written at once)
//   form=let   <% let x0 = E0 %><% let x1 = E1 %>...<%= x0 %>SEP<%= x1 %>...
//   form=letr  as let, printed in reverse order
//   form=if    <%= if (true) { %><%= E0 %>SEP<%= E1 %>...<% } %>   (block value)
//   form=for   <%= for (i, v) in vals { %><%= H(v) %>SEP<% } %>   (one helper, one argument per iteration)
//
// SEP is U+001F, which no generated argument contains (and no helper can produce from an argument without it).
// Ei is toJSON(ai) / json(ai) / raw(ai) / raw(htmlEscape(ai)) / raw(jsEscape(ai)) / raw(truncate(ai, {size: ni, trail: ti})).
//
// Case text:  hist form=let n=2 h0=toJSON val0=str3 h1=toJSON gen1=123/2
//             hist form=pkg n=2 h0=raw s0="a<b" h1=truncate s1="abcdef" size1=3 trail1="…"

const c20Sep = "\x1f"

var c20HistForms = []string{"pkg", "seq", "let", "letr", "if", "for"}

type c20Op struct {
	h     string // toJSON | json | raw | htmlEscape | jsEscape | truncate
	val   string // toJSON/json: named value ...
	gen   string // ... or <seed>/<depth>
	v     interface{}
	s     string
	size  int
	trail *string
}

func (op c20Op) isJSON() bool { return op.h == "toJSON" || op.h == "json" }

func c20HistCase(form string, ops []c20Op) string {
	var b strings.Builder
	b.WriteString("hist form=" + form + " n=" + strconv.Itoa(len(ops)))
	for i, op := range ops {
		k := strconv.Itoa(i)
		b.WriteString(" h" + k + "=" + op.h)
		switch {
		case op.isJSON() && op.gen != "":
			b.WriteString(" gen" + k + "=" + op.gen)
		case op.isJSON():
			b.WriteString(" val" + k + "=" + op.val)
		default:
			b.WriteString(" s" + k + "=" + strconv.Quote(op.s))
		}
		if op.h == "truncate" {
			sz, tr := "-", "-"
			if op.size != c20Omit {
				sz = strconv.Itoa(op.size)
			}
			if op.trail != nil {
				tr = strconv.Quote(*op.trail)
			}
			b.WriteString(" size" + k + "=" + sz + " trail" + k + "=" + tr)
		}
	}
	return b.String()
}

func c20HistJSONFromSeed(spec string) (interface{}, error) {
	parts := strings.SplitN(spec, "/", 2)
	if len(parts) != 2 {
		return nil, fmt.Errorf("bad gen %q", spec)
	}
	seed, err := strconv.ParseUint(parts[0], 10, 64)
	if err != nil {
		return nil, err
	}
	return c20GenJSON(NewRng(seed), c19Atoi(parts[1])), nil
}

// c20HistParse rebuilds the ops of a parsed case text.
func c20HistParse(f map[string]string, named map[string]interface{}) (string, []c20Op, error) {
	form := f["form"]
	ok := false
	for _, x := range c20HistForms {
		ok = ok || x == form
	}
	if !ok {
		return "", nil, fmt.Errorf("unknown form %q", form)
	}
	n := c19Atoi(f["n"])
	if n < 1 || n > 64 {
		return "", nil, fmt.Errorf("bad n %q", f["n"])
	}
	ops := make([]c20Op, n)
	for i := range ops {
		k := strconv.Itoa(i)
		op := c20Op{h: f["h"+k], size: c20Omit}
		switch op.h {
		case "toJSON", "json":
			if g, ok := f["gen"+k]; ok {
				v, err := c20HistJSONFromSeed(g)
				if err != nil {
					return "", nil, err
				}
				op.gen, op.v = g, v
			} else if v, ok := named[f["val"+k]]; ok {
				op.val, op.v = f["val"+k], v
			} else {
				return "", nil, fmt.Errorf("unknown value %q", f["val"+k])
			}
		case "raw", "htmlEscape", "jsEscape", "truncate":
			if f["s"+k+"?"] != "quoted" {
				return "", nil, fmt.Errorf("s%s missing", k)
			}
			op.s = f["s"+k]
			if op.h == "truncate" {
				if z := f["size"+k]; z != "-" && z != "" {
					op.size = c19Atoi(z)
				}
				if f["trail"+k+"?"] == "quoted" {
					t := f["trail"+k]
					op.trail = &t
				}
			}
		default:
			return "", nil, fmt.Errorf("unknown helper %q", op.h)
		}
		ops[i] = op
	}
	return form, ops, nil
}

func c20HasInvalid(v interface{}) bool {
	switch x := v.(type) {
	case string:
		return !utf8.ValidString(x)
	case []interface{}:
		for _, e := range x {
			if c20HasInvalid(e) {
				return true
			}
		}
	case map[string]interface{}:
		for k, e := range x {
			if !utf8.ValidString(k) || c20HasInvalid(e) {
				return true
			}
		}
	}
	return false
}

// c20HistCheck evaluates the law of op's helper on one result (the same checks as the single-call streams).
func c20HistCheck(op c20Op, out string) (class, what string) {
	switch op.h {
	case "truncate":
		es, et := c20Effective(op.size, op.trail)
		return c20CheckTruncate(op.s, es, et, out)
	case "htmlEscape":
		class, what = c20CheckHTML(op.s, out)
		if class == "" && utf8.ValidString(op.s) && !strings.Contains(op.s, "\x00") && html.UnescapeString(out) != op.s {
			class, what = "htmlEscape-not-invertible", fmt.Sprintf("output %q unescapes to %q, not to the input", out, html.UnescapeString(out))
		}
		return class, what
	case "jsEscape":
		return c20CheckJS(op.s, out)
	case "raw":
		if out != op.s {
			site := "raw-output-not-byte-identical"
			if !utf8.ValidString(op.s) {
				site += "/invalid-utf8"
			}
			return site, fmt.Sprintf("expected %q, got %q", op.s, out)
		}
		return "", ""
	}
	// toJSON / json
	if c20HasInvalid(op.v) {
		if i := strings.IndexAny(out, "<>&"); i >= 0 {
			return "toJSON-raw-" + c20CharName(rune(out[i])), fmt.Sprintf("output %s contains a raw %q", c20Clip(out), out[i])
		} else if !json.Valid([]byte(out)) {
			return "toJSON-invalid-json", fmt.Sprintf("output %s is not valid JSON", c20Clip(out))
		}
		return "", ""
	}
	return c20CheckJSON(op.v, out)
}

func (op c20Op) describe() string {
	switch op.h {
	case "toJSON", "json":
		return fmt.Sprintf("%s(%#v)", op.h, op.v)
	case "truncate":
		es, et := c20Effective(op.size, op.trail)
		return fmt.Sprintf("truncate(%q, size %d, trail %q)", op.s, es, et)
	}
	return fmt.Sprintf("%s(%q)", op.h, op.s)
}

// c20HistCallPkg makes the direct Go call of one op.
func c20HistCallPkg(op c20Op) (string, error) {
	switch op.h {
	case "toJSON", "json":
		h, err := encoders.ToJSON(op.v)
		return string(h), err
	case "raw":
		return string(encoders.Raw(op.s)), nil
	case "htmlEscape":
		return escapes.HTMLEscape(op.s, helptest.NewContext())
	case "jsEscape":
		return escapes.JSEscape(op.s), nil
	case "truncate":
		return text.Truncate(op.s, c20Opts(op.size, op.trail)), nil
	}
	return "", fmt.Errorf("unknown helper %q", op.h)
}

// c20HistExpr is the template expression of op i applied to the variable arg; its value is template.HTML, so
// <%= %> writes it as it is.
func c20HistExpr(op c20Op, arg string, i int) string {
	k := strconv.Itoa(i)
	switch op.h {
	case "toJSON", "json":
		if op.v == nil {
			arg = "nil" // a context variable bound to nil reads as an unknown identifier (not this property's subject)
		}
		return op.h + "(" + arg + ")"
	case "raw":
		return "raw(" + arg + ")"
	case "htmlEscape", "jsEscape":
		return "raw(" + op.h + "(" + arg + "))"
	}
	switch {
	case op.size != c20Omit && op.trail != nil:
		return "raw(truncate(" + arg + ", {size: n" + k + ", trail: t" + k + "}))"
	case op.size != c20Omit:
		return "raw(truncate(" + arg + ", {size: n" + k + "}))"
	case op.trail != nil:
		return "raw(truncate(" + arg + ", {trail: t" + k + "}))"
	}
	return "raw(truncate(" + arg + "))"
}

// c20HistTemplate builds the template and context of a history; order[j] = index of the op whose result is the
// j-th segment of the output.
func c20HistTemplate(form string, ops []c20Op) (tmpl string, ctx *plush.Context, order []int, err error) {
	ctx = plush.NewContext()
	for i, op := range ops {
		k := strconv.Itoa(i)
		if op.isJSON() {
			ctx.Set("a"+k, op.v)
		} else {
			ctx.Set("a"+k, op.s)
		}
		if op.size != c20Omit {
			ctx.Set("n"+k, op.size)
		}
		if op.trail != nil {
			ctx.Set("t"+k, *op.trail)
		}
	}
	var b strings.Builder
	for i := range ops {
		order = append(order, i)
	}
	switch form {
	case "seq":
		for i, op := range ops {
			if i > 0 {
				b.WriteString(c20Sep)
			}
			b.WriteString("<%= " + c20HistExpr(op, "a"+strconv.Itoa(i), i) + " %>")
		}
	case "let", "letr":
		for i, op := range ops {
			b.WriteString("<% let x" + strconv.Itoa(i) + " = " + c20HistExpr(op, "a"+strconv.Itoa(i), i) + " %>")
		}
		if form == "letr" {
			for i := range order {
				order[i] = len(ops) - 1 - i
			}
		}
		for j, i := range order {
			if j > 0 {
				b.WriteString(c20Sep)
			}
			b.WriteString("<%= x" + strconv.Itoa(i) + " %>")
		}
	case "if":
		b.WriteString("<%= if (true) { %>")
		for i, op := range ops {
			if i > 0 {
				b.WriteString(c20Sep)
			}
			b.WriteString("<%= " + c20HistExpr(op, "a"+strconv.Itoa(i), i) + " %>")
		}
		b.WriteString("<% } %>")
	case "for":
		vals := make([]interface{}, len(ops))
		for i, op := range ops {
			if op.h != ops[0].h || op.size != ops[0].size || (op.trail == nil) != (ops[0].trail == nil) || (op.trail != nil && *op.trail != *ops[0].trail) {
				return "", nil, nil, fmt.Errorf("form=for needs the same helper (and truncate options) in every op")
			}
			if op.isJSON() {
				if op.v == nil {
					return "", nil, nil, fmt.Errorf("form=for cannot iterate over a nil element (a nil loop variable is not visible in the body)")
				}
				vals[i] = op.v
			} else {
				vals[i] = op.s
			}
		}
		ctx.Set("vals", vals)
		b.WriteString("<%= for (i, v) in vals { %><%= " + c20HistExpr(ops[0], "v", 0) + " %>" + c20Sep + "<% } %>")
	default:
		return "", nil, nil, fmt.Errorf("no template for form %q", form)
	}
	return b.String(), ctx, order, nil
}

type c20HistResult struct {
	obs    Obs
	outs   []string // result of op i as seen after the whole history
	first  []string // form=pkg: private copy of result i taken as soon as the call returned
	tmpl   string
	failed string // non-empty: the history could not be evaluated (message)
}

// c20HistRun evaluates one history.
func c20HistRun(form string, ops []c20Op) c20HistResult {
	var res c20HistResult
	for _, op := range ops {
		if (op.isJSON() && c20HistHasSep(op.v)) || strings.Contains(op.s, c20Sep) || (op.trail != nil && strings.Contains(*op.trail, c20Sep)) {
			res.failed = "an argument contains the separator U+001F"
			return res
		}
	}
	if form == "pkg" {
		held := make([]string, len(ops))
		first := make([]string, len(ops))
		res.obs = safeCall(5*time.Second, func() (string, error) {
			for i, op := range ops {
				out, err := c20HistCallPkg(op)
				if err != nil {
					return "", fmt.Errorf("op %d: %w", i, err)
				}
				held[i] = out
				first[i] = strings.Clone(out)
			}
			return "", nil
		})
		if res.obs.Kind() == "OK" {
			// look at the held results only now, after every call of the history
			res.outs = make([]string, len(ops))
			for i := range held {
				res.outs[i] = strings.Clone(held[i])
			}
			res.first = first
		}
		return res
	}
	tmpl, ctx, order, err := c20HistTemplate(form, ops)
	if err != nil {
		res.failed = err.Error()
		return res
	}
	res.tmpl = tmpl
	res.obs = safeCall(5*time.Second, func() (string, error) { return plush.Render(tmpl, ctx) })
	if res.obs.Kind() != "OK" {
		return res
	}
	out := res.obs.Out
	if form == "for" {
		if !strings.HasSuffix(out, c20Sep) {
			return res // outs stays nil: not splittable
		}
		out = out[:len(out)-len(c20Sep)]
	}
	segs := strings.Split(out, c20Sep)
	if len(segs) != len(ops) {
		return res
	}
	res.outs = make([]string, len(ops))
	for j, i := range order {
		res.outs[i] = segs[j]
	}
	return res
}

func c20HistHasSep(v interface{}) bool {
	switch x := v.(type) {
	case string:
		return strings.Contains(x, c20Sep)
	case []interface{}:
		for _, e := range x {
			if c20HistHasSep(e) {
				return true
			}
		}
	case map[string]interface{}:
		for k, e := range x {
			if strings.Contains(k, c20Sep) || c20HistHasSep(e) {
				return true
			}
		}
	}
	return false
}

type c20HistFinding struct {
	kind, site, what string
	op               int
}

// c20HistEval runs a history and returns its first violation (nil: none). note != "": could not be evaluated.
func c20HistEval(form string, ops []c20Op) (f *c20HistFinding, note string) {
	res := c20HistRun(form, ops)
	if res.failed != "" {
		return nil, res.failed
	}
	o := res.obs
	switch {
	case o.Hang:
		return &c20HistFinding{kind: "hang", site: "hist-hang/" + form, what: "did not return", op: -1}, ""
	case o.Panic != "":
		return &c20HistFinding{kind: "panic", site: o.Site, what: "panic: " + o.Panic, op: -1}, ""
	case o.Err != nil:
		return &c20HistFinding{kind: "wrong-error", site: "hist-unexpected-error/" + form, what: "returned an error: " + o.Err.Error(), op: -1}, ""
	}
	if res.outs == nil {
		return &c20HistFinding{kind: "wrong-output", site: "hist-output-not-" + strconv.Itoa(len(ops)) + "-results/" + form,
			what: fmt.Sprintf("the output of %q is not %d results separated by U+001F: %s", res.tmpl, len(ops), c20Clip(o.Out)), op: -1}, ""
	}
	for i, op := range ops {
		class, what := c20HistCheck(op, res.outs[i])
		if class == "" {
			continue
		}
		// the same call made alone, looked at immediately: does it already break the law?
		alone := false
		if p := safeCall(3*time.Second, func() (string, error) { return c20HistCallPkg(op) }); p.Kind() == "OK" {
			pc, _ := c20HistCheck(op, strings.Clone(p.Out))
			alone = pc == class
		}
		if !alone {
			if form == "pkg" {
				class += "/after-later-call"
			} else {
				// does the history of direct calls show it too?
				pkg := c20HistRun("pkg", ops)
				pc := ""
				if pkg.outs != nil {
					pc, _ = c20HistCheck(op, pkg.outs[i])
				}
				if pc != "" {
					class += "/after-later-call"
				} else {
					class += "/only-via-" + form
				}
			}
		}
		w := fmt.Sprintf("result %d of %d, %s, seen after the whole history (form %s", i, len(ops), op.describe(), form)
		if res.tmpl != "" {
			w += ", template " + strconv.Quote(res.tmpl)
		}
		w += "): " + what
		if res.first != nil && res.first[i] != res.outs[i] {
			w += fmt.Sprintf("; when the call returned the result was %s", c20Clip(res.first[i]))
		}
		return &c20HistFinding{kind: "wrong-output", site: class, what: w, op: i}, ""
	}
	return nil, ""
}

// c20HistShrink looks for a 2-call sub-history with the same finding.
func c20HistShrink(form string, ops []c20Op, f *c20HistFinding) ([]c20Op, *c20HistFinding) {
	if len(ops) <= 2 {
		return ops, f
	}
	tried := 0
	for i := 0; i < len(ops); i++ {
		for j := i + 1; j < len(ops); j++ {
			if f.op >= 0 && i != f.op && j != f.op {
				continue
			}
			if tried++; tried > 12 {
				return ops, f
			}
			sub := []c20Op{ops[i], ops[j]}
			if g, note := c20HistEval(form, sub); note == "" && g != nil && g.kind == f.kind && g.site == f.site {
				return sub, g
			}
		}
	}
	return ops, f
}

// c20HistStrings: strings for the string helpers of a history (no U+001F).
var c20HistStrings = []string{"", "a", "ab", "abc", "abcdefgh", "é", "é", "日本語", "😀", "<", ">", "&", "'", "\"", "\\", "\n", " x ", "\xff", "\xe6\x97",
	"<b>x</b>", "a&b", "&lt;", "</script>", "it's", "a=\"b\"", " ", "0123456789", "9876543210", "The quick brown fox", "the quick brown fox"}

func c20HistGenString(r *Rng) string {
	if r.Chance(50) {
		return Pick(r, c20HistStrings)
	}
	n := r.Intn(12)
	var b strings.Builder
	for i := 0; i < n; i++ {
		b.WriteString(Pick(r, c20Wide))
	}
	return b.String()
}

func c20HistGenOp(r *Rng, h string, depthMax int) c20Op {
	op := c20Op{h: h, size: c20Omit}
	if op.isJSON() {
		for {
			op.gen = strconv.FormatUint(r.Next()>>1, 10) + "/" + strconv.Itoa(r.Range(0, depthMax))
			op.v, _ = c20HistJSONFromSeed(op.gen)
			if !c20HistHasSep(op.v) {
				return op
			}
		}
	}
	op.s = c20HistGenString(r)
	if h == "truncate" {
		op.size = r.Range(-2, 12)
		if r.Chance(30) {
			op.size = c20RuneLen(op.s) + r.Range(-3, 1)
		}
		t := Pick(r, []string{"", ".", "...", "…", "\xff", " [more]"})
		op.trail = &t
		switch r.Intn(6) {
		case 0:
			op.size = c20Omit
		case 1:
			op.trail = nil
		}
	}
	return op
}

// c20HistGen generates one history for a form: 2..6 calls; mostly one helper (the results then share whatever
// the helper shares between calls), sometimes mixed; sometimes an earlier argument is repeated.
func c20HistGen(r *Rng, form string, depthMax int) []c20Op {
	helpers := []string{"toJSON", "toJSON", "toJSON", "json", "raw", "htmlEscape", "jsEscape", "truncate"}
	n := r.Range(2, 6)
	mixed := form != "for" && r.Chance(35)
	h0 := Pick(r, helpers)
	ops := make([]c20Op, 0, n)
	for i := 0; i < n; i++ {
		h := h0
		if mixed {
			h = Pick(r, helpers)
		}
		var op c20Op
		if i > 0 && r.Chance(15) {
			// the argument of an earlier call again
			prev := ops[r.Intn(i)]
			if prev.h == h || (prev.isJSON() && (h == "toJSON" || h == "json")) {
				op = prev
				op.h = h
			} else if !prev.isJSON() && h != "toJSON" && h != "json" {
				op = c20HistGenOp(r, h, depthMax)
				op.s = prev.s
			} else {
				op = c20HistGenOp(r, h, depthMax)
			}
		} else {
			op = c20HistGenOp(r, h, depthMax)
		}
		if form == "for" {
			if i > 0 {
				op.size, op.trail = ops[0].size, ops[0].trail
			}
			for op.isJSON() && op.v == nil {
				op = c20HistGenOp(r, h, depthMax)
			}
		}
		ops = append(ops, op)
	}
	return ops
}

// c20HistFixedValues: named values for the exhaustive pair part (every ordered pair x every form).
var c20HistFixedValues = []string{"nil", "true", "false", "int3", "int10", "str0", "str1", "str4", "str6", "str18", "emptylist", "emptymap",
	"list-str1", "list-str6", "key-str1", "key-str8", "nest-str4", "nest-str20"}

// c20HistFixedStrings: strings for the exhaustive pair part of the string helpers.
var c20HistFixedStrings = []string{"", "a", "abcdefgh", "ABCDEFGH", "日本語", "éé", "<b>&'\"</b>", "\n\\=\r", "\xff<", "0123456789"}

// c20HistStream runs the history stream (or replays one case).
func c20HistStream(rep *Report, cfg Config, named map[string]interface{}) {
	report := func(form string, ops []c20Op) {
		text := c20HistCase(form, ops)
		nontrivial := false
		for _, op := range ops[1:] {
			if op.h != ops[0].h || op.gen != ops[0].gen || op.val != ops[0].val || op.s != ops[0].s {
				nontrivial = true
			}
		}
		rep.Count(text, nontrivial)
		rep.Tag("hist/" + form)
		rep.Tag("hist-calls/" + strconv.Itoa(len(ops)))
		f, note := c20HistEval(form, ops)
		if note != "" {
			rep.Tag("hist-not-evaluated")
			if cfg.Arg != "" {
				rep.Notes = append(rep.Notes, "replay: "+note)
			}
			return
		}
		if f == nil {
			return
		}
		if cfg.Arg == "" {
			ops, f = c20HistShrink(form, ops, f)
			text = c20HistCase(form, ops)
		}
		rep.Fail(Failure{Case: text, Kind: f.kind, Site: f.site, What: f.what})
	}

	if cfg.Arg != "" {
		_, f, err := c20Parse(cfg.Arg)
		if err != nil {
			rep.Notes = append(rep.Notes, "replay: cannot parse case: "+err.Error())
			return
		}
		form, ops, err := c20HistParse(f, named)
		if err != nil {
			rep.Notes = append(rep.Notes, "replay: "+err.Error())
			return
		}
		report(form, ops)
		return
	}

	// exhaustive: every ordered pair of the fixed values / strings, every helper, every form
	for _, form := range c20HistForms {
		for _, h := range []string{"toJSON", "json"} {
			for _, a := range c20HistFixedValues {
				for _, b := range c20HistFixedValues {
					if form == "for" && (a == "nil" || b == "nil") {
						continue
					}
					if h == "json" && form != "pkg" && form != "for" && form != "let" {
						continue
					}
					report(form, []c20Op{{h: h, val: a, v: named[a], size: c20Omit}, {h: h, val: b, v: named[b], size: c20Omit}})
				}
			}
		}
		tr := "…"
		for _, h := range []string{"raw", "htmlEscape", "jsEscape", "truncate"} {
			for _, a := range c20HistFixedStrings {
				for _, b := range c20HistFixedStrings {
					x, y := c20Op{h: h, s: a, size: c20Omit}, c20Op{h: h, s: b, size: c20Omit}
					if h == "truncate" {
						x.size, x.trail, y.size, y.trail = 4, &tr, 4, &tr
					}
					report(form, []c20Op{x, y})
				}
			}
		}
	}

	// random histories
	r := NewRng(cfg.Seed).Fork(2020)
	for i := 0; i < cfg.N(24000, 300000) && !rep.Full(); i++ {
		form := c20HistForms[i%len(c20HistForms)]
		report(form, c20HistGen(r, form, cfg.N(2, 3)))
	}
}
