package main

// C13 oracle, second part: template texts that do NOT parse. "The same output or the same error" is quantified
// over all programs and all routes, so a text with a syntax error has to report that error on every route too:
// on a fresh parse, on every later execution of the Template value that was handed back next to the error, on a
// Template value that is parsed lazily by its first Exec, on a Clone of either, with the cache on (cold and
// warm), and at every step of a history that interleaves it with other templates.

import (
	"fmt"
	"strings"
	"time"
	"unicode/utf8"

	plush "github.com/gobuffalo/plush/v5"
)

// c13Dump is the structural snapshot of the program a Template value holds ("nil" while it holds none).
func c13Dump(t *plush.Template) string {
	if t == nil || t.VerifProgram() == nil {
		return "nil"
	}
	return dumpProgram(t.VerifProgram())
}

// routes taken for a text that does not parse (the reference is the first fresh parse)
var c13FailedRoutes = []string{
	"parse-fresh", "render-fresh",
	"failed-reexec", "failed-reparse", "failed-clone",
	"lazy-exec", "lazy-parse", "lazy-clone",
	"parse-cache", "cache-parse-exec",
}

// parseErrorRoutes runs a text whose fresh parse fails with perr on every route to an execution.
func (c *c13Checker) parseErrorRoutes(cs c13Case, src, env string, perr error, add func(string, Obs), mutated func(route, before, after string)) {
	const to = 5 * time.Second
	n := max(3, c.r/2)
	add("parse", Obs{Err: perr})
	// fresh parse; t1 is the template value NewTemplate hands back next to its error
	var t1 *plush.Template
	add("parse-fresh", safeCall(to, func() (string, error) {
		t, err := plush.NewTemplate(src)
		t1 = t
		return "", err
	}))
	for i := 0; i < 2; i++ {
		add("render-fresh", safeCall(to, func() (string, error) { return plush.Render(src, c13NewCtx(env)) }))
	}
	// that value executed again and again, re-parsed, cloned (clones used alternately with the original)
	if t1 != nil {
		for i := 0; i < n; i++ {
			d := c13Dump(t1)
			add("failed-reexec", c13Render(t1, env))
			mutated("failed-reexec", d, c13Dump(t1))
			if i%2 == 1 {
				add("failed-reparse", safeCall(to, func() (string, error) { // explicit Parse, then Exec
					if err := t1.Parse(); err != nil {
						return "", err
					}
					return t1.Exec(c13NewCtx(env))
				}))
			}
		}
		cl := t1.Clone()
		for i := 0; i < 3 && cl != nil; i++ {
			add("failed-clone", c13Render(cl, env))
			add("failed-reexec", c13Render(t1, env))
			cl = cl.Clone()
		}
	}
	// a template value that is parsed lazily by its first Exec: first and later executions, then clones
	lz := &plush.Template{Input: src}
	for i := 0; i < n; i++ {
		add("lazy-exec", c13Render(lz, env))
	}
	if cl := lz.Clone(); cl != nil {
		for i := 0; i < 2; i++ {
			add("lazy-clone", c13Render(cl, env))
		}
	}
	// explicit Parse on a lazily built value, then Exec (rendering in two steps)
	lp := &plush.Template{Input: src}
	for i := 0; i < 3; i++ {
		add("lazy-parse", safeCall(to, func() (string, error) {
			if err := lp.Parse(); err != nil {
				return "", err
			}
			return lp.Exec(c13NewCtx(env))
		}))
	}
	// cache on: Render cold and warm; Parse + Exec (what BuffaloRenderer does) cold and warm
	plush.CacheEnabled = true
	plush.VerifCacheReset()
	for i := 0; i < 3; i++ {
		add("parse-cache", safeCall(to, func() (string, error) { return plush.Render(src, c13NewCtx(env)) }))
	}
	plush.VerifCacheReset()
	for i := 0; i < 3; i++ {
		add("cache-parse-exec", safeCall(to, func() (string, error) {
			t, err := plush.Parse(src)
			if err != nil {
				return "", err
			}
			return t.Exec(c13NewCtx(env))
		}))
	}
	plush.CacheEnabled = false
	plush.VerifCacheReset()
}

// small hand-written witnesses (they keep the reported cases small): one syntax error per statement / operand
// position, after a prefix that renders, alone and inside a history with templates that do parse.
var c13SynCorpus = []c13Case{
	{Env: []string{"e0"}, Tmpl: []string{`a<%= n %>b<%= add(1, %>c`}},
	{Env: []string{"e0"}, Tmpl: []string{`<%= s %><% let = 3 %>z`}},
	{Env: []string{"e2"}, Tmpl: []string{`<%= for (v) in xs { %><%= v %>,<% } %><%= if (t { %>x<% } %>`}},
	{Env: []string{"e0"}, Tmpl: []string{`<% let h = {a: n, b: 2 %><%= h["a"] %>`}},
	{Env: []string{"e0"}, Tmpl: []string{`<%= for (v) in [1, 2] { %><%= v + %><% } %>`}},
	{Env: []string{"e0"}, Tmpl: []string{`<% let f = fn(a) { return a + } %><%= f(1) %>`}},
	{Env: []string{"e0"}, Tmpl: []string{`x<%= n %>y<% } %>`}},
	{Env: []string{"e0"}, Tmpl: []string{`<%= if (t) { %>yes<% } else { %>no`}},
	{Env: []string{"e0", "e2"}, Tmpl: []string{`<%= for (v) in xs { %><%= v %>,<% } %>`, `<%= n %>|<%= up(s %>`, `<% let k = 1 %><%= k + n %><%= xs[ %>`},
		Hist: [][2]int{{0, 0}, {1, 0}, {1, 1}, {0, 1}, {2, 0}, {1, 0}, {2, 1}, {0, 0}, {2, 0}}},
}

// ---------------------------------------------------------------------------------------------------------
// Generator of texts with a syntax error: a generated program that parses, damaged in one place
// ---------------------------------------------------------------------------------------------------------

// broken tags (each is a syntax error by itself) inserted before an existing tag or appended
var c13BrokenTags = []string{
	`<% let = 3 %>`, `<% let q 3 %>`, `<% let q = %>`,
	`<%= add(1, %>`, `<%= add(1 2) %>`, `<%= up( %>`,
	`<%= (n + 1 %>`, `<%= n + %>`, `<%= n * * 2 %>`, `<%= ! %>`,
	`<%= [1, 2 %>`, `<%= xs[ %>`, `<%= xs[0 %>`,
	`<% let hq = {a: 1 %>`, `<% let hq = {a 1} %>`, `<% let hq = {a: 1, , b: 2} %>`, `<%= {a: } %>`,
	`<%= if (t { %>x<% } %>`, `<%= if t) { %>x<% } %>`, `<%= if (t) %>x<% } %>`, `<%= if (t) { %>x<% } else %>`,
	`<%= for (v) xs { %>x<% } %>`, `<%= for (v in xs { %>x<% } %>`, `<%= for v) in xs { %>x<% } %>`, `<%= for (v) in { %>x<% } %>`, `<%= for (a, b, c) in xs { %>x<% } %>`,
	`<% let fq = fn(a { return a } %>`, `<% let fq = fn a) { return a } %>`, `<% let fq = fn(a) return a } %>`,
	`<% } %>`, `<% ) %>`, `<% ] %>`, `<%= %>`, `<%= , %>`, `<%= u. %>`, `<%= u.Name. %>`, `<%= wrap( { %>x<% } %>`,
	`<%= "open %>`, `<% xs[0] = %>`, `<% n = %>`, `<%= 1 2 %>`, `<%= 1..2 %>`, `<%= @ %>`,
}

var c13DropTokens = []string{"}", ")", "]", "{", "(", "[", "%>", "<%", ",", ":", " in ", " = ", "\""}

func c13Indexes(s, sub string) []int {
	var xs []int
	for i := 0; ; {
		j := strings.Index(s[i:], sub)
		if j < 0 {
			return xs
		}
		xs = append(xs, i+j)
		i += j + len(sub)
	}
}

// c13Damage damages a program in one place. The result usually (not always) has a syntax error; the kind of
// damage is returned for the distribution counters.
func c13Damage(r *Rng, src string) (string, string) {
	tags := c13Indexes(src, "<%")
	for tries := 0; tries < 8; tries++ {
		switch k := r.Intn(100); {
		case k < 30: // one structural token less
			tok := Pick(r, c13DropTokens)
			if at := c13Indexes(src, tok); len(at) > 0 {
				i := Pick(r, at)
				return src[:i] + src[i+len(tok):], "drop " + strings.TrimSpace(tok)
			}
		case k < 40: // one structural token more
			tok := Pick(r, c13DropTokens[:10])
			if at := c13Indexes(src, tok); len(at) > 0 {
				i := Pick(r, at)
				return src[:i] + tok + src[i:], "double " + strings.TrimSpace(tok)
			}
		case k < 52: // the text ends early
			if len(src) > 4 {
				i := r.Range(2, len(src)-1)
				for i > 0 && !utf8.RuneStart(src[i]) {
					i--
				}
				if i > 0 {
					return src[:i], "truncate"
				}
			}
		case k < 64: // a dangling operator in an expression
			op := Pick(r, []string{" + ", " == ", " && ", " - ", " < ", " || "})
			if at := c13Indexes(src, op); len(at) > 0 {
				i := Pick(r, at)
				if r.Bool() {
					return src[:i] + op + strings.TrimLeft(op, " ") + src[i+len(op):], "operator-twice"
				}
				j := strings.Index(src[i:], "%>")
				if j > 0 {
					return src[:i] + op + src[i+j:], "operand-missing"
				}
			}
		case k < 82: // a broken tag before one of the tags (that is: at the top level or inside any block)
			if len(tags) > 0 {
				i := Pick(r, tags)
				return src[:i] + Pick(r, c13BrokenTags) + src[i:], "insert-broken-tag"
			}
		default: // a broken tag at the end, after everything has rendered
			return src + Pick(r, c13BrokenTags), "append-broken-tag"
		}
	}
	return src + Pick(r, c13BrokenTags), "append-broken-tag"
}

// c13Parses reports whether a fresh parse of the text succeeds (a panicking or hanging parser counts as "parses":
// such texts are not used).
func c13Parses(src string) bool {
	o := safeCall(5*time.Second, func() (string, error) { _, err := plush.NewTemplate(src); return "", err })
	return o.Kind() != "ERR"
}

// syntaxErrors is the part of the run over texts that do not parse. It draws from its own random stream, so
// the programs of the main part are the same with and without it.
func (c *c13Checker) syntaxErrors(cfg Config) {
	rep := c.rep
	for _, cs := range c13SynCorpus {
		c.run(cs)
	}
	rng := NewRng(cfg.Seed).Fork(1313)
	gen := c13NewGen(rng.Fork(1), c13GenOpt{})
	start := time.Now()
	budget := time.Duration(cfg.N(6, 15)) * time.Second
	n := cfg.N(240, 900)
	for i := 0; i < n && !rep.Full(); i++ {
		if time.Since(start) > budget {
			rep.Notes = append(rep.Notes, fmt.Sprintf("texts with a syntax error: stopped after %d of %d cases: time budget", i, n))
			break
		}
		var cs c13Case
		nt := 1
		if i%4 == 3 { // every fourth case is a history over 2 (sometimes 3) templates
			nt = 2 + rng.Intn(3)/2
		}
		broken := rng.Intn(nt) // this one is damaged; the others with probability 1/3
		for j := 0; j < nt; j++ {
			src, _ := gen.Program()
			if j == broken || rng.Intn(3) == 0 {
				// A damaged text that still parses is discarded (plush accepts e.g. a block that is never closed):
				// the damage can move the end of a for-over-map block, and the comparison of such loops relies on
				// the iteration blocks being intact. Whether a text parses is the verdict of a fresh plush.Parse.
				for tries := 0; ; tries++ {
					d, kind := c13Damage(rng, src)
					if tries == 4 {
						d, kind = src+Pick(rng, c13BrokenTags[:3]), "append-broken-tag"
					}
					if !c13Parses(d) {
						src = d
						rep.Tag("damage:" + kind)
						break
					}
					rep.Tag("damage-still-parses")
					if tries == 4 {
						break // src stays the undamaged program
					}
				}
			}
			cs.Tmpl = append(cs.Tmpl, src)
		}
		e1 := rng.Intn(len(c13EnvNames))
		cs.Env = []string{c13EnvNames[e1]}
		if nt > 1 {
			cs.Env = append(cs.Env, c13EnvNames[(e1+1+rng.Intn(len(c13EnvNames)-1))%len(c13EnvNames)])
			k := rng.Range(5, 10)
			for s := 0; s < k; s++ {
				cs.Hist = append(cs.Hist, [2]int{rng.Intn(nt), rng.Intn(2)})
			}
		}
		c.run(cs)
	}
}
