package main

import (
	"strconv"
	"strings"
)

// Generator for the C16 oracle.

func c16Lit(v c16Val) *c16Expr                 { return &c16Expr{T: "lit", V: v} }
func c16Int(i int) *c16Expr                    { return c16Lit(c16Val{K: "int", I: i}) }
func c16Str(s string) *c16Expr                 { return c16Lit(c16Val{K: "str", S: s}) }
func c16Bool(b bool) *c16Expr                  { return c16Lit(c16Val{K: "bool", B: b}) }
func c16Var(n string) *c16Expr                 { return &c16Expr{T: "var", N: n} }
func c16Bin(op string, l, r *c16Expr) *c16Expr { return &c16Expr{T: "bin", Op: op, L: l, R: r} }
func c16Call(n string, args ...*c16Expr) *c16Expr {
	return &c16Expr{T: "call", N: n, Args: args}
}
func c16Ret(e *c16Expr) *c16Stmt { return &c16Stmt{T: "ret", E: e} }

var c16Pools = map[string][]c16Val{
	"int":  {{K: "int", I: 0}, {K: "int", I: 1}, {K: "int", I: 2}},
	"str":  {{K: "str", S: "x"}, {K: "str", S: "y"}},
	"bool": {{K: "bool", B: true}, {K: "bool", B: false}},
	// optional parameters (c16NilArgs): nil, the zero value, another value
	"oint":  {{K: "nil"}, {K: "int", I: 0}, {K: "int", I: 1}},
	"ostr":  {{K: "nil"}, {K: "str", S: ""}, {K: "str", S: "x"}},
	"obool": {{K: "nil"}, {K: "bool", B: false}, {K: "bool", B: true}},
}

type c16Gen struct {
	r       *Rng
	marks   int
	locs    int
	forceRT string   // when set, fn() generates a function of this result type
	forcePT []string // when set, fn() generates a function of these parameter types
	optPct  int      // when > 0: that share of the parameters is optional (type "o"+t: may be nil; only tested, never used as a value)
	optRet  bool     // fn() generates a function whose returns may yield nil (result type "o"+t)
}

type c16Sym struct{ N, T string }

func (g *c16Gen) pick(vars []c16Sym, t string) (string, bool) {
	c := []string{}
	for _, v := range vars {
		if v.T == t {
			c = append(c, v.N)
		}
	}
	if len(c) == 0 {
		return "", false
	}
	return Pick(g.r, c), true
}

func (g *c16Gen) lit(t string) *c16Expr {
	r := g.r
	switch t {
	case "int":
		return c16Int(r.Intn(4))
	case "str":
		return c16Str(Pick(r, []string{"x", "y", "k", "zz"}))
	}
	return c16Bool(r.Bool())
}

// expr of type t over the visible variables.
func (g *c16Gen) expr(vars []c16Sym, t string) *c16Expr {
	r := g.r
	if strings.HasPrefix(t, "o") { // a value that may be nil (c16NilReturns): nil, a lookup that may miss, the zero value, a value
		switch w := r.Intn(100); {
		case w < 30:
			return c16NilExpr(r)
		case w < 45 && t == "ostr":
			if k, ok := g.pick(vars, "str"); ok {
				return &c16Expr{T: "mapget", N: k}
			}
			return c16NilExpr(r)
		case w < 55:
			return c16Lit(c16Val{K: t[1:]}) // "" 0 false
		}
		return g.expr(vars, t[1:])
	}
	v, ok := g.pick(vars, t)
	if !ok || r.Chance(25) {
		if t == "bool" && r.Chance(50) {
			return c16BoolValue(g.cond(vars, 1), vars)
		}
		return g.lit(t)
	}
	switch t {
	case "int":
		switch r.Intn(5) {
		case 0:
			return c16Bin("+", c16Var(v), g.lit("int"))
		case 1:
			w, _ := g.pick(vars, "int")
			return c16Bin("+", c16Var(v), c16Var(w))
		case 2:
			return c16Bin("*", c16Var(v), c16Int(r.Range(2, 3)))
		}
	case "str":
		switch r.Intn(5) {
		case 0:
			return c16Bin("+", g.lit("str"), c16Var(v))
		case 1:
			return c16Bin("+", c16Var(v), g.lit("str"))
		case 2:
			w, _ := g.pick(vars, "str")
			return c16Bin("+", c16Var(v), c16Var(w))
		}
	case "bool":
		switch r.Intn(4) {
		case 0:
			return &c16Expr{T: "not", L: c16Var(v)}
		case 1:
			return c16BoolValue(g.cond(vars, 1), vars)
		}
	}
	return c16Var(v)
}

// c16BoolValue: a condition used as a VALUE of type bool: the bare mention of an optional variable (fine as a
// condition: it is tested) is not a bool, its negation is.
func c16BoolValue(e *c16Expr, vars []c16Sym) *c16Expr {
	if e.T == "var" {
		for _, v := range vars {
			if v.N == e.N && strings.HasPrefix(v.T, "o") {
				return &c16Expr{T: "not", L: e}
			}
		}
	}
	return e
}

func (g *c16Gen) cond(vars []c16Sym, depth int) *c16Expr {
	r := g.r
	if len(vars) == 0 {
		return c16Bool(r.Bool())
	}
	if depth == 0 && r.Chance(15) {
		return c16Bin(Pick(r, []string{"&&", "||"}), g.cond(vars, 1), g.cond(vars, 1))
	}
	v := Pick(r, vars)
	if r.Chance(15) {
		if w, ok := g.pick(vars, v.T); ok && w != v.N {
			return c16Bin(Pick(r, []string{"==", "!="}), c16Var(v.N), c16Var(w))
		}
	}
	if strings.HasPrefix(v.T, "o") { // optional: compared with nil (either side), tested, compared with a value
		switch w := r.Intn(100); {
		case w < 25:
			return c16Bin(Pick(r, []string{"==", "!="}), c16Var(v.N), c16Lit(c16Val{K: "nil"}))
		case w < 40:
			return c16Bin(Pick(r, []string{"==", "!="}), c16Lit(c16Val{K: "nil"}), c16Var(v.N))
		case w < 60 && v.T != "oint":
			if r.Bool() {
				return &c16Expr{T: "not", L: c16Var(v.N)}
			}
			return c16Var(v.N)
		case w < 70 && v.T == "ostr":
			return c16Bin(Pick(r, []string{"==", "!="}), c16Var(v.N), c16Str(""))
		}
		return c16Bin(Pick(r, []string{"==", "!="}), c16Var(v.N), g.lit(v.T[1:]))
	}
	switch v.T {
	case "int":
		return c16Bin(Pick(r, []string{"==", "==", "!=", "<", ">"}), c16Var(v.N), c16Int(r.Intn(4)))
	case "str":
		return c16Bin(Pick(r, []string{"==", "==", "!="}), c16Var(v.N), c16Str(Pick(r, []string{"x", "y", "k"})))
	}
	switch r.Intn(3) {
	case 0:
		return &c16Expr{T: "not", L: c16Var(v.N)}
	case 1:
		return c16Bin("==", c16Var(v.N), c16Bool(r.Bool()))
	}
	return c16Var(v.N)
}

func (g *c16Gen) mark() *c16Stmt {
	g.marks++
	return &c16Stmt{T: "mark", ID: g.marks}
}

// branch: the block of an if: usually ends in a return, sometimes with dead statements after it.
func (g *c16Gen) branch(vars []c16Sym, rt string, depth, size int) []*c16Stmt {
	r := g.r
	out := []*c16Stmt{}
	if r.Chance(35) {
		out = append(out, g.mark())
	}
	if depth < 2 && r.Chance(20) {
		out = append(out, g.ifStmt(vars, rt, depth+1, size))
	}
	if r.Chance(12) {
		return out // falls through to the statements after the if
	}
	out = append(out, c16Ret(g.expr(vars, rt)))
	if r.Chance(20) { // never runs
		out = append(out, g.mark())
		if r.Chance(40) {
			out = append(out, c16Ret(g.expr(vars, rt)))
		}
	}
	return out
}

func (g *c16Gen) ifStmt(vars []c16Sym, rt string, depth, size int) *c16Stmt {
	r := g.r
	s := &c16Stmt{T: "if", E: g.cond(vars, 0), Then: g.branch(vars, rt, depth, size)}
	if size > 1 && r.Chance(20) {
		s.Elifs = append(s.Elifs, c16Elif{g.cond(vars, 0), g.branch(vars, rt, depth, size)})
	}
	if size > 1 && r.Chance(25) {
		s.HasElse = true
		s.Else = g.branch(vars, rt, depth, size)
	}
	return s
}

func (g *c16Gen) fn(name string, size int) *c16Fn {
	r := g.r
	f := &c16Fn{Name: name, RT: Pick(r, []string{"int", "str", "str", "bool"})}
	if g.forceRT != "" {
		f.RT = g.forceRT
	}
	if g.optRet {
		f.RT = "o" + f.RT
	}
	n := r.Intn(5)
	if size == 0 {
		n = r.Intn(3)
	}
	if g.forcePT != nil {
		n = len(g.forcePT)
	}
	names := []string{"a", "b", "c", "d"}[:n]
	if r.Chance(30) { // parameter list not in alphabetical order
		for i := len(names) - 1; i > 0; i-- {
			j := r.Intn(i + 1)
			names[i], names[j] = names[j], names[i]
		}
	}
	base := Pick(r, []string{"int", "str", "bool"})
	vars := []c16Sym{}
	for pi, p := range names {
		t := base // several parameters of one type: permutations are type-correct
		if r.Chance(35) {
			t = Pick(r, []string{"int", "str", "bool"})
		}
		if g.forcePT != nil {
			t = g.forcePT[pi]
		}
		if g.optPct > 0 && r.Chance(g.optPct) {
			t = "o" + t
		}
		f.Params = append(f.Params, p)
		f.PT = append(f.PT, t)
		vars = append(vars, c16Sym{p, t})
	}
	for i, k := 0, r.Intn(2+size); i < k; i++ {
		if r.Chance(30) {
			f.Body = append(f.Body, g.mark())
		}
		if r.Chance(20) && len(vars) > 0 {
			g.locs++
			t := Pick(r, []string{"int", "str"})
			nm := "t" + strconv.Itoa(g.locs)
			f.Body = append(f.Body, &c16Stmt{T: "let", N: nm, E: g.expr(vars, t)})
			vars = append(vars, c16Sym{nm, t})
		}
		f.Body = append(f.Body, g.ifStmt(vars, f.RT, 0, size))
	}
	if r.Chance(40) {
		f.Body = append(f.Body, g.mark())
	}
	f.Body = append(f.Body, c16Ret(g.expr(vars, f.RT)))
	if r.Chance(25) {
		f.Body = append(f.Body, g.mark())
	}
	return f
}

// ---- one call of one function in one context

type c16Prog struct {
	Extra   []*c16Fn // other definitions the program needs (mutual recursion)
	F       *c16Fn
	Mode    string   // direct | stored | passed | passed-colliding | wrapped (called from a function whose parameters are named like f's and hold the Caller values)
	ArgForm string   // lit | vars | perm | expr | nested (some arguments are, or contain, user function calls) | mixed (c16NilArgs: literals, nil-valued expressions, caller variables)
	Vis     string   // how the caller's variables named like the parameters are provided: "" = let | ctx (context values)
	Caller  []c16Val // values of the caller's variables named like the parameters (not for lit)
	Args    []*c16Expr
	Site    string
	Lit     c16Val     // comparison literal for cmp / letcmp / arg-chk
	Rec     string     // recursion family ("" = generated chain)
	Few     int        // >0: drop that many trailing arguments
	Blame   string     // set when a two-feature case fails only because of one of them
	Loop    bool       // the first caller variable is a loop variable and the call sits in that loop's body
	Prev    []*c16Expr // when set: the same function is called with these arguments first and that value is emitted before
}

// c16IsNil: the expression is written as a nil value (nil, a missing map key, a helper that returns nil).
func c16IsNil(e *c16Expr) bool {
	return (e.T == "lit" || e.T == "raw") && e.V.K == "nil"
}

func c16Label(p *c16Prog) string {
	if p.Blame != "" {
		return p.Blame
	}
	for _, a := range p.Args {
		if c16IsNil(a) {
			return "nil-argument-binds-parameter"
		}
	}
	if p.Rec == "nil-argument" {
		return "nil-argument-binds-parameter"
	}
	a := p.ArgForm == "perm" || p.ArgForm == "expr" || p.Mode == "passed-colliding" || p.Rec == "accumulator"
	if p.ArgForm == "mixed" {
		for i, e := range p.Args { // a caller variable named like a parameter in another position
			a = a || (e.T == "var" && e.N != p.F.Params[i])
		}
	}
	v := p.Site != "out" || p.Rec == "value-consumed"
	nest := p.ArgForm == "nested" || p.Rec == "through-argument"
	switch {
	case p.Rec == "loop":
		return "loop-in-function-body" // c16Build narrows it when a return is reached inside a loop
	case nest && v:
		return "call-in-argument+value-use"
	case nest:
		return "argument-is-call-result"
	case a && v:
		return "args-scope+value-use"
	case a:
		return "args-evaluated-in-callee-scope"
	case v:
		return "call-value-is-return-object"
	case p.Rec != "":
		return "recursion-" + p.Rec
	case p.Prev != nil:
		return "call-after-earlier-call"
	case p.Mode == "stored":
		return "first-class-stored"
	case p.Mode == "passed":
		return "first-class-passed"
	case p.ArgForm == "vars", p.ArgForm == "mixed":
		return "args-same-names"
	}
	return "decision-chain"
}

// c16Build prints the program and computes the expectation. ok=false: the reference cannot evaluate it
// (a shrunk variant that uses an unbound local, a type confusion): not a case.
func c16Build(p *c16Prog) (cs *c16Case, ok bool) {
	defer func() {
		if r := recover(); r != nil {
			if _, stuck := r.(c16Stuck); stuck {
				cs, ok = nil, false
				return
			}
			panic(r)
		}
	}()
	top := &c16Env{vars: map[string]c16Val{}}
	tmpl := ""
	def := func(f *c16Fn) {
		tmpl += f.Def()
		top.vars[f.Name] = c16Val{K: "fn", F: f}
	}
	for _, f := range p.Extra {
		def(f)
	}
	def(p.F)
	loopVar := ""
	var ctxVals map[string]string
	if p.ArgForm != "lit" && p.Mode != "wrapped" {
		for i, n := range p.F.Params {
			top.vars[n] = p.Caller[i]
			if p.Loop && i == 0 { // this caller variable is a loop variable: the call sits in the loop's body
				loopVar = n
				continue
			}
			if p.Vis == "ctx" { // a value of the context the template is rendered with
				if ctxVals == nil {
					ctxVals = map[string]string{}
				}
				ctxVals[n] = p.Caller[i].Src()
				continue
			}
			tmpl += "<% let " + n + " = " + p.Caller[i].Src() + " %>"
		}
	}
	args := p.Args
	if p.Few > 0 {
		args = args[:len(args)-p.Few]
	}
	var call, prev *c16Expr
	switch p.Mode {
	case "stored":
		tmpl += "<% let h = " + p.F.Name + " %>"
		top.vars["h"] = top.vars[p.F.Name]
		call = c16Call("h", args...)
		if p.Prev != nil {
			prev = c16Call("h", p.Prev...)
		}
	case "passed", "passed-colliding":
		ap := &c16Fn{Name: "ap", Params: []string{"g"}, RT: p.F.RT}
		inner := []*c16Expr{}
		for i := range p.F.Params {
			n := "p" + strconv.Itoa(i+1)
			if p.Mode == "passed-colliding" { // ap's parameters carry f's parameter names, rotated
				n = p.F.Params[(i+1)%len(p.F.Params)]
			}
			ap.Params = append(ap.Params, n)
			inner = append(inner, c16Var(n))
		}
		ap.Body = []*c16Stmt{c16Ret(c16Call("g", inner...))}
		def(ap)
		call = c16Call("ap", append([]*c16Expr{c16Var(p.F.Name)}, args...)...)
		if p.Prev != nil {
			prev = c16Call("ap", append([]*c16Expr{c16Var(p.F.Name)}, p.Prev...)...)
		}
	case "wrapped": // w's parameters are the caller's variables: the arguments of f are evaluated in w's scope
		w := &c16Fn{Name: "w", Params: p.F.Params, PT: p.F.PT, RT: p.F.RT, Body: []*c16Stmt{c16Ret(c16Call(p.F.Name, args...))}}
		def(w)
		vals := []*c16Expr{}
		for _, v := range p.Caller {
			vals = append(vals, c16Lit(v))
		}
		call = c16Call("w", vals...)
	default:
		call = c16Call(p.F.Name, args...)
		if p.Prev != nil {
			prev = c16Call(p.F.Name, p.Prev...)
		}
	}
	cs = &c16Case{Shape: c16Label(p), Site: p.Site, Ctx: ctxVals}
	opt := strings.HasPrefix(p.F.RT, "o") // the value of the call may be nil
	C := call.Src()
	site := ""
	if p.Few > 0 {
		cs.Tmpl, cs.Arity, cs.Shape, cs.Site = tmpl+"<%= "+C+" %>", true, "too-few-arguments", "out"
		return cs, true
	}
	m := &c16Ref{}
	before := ""
	if prev != nil { // an earlier call of the same function, its value emitted first
		pv := m.eval(prev, top)
		tmpl += "<%= " + prev.Src() + " %>|"
		before = pv.Render() + "|"
	}
	rv := m.eval(call, top)
	cs.Marks, cs.rv = m.marks, rv
	if opt && rv.K == "nil" && p.Blame == "" { // whatever else the case contains: the first return reached yields nil
		cs.Shape = "nil-return-value-emitted"
		if p.Site != "out" {
			cs.Shape = "nil-return-value-used"
		}
	}
	if rv.K == "nil" && (p.Site == "let" || p.Site == "arg-id") {
		return nil, false // open: a variable that holds nil mentioned as a value
	}
	truth := func() string { return map[bool]string{true: "T", false: "F"}[c16Truth(rv)] } // (not a case when the reference has no truth value for rv)
	if p.Rec == "loop" && m.retInLoop {
		cs.Shape = "return-inside-loop-does-not-end-function"
	}
	eq := strconv.FormatBool(rv == p.Lit)
	switch p.Site {
	case "out":
		site, cs.Want = "<%= "+C+" %>", rv.Render()
	case "cond":
		site, cs.Want = "<%= if ("+C+") { %>T<% } else { %>F<% } %>", map[bool]string{true: "T", false: "F"}[rv.B]
		if opt {
			cs.Want = truth()
		}
	case "ne-nil":
		site, cs.Want = "<%= "+C+" != nil %>", strconv.FormatBool(rv.K != "nil")
	case "or":
		site, cs.Want = "<%= if ("+C+" || false) { %>T<% } else { %>F<% } %>", truth()
	case "and-right":
		site, cs.Want = "<%= if (true && "+C+") { %>T<% } else { %>F<% } %>", truth()
	case "arg-truth":
		site, cs.Want = "<% let tst = fn(v) {\n if (v) {\n  return \"T\"\n }\n return \"F\"\n} %><%= tst("+C+") %>", truth()
	case "cmp":
		site, cs.Want = "<%= "+C+" == "+p.Lit.Src()+" %>", eq
	case "cmp-left":
		site, cs.Want = "<%= "+p.Lit.Src()+" == "+C+" %>", eq
	case "let":
		site, cs.Want = "<% let res = "+C+" %>[<%= res %>]", "["+rv.Render()+"]"
	case "letcmp":
		site, cs.Want = "<% let res = "+C+" %><%= res == "+p.Lit.Src()+" %>", eq
	case "arg-id":
		site, cs.Want = "<% let idf = fn(v) { return v } %><%= idf("+C+") %>", rv.Render()
	case "arg-chk":
		site = "<% let chk = fn(v) {\n if (v == " + p.Lit.Src() + ") {\n  return \"eq\"\n }\n return \"ne\"\n} %><%= chk(" + C + ") %>"
		cs.Want = map[bool]string{true: "eq", false: "ne"}[rv == p.Lit]
	case "helper":
		site, cs.Want = "<%= c16show("+C+") %>", rv.GoFmt()
		if opt {
			site, cs.Want = "<%= c16kind("+C+") %>", rv.GoFmt()
			if rv.K == "nil" {
				cs.Want = "nil"
			}
		}
	case "concat":
		if rv.K != "str" {
			return nil, false
		}
		site, cs.Want = "<%= \"[\" + "+C+" %>", "["+rv.S
	case "concat-left":
		if rv.K != "str" {
			return nil, false
		}
		site, cs.Want = "<%= "+C+" + \"]\" %>", rv.S+"]"
	case "arith":
		if rv.K != "int" {
			return nil, false
		}
		site, cs.Want = "<%= "+C+" + 1 %>", strconv.Itoa(rv.I+1)
	case "arith-right":
		if rv.K != "int" {
			return nil, false
		}
		site, cs.Want = "<%= 1 + "+C+" %>", strconv.Itoa(rv.I+1)
	case "not":
		if rv.K != "bool" && !(opt && rv.K == "nil") {
			return nil, false
		}
		site, cs.Want = "<%= !"+C+" %>", strconv.FormatBool(!rv.B)
	default:
		return nil, false
	}
	if p.Site == "cond" && rv.K != "bool" && !opt {
		return nil, false
	}
	if loopVar != "" {
		site = "<%= for (" + loopVar + ") in [" + p.Caller[0].Src() + "] { %>" + site + "<% } %>"
	}
	cs.Tmpl, cs.Want = tmpl+site, before+cs.Want
	return cs, true
}

func c16Sites(rt string) []string {
	s := []string{"cmp", "cmp-left", "let", "letcmp", "arg-id", "arg-chk", "helper"}
	switch rt {
	case "bool":
		s = append(s, "cond", "cond", "not")
	case "str":
		s = append(s, "concat", "concat-left")
	case "int":
		s = append(s, "arith", "arith-right")
	}
	return s
}

// c16Tuples: all value tuples for the given types.
func c16Tuples(ts []string) [][]c16Val {
	out := [][]c16Val{{}}
	for _, t := range ts {
		next := [][]c16Val{}
		for _, pre := range out {
			for _, v := range c16Pools[t] {
				next = append(next, append(append([]c16Val{}, pre...), v))
			}
		}
		out = next
	}
	return out
}

// c16ArgExprs: argument expressions over caller variables named like the parameters.
func (g *c16Gen) argExprs(f *c16Fn, form string) ([]*c16Expr, bool) {
	r := g.r
	n := len(f.Params)
	args := make([]*c16Expr, n)
	switch form {
	case "vars":
		for i, p := range f.Params {
			args[i] = c16Var(p)
		}
		return args, n > 0
	case "perm":
		// a type-preserving permutation other than the identity
		for try := 0; try < 20; try++ {
			pi := make([]int, n)
			for i := range pi {
				pi[i] = i
			}
			for i := n - 1; i > 0; i-- {
				j := r.Intn(i + 1)
				pi[i], pi[j] = pi[j], pi[i]
			}
			ok, id := true, true
			for i := range pi {
				ok = ok && f.PT[pi[i]] == f.PT[i]
				id = id && pi[i] == i
			}
			if ok && !id {
				for i := range pi {
					args[i] = c16Var(f.Params[pi[i]])
				}
				return args, true
			}
		}
		return nil, false
	case "expr":
		other := false
		for i := range args {
			c := []int{}
			for j := range f.Params {
				if f.PT[j] == f.PT[i] {
					c = append(c, j)
				}
			}
			j := Pick(r, c)
			other = other || j != i
			e := c16Var(f.Params[j])
			if r.Chance(35) {
				switch f.PT[i] {
				case "int":
					e = c16Bin("+", e, c16Int(1))
				case "str":
					e = c16Bin("+", e, c16Str("s"))
				case "bool":
					e = &c16Expr{T: "not", L: e}
				}
			}
			args[i] = e
		}
		return args, other
	}
	return nil, false
}

func c16RunProg(rep *Report, p *c16Prog) {
	cs, ok := c16Build(p)
	if !ok {
		rep.Tag("not-a-case")
		return
	}
	v := c16Eval(cs)
	if v.Kind != "" && p.Few == 0 {
		same := func(w c16Verdict) bool { return w.Kind != "" }
		adopt := func(q c16Prog) bool {
			c2, ok := c16Build(&q)
			if !ok {
				return false
			}
			if w := c16Eval(c2); same(w) {
				*p, cs, v = q, c2, w
				return true
			}
			return false
		}
		// plain: the same call with literal arguments (the values the parameters should receive), called directly
		plain := func() c16Prog {
			q := *p
			q.ArgForm, q.Mode, q.Loop, q.Prev = "lit", "direct", false, nil
			q.Args = nil
			env := c16TopEnv(p)
			for _, a := range p.Args {
				q.Args = append(q.Args, c16Lit((&c16Ref{}).eval(a, env)))
			}
			return q
		}
		// 0. if the plainest form of this call (literal arguments, direct call, value printed) fails too, report that
		if p.Rec == "" && c16Label(p) != "decision-chain" {
			q := plain()
			q.Site = "out"
			adopt(q)
		}
		// 1. reduce a two-feature case to one feature when that still fails
		if strings.HasSuffix(c16Label(p), "+value-use") {
			q := *p
			if p.Rec == "" {
				q = plain()
			}
			if p.Rec != "" || !adopt(q) {
				q = *p
				q.Site = "out"
				if !adopt(q) && p.Rec != "" {
					// fails only when the value is consumed: the arguments are not to blame
					q = *p
					q.Blame = "call-value-is-return-object"
					adopt(q)
				}
			}
		}
		// 1b. drop the earlier call, then turn arguments that are calls back into the plain values, while it still fails
		if p.Prev != nil {
			q := *p
			q.Prev = nil
			adopt(q)
		}
		if p.ArgForm == "mixed" { // one simplification at a time, while it still fails
			for _, simpler := range []func(q *c16Prog){
				func(q *c16Prog) { q.Site = "out" },
				func(q *c16Prog) { q.Mode = "direct" },
				func(q *c16Prog) { q.Loop = false },
				func(q *c16Prog) { q.Vis = "" },
			} {
				q := *p
				simpler(&q)
				adopt(q)
			}
			for i := range p.Args {
				if p.Args[i].T == "lit" {
					continue
				}
				q := *p
				q.Args = append([]*c16Expr{}, p.Args...)
				q.Args[i] = c16Lit((&c16Ref{}).eval(p.Args[i], c16TopEnv(p)))
				adopt(q)
			}
		}
		if p.ArgForm == "nested" {
			for i := range p.Args {
				if !c16HasCall(p.Args[i]) {
					continue
				}
				q := *p
				q.Args = append([]*c16Expr{}, p.Args...)
				q.Args[i] = c16Lit((&c16Ref{}).eval(p.Args[i], c16TopEnv(p)))
				if adopt(q) || p.Args[i].T == "call" {
					continue
				}
				for _, sub := range []*c16Expr{p.Args[i].L, p.Args[i].R} { // lit op call: keep the call, drop the operator
					if sub != nil && sub.T == "call" {
						q := *p
						q.Args = append([]*c16Expr{}, p.Args...)
						q.Args[i] = sub
						adopt(q)
						break
					}
				}
			}
		}
		// 2. shrink the function body (first failures of each family only)
		key := "shrunk:" + v.Site
		if rep.Dist[key] < 40 && p.Rec == "" {
			rep.Tag(key)
			for budget := 0; budget < 100; budget++ {
				progress := false
				for _, b := range c16Variants(p.F.Body) {
					q := *p
					f := *p.F
					f.Body = b
					q.F = &f
					c2, ok := c16Build(&q)
					if !ok {
						continue
					}
					if w := c16Eval(c2); w.Kind == v.Kind && w.Site == v.Site {
						*p, cs, v, progress = q, c2, w, true
						break
					}
				}
				if !progress {
					break
				}
			}
		}
	}
	c16Record(rep, cs, v)
}

func c16Variants(ss []*c16Stmt) [][]*c16Stmt {
	out := [][]*c16Stmt{}
	repl := func(i int, with []*c16Stmt) []*c16Stmt {
		n := append([]*c16Stmt{}, ss[:i]...)
		n = append(n, with...)
		return append(n, ss[i+1:]...)
	}
	for i, s := range ss {
		out = append(out, repl(i, nil))
		if s.T == "if" {
			out = append(out, repl(i, s.Then))
			if len(s.Elifs) > 0 || s.HasElse {
				c := *s
				c.Elifs, c.Else, c.HasElse = nil, nil, false
				out = append(out, repl(i, []*c16Stmt{&c}))
			}
			for _, v := range c16Variants(s.Then) {
				c := *s
				c.Then = v
				out = append(out, repl(i, []*c16Stmt{&c}))
			}
			for _, v := range c16Variants(s.Else) {
				c := *s
				c.Else = v
				out = append(out, repl(i, []*c16Stmt{&c}))
			}
		}
		if s.T == "ret" && s.E.T == "bin" {
			for _, e := range []*c16Expr{s.E.L, s.E.R} {
				out = append(out, repl(i, []*c16Stmt{c16Ret(e)}))
			}
		}
	}
	return out
}

// ---- recursion (fixed programs, every depth 0..6)

func c16Recursion(rep *Report) {
	n := c16Var("n")
	isZero := func(then *c16Expr) *c16Stmt {
		return &c16Stmt{T: "if", E: c16Bin("==", n, c16Int(0)), Then: []*c16Stmt{c16Ret(then)}}
	}
	dec := c16Bin("-", n, c16Int(1))
	one := func(name, rt, rec string, body ...*c16Stmt) *c16Prog {
		return &c16Prog{F: &c16Fn{Name: name, Params: []string{"n"}, PT: []string{"int"}, RT: rt, Body: body}, Rec: rec}
	}
	acc := c16Var("acc")
	progs := []*c16Prog{
		one("down", "str", "tail", isZero(c16Str("done")), c16Ret(c16Call("down", dec))),
		one("down", "str", "tail", &c16Stmt{T: "mark", ID: 1}, isZero(c16Str("done")), &c16Stmt{T: "mark", ID: 2}, c16Ret(c16Call("down", dec)), &c16Stmt{T: "mark", ID: 3}),
		one("sum", "int", "value-consumed", isZero(c16Int(0)), c16Ret(c16Bin("+", n, c16Call("sum", dec)))),
		one("sum", "int", "value-consumed", isZero(c16Int(0)), c16Ret(c16Bin("+", c16Call("sum", dec), n))),
		one("fact", "int", "value-consumed", isZero(c16Int(1)), c16Ret(c16Bin("*", c16Call("fact", dec), n))),
		one("rep", "str", "value-consumed", isZero(c16Str("e")), c16Ret(c16Bin("+", c16Str("s"), c16Call("rep", dec)))),
		one("rep", "str", "value-consumed", isZero(c16Str("e")), c16Ret(c16Bin("+", c16Call("rep", dec), c16Str("s")))),
		one("cnt", "int", "value-consumed", isZero(c16Int(0)), &c16Stmt{T: "let", N: "r", E: c16Call("cnt", dec)}, c16Ret(c16Bin("+", c16Var("r"), c16Int(1)))),
		one("fib", "int", "value-consumed", &c16Stmt{T: "if", E: c16Bin("<", n, c16Int(2)), Then: []*c16Stmt{c16Ret(n)}},
			c16Ret(c16Bin("+", c16Call("fib", dec), c16Call("fib", c16Bin("-", n, c16Int(2)))))),
		{F: &c16Fn{Name: "acc1", Params: []string{"n", "acc"}, PT: []string{"int", "int"}, RT: "int",
			Body: []*c16Stmt{isZero(acc), c16Ret(c16Call("acc1", dec, c16Bin("+", acc, n)))}}, Rec: "accumulator"},
		{F: &c16Fn{Name: "acc2", Params: []string{"acc", "n"}, PT: []string{"int", "int"}, RT: "int",
			Body: []*c16Stmt{isZero(acc), c16Ret(c16Call("acc2", c16Bin("+", acc, n), dec))}}, Rec: "accumulator"},
		{F: &c16Fn{Name: "acc3", Params: []string{"n", "acc"}, PT: []string{"int", "str"}, RT: "str",
			Body: []*c16Stmt{isZero(acc), c16Ret(c16Call("acc3", dec, c16Bin("+", acc, c16Str("s"))))}}, Rec: "tail"},
		{F: &c16Fn{Name: "swap", Params: []string{"n", "a", "b"}, PT: []string{"int", "str", "str"}, RT: "str",
			Body: []*c16Stmt{isZero(c16Bin("+", c16Var("a"), c16Var("b"))), c16Ret(c16Call("swap", dec, c16Var("b"), c16Var("a")))}}, Rec: "accumulator"},
	}
	ev := &c16Fn{Name: "ev", Params: []string{"n"}, PT: []string{"int"}, RT: "bool", Body: []*c16Stmt{isZero(c16Bool(true)), c16Ret(c16Call("od", dec))}}
	od := &c16Fn{Name: "od", Params: []string{"n"}, PT: []string{"int"}, RT: "bool", Body: []*c16Stmt{isZero(c16Bool(false)), c16Ret(c16Call("ev", dec))}}
	progs = append(progs, &c16Prog{Extra: []*c16Fn{od}, F: ev, Rec: "tail"})
	// recursion through an argument: the recursive call is an operand of another user function call (or of the
	// function's own call), in the first and in later argument positions
	xy := func(name, rt string, e *c16Expr) *c16Fn {
		return &c16Fn{Name: name, Params: []string{"x", "y"}, PT: []string{rt, rt}, RT: rt, Body: []*c16Stmt{c16Ret(e)}}
	}
	add := func() *c16Fn { return xy("add", "int", c16Bin("+", c16Var("x"), c16Var("y"))) }
	sub := func() *c16Fn { return xy("sub", "int", c16Bin("-", c16Var("x"), c16Var("y"))) }
	join := func() *c16Fn { return xy("join", "str", c16Bin("+", c16Var("x"), c16Var("y"))) }
	sv := c16Var("s")
	thru := func(extra *c16Fn, p *c16Prog) *c16Prog {
		p.Rec = "through-argument"
		if extra != nil {
			p.Extra = []*c16Fn{extra}
		}
		return p
	}
	progs = append(progs,
		thru(add(), one("sum", "int", "", isZero(c16Int(0)), c16Ret(c16Call("add", n, c16Call("sum", dec))))),
		thru(add(), one("sum", "int", "", isZero(c16Int(0)), c16Ret(c16Call("add", c16Call("sum", dec), n)))),
		thru(sub(), one("alt", "int", "", isZero(c16Int(0)), c16Ret(c16Call("sub", c16Bin("*", n, c16Int(10)), c16Call("alt", dec))))),
		thru(add(), one("fib", "int", "", &c16Stmt{T: "if", E: c16Bin("<", n, c16Int(2)), Then: []*c16Stmt{c16Ret(n)}},
			c16Ret(c16Call("add", c16Call("fib", dec), c16Call("fib", c16Bin("-", n, c16Int(2))))))),
		thru(join(), &c16Prog{F: &c16Fn{Name: "build", Params: []string{"n", "s"}, PT: []string{"int", "str"}, RT: "str",
			Body: []*c16Stmt{isZero(sv), c16Ret(c16Call("join", sv, c16Call("build", dec, c16Bin("+", sv, c16Str("k")))))}}}),
		thru(nil, &c16Prog{F: &c16Fn{Name: "nest", Params: []string{"n", "s"}, PT: []string{"int", "str"}, RT: "str",
			Body: []*c16Stmt{isZero(c16Bin("+", sv, c16Str("."))), c16Ret(c16Call("nest", dec, c16Call("nest", c16Int(0), c16Bin("+", sv, c16Str("k")))))}}}),
		thru(nil, &c16Prog{F: &c16Fn{Name: "tri", Params: []string{"n", "a", "b"}, PT: []string{"int", "str", "str"}, RT: "str",
			Body: []*c16Stmt{isZero(c16Bin("+", c16Var("a"), c16Var("b"))), c16Ret(c16Call("tri", dec, c16Var("b"), c16Call("tri", c16Int(0), c16Var("a"), c16Str("k"))))}}}),
	)
	// a local bound before the recursive call is read after it: every activation has a scope of its own
	progs = append(progs,
		one("loc", "int", "value-consumed", isZero(c16Int(0)), &c16Stmt{T: "let", N: "m", E: c16Bin("*", n, c16Int(2))},
			&c16Stmt{T: "let", N: "r", E: c16Call("loc", dec)}, c16Ret(c16Bin("+", c16Var("r"), c16Var("m")))),
		one("tag", "str", "value-consumed", isZero(c16Str("e")), &c16Stmt{T: "let", N: "m", E: c16Str("k")},
			&c16Stmt{T: "set", N: "m", E: c16Bin("+", c16Var("m"), c16Str("q"))},
			&c16Stmt{T: "let", N: "r", E: c16Call("tag", dec)}, c16Ret(c16Bin("+", c16Var("m"), c16Var("r")))))
	for k, p := range progs { // every recursive body starts with a mark: it is the fuel (see c16mark)
		for _, f := range append([]*c16Fn{p.F}, p.Extra...) {
			f.Body = append([]*c16Stmt{{T: "mark", ID: 100 + k}}, f.Body...)
		}
	}
	for _, p := range progs {
		for d := 0; d <= 6 && !rep.Full(); d++ {
			sites := append([]string{"out"}, c16Sites(p.F.RT)...)
			for _, site := range sites {
				q := *p
				q.Mode, q.ArgForm, q.Site = "direct", "lit", site
				q.Args = []*c16Expr{c16Int(d)}
				switch len(p.F.Params) {
				case 2:
					if p.F.PT[1] == "str" {
						q.Args = append(q.Args, c16Str("k"))
					} else {
						q.Args = append(q.Args, c16Int(10))
					}
					if p.F.Params[0] == "acc" {
						q.Args[0], q.Args[1] = q.Args[1], q.Args[0]
					}
				case 3:
					q.Args = append(q.Args, c16Str("x"), c16Str("y"))
				}
				// literal to compare with: the right value for even depths, another one for odd depths
				if cs, ok := c16Build(&c16Prog{Extra: q.Extra, F: q.F, Mode: "direct", ArgForm: "lit", Args: q.Args, Site: "out", Rec: q.Rec}); ok {
					switch q.F.RT {
					case "int":
						v, _ := strconv.Atoi(cs.Want)
						q.Lit = c16Val{K: "int", I: v + d%2}
					case "str":
						q.Lit = c16Val{K: "str", S: cs.Want + []string{"", "q"}[d%2]}
					default:
						q.Lit = c16Val{K: "bool", B: (cs.Want == "true") != (d%2 == 1)}
					}
				}
				c16RunProg(rep, &q)
			}
		}
	}
}

func c16Generate(cfg Config, rep *Report, r *Rng) {
	c16Recursion(rep)
	c16Loops(cfg, rep, NewRng(cfg.Seed).Fork(1601))
	c16NilRecursion(rep)
	c16NilArgs(cfg, rep, NewRng(cfg.Seed).Fork(1603))
	c16Histories(cfg, rep, NewRng(cfg.Seed).Fork(1604))
	c16ScopeHistories(cfg, rep, NewRng(cfg.Seed).Fork(1605))
	c16NilRetRecursion(rep)
	c16ArrayReturns(rep)
	c16NilReturns(cfg, rep, NewRng(cfg.Seed).Fork(1606))
	c16FreshScope(cfg, rep, NewRng(cfg.Seed).Fork(1607))
	gn := &c16Gen{r: NewRng(cfg.Seed).Fork(1602)} // its own stream: the cases below this line are the same as before
	g := &c16Gen{r: r}
	nf := cfg.N(2500, 30000)
	for i := 0; i < nf && !rep.Full(); i++ {
		size := 2
		if i < nf/6 {
			size = i % 2 // small functions first: the report keeps the shortest failing case per family
		}
		g.marks, g.locs = 0, 0
		f := g.fn("f", size)
		tuples := c16Tuples(f.PT)
		type combo struct{ mode, form, site string }
		combos := []combo{{"direct", "lit", "out"}}
		for k := 0; k < 5; k++ {
			w := r.Intn(100)
			form := Pick(r, []string{"vars", "perm", "perm", "expr", "expr"})
			site := Pick(r, c16Sites(f.RT))
			switch {
			case w < 40:
				combos = append(combos, combo{"direct", form, "out"})
			case w < 75:
				combos = append(combos, combo{"direct", "lit", site})
			case w < 88:
				combos = append(combos, combo{Pick(r, []string{"stored", "passed", "passed-colliding"}), "lit", "out"})
			default:
				combos = append(combos, combo{"direct", form, site})
			}
		}
		for _, c := range combos {
			var args []*c16Expr
			if c.form != "lit" {
				var ok bool
				if args, ok = g.argExprs(f, c.form); !ok {
					rep.Tag("no-such-arg-form")
					continue
				}
			}
			if c.mode == "passed-colliding" && len(f.Params) < 2 {
				c.mode = "passed"
			}
			for ti, tu := range tuples {
				p := &c16Prog{F: f, Mode: c.mode, ArgForm: c.form, Site: c.site, Caller: tu, Args: args, Loop: c.form != "lit" && (ti+i)%6 == 0}
				if c.form == "lit" {
					p.Args = nil
					for _, v := range tu {
						p.Args = append(p.Args, c16Lit(v))
					}
				}
				// comparison literal: alternately the value the call should have and another one
				pool := c16Pools[f.RT]
				p.Lit = pool[(ti+i)%len(pool)]
				if ti%2 == 0 {
					if cs, ok := c16Build(&c16Prog{F: f, Mode: "direct", ArgForm: c.form, Caller: tu, Args: p.Args, Site: "out"}); ok {
						switch f.RT {
						case "int":
							if n, err := strconv.Atoi(cs.Want); err == nil && n >= 0 {
								p.Lit = c16Val{K: "int", I: n}
							}
						case "str":
							p.Lit = c16Val{K: "str", S: cs.Want}
						default:
							p.Lit = c16Val{K: "bool", B: cs.Want == "true"}
						}
					}
				}
				c16RunProg(rep, p)
			}
		}
		c16Nested(rep, gn, f, tuples, i, cfg.N(8, 5))
		// too few arguments: must not panic
		if len(f.Params) > 0 {
			tu := tuples[i%len(tuples)]
			p := &c16Prog{F: f, Mode: "direct", ArgForm: "lit", Site: "out", Few: 1 + r.Intn(len(f.Params))}
			for _, v := range tu {
				p.Args = append(p.Args, c16Lit(v))
			}
			c16RunProg(rep, p)
		}
	}
}
