package main

import (
	"strconv"
	"time"

	plush "github.com/gobuffalo/plush/v5"
)

// C03 oracle (model-free): Parse terminates and does not panic, on every generated input (stream C03-tok);
// every entry point agrees on it, on every call (stream C03-entry, oracle_c03_entry.go); the same over the whole
// byte range - NUL, control bytes, bytes >= 0x80 - in every scanner state (stream C03-bytes, oracle_c03_bytes.go).
func init() {
	oracles["C03"] = func(cfg Config) []*Report {
		rep := NewReport("C03", "C03-tok", cfg)
		rep.Rule = "token sequences: exhaustive <=k over the vocabulary in 7 framings, random soup, byte mutations of the repo's test templates, nesting to 256; also exhaustive short byte strings; non-trivial = contains a tag opener; distinct by input text"
		rep.Exhaustive = true
		check := func(src string) {
			if rep.Full() {
				return
			}
			o := safeCall(3*time.Second, func() (string, error) {
				_, err := plush.Parse(src)
				return "", err
			})
			rep.Count(strconv.Quote(src), len(src) > 2)
			rep.Tag(o.Kind())
			switch o.Kind() {
			case "PANIC":
				rep.Fail(Failure{Case: strconv.Quote(src), Kind: "panic", Site: o.Site,
					What: "Parse panicked: " + o.Panic})
			case "HANG":
				rep.Fail(Failure{Case: strconv.Quote(src), Kind: "hang", Site: "parser",
					What: "Parse did not return within 3s"})
			}
		}
		if _, _, ok := c03ParseEntryCase(cfg.Arg); ok {
			// a case of the entry-point/history stream (oracle_c03_entry.go)
			return []*Report{c03EntryStream(cfg)}
		}
		if cfg.Arg != "" {
			s, err := strconv.Unquote(cfg.Arg)
			if err != nil {
				s = cfg.Arg
			}
			check(s)
			return []*Report{rep}
		}
		genParseInputs(cfg, check)
		enumTexts(cfg.N(5, 7), check)
		e := c03EntryStart(cfg)
		bytes := c03BytesStream(cfg, e) // last: it ends the run at its first hang (see oracle_c03_bytes.go)
		return []*Report{rep, e.rep, bytes}
	}
}
